import AranyaV.Spec.Braid
/-!
# Model.Trx — transactions, commit and actions over an abstract storage

Functional transliteration of `crates/aranya-runtime/src/client/transaction.rs`
(`Transaction::{add_commands, add_single, add_merge, get_perspective, flush, commit, init}`,
`collapse_heads`, `fold_merge_pairs`) and `client.rs::ClientState::action`, *after* the repair of
F1/F1b/F6 (see notes/C06.md), including the error paths.

Storage is abstract:
* `Store.graph` — the committed commands (parents-first) each with the fact state stored after
  it (segments store one fact index per command); `Store.heads` — the committed `HeadSet`
  (ids ascending); `Store.stamp` — `heads_offset()`; `Store.facts` — the fact cache.
* `Trx.written` — commands in segments this transaction has written but not committed;
  `Trx.heads` — the keys of the `BTreeMap<CmdId, Location>` of written tips (ascending; map
  insertion on the key list is `Spec.hsPush`, the same sorted insert `HeadSet::push` does);
  `Trx.persp` — the in-flight perspective; `Trx.phead`; `Trx.pbase` — the tips the in-flight
  perspective covers (removed from `heads` when it was opened, still searched by `locate`,
  restored when the perspective is dropped without being written);
  `Trx.offset` = `original_heads_offset`.
* `locate` (search from the committed heads, then from the transaction's tips) is modelled by
  membership in `graph` / `written`: every written segment is reachable from a tip (`TipsInv`,
  Props.C09), and the committed graph is by definition what is reachable from the committed heads.

The policy is the audit policy of the harness (`Spec.rule`); no theorem depends on what the
rule computes, only on its accept/reject answer.
-/
namespace AranyaV.Trx
open AranyaV.Spec AranyaV.Gen

/-- a stored command together with the fact state stored after it -/
structure SCmd where
  cmd : Cmd
  st  : Facts
deriving Repr, Inhabited

/-- a delivered command: `pol` = carries policy bytes (`Command::policy().is_some()`) -/
structure In where
  cmd : Cmd
  pol : Bool
deriving Repr, Inhabited

inductive Err where
  | initError | noSuchParent | rejected | parallelFinalize | concurrentTransaction
  | noSuchStorage | emptyPerspective | storageExists | bug
  /-- inputs the Rust types cannot express or the harness never builds (a merge of a command
  with itself; an action whose published commands are not chained on the head; an id of a
  freshly created command that already exists) -/
  | malformed
deriving Repr, DecidableEq, Inhabited

inductive SinkEv where
  | begin | consume (cmd n : Nat) | rollback | commit
deriving Repr, DecidableEq, Inhabited

structure Store where
  graph : List SCmd
  heads : List Nat
  stamp : Nat
  facts : Facts
deriving Repr, Inhabited

/-- in-flight perspective: `prior` = what it extends (`[p]` linear, `[l, r]` merge), its own
commands, and its current fact state -/
structure Persp where
  prior : List Nat
  cmds  : List SCmd
  facts : Facts
deriving Repr, Inhabited

structure Trx where
  offset  : Option Nat := none
  persp   : Option Persp := none
  phead   : Option Nat := none
  pbase   : List Nat := []
  heads   : List Nat := []
  written : List SCmd := []
deriving Repr, Inhabited

def cmds (l : List SCmd) : Graph := l.map (·.cmd)
def hasId (l : List SCmd) (i : Nat) : Bool := l.any (fun c => c.cmd.id == i)
def stateOf (l : List SCmd) (i : Nat) : Option Facts := (l.find? (fun c => c.cmd.id == i)).map (·.st)

/-- `Transaction::locate` -/
def locate (st : Store) (t : Trx) (i : Nat) : Bool := hasId st.graph i || hasId t.written i

/-- the stored fact state a new linear perspective starts from -/
def storedState (st : Store) (t : Trx) (i : Nat) : Option Facts :=
  match stateOf st.graph i with
  | some s => some s
  | none => stateOf t.written i

def consumes (c : Nat) (fx : List Nat) : List SinkEv := fx.map (SinkEv.consume c)

/-- `storage.write(p)` fails on a perspective without commands -/
def flushErr (t : Trx) : Bool :=
  match t.persp with
  | some p => p.cmds.isEmpty
  | none => false

/-- state after `Transaction::flush` (also called by `get_perspective` and `add_merge`):
`take(&mut self.perspective)`, reset `phead`, clear `pbase`, write the segment, record the new
segment head as a tip -/
def flushT (t : Trx) : Trx :=
  match t.persp with
  | none => t
  | some p =>
    match p.cmds.getLast? with
    | none => { t with persp := none, phead := none, pbase := [] }
    | some c => { t with persp := none, phead := none, pbase := [], written := t.written ++ p.cmds,
                         heads := hsPush t.heads c.cmd.id }

/-- fold the rule over a braid order, collecting the effects (rejections inside a braid are
skipped, their partial writes and effects stay — `evaluate_braid` has no revert) -/
def applyOrderFx (g : Graph) (order : List Nat) (s : Facts) : Facts × List (Nat × Nat) :=
  order.foldl (fun (acc : Facts × List (Nat × Nat)) i => match g.find? i with
    | some c => let r := rule c acc.1; (r.1, acc.2 ++ r.2.2.map (fun n => (i, n)))
    | none => acc) (s, [])

/-- `evaluate_braid`: facts of the braid of `heads` and the effects it emits -/
def braidFacts (g : List SCmd) (heads : List Nat) : Except Err (Facts × List (Nat × Nat)) :=
  match refBraid (cmds g) heads with
  | .error .parallelFinalize => .error .parallelFinalize
  | .error .malformed => .error .bug
  | .ok (start, order) =>
    match stateOf g start with
    | none => .error .bug
    | some s => .ok (applyOrderFx (cmds g) order s)

def braidEvs (fx : List (Nat × Nat)) : List SinkEv :=
  [SinkEv.begin] ++ fx.map (fun e => SinkEv.consume e.1 e.2) ++ [SinkEv.commit]

abbrev Step := Trx × List SinkEv × Option Err

/-- rule evaluation of `add_single` on the perspective `ps` (already stored in `t`) -/
def evalSingle (t : Trx) (ps : Persp) (fresh : Bool) (sink : List SinkEv) (c : Cmd) : Step :=
  let r := rule c ps.facts
  let evs := [SinkEv.begin] ++ consumes c.id r.2.2
  if r.2.1 then
    let ps' : Persp := { ps with cmds := ps.cmds ++ [⟨c, r.1⟩], facts := r.1 }
    ({ t with persp := some ps', phead := some c.id }, sink ++ evs ++ [SinkEv.commit], none)
  else
    -- revert to the checkpoint (the perspective keeps `ps.facts`), roll the sink back, and
    -- drop a perspective that was opened just for this command, making the tips it covered
    -- tips again (F1 repair)
    ((if fresh then { t with persp := none, phead := none, heads := t.pbase.foldl hsPush t.heads, pbase := [] }
      else t),
      sink ++ evs ++ [SinkEv.rollback], some .rejected)

/-- `add_single` (with `get_perspective` inlined) -/
def addSingle (st : Store) (t : Trx) (sink : List SinkEv) (c : Cmd) (p : Nat) : Step :=
  if t.phead = some p then
    match t.persp with
    | none => (t, sink, some .bug)            -- assume("trx has perspective when has phead")
    | some ps => evalSingle t ps false sink c
  else if flushErr t then (flushT t, sink, some .emptyPerspective)
  else
    let t1 := flushT t
    match storedState st t1 p with
    | none => (t1, sink, some .noSuchParent)
    | some s =>
      let ps : Persp := { prior := [p], cmds := [], facts := s }
      -- `self.pbase = self.heads.remove_entry(&parent.id).into_iter().collect()`
      evalSingle { t1 with persp := some ps, phead := some p, heads := t1.heads.erase p,
                           pbase := if t1.heads.contains p then [p] else [] } ps true sink c

/-- the graph a transaction braids over: committed commands and its own written segments -/
def viewOf (st : Store) (t : Trx) : List SCmd :=
  st.graph ++ t.written.filter (fun c => !hasId st.graph c.cmd.id)

/-- `add_merge` -/
def addMerge (st : Store) (t : Trx) (sink : List SinkEv) (c : Cmd) (l r : Nat) : Step :=
  if flushErr t then (flushT t, sink, some .emptyPerspective)
  else
    let t1 := flushT t
    if !locate st t1 l then (t1, sink, some .noSuchParent)
    else if !locate st t1 r then (t1, sink, some .noSuchParent)
    else if l = r then (t1, sink, some .malformed)
    else
      match braidFacts (viewOf st t1) [l, r] with
      | .error e => (t1, sink, some e)
      | .ok (s, fx) =>
        let ps : Persp := { prior := [l, r], cmds := [⟨c, s⟩], facts := s }
        ({ t1 with persp := some ps, phead := some c.id, heads := (t1.heads.erase l).erase r,
                   pbase := [l, r].filter (t1.heads.contains ·) }, sink ++ braidEvs fx, none)

def perspIncludes (t : Trx) (i : Nat) : Bool :=
  match t.persp with
  | some p => hasId p.cmds i
  | none => false

/-- the `for command in commands` loop of `add_commands` -/
def addLoop (gid : Nat) (st : Store) : Trx → List SinkEv → List In → Nat → Trx × List SinkEv × Except Err Nat
  | t, sink, [], n => (t, sink, .ok n)
  | t, sink, i :: rest, n =>
    if perspIncludes t i.cmd.id || locate st t i.cmd.id then addLoop gid st t sink rest n
    else
      match i.cmd.parents with
      | [] => if i.cmd.id = gid then addLoop gid st t sink rest n else (t, sink, .error .initError)
      | [p] =>
        match addSingle st t sink i.cmd p with
        | (t', sink', none) => addLoop gid st t' sink' rest (n + 1)
        | (t', sink', some e) => (t', sink', .error e)
      | [l, r] =>
        match addMerge st t sink i.cmd l r with
        | (t', sink', none) => addLoop gid st t' sink' rest (n + 1)
        | (t', sink', some e) => (t', sink', .error e)
      | _ => (t, sink, .error .malformed)

/-- `Transaction::init`: the checks, the rule, `new_storage` -/
def initCmd (gid : Nat) (i : In) (sink : List SinkEv) : List SinkEv × Except Err Store :=
  if i.cmd.id ≠ gid then (sink, .error .initError)
  else if i.cmd.parents ≠ [] then (sink, .error .initError)
  else if !i.pol then (sink, .error .initError)
  else
    let r := rule i.cmd {}
    let evs := [SinkEv.begin] ++ consumes i.cmd.id r.2.2
    if r.2.1 then
      (sink ++ evs ++ [SinkEv.commit],
        .ok { graph := [⟨i.cmd, r.1⟩], heads := [i.cmd.id], stamp := 0, facts := r.1 })
    else (sink ++ evs ++ [SinkEv.rollback], .error .rejected)

/-- first use of a transaction: copy the committed heads, remember the stamp -/
def snapshot (st : Store) (t : Trx) : Trx :=
  match t.offset with
  | some _ => t
  | none => { t with heads := st.heads.foldl hsPush t.heads, offset := some st.stamp }

structure Client where
  gid   : Nat
  store : Option Store := none
  trxs  : List (Nat × Trx) := []
  sink  : List SinkEv := []
deriving Repr, Inhabited

/-- `add_commands` on transaction `t`: new store, new transaction, new sink, result -/
def addCommands (gid : Nat) (store : Option Store) (t : Trx) (sink : List SinkEv) (batch : List In) :
    Option Store × Trx × List SinkEv × Except Err Nat :=
  match store with
  | some st =>
    let r := addLoop gid st (snapshot st t) sink batch 0
    (some st, r.1, r.2.1, r.2.2)
  | none =>
    match batch with
    | [] => (none, t, sink, .error .initError)
    | i :: rest =>
      match initCmd gid i sink with
      | (sink', .error e) => (none, t, sink', .error e)
      | (sink', .ok st) =>
        let r := addLoop gid st (snapshot st t) sink' rest 1
        (some st, r.1, r.2.1, r.2.2)

/-- `commit`: the transaction is consumed; result `(store', sink', Ok(bool) | Err)` -/
def commit (store : Option Store) (t : Trx) (sink : List SinkEv) : Option Store × List SinkEv × Except Err Bool :=
  match store with
  | none => (none, sink, .error .noSuchStorage)
  | some st =>
    match t.offset with
    | none => (some st, sink, .ok false)
    | some o =>
      if o ≠ st.stamp then (some st, sink, .error .concurrentTransaction)
      else if flushErr t then (some st, sink, .error .emptyPerspective)
      else
        let t1 := flushT t
        if t1.heads.isEmpty then (some st, sink, .ok false)
        else
          -- `HeadSet::push` for every tip, in key order
          let hs := t1.heads.foldl hsPush []
          let g' := st.graph ++ t1.written
          match hs with
          | [h] =>
            match stateOf g' h with
            | none => (some st, sink, .error .bug)
            | some s => (some { graph := g', heads := hs, stamp := st.stamp + 1, facts := s }, sink, .ok true)
          | _ =>
            match braidFacts g' hs with
            | .error e => (some st, sink, .error e)
            | .ok (s, fx) =>
              (some { graph := g', heads := hs, stamp := st.stamp + 1, facts := s }, sink ++ braidEvs fx, .ok true)

/-- `collapse_heads` / `fold_merge_pairs`: pop two, merge, push back; `ms` are the merge commands
`policy.merge` builds (their ids are hashes — an input of the model); the braids run on a null sink -/
def collapse (g : List SCmd) : List Nat → List Cmd → Nat → Except Err (List SCmd × Nat)
  | [], _, _ => .error .bug
  | [h], _, _ => .ok (g, h)
  | _ :: _ :: _, _, 0 => .error .bug
  | l :: r :: q, ms, fuel + 1 =>
    match ms with
    | [] => .error .malformed
    | m :: ms' =>
      -- `MergeIds::new` orders the pair by id; equal ids cannot be merged
      if m.parents ≠ [min l r, max l r] ∨ l = r ∨ hasId g m.id then .error .malformed
      else
        match braidFacts g [min l r, max l r] with
        | .error e => .error e
        | .ok (s, _) => collapse (g ++ [⟨m, s⟩]) (q ++ [m.id]) ms' fuel

/-- the publish loop of `call_action`: every command is evaluated on the perspective and added;
a rejection aborts.  Returns the effects emitted so far and either the failure or the new
commands with the final fact state. -/
def publish (g : List SCmd) : List Cmd → Nat → Facts → List SCmd → List SinkEv →
    List SinkEv × Except Err (List SCmd × Facts)
  | [], _, s, acc, evs => (evs, .ok (acc, s))
  | c :: rest, head, s, acc, evs =>
    if c.parents ≠ [head] ∨ hasId (g ++ acc) c.id then (evs, .error .malformed)
    else
      let r := rule c s
      let evs' := evs ++ consumes c.id r.2.2
      if r.2.1 then publish g rest c.id r.1 (acc ++ [⟨c, r.1⟩]) evs'
      else (evs', .error .rejected)

/-- `ClientState::action` publishing `pubs` (after collapsing the heads with merges `ms`) -/
def action (store : Option Store) (sink : List SinkEv) (ms pubs : List Cmd) :
    Option Store × List SinkEv × Except Err Unit :=
  match store with
  | none => (none, sink, .error .noSuchStorage)
  | some st =>
    match collapse st.graph st.heads ms st.heads.length with
    | .error e => (some st, sink, .error e)
    | .ok (g1, h) =>
      match stateOf g1 h with
      | none => (some st, sink, .error .bug)
      | some s =>
        match publish g1 pubs h s [] [] with
        | (evs, .error .malformed) => (some st, sink, .error .malformed)
        | (evs, .error e) => (some st, sink ++ [SinkEv.begin] ++ evs ++ [SinkEv.rollback], .error e)
        | (evs, .ok (new, s')) =>
          match new.getLast? with
          | none => (some st, sink ++ [SinkEv.begin] ++ evs, .error .emptyPerspective)
          | some c =>
            (some { graph := g1 ++ new, heads := [c.cmd.id], stamp := st.stamp + 1, facts := s' },
              sink ++ [SinkEv.begin] ++ evs ++ [SinkEv.commit], .ok ())

/-- `ClientState::new_graph` for the graph `gid`: the policy's action publishes the init command
(parentless, its id is the graph id by definition) and possibly more commands chained on it, all
evaluated on one fresh perspective; a rejection rolls the sink back and creates nothing; otherwise
the sink is committed and `new_storage` stores the whole perspective as the graph whose id is the id
of its FIRST command — it fails for an empty perspective and for a graph that already exists. -/
def newGraph (gid : Nat) (store : Option Store) (sink : List SinkEv) (pubs : List Cmd) :
    Option Store × List SinkEv × Except Err Unit :=
  match pubs with
  | [] => (store, sink ++ [SinkEv.begin, SinkEv.commit], .error .emptyPerspective)
  | c0 :: rest =>
    if c0.parents ≠ [] ∨ c0.id ≠ gid then (store, sink, .error .malformed)
    else if (rule c0 {}).2.1 then
      match publish [] rest c0.id (rule c0 {}).1 [⟨c0, (rule c0 {}).1⟩] (consumes c0.id (rule c0 {}).2.2) with
      | (_, .error .malformed) => (store, sink, .error .malformed)
      | (evs, .error e) => (store, sink ++ [SinkEv.begin] ++ evs ++ [SinkEv.rollback], .error e)
      | (evs, .ok (new, s')) =>
        match store with
        | some st => (some st, sink ++ [SinkEv.begin] ++ evs ++ [SinkEv.commit], .error .storageExists)
        | none =>
          match new.getLast? with
          | none => (none, sink ++ [SinkEv.begin] ++ evs ++ [SinkEv.commit], .error .bug)
          | some l =>
            (some { graph := new, heads := [l.cmd.id], stamp := 0, facts := s' },
              sink ++ [SinkEv.begin] ++ evs ++ [SinkEv.commit], .ok ())
    else
      (store, sink ++ [SinkEv.begin] ++ consumes c0.id (rule c0 {}).2.2 ++ [SinkEv.rollback], .error .rejected)

/-! ## The client as a labelled transition system (C08) -/

inductive Op where
  | openT (slot : Nat)
  | dropT (slot : Nat)
  | add (slot : Nat) (batch : List In)
  | flush (slot : Nat)
  | commit (slot : Nat)
  | action (ms pubs : List Cmd)
  | newGraph (pubs : List Cmd)
deriving Repr, Inhabited

inductive Res where
  | done
  | count (n : Nat)
  | committed (b : Bool)
  | err (e : Err)
  | noTrx
deriving Repr, DecidableEq, Inhabited

def getSlot (l : List (Nat × Trx)) (s : Nat) : Option Trx := (l.find? (fun x => x.1 == s)).map (·.2)
def dropSlot (l : List (Nat × Trx)) (s : Nat) : List (Nat × Trx) := l.filter (fun x => x.1 != s)
def setSlot (l : List (Nat × Trx)) (s : Nat) (t : Trx) : List (Nat × Trx) := (s, t) :: dropSlot l s

def step (cl : Client) : Op → Client × Res
  | .openT s => ({ cl with trxs := setSlot cl.trxs s {} }, .done)
  | .dropT s => ({ cl with trxs := dropSlot cl.trxs s }, .done)
  | .add s batch =>
    match getSlot cl.trxs s with
    | none => (cl, .noTrx)
    | some t =>
      let r := addCommands cl.gid cl.store t cl.sink batch
      ({ cl with store := r.1, trxs := setSlot cl.trxs s r.2.1, sink := r.2.2.1 },
        match r.2.2.2 with
        | .ok n => .count n
        | .error e => .err e)
  | .flush s =>
    match getSlot cl.trxs s with
    | none => (cl, .noTrx)
    | some t =>
      match cl.store with
      | none => (cl, .err .noSuchStorage)
      | some _ =>
        ({ cl with trxs := setSlot cl.trxs s (flushT t) },
          if flushErr t then .err .emptyPerspective else .done)
  | .commit s =>
    match getSlot cl.trxs s with
    | none => (cl, .noTrx)
    | some t =>
      let r := commit cl.store t cl.sink
      ({ cl with store := r.1, trxs := dropSlot cl.trxs s, sink := r.2.1 },
        match r.2.2 with
        | .ok b => .committed b
        | .error e => .err e)
  | .action ms pubs =>
    let r := action cl.store cl.sink ms pubs
    ({ cl with store := r.1, sink := r.2.1 },
      match r.2.2 with
      | .ok _ => .done
      | .error e => .err e)
  | .newGraph pubs =>
    let r := newGraph cl.gid cl.store cl.sink pubs
    ({ cl with store := r.1, sink := r.2.1 },
      match r.2.2 with
      | .ok _ => .done
      | .error e => .err e)

def run (cl : Client) (ops : List Op) : Client := ops.foldl (fun c o => (step c o).1) cl

end AranyaV.Trx
