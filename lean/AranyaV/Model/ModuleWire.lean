import AranyaV.Model.Wire
import AranyaV.Model.FactKey
/-!
# Model.ModuleWire — postcard + serde-derive layout of a policy `ModuleV0` (C28, import-free)

Builds on the postcard wire primitives of `AranyaV.Wire` (varints, zig-zag, length-prefixed bytes,
bools: builder-B's model for C18/C26).  What is added here is what `ModuleV0` needs and the sync
messages do not: `i64`, strings with their validity checks (`String` / `Text` / `Identifier`),
`Option`, unbounded sequences (`Vec`, `Box<[T]>`), maps (`BTreeMap`), `NonZeroUsize`, and
recursive types.

* `Val`  — the serde data model tree of a value (what `Serialize` walks): field names are dropped,
  structs / tuples / variant payloads are `tup`, enum variants carry their index.
* `Sch`  — the shape a `Deserialize` impl expects; generated from the Rust declarations by
  `tools/items/module_schema.py` (`AranyaV.Gen.ModuleSchema`).
* `enc : Val → Bytes` — what `postcard::to_allocvec` writes (schema-free: the tree determines it).
* `dec : Sch → Bytes → Except PErr (Val × Bytes)` — what `postcard::take_from_bytes` reads.

Deviations, stated exactly:
* recursive Rust types are families `Nat → Sch` indexed by remaining nesting depth (`Sch.fail` at
  depth 0 ⇒ `PErr.depth`); the real decoder has no depth limit (it recurses on the machine stack);
* `BTreeMap` is `Sch.map`: a sequence of `(key, value)` pairs whose keys must be strictly ascending
  (`vlt`: strings bytewise, numbers numerically, tuples lexicographically, variants by index) —
  the canonical form `Serialize` always produces.  The real `Deserialize` also ACCEPTS unsorted or
  duplicate keys and normalises them; the model rejects those (`PErr.custom`).
-/
namespace AranyaV.ModuleWire
open AranyaV.Wire

/-- which validity check a string field applies after `from_utf8` -/
inductive StrKind
  | any      -- `String`
  | text     -- `aranya_policy_text::Text`: no NUL byte
  | ident    -- `Identifier`: `[a-zA-Z][a-zA-Z0-9_]*`
  deriving DecidableEq, Repr, Inhabited

def strOk : StrKind → Bytes → Bool
  | .any, s => validUtf8 s
  | .text, s => validUtf8 s && AranyaV.FactKey.textOk s
  | .ident, s => validUtf8 s && AranyaV.FactKey.identOk s

inductive Sch
  | u                      -- `usize` / `u64`: varint(64)
  | nz                     -- `NonZeroUsize`: varint(64), zero rejected
  | i64                    -- zig-zag varint(64)
  | bool
  | str (k : StrKind)      -- varint length, bytes, UTF-8 + `k`'s check
  | opt (s : Sch)          -- one tag byte 0 / 1
  | seq (s : Sch)          -- `Vec<T>` / `Box<[T]>`: varint length, elements
  | map (entry : Sch)      -- `BTreeMap<K, V>`: like `seq` of `tup [K, V]`, keys strictly ascending
  | tup (ss : List Sch)    -- struct / tuple / variant payload: the fields in order, no framing
  | enum (vs : List Sch)   -- derived enum: variant index as varint(32), then the payload
  | fail                   -- nesting depth exhausted
  deriving Repr, Inhabited

inductive Val
  | u (n : Nat)
  | i (x : Int)
  | b (b : Bool)
  | str (s : Bytes)
  | none
  | some (v : Val)
  | seq (vs : List Val)
  | tup (vs : List Val)
  | var (idx : Nat) (v : Val)
  deriving Repr, Inhabited

inductive PErr
  | eof | badVarint | badBool | badOption | custom | depth
  deriving DecidableEq, Repr, Inhabited

def liftW : Wire.Err → PErr
  | .eof => .eof
  | .bad => .badVarint

abbrev Res := Except PErr (Val × Bytes)

/-! ## encoding -/

mutual
def enc : Val → Bytes
  | .u n => varintEnc 64 n
  | .i x => i64Enc x
  | .b b => boolEnc b
  | .str s => bytesEnc s
  | .none => [0]
  | .some v => 1 :: enc v
  | .seq vs => varintEnc 64 vs.length ++ encList vs
  | .tup vs => encList vs
  | .var idx v => varintEnc 32 idx ++ enc v
def encList : List Val → Bytes
  | [] => []
  | v :: vs => enc v ++ encList vs
end

/-! ## key order of maps (Rust `Ord` of the key types that occur: `Identifier`, `Label`) -/

mutual
def veq : Val → Val → Bool
  | .u a, .u b => decide (a = b)
  | .i a, .i b => decide (a = b)
  | .b a, .b b => a == b
  | .str a, .str b => a == b
  | .none, .none => true
  | .some a, .some b => veq a b
  | .seq as, .seq bs => veqList as bs
  | .tup as, .tup bs => veqList as bs
  | .var i v, .var j w => decide (i = j) && veq v w
  | _, _ => false
def veqList : List Val → List Val → Bool
  | [], [] => true
  | a :: as, b :: bs => veq a b && veqList as bs
  | _, _ => false
end

mutual
def vlt : Val → Val → Bool
  | .str a, .str b => AranyaV.FactKey.blt a b
  | .u a, .u b => decide (a < b)
  | .i a, .i b => decide (a < b)
  | .var i v, .var j w => decide (i < j) || (decide (i = j) && vlt v w)
  | .tup as, .tup bs => vltList as bs
  | _, _ => false
def vltList : List Val → List Val → Bool
  | a :: as, b :: bs => vlt a b || (veq a b && vltList as bs)
  | _, _ => false
end

/-- key of a map entry `tup [k, v]` -/
def keyOf : Val → Val
  | .tup (k :: _) => k
  | v => v

/-- strictly ascending keys -/
def ascending : List Val → Bool
  | a :: b :: rest => vlt (keyOf a) (keyOf b) && ascending (b :: rest)
  | _ => true

/-! ## decoding -/

def decU (bits : Nat) (bs : Bytes) : Except PErr (Nat × Bytes) :=
  match varintDec bits bs with
  | .ok r => .ok r
  | .error e => .error (liftW e)

/-- `n` announced elements, each decoded by `f` -/
def decElems (f : Bytes → Res) : Nat → Bytes → Except PErr (List Val × Bytes)
  | 0, bs => .ok ([], bs)
  | n + 1, bs =>
    match f bs with
    | .error e => .error e
    | .ok (v, rest) =>
      match decElems f n rest with
      | .ok (vs, r) => .ok (v :: vs, r)
      | .error e => .error e

mutual
def dec : Sch → Bytes → Res
  | .u, bs =>
    match decU 64 bs with
    | .ok (n, rest) => .ok (.u n, rest)
    | .error e => .error e
  | .nz, bs =>
    match decU 64 bs with
    | .ok (n, rest) => if n = 0 then .error .custom else .ok (.u n, rest)
    | .error e => .error e
  | .i64, bs =>
    match i64Dec bs with
    | .ok (x, rest) => .ok (.i x, rest)
    | .error e => .error (liftW e)
  | .bool, bs =>
    match bs with
    | [] => .error .eof
    | b :: rest =>
      if b = 0 then .ok (.b false, rest) else if b = 1 then .ok (.b true, rest) else .error .badBool
  | .str k, bs =>
    match decU 64 bs with
    | .error e => .error e
    | .ok (len, rest) =>
      match takeN len rest with
      | .error _ => .error .eof
      | .ok (s, rest') => if strOk k s then .ok (.str s, rest') else .error .custom
  | .opt s, bs =>
    match bs with
    | [] => .error .eof
    | b :: rest =>
      if b = 0 then .ok (.none, rest)
      else if b = 1 then
        match dec s rest with
        | .ok (v, r) => .ok (.some v, r)
        | .error e => .error e
      else .error .badOption
  | .seq s, bs =>
    match decU 64 bs with
    | .error e => .error e
    | .ok (len, rest) =>
      match decElems (dec s) len rest with
      | .ok (vs, r) => .ok (.seq vs, r)
      | .error e => .error e
  | .map e, bs =>
    match decU 64 bs with
    | .error err => .error err
    | .ok (len, rest) =>
      match decElems (dec e) len rest with
      | .ok (vs, r) => if ascending vs then .ok (.seq vs, r) else .error .custom
      | .error err => .error err
  | .tup ss, bs =>
    match decTuple ss bs with
    | .ok (vs, r) => .ok (.tup vs, r)
    | .error e => .error e
  | .enum vs, bs =>
    match decU 32 bs with
    | .error e => .error e
    | .ok (idx, rest) =>
      match decVariant vs idx rest with
      | .ok (v, r) => .ok (.var idx v, r)
      | .error e => .error e
  | .fail, _ => .error .depth
def decTuple : List Sch → Bytes → Except PErr (List Val × Bytes)
  | [], bs => .ok ([], bs)
  | s :: ss, bs =>
    match dec s bs with
    | .error e => .error e
    | .ok (v, rest) =>
      match decTuple ss rest with
      | .ok (vs, r) => .ok (v :: vs, r)
      | .error e => .error e
/-- payload of variant number `idx`; an index past the end is serde's `invalid_value` -/
def decVariant : List Sch → Nat → Bytes → Res
  | [], _, _ => .error .custom
  | s :: _, 0, bs => dec s bs
  | _ :: ss, idx + 1, bs => decVariant ss idx bs
end

/-- `postcard::from_bytes::<T>` (trailing bytes are ignored, as the real function does) -/
def fromBytes (s : Sch) (bs : Bytes) : Except PErr Val :=
  match dec s bs with
  | .ok (v, _) => .ok v
  | .error e => .error e

/-! ## well-formed values: what Rust values of the type always are -/

mutual
def wf : Sch → Val → Bool
  | .u, .u n => decide (n < 2 ^ 64)
  | .nz, .u n => decide (0 < n) && decide (n < 2 ^ 64)
  | .i64, .i x => decide (inI64 x)
  | .bool, .b _ => true
  | .str k, .str s => strOk k s && decide (s.length < 2 ^ 64)
  | .opt _, .none => true
  | .opt s, .some v => wf s v
  | .seq s, .seq vs => decide (vs.length < 2 ^ 64) && vs.all (fun v => wf s v)
  | .map e, .seq vs => decide (vs.length < 2 ^ 64) && vs.all (fun v => wf e v) && ascending vs
  | .tup ss, .tup vs => wfTuple ss vs
  | .enum vs, .var i v => decide (i < 2 ^ 32) && wfVariant vs i v
  | _, _ => false
def wfTuple : List Sch → List Val → Bool
  | [], [] => true
  | s :: ss, v :: vs => wf s v && wfTuple ss vs
  | _, _ => false
def wfVariant : List Sch → Nat → Val → Bool
  | [], _, _ => false
  | s :: _, 0, v => wf s v
  | _ :: ss, i + 1, v => wfVariant ss i v
end

end AranyaV.ModuleWire
