import AranyaV.Gen.VMInstr
/-!
# Model of the policy VM's `RunState::step` / `run` (C25)

Functional transliteration of `crates/aranya-policy-vm/src/machine.rs::RunState::step`
(+ `scope.rs`, `stack.rs`, the `Value` conversions of `data.rs`).  `&mut self` becomes a state
monad `M` over `RunState`; `?` becomes the `err` result; every Rust construct in `step` that can
panic is an explicit `hostPanic` (`Res.panic`):

| Rust                                                   | model                                   |
|--------------------------------------------------------|-----------------------------------------|
| `self.machine.progmem[self.pc()]`                      | `step`: `progmem[pc]? = none`           |
| `Instruction::Next/Last => todo!()` (before the fix)   | `execNextLast` (flag generated)         |
| inner `_ => unreachable!()` of Add/Sub, Sat*, Gt/Lt/Eq | `arith`, `satArith`, `compare`          |
| `x.checked_add(1).assume(..)` (`buggy`: panics when `debug_assertions`) | `checkedInc`, `countRows` |
| `Vec::with_capacity(n)` in `MStructSet` (before the fix) | `mstructAlloc` (flag generated)       |
| `assert!(pos < text.len())` in `SpannedText::linecol` on the error path (before the fix) | `linecol`/`locate` (flag generated) |

Machine I/O (`MachineIO`: facts, effects, FFI) and the struct codec of `serialize.rs` are
*parameters*: each step consumes a list of `IoRes` answers chosen by the environment.
The instruction set (`Instr`), `ExitReason`, `WrapType`, `Target` and `stackSize` are generated
from the Rust source (`AranyaV.Gen.VMInstr`).
-/
namespace AranyaV.VM

/-- classes of `MachineErrorType` -/
inductive Err where
  | stackUnderflow | stackOverflow | alreadyDefined | notDefined | invalidType
  | invalidStructMember | invalidFact | invalidSchema | unresolvedTarget | invalidAddress
  | badState | integerOverflow | invalidInstruction | callStack | io | ffiModuleNotDefined
  | ffiProcedureNotDefined | contextMismatch | serialize | deserialize | bug | unknown
deriving Repr, DecidableEq, Inhabited

/-- `CommandContext` (only what `step` looks at) -/
inductive Ctx where
  | action (name : Nat) | policy (name : Nat) | recall (name : Nat) | seal (name : Nat) | opn (name : Nat)
deriving Repr, DecidableEq, Inhabited

/-- one result of a `fact_query` iterator: `none` = `Err(MachineIOError)` -/
abbrev Row := Option (List (Nat × HV) × Fields)

/-- what an FFI procedure may do with the stack it is handed (`&mut impl Stack`) -/
inductive StackOp where
  | pop | push (v : Value)
deriving Inhabited

/-- one answer of the environment -/
inductive IoRes where
  /-- `fact_insert` / `fact_delete` -/
  | unit (ok : Bool)
  /-- `fact_query`: `none` = `Err` -/
  | rows (r : Option (List Row))
  /-- `MachineIO::call` -/
  | ext (ops : List StackOp) (ok : Bool)
  /-- `serialize_struct` / `deserialize_struct`: `none` = `Err` -/
  | codec (r : Option Value)
deriving Inhabited

structure FactDef where
  keys : List (Nat × Ty)
  vals : List (Nat × Ty)
deriving Inhabited

/-- `CodeMap`: source text (bytes; the tie uses ASCII texts) and the sorted
instruction → span table -/
structure CodeMap where
  text : List Nat
  mapping : List (Nat × Nat × Nat)
deriving Inhabited

structure Machine where
  progmem : List Instr
  globals : List (Nat × Value)
  structDefs : List (Nat × List (Nat × Ty))
  factDefs : List (Nat × FactDef)
  /-- `labels: BTreeMap<Label, usize>`, `Label = (name, LabelType)` -/
  labels : List ((Nat × LabelType) × Nat) := []
  /-- `action_defs`: name ↦ parameters -/
  actionDefs : List (Nat × List (Nat × Ty)) := []
  /-- `command_defs`: name ↦ fields -/
  commandDefs : List (Nat × List (Nat × Ty)) := []
  /-- `codemap: Option<CodeMap>` -/
  codemap : Option CodeMap := none
deriving Inhabited

structure RunState where
  pc : Nat
  /-- head = top of stack -/
  stack : List Value
  /-- head = most recent -/
  callState : List Nat
  /-- function scopes (head = current), each a list of blocks (head = innermost) -/
  scope : List (List (List (Nat × Value)))
  ctx : Ctx
  /-- `query_iter_stack` (head = last): remaining rows of each open iterator -/
  iters : List (List Row)
  /-- remaining environment answers for the current step -/
  io : List IoRes
  /-- set by the error sites whose `MachineError` is built WITHOUT a source position (plain `?`
  conversions from `MachineErrorType` / `MachineIOError`, `MachineError::new`); every other error goes
  through `self.err(..)` / `from_position`, which looks the position up in the code map -/
  errNoPos : Bool := false
deriving Inhabited

def RunState.init (ctx : Ctx) : RunState :=
  { pc := 0, stack := [], callState := [], scope := [[[]]], ctx := ctx, iters := [], io := [] }

def usizeMax : Nat := 2 ^ 64 - 1
def isizeMax : Nat := 2 ^ 63 - 1
def i64Max : Int := 2 ^ 63 - 1
def i64Min : Int := -(2 ^ 63)

/-! ## the state/error/panic monad -/

inductive Res (α : Type) where
  | ok (a : α) (s : RunState)
  | err (e : Err) (s : RunState)
  | panic

def M (α : Type) := RunState → Res α

@[inline] def M.pure {α} (a : α) : M α := fun s => .ok a s
@[inline] def M.bind {α β} (m : M α) (f : α → M β) : M β := fun s =>
  match m s with
  | .ok a s' => f a s'
  | .err e s' => .err e s'
  | .panic => .panic

instance : Monad M where
  pure := M.pure
  bind := M.bind

def throw {α} (e : Err) : M α := fun s => .err e s
/-- an error built without a source position -/
def throwNoPos {α} (e : Err) : M α := fun s => .err e { s with errNoPos := true }
/-- `m`'s errors are propagated by a plain `?` (no position attached) -/
def noPos {α} (m : M α) : M α := fun s =>
  match m s with
  | .err e s' => .err e { s' with errNoPos := true }
  | r => r
/-- a Rust panic -/
def hostPanic {α} : M α := fun _ => .panic
def liftE {α} (x : Except Err α) : M α := fun s =>
  match x with
  | .ok a => .ok a s
  | .error e => .err e s

/-! ## stack (`MachineStack`, `Stack`) -/

def push (v : Value) : M Unit := fun s =>
  if s.stack.length < stackSize then .ok () { s with stack := v :: s.stack } else .err .stackOverflow s

def popValue : M Value := fun s =>
  match s.stack with
  | [] => .err .stackUnderflow s
  | v :: r => .ok v { s with stack := r }

/-- `let _ = self.stack.pop_value();` -/
def popIgnore : M Unit := fun s => .ok () { s with stack := s.stack.tail }

def peekValue : M Value := fun s =>
  match s.stack with
  | [] => .err .stackUnderflow s
  | v :: _ => .ok v s

/-- write through the `&mut Value` obtained from a successful peek -/
def replaceTop (v : Value) : M Unit := fun s =>
  match s.stack with
  | [] => .ok () s
  | _ :: r => .ok () { s with stack := v :: r }

def stackLen : M Nat := fun s => .ok s.stack.length s

/-- keep the `n` oldest values (the `while self.stack.len() > saved_sp { pop }` loop) -/
def truncateStack (n : Nat) : M Unit := fun s =>
  .ok () { s with stack := s.stack.drop (s.stack.length - n) }

def popInt : M Int := do
  match (← popValue) with
  | .int i => pure i
  | _ => throw .invalidType

def popBool : M Bool := do
  match (← popValue) with
  | .bool b => pure b
  | _ => throw .invalidType

def popStruct : M (Nat × Fields) := do
  match (← popValue) with
  | .struct n f => pure (n, f)
  | _ => throw .invalidType

def popFact : M (Nat × List (Nat × HV) × Fields) := do
  match (← popValue) with
  | .fact n k v => pure (n, k, v)
  | _ => throw .invalidType

def popIdent : M Nat := do
  match (← popValue) with
  | .ident n => pure n
  | _ => throw .invalidType

def popBytes : M Nat := do
  match (← popValue) with
  | .bytes n => pure n
  | _ => throw .invalidType

def popHV : M HV := do
  match (← popValue).toHV? with
  | some h => pure h
  | none => throw .invalidType

/-! ## call state, pc, context, iterators, I/O answers -/

def pushCall (v : Nat) : M Unit := fun s => .ok () { s with callState := v :: s.callState }

def popCall : M (Option Nat) := fun s =>
  match s.callState with
  | [] => .ok none s
  | v :: r => .ok (some v) { s with callState := r }

def setPc (p : Nat) : M Unit := fun s => .ok () { s with pc := p }
def callEmpty : M Bool := fun s => .ok s.callState.isEmpty s
def getCtx : M Ctx := fun s => .ok s.ctx s
def setCtx (c : Ctx) : M Unit := fun s => .ok () { s with ctx := c }

def pushIter (rows : List Row) : M Unit := fun s => .ok () { s with iters := rows :: s.iters }

/-- `query_iter_stack.last_mut()` + `iter.next()`; `none` = no iterator -/
def iterNext : M (Option (Option Row)) := fun s =>
  match s.iters with
  | [] => .ok none s
  | [] :: _ => .ok (some none) s
  | (r :: rest) :: its => .ok (some (some r)) { s with iters := rest :: its }

def popIter : M Unit := fun s => .ok () { s with iters := s.iters.tail }

def nextIo : M (Option IoRes) := fun s =>
  match s.io with
  | [] => .ok none s
  | a :: r => .ok (some a) { s with io := r }

/-- `fact_insert` / `fact_delete` -/
def ioUnit : M Unit := do
  match (← nextIo) with
  | some (.unit true) => pure ()
  | _ => throw .io

/-- `fact_query` -/
def ioQuery : M (List Row) := do
  match (← nextIo) with
  | some (.rows (some r)) => pure r
  | _ => throw .io

def ioCodec (e : Err) : M Value := do
  match (← nextIo) with
  | some (.codec (some v)) => pure v
  | _ => throw e

/-! ## scopes (`ScopeManager`) -/

def lookup (k : Nat) : List (Nat × Value) → Option Value
  | [] => none
  | (x, v) :: r => if x = k then some v else lookup k r

def lookupBlocks (k : Nat) : List (List (Nat × Value)) → Option Value
  | [] => none
  | b :: r => match lookup k b with
    | some v => some v
    | none => lookupBlocks k r

/-- `ScopeManager::get` -/
def scopeGet (globals : List (Nat × Value)) (k : Nat) : M Value := fun s =>
  let loc := match s.scope with
    | [] => none
    | f :: _ => lookupBlocks k f
  match loc with
  | some v => .ok v s
  | none => match lookup k globals with
    | some v => .ok v s
    | none => .err .notDefined s

/-- `ScopeManager::set` -/
def scopeSet (globals : List (Nat × Value)) (k : Nat) (v : Value) : M Unit := fun s =>
  if (lookup k globals).isSome then .err .alreadyDefined s
  else match s.scope with
    | [] => .err .badState s
    | f :: fs =>
      if (lookupBlocks k f).isSome then .err .alreadyDefined s
      else match f with
        | [] => .err .badState s
        | b :: bs => .ok () { s with scope := (((k, v) :: b) :: bs) :: fs }

def enterFunction : M Unit := fun s => .ok () { s with scope := [[]] :: s.scope }

def exitFunction : M Unit := fun s =>
  match s.scope with
  | [] => .err .badState s
  | _ :: fs => .ok () { s with scope := fs }

def enterBlock : M Unit := fun s =>
  match s.scope with
  | [] => .err .badState s
  | f :: fs => .ok () { s with scope := ([] :: f) :: fs }

def exitBlock : M Unit := fun s =>
  match s.scope with
  | [] => .err .badState s
  | [] :: _ => .err .badState s
  | (_ :: bs) :: fs => .ok () { s with scope := bs :: fs }

/-! ## pure helpers -/

/-- `x.checked_add(1).assume(..)`: `none` = the `assume` fires (a panic in debug builds) -/
def checkedInc (x : Nat) : Option Nat := if x + 1 ≤ usizeMax then some (x + 1) else none

def checkedI64 (r : Int) : Value := if i64Min ≤ r ∧ r ≤ i64Max then .some (.int r) else .none
def clampI64 (r : Int) : Int := if r < i64Min then i64Min else if r > i64Max then i64Max else r

def findDef {α} (k : Nat) : List (Nat × α) → Option α
  | [] => none
  | (x, d) :: r => if x = k then some d else findDef k r

/-- `validate_struct_schema` -/
def validateStructSchema (defs : List (Nat × List (Nat × Ty))) (name : Nat) (fields : Fields) : Bool :=
  match findDef name defs with
  | none => false
  | some items =>
    fields.toList.all (fun f => items.any (fun d => d.1 == f.1)) &&
    items.all (fun d => match fields.get? d.1 with
      | some v => v.fitsType d.2
      | none => false)

/-- `validate_fact_schema` via `validate_fact_literal` -/
def validateFactLiteral (defs : List (Nat × FactDef)) (name : Nat) (keys : List (Nat × HV)) (vals : Fields) : Bool :=
  match findDef name defs with
  | none => false
  | some d =>
    keys.all (fun k => match findDef k.1 d.keys with
      | some t => k.2.fitsType t
      | none => false) &&
    vals.toList.all (fun v => match findDef v.1 d.vals with
      | some t => v.2.fitsType t
      | none => false)

def isPrefix : List (Nat × HV) → List (Nat × HV) → Bool
  | [], _ => true
  | _ :: _, [] => false
  | a :: as, b :: bs => a == b && isPrefix as bs

/-- `fact_match` -/
def factMatch (qkeys : List (Nat × HV)) (qvals : Fields) (keys : List (Nat × HV)) (vals : Fields) : Bool :=
  isPrefix qkeys keys &&
  qvals.toList.all (fun qv => match vals.get? qv.1 with
    | some v => v == qv.2
    | none => false)

/-- the struct built from a query row: `Struct::new(name, keys ++ values)` (a `BTreeMap` collect) -/
def rowStruct (name : Nat) (keys : List (Nat × HV)) (vals : Fields) : Value :=
  let f1 := keys.foldl (fun acc k => acc.insertSorted k.1 k.2.toValue) Fields.nil
  .struct name (vals.toList.foldl (fun acc v => acc.insertSorted v.1 v.2) f1)

/-- `iter.find_map(..)` of `Query`: first `Err` or first matching row -/
def findRow (qkeys : List (Nat × HV)) (qvals : Fields) : List Row → Except Err (Option (List (Nat × HV) × Fields))
  | [] => .ok none
  | none :: _ => .error .io
  | some (k, v) :: r => if factMatch qkeys qvals k v then .ok (some (k, v)) else findRow qkeys qvals r

/-- the counting loop of `FactCount`; outer `none` = the `.assume` on `count + 1` fires -/
def countRows (qkeys : List (Nat × HV)) (qvals : Fields) (limit : Int) :
    List Row → Int → Option (Except Err Int)
  | [], count => some (.ok count)
  | r :: rest, count =>
    if count < limit then
      match r with
      | none => some (.error .io)
      | some (k, v) =>
        if factMatch qkeys qvals k v then
          (if count + 1 ≤ i64Max then countRows qkeys qvals limit rest (count + 1) else none)
        else countRows qkeys qvals limit rest count
    else some (.ok count)

def insertByKey (x : Nat × Value) : List (Nat × Value) → List (Nat × Value)
  | [] => [x]
  | y :: r => if x.1 < y.1 then x :: y :: r else y :: insertByKey x r

def sortByKey (l : List (Nat × Value)) : List (Nat × Value) := l.foldr insertByKey []

/-- the field loop of `MStructSet` -/
def mstructApply (items : List (Nat × Ty)) : List (Nat × Value) → Fields → Except Err Fields
  | [], f => .ok f
  | (n, v) :: r, f =>
    match findDef n items with
    | none => .error .invalidStructMember
    | some t => if v.fitsType t then mstructApply items r (f.insertSorted n v) else .error .invalidStructMember

/-- the field loop of `Cast` -/
def castCheck (items : List (Nat × Ty)) (fields : Fields) : Except Err Unit :=
  match items with
  | [] => .ok ()
  | (n, t) :: r =>
    match fields.get? n with
    | none => .error .unknown
    | some v => if v.fitsType t then castCheck r fields else .error .unknown

/-- the value check of `Update`: the older source compares the whole (sorted) value list when the
`from` literal gives any value; the newer one only the fields the literal gives (first stored field
of that name, like `fact_match`).  Which one the source has is generated (`updateGivenOnly`). -/
def updateMismatch (givenOnly : Bool) (fromVals replacedVals : Fields) : Bool :=
  if givenOnly then
    !(fromVals.toList.all (fun fv => match replacedVals.get? fv.1 with
      | some w => w == fv.2
      | none => false))
  else !fromVals.isEmpty && !(sortByKey replacedVals.toList == sortByKey fromVals.toList)

/-- rows a `QueryStart` iterator will deliver to `QueryNext`: the newer source remembers the query
literal and skips rows that do not `fact_match` it (error rows still surface); generated flag
`queryNextFilters`. -/
def queryRows (filters : Bool) (qkeys : List (Nat × HV)) (qvals : Fields) (rows : List Row) : List Row :=
  if filters then
    rows.filter (fun r => match r with
      | none => true
      | some (k, v) => factMatch qkeys qvals k v)
  else rows

def wrap (t : WrapType) (v : Value) : Value :=
  match t with
  | .Ok => .ok v
  | .Err => .err v
  | .Some => .some v

def isWrap (t : WrapType) (v : Value) : Bool :=
  match t, v with
  | .Some, .some _ => true
  | .Ok, .ok _ => true
  | .Err, .err _ => true
  | _, _ => false

def unwrap (t : WrapType) (v : Value) : Except Err Value :=
  match t, v with
  | .Ok, .ok x => .ok x
  | .Err, .err x => .ok x
  | .Some, .some x => .ok x
  | _, _ => .error .invalidType

/-! ## stateful loops -/

/-- the pop loop of `MStructSet`: `n` × (value, then identifier) -/
def popPairs : Nat → List (Nat × Value) → M (List (Nat × Value))
  | 0, acc => pure acc.reverse
  | n + 1, acc => do
    let v ← popValue
    let k ← popIdent
    popPairs n ((k, v) :: acc)

/-- `(0..n).map(|_| self.ipop::<Identifier>()).collect::<Result<Vec<_>, _>>()` -/
def popIdents : Nat → List Nat → M (List Nat)
  | 0, acc => pure acc.reverse
  | n + 1, acc => do
    let k ← popIdent
    popIdents n (k :: acc)

/-- the push loop of `MStructGet` -/
def pushFields : List Nat → Fields → M Unit
  | [], _ => pure ()
  | k :: r, f =>
    match f.get? k with
    | none => throw .invalidStructMember
    | some v => do
      push (.ident k)
      push v
      pushFields r (f.remove k)

/-- an FFI procedure working on the stack; failures of individual operations are its business -/
def applyOps : List StackOp → M Unit
  | [] => pure ()
  | .pop :: r => do popIgnore; applyOps r
  | .push v :: r => fun s =>
    match push v s with
    | .ok _ s' => applyOps r s'
    | .err _ s' => applyOps r s'
    | .panic => .panic

/-! ## instruction semantics -/

/-- how an instruction body leaves `step` -/
inductive Ctl where
  /-- fall through to `self.pc = self.pc.checked_add(1).assume(..)` -/
  | next
  /-- `Return`: `self.pc` was set to the popped value, then falls through to the increment -/
  | retTo (p : Nat)
  /-- `self.pc = n; return Ok(Executing)` -/
  | jump (n : Nat)
  /-- `return Ok(Exited(reason))` -/
  | exited (r : ExitReason)
  /-- `Publish`: increment the pc, then `Exited(Yield)` -/
  | yield
deriving Inhabited

/-- `Instruction::Next` / `Instruction::Last`: `todo!()` (defect F2) or, after the fix,
`return Err(self.err(MachineErrorType::InvalidInstruction))` — which of the two the source has is
generated (`nextLastTodo`). -/
def execNextLastWith (todo : Bool) : M Ctl := if todo then hostPanic else throw .invalidInstruction
def execNextLast : M Ctl := execNextLastWith nextLastTodo

/-- `Vec::<(Identifier, Value)>::with_capacity(n)` in `MStructSet` with the unchecked operand `n`
panics ("capacity overflow") when `n * size_of::<(Identifier, Value)>() > isize::MAX`; the element
is at least 16 bytes, which is the bound used here (defect found by this check; for smaller huge `n`
the allocation itself fails and the process aborts, which the model does not distinguish).  After
the fix the capacity is bounded by `STACK_SIZE`. -/
def mstructAllocWith (unbounded : Bool) (n : Nat) : M Unit :=
  if unbounded && decide (n * 16 > isizeMax) then hostPanic else pure ()
def mstructAlloc (n : Nat) : M Unit := mstructAllocWith mstructSetCapUnbounded n

/-- Add / Sub with the inner `match instruction { .. _ => unreachable!() }` -/
def arith (i : Instr) (a b : Int) : M Value :=
  match i with
  | .Add => pure (checkedI64 (a + b))
  | .Sub => pure (checkedI64 (a - b))
  | _ => hostPanic

def satArith (i : Instr) (a b : Int) : M Value :=
  match i with
  | .SaturatingAdd => pure (.int (clampI64 (a + b)))
  | .SaturatingSub => pure (.int (clampI64 (a - b)))
  | _ => hostPanic

def compare (i : Instr) (a b : Value) : M Value :=
  match i with
  | .Gt => match a, b with
    | .int x, .int y => pure (.bool (decide (x > y)))
    | _, _ => throw .invalidType
  | .Lt => match a, b with
    | .int x, .int y => pure (.bool (decide (x < y)))
    | _, _ => throw .invalidType
  | .Eq => pure (.bool (a == b))
  | _ => hostPanic

def jumpTo (t : Target) : M Ctl :=
  match t with
  | .Unresolved _ => throw .unresolvedTarget
  | .Resolved n => pure (.jump n)

/-- the body of the big `match instruction` in `step`; `pc` is `self.pc` on entry -/
def exec (m : Machine) (pc : Nat) (instr : Instr) : M Ctl :=
  match instr with
  | .SaveSP => do
    pushCall (← stackLen)
    pure .next
  | .RestoreSP => do
    match (← popCall) with
    | none => throw .badState
    | some saved =>
      match checkedInc saved with
      | none => hostPanic
      | some lim => do
        let len ← stackLen
        if len < lim then throw .badState
        else if len = lim then pure .next
        else do
          let v ← popValue
          truncateStack saved
          push v
          pure .next
  | .Const v => do push v; pure .next
  | .Identifier n => do push (.ident n); pure .next
  | .Def k => do
    let v ← popValue
    noPos (scopeSet m.globals k v)
    pure .next
  | .Get k => do
    let v ← noPos (scopeGet m.globals k)
    push v
    pure .next
  | .Dup => do
    let v ← peekValue
    push v
    pure .next
  | .Pop => do popIgnore; pure .next
  | .Block => do enterBlock; pure .next
  | .End => do exitBlock; pure .next
  | .Jump t => jumpTo t
  | .Branch t => do
    let c ← popBool
    if c then jumpTo t else pure .next
  | .Next => execNextLast
  | .Last => execNextLast
  | .Call t =>
    match t with
    | .Unresolved _ => throw .unresolvedTarget
    | .Resolved n => do
      enterFunction
      pushCall pc
      pure (.jump n)
  | .Recall t =>
    match t with
    | .Unresolved _ => throw .unresolvedTarget
    | .Resolved n => do
      match (← getCtx) with
      | .policy c => do
        setCtx (.recall c)
        enterFunction
        pushCall pc
        pure (.jump n)
      | _ => throw .badState
  | .ExtCall _ _ => do
    match (← nextIo) with
    | some (.ext ops ok) => do
      applyOps ops
      if ok then pure .next else throwNoPos .io
    | _ => throwNoPos .io
  | .Return => do
    if (← callEmpty) then pure (.exited .Normal)
    else
      match (← popCall) with
      | none => throw .callStack
      | some p => do
        setPc p
        exitFunction
        pure (.retTo p)
  | .Exit r => pure (.exited r)
  | .Add => do
    let b ← popInt
    let a ← popInt
    push (← arith .Add a b)
    pure .next
  | .Sub => do
    let b ← popInt
    let a ← popInt
    push (← arith .Sub a b)
    pure .next
  | .SaturatingAdd => do
    let b ← popInt
    let a ← popInt
    push (← satArith .SaturatingAdd a b)
    pure .next
  | .SaturatingSub => do
    let b ← popInt
    let a ← popInt
    push (← satArith .SaturatingSub a b)
    pure .next
  | .Not => do
    match (← peekValue) with
    | .bool b => do replaceTop (.bool (!b)); pure .next
    | _ => throw .invalidType
  | .Gt => do
    let b ← popValue
    let a ← popValue
    push (← compare .Gt a b)
    pure .next
  | .Lt => do
    let b ← popValue
    let a ← popValue
    push (← compare .Lt a b)
    pure .next
  | .Eq => do
    let b ← popValue
    let a ← popValue
    push (← compare .Eq a b)
    pure .next
  | .FactNew n => do push (.fact n [] .nil); pure .next
  | .FactKeySet k => do
    let h ← popHV
    match (← peekValue) with
    | .fact n ks vs => do replaceTop (.fact n (setKey ks k h) vs); pure .next
    | _ => throw .invalidType
  | .FactValueSet k => do
    let v ← popValue
    match (← peekValue) with
    | .fact n ks vs => do replaceTop (.fact n ks (vs.setVec k v)); pure .next
    | _ => throw .invalidType
  | .StructNew n => do push (.struct n .nil); pure .next
  | .StructSet f => do
    let v ← popValue
    let (name, fields) ← popStruct
    match findDef name m.structDefs with
    | none => throw .invalidSchema
    | some items =>
      if items.any (fun d => d.1 == f) then do
        push (.struct name (fields.insertSorted f v))
        pure .next
      else throw .invalidStructMember
  | .StructGet f => do
    let (_, fields) ← popStruct
    match fields.get? f with
    | none => throw .invalidStructMember
    | some v => do push v; pure .next
  | .MStructSet n => do
    mstructAlloc n
    let pairs ← popPairs n []
    let (name, fields) ← popStruct
    match findDef name m.structDefs with
    | none => throw .invalidSchema
    | some items => do
      let fields' ← liftE (mstructApply items pairs fields)
      push (.struct name fields')
      pure .next
  | .MStructGet n => do
    let names ← popIdents n []
    let (_, fields) ← popStruct
    pushFields names fields
    pure .next
  | .Cast id => do
    match (← popValue) with
    | .struct _ fields =>
      match findDef id m.structDefs with
      | none => throw .notDefined
      | some items => do
        liftE (castCheck items fields)
        push (.struct id fields)
        pure .next
    | _ => throw .invalidType
  | .Wrap t => do
    let v ← popValue
    push (wrap t v)
    pure .next
  | .Is t => do
    let v ← popValue
    push (.bool (isWrap t v))
    pure .next
  | .Unwrap t => do
    let v ← popValue
    let x ← liftE (unwrap t v)
    push x
    pure .next
  | .Publish => do
    let (name, fields) ← popStruct
    if validateStructSchema m.structDefs name fields then do
      push (.struct name fields)
      pure .yield
    else throw .invalidSchema
  | .Create => do
    let _ ← popFact
    noPos ioUnit
    pure .next
  | .Delete => do
    let _ ← popFact
    noPos ioUnit
    pure .next
  | .Update => do
    let _ ← popFact
    let (_, _, fromVals) ← popFact
    let rows ← noPos ioQuery
    match rows with
    | [] => throw .invalidFact
    | none :: _ => throwNoPos .io
    | some (_, replacedVals) :: _ =>
      if updateMismatch updateGivenOnly fromVals replacedVals then
        throw .invalidFact
      else do
        noPos ioUnit
        noPos ioUnit
        pure .next
  | .Emit => do
    let (name, fields) ← popStruct
    if validateStructSchema m.structDefs name fields then do
      match (← getCtx) with
      | .policy _ => pure .next
      | .recall _ => pure .next
      | _ => throw .badState
    else throw .invalidSchema
  | .Query => do
    let (name, keys, vals) ← popFact
    if validateFactLiteral m.factDefs name keys vals then do
      let rows ← noPos ioQuery
      match (← noPos (liftE (findRow keys vals rows))) with
      | none => do push .none; pure .next
      | some (k, v) => do push (.some (rowStruct name k v)); pure .next
    else throw .invalidSchema
  | .FactCount limit => do
    let (name, keys, vals) ← popFact
    if validateFactLiteral m.factDefs name keys vals then do
      let rows ← noPos ioQuery
      match countRows keys vals limit rows 0 with
      | none => hostPanic
      | some r => do
        let c ← liftE r
        push (.int c)
        pure .next
    else throw .invalidSchema
  | .QueryStart => do
    let (name, keys, vals) ← popFact
    if validateFactLiteral m.factDefs name keys vals then do
      let rows ← noPos ioQuery
      pushIter (queryRows queryNextFilters keys vals rows)
      pure .next
    else throw .invalidSchema
  | .QueryNext id => do
    match (← iterNext) with
    | none => throw .badState
    | some (some none) => throwNoPos .io
    | some (some (some (k, v))) => do
      noPos (scopeSet m.globals id (rowStruct id k v))
      push (.bool false)
      pure .next
    | some none => do
      popIter
      push (.bool true)
      pure .next
  | .Serialize => do
    match (← getCtx) with
    | .seal cname => do
      let (name, _) ← popStruct
      if name != cname then throw .badState
      else do
        let bytes ← ioCodec .serialize
        push bytes
        pure .next
    | _ => throw .badState
  | .Deserialize => do
    match (← getCtx) with
    | .opn _ => do
      let _ ← popBytes
      let s ← ioCodec .deserialize
      push s
      pure .next
    | _ => throw .invalidInstruction
  | .Meta _ => pure .next

/-! ## the struct deserializer's walk over the definitions (`serialize.rs`)

`DeserializeCtx::deserialize_struct` / `deserialize_value` follow the struct DEFINITIONS, not the
input, so a definition that (transitively) contains itself used to recurse without bound — a host
stack overflow for any payload.  The fixed code keeps the list of structs being deserialized
(`open`) and returns `DeserializeError::RecursiveStruct` on re-entry.  `deserWalk` is that walk with
the byte-level reads abstracted by an oracle stream (one bit per primitive read: did it succeed;
one per option/result tag: which arm); entering struct `n` removes its definition from `avail`, so
re-entering an open struct (and an unknown struct) finds no definition and is an error.  It is a
total function: the recursion is well-founded on (number of definitions still available, size of the
type being read).  (`exec .Deserialize` itself takes the codec's result as an environment answer;
the byte-level codec is C26's subject.) -/

def Ty.size : Ty → Nat
  | .optional t => t.size + 1
  | .result a b => a.size + b.size + 1
  | _ => 1

def fieldsSize : List (Nat × Ty) → Nat
  | [] => 1
  | (_, t) :: r => t.size + fieldsSize r + 1

/-- what the type-directed struct deserializer has to read next -/
inductive DItem where
  | ty (t : Ty)
  | fields (fs : List (Nat × Ty))

def DItem.size : DItem → Nat
  | .ty t => t.size
  | .fields fs => fieldsSize fs

inductive DRes where
  | ok (rest : List Bool)
  | err
deriving Repr, DecidableEq

/-- remove every definition of `n` -/
def eraseDef {α} (n : Nat) : List (Nat × α) → List (Nat × α)
  | [] => []
  | (x, d) :: r => if x = n then eraseDef n r else (x, d) :: eraseDef n r

theorem eraseDef_length_le {α} (n : Nat) : (l : List (Nat × α)) → (eraseDef n l).length ≤ l.length
  | [] => by simp [eraseDef]
  | (x, d) :: r => by
    have := eraseDef_length_le n r
    unfold eraseDef; split <;> simp <;> omega

theorem eraseDef_length_lt {α} (n : Nat) : (avail : List (Nat × α)) → (findDef n avail).isSome →
    (eraseDef n avail).length < avail.length
  | [], h => by simp [findDef] at h
  | (x, d) :: r, h => by
    unfold eraseDef
    by_cases hx : x = n
    · simp only [hx, if_true, List.length_cons]
      have := eraseDef_length_le n r; omega
    · have hr : (findDef n r).isSome := by simpa [findDef, hx] using h
      have := eraseDef_length_lt n r hr
      simp only [hx, if_false, List.length_cons]; omega

def deserWalk (avail : List (Nat × List (Nat × Ty))) (it : DItem) (o : List Bool) : DRes :=
  match it with
  | .ty (.struct n) =>
    match h : findDef n avail with
    | none => .err
    | some items => deserWalk (eraseDef n avail) (.fields items) o
  | .ty (.optional t) =>
    match o with
    | [] => .err
    | false :: o' => .ok o'
    | true :: o' => deserWalk avail (.ty t) o'
  | .ty (.result a b) =>
    match o with
    | [] => .err
    | true :: o' => deserWalk avail (.ty a) o'
    | false :: o' => deserWalk avail (.ty b) o'
  | .ty .unit => .ok o
  | .ty .never => .err
  | .ty _ =>
    match o with
    | true :: o' => .ok o'
    | _ => .err
  | .fields [] => .ok o
  | .fields ((_, t) :: r) =>
    match deserWalk avail (.ty t) o with
    | .ok o' => deserWalk avail (.fields r) o'
    | .err => .err
termination_by (avail.length, it.size)
decreasing_by
  all_goals simp_wf
  · apply Prod.Lex.left
    exact eraseDef_length_lt n avail (by simp [h])
  all_goals (apply Prod.Lex.right; simp [DItem.size, Ty.size, fieldsSize]; try omega)

/-! ## error positions (`MachineError::with_position`, `RunState::source_location`)

`CodeMap::span_from_instruction` + `SpannedText::{new, start_linecol}` of aranya-policy-module, which
the VM calls while BUILDING a `MachineError` (and in `source_location`). -/

/-- the entry the binary search selects: the last one starting at or before `ip` (`none` = `RangeError`) -/
def lastLE (ip : Nat) : List (Nat × Nat × Nat) → Option (Nat × Nat)
  | [] => none
  | (i, sp) :: r =>
    if i ≤ ip then
      match lastLE ip r with
      | some x => some x
      | none => some sp
    else none

/-- `SpannedText::linecol(pos)`; `none` = its `assert!` fires (a panic).  `strict`: the assertion
is `pos < len` (before the fix) instead of `pos <= len`. -/
def linecol (strict : Bool) (text : List Nat) (pos : Nat) : Option (Nat × Nat) :=
  if (if strict then pos < text.length else pos ≤ text.length) then
    some ((text.take pos).foldl (fun (lc : Nat × Nat) c => if c = 10 then (lc.1 + 1, 1) else (lc.1, lc.2 + 1)) (1, 1))
  else none

/-- the source position attached to an error raised at `pc`: outer `none` = host panic, inner
`none` = no position (no code map, no entry at or before `pc`, or a span outside the text) -/
def locateWith (strict : Bool) (m : Machine) (pc : Nat) : Option (Option (Nat × Nat)) :=
  match m.codemap with
  | none => some none
  | some cm =>
    match lastLE pc cm.mapping with
    | none => some none
    | some (s, e) =>
      if s ≤ e ∧ e ≤ cm.text.length then
        match linecol strict cm.text s with
        | none => none
        | some lc => some (some lc)
      else some none

def locate (m : Machine) (pc : Nat) : Option (Option (Nat × Nat)) := locateWith linecolAssertStrict m pc

/-! ## `step` and `run` -/

inductive Outcome where
  /-- `Ok(MachineStatus::Executing)` -/
  | executing (s : RunState)
  /-- `Ok(MachineStatus::Exited(reason))` -/
  | exited (r : ExitReason) (s : RunState)
  /-- `Err(MachineError)` -/
  | error (e : Err) (s : RunState)
  /-- the host panicked -/
  | hostPanic
deriving Inhabited

/-- `RunState::step`, given the environment's answers for this step -/
def step (m : Machine) (s0 : RunState) (io : List IoRes) : Outcome :=
  let s := { s0 with io := io, errNoPos := false }
  if s.pc ≥ m.progmem.length then
    -- `self.err(..)` looks the position up in the code map
    (match locate m s.pc with
     | none => .hostPanic
     | some _ => .error .invalidAddress s)
  else
    match m.progmem[s.pc]? with
    | none => .hostPanic
    | some instr =>
      match exec m s.pc instr s with
      | .panic => .hostPanic
      | .err e s' =>
        if s'.errNoPos then .error e s'
        else
          (match locate m s'.pc with
           | none => .hostPanic
           | some _ => .error e s')
      | .ok ctl s' =>
        match ctl with
        | .next => match checkedInc s.pc with
          | none => .hostPanic
          | some p => .executing { s' with pc := p }
        | .retTo q => match checkedInc q with
          | none => .hostPanic
          | some p => .executing { s' with pc := p }
        | .jump n => .executing { s' with pc := n }
        | .exited r => .exited r s'
        | .yield => match checkedInc s.pc with
          | none => .hostPanic
          | some p => .exited .Yield { s' with pc := p }

inductive RunOutcome where
  | exit (r : ExitReason) (s : RunState)
  | machineError (e : Err) (s : RunState)
  | outOfFuel (s : RunState)
  | hostPanic
deriving Inhabited

/-- `RunState::run` with a step budget; `env k` are the environment's answers for the `k`-th step -/
def run (m : Machine) (env : Nat → List IoRes) : Nat → Nat → RunState → RunOutcome
  | 0, _, s => .outOfFuel s
  | fuel + 1, k, s =>
    match step m s (env k) with
    | .executing s' => run m env fuel (k + 1) s'
    | .exited r s' => .exit r s'
    | .error e s' =>
      -- `.map_err(|err| err.with_position(self.pc, codemap))`: an error without a position gets one
      (match locate m s'.pc with
       | none => .hostPanic
       | some _ => .machineError e s')
    | .hostPanic => .hostPanic

/-! ## entry points: `setup_*` and `call_*`

`setup_function`, `setup_action`, `setup_command`, `call_action`, `call_command_policy`, `call_seal`,
`call_open` of `machine.rs`, in the Rust order of checks.  None of them clears the value stack or
the query-iterator stack; `setup_function` sets the pc from the label table and clears `call_state`
and the scopes.  They contain no panicking construct (see the inventory), so `hostPanic` can only
come from the `run` that follows. -/

def lookupLabel (k : Nat × LabelType) : List ((Nat × LabelType) × Nat) → Option Nat
  | [] => none
  | (l, a) :: r => if l.1 = k.1 ∧ l.2 = k.2 then some a else lookupLabel k r

def clearCalls : M Unit := fun s => .ok () { s with callState := [] }
/-- `ScopeManager::clear` -/
def clearScope : M Unit := fun s => .ok () { s with scope := [[[]]] }

/-- `setup_function` (= `set_pc_by_label`, `call_state.clear()`, `scope.clear()`) -/
def setupFunction (m : Machine) (name : Nat) (lt : LabelType) : M Unit := do
  match lookupLabel (name, lt) m.labels with
  | none => throw .invalidAddress
  | some addr => do
    setPc addr
    clearCalls
    clearScope

def pushAll : List Value → M Unit
  | [] => pure ()
  | v :: r => do push v; pushAll r

/-- the `for (arg, param) in args.iter().zip(params)` type check -/
def argsFit : List Value → List (Nat × Ty) → Bool
  | a :: as, p :: ps => a.fitsType p.2 && argsFit as ps
  | _, _ => true

/-- `setup_action` -/
def setupAction (m : Machine) (name : Nat) (args : List Value) : M Unit := do
  match findDef name m.actionDefs with
  | none => throwNoPos .notDefined
  | some params =>
    if args.length != params.length then throwNoPos .unknown
    else if !argsFit args params then throwNoPos .invalidType
    else do
      setupFunction m name .Action
      pushAll args

/-- the `for (name, value) in &this_data.fields` check of `setup_command` (`BTreeMap` order) -/
def thisFieldsCheck (defFields : List (Nat × Ty)) : List (Nat × Value) → Except Err Unit
  | [] => .ok ()
  | (n, v) :: r =>
    match findDef n defFields with
    | none => .error .invalidStructMember
    | some t => if v.fitsType t then thisFieldsCheck defFields r else .error .invalidType

/-- `setup_command` -/
def setupCommand (m : Machine) (lt : LabelType) (thisName : Nat) (thisFields : Fields) : M Unit := do
  setupFunction m thisName lt
  match findDef thisName m.commandDefs with
  | none => throw .notDefined
  | some fields =>
    if thisFields.length != fields.length then throw .unknown
    else do
      liftE (thisFieldsCheck fields thisFields.toList)
      push (.struct thisName thisFields)

/-- an entry call with its arguments (`this`/`envelope` are `Struct`s, `payload` a byte string) -/
inductive Entry where
  | action (name : Nat) (args : List Value)
  | commandPolicy (thisName : Nat) (thisFields : Fields) (envName : Nat) (envFields : Fields)
  | seal (thisName : Nat) (thisFields : Fields) (payload : Nat)
  | opn (thisName : Nat) (thisFields : Fields) (payload : Nat) (envName : Nat) (envFields : Fields)
deriving Inhabited

/-- everything `call_action` / `call_command_policy` / `call_seal` / `call_open` do before `self.run()` -/
def enter (m : Machine) : Entry → M Unit
  | .action name args => do
    match (← getCtx) with
    | .action c => if c = name then setupAction m name args else throwNoPos .contextMismatch
    | _ => throwNoPos .contextMismatch
  | .commandPolicy tn tf en ef => do
    match (← getCtx) with
    | .policy c =>
      if c = tn then do
        setupCommand m .CommandPolicy tn tf
        push (.struct en ef)
      else throwNoPos .contextMismatch
    | _ => throwNoPos .contextMismatch
  | .seal tn tf payload => do
    match (← getCtx) with
    | .seal c =>
      if c = tn then do
        setupFunction m tn .CommandSeal
        push (.struct tn tf)
        push (.bytes payload)
      else throwNoPos .contextMismatch
    | _ => throwNoPos .contextMismatch
  | .opn tn tf payload en ef => do
    match (← getCtx) with
    | .opn c =>
      if c = tn then do
        setupFunction m tn .CommandOpen
        push (.struct tn tf)
        push (.bytes payload)
        push (.struct en ef)
      else throwNoPos .contextMismatch
    | _ => throwNoPos .contextMismatch

/-- `call_*`: the entry wrapper followed by `run` (with a step budget) -/
def call (m : Machine) (env : Nat → List IoRes) (fuel : Nat) (e : Entry) (s : RunState) : RunOutcome :=
  match enter m e { s with errNoPos := false } with
  | .ok _ s' => run m env fuel 0 s'
  | .err er s' =>
    if s'.errNoPos then .machineError er s'
    else
      (match locate m s'.pc with
       | none => .hostPanic
       | some _ => .machineError er s')
  | .panic => .hostPanic

end AranyaV.VM
