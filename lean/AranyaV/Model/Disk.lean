import AranyaV.Model.Wire
import AranyaV.Gen.DiskLayout
/-!
# Model.Disk — the file-backed linear-storage writer (C15)

Transliteration of `crates/aranya-runtime/src/storage/linear/libc/imp.rs` (`Writer`, `Root`,
`File`) over a crash model of one file.

## The file-system model (trusted base, DESIGN.md section 5)

A file is an infinite byte map (`Img`, zero where never written) split into

* `durable` — what is on the medium, and
* `pending` — the `pwrite`s issued since the last barrier, in issue order.

`pwrite` appends to `pending`; `fdatasync`/`fsync` apply every pending write to `durable`;
`fallocate` changes no byte (it only extends the file with zeros).  A **crash** keeps `durable`
and, for every pending write, an *arbitrary sub-mask of its bytes* (`χ : List (List Bool)`, one
mask per pending write; a missing mask or mask bit means "lost"): every pending write is
independently lost, kept or torn at byte granularity.

Not modelled: the file size (a read beyond EOF fails in the real code; here unwritten bytes read
as zero, and both make `load` of a root slot fail), directory-entry durability of the freshly
created file, `i64`/`u32` overflow `Bug` errors (sizes are unbounded `Nat`s; the theorems carry an
explicit `Bounded` hypothesis instead), I/O errors and short writes (`write_all` loops).

## The checksum

`Root::calc_checksum` (SipHash-2-4 with a zero key over generation, heads, fact cache, free
offset) is a **parameter** `ck` of every definition here; nothing is assumed about it in this
file.  The driver instantiates it with SipHash; the theorems assume `ChecksumOK` (Props/C15).
-/
namespace AranyaV.Disk
open AranyaV.Wire

/-! ## layout constants (translated from imp.rs on every run: `Gen.DiskLayout`) -/

structure Layout where
  /-- `ROOT_A` -/
  rootA : Nat
  /-- `ROOT_B` -/
  rootB : Nat
  /-- `FREE_START` -/
  freeStart : Nat
  /-- `PREALLOC_CHUNK` -/
  chunk : Nat
  deriving Repr

/-- the constants of the current source -/
def Layout.real : Layout :=
  { rootA := Gen.DiskLayout.rootA, rootB := Gen.DiskLayout.rootB,
    freeStart := Gen.DiskLayout.freeStart, chunk := Gen.DiskLayout.preallocChunk }

/-- `other_root` -/
def Layout.other (L : Layout) (slot : Nat) : Nat := if slot = L.rootA then L.rootB else L.rootA

/-- the model fixes `LEN_PREFIX_LEN = 4` (a big-endian `u32`) and the field types of `Root`;
`Props/C15` checks both against the generated declarations by `decide` -/
def lenPrefixLen : Nat := 4
def rootLayoutExpected : List Nat := [0, 1, 1, 2, 0]

/-! ## the disk -/

abbrev Img := Nat → UInt8

structure Write where
  off : Nat
  bytes : Bytes

/-- a write that reached the medium completely -/
def applyFull (m : Img) (w : Write) : Img := fun i =>
  if w.off ≤ i ∧ i - w.off < w.bytes.length then w.bytes.getD (i - w.off) 0 else m i

/-- a write of which only the bytes selected by `mask` reached the medium -/
def applyMasked (m : Img) (w : Write) (mask : List Bool) : Img := fun i =>
  if w.off ≤ i ∧ i - w.off < w.bytes.length ∧ mask.getD (i - w.off) false = true
  then w.bytes.getD (i - w.off) 0 else m i

def applyAll (m : Img) : List Write → Img
  | [] => m
  | w :: ws => applyAll (applyFull m w) ws

/-- per pending write (in issue order) the mask of bytes that survive; no mask = lost -/
def crashGo (m : Img) : List Write → List (List Bool) → Img
  | [], _ => m
  | _ :: _, [] => m
  | w :: ws, k :: ks => crashGo (applyMasked m w k) ws ks

structure Disk where
  durable : Img
  pending : List Write

def Disk.empty : Disk := { durable := fun _ => 0, pending := [] }

def Disk.pwrite (d : Disk) (w : Write) : Disk := { d with pending := d.pending ++ [w] }

def Disk.sync (d : Disk) : Disk := { durable := applyAll d.durable d.pending, pending := [] }

/-- what a reader of the live file sees (page cache): every pending write applied -/
def Disk.view (d : Disk) : Img := applyAll d.durable d.pending

/-- the medium after a crash with fault choice `χ` -/
def Disk.crash (d : Disk) (χ : List (List Bool)) : Img := crashGo d.durable d.pending χ

/-- the I/O calls the writer issues (`File::{write_all, sync, fallocate}`; `fallocate` is followed
by a full `fsync`, recorded separately) -/
inductive Op
  | write (off : Nat) (bytes : Bytes)
  | fdatasync
  | fsync
  | falloc (off len : Nat)
  /-- marker: the I/O call issued just before failed (`Model/DiskFault`); no effect on the disk
  beyond what was already issued (a failing `write_all` is preceded by the `write` of the bytes
  that did get written) -/
  | failed
  deriving Repr, DecidableEq

def Disk.exec (d : Disk) : Op → Disk
  | .write off bytes => d.pwrite ⟨off, bytes⟩
  | .fdatasync => d.sync
  | .fsync => d.sync
  | .falloc _ _ => d
  | .failed => d

def Disk.execAll (d : Disk) : List Op → Disk
  | [] => d
  | o :: os => (d.exec o).execAll os

/-! ## the control record -/

/-- `struct Root` -/
structure Root where
  /-- `generation: u64` -/
  gen : Nat
  /-- `heads: Option<u64>` -/
  heads : Option Nat
  /-- `fact_cache: Option<u64>` -/
  fact : Option Nat
  /-- `free_offset: i64` -/
  free : Int
  /-- `checksum: u64` -/
  sum : Nat
  deriving DecidableEq, Repr

/-- the checksum function: (generation, heads, fact_cache, free_offset) ↦ u64 -/
abbrev Checksum := Nat → Option Nat → Option Nat → Int → Nat

/-- `Root::new` -/
def Root.new (L : Layout) : Root :=
  { gen := 0, heads := none, fact := none, free := L.freeStart, sum := 0 }

/-- `Root::validate` -/
def Root.valid (ck : Checksum) (r : Root) : Bool := r.sum == ck r.gen r.heads r.fact r.free

/-- serde/postcard `Option<u64>` -/
def optEnc : Option Nat → Bytes
  | none => [0]
  | some v => 1 :: varintEnc 64 v

def optDec : Bytes → Except Err (Option Nat × Bytes)
  | [] => .error .eof
  | b :: bs =>
    if b = 0 then .ok (none, bs)
    else if b = 1 then
      match varintDec 64 bs with
      | .ok (v, rest) => .ok (some v, rest)
      | .error e => .error e
    else .error .bad

/-- `postcard::to_allocvec(&root)` -/
def encBody (r : Root) : Bytes :=
  varintEnc 64 r.gen ++ (optEnc r.heads ++ (optEnc r.fact ++ (i64Enc r.free ++ varintEnc 64 r.sum)))

/-- `postcard::from_bytes::<Root>` (trailing bytes are ignored) -/
def decBody (bs : Bytes) : Option Root :=
  match varintDec 64 bs with
  | .error _ => none
  | .ok (gen, r1) =>
    match optDec r1 with
    | .error _ => none
    | .ok (heads, r2) =>
      match optDec r2 with
      | .error _ => none
      | .ok (fact, r3) =>
        match i64Dec r3 with
        | .error _ => none
        | .ok (free, r4) =>
          match varintDec 64 r4 with
          | .error _ => none
          | .ok (sum, _) => some { gen, heads, fact, free, sum }

/-- `u32::to_be_bytes` -/
def be32Enc (n : Nat) : Bytes :=
  [UInt8.ofNat (n / 16777216 % 256), UInt8.ofNat (n / 65536 % 256), UInt8.ofNat (n / 256 % 256),
   UInt8.ofNat (n % 256)]

/-- `u32::from_be_bytes` of the four bytes at `off` -/
def lenAt (img : Img) (off : Nat) : Nat :=
  (((img off).toNat * 256 + (img (off + 1)).toNat) * 256 + (img (off + 2)).toNat) * 256
    + (img (off + 3)).toNat

def readBytes (img : Img) (off len : Nat) : Bytes := (List.range len).map fun i => img (off + i)

/-- `File::load::<Root>(offset)`: length prefix, that many bytes, postcard -/
def loadRoot (img : Img) (off : Nat) : Option Root :=
  decBody (readBytes img (off + 4) (lenAt img off))

/-- `file.load(slot).and_then(Root::validate)` -/
def loadValid (ck : Checksum) (img : Img) (off : Nat) : Option Root :=
  match loadRoot img off with
  | some r => if r.valid ck then some r else none
  | none => none

/-! ## the writer -/

/-- `struct Writer` (without the fd) -/
structure Writer where
  root : Root
  allocEnd : Nat
  nextRoot : Nat
  dataDirty : Bool
  deriving DecidableEq, Repr

/-- `Writer::create`: preallocate, nothing else is written -/
def Writer.create (L : Layout) : Writer × List Op :=
  let allocEnd := L.freeStart + L.chunk
  ({ root := Root.new L, allocEnd, nextRoot := L.rootA, dataDirty := false },
   [.falloc 0 allocEnd, .fsync])

/-- `Writer::open`: newest valid root wins (slot A on a tie), the other slot is written next -/
def Writer.open (L : Layout) (ck : Checksum) (img : Img) : Option Writer :=
  let mk (r : Root) (chosen : Nat) : Writer :=
    { root := r, allocEnd := r.free.toNat, nextRoot := L.other chosen, dataDirty := false }
  match loadValid ck img L.rootA, loadValid ck img L.rootB with
  | some a, some b => if a.gen < b.gen then some (mk b L.rootB) else some (mk a L.rootA)
  | some a, none => some (mk a L.rootA)
  | none, some b => some (mk b L.rootB)
  | none, none => none

/-- `Writer::ensure_capacity`: the `while new_end < end { new_end += CHUNK }` loop in closed form -/
def Writer.ensureCapacity (L : Layout) (w : Writer) (end_ : Nat) : Writer × List Op :=
  if end_ ≤ w.allocEnd then (w, [])
  else
    let newEnd := w.allocEnd + (end_ - w.allocEnd + L.chunk - 1) / L.chunk * L.chunk
    ({ w with allocEnd := newEnd }, [.falloc 0 newEnd, .fsync])

/-- `Writer::append_at` for an already serialised item: returns the offset it was written at -/
def Writer.appendAt (L : Layout) (w : Writer) (bytes : Bytes) : Writer × Nat × List Op :=
  let off := w.root.free.toNat
  let end_ := off + lenPrefixLen + bytes.length
  let g := w.ensureCapacity L end_
  ({ g.1 with root := { g.1.root with free := (end_ : Nat) }, dataDirty := true }, off,
   g.2 ++ [.write off (be32Enc bytes.length), .write (off + lenPrefixLen) bytes])

/-- `Writer::write_root` -/
def Writer.writeRoot (L : Layout) (ck : Checksum) (w : Writer) : Writer × List Op :=
  let r0 := w.root
  let r := { r0 with gen := r0.gen + 1, sum := ck (r0.gen + 1) r0.heads r0.fact r0.free }
  let body := encBody r
  ({ w with root := r, nextRoot := L.other w.nextRoot },
   [.write w.nextRoot (be32Enc body.length), .write (w.nextRoot + lenPrefixLen) body, .fdatasync])

/-- `Write::commit(heads, fact_cache)` -/
def Writer.commit (L : Layout) (ck : Checksum) (w : Writer) (heads : Bytes) (fact : Nat) :
    Writer × List Op :=
  let a := w.appendAt L heads
  let w2 := { a.1 with root := { a.1.root with heads := some a.2.1, fact := some fact } }
  let ops2 := if w2.dataDirty then [Op.fdatasync] else []
  let w3 := { w2 with dataDirty := false }
  let r := w3.writeRoot L ck
  (r.1, a.2.2 ++ ops2 ++ r.2)

/-! ## runs -/

/-- the calls `LinearStorage` makes on a `Write`r.  `refs` are the file offsets the appended item
refers to (segment priors, fact-index priors, …): ghost data, used only by the reachability
theorems. -/
inductive Call
  | append (bytes : Bytes) (refs : List Nat)
  | commit (heads : Bytes) (refs : List Nat) (fact : Nat)

def Writer.step (L : Layout) (ck : Checksum) (w : Writer) : Call → Writer × List Op
  | .append bytes _ => ((w.appendAt L bytes).1, (w.appendAt L bytes).2.2)
  | .commit heads _ fact => w.commit L ck heads fact

/-- the op stream of a list of calls -/
def trace (L : Layout) (ck : Checksum) (w : Writer) : List Call → List Op
  | [] => []
  | c :: cs => (w.step L ck c).2 ++ trace L ck (w.step L ck c).1 cs

def Writer.steps (L : Layout) (ck : Checksum) (w : Writer) : List Call → Writer
  | [] => w
  | c :: cs => Writer.steps L ck (w.step L ck c).1 cs

/-- op stream of a whole life: `create`, then the calls -/
def run (L : Layout) (ck : Checksum) (calls : List Call) : List Op :=
  (Writer.create L).2 ++ trace L ck (Writer.create L).1 calls

end AranyaV.Disk
