import AranyaV.Model.Segments
/-!
# Model.Lca — `client/braiding.rs::{lca_pair, last_common_ancestor}` on the segment store model

`lca_pair` walks two locations backwards until they meet: the side with the higher max cut moves
(on a tie the right one); a move goes to the previous command of the segment
(`Segment::previous`), or — at the first command of a segment — to the segment's single prior, or,
for a merge segment, to the **last entry of its skip list** (the last common ancestor recorded when
the merge was written: "merge skip list must end with LCA").  `Prior::None` before the two sides
met is the `bug!("found Prior::None before LCA")` outcome.  `last_common_ancestor` folds the
pairwise walk over the heads.
-/
namespace AranyaV.Segments
open AranyaV.Queue (Loc)

/-- one backward move of `lca_pair` -/
def stepBack (s : Store) (l : Loc) : Except Err Loc :=
  match s.seg? l.seg with
  | none => .error .segmentOutOfBounds
  | some g =>
    if g.first < l.mc then .ok ⟨l.mc - 1, l.seg⟩
    else
      match g.prior with
      | .none => .error .bug
      | .single p => .ok p
      | .merge _ _ =>
        match g.skips.getLast? with
        | some k => .ok k
        | none => .error .bug

/-- `lca_pair` (fuel = number of moves) -/
def lcaPair (s : Store) : Nat → Loc → Loc → Except Err Loc
  | 0, _, _ => .error .fuel
  | n + 1, l, r =>
    if l = r then .ok l
    else if l.mc > r.mc then
      match stepBack s l with
      | .error e => .error e
      | .ok l' => lcaPair s n l' r
    else
      match stepBack s r with
      | .error e => .error e
      | .ok r' => lcaPair s n l r'

/-- enough fuel: every move lowers the sum of the two max cuts -/
def lcaFuel (l r : Loc) : Nat := l.mc + r.mc + 1

/-- one step of the `try_fold` -/
def lcaStep (s : Store) (acc : Except Err Loc) (x : Loc) : Except Err Loc :=
  match acc with
  | .error e => .error e
  | .ok c => lcaPair s (lcaFuel c x) c x

/-- `last_common_ancestor`: `heads.split_first()` then `try_fold(first, lca_pair)` -/
def lastCommonAncestor (s : Store) : List Loc → Except Err Loc
  | [] => .error .bug
  | h :: rest => rest.foldl (lcaStep s) (.ok h)

end AranyaV.Segments
