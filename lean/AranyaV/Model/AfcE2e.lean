import AranyaV.Model.Afc
import AranyaV.Spec.SymAfc
/-
Glue between the symbolic channel-key derivation (`Spec.SymAfc`, C38) and the AFC data-path world
(`Model.Afc`, C39): a channel whose two ends *derive* their keys is put into the world according
to whether the derived keys coincide — one world channel (one key) if they do, one per key if not.
Used by the C39 driver for `dchan` requests and by `Props/C39b.lean`.
-/
namespace AranyaV.AfcE2e
open AranyaV.Sym AranyaV.Afc

/-- adds the two ends to the world; answers the world, the index of the author's seal end and
the index of the peer's open end -/
def addEnds (w : World) (ks kr : HpkeKeys) (ls lo start : Nat) : World × Nat × Nat :=
  if kr = ks then (w.addChan ls lo start, w.chans.length, w.chans.length)
  else ((w.addChan ls ls start).addChan lo lo 0, w.chans.length, w.chans.length + 1)

/-- how the peer's view of the channel may differ from the author's -/
inductive Variant
  | same | label | parent | swap | otherdev | otherpeer | otherauthor | otherenc
deriving DecidableEq, Repr

def Variant.parse : String → Option Variant
  | "same" => some .same | "label" => some .label | "parent" => some .parent | "swap" => some .swap
  | "otherdev" => some .otherdev | "otherpeer" => some .otherpeer
  | "otherauthor" => some .otherauthor | "otherenc" => some .otherenc | _ => none

def labelTerm (l : Nat) : Term := .lit (leBytes l 8)

/-- the scenario of the harness: author = secret atom 1 (device A), channel root secret 2, peer =
secret atom 3 (device P), a third device 4 (device T), another channel's root secret 5.
Answers the author's key and the peer's key. -/
def derive (sl ol : Nat) (v : Variant) : Option (HpkeKeys × HpkeKeys) :=
  let devA : Term := .lit [0xA]
  let devP : Term := .lit [0xB]
  let devT : Term := .lit [0xC]
  let c : Sym.Chan := ⟨.lit [1], devA, devP, labelTerm sl⟩
  let c' : Sym.Chan := match v with
    | .parent => { c with parent := .lit [2], label := labelTerm ol }
    | .swap => { c with sealId := devP, openId := devA, label := labelTerm ol }
    | .otherdev => { c with openId := devT, label := labelTerm ol }
    | _ => { c with label := labelTerm ol }
  let p := if v = .otherpeer then 4 else 3
  let authorPk := if v = .otherauthor then pkOf 4 else pkOf 1
  let enc := if v = .otherenc then pkOf 5 else pkOf 2
  match authorKey 1 2 (pkOf 3) c, peerKey p authorPk enc c' with
  | some ks, some kr => some (ks, kr)
  | _, _ => none

end AranyaV.AfcE2e
