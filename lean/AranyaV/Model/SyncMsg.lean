import AranyaV.Model.Postcard
import AranyaV.Gen.SyncWire
/-!
# Model.SyncMsg — decoding and processing of sync messages (C18)

`aranya-runtime/src/sync/{mod,requester,responder}.rs`:
* `SyncIncoming::decode`  = `postcard::take_from_bytes::<SyncType>` + repackaging;
* `SyncRequester::receive` = `take_from_bytes::<SyncResponseMessage>` + `get_sync_commands`
  (session check, state check, response-index check, bounds-checked slicing of the command
  bytes that follow the message); `receive_push` = the same on a decoded `Push`;
* `SyncRequester::poll` state machine (with a storage provider that does not have the graph, so
  the command sample is empty);
* `SyncResponder::receive` = `dispatch` (session check + state machine), `ready`, `poll` and
  `push`; what storage contributes (is there a graph; is there more to send) is a parameter.

The wire schemas (`syncType`, `syncResponseMessage`, …), the variant indices and field positions
and the vector capacities are all generated from the Rust declarations (`Gen.SyncWire`).
`u128/u64/usize` are `Nat` with the explicit `checked_add` conditions of the code.
-/
namespace AranyaV.SyncMsg
open AranyaV.Wire AranyaV.Postcard AranyaV.Gen.SyncWire

/-! ## typed view of decoded messages -/

/-- `wire::CommandMeta` -/
structure Meta where
  id : Bytes
  priority : WVal
  parent : WVal
  policyLen : Nat
  len : Nat
  deriving Repr

/-- `SyncResponseMessage` -/
inductive ResponseMsg
  | syncResponse (session index : Nat) (cmds : List Meta)
  | syncEnd (session maxIndex : Nat) (remaining : Bool)
  | offer (session : Nat) (head : Bytes)
  | endSession (session : Nat)
  deriving Repr

def ResponseMsg.session : ResponseMsg → Nat
  | .syncResponse s _ _ => s
  | .syncEnd s _ _ => s
  | .offer s _ => s
  | .endSession s => s

/-- `SyncRequestMessage` -/
inductive RequestMsg
  | syncRequest (session : Nat) (graph : Bytes) (maxBytes : Nat) (cmds : List WVal)
  | requestMissing (session : Nat) (indexes : List WVal)
  | syncResume (session index maxBytes : Nat)
  | endSession (session : Nat)
  deriving Repr

def RequestMsg.session : RequestMsg → Nat
  | .syncRequest s _ _ _ => s
  | .requestMissing s _ => s
  | .syncResume s _ _ => s
  | .endSession s => s

def fld (fs : List WVal) (i : Nat) : Option WVal := fs[i]?

def asNat : Option WVal → Option Nat
  | some (.nat n) => some n
  | _ => none
def asBytes : Option WVal → Option Bytes
  | some (.bytes b) => some b
  | _ => none
def asSeq : Option WVal → Option (List WVal)
  | some (.seq vs) => some vs
  | _ => none
def asBool : Option WVal → Option Bool
  | some (.bool b) => some b
  | _ => none

def interpMeta : WVal → Option Meta
  | .tuple fs => do
    let id ← asBytes (fld fs CommandMeta_id)
    let pr ← fld fs CommandMeta_priority
    let pa ← fld fs CommandMeta_parent
    let pl ← asNat (fld fs CommandMeta_policy_length)
    let l ← asNat (fld fs CommandMeta_length)
    pure { id := id, priority := pr, parent := pa, policyLen := pl, len := l }
  | _ => none

def interpMetas : List WVal → Option (List Meta)
  | [] => some []
  | v :: vs => do
    let m ← interpMeta v
    let ms ← interpMetas vs
    pure (m :: ms)

def interpResponse : WVal → Option ResponseMsg
  | .variant i (.tuple fs) =>
    if i = SyncResponseMessage_SyncResponse then do
      let s ← asNat (fld fs SyncResponseMessage_SyncResponse_session_id)
      let k ← asNat (fld fs SyncResponseMessage_SyncResponse_response_index)
      let cs ← asSeq (fld fs SyncResponseMessage_SyncResponse_commands)
      let ms ← interpMetas cs
      pure (.syncResponse s k ms)
    else if i = SyncResponseMessage_SyncEnd then do
      let s ← asNat (fld fs SyncResponseMessage_SyncEnd_session_id)
      let k ← asNat (fld fs SyncResponseMessage_SyncEnd_max_index)
      let r ← asBool (fld fs SyncResponseMessage_SyncEnd_remaining)
      pure (.syncEnd s k r)
    else if i = SyncResponseMessage_Offer then do
      let s ← asNat (fld fs SyncResponseMessage_Offer_session_id)
      let h ← asBytes (fld fs SyncResponseMessage_Offer_head)
      pure (.offer s h)
    else if i = SyncResponseMessage_EndSession then do
      let s ← asNat (fld fs SyncResponseMessage_EndSession_session_id)
      pure (.endSession s)
    else none
  | _ => none

def interpRequest : WVal → Option RequestMsg
  | .variant i (.tuple fs) =>
    if i = SyncRequestMessage_SyncRequest then do
      let s ← asNat (fld fs SyncRequestMessage_SyncRequest_session_id)
      let g ← asBytes (fld fs SyncRequestMessage_SyncRequest_graph_id)
      let m ← asNat (fld fs SyncRequestMessage_SyncRequest_max_bytes)
      let cs ← asSeq (fld fs SyncRequestMessage_SyncRequest_commands)
      pure (.syncRequest s g m cs)
    else if i = SyncRequestMessage_RequestMissing then do
      let s ← asNat (fld fs SyncRequestMessage_RequestMissing_session_id)
      let ix ← asSeq (fld fs SyncRequestMessage_RequestMissing_indexes)
      pure (.requestMissing s ix)
    else if i = SyncRequestMessage_SyncResume then do
      let s ← asNat (fld fs SyncRequestMessage_SyncResume_session_id)
      let k ← asNat (fld fs SyncRequestMessage_SyncResume_response_index)
      let m ← asNat (fld fs SyncRequestMessage_SyncResume_max_bytes)
      pure (.syncResume s k m)
    else if i = SyncRequestMessage_EndSession then do
      let s ← asNat (fld fs SyncRequestMessage_EndSession_session_id)
      pure (.endSession s)
    else none
  | _ => none

/-! ## errors -/

/-- `SyncError` classes on these paths -/
inductive SyncErr
  | sessionMismatch
  | missingSyncResponse
  | sessionState
  | notReady
  | malformedResponse
  | unsupportedRequest
  | noSuchStorage
  | serialize (e : PErr)
  | bug
  /-- model only: a decoded value did not have the shape of its schema (never happens) -/
  | shape
  deriving DecidableEq, Repr

/-! ## `SyncIncoming::decode` -/

/-- `SyncIncoming` -/
inductive Incoming
  | poll (session : Nat) (msg : RequestMsg)
  | subscribe (graph : Bytes) (remainOpen maxBytes : Nat) (heads : List WVal)
  | unsubscribe (graph : Bytes)
  | push (graph : Bytes) (session : Nat) (msg : ResponseMsg) (commandData : Bytes)
  | hello (h : WVal)
  deriving Repr

def interpIncoming (v : WVal) (remaining : Bytes) : Option Incoming :=
  match v with
  | .variant i p =>
    if i = SyncType_Hello then some (.hello p)
    else match p with
      | .tuple fs =>
        if i = SyncType_Poll then
          match (fld fs SyncType_Poll_request).bind interpRequest with
          | some m => some (.poll m.session m)
          | none => none
        else if i = SyncType_Subscribe then
          match asNat (fld fs SyncType_Subscribe_remain_open), asNat (fld fs SyncType_Subscribe_max_bytes),
            asSeq (fld fs SyncType_Subscribe_commands), asBytes (fld fs SyncType_Subscribe_graph_id) with
          | some ro, some mb, some cs, some g => some (.subscribe g ro mb cs)
          | _, _, _, _ => none
        else if i = SyncType_Unsubscribe then
          match asBytes (fld fs SyncType_Unsubscribe_graph_id) with
          | some g => some (.unsubscribe g)
          | none => none
        else if i = SyncType_Push then
          match (fld fs SyncType_Push_message).bind interpResponse,
            asBytes (fld fs SyncType_Push_graph_id) with
          | some m, some g => some (.push g m.session m remaining)
          | _, _ => none
        else none
      | _ => none
  | _ => none

/-- `SyncIncoming::decode` -/
def decodeIncoming (data : Bytes) : Except SyncErr Incoming :=
  match dec syncType data with
  | .error e => .error (.serialize e)
  | .ok (v, remaining) =>
    match interpIncoming v remaining with
    | some inc => .ok inc
    | none => .error .shape

/-! ## requester -/

inductive RState
  | new | start | waiting | idle | closed | resync | partialSync | reset
  deriving DecidableEq, Repr

structure Requester where
  session : Nat
  graph : Bytes
  state : RState
  maxBytes : Nat
  next : Nat
  deriving Repr

/-- `SyncRequester::new_session_id` -/
def Requester.newSessionId (graph : Bytes) (session : Nat) : Requester :=
  { session := session, graph := graph, state := .waiting, maxBytes := 0, next := 0 }

/-- `SyncRequester::new` (the session id is whatever the rng produced) -/
def Requester.new (graph : Bytes) (session : Nat) : Requester :=
  { session := session, graph := graph, state := .new, maxBytes := 0, next := 0 }

/-- one returned `SyncCommand`: `policy` and `data` are index ranges `[start, end)` into the bytes
that followed the message (`remaining`) -/
structure CmdOut where
  id : Bytes
  priority : WVal
  parent : WVal
  policy : Option (Nat × Nat)
  data : Nat × Nat
  deriving Repr

def usizeLimit : Nat := 2 ^ 64

/-- `start.checked_add(len)` then `remaining.get(start..end)`, either failing is
`MalformedResponse` -/
def takeRange (start len remLen : Nat) : Except SyncErr (Nat × Nat) :=
  if ¬ (start + len < usizeLimit) then .error .malformedResponse
  else if ¬ (start + len ≤ remLen) then .error .malformedResponse
  else .ok (start, start + len)

/-- the policy part of one command: `None` when `policy_length == 0`; returns the new offset -/
def slicePolicy (policyLen start remLen : Nat) : Except SyncErr (Option (Nat × Nat) × Nat) :=
  if policyLen = 0 then .ok (none, start)
  else match takeRange start policyLen remLen with
    | .error e => .error e
    | .ok r => .ok (some r, r.2)

/-- the highest `max_cut` among the parent addresses of a `Prior<Address>` value (`none` for
`Prior::None`) -/
def addrMaxCut : WVal → Option Nat
  | .tuple fs => asNat (fld fs Address_max_cut)
  | _ => none

def parentMaxCut : WVal → Option Nat
  | .variant i p =>
    if i = Prior_Single then addrMaxCut p
    else if i = Prior_Merge then
      match p with
      | .tuple [l, r] =>
        match addrMaxCut l, addrMaxCut r with
        | some a, some b => some (max a b)
        | _, _ => none
      | _ => none
    else none
  | _ => none

/-- `parent_has_successor`: the command's own max cut (`parent max_cut + 1`) is representable -/
def parentHasSuccessor (parent : WVal) : Bool :=
  match parentMaxCut parent with
  | some m => decide (m + 1 < usizeLimit)
  | none => true

/-- the `for meta in commands` loop of `get_sync_commands`: `remLen = remaining.len()`,
`start` the running offset, `count` the number of commands already pushed to `result` -/
def sliceCmds : List Meta → Nat → Nat → Nat → Except SyncErr (List CmdOut)
  | [], _, _, _ => .ok []
  | m :: ms, remLen, start, count =>
    if parentHasSuccessor m.parent = false then .error .malformedResponse else
    match slicePolicy m.policyLen start remLen with
    | .error e => .error e
    | .ok (policy, start1) =>
      match takeRange start1 m.len remLen with
      | .error e => .error e
      | .ok data =>
        if ¬ (count < COMMAND_RESPONSE_MAX) then .error .bug   -- `result.push` on a full vec
        else
          match sliceCmds ms remLen data.2 (count + 1) with
          | .error e => .error e
          | .ok out =>
            .ok ({ id := m.id, priority := m.priority, parent := m.parent, policy := policy,
                   data := data } :: out)

abbrev RecvRes := Except SyncErr (Option (List CmdOut))

/-- `SyncRequester::get_sync_commands` -/
def Requester.getSyncCommands (r : Requester) (msg : ResponseMsg) (remLen : Nat) :
    Requester × RecvRes :=
  if msg.session ≠ r.session then (r, .error .sessionMismatch)
  else match msg with
    | .syncResponse _ index cmds =>
      if ¬ (r.state = .start ∨ r.state = .waiting) then (r, .error .sessionState)
      else if index ≠ r.next then ({ r with state := .resync }, .error .missingSyncResponse)
      else if ¬ (r.next + 1 < usizeLimit) then (r, .error .bug)
      else
        let r' := { r with next := r.next + 1, state := .waiting }
        match sliceCmds cmds remLen 0 0 with
        | .ok out => (r', .ok (some out))
        | .error e => (r', .error e)
    | .syncEnd _ maxIndex _ =>
      if ¬ (r.state = .start ∨ r.state = .waiting) then (r, .error .sessionState)
      else if maxIndex ≠ r.next then ({ r with state := .resync }, .error .missingSyncResponse)
      else ({ r with state := .partialSync }, .ok none)
    | .offer _ _ =>
      if r.state ≠ .idle then (r, .error .sessionState)
      else ({ r with state := .resync }, .ok none)
    | .endSession _ => ({ r with state := .closed }, .ok none)

/-- `SyncRequester::receive`; also returns the bytes that followed the message -/
def Requester.receive (r : Requester) (data : Bytes) : Requester × RecvRes × Bytes :=
  match dec syncResponseMessage data with
  | .error e => (r, .error (.serialize e), [])
  | .ok (v, remaining) =>
    match interpResponse v with
    | none => (r, .error .shape, remaining)
    | some msg =>
      let (r', res) := r.getSyncCommands msg remaining.length
      (r', res, remaining)

/-- `SyncIncoming::decode` followed by `SyncRequester::receive_push` when it is a push -/
def Requester.receivePush (r : Requester) (msg : ResponseMsg) (commandData : Bytes) :
    Requester × RecvRes :=
  r.getSyncCommands msg commandData.length

/-- field list of a struct(-variant) built from `(position, value)` pairs -/
def mkFields (n : Nat) (kv : List (Nat × WVal)) : List WVal :=
  (List.range n).map fun i =>
    match kv.find? (fun p => p.1 == i) with
    | some p => p.2
    | none => .tuple []

def pollMsg (req : WVal) : WVal :=
  .variant SyncType_Poll (.tuple (mkFields 1 [(SyncType_Poll_request, req)]))

/-- `SyncRequester::poll` against a provider that does not have the graph and no session heads
(the command sample is empty).  Returns the encoded message. -/
def Requester.poll (r : Requester) : Requester × Except SyncErr Bytes :=
  match r.state with
  | .start | .waiting | .idle | .closed | .partialSync => (r, .error .notReady)
  | .new =>
    let msg := WVal.variant SyncRequestMessage_SyncRequest (.tuple (mkFields 4
      [(SyncRequestMessage_SyncRequest_session_id, .nat r.session),
       (SyncRequestMessage_SyncRequest_graph_id, .bytes r.graph),
       (SyncRequestMessage_SyncRequest_max_bytes, .nat r.maxBytes),
       (SyncRequestMessage_SyncRequest_commands, .seq [])]))
    ({ r with state := .start }, .ok (enc syncType (pollMsg msg)))
  | .resync =>
    if r.next = 0 then ({ r with state := .reset }, .error .missingSyncResponse)
    else
      let msg := WVal.variant SyncRequestMessage_SyncResume (.tuple (mkFields 3
        [(SyncRequestMessage_SyncResume_session_id, .nat r.session),
         (SyncRequestMessage_SyncResume_response_index, .nat (r.next - 1)),
         (SyncRequestMessage_SyncResume_max_bytes, .nat r.maxBytes)]))
      ({ r with state := .waiting }, .ok (enc syncType (pollMsg msg)))
  | .reset =>
    let msg := WVal.variant SyncRequestMessage_EndSession (.tuple (mkFields 1
      [(SyncRequestMessage_EndSession_session_id, .nat r.session)]))
    ({ r with state := .closed }, .ok (enc syncType (pollMsg msg)))

def Requester.ready (r : Requester) : Bool :=
  match r.state with
  | .new | .resync | .reset => true
  | _ => false

/-! ## responder -/

inductive PState
  | new | start | send | idle | reset | stopped
  deriving DecidableEq, Repr

structure Responder where
  session : Option Nat
  /-- `graph_id`, set by a `SyncRequest` -/
  graph : Option Bytes
  state : PState
  /-- `message_index`: survives a new `SyncRequest` in the same session -/
  msgIndex : Nat
  deriving Repr

def Responder.new : Responder := { session := none, graph := none, state := .new, msgIndex := 0 }

/-- `SyncResponder::receive` = `dispatch` -/
def Responder.dispatch (p : Responder) (msg : RequestMsg) : Responder × Except SyncErr Unit :=
  let p1 := if p.session = none then { p with session := some msg.session } else p
  if p1.session ≠ some msg.session then (p1, .error .sessionMismatch)
  else match msg with
    | .syncRequest _ g _ _ => ({ p1 with state := .start, graph := some g }, .ok ())
    | .requestMissing _ _ | .syncResume _ _ _ => ({ p1 with state := .reset }, .error .unsupportedRequest)
    | .endSession _ => ({ p1 with state := .stopped }, .ok ())

def Responder.ready (p : Responder) : Bool :=
  match p.state with
  | .reset | .start | .send => true
  | _ => false

/-- what a successful `poll`/`push` wrote: a message whose bytes the model knows, or a
`SyncResponse`/`Push` carrying commands read from storage (only its header is modelled) -/
inductive PollOut
  | bytes (b : Bytes)
  | response (session index : Nat)
  | push (session index : Nat)
  | empty
  deriving Repr

def syncEndBytes (s idx : Nat) : Bytes :=
  enc syncResponseMessage (.variant SyncResponseMessage_SyncEnd
    (.tuple (mkFields 3 [(SyncResponseMessage_SyncEnd_session_id, .nat s),
      (SyncResponseMessage_SyncEnd_max_index, .nat idx),
      (SyncResponseMessage_SyncEnd_remaining, .bool false)])))

def endSessionBytes (s : Nat) : Bytes :=
  enc syncResponseMessage (.variant SyncResponseMessage_EndSession
    (.tuple (mkFields 1 [(SyncResponseMessage_EndSession_session_id, .nat s)])))

/-- `get_next`: `more` = storage still has segments to send (`next_send < to_send.len()`), the one
fact about storage the message-level model takes as a parameter -/
def Responder.getNext (p : Responder) (more : Bool) : Responder × Except SyncErr PollOut :=
  match p.session with
  | none => (p, .error .bug)
  | some s =>
    if more then ({ p with msgIndex := p.msgIndex + 1 }, .ok (.response s p.msgIndex))
    else ({ p with state := .idle }, .ok (.bytes (syncEndBytes s p.msgIndex)))

/-- `SyncResponder::poll`; `world` = the graph the storage provider has (if any) -/
def Responder.poll (p : Responder) (world : Option Bytes) (more : Bool) :
    Responder × Except SyncErr PollOut :=
  match p.state with
  | .new | .idle | .stopped => (p, .error .notReady)
  | .start =>
    match p.graph with
    | none => ({ p with state := .reset }, .error .bug)
    | some g =>
      if world = some g then Responder.getNext { p with state := .send } more
      else ({ p with state := .reset }, .error .noSuchStorage)
  | .send => p.getNext more
  | .reset =>
    match p.session with
    | none => ({ p with state := .stopped }, .error .bug)
    | some s => ({ p with state := .stopped }, .ok (.bytes (endSessionBytes s)))

/-- `SyncResponder::push`; `nonempty` = storage yielded at least one command to push -/
def Responder.push (p : Responder) (world : Option Bytes) (nonempty : Bool) :
    Responder × Except SyncErr PollOut :=
  match p.graph with
  | none => ({ p with state := .reset }, .error .notReady)
  | some g =>
    if world ≠ some g then ({ p with state := .reset }, .error .noSuchStorage)
    else if nonempty then
      match p.session with
      | none => (p, .error .bug)
      | some s => ({ p with msgIndex := p.msgIndex + 1 }, .ok (.push s p.msgIndex))
    else (p, .ok .empty)

end AranyaV.SyncMsg
