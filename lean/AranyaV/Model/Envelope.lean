import AranyaV.Spec.Sym
import AranyaV.Gen.EnvelopeC35
/-!
# Model.Envelope — what a replica checks before it accepts a received command (C35)

Decision logic, transliterated from
* `crates/aranya-runtime/src/vm_policy.rs` — `VmPolicy::call_rule` (which fields of the RECEIVED
  wire command go into the `Envelope` handed to the `open` block, the priority / definition /
  placement / struct checks before it, `open` before the `policy` block, `open` skipped inside a
  braid) and the sealing side of `VmPolicy::call_action` (`seal_cmd`);
* `crates/aranya-runtime/src/vm_policy/protocol.rs` — `VmProtocol` (wire command) and
  `VmProtocolData` (author id, command name, serialized fields, signature);
* `crates/aranya-crypto-ffi/src/ffi.rs` — `crypto::sign` / `crypto::verify`, through the symbolic
  `Sym.signCmd` / `Sym.ffiVerify` of C34 (perfect hash, perfect signature);
* `crates/aranya-runtime/src/client/transaction.rs` — the arms of `add_commands` a received
  command goes through before and after `call_rule` (`init`, duplicate, spurious init, `add_single`
  with checkpoint / revert / sink window, `add_merge` which evaluates no rule).

The policy is a parameter: the command definitions (`command_defs` + priority map), whether the
serialized fields decode as the named struct, the `open` block and the `policy` block.  A policy
"whose `open` verifies" is `verifyingOpen keyOf`: it looks up the verifying key the policy
designates for (command name, claimed author, payload) and calls `crypto::verify` with the
envelope's parent id, command id and signature.

Import-free apart from `Spec.Sym` (+ its generated constants): the model driver links it.
-/
namespace AranyaV.Envelope
open AranyaV.Sym

/-- `aranya_runtime::Priority` (only compared for equality here) -/
inductive Prio where
  | merge | basic (n : Nat) | finalize | init
deriving DecidableEq, Repr, Inhabited

/-- decoded `VmProtocolData` -/
structure Payload where
  author : Term
  kind   : Term
  fields : Term
  sig    : Term
deriving DecidableEq, Repr

/-- `Prior<Address>` of the wire command, ids only (max cuts only matter for locating) -/
inductive Parent where
  | none | single (id : Term) | merge
deriving DecidableEq, Repr

/-- a wire command (`VmProtocol` / `SyncCommand`): `data = none` when the bytes do not decode as
`VmProtocolData` -/
structure WireCmd where
  id        : Term
  prio      : Prio
  parent    : Parent
  hasPolicy : Bool
  data      : Option Payload
deriving DecidableEq, Repr

/-- `vm_policy::protocol::Envelope` -/
structure Env where
  parentId  : Term
  authorId  : Term
  commandId : Term
  sig       : Term
deriving DecidableEq, Repr

/-- `CmdId::default()`: 32 zero bytes -/
def zeroId : Term := .lit (List.replicate 32 0)

/-- the parent id `call_rule` / `seal` use: `CmdId::default()` for an init command -/
def parentIdOf : Parent → Term
  | .none => zeroId
  | .single p => p
  | .merge => zeroId

inductive PErr where
  | read | internal | rejected | bug
deriving DecidableEq, Repr

inductive Verdict where
  | ok | err (e : PErr)
deriving DecidableEq, Repr

structure CmdDef where
  prio : Prio
  persistent : Bool
deriving DecidableEq, Repr

/-- the parts of the receiving replica's policy `call_rule` consults before the blocks run -/
structure Policy where
  /-- `machine.command_defs` with the priority map -/
  defs  : Term → Option CmdDef
  /-- `machine.deserialize_struct(kind, payload)` succeeds -/
  deser : Term → Term → Bool

inductive Placement where
  | atOrigin | inBraid | offGraph
deriving DecidableEq, Repr

/-- the `open` block: (command name = `OpenContext.name`, payload bytes, envelope) -/
abbrev OpenFn := Term → Term → Env → Verdict
/-- the `policy` block's verdict: (command name, payload, envelope) -/
abbrev RuleFn := Term → Term → Env → Bool

/-- an id `call_rule` can put into the envelope -/
def pickId (c : WireCmd) : Gen.C35.IdSrc → Term
  | .zero => zeroId
  | .parentId => match c.parent with
    | .single p => p
    | _ => zeroId
  | .receivedId => c.id

/-- a field of the decoded payload -/
def pickPl (p : Payload) : Gen.C35.PlSrc → Term
  | .author => p.author
  | .kind => p.kind
  | .fields => p.fields
  | .signature => p.sig

/-- `let parent_id = match command.parent() { .. }` with the arms as they are in the source
(`Gen.C35`, regenerated from vm_policy.rs on every run) -/
def recvParentId (c : WireCmd) : Term :=
  match c.parent with
  | .none => pickId c Gen.C35.envParentOfNone
  | .single _ => pickId c Gen.C35.envParentOfSingle
  | .merge => zeroId

/-- the envelope `call_rule` builds, field sources as in the source: by `envelope_sources`
(Props.C35) these are the RECEIVED command's parent id and id, and the author id and the
signature from the payload -/
def envelopeOf (c : WireCmd) (p : Payload) : Env :=
  ⟨recvParentId c, pickPl p Gen.C35.envAuthor, pickId c Gen.C35.envCommandId, pickPl p Gen.C35.envSignature⟩

def placementOk : Placement → Bool → Bool
  | .atOrigin, true => true
  | .inBraid, true => true
  | .offGraph, false => true
  | _, _ => false

/-- `VmPolicy::call_rule` -/
def callRule (P : Policy) (opn : OpenFn) (rule : RuleFn) (pl : Placement) (c : WireCmd) : Verdict :=
  if c.parent = .merge then .err .bug          -- bug!("merge commands are not evaluated")
  else
    match c.data with
    | none => .err .read                       -- postcard::from_bytes failed
    | some p =>
      -- the definition is looked up first (an unknown name from the peer is invalid input),
      -- then the wire priority must be the one the policy gives that command
      match P.defs p.kind with
      | none => .err .internal                 -- unknown command
      | some d =>
        if c.prio ≠ d.prio then .err .internal
        else
          if !placementOk pl d.persistent then .err .internal
          else if !P.deser p.kind p.fields then .err .read
          else
            let env := envelopeOf c p
            let opened := match pl with
              | .inBraid =>                      -- "Bypass real open and just deserialize."
                if Gen.C35.braidBypassesOpen then Verdict.ok
                else opn (pickPl p Gen.C35.openName) (pickPl p Gen.C35.openPayload) env
              | _ => opn (pickPl p Gen.C35.openName) (pickPl p Gen.C35.openPayload) env
            match opened with
            | .err e => .err e
            | .ok => if rule p.kind p.fields env then .ok else .err .rejected

/-- The `open` block of a policy that verifies: the key the policy designates for
(command name, claimed author, payload) — `none` = no key (`MissingKeyInput`) — then
`crypto::verify(key, envelope.parent_id, payload, envelope.command_id, envelope.signature)` in
the `OpenContext` of that command name.  A failing FFI call is a machine error, which
`open_command` maps to `InternalError`. -/
def verifyingOpen (oids : List Term) (keyOf : Term → Term → Term → Option Term) : OpenFn :=
  fun name payload env =>
    match keyOf name env.authorId payload with
    | none => .err .internal
    | some pub =>
      if ffiVerify oids pub ⟨name, env.parentId, payload⟩ env.commandId env.sig then .ok
      else .err .internal

/-- What an honest `call_action` ships when the action publishes a command `name` with serialized
fields `fields` on top of `parent`: `crypto::sign` in the `SealContext` (name, head id), the id is
the one `sign_cmd` derives, the payload carries author id and signature. -/
def sealCmd (oids : List Term) (k author name fields : Term) (parent : Parent) (prio : Prio)
    (hasPolicy : Bool) : WireCmd :=
  let r := signCmd oids k ⟨name, parentIdOf parent, fields⟩
  { id := r.2, prio := prio, parent := parent, hasPolicy := hasPolicy,
    data := some ⟨author, name, fields, r.1⟩ }

/-! ## the receive path of `Transaction::add_commands` for one command -/

/-- what the transaction knows about the command before any rule runs -/
structure RecvCtx where
  /-- `provider.get_storage(graph_id)` succeeded -/
  hasStore : Bool
  /-- `command.id() == graph_id` -/
  isGraphId : Bool
  /-- already in the in-flight perspective or located (by address) in the graph -/
  dup : Bool
  /-- `Prior::Single(parent)`: the parent address is located -/
  parentLocated : Bool
  /-- `Prior::Merge(l, r)`: both addresses are located -/
  mergeLocated : Bool
deriving DecidableEq, Repr

inductive Outcome where
  | accept | dup | noParent | initErr | reject (e : PErr)
deriving DecidableEq, Repr

def ofVerdict : Verdict → Outcome
  | .ok => .accept
  | .err e => .reject e

/-- one command through `add_commands` (braid errors of `add_merge` are not modelled) -/
def recv (P : Policy) (opn : OpenFn) (rule : RuleFn) (x : RecvCtx) (c : WireCmd) : Outcome :=
  if !x.hasStore then
    -- `Transaction::init`
    if !x.isGraphId then .initErr
    else if c.parent ≠ .none then .initErr
    else if !c.hasPolicy then .initErr
    else ofVerdict (callRule P opn rule .atOrigin c)
  else if x.dup then .dup
  else
    match c.parent with
    | .none => if x.isGraphId then .dup else .initErr
    | .single _ =>
      if !x.parentLocated then .noParent
      else ofVerdict (callRule P opn rule .atOrigin c)
    | .merge =>
      -- `add_merge`: no rule is evaluated, id / priority / data of the command are not examined
      if !x.mergeLocated then .noParent else .accept

/-! ## `add_single`: checkpoint, rule, revert / sink window (mechanism in the small) -/

inductive SinkEv (E : Type) where
  | begin | consume (e : E) | rollback | commit
deriving Repr

/-- effects a transactional sink has committed, given what is staged in the open window -/
def committedAux {E : Type} : List (SinkEv E) → List E → List E → List E
  | [], _, done => done
  | .begin :: r, _, done => committedAux r [] done
  | .consume e :: r, st, done => committedAux r (st ++ [e]) done
  | .rollback :: r, _, done => committedAux r [] done
  | .commit :: r, st, done => committedAux r [] (done ++ st)

def committed {E : Type} (l : List (SinkEv E)) : List E := committedAux l [] []

/-- a perspective: the facts and the commands it holds -/
structure Persp (F : Type) where
  facts : F
  cmds  : List Term

/-- one evaluation of `call_rule` on a perspective: what it wrote (possibly before failing),
what it emitted, and its verdict -/
structure Run (F E : Type) where
  facts   : F
  effects : List E
  verdict : Verdict

/-- `add_single` after `get_perspective`: `sink.begin`, checkpoint, `call_rule`; on error
`revert(checkpoint)` + `sink.rollback`; otherwise `add_command` + `sink.commit` -/
def addSingle {F E : Type} (run : F → Run F E) (p : Persp F) (sink : List (SinkEv E)) (id : Term) :
    Persp F × List (SinkEv E) × Verdict :=
  let checkpoint := p.facts
  let r := run p.facts
  let sink1 := sink ++ [SinkEv.begin] ++ r.effects.map SinkEv.consume
  match r.verdict with
  | .ok => ({ facts := r.facts, cmds := p.cmds ++ [id] }, sink1 ++ [SinkEv.commit], .ok)
  | .err e => ({ facts := checkpoint, cmds := p.cmds }, sink1 ++ [SinkEv.rollback], .err e)

end AranyaV.Envelope
