import AranyaV.Model.Wire
import AranyaV.Gen.SerializeTags
/-!
# Model.Serialize — `aranya-policy-vm/src/serialize.rs` (C26)

`Machine::serialize_struct` / `Machine::deserialize_struct`: schema-directed postcard encoding of
policy struct values.

* identifiers (struct, enum and field names) are `Nat`s (the harness maps names to numbers by an
  order-preserving map, so `BTreeMap<Identifier, _>` iteration order is the numeric order);
* `AutoMap<StructDef>` / `AutoMap<EnumDef>` are lists searched for the first entry with the name;
* `Struct.fields : BTreeMap<Identifier, Value>` is a key-sorted association list
  (`insertField` = `BTreeMap::insert`, `lookupField` = `BTreeMap::get`);
* `Text` is its UTF-8 bytes, `BaseId` its bytes; `Value::Identifier`/`Value::Fact` are `internal`;
* the serializer is *value*-directed (only struct field order comes from the schema); the
  deserializer is *type*-directed — exactly as in the Rust code;
* the Rust serializer walks the definition's fields in order and serializes each looked-up value
  on demand.  The model first maps `serVal` over the (finite) field map (`serFields`) and then
  assembles in definition order, returning the first failure in definition order (`assemble`):
  the same result and the same error, written so that the recursion is structural;
* `deserialize_struct` → `deserialize_value` → `deserialize_struct` recursion goes through the
  schema, not through a shrinking argument.  The model gives it a recursion budget `fuel` that is
  consumed only by a struct lookup; an exhausted budget is the explicit outcome `DeErr.depth`
  (in the real code: unbounded recursion).  With acyclic definitions a budget of
  `structs.length + 1` is never exhausted (`Props.C26`).
-/
namespace AranyaV.Serialize
open AranyaV.Wire AranyaV.Gen.SerializeTags

inductive Ty
  | unit | string | bytes | int | bool | id
  | struct (name : Nat)
  | enum (name : Nat)
  | optional (t : Ty)
  | never
  | result (ok err : Ty)
  deriving DecidableEq, Repr, Inhabited

/-- `aranya_policy_vm::Value` -/
inductive Val
  | unit
  | int (x : Int)
  | bool (b : Bool)
  | string (s : Bytes)
  | bytes (b : Bytes)
  | struct (name : Nat) (fields : List (Nat × Val))
  | id (b : Bytes)
  | enum (name : Nat) (x : Int)
  | none
  | some (v : Val)
  | ok (v : Val)
  | err (v : Val)
  | internal
  deriving Repr, Inhabited

structure StructDef where
  name : Nat
  items : List (Nat × Ty)
  deriving Repr

structure EnumDef where
  name : Nat
  variants : List Int
  deriving Repr

inductive SerErr
  | unknownStruct (n : Nat)
  | missingField (n : Nat)
  | fieldLengthMismatch
  | internalValue
  deriving DecidableEq, Repr

inductive DeErr
  | unknownEnum (n : Nat)
  | unknownStruct (n : Nat)
  | unexpectedEnd
  | trailingData
  | badInput
  /-- model only: recursion budget exhausted (unbounded recursion in the real code) -/
  | depth
  deriving DecidableEq, Repr

def liftErr : Wire.Err → DeErr
  | .eof => .unexpectedEnd
  | .bad => .badInput

def findStruct : List StructDef → Nat → Option (List (Nat × Ty))
  | [], _ => none
  | d :: ds, n => if d.name = n then some d.items else findStruct ds n

def findEnum : List EnumDef → Nat → Option (List Int)
  | [], _ => none
  | d :: ds, n => if d.name = n then some d.variants else findEnum ds n

/-- `BTreeMap::get` / lookup in an association list -/
def lookup {α : Type} : List (Nat × α) → Nat → Option α
  | [], _ => none
  | (k, v) :: rest, n => if k = n then some v else lookup rest n

/-- `BTreeMap::insert` on a key-sorted association list -/
def insertField : List (Nat × Val) → Nat → Val → List (Nat × Val)
  | [], n, v => [(n, v)]
  | (k, w) :: rest, n, v =>
    if n < k then (n, v) :: (k, w) :: rest
    else if n = k then (k, v) :: rest
    else (k, w) :: insertField rest n v

/-! ## serializer -/

/-- the `for d in &def.items` loop of `SerializeCtx::serialize_struct` over the per-field
results: first failure in definition order wins -/
def assemble : List (Nat × Ty) → List (Nat × Except SerErr Bytes) → Except SerErr Bytes
  | [], _ => .ok []
  | (n, _) :: items, encs =>
    match lookup encs n with
    | Option.none => .error (.missingField n)
    | Option.some (.error e) => .error e
    | Option.some (.ok b) =>
      match assemble items encs with
      | .ok r => .ok (b ++ r)
      | .error e => .error e

mutual
/-- `SerializeCtx::serialize_value` -/
def serVal (ds : List StructDef) : Val → Except SerErr Bytes
  | .unit => .ok []
  | .int x => .ok (i64Enc x)
  | .bool b => .ok (boolEnc b)
  | .string s => .ok (bytesEnc s)
  | .bytes b => .ok (bytesEnc b)
  | .struct name fs =>
    match findStruct ds name with
    | Option.none => .error (.unknownStruct name)
    | Option.some items =>
      if items.length ≠ fs.length then .error .fieldLengthMismatch
      else assemble items (serFields ds fs)
  | .id b => .ok (UInt8.ofNat idSize :: b)
  | .enum _ x => .ok (i64Enc x)
  | .none => .ok [UInt8.ofNat serNone]
  | .some v =>
    match serVal ds v with
    | .ok b => .ok (UInt8.ofNat serSome :: b)
    | .error e => .error e
  | .ok v =>
    match serVal ds v with
    | .ok b => .ok (UInt8.ofNat serOk :: b)
    | .error e => .error e
  | .err v =>
    match serVal ds v with
    | .ok b => .ok (UInt8.ofNat serErr :: b)
    | .error e => .error e
  | .internal => .error .internalValue
def serFields (ds : List StructDef) : List (Nat × Val) → List (Nat × Except SerErr Bytes)
  | [] => []
  | (n, v) :: rest => (n, serVal ds v) :: serFields ds rest
end

/-- `Machine::serialize_struct` (the argument is a `Struct`, i.e. `Val.struct`) -/
def serializeStruct (ds : List StructDef) (name : Nat) (fields : List (Nat × Val)) :
    Except SerErr Bytes :=
  serVal ds (.struct name fields)

/-! ## deserializer -/

abbrev DeRes := Except DeErr (Val × Bytes)

/-- the `for d in &def.items` loop of `DeserializeCtx::deserialize_struct` -/
def deFields (f : Ty → Bytes → DeRes) :
    List (Nat × Ty) → List (Nat × Val) → Bytes → Except DeErr (List (Nat × Val) × Bytes)
  | [], acc, bs => .ok (acc, bs)
  | (n, t) :: items, acc, bs =>
    match f t bs with
    | .ok (v, rest) => deFields f items (insertField acc n v) rest
    | .error e => .error e

/-- `DeserializeCtx::deserialize_value`; `structDe` is the (budgeted) `deserialize_struct` -/
def deVal (es : List EnumDef) (structDe : Nat → Bytes → DeRes) : Ty → Bytes → DeRes
  | .unit, bs => .ok (.unit, bs)
  | .string, bs =>
    match bytesDec bs with
    | .error e => .error (liftErr e)
    | .ok (s, rest) =>
      if validUtf8 s = true ∧ (0 : UInt8) ∉ s then .ok (.string s, rest) else .error .badInput
  | .bytes, bs =>
    match bytesDec bs with
    | .error e => .error (liftErr e)
    | .ok (b, rest) => .ok (.bytes b, rest)
  | .int, bs =>
    match i64Dec bs with
    | .error e => .error (liftErr e)
    | .ok (x, rest) => .ok (.int x, rest)
  | .bool, bs =>
    match boolDec bs with
    | .error e => .error (liftErr e)
    | .ok (b, rest) => .ok (.bool b, rest)
  | .id, bs =>
    match pop bs with
    | .error e => .error (liftErr e)
    | .ok (len, rest) =>
      if len.toNat ≠ idSize then .error .badInput
      else match takeN idSize rest with
        | .error e => .error (liftErr e)
        | .ok (x, rest') => .ok (.id x, rest')
  | .struct n, bs => structDe n bs
  | .enum n, bs =>
    match findEnum es n with
    | Option.none => .error (.unknownEnum n)
    | Option.some vs =>
      match i64Dec bs with
      | .error e => .error (liftErr e)
      | .ok (x, rest) => if x ∈ vs then .ok (.enum n x, rest) else .error .badInput
  | .optional t, bs =>
    match pop bs with
    | .error e => .error (liftErr e)
    | .ok (tag, rest) =>
      if tag.toNat = deNone then .ok (.none, rest)
      else if tag.toNat = deSome then
        match deVal es structDe t rest with
        | .ok (v, r) => .ok (.some v, r)
        | .error e => .error e
      else .error .badInput
  | .never, _ => .error .badInput
  | .result a b, bs =>
    match pop bs with
    | .error e => .error (liftErr e)
    | .ok (tag, rest) =>
      if tag.toNat = deOk then
        match deVal es structDe a rest with
        | .ok (v, r) => .ok (.ok v, r)
        | .error e => .error e
      else if tag.toNat = deErr then
        match deVal es structDe b rest with
        | .ok (v, r) => .ok (.err v, r)
        | .error e => .error e
      else .error .badInput

/-- `DeserializeCtx::deserialize_struct` with recursion budget `fuel` -/
def deStruct (ds : List StructDef) (es : List EnumDef) : Nat → Nat → Bytes → DeRes
  | fuel, name, bs =>
    match findStruct ds name with
    | Option.none => .error (.unknownStruct name)
    | Option.some items =>
      match fuel with
      | 0 => .error .depth
      | fuel + 1 =>
        match deFields (deVal es (deStruct ds es fuel)) items [] bs with
        | .ok (fs, rest) => .ok (.struct name fs, rest)
        | .error e => .error e

/-- `serialize::deserialize_struct` / `Machine::deserialize_struct`: decode, then require that
the input is exhausted -/
def deserializeStruct (ds : List StructDef) (es : List EnumDef) (fuel name : Nat) (bs : Bytes) :
    Except DeErr Val :=
  match deStruct ds es fuel name bs with
  | .ok (v, rest) => if rest = [] then .ok v else .error .trailingData
  | .error e => .error e

/-- the budget used by the driver: enough for every acyclic schema -/
def defaultFuel (ds : List StructDef) : Nat := ds.length + 1

end AranyaV.Serialize
