/-!
# Values of the policy VM (C25)

`crates/aranya-policy-vm/src/data.rs::Value` with identifiers, strings, byte strings and ids
interned as natural numbers (the harness interns injectively, so equality is preserved).
`Struct.fields` is a `BTreeMap` — modelled as a key-sorted `Fields` list; `Fact.values` is a
`Vec` with find-or-push updates — modelled as an insertion-ordered `Fields` list.
-/
namespace AranyaV.VM

/-- `HashableValue` -/
inductive HV where
  | int (i : Int) | bool (b : Bool) | str (n : Nat) | id (n : Nat) | enum (name : Nat) (i : Int)
deriving Repr, DecidableEq, Inhabited, BEq

mutual
/-- `Value` (`Option`/`Result` flattened into `none/some/ok/err`) -/
inductive Value where
  | unit | int (i : Int) | bool (b : Bool) | str (n : Nat) | bytes (n : Nat)
  | struct (name : Nat) (fields : Fields)
  | fact (name : Nat) (keys : List (Nat × HV)) (vals : Fields)
  | id (n : Nat) | enum (name : Nat) (i : Int) | ident (n : Nat)
  | none | some (v : Value) | ok (v : Value) | err (v : Value)
inductive Fields where
  | nil | cons (k : Nat) (v : Value) (rest : Fields)
end

deriving instance BEq for Value, Fields
deriving instance Repr for Value, Fields
instance : Inhabited Value := ⟨.unit⟩
instance : Inhabited Fields := ⟨.nil⟩

/-- `TypeKind` of aranya-policy-module -/
inductive Ty where
  | unit | string | bytes | int | bool | id | struct (n : Nat) | enum (n : Nat)
  | optional (t : Ty) | never | result (ok err : Ty)
deriving Repr, Inhabited, BEq

namespace Fields

def toList : Fields → List (Nat × Value)
  | .nil => []
  | .cons k v r => (k, v) :: r.toList

def ofList : List (Nat × Value) → Fields
  | [] => .nil
  | (k, v) :: r => .cons k v (ofList r)

def get? : Fields → Nat → Option Value
  | .nil, _ => Option.none
  | .cons k v r, x => if k = x then Option.some v else r.get? x

/-- `BTreeMap::insert`: keep sorted by key, replace an existing binding -/
def insertSorted : Fields → Nat → Value → Fields
  | .nil, x, w => .cons x w .nil
  | .cons k v r, x, w =>
    if x < k then .cons x w (.cons k v r)
    else if x = k then .cons k w r
    else .cons k v (r.insertSorted x w)

/-- `BTreeMap::remove` -/
def remove : Fields → Nat → Fields
  | .nil, _ => .nil
  | .cons k v r, x => if k = x then r else .cons k v (r.remove x)

/-- `Fact::set_value`: replace the first binding with that name, else push at the end -/
def setVec : Fields → Nat → Value → Fields
  | .nil, x, w => .cons x w .nil
  | .cons k v r, x, w => if k = x then .cons k w r else .cons k v (r.setVec x w)

def isEmpty : Fields → Bool
  | .nil => true
  | _ => false

def length : Fields → Nat
  | .nil => 0
  | .cons _ _ r => r.length + 1

end Fields

def HV.toValue : HV → Value
  | .int i => .int i | .bool b => .bool b | .str n => .str n | .id n => .id n | .enum n i => .enum n i

/-- `TryFrom<Value> for HashableValue` -/
def Value.toHV? : Value → Option HV
  | .int i => Option.some (.int i) | .bool b => Option.some (.bool b) | .str n => Option.some (.str n)
  | .id n => Option.some (.id n) | .enum n i => Option.some (.enum n i)
  | _ => Option.none

/-- `Value::fits_type` -/
def Value.fitsType : Value → Ty → Bool
  | .unit, .unit => true
  | .int _, .int => true
  | .bool _, .bool => true
  | .str _, .string => true
  | .bytes _, .bytes => true
  | .struct n _, .struct m => n == m
  | .id _, .id => true
  | .enum n _, .enum m => n == m
  | .some v, .optional t => v.fitsType t
  | .none, .optional _ => true
  | .ok v, .result o _ => v.fitsType o
  | .err v, .result _ e => v.fitsType e
  | _, _ => false

/-- `HashableValue::fits_type` -/
def HV.fitsType : HV → Ty → Bool
  | .int _, .int => true
  | .bool _, .bool => true
  | .str _, .string => true
  | .id _, .id => true
  | .enum n _, .enum m => n == m
  | _, _ => false

/-- `Fact::set_key` -/
def setKey : List (Nat × HV) → Nat → HV → List (Nat × HV)
  | [], x, w => [(x, w)]
  | (k, v) :: r, x, w => if k = x then (k, w) :: r else (k, v) :: setKey r x w

end AranyaV.VM
