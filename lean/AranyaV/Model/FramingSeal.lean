import AranyaV.Model.Framing
import AranyaV.Gen.CryptoC37
/-!
# Byte-level model of the context encodings of C37

* group keys: `info = tuple_hash("GroupKey", OIDs, [label, parent, author key id])`
  (KDF info and AEAD AD of `GroupKey::seal/open`);
* sealed group keys / PSK seeds / topic keys: fixed-width `#[repr(C)]` records
  `domain ‖ field₁ ‖ … ‖ fieldₙ` used as HPKE `info` and as AEAD AD; the HPKE `info` the
  primitive sees is the record followed by every suite OID `encode_string`ed (`hpke::wrap_info`);
* topic-key messages: `ad = tuple_hash("apq msg", OIDs, [version, topic, enc key id, sign key id])`.
Field orders, widths and domains are generated from the Rust source.
-/
namespace AranyaV.Framing
open Gen.C37

/-- 4-byte big-endian integer (`U32<BE>`, `Version::to_be_bytes`) -/
def be32 (v : Nat) : Bytes :=
  [UInt8.ofNat (v / 2 ^ 24), UInt8.ofNat (v / 2 ^ 16), UInt8.ofNat (v / 2 ^ 8), UInt8.ofNat v]

/-- `domain ‖ fields` of a `#[repr(C)]` record of byte arrays; `layout` lists the fields with their widths -/
def fixedLayout {α : Type} (domain : Bytes) (layout : List (α × Nat)) (get : α → Bytes) : Bytes :=
  domain ++ (layout.map fun p => get p.1).flatten

/-- every field has its declared width (a typing fact of the Rust struct) -/
def LayoutOk {α : Type} (layout : List (α × Nat)) (get : α → Bytes) : Prop :=
  ∀ p ∈ layout, (get p.1).length = p.2

/-- `hpke::wrap_info`: the caller's info followed by the encoded OIDs -/
def hpkeInfo (info : Bytes) (oids : List Bytes) : Bytes := info ++ concatEncoded oids

def gkItem (label parent author : Bytes) : GkField → Bytes
  | .label => label
  | .parent => parent
  | .author => author

/-- preimage of `groupkey::Context::to_bytes` -/
def gkInfoPreimage (oids : List Bytes) (label parent author : Bytes) (dsize : Nat) : Bytes :=
  suiteTuplePreimage groupKeyTag oids (gkOrder.map (gkItem label parent author)) dsize

def sgkItem (group : Bytes) : SgkField → Bytes
  | .group => group

/-- `GroupKeyInfo` (sealed group keys) -/
def sgkInfo (group : Bytes) : Bytes := fixedLayout sgkDomain sgkLayout (sgkItem group)

def pskItem (group : Bytes) : PskField → Bytes
  | .group => group

/-- psk `Info` (sealed PSK seeds) -/
def pskInfo (group : Bytes) : Bytes := fixedLayout pskDomain pskLayout (pskItem group)

def topicItem (version topic : Bytes) : TopicField → Bytes
  | .version => version
  | .topic => topic

/-- `TopicKeyRotationInfo` (sealed topic keys) -/
def topicInfo (version topic : Bytes) : Bytes := fixedLayout topicDomain topicLayout (topicItem version topic)

def msgItem (version topic encKey signKey : Bytes) : MsgField → Bytes
  | .version => version
  | .topic => topic
  | .encKey => encKey
  | .signKey => signKey

/-- AD preimage of `TopicKey::seal_message` -/
def sealMsgAdPreimage (oids : List Bytes) (version topic encKey signKey : Bytes) (dsize : Nat) : Bytes :=
  suiteTuplePreimage apqMsgTag oids (sealMsgOrder.map (msgItem version topic encKey signKey)) dsize

/-- AD preimage of `TopicKey::open_message` -/
def openMsgAdPreimage (oids : List Bytes) (version topic encKey signKey : Bytes) (dsize : Nat) : Bytes :=
  suiteTuplePreimage apqMsgTag oids (openMsgOrder.map (msgItem version topic encKey signKey)) dsize

end AranyaV.Framing
