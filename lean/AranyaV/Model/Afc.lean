import AranyaV.Gen.ConstsAfc
/-
Model of the AFC data path: `Client::{seal, seal_in_place, open, open_in_place}`
(crates/aranya-fast-channels/src/client.rs), `DataHeader`/`Header` parsing (header.rs) and the
`SealKey`/`OpenKey` layer (crates/aranya-crypto/src/afc/keys.rs).

Wire format of a data message:  `ciphertext ‖ tag ‖ header`, header = the sequence number as 8
little-endian bytes, `tag` = `TAG_SIZE` bytes, so `OVERHEAD = TAG_SIZE + DataHeader::PACKED_SIZE`.

The Rust length arithmetic is explicit:
  * `a.checked_sub(b)` / `split_last_chunk` / `get_mut(..n)` → `Option`, error on `none`;
  * an *unchecked* `a - b` with `a < b` (resp. `a + b` beyond `usize::MAX`) is `hostPanic` — the
    behaviour of an overflow-checked build (the harness is built with `overflow-checks = true`).
    `openIP false` is `open_in_place` as found (`rest.len() - Self::TAG_SIZE`, F3);
    `openIP true` is the code after the fix (`checked_sub` → `Error::Authentication`).

The AEAD is *ideal* (symbolic): the world keeps the log of every seal call
`(key, nonce = seq, AD = version ‖ label, plaintext, output bytes)`; the output bytes are chosen
by the environment (`oracle`, in the driver: the bytes the real cipher produced), and
`aeadOpen key nonce ad c` succeeds iff the log has a call with the same key, nonce and AD whose
output is exactly `c` — then it returns that call's plaintext.  Sequence numbers are per seal
context and increase by one per successful seal, so `(key, nonce)` identifies the call.

Not modelled: allocation failures of `Buf`, `Bug` results of `assume(..)` on branches the length
checks make unreachable, the shared-memory state (the harness drives `memory::State`).
-/
namespace AranyaV.Afc
open AranyaV.Gen.Afc

def usizeMax : Nat := 2 ^ 64 - 1

/-- `TAG_SIZE + DataHeader::PACKED_SIZE` -/
def overhead : Nat := tagSize + dataHeaderSize

inductive Err
  | invalidSize      -- `HeaderError::InvalidSize`
  | unknownVersion   -- `HeaderError::UnknownVersion`
  | invalidMsgType   -- `HeaderError::InvalidMsgType`
  | authentication   -- `Error::Authentication`
  | bufferTooSmall   -- `Error::BufferTooSmall`
  | inputTooLarge    -- `Error::InputTooLarge`
  | keyExpired       -- `Error::KeyExpired` (`MessageLimitReached`)
  | notFound         -- `Error::NotFound`
deriving DecidableEq, Repr

inductive Outcome (α : Type)
  | ok (a : α)
  | err (e : Err)
  | hostPanic
deriving DecidableEq, Repr

/-- `a - b` on `usize`: `none` when `a < b` (`checked_sub` → error; unchecked → panic) -/
def csub (a b : Nat) : Option Nat := if a < b then none else some (a - b)

def zeros (n : Nat) : List UInt8 := List.replicate n 0

/-! ## little-endian integers -/

def leBytes (n : Nat) : Nat → List UInt8
  | 0 => []
  | w + 1 => UInt8.ofNat n :: leBytes (n / 256) w

def ofLe : List UInt8 → Nat
  | [] => 0
  | b :: t => b.toNat + 256 * ofLe t

/-- `DataHeader::encode`: `seq.to_le_bytes()` -/
def encSeq (seq : Nat) : List UInt8 := leBytes seq dataHeaderSize

/-- `AuthData::to_bytes`: a zeroed `PACKED_SIZE` buffer, the version as `u32` little-endian at
`[adVersionOff, adVersionEnd)`, the label id copied to `[adLabelOff..]` (`copy_from_slice` panics
on a length mismatch: `none`) -/
def adBytes (version : Nat) (label : List UInt8) : Option (List UInt8) :=
  if label.length ≠ adSize - adLabelOff then none
  else
    let b := zeros adSize
    let b1 := b.take adVersionOff ++ leBytes version (adVersionEnd - adVersionOff) ++ b.drop adVersionEnd
    some (b1.take adLabelOff ++ label)

/-! ## ideal AEAD -/

structure SealRec where
  key : Nat
  nonce : Nat
  version : Nat
  label : Nat
  pt : List UInt8
  out : List UInt8
deriving DecidableEq, Repr

/-- one direction of a channel: the seal side and the open side hold the same key, which no
other channel has — the key *is* the channel's index in `World.chans` (that distinct channels get
distinct keys is C38's subject); each side has its own label (they agree unless the channel was
set up inconsistently) -/
structure Chan where
  sealLabel : Nat
  openLabel : Nat
  /-- next sequence number of the seal context -/
  seq : Nat := 0
  removed : Bool := false
deriving DecidableEq, Repr

structure World where
  log : List SealRec := []
  chans : List Chan := []
deriving DecidableEq, Repr

def findRec (log : List SealRec) (key nonce : Nat) : Option SealRec :=
  log.find? (fun r => r.key == key && r.nonce == nonce)

/-- `OpenKey::open` on the ideal AEAD -/
def aeadOpen (log : List SealRec) (key nonce version label : Nat) (c : List UInt8) :
    Option (List UInt8) :=
  match findRec log key nonce with
  | some r => if r.version = version ∧ r.label = label ∧ r.out = c then some r.pt else none
  | none => none

def World.setChan (w : World) (c : Nat) (ch : Chan) : World :=
  { w with chans := w.chans.set c ch }

/-- `AranyaState::add` on both sides with a fresh key; the seal context starts at `start` -/
def World.addChan (w : World) (sealLabel openLabel start : Nat) : World :=
  { w with chans := w.chans ++ [{ sealLabel, openLabel, seq := start }] }

/-- `AranyaState::remove` on both sides -/
def World.rmChan (w : World) (c : Nat) : World :=
  match w.chans[c]? with
  | some ch => w.setChan c { ch with removed := true }
  | none => w

/-- `AfcState::seal`/`open` look-up: `none` = `Error::NotFound` (removed channel) -/
def World.chan (w : World) (c : Nat) : Option Chan :=
  match w.chans[c]? with
  | some ch => if ch.removed then none else some ch
  | none => none

/-! ## seal -/

/-- `do_seal`: runs the AEAD (whose output bytes are `oracle`) and produces the header -/
def doSeal (w : World) (c : Nat) (pt oracle : List UInt8) :
    Except Err (Nat × World) :=
  match w.chan c with
  | none => .error .notFound
  | some ch =>
    if ch.seq ≥ seqMax then .error .keyExpired
    else
      let r : SealRec := ⟨c, ch.seq, versionV1, ch.sealLabel, pt, oracle⟩
      .ok (ch.seq, { (w.setChan c { ch with seq := ch.seq + 1 }) with log := r :: w.log })

/-- `Client::seal`: result, the new `dst`, the new world -/
def sealC (w : World) (c : Nat) (dst pt oracle : List UInt8) :
    Outcome Nat × List UInt8 × World :=
  let ctLen := pt.length + overhead
  if ctLen > usizeMax then (.err .inputTooLarge, dst, w)          -- `checked_add`
  else if dst.length < ctLen then (.err .bufferTooSmall, dst, w)  -- `dst.get_mut(..ctLen)`
  else
    match doSeal w c pt oracle with
    | .error e => (.err e, zeros ctLen ++ dst.drop ctLen, w)      -- `inspect_err(dst.zeroize())`
    | .ok (seq, w') => (.ok seq, oracle ++ encSeq seq ++ dst.drop ctLen, w')

/-- `Client::seal_in_place` on a `Vec<u8>` holding the plaintext -/
def sealIP (w : World) (c : Nat) (pt oracle : List UInt8) :
    Outcome Nat × List UInt8 × World :=
  let n := pt.length + overhead                                   -- unchecked `len + OVERHEAD`
  if n > usizeMax then (.hostPanic, pt, w)
  else
    let data := pt ++ zeros overhead
    match csub n dataHeaderSize with                               -- `split_last_chunk_mut`
    | none => (.hostPanic, data, w)
    | some restLen =>
      match csub restLen tagSize with                              -- unchecked `rest.len() - TAG_SIZE`
      | none => (.hostPanic, data, w)
      | some _ =>
        match doSeal w c pt oracle with
        | .error e => (.err e, zeros n, w)
        | .ok (seq, w') => (.ok seq, oracle ++ encSeq seq, w')

/-! ## open -/

/-- `do_open` + `OpenKey::open`: label and plaintext -/
def doOpen (w : World) (c : Nat) (seq : Nat) (ct : List UInt8) : Except Err (Nat × List UInt8) :=
  match w.chan c with
  | none => .error .notFound
  | some ch =>
    if seq ≥ seqMax then .error .keyExpired
    else
      match aeadOpen w.log c seq versionV1 ch.openLabel ct with
      | some pt => .ok (ch.openLabel, pt)
      | none => .error .authentication

/-- `Client::open`: result `(label, seq)` and the new `dst` -/
def openC (w : World) (c : Nat) (dst wire : List UInt8) : Outcome (Nat × Nat) × List UInt8 :=
  match csub wire.length dataHeaderSize with                       -- `split_last_chunk`
  | none => (.err .invalidSize, dst)
  | some restLen =>
    let rest := wire.take restLen
    let seq := ofLe (wire.drop restLen)
    match csub restLen tagSize with                                -- `checked_sub(TAG_SIZE)`
    | none => (.err .authentication, dst)
    | some ptLen =>
      if dst.length < ptLen then (.err .bufferTooSmall, dst)
      else
        match doOpen w c seq rest with
        | .error e => (.err e, zeros dst.length)                   -- `inspect_err(dst.zeroize())`
        | .ok (label, pt) => (.ok (label, seq), pt ++ dst.drop ptLen)

/-- `Client::open_in_place` on a `Vec<u8>`; `fixed = false`: `rest.len() - Self::TAG_SIZE` -/
def openIP (fixed : Bool) (w : World) (c : Nat) (data : List UInt8) :
    Outcome (Nat × Nat) × List UInt8 :=
  match csub data.length dataHeaderSize with                       -- `split_last_chunk_mut`
  | none => (.err .invalidSize, data)
  | some restLen =>
    let rest := data.take restLen
    let seq := ofLe (data.drop restLen)
    match csub restLen tagSize with
    | none => if fixed then (.err .authentication, data) else (.hostPanic, data)
    | some _ =>
      -- `out ‖ tag = rest`; the AEAD sees both halves
      match doOpen w c seq rest with
      | .error e => (.err e, zeros data.length)                    -- `data.zeroize()`
      | .ok (label, pt) => (.ok (label, seq), pt)                  -- `data.truncate(plaintext_len)`

/-! ## `Header` / `Message::try_parse` -/

/-- `Message::try_parse`: `(is_data, payload length)` -/
def msgParse (bs : List UInt8) : Except Err (Bool × Nat) :=
  match csub bs.length headerSize with                             -- `split_first_chunk`
  | none => .error .invalidSize
  | some payload =>
    let v := ofLe (bs.take 2)
    let t := ofLe ((bs.drop 2).take 2)
    if ¬ versions.contains v then .error .unknownVersion
    else if t = msgTypeData then .ok (true, payload)
    else if t = msgTypeControl then .ok (false, payload)
    else .error .invalidMsgType

end AranyaV.Afc
