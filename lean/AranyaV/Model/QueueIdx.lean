import AranyaV.Model.Queue
/-!
Index-level model of `aranya_runtime::storage::TraversalQueue`
(crates/aranya-runtime/src/storage/mod.rs): `entries : Vec<Location>` + `partition : usize`,
transliterated method by method, INCLUDING the failure outcomes of the Rust code:

* `Fail.bug`  — a `checked_sub/checked_add(..).assume(..)?` failed (`StorageError::Bug`);
* `Fail.oob`  — an index expression / `swap` / `swap_remove` was out of bounds (Rust panic);
* `Fail.fuel` — model artefact only: the `while` loops of `drain_above` are run with fuel
  `entries.len()`; `Proofs/QueueIdx.lean` proves the fuel is never exhausted.

`usize` arithmetic: `checked_add` fails above `usizeMax`, `checked_sub` below 0.  `MaxCut` is a
`u64`: `coverage_mc.checked_add(1)` fails above `u64Max`.  (`Vec::push` itself is total in the
model: allocation failure is not modelled.)

The only imports are core Lean and the two-list model (for `Loc`, `Op`), so the driver links.
The two-list model `Queue` (Model/Queue.lean) is the abstraction of this one:
`abs q = ⟨entries.take part, entries.drop part⟩` (Proofs/QueueIdx.lean, Props/C21Idx.lean).
-/
namespace AranyaV.Queue

inductive Fail where
  | bug
  | oob
  | fuel
deriving DecidableEq, Repr, Inhabited

def usizeMax : Nat := 2 ^ 64 - 1
def u64Max : Nat := 2 ^ 64 - 1

/-- `a.checked_sub(b).assume(..)` -/
def checkedSub (a b : Nat) : Except Fail Nat := if b ≤ a then .ok (a - b) else .error .bug
/-- `a.checked_add(b).assume(..)` on an unsigned type with maximum `max` -/
def checkedAdd (max a b : Nat) : Except Fail Nat := if a + b ≤ max then .ok (a + b) else .error .bug

/-- `slice::swap(i, j)` (panics when an index is out of bounds) -/
def lswap (l : List Loc) (i j : Nat) : Except Fail (List Loc) :=
  match l[i]?, l[j]? with
  | some a, some b => .ok ((l.set i b).set j a)
  | _, _ => .error .oob

/-- `Vec::swap_remove(i)`: the last element takes the place of the removed one -/
def swapRemove (l : List Loc) (i : Nat) : Except Fail (Loc × List Loc) :=
  match l[i]?, l.getLast? with
  | some a, some z => .ok (a, (l.set i z).dropLast)
  | _, _ => .error .oob

/-- `Vec<Location>` + `partition` -/
structure IQ where
  entries : List Loc := []
  part : Nat := 0
deriving Repr, DecidableEq, Inhabited

def IQ.new : IQ := {}
def IQ.clear (_ : IQ) : IQ := {}
def IQ.isEmpty (q : IQ) : Bool := q.entries.isEmpty
def IQ.allCovered (q : IQ) : Bool := q.part == 0

/-- `partition = partition.checked_sub(1)?; entries.swap(i, partition)`:
move the uncovered entry at `i` to the covered side of the boundary -/
def IQ.moveToCovered (q : IQ) (i : Nat) : Except Fail IQ :=
  match checkedSub q.part 1 with
  | .error e => .error e
  | .ok p' =>
    match lswap q.entries i p' with
    | .error e => .error e
    | .ok es => .ok ⟨es, p'⟩

/-- `entries.swap(i, partition); partition = partition.checked_add(1)?`:
move the covered entry at `i` to the uncovered side of the boundary -/
def IQ.moveToUncovered (q : IQ) (i : Nat) : Except Fail IQ :=
  match lswap q.entries i q.part with
  | .error e => .error e
  | .ok es =>
    match checkedAdd usizeMax q.part 1 with
    | .error e => .error e
    | .ok p' => .ok ⟨es, p'⟩

/-- the tail of the "found" branch of `push_covered`: fix the side of entry `i` -/
def IQ.fixFlag (q : IQ) (i : Nat) (was new : Bool) : Except Fail IQ :=
  if !was && new then q.moveToCovered i
  else if was && !new then q.moveToUncovered i
  else .ok q

/-- after `entries.push(loc)`:
`last = len.checked_sub(1)?; entries.swap(partition, last); partition = partition.checked_add(1)?` -/
def IQ.swapInLast (q : IQ) : Except Fail IQ :=
  match checkedSub q.entries.length 1 with
  | .error e => .error e
  | .ok last => q.moveToUncovered last

/-- `push_covered` -/
def IQ.pushCovered (q : IQ) (loc : Loc) (covered : Bool) : Except Fail IQ :=
  match q.entries.findIdx? (sameSeg loc.seg) with
  | some i =>
    match q.entries[i]? with
    | none => .error .oob
    | some e =>
      let was := decide (q.part ≤ i)
      if loc.mc > e.mc then
        IQ.fixFlag ⟨q.entries.set i ⟨loc.mc, e.seg⟩, q.part⟩ i was covered
      else if loc.mc == e.mc then
        q.fixFlag i was (was || covered)
      else .ok q
  | none =>
    let q1 : IQ := ⟨q.entries ++ [loc], q.part⟩
    if covered then .ok q1 else q1.swapInLast

def IQ.push (q : IQ) (loc : Loc) : Except Fail IQ := q.pushCovered loc false

/-- `push_duplicate` -/
def IQ.pushDuplicate (q : IQ) (loc : Loc) : Except Fail IQ :=
  IQ.swapInLast ⟨q.entries ++ [loc], q.part⟩

/-- the fold behind `iter().enumerate().max_by_key(|(_, loc)| *loc)`: `max_by` keeps the later
element unless the earlier compares `Greater`; `k` is the index of the next element -/
def maxIdxGo : List Loc → Nat → Nat × Loc → Nat × Loc
  | [], _, best => best
  | x :: xs, k, best => maxIdxGo xs (k + 1) (if best.2.ble x then (k, x) else best)

/-- index and value of the LAST maximum -/
def maxIdx : List Loc → Option (Nat × Loc)
  | [] => none
  | x :: xs => some (maxIdxGo xs 1 (0, x))

/-- `remove_uncovered(i)` -/
def IQ.removeUncovered (q : IQ) (i : Nat) : Except Fail (Loc × IQ) :=
  match q.moveToCovered i with
  | .error e => .error e
  | .ok q1 =>
    match swapRemove q1.entries q1.part with
    | .error e => .error e
    | .ok (x, es) => .ok (x, ⟨es, q1.part⟩)

/-- `pop_covered` -/
def IQ.popCovered (q : IQ) : Except Fail (Option (Loc × Bool) × IQ) :=
  match maxIdx q.entries with
  | none => .ok (none, q)
  | some (i, _) =>
    if i < q.part then
      match q.removeUncovered i with
      | .error e => .error e
      | .ok (x, q') => .ok (some (x, false), q')
    else
      match swapRemove q.entries i with
      | .error e => .error e
      | .ok (x, es) => .ok (some (x, true), ⟨es, q.part⟩)

/-- `pop` -/
def IQ.pop (q : IQ) : Except Fail (Option Loc × IQ) :=
  match q.popCovered with
  | .error e => .error e
  | .ok (r, q') => .ok (r.map (·.1), q')

/-- `peek` -/
def IQ.peek (q : IQ) : Option Loc := (maxIdx q.entries).map (·.2)

/-- the backward loop of `pop_duplicates`; the first argument is `j` at the loop head
(`j + 1 > 0`, `j = (j + 1).checked_sub(1)` cannot fail) -/
def IQ.popDupLoop (loc : Loc) : Nat → IQ → Nat → Except Fail (IQ × Nat)
  | 0, q, cnt => .ok (q, cnt)
  | j + 1, q, cnt =>
    match q.entries[j]? with
    | none => .error .oob
    | some x =>
      if x == loc then
        match checkedAdd usizeMax cnt 1 with
        | .error e => .error e
        | .ok cnt' =>
          if j < q.part then
            match q.removeUncovered j with
            | .error e => .error e
            | .ok (_, q') => IQ.popDupLoop loc j q' cnt'
          else
            match swapRemove q.entries j with
            | .error e => .error e
            | .ok (_, es) => IQ.popDupLoop loc j ⟨es, q.part⟩ cnt'
      else IQ.popDupLoop loc j q cnt

/-- `pop_duplicates` -/
def IQ.popDuplicates (q : IQ) : Except Fail (Option (Loc × Nat) × IQ) :=
  match maxIdx q.entries with
  | none => .ok (none, q)
  | some (_, m) =>
    match IQ.popDupLoop m q.entries.length q 0 with
    | .error e => .error e
    | .ok (q', cnt) => .ok (some (m, cnt), q')

/-- first loop of `drain_above` (uncovered region); `em` = locations passed to `f` so far,
in emission order -/
def IQ.drainLoopU (thr : Nat) : Nat → Nat → IQ → List Loc → Except Fail (List Loc × IQ)
  | 0, i, q, em => if i < q.part then .error .fuel else .ok (em, q)
  | fuel + 1, i, q, em =>
    if i < q.part then
      match q.entries[i]? with
      | none => .error .oob
      | some x =>
        if x.mc > thr then
          match q.removeUncovered i with
          | .error e => .error e
          | .ok (y, q') => IQ.drainLoopU thr fuel i q' (em ++ [y])
        else
          match checkedAdd usizeMax i 1 with
          | .error e => .error e
          | .ok i' => IQ.drainLoopU thr fuel i' q em
    else .ok (em, q)

/-- second loop of `drain_above` (covered region) -/
def IQ.drainLoopC (thr : Nat) : Nat → Nat → IQ → Except Fail IQ
  | 0, i, q => if i < q.entries.length then .error .fuel else .ok q
  | fuel + 1, i, q =>
    if i < q.entries.length then
      match q.entries[i]? with
      | none => .error .oob
      | some x =>
        if x.mc > thr then
          match swapRemove q.entries i with
          | .error e => .error e
          | .ok (_, es) => IQ.drainLoopC thr fuel i ⟨es, q.part⟩
        else
          match checkedAdd usizeMax i 1 with
          | .error e => .error e
          | .ok i' => IQ.drainLoopC thr fuel i' q
    else .ok q

/-- `drain_above`: the emitted list (in emission order) and the new queue -/
def IQ.drainAbove (q : IQ) (thr : Nat) : Except Fail (List Loc × IQ) :=
  match IQ.drainLoopU thr q.entries.length 0 q [] with
  | .error e => .error e
  | .ok (em, q1) =>
    match IQ.drainLoopC thr q1.entries.length q1.part q1 with
    | .error e => .error e
    | .ok q2 => .ok (em, q2)

/-- `cover_up_to` -/
def IQ.coverUpTo (q : IQ) (seg cmc lmc : Nat) : Except Fail IQ :=
  match q.entries.findIdx? (sameSeg seg) with
  | none => .ok q
  | some i =>
    if q.part ≤ i then .ok q
    else if cmc ≥ lmc then q.moveToCovered i
    else
      match q.entries[i]? with
      | none => .error .oob
      | some e =>
        if cmc ≥ e.mc then
          match checkedAdd u64Max cmc 1 with
          | .error e => .error e
          | .ok m => .ok ⟨q.entries.set i ⟨m, e.seg⟩, q.part⟩
        else .ok q

/-- `for i in 0..n { f(entries[i]) }` -/
def emitPrefix (es : List Loc) : Nat → Except Fail (List Loc)
  | 0 => .ok []
  | n + 1 =>
    match emitPrefix es n with
    | .error e => .error e
    | .ok l =>
      match es[n]? with
      | none => .error .oob
      | some x => .ok (l ++ [x])

/-- `drain_all` -/
def IQ.drainAll (q : IQ) : Except Fail (List Loc × IQ) :=
  match emitPrefix q.entries q.part with
  | .error e => .error e
  | .ok em => .ok (em, {})

/-- one operation (state part) -/
def IQ.apply (q : IQ) : Op → Except Fail IQ
  | .push l => q.push l
  | .pushCovered l c => q.pushCovered l c
  | .pushDuplicate l => q.pushDuplicate l
  | .pop => q.pop.map (·.2)
  | .popCovered => q.popCovered.map (·.2)
  | .popDuplicates => q.popDuplicates.map (·.2)
  | .drainAbove t => (q.drainAbove t).map (·.2)
  | .drainAll => q.drainAll.map (·.2)
  | .coverUpTo s c l => q.coverUpTo s c l
  | .clear => .ok q.clear

/-- a sequence of operations; stops at the first failure -/
def IQ.run : List Op → IQ → Except Fail IQ
  | [], q => .ok q
  | op :: ops, q =>
    match q.apply op with
    | .error e => .error e
    | .ok q' => IQ.run ops q'

end AranyaV.Queue
