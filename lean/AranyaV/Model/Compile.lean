import AranyaV.Model.LangVM
/-!
# Model.Compile — `compile_typed_expression` / `compile_typed_statement` /
`compile_match_statement_or_expression` / `compile_function_like` / `resolve_targets`
(aranya-policy-compiler/src/compile.rs) for the C22–C24 fragment

Each function takes the write pointer `wp` and the anonymous-label counter `c` (`CompileState.wp`,
`.c`) and returns the instructions it appends, the labels it defines (`define_label`) and the
new counter.  Targets are emitted `Unresolved`; `resolveTargets` rewrites them afterwards, as the
real compiler does.  Instruction shapes, label allocation order and evaluation order follow the
Rust code line by line.
-/
namespace AranyaV.Lang
open AranyaV.Gen.Lang

structure Out where
  code : List Instr
  defs : List (Label × Nat)
  c : Nat

def br (l : Label) : Instr := .Branch (.Unresolved l)
def jmp (l : Label) : Instr := .Jump (.Unresolved l)

def wrapOfBinding (e : Expr) : Option WrapType := (bindingOf e).map (·.1)

/-- struct definitions the compiler consults (`Substruct`) -/
abbrev Defs := List (Nat × List (Nat × Ty))
def Defs.fields (sd : Defs) (n : Nat) : List Nat :=
  match sd.find? (·.1 == n) with
  | Option.some (_, fs) => fs.map (·.1)
  | Option.none => []

mutual
def compileExpr (sd : Defs) (wp c : Nat) : Expr → Out
  | .unit => ⟨[.Const .unit], [], c⟩
  | .int n => ⟨[.Const (.int n)], [], c⟩
  | .str s => ⟨[.Const (.str s)], [], c⟩
  | .bool b => ⟨[.Const (.bool b)], [], c⟩
  | .none => ⟨[.Const .none], [], c⟩
  | .some e => let E := compileExpr sd wp c e; ⟨E.code ++ [.Wrap .Some], E.defs, E.c⟩
  | .ok e => let E := compileExpr sd wp c e; ⟨E.code ++ [.Wrap .Ok], E.defs, E.c⟩
  | .err e => let E := compileExpr sd wp c e; ⟨E.code ++ [.Wrap .Err], E.defs, E.c⟩
  | .struct name fields _ =>
    let F := compileFields sd (wp + 1) c fields
    ⟨.StructNew name :: F.code, F.defs, F.c⟩
  | .ite cnd t f =>
    let els := Label.anon c
    let end_ := Label.anon (c + 1)
    let C := compileExpr sd wp (c + 2) cnd
    let wpF := wp + C.code.length + 1
    let F := compileExpr sd wpF C.c f
    let wpT := wpF + F.code.length + 1
    let T := compileExpr sd wpT F.c t
    ⟨C.code ++ [br els] ++ F.code ++ [jmp end_] ++ T.code,
     C.defs ++ F.defs ++ [(els, wpT)] ++ T.defs ++ [(end_, wpT + T.code.length)], T.c⟩
  | .todo => ⟨[.Exit .Panic], [], c⟩
  | .call f args =>
    let A := compileArgs sd wp c args
    match (builtinInstr f : Option Instr) with
    | Option.some i => ⟨A.code ++ [i], A.defs, A.c⟩
    | Option.none => ⟨A.code ++ [.Call (.Unresolved (.fn f))], A.defs, A.c⟩
  | .ffi mname fname ids args =>
    let A := compileArgs sd (wp + 1) c args
    match ids with
    | Option.some (mi, pi) => ⟨.Meta (mname, fname) :: A.code ++ [.ExtCall mi pi], A.defs, A.c⟩
    | Option.none => ⟨.Meta (mname, fname) :: A.code ++ [.Exit .Panic], A.defs, A.c⟩
  | .ret e => let E := compileExpr sd wp c e; ⟨E.code ++ [.RestoreSP, .Return], E.defs, E.c⟩
  | .var x => ⟨[.Get x], [], c⟩
  | .enumRef name _ v => ⟨[.Const (.enum name v)], [], c⟩
  | .and a b =>
    let A := compileExpr sd wp c a
    let mid := Label.anon A.c
    let end_ := Label.anon (A.c + 1)
    let wpB := wp + A.code.length + 3
    let B := compileExpr sd wpB (A.c + 2) b
    ⟨A.code ++ [br mid, .Const (.bool false), jmp end_] ++ B.code,
     A.defs ++ [(mid, wpB)] ++ B.defs ++ [(end_, wpB + B.code.length)], B.c⟩
  | .or a b =>
    let A := compileExpr sd wp c a
    let mid := Label.anon A.c
    let end_ := Label.anon (A.c + 1)
    let wpB := wp + A.code.length + 1
    let B := compileExpr sd wpB (A.c + 2) b
    let wpM := wpB + B.code.length + 1
    ⟨A.code ++ [br mid] ++ B.code ++ [jmp end_, .Const (.bool true)],
     A.defs ++ B.defs ++ [(mid, wpM), (end_, wpM + 1)], B.c⟩
  | .coalesce a b =>
    let isSome := Label.anon c
    let end_ := Label.anon (c + 1)
    let A := compileExpr sd wp (c + 2) a
    let wpB := wp + A.code.length + 4
    let B := compileExpr sd wpB A.c b
    let wpS := wpB + B.code.length + 1
    ⟨A.code ++ [.Dup, .Is .Some, br isSome, .Pop] ++ B.code ++ [jmp end_, .Unwrap .Some],
     A.defs ++ B.defs ++ [(isSome, wpS), (end_, wpS + 1)], B.c⟩
  | .dot e f => let E := compileExpr sd wp c e; ⟨E.code ++ [.StructGet f], E.defs, E.c⟩
  | .eq a b =>
    let A := compileExpr sd wp c a
    let B := compileExpr sd (wp + A.code.length) A.c b
    ⟨A.code ++ B.code ++ [.Eq], A.defs ++ B.defs, B.c⟩
  | .ne a b =>
    let A := compileExpr sd wp c a
    let B := compileExpr sd (wp + A.code.length) A.c b
    ⟨A.code ++ B.code ++ [.Eq, .Not], A.defs ++ B.defs, B.c⟩
  | .gt a b =>
    let A := compileExpr sd wp c a
    let B := compileExpr sd (wp + A.code.length) A.c b
    ⟨A.code ++ B.code ++ [.Gt], A.defs ++ B.defs, B.c⟩
  | .lt a b =>
    let A := compileExpr sd wp c a
    let B := compileExpr sd (wp + A.code.length) A.c b
    ⟨A.code ++ B.code ++ [.Lt], A.defs ++ B.defs, B.c⟩
  | .ge a b =>
    let A := compileExpr sd wp c a
    let B := compileExpr sd (wp + A.code.length) A.c b
    ⟨A.code ++ B.code ++ [.Lt, .Not], A.defs ++ B.defs, B.c⟩
  | .le a b =>
    let A := compileExpr sd wp c a
    let B := compileExpr sd (wp + A.code.length) A.c b
    ⟨A.code ++ B.code ++ [.Gt, .Not], A.defs ++ B.defs, B.c⟩
  | .not e => let E := compileExpr sd wp c e; ⟨E.code ++ [.Not], E.defs, E.c⟩
  | .is e s =>
    let E := compileExpr sd wp c e
    ⟨E.code ++ (if s then [.Is .Some] else [.Is .Some, .Not]), E.defs, E.c⟩
  | .block ss e =>
    let S := compileStmts sd (wp + 1) c ss
    let E := compileExpr sd (wp + 1 + S.code.length) S.c e
    ⟨.Block :: S.code ++ E.code ++ [.End], S.defs ++ E.defs, E.c⟩
  | .substruct e sub =>
    let names := sd.fields sub
    let E := compileExpr sd (wp + 1) c e
    let tail : List Instr := if names.length = 0 then [.Pop] else [.MStructGet names.length, .MStructSet names.length]
    ⟨.StructNew sub :: E.code ++ names.map (fun k => Instruction.Identifier k) ++ tail, E.defs, E.c⟩
  | .cast e to => let E := compileExpr sd wp c e; ⟨E.code ++ [.Cast to], E.defs, E.c⟩
  | .mtch scrut arms =>
    let S := compileExpr sd wp c scrut
    let end_ := Label.anon S.c
    let T := compileTestsE sd (wp + S.code.length) (S.c + 1) arms
    let A := compileArmsE sd (wp + S.code.length + T.1.code.length) T.1.c end_ T.2 arms
    ⟨S.code ++ T.1.code ++ A.code,
     S.defs ++ T.1.defs ++ A.defs ++ [(end_, wp + S.code.length + T.1.code.length + A.code.length)], A.c⟩

def compileArgs (sd : Defs) (wp c : Nat) : List Expr → Out
  | [] => ⟨[], [], c⟩
  | e :: es =>
    let E := compileExpr sd wp c e
    let R := compileArgs sd (wp + E.code.length) E.c es
    ⟨E.code ++ R.code, E.defs ++ R.defs, R.c⟩

def compileFields (sd : Defs) (wp c : Nat) : List (Nat × Expr) → Out
  | [] => ⟨[], [], c⟩
  | (k, e) :: rest =>
    let E := compileExpr sd wp c e
    let R := compileFields sd (wp + E.code.length + 1) E.c rest
    ⟨E.code ++ [.StructSet k] ++ R.code, E.defs ++ R.defs, R.c⟩

/-- the tests of one arm's alternatives, all branching to `arm` -/
def compilePatVals (sd : Defs) (wp c : Nat) (arm : Label) : List Expr → Out
  | [] => ⟨[], [], c⟩
  | v :: vs =>
    match wrapOfBinding v with
    | Option.some w =>
      let R := compilePatVals sd (wp + 3) c arm vs
      ⟨[.Dup, .Is w, br arm] ++ R.code, R.defs, R.c⟩
    | Option.none =>
      let E := compileExpr sd (wp + 1) c v
      let R := compilePatVals sd (wp + 1 + E.code.length + 2) E.c arm vs
      ⟨.Dup :: E.code ++ [.Eq, br arm] ++ R.code, E.defs ++ R.defs, R.c⟩

/-- phase 1 of a match: branching instructions; returns the arm labels in order -/
def compileTestsE (sd : Defs) (wp c : Nat) : List (Pat × Expr) → Out × List Label
  | [] => (⟨[], [], c⟩, [])
  | (pat, _) :: rest =>
    let arm := Label.anon c
    match pat with
    | .values vs =>
      let V := compilePatVals sd wp (c + 1) arm vs
      let R := compileTestsE sd (wp + V.code.length) V.c rest
      (⟨V.code ++ R.1.code, V.defs ++ R.1.defs, R.1.c⟩, arm :: R.2)
    | .default =>
      let R := compileTestsE sd (wp + 1) (c + 1) rest
      (⟨jmp arm :: R.1.code, R.1.defs, R.1.c⟩, arm :: R.2)

def compileTestsS (sd : Defs) (wp c : Nat) : List (Pat × List Stmt) → Out × List Label
  | [] => (⟨[], [], c⟩, [])
  | (pat, _) :: rest =>
    let arm := Label.anon c
    match pat with
    | .values vs =>
      let V := compilePatVals sd wp (c + 1) arm vs
      let R := compileTestsS sd (wp + V.code.length) V.c rest
      (⟨V.code ++ R.1.code, V.defs ++ R.1.defs, R.1.c⟩, arm :: R.2)
    | .default =>
      let R := compileTestsS sd (wp + 1) (c + 1) rest
      (⟨jmp arm :: R.1.code, R.1.defs, R.1.c⟩, arm :: R.2)

/-- phase 2 of a match expression: `Block; Unwrap w; Def x | Pop; body; End; Jump end` per arm -/
def compileArmsE (sd : Defs) (wp c : Nat) (end_ : Label) : List Label → List (Pat × Expr) → Out
  | l :: ls, (pat, body) :: rest =>
    let pre : List Instr := match pat with
      | .values vs => (match firstBinding vs with
        | Option.some (w, x) => [.Unwrap w, .Def x]
        | Option.none => [.Pop])
      | .default => [.Pop]
    let B := compileExpr sd (wp + 1 + pre.length) c body
    let R := compileArmsE sd (wp + 1 + pre.length + B.code.length + 2) B.c end_ ls rest
    ⟨.Block :: pre ++ B.code ++ [.End, jmp end_] ++ R.code, (l, wp) :: B.defs ++ R.defs, R.c⟩
  | _, _ => ⟨[], [], c⟩

def compileArmsS (sd : Defs) (wp c : Nat) (end_ : Label) : List Label → List (Pat × List Stmt) → Out
  | l :: ls, (pat, body) :: rest =>
    let pre : List Instr := match pat with
      | .values vs => (match firstBinding vs with
        | Option.some (w, x) => [.Unwrap w, .Def x]
        | Option.none => [.Pop])
      | .default => [.Pop]
    let B := compileStmts sd (wp + 1 + pre.length) c body
    let R := compileArmsS sd (wp + 1 + pre.length + B.code.length + 2) B.c end_ ls rest
    ⟨.Block :: pre ++ B.code ++ [.End, jmp end_] ++ R.code, (l, wp) :: B.defs ++ R.defs, R.c⟩
  | _, _ => ⟨[], [], c⟩

def compileStmts (sd : Defs) (wp c : Nat) : List Stmt → Out
  | [] => ⟨[], [], c⟩
  | s :: ss =>
    let S := compileStmt sd wp c s
    let R := compileStmts sd (wp + S.code.length) S.c ss
    ⟨S.code ++ R.code, S.defs ++ R.defs, R.c⟩

def compileStmt (sd : Defs) (wp c : Nat) : Stmt → Out
  | .let_ x e => let E := compileExpr sd wp c e; ⟨E.code ++ [.Def x], E.defs, E.c⟩
  | .check cnd els =>
    let C := compileExpr sd wp c cnd
    let ok := Label.anon C.c
    let E := compileExpr sd (wp + C.code.length + 1) (C.c + 1) els
    ⟨C.code ++ [br ok] ++ E.code, C.defs ++ E.defs ++ [(ok, wp + C.code.length + 1 + E.code.length)], E.c⟩
  | .mtch scrut arms =>
    let S := compileExpr sd wp c scrut
    let end_ := Label.anon S.c
    let T := compileTestsS sd (wp + S.code.length) (S.c + 1) arms
    let A := compileArmsS sd (wp + S.code.length + T.1.code.length) T.1.c end_ T.2 arms
    ⟨S.code ++ T.1.code ++ A.code,
     S.defs ++ T.1.defs ++ A.defs ++ [(end_, wp + S.code.length + T.1.code.length + A.code.length)], A.c⟩
  | .ifS branches hasElse els =>
    let end_ := Label.anon c
    let B := compileBranches sd wp (c + 1) end_ branches
    let F : Out := if hasElse then
        let S := compileStmts sd (wp + B.code.length + 1) B.c els
        ⟨.Block :: S.code ++ [.End], S.defs, S.c⟩
      else ⟨[], [], B.c⟩
    ⟨B.code ++ F.code, B.defs ++ F.defs ++ [(end_, wp + B.code.length + F.code.length)], F.c⟩
  | .ret e => let E := compileExpr sd wp c e; ⟨E.code ++ [.RestoreSP, .Return], E.defs, E.c⟩
  | .dassert e =>
    let E := compileExpr sd wp c e
    ⟨E.code ++ [.Branch (.Resolved (wp + E.code.length + 2)), .Exit .Panic], E.defs, E.c⟩

def compileBranches (sd : Defs) (wp c : Nat) (end_ : Label) : List (Expr × List Stmt) → Out
  | [] => ⟨[], [], c⟩
  | (cnd, ss) :: rest =>
    let next := Label.anon c
    let C := compileExpr sd wp (c + 1) cnd
    let S := compileStmts sd (wp + C.code.length + 3) C.c ss
    let wpN := wp + C.code.length + 3 + S.code.length + 2
    let R := compileBranches sd wpN S.c end_ rest
    ⟨C.code ++ [.Not, br next, .Block] ++ S.code ++ [.End, jmp end_] ++ R.code,
     C.defs ++ S.defs ++ [(next, wpN)] ++ R.defs, R.c⟩
end

/-- `compile_function_like` for a pure function: label, `Def` of the parameters last-to-first,
`SaveSP`, body, `Exit(Panic)` -/
def compileFun (sd : Defs) (wp c : Nat) (fd : FunDef) : Out :=
  let pro : List Instr := (fd.params.reverse.map fun (x, _) => Instruction.Def x) ++ [.SaveSP]
  let B := compileStmts sd (wp + pro.length) c fd.body
  ⟨pro ++ B.code ++ [.Exit .Panic], (Label.fn fd.name, wp) :: B.defs, B.c⟩

def compileFuns (sd : Defs) (wp c : Nat) : List FunDef → Out
  | [] => ⟨[], [], c⟩
  | fd :: rest =>
    let F := compileFun sd wp c fd
    let R := compileFuns sd (wp + F.code.length) F.c rest
    ⟨F.code ++ R.code, F.defs ++ R.defs, R.c⟩

/-- `CompileState::compile` before `resolve_targets`: the leading `Exit(Panic)`, then the functions -/
def compileUnresolved (sd : Defs) (funs : List FunDef) : Out :=
  let F := compileFuns sd 1 0 funs
  ⟨.Exit .Panic :: F.code, F.defs, F.c⟩

def lookupLabel (labels : List (Label × Nat)) (l : Label) : Option Nat :=
  (labels.find? (·.1 == l)).map (·.2)

def resolveTarget (labels : List (Label × Nat)) : Target Label → Option (Target Label)
  | .Resolved n => Option.some (.Resolved n)
  | .Unresolved l => (lookupLabel labels l).map .Resolved

def resolveInstr (labels : List (Label × Nat)) : Instr → Option Instr
  | .Branch t => (resolveTarget labels t).map .Branch
  | .Jump t => (resolveTarget labels t).map .Jump
  | .Call t => (resolveTarget labels t).map .Call
  | .Recall t => (resolveTarget labels t).map .Recall
  | i => Option.some i

/-- `resolve_targets`: `none` = "bad branch target" -/
def resolveTargets (labels : List (Label × Nat)) : List Instr → Option (List Instr)
  | [] => Option.some []
  | i :: is => match resolveInstr labels i, resolveTargets labels is with
    | Option.some i', Option.some is' => Option.some (i' :: is')
    | _, _ => Option.none

/-- does some function body lack a `Return` instruction (`NoReturn`)? -/
def hasReturn (code : List Instr) : Bool := code.any fun | .Return => true | _ => false

structure Compiled where
  prog : List Instr
  labels : List (Label × Nat)

/-- `define_label` refuses to define a label twice ("Label … defined twice!") -/
def labelsDistinct (defs : List (Label × Nat)) : Bool := decide (defs.map (·.1)).Nodup

def compileProgram (sd : Defs) (funs : List FunDef) : Option Compiled :=
  let U := compileUnresolved sd funs
  if labelsDistinct U.defs then
    match resolveTargets U.defs U.code with
    | Option.some prog => Option.some ⟨prog, U.defs⟩
    | Option.none => Option.none
  else Option.none

def Compiled.entry (cp : Compiled) (f : Nat) : Option Nat := lookupLabel cp.labels (.fn f)

end AranyaV.Lang
