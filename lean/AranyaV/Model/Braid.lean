import AranyaV.Gen.ConstsBraid
/-!
# Model.Braid — mechanism-level models of `client/braiding.rs`

`BraidResult` / `BraidIter`: the braid output buffer.  `push` appends to an in-memory block of at
most `B` (= `BRAID_BLOCK_ENTRIES`) entries and writes the block to the spill file when it is full;
`BraidIter` yields the in-memory block backwards, then reads the spill file backwards one block
of at most `B` entries at a time.  The spill file is modelled as the list of entries written so
far (`spill_len = disk.length`; I/O errors are outside the model).  Index arithmetic is kept
(`mem[mem_pos - 1]`, `disk_buf[pos - 1]`): an out-of-range index is the explicit outcome `oob`.
-/
namespace AranyaV.Braid

structure BraidResult (α : Type) where
  /-- in-memory block, in push order -/
  mem : List α
  /-- entries written to the spill file, in push order -/
  disk : List α
deriving Repr, DecidableEq

def BraidResult.new {α : Type} : BraidResult α := { mem := [], disk := [] }

/-- `BraidResult::push`: flush when `mem.is_full()`, then push; `none` is the
"braid result overflow" bug outcome (only reachable when `B = 0`). -/
def BraidResult.push {α : Type} (B : Nat) (r : BraidResult α) (x : α) : Option (BraidResult α) :=
  let r := if r.mem.length = B then { mem := [], disk := r.disk ++ r.mem } else r
  if r.mem.length < B then some { r with mem := r.mem ++ [x] } else none

def pushAll {α : Type} (B : Nat) (r : BraidResult α) : List α → Option (BraidResult α)
  | [] => some r
  | x :: xs => match r.push B x with
    | none => none
    | some r' => pushAll B r' xs

structure BraidIter (α : Type) where
  mem : List α
  memPos : Nat
  disk : List α
  diskRemaining : Nat
  diskBuf : List α
  diskBufPos : Nat
deriving Repr, DecidableEq

def iterOf {α : Type} (r : BraidResult α) : BraidIter α :=
  { mem := r.mem, memPos := r.mem.length, disk := r.disk, diskRemaining := r.disk.length,
    diskBuf := [], diskBufPos := 0 }

inductive Step (α : Type) where
  | done
  | oob
  | yield (x : α) (it : BraidIter α)
deriving Repr, DecidableEq

/-- `load_prev_block` -/
def BraidIter.loadPrevBlock {α : Type} (B : Nat) (it : BraidIter α) : BraidIter α :=
  let count := min it.diskRemaining B
  let start := it.diskRemaining - count
  { it with diskBuf := (it.disk.drop start).take count, diskBufPos := count, diskRemaining := start }

def BraidIter.yieldBuf {α : Type} (it : BraidIter α) : Step α :=
  match it.diskBuf[it.diskBufPos - 1]? with
  | some x => .yield x { it with diskBufPos := it.diskBufPos - 1 }
  | none => .oob

/-- `Iterator::next` -/
def BraidIter.next {α : Type} (B : Nat) (it : BraidIter α) : Step α :=
  if it.memPos > 0 then
    match it.mem[it.memPos - 1]? with
    | some x => .yield x { it with memPos := it.memPos - 1 }
    | none => .oob
  else if it.diskBufPos > 0 then it.yieldBuf
  else if it.diskRemaining > 0 then
    let it := it.loadPrevBlock B
    if it.diskBufPos > 0 then it.yieldBuf else .done
  else .done

/-- run the iterator to the end (`none`: an index was out of range or the fuel ran out) -/
def BraidIter.collect {α : Type} (B : Nat) : Nat → BraidIter α → Option (List α)
  | 0, _ => none
  | n + 1, it =>
    match it.next B with
    | .done => some []
    | .oob => none
    | .yield x it' => (BraidIter.collect B n it').map (x :: ·)

end AranyaV.Braid
