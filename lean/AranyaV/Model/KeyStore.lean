/-
Model of the two key stores of `aranya-crypto`
(crates/aranya-crypto/src/keystore/{mod.rs, memstore.rs, fs_keystore/store.rs}).

* `Spec`  — S layer: the abstract map `Id → Option Key` plus "which id has a live entry".
* `Mem`   — `MemStore`: `BTreeMap<BaseId, StoredKey>` as an association list of CBOR bytes; the
            entry API is `btree_map::Entry`.
* `Fs`    — `fs_keystore::Store`: a directory `name → inode`, an inode table with the file
            bytes, and for a live entry its open file description `Fd = (inode, offset)`.
            `Store::entry` = `openat(O_RDWR)` → occupied, else `openat(O_CREAT|O_EXCL)` → vacant
            (the empty file exists while the vacant entry is alive); `VacantEntry::insert`
            writes the CBOR bytes through the descriptor; dropping a clean vacant entry unlinks
            the file; `OccupiedEntry::get` decodes one CBOR item *through the entry's
            descriptor* — reads advance the descriptor's offset; `OccupiedEntry::remove`
            unlinks the name first and then reads through the (still open) descriptor;
            `Store::get` opens a fresh descriptor (offset 0); a reopened store is another
            descriptor of the same directory, i.e. the same `dir`.
            The parameter `rw` of `Fs.step` says whether `OccupiedEntry::get` rewinds the
            descriptor to offset 0 before decoding (`true` = the code after the F4 fix;
            `false` = the code as it was, kept to exhibit the defect inside the model).

Keys are `u64` newtypes serialised by ciborium: the CBOR (RFC 8949) unsigned-integer head,
`enc`/`dec` below (`dec` accepts non-shortest widths, as ciborium does, and reads exactly one
item — trailing bytes are left unread).

The entry borrows the store mutably, so while an entry is alive Rust's borrow checker rejects
every store-level call, and the entry types make `get`/`remove` available only on an occupied
and `insert` only on a vacant entry.  Requests that the type system rules out are answered
`misuse` (state unchanged) by the spec and by both models alike.

Not modelled: `flock` (single handle), the `__canary` file of debug builds, I/O errors of the
kernel (`EIO`, `ENOSPC`, `EINTR` retry loops), reclaiming of unlinked inodes (unobservable).
-/
namespace AranyaV.KeyStore

/-! ## association lists (directory, `BTreeMap`) -/

def aget {α : Type} : List (Nat × α) → Nat → Option α
  | [], _ => none
  | (j, v) :: t, i => if j = i then some v else aget t i

def adel {α : Type} (l : List (Nat × α)) (i : Nat) : List (Nat × α) :=
  l.filter (fun p => p.1 != i)

def aput {α : Type} (l : List (Nat × α)) (i : Nat) (v : α) : List (Nat × α) :=
  (i, v) :: adel l i

/-! ## CBOR unsigned integers -/

/-- the `w` low-order bytes of `n`, big-endian -/
def be (n : Nat) : Nat → List UInt8
  | 0 => []
  | w + 1 => UInt8.ofNat (n / 256 ^ w) :: be n w

/-- big-endian value -/
def ofBe : List UInt8 → Nat
  | [] => 0
  | b :: t => b.toNat * 256 ^ t.length + ofBe t

/-- shortest-form CBOR head of major type 0 (what ciborium's serializer emits for a `u64`) -/
def enc (k : UInt64) : List UInt8 :=
  let n := k.toNat
  if n < 24 then [UInt8.ofNat n]
  else if n < 256 then 0x18 :: be n 1
  else if n < 65536 then 0x19 :: be n 2
  else if n < 4294967296 then 0x1a :: be n 4
  else 0x1b :: be n 8

inductive RdErr
  | eof      -- `read_exact` ran out of bytes (`UnexpectedEof`)
  | syntax   -- not an unsigned integer
  | badf     -- descriptor does not name an inode
deriving DecidableEq, Repr

/-- argument width announced by an initial byte of major type 0 -/
def argWidth (h : UInt8) : Option Nat :=
  if h = 0x18 then some 1 else if h = 0x19 then some 2
  else if h = 0x1a then some 4 else if h = 0x1b then some 8 else none

/-- decode one item from the front of `bs`: the value and the number of bytes consumed -/
def dec : List UInt8 → Except RdErr (UInt64 × Nat)
  | [] => .error .eof
  | h :: t =>
    if h.toNat < 24 then .ok (UInt64.ofNat h.toNat, 1)
    else match argWidth h with
      | none => .error .syntax
      | some w => if t.length < w then .error .eof else .ok (UInt64.ofNat (ofBe (t.take w)), 1 + w)

/-! ## requests and answers -/

inductive Op
  | entry (i : Nat)                  -- `KeyStore::entry`
  | get                              -- `Occupied::get`
  | insert (k : UInt64)              -- `Vacant::insert` (consumes the entry)
  | remove                           -- `Occupied::remove` (consumes the entry)
  | drop                             -- drop the live entry
  | sget (i : Nat)                   -- `KeyStore::get`
  | tryInsert (i : Nat) (k : UInt64) -- `KeyStore::try_insert` (provided method)
  | sremove (i : Nat)                -- `KeyStore::remove` (provided method)
  | reopen                           -- fs: `Store::open` on the same directory; mem: `clone`
  | insertFail (k : UInt64)          -- `Vacant::insert` of a key whose `Serialize` fails half way
  | tryInsertFail (i : Nat) (k : UInt64) -- `KeyStore::try_insert` of such a key
deriving DecidableEq, Repr

inductive Resp
  | occ | vac
  | key (k : UInt64)
  | none
  | ok
  | err              -- `ErrorKind::Other`
  | exists           -- `ErrorKind::AlreadyExists`
  | misuse           -- rejected by the borrow checker / entry types: cannot be written in Rust
  | panic            -- `debug_assert_eq!(st_size, 0)` in `VacantEntry::insert`
deriving DecidableEq, Repr

/-! ## S: the abstract map -/

structure Spec where
  m : Nat → Option UInt64 := fun _ => none
  /-- id of the live entry, if any (its kind is `(m i).isSome`) -/
  cur : Option Nat := none

def upd (m : Nat → Option UInt64) (i : Nat) (v : Option UInt64) : Nat → Option UInt64 :=
  fun j => if j = i then v else m j

def Spec.step (t : Spec) : Op → Resp × Spec
  | .entry i => match t.cur with
    | some _ => (.misuse, t)
    | none => (if (t.m i).isSome then .occ else .vac, { t with cur := some i })
  | .get => match t.cur with
    | some i => (match t.m i with | some k => (.key k, t) | none => (.misuse, t))
    | none => (.misuse, t)
  | .insert k => match t.cur with
    | some i => (match t.m i with
      | none => (.ok, { m := upd t.m i (some k), cur := none })
      | some _ => (.misuse, t))
    | none => (.misuse, t)
  | .remove => match t.cur with
    | some i => (match t.m i with
      | some k => (.key k, { m := upd t.m i none, cur := none })
      | none => (.misuse, t))
    | none => (.misuse, t)
  | .drop => match t.cur with
    | some _ => (.ok, { t with cur := none })
    | none => (.misuse, t)
  | .sget i => match t.cur with
    | some _ => (.misuse, t)
    | none => ((match t.m i with | some k => .key k | none => .none), t)
  | .tryInsert i k => match t.cur with
    | some _ => (.misuse, t)
    | none => (match t.m i with
      | none => (.ok, { t with m := upd t.m i (some k) })
      | some _ => (.exists, t))
  | .sremove i => match t.cur with
    | some _ => (.misuse, t)
    | none => (match t.m i with
      | some k => (.key k, { t with m := upd t.m i none })
      | none => (.none, t))
  | .reopen => match t.cur with
    | some _ => (.misuse, t)
    | none => (.ok, t)
  -- a failed insert leaves the id vacant: the map does not change
  | .insertFail _ => match t.cur with
    | some i => (match t.m i with
      | none => (.err, { t with cur := none })
      | some _ => (.misuse, t))
    | none => (.misuse, t)
  | .tryInsertFail i _ => match t.cur with
    | some _ => (.misuse, t)
    | none => (match t.m i with
      | none => (.err, t)
      | some _ => (.exists, t))

def Spec.run (t : Spec) : List Op → List Resp × Spec
  | [] => ([], t)
  | op :: ops =>
    let (r, t1) := t.step op
    let (rs, t2) := Spec.run t1 ops
    (r :: rs, t2)

/-- `StoredKey::to_wrapped` / `cbor::from_reader` as an answer -/
def decKey (bs : List UInt8) : Resp :=
  match dec bs with
  | .ok (k, _) => .key k
  | .error _ => .err

/-! ## M: `MemStore` -/

structure MemCur where
  id : Nat
  occ : Bool
deriving DecidableEq, Repr

structure Mem where
  keys : List (Nat × List UInt8) := []
  cur : Option MemCur := none
deriving DecidableEq, Repr

def Mem.entry (s : Mem) (i : Nat) : Resp × Mem :=
  match aget s.keys i with
  | some _ => (.occ, { s with cur := some ⟨i, true⟩ })
  | none => (.vac, { s with cur := some ⟨i, false⟩ })

/-- `OccupiedEntry::get` (`btree_map::OccupiedEntry` points at the slot; an occupied entry whose
slot is missing cannot be constructed — answered `misuse`) -/
def Mem.occGet (s : Mem) (i : Nat) : Resp :=
  match aget s.keys i with
  | some bs => decKey bs
  | none => .misuse

def Mem.step (s : Mem) : Op → Resp × Mem
  | .entry i => match s.cur with
    | some _ => (.misuse, s)
    | none => s.entry i
  | .get => match s.cur with
    | some ⟨i, true⟩ => (s.occGet i, s)
    | _ => (.misuse, s)
  | .insert k => match s.cur with
    | some ⟨i, false⟩ => (.ok, { keys := aput s.keys i (enc k), cur := none })
    | _ => (.misuse, s)
  | .remove => match s.cur with
    | some ⟨i, true⟩ => (s.occGet i, { keys := adel s.keys i, cur := none })
    | _ => (.misuse, s)
  | .drop => match s.cur with
    | some _ => (.ok, { s with cur := none })
    | none => (.misuse, s)
  | .sget i => match s.cur with
    | some _ => (.misuse, s)
    | none => ((match aget s.keys i with | some bs => decKey bs | none => .none), s)
  | .tryInsert i k => match s.cur with
    | some _ => (.misuse, s)
    | none => (match s.entry i with
      | (.vac, _) => (.ok, { s with keys := aput s.keys i (enc k) })
      | (_, _) => (.exists, s))
  | .sremove i => match s.cur with
    | some _ => (.misuse, s)
    | none => (match s.entry i with
      | (.occ, _) => (s.occGet i, { s with keys := adel s.keys i })
      | (_, _) => (.none, s))
  | .reopen => match s.cur with
    | some _ => (.misuse, s)
    | none => (.ok, s)
  -- `StoredKey::new(key)?` fails before the `BTreeMap` entry is touched
  | .insertFail _ => match s.cur with
    | some ⟨_, false⟩ => (.err, { s with cur := none })
    | _ => (.misuse, s)
  | .tryInsertFail i _ => match s.cur with
    | some _ => (.misuse, s)
    | none => (match s.entry i with
      | (.vac, _) => (.err, s)
      | (_, _) => (.exists, s))

def Mem.run (s : Mem) : List Op → List Resp × Mem
  | [] => ([], s)
  | op :: ops =>
    let (r, s1) := s.step op
    let (rs, s2) := Mem.run s1 ops
    (r :: rs, s2)

/-! ## M: `fs_keystore::Store` -/

/-- an open file description -/
structure Fd where
  ino : Nat
  off : Nat
deriving DecidableEq, Repr

structure FsCur where
  id : Nat
  occ : Bool
  fd : Fd
deriving DecidableEq, Repr

structure Fs where
  /-- directory: file name (key id) → inode number -/
  dir : List (Nat × Nat) := []
  /-- inode table: file bytes by inode number (append-only) -/
  inodes : List (List UInt8) := []
  cur : Option FsCur := none
deriving DecidableEq, Repr

/-- bytes of the file called `i`, if the directory has it -/
def Fs.file (s : Fs) (i : Nat) : Option (List UInt8) :=
  (aget s.dir i).bind (fun a => s.inodes[a]?)

/-- `openat(root, alias, O_RDWR)`: `none` = `ENOENT` -/
def Fs.openat (s : Fs) (i : Nat) : Option Fd :=
  (aget s.dir i).map (fun a => ⟨a, 0⟩)

/-- `openat(root, alias, O_CREAT|O_EXCL|O_RDWR)`: `none` = `EEXIST` -/
def Fs.createNew (s : Fs) (i : Nat) : Option (Fd × Fs) :=
  match aget s.dir i with
  | some _ => none
  | none => some (⟨s.inodes.length, 0⟩,
      { s with dir := aput s.dir i s.inodes.length, inodes := s.inodes ++ [[]] })

/-- `unlinkat(root, alias)` -/
def Fs.unlink (s : Fs) (i : Nat) : Fs := { s with dir := adel s.dir i }

/-- `cbor::from_reader(&fd)`: decode one item at the descriptor's offset; the offset advances by
what `read_exact` consumed -/
def Fs.read (s : Fs) (fd : Fd) : Except RdErr UInt64 × Fd :=
  match s.inodes[fd.ino]? with
  | none => (.error .badf, fd)
  | some c =>
    match dec (c.drop fd.off) with
    | .ok (k, n) => (.ok k, { fd with off := fd.off + n })
    | .error .eof => (.error .eof, { fd with off := max fd.off c.length })
    | .error e => (.error e, { fd with off := fd.off + 1 })

/-- `write_all(fd, bs)` at the descriptor's offset -/
def Fs.write (s : Fs) (fd : Fd) (bs : List UInt8) : Fs × Fd :=
  match s.inodes[fd.ino]? with
  | none => (s, fd)
  | some c =>
    let c' := c.take fd.off ++ List.replicate (fd.off - c.length) 0 ++ bs ++ c.drop (fd.off + bs.length)
    ({ s with inodes := s.inodes.set fd.ino c' }, { fd with off := fd.off + bs.length })

/-- `Store::entry` -/
def Fs.entry (s : Fs) (i : Nat) : Resp × Fs :=
  match s.openat i with
  | some fd => (.occ, { s with cur := some ⟨i, true, fd⟩ })
  | none =>
    match s.createNew i with
    | some (fd, s') => (.vac, { s' with cur := some ⟨i, false, fd⟩ })
    | none => (.err, s)

/-- `OccupiedEntry::get`; `rw` = rewind the descriptor first -/
def Fs.occGet (rw : Bool) (s : Fs) (fd : Fd) : Resp × Fd :=
  let fd0 : Fd := if rw then { fd with off := 0 } else fd
  match s.read fd0 with
  | (.ok k, fd') => (.key k, fd')
  | (.error _, fd') => (.err, fd')

/-- `VacantEntry::insert` followed by the drop of the (now dirty) entry; on the
`debug_assert_eq!(st_size, 0)` panic or an `fstat` error the clean entry is dropped: unlink -/
def Fs.vacInsert (s : Fs) (i : Nat) (fd : Fd) (k : UInt64) : Resp × Fs :=
  match s.inodes[fd.ino]? with
  | some [] => (.ok, { (s.write fd (enc k)).1 with cur := none })
  | some _ => (.panic, { s.unlink i with cur := none })
  | none => (.err, { s.unlink i with cur := none })

/-- bytes a key whose `Serialize` fails half way has already pushed through the descriptor when
the failure is reported (the harness's key: a 2-tuple head, the first element, then the error) -/
def partialEnc (k : UInt64) : List UInt8 := 0x82 :: enc k

/-- `VacantEntry::insert` whose `cbor::into_writer(&key, &self.fd)?` fails after a partial write:
the `dirty` flag is still false, so the drop of the entry unlinks the file -/
def Fs.vacInsertFail (s : Fs) (i : Nat) (fd : Fd) (k : UInt64) : Resp × Fs :=
  match s.inodes[fd.ino]? with
  | some [] => (.err, { ((s.write fd (partialEnc k)).1).unlink i with cur := none })
  | some _ => (.panic, { s.unlink i with cur := none })
  | none => (.err, { s.unlink i with cur := none })

/-- `OccupiedEntry::remove`: `unlinkat(..)?` then `self.get()` -/
def Fs.occRemove (rw : Bool) (s : Fs) (i : Nat) (fd : Fd) : Resp × Fs :=
  match aget s.dir i with
  | none => (.err, { s with cur := none })
  | some _ =>
    let s1 := s.unlink i
    ((s1.occGet rw fd).1, { s1 with cur := none })

/-- CBOR `null` / `undefined` -/
def isNull (h : UInt8) : Bool := h == 0xf6 || h == 0xf7

/-- `Store::get`: `Ok(cbor::from_reader(fd)?)` is typed `Option<T>`, so the file is decoded as an
`Option`: a leading CBOR `null`/`undefined` reads as `None`, anything else as `Some(T)`.
(`insert` writes the bare `T`, which never starts with those bytes.) -/
def Fs.storeGet (s : Fs) (i : Nat) : Resp :=
  match s.openat i with
  | none => .none
  | some fd =>
    match s.inodes[fd.ino]? with
    | some (h :: _) =>
      if isNull h then .none
      else (match (s.read fd).1 with
        | .ok k => .key k
        | .error _ => .err)
    | _ => .err

def Fs.step (rw : Bool) (s : Fs) : Op → Resp × Fs
  | .entry i => match s.cur with
    | some _ => (.misuse, s)
    | none => s.entry i
  | .get => match s.cur with
    | some ⟨i, true, fd⟩ =>
      let (r, fd') := s.occGet rw fd
      (r, { s with cur := some ⟨i, true, fd'⟩ })
    | _ => (.misuse, s)
  | .insert k => match s.cur with
    | some ⟨i, false, fd⟩ => s.vacInsert i fd k
    | _ => (.misuse, s)
  | .remove => match s.cur with
    | some ⟨i, true, fd⟩ => s.occRemove rw i fd
    | _ => (.misuse, s)
  | .drop => match s.cur with
    | some ⟨i, false, _⟩ => (.ok, { s.unlink i with cur := none })
    | some ⟨_, true, _⟩ => (.ok, { s with cur := none })
    | none => (.misuse, s)
  | .sget i => match s.cur with
    | some _ => (.misuse, s)
    | none => (s.storeGet i, s)
  | .tryInsert i k => match s.cur with
    | some _ => (.misuse, s)
    | none => (match s.entry i with
      | (.vac, s1) => (match s1.cur with
        | some ⟨_, _, fd⟩ => s1.vacInsert i fd k
        | none => (.misuse, s1))
      | (.occ, s1) => (.exists, { s1 with cur := none })
      | (r, s1) => (r, s1))
  | .sremove i => match s.cur with
    | some _ => (.misuse, s)
    | none => (match s.entry i with
      | (.vac, s1) => (.none, { s1.unlink i with cur := none })
      | (.occ, s1) => (match s1.cur with
        | some ⟨_, _, fd⟩ => s1.occRemove rw i fd
        | none => (.misuse, s1))
      | (r, s1) => (r, s1))
  | .reopen => match s.cur with
    | some _ => (.misuse, s)
    | none => (.ok, s)
  | .insertFail k => match s.cur with
    | some ⟨i, false, fd⟩ => s.vacInsertFail i fd k
    | _ => (.misuse, s)
  | .tryInsertFail i k => match s.cur with
    | some _ => (.misuse, s)
    | none => (match s.entry i with
      | (.vac, s1) => (match s1.cur with
        | some ⟨_, _, fd⟩ => s1.vacInsertFail i fd k
        | none => (.misuse, s1))
      | (.occ, s1) => (.exists, { s1 with cur := none })
      | (r, s1) => (r, s1))

def Fs.run (rw : Bool) (s : Fs) : List Op → List Resp × Fs
  | [] => ([], s)
  | op :: ops =>
    let (r, s1) := s.step rw op
    let (rs, s2) := Fs.run rw s1 ops
    (r :: rs, s2)

/-- environment action used by the harness's malformed stream: a file with arbitrary bytes is
put into the directory from outside the API (`std::fs::write`: create or truncate) -/
def Fs.plant (s : Fs) (i : Nat) (bs : List UInt8) : Fs :=
  match aget s.dir i with
  | some a => { s with inodes := s.inodes.set a bs }
  | none => { s with dir := aput s.dir i s.inodes.length, inodes := s.inodes ++ [bs] }

/-- insertion sort by file name -/
def insSorted {α : Type} (p : Nat × α) : List (Nat × α) → List (Nat × α)
  | [] => [p]
  | q :: t => if p.1 ≤ q.1 then p :: q :: t else q :: insSorted p t

def sortByName {α : Type} (l : List (Nat × α)) : List (Nat × α) := l.foldr insSorted []

/-- directory listing: `(name, bytes)` sorted by name -/
def Fs.listing (s : Fs) : List (Nat × List UInt8) :=
  sortByName (s.dir.filterMap (fun p => (s.inodes[p.2]?).map (fun c => (p.1, c))))

def Mem.listing (s : Mem) : List (Nat × List UInt8) := sortByName s.keys

end AranyaV.KeyStore
