import AranyaV.Model.FactKey
/-!
# Fact store and the VM fact instructions (C29)

M level — what the code does:

* the storage holds, per fact name, a `BTreeMap<Keys, Bytes>`: here a list of
  `(serialized key components, values)` kept sorted by `compsLt` (`MStore`); values are kept
  as typed `(identifier, value)` lists (the postcard value codec is abstracted: it is exercised
  by the correspondence, not modelled);
* `VmPolicyIO::{fact_insert, fact_delete, fact_query}` (`crates/aranya-runtime/src/vm_policy/io.rs`):
  `ser_keys`, map insert (an upsert: an existing entry is *overwritten*, no `FactExists`),
  map delete (removing a missing key is *not* an error), prefix query + `deser_keys`;
* the VM instructions `Query`, `FactCount(limit)`, `QueryStart`/`QueryNext`, `Create`, `Delete`,
  `Update` and `fact_match` (`crates/aranya-policy-vm/src/machine.rs`);
* the instruction sequences emitted for `exists`, `count_up_to`, `at_least`, `at_most`,
  `exactly` (`compile_typed_expression`, `compile_counting_function` in
  `crates/aranya-policy-compiler/src/compile.rs`).

S level — the model fact store of the property: a list of typed facts sorted by the typed key
order (`keysLt`), queried by "leading key fields equal, value fields equal".
-/
namespace AranyaV.FactOps
open AranyaV.FactKey

/-- `FactValue` list; values use the same value type as keys (int/bool/string/id/enum) -/
abbrev Vals := List (Bytes × HVal)

/-- a typed fact -/
structure Fact where
  keys : List Key
  vals : Vals
deriving DecidableEq, Repr, Inhabited

/-- the query literal left on the stack by `compile_fact_literal`: bound (non-`?`) leading keys
and the given (non-`?`) value fields -/
structure Query where
  keys : List Key
  vals : Vals
deriving DecidableEq, Repr, Inhabited

/-! ## storage (M) -/

abbrev MEntry := List Bytes × Vals
abbrev MStore := List MEntry

/-- `BTreeMap::insert` -/
def mInsert (k : List Bytes) (v : Vals) : MStore → MStore
  | [] => [(k, v)]
  | (k', v') :: rest =>
    if compsLt k k' then (k, v) :: (k', v') :: rest
    else if k = k' then (k, v) :: rest
    else (k', v') :: mInsert k v rest

/-- `BTreeMap::remove` (no error when absent) -/
def mDelete (k : List Bytes) : MStore → MStore
  | [] => []
  | (k', v') :: rest => if k = k' then rest else (k', v') :: mDelete k rest

/-- component-wise prefix test (`find_prefixes`: keys starting with the given components) -/
def compsPrefix : List Bytes → List Bytes → Bool
  | [], _ => true
  | _ :: _, [] => false
  | a :: as, b :: bs => a == b && compsPrefix as bs

/-- `query_prefix`: entries whose key starts with `p`, in map order -/
def mQueryPrefix (p : List Bytes) (s : MStore) : MStore := s.filter (fun e => compsPrefix p e.1)

inductive IOErr where
  | deser (e : DeErr)
deriving DecidableEq, Repr

/-- `deser_keys` -/
def deserKeys : List Bytes → Except IOErr (List Key)
  | [] => .ok []
  | b :: bs =>
    match deserKey b with
    | .error e => .error (.deser e)
    | .ok k =>
      match deserKeys bs with
      | .error e => .error e
      | .ok ks => .ok (k :: ks)

/-- `VmPolicyIO::fact_query`: the cursor, as the list of items it will yield -/
def factQuery (keys : List Key) (s : MStore) : List (Except IOErr Fact) :=
  (mQueryPrefix (serKeys keys) s).map fun e =>
    match deserKeys e.1 with
    | .error err => .error err
    | .ok ks => .ok ⟨ks, e.2⟩

/-! ## `fact_match` -/

/-- `keys.starts_with(&query.keys)` -/
def keysPrefix : List Key → List Key → Bool
  | [], _ => true
  | _ :: _, [] => false
  | a :: as, b :: bs => a == b && keysPrefix as bs

def findVal (ident : Bytes) : Vals → Option HVal
  | [] => none
  | (i, v) :: rest => if i = ident then some v else findVal ident rest

/-- every given value field is present in the fact with an equal value -/
def valsMatch (q : Vals) (vals : Vals) : Bool :=
  q.all fun (i, v) => match findVal i vals with
    | some w => w == v
    | none => false

/-- `fact_match` -/
def factMatch (q : Query) (f : Fact) : Bool := keysPrefix q.keys f.keys && valsMatch q.vals f.vals

/-! ## VM instructions -/

/-- `Instruction::Query`: first match, or the first error met before it -/
def findFirst (q : Query) : List (Except IOErr Fact) → Except IOErr (Option Fact)
  | [] => .ok none
  | .error e :: _ => .error e
  | .ok f :: rest => if factMatch q f then .ok (some f) else findFirst q rest

def opQuery (q : Query) (s : MStore) : Except IOErr (Option Fact) := findFirst q (factQuery q.keys s)

/-- the loop of `Instruction::FactCount(limit)`: `while count < limit { next?; if match {count += 1} }` -/
def countLoop (q : Query) (limit : Int) : Int → List (Except IOErr Fact) → Except IOErr Int
  | count, [] => .ok count
  | count, r :: rest =>
    if count < limit then
      match r with
      | .error e => .error e
      | .ok f => countLoop q limit (if factMatch q f then count + 1 else count) rest
    else .ok count

def opCount (limit : Int) (q : Query) (s : MStore) : Except IOErr Int :=
  countLoop q limit 0 (factQuery q.keys s)

/-- `QueryStart` + repeated `QueryNext`: the facts the loop body of `map` sees, in order.
`QueryNext` skips the items that do not `fact_match` the literal (value fields included). -/
def mapLoop (q : Query) : List (Except IOErr Fact) → Except IOErr (List Fact)
  | [] => .ok []
  | .error e :: _ => .error e
  | .ok f :: rest =>
    match mapLoop q rest with
    | .error e => .error e
    | .ok fs => .ok (if factMatch q f then f :: fs else fs)

def opMap (q : Query) (s : MStore) : Except IOErr (List Fact) := mapLoop q (factQuery q.keys s)

/-- a `map` whose body runs another `map` (directly, or through a called action): for every fact
the outer loop visits, the inner loop runs to its end; `qi f` is the inner literal, which may be
bound to fields of the outer fact `f`.  Tags: 0 = visited by the outer map, 1 = by the inner. -/
def nestLoop (qi : Fact → Query) (si : MStore) : List Fact → Except IOErr (List (Nat × Fact))
  | [] => .ok []
  | f :: rest =>
    match opMap (qi f) si with
    | .error e => .error e
    | .ok gs =>
      match nestLoop qi si rest with
      | .error e => .error e
      | .ok r => .ok ((0, f) :: (gs.map fun g => (1, g)) ++ r)

def opMapNested (qo : Query) (qi : Fact → Query) (so si : MStore) : Except IOErr (List (Nat × Fact)) :=
  match opMap qo so with
  | .error e => .error e
  | .ok fs => nestLoop qi si fs

/-- `Instruction::Create` → `fact_insert` -/
def opCreate (f : Fact) (s : MStore) : MStore := mInsert (serKeys f.keys) f.vals s

/-- `Instruction::Delete` → `fact_delete` -/
def opDelete (keys : List Key) (s : MStore) : MStore := mDelete (serKeys keys) s

inductive UpdErr where
  | invalidFact   -- `MachineErrorType::InvalidFact`: nothing found, or the values differ
  | io (e : IOErr)
deriving DecidableEq, Repr

/-- `Fact::set_value` -/
def setVal (i : Bytes) (v : HVal) : Vals → Vals
  | [] => [(i, v)]
  | (j, w) :: rest => if j = i then (j, v) :: rest else (j, w) :: setVal i v rest

/-- the `to` fact built by `Dup; (expr; FactValueSet k)*` -/
def setVals (to : Vals) (base : Vals) : Vals := to.foldl (fun acc (i, v) => setVal i v acc) base

/-- `Instruction::Update`: look the fact up by its keys, compare the given (non-`?`) value fields
with the stored ones, delete the found key, insert the new fact. -/
def opUpdate (frm : Query) (to : Vals) (s : MStore) : Except UpdErr MStore :=
  match factQuery frm.keys s with
  | [] => .error .invalidFact
  | .error e :: _ => .error (.io e)
  | .ok found :: _ =>
    if !valsMatch frm.vals found.vals then .error .invalidFact
    else .ok (mInsert (serKeys frm.keys) (setVals to frm.vals) (mDelete (serKeys found.keys) s))

/-! ## compiled counting forms -/

inductive CountKind where
  | upTo | atLeast | atMost | exactly
deriving DecidableEq, Repr

/-- the instructions that matter here -/
inductive CInstr where
  | query            -- `Query`
  | factCount (limit : Int)
  | constInt (n : Int)
  | constNone
  | lt | gt | eq | not
deriving DecidableEq, Repr

inductive CompileErr where
  | badLimit     -- "count limit must be greater than zero"
  | tooLarge     -- `limit.checked_add(1)` overflowed
deriving DecidableEq, Repr

/-- `compile_counting_function` (after the fact literal) -/
def compileCounting (kind : CountKind) (limit : Int) : Except CompileErr (List CInstr) :=
  if limit ≤ 0 then .error .badLimit else
  match kind with
  | .upTo => .ok [.factCount limit]
  | .atLeast => .ok [.factCount limit, .constInt limit, .lt, .not]
  | .atMost =>
    if isI64 (limit + 1) then .ok [.factCount (limit + 1), .constInt limit, .gt, .not]
    else .error .tooLarge
  | .exactly =>
    if isI64 (limit + 1) then .ok [.factCount (limit + 1), .constInt limit, .eq]
    else .error .tooLarge

/-- `exists f` compiles to `Query; Const(None); Eq; Not` -/
def compileExists : List CInstr := [.query, .constNone, .eq, .not]

/-- stack values of this fragment -/
inductive SVal where
  | int (i : Int)
  | bool (b : Bool)
  | opt (f : Option Fact)
deriving DecidableEq, Repr

inductive RunErr where
  | io (e : IOErr)
  | stack       -- stack underflow / wrong operand types
deriving DecidableEq, Repr

/-- one instruction of the fragment (the fact literal `q` is what `compile_fact_literal` left
on the stack for `Query` / `FactCount`) -/
def cstep (q : Query) (s : MStore) : CInstr → List SVal → Except RunErr (List SVal)
  | .query, st => match opQuery q s with
    | .error e => .error (.io e)
    | .ok r => .ok (.opt r :: st)
  | .factCount l, st => match opCount l q s with
    | .error e => .error (.io e)
    | .ok n => .ok (.int n :: st)
  | .constInt n, st => .ok (.int n :: st)
  | .constNone, st => .ok (.opt none :: st)
  | .lt, .int b :: .int a :: st => .ok (.bool (decide (a < b)) :: st)
  | .gt, .int b :: .int a :: st => .ok (.bool (decide (a > b)) :: st)
  | .eq, b :: a :: st => .ok (.bool (decide (a = b)) :: st)
  | .not, .bool a :: st => .ok (.bool (!a) :: st)
  | _, _ => .error .stack

def crun (q : Query) (s : MStore) : List CInstr → List SVal → Except RunErr (List SVal)
  | [], st => .ok st
  | i :: is, st => match cstep q s i st with
    | .error e => .error e
    | .ok st' => crun q s is st'

/-! ## S level: the model fact store -/

/-- typed facts, sorted by the typed key order -/
abbrev SStore := List Fact

/-- the model's match: leading key fields equal, given value fields equal -/
def sMatch (q : Query) (f : Fact) : Bool := factMatch q f

def sQuery (q : Query) (s : SStore) : Option Fact := s.find? (sMatch q)
def sMatches (q : Query) (s : SStore) : List Fact := s.filter (sMatch q)
def sCount (limit : Int) (q : Query) (s : SStore) : Int := min limit (sMatches q s).length

/-- ordered upsert in typed key order -/
def sInsert (f : Fact) : SStore → SStore
  | [] => [f]
  | g :: rest =>
    if keysLt f.keys g.keys then f :: g :: rest
    else if f.keys = g.keys then f :: rest
    else g :: sInsert f rest

def sDelete (keys : List Key) : SStore → SStore
  | [] => []
  | g :: rest => if keys = g.keys then rest else g :: sDelete keys rest

/-- encoding of a typed store as what the storage holds -/
def enc (s : SStore) : MStore := s.map fun f => (serKeys f.keys, f.vals)

end AranyaV.FactOps
