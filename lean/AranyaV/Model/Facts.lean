import AranyaV.Gen.ConstsFacts
/-!
Model of the fact storage of `aranya_runtime::storage::linear` (crates/aranya-runtime/src/storage/linear/mod.rs):
fact-index chains (`FactIndexRepr { prior, depth, facts }`), fact perspectives
(`LinearFactPerspective { map, prior }`), `write_facts_with_prior`, `compact`, the exact and prefix
queries, `find_prefixes`, the per-command update log of `LinearPerspective`, segments and the
mid-segment reconstruction of `get_fact_perspective` / `get_linear_perspective`, and
`checkpoint` / `revert`.

Representation choices (what is *modelled*, not verified):

* A byte string is a `List Nat`; a key is the list `name :: components` (`Key = List Bytes`).
  Rust keeps `BTreeMap<String, BTreeMap<Keys, _>>`; `String` and `Box<[u8]>` are ordered
  bytewise-lexicographically and `Keys` (`Box<[Bytes]>`, derived `Ord`) is ordered lexicographically
  as a slice, so the two-level map is order-isomorphic to a single sorted map keyed by
  `name :: components` under the lexicographic order of `List (List Nat)` (core `List.lt`).  A
  prefix query `(name, prefix)` is a query for the key-prefix `name :: prefix`
  (`k.starts_with(prefix)` on slices compares whole components).
  Empty inner maps (`{"x": {}}`), which the Rust code can hold transiently when there is no prior
  and which it strips with `retain(|_, kv| !kv.is_empty())` before every emptiness test, have no
  counterpart in the flat map and are not observable through any query.
* `BTreeMap<Keys, Option<Bytes>>` is a strictly ascending association list (`FMap`); `None` is a
  deletion tombstone.  `insert` places by comparison exactly like a search tree would; `get`
  compares for equality.
* The append-only file is not modelled: a fact index *is* its chain of layers, newest first
  (`Chain = List Layer`, the `prior` pointer is the tail, `[]` is "no prior").  The stored
  `depth` field is kept per layer as the code computes it.
-/
namespace AranyaV.Facts

abbrev Bytes := List Nat
/-- `name :: components` -/
abbrev Key := List Bytes
abbrev Val := Bytes
/-- `Option<Bytes>`: `none` is a tombstone -/
abbrev Slot := Option Val
/-- `BTreeMap<Keys, Option<Bytes>>` (all names flattened) as an ascending association list -/
abbrev FMap := List (Key × Slot)
/-- `(name, keys, value)` of the per-command update log -/
abbrev Update := Key × Slot

/-! ### sorted-map primitives -/

/-- `BTreeMap::get` -/
def FMap.get : FMap → Key → Option Slot
  | [], _ => none
  | (k', s) :: r, k => if k = k' then some s else FMap.get r k

/-- `BTreeMap::insert` (ordered placement, replaces an equal key) -/
def FMap.insert : FMap → Key → Slot → FMap
  | [], k, s => [(k, s)]
  | (k', s') :: r, k, s =>
    if k < k' then (k, s) :: (k', s') :: r
    else if k = k' then (k, s) :: r
    else (k', s') :: FMap.insert r k s

/-- `BTreeMap::remove` -/
def FMap.remove (m : FMap) (k : Key) : FMap := m.filter (fun e => e.1 != k)

/-- `entry(k).or_insert(v)` / `if !contains_key(k) { insert(k, v) }` -/
def FMap.orInsert (m : FMap) (k : Key) (s : Slot) : FMap :=
  match m.get k with
  | some _ => m
  | none => m.insert k s

/-- `find_prefixes`: `map.range(prefix..).take_while(|(k, _)| k.starts_with(prefix))` -/
def findPrefixes (m : FMap) (p : Key) : FMap :=
  (m.dropWhile (fun e => decide (e.1 < p))).takeWhile (fun e => p.isPrefixOf e.1)

/-- the linear-storage `QueryIterator`: drop tombstones, keep order -/
def live (m : FMap) : List (Key × Val) :=
  m.filterMap (fun e => e.2.map (fun v => (e.1, v)))

/-! ### fact-index chains -/

/-- `FactIndexRepr` without the offsets: `prior` is the rest of the chain -/
structure Layer where
  facts : FMap
  depth : Nat
deriving Repr, DecidableEq, Inhabited

/-- a fact index = its chain of layers, newest first; `[]` stands for `prior: None` -/
abbrev Chain := List Layer

/-- `prior.depth` or 0 -/
def headDepth : Chain → Nat
  | [] => 0
  | l :: _ => l.depth

/-- `LinearFactIndex::query`: newest layer that mentions the key wins (tombstone = deleted) -/
def Chain.query : Chain → Key → Option Val
  | [], _ => none
  | l :: r, k =>
    match l.facts.get k with
    | some s => s
    | none => Chain.query r k

/-- `LinearFactIndex::query_prefix_inner`, with the accumulator `matches` explicit -/
def Chain.prefixInner : Chain → Key → FMap → FMap
  | [], _, acc => acc
  | l :: r, p, acc =>
    Chain.prefixInner r p ((findPrefixes l.facts p).foldl (fun a e => a.orInsert e.1 e.2) acc)

def Chain.queryPrefix (c : Chain) (p : Key) : List (Key × Val) := live (c.prefixInner p [])

/-! ### fact perspectives -/

/-- `LinearFactPerspective { map, prior }` with the three shapes of `FactPerspectivePrior` -/
inductive FP where
  | overNone (map : FMap)
  | overIndex (map : FMap) (c : Chain)
  | overPersp (map : FMap) (p : FP)
deriving Repr, Inhabited, DecidableEq

def FP.map : FP → FMap
  | .overNone m => m
  | .overIndex m _ => m
  | .overPersp m _ => m

def FP.withMap : FP → FMap → FP
  | .overNone _, m => .overNone m
  | .overIndex _ c, m => .overIndex m c
  | .overPersp _ p, m => .overPersp m p

/-- `self.prior.is_none()` -/
def FP.priorIsNone : FP → Bool
  | .overNone _ => true
  | _ => false

/-- `QueryMut::insert` -/
def FP.insert (p : FP) (k : Key) (v : Val) : FP := p.withMap (p.map.insert k (some v))

/-- `QueryMut::delete`: no tombstone is needed when there is no prior -/
def FP.delete (p : FP) (k : Key) : FP :=
  if p.priorIsNone then p.withMap (p.map.remove k) else p.withMap (p.map.insert k none)

/-- one iteration of `apply_updates` -/
def FP.applyUpdate (p : FP) (u : Update) : FP :=
  if p.priorIsNone then
    match u.2 with
    | some v => p.withMap (p.map.insert u.1 (some v))
    | none => p.withMap (p.map.remove u.1)
  else p.withMap (p.map.insert u.1 u.2)

/-- `apply_updates` -/
def FP.applyUpdates (p : FP) (us : List Update) : FP := us.foldl FP.applyUpdate p

/-- `clear` -/
def FP.clear (p : FP) : FP := p.withMap []

/-- `LinearFactPerspective::query` -/
def FP.query : FP → Key → Option Val
  | .overNone m, k =>
    match m.get k with
    | some s => s
    | none => none
  | .overIndex m c, k =>
    match m.get k with
    | some s => s
    | none => c.query k
  | .overPersp m p, k =>
    match m.get k with
    | some s => s
    | none => p.query k

/-- `LinearFactPerspective::query_prefix_inner`: prior's matches, overwritten by the own map -/
def FP.prefixInner : FP → Key → FMap
  | .overNone m, p => (findPrefixes m p).foldl (fun a e => a.insert e.1 e.2) []
  | .overIndex m c, p => (findPrefixes m p).foldl (fun a e => a.insert e.1 e.2) (c.prefixInner p [])
  | .overPersp m q, p => (findPrefixes m p).foldl (fun a e => a.insert e.1 e.2) (q.prefixInner p)

def FP.queryPrefix (f : FP) (p : Key) : List (Key × Val) := live (f.prefixInner p)

/-! ### writing fact indexes -/

inductive Err where
  /-- `bug!("fact index too deep")` -/
  | tooDeep
  /-- `StorageError::EmptyPerspective` -/
  | emptyPerspective
  /-- `StorageError::CommandOutOfBounds` -/
  | outOfBounds
  /-- `bug!` in `revert`: checkpoint index beyond the command list -/
  | badCheckpoint
deriving Repr, DecidableEq, Inhabited

/-- the tail of `write_facts_with_prior`: `depth = prior.depth + 1`, bug if above the limit, append -/
def appendIndex (D : Nat) (prior : Chain) (map : FMap) : Except Err Chain :=
  let depth := headDepth prior + 1
  if depth > D then .error .tooDeep else .ok (⟨map, depth⟩ :: prior)

/-- the `or_insert` pass of `compact` over one layer -/
def mergeOlder (acc older : FMap) : FMap := older.foldl (fun a e => a.orInsert e.1 e.2) acc

/-- the `loop` of `compact`: newest first, first writer wins -/
def compactMap : Chain → FMap → FMap
  | [], acc => acc
  | l :: r, acc => compactMap r (mergeOlder acc l.facts)

/-- `kv.retain(|_, v| v.is_some())` -/
def dropTombs (m : FMap) : FMap := m.filter (fun e => e.2.isSome)

/-- `LinearStorage::compact` (its `write_facts` call has no prior, hence no recursion) -/
def compact (D : Nat) (c : Chain) : Except Err Chain :=
  appendIndex D [] (dropTombs (compactMap c []))

/-- `write_facts_with_prior` after the prior has been resolved to an index (`[]` = none).
Returns the new index and the `prior_offset` recorded in the segment. -/
def finish (D : Nat) (prior : Chain) (map : FMap) : Except Err (Chain × Option Chain) :=
  match prior with
  | [] =>
    match appendIndex D [] map with
    | .error e => .error e
    | .ok c => .ok (c, none)
  | l :: r =>
    let p := l :: r
    let compacted : Except Err Chain := if headDepth p > D - 1 then compact D p else .ok p
    match compacted with
    | .error e => .error e
    | .ok p' =>
      match appendIndex D p' map with
      | .error e => .error e
      | .ok c => .ok (c, some p')

/-- `write_facts_with_prior`: returns `(fact index, prior_facts)` -/
def writeFP (D : Nat) : FP → Except Err (Chain × Option Chain)
  | .overNone m => finish D [] m
  | .overIndex m c => if m.isEmpty then .ok (c, some c) else finish D c m
  | .overPersp m q =>
    match writeFP D q with
    | .error e => .error e
    | .ok (pc, _) => if m.isEmpty then .ok (pc, some pc) else finish D pc m

/-- `Storage::write_facts` -/
def writeFacts (D : Nat) (f : FP) : Except Err Chain :=
  match writeFP D f with
  | .error e => .error e
  | .ok (c, _) => .ok c

/-! ### linear perspectives, segments -/

/-- `CommandData`: only the id and the fact updates matter here -/
structure Cmd where
  id : Nat
  updates : List Update
deriving Repr, DecidableEq, Inhabited

/-- the fact-relevant part of `LinearPerspective` -/
structure Persp where
  facts : FP
  commands : List Cmd := []
  current : List Update := []
deriving Repr, Inhabited, DecidableEq

def Persp.insert (p : Persp) (k : Key) (v : Val) : Persp :=
  { p with facts := p.facts.insert k v, current := p.current ++ [(k, some v)] }

def Persp.delete (p : Persp) (k : Key) : Persp :=
  { p with facts := p.facts.delete k, current := p.current ++ [(k, none)] }

/-- `add_command`: moves the pending updates into the command; returns the new length -/
def Persp.addCommand (p : Persp) (id : Nat) : Persp × Nat :=
  let p' := { p with commands := p.commands ++ [⟨id, p.current⟩], current := [] }
  (p', p'.commands.length)

def Persp.query (p : Persp) (k : Key) : Option Val := p.facts.query k
def Persp.queryPrefix (p : Persp) (k : Key) : List (Key × Val) := p.facts.queryPrefix k

/-- `checkpoint` -/
def Persp.checkpoint (p : Persp) : Nat := p.commands.length

/-- `revert` -/
def Persp.revert (p : Persp) (ck : Nat) : Except Err Persp :=
  if ck = p.commands.length ∧ p.current = [] then .ok p
  else if ck > p.commands.length then .error .badCheckpoint
  else
    let cmds := p.commands.take ck
    .ok { facts := cmds.foldl (fun f c => f.applyUpdates c.updates) p.facts.clear,
          commands := cmds, current := [] }

/-- the fact-relevant part of `SegmentRepr` -/
structure Seg where
  facts : Chain
  priorFacts : Option Chain
  commands : List Cmd
deriving Repr, Inhabited

/-- `Storage::write` (the fact index is written before the emptiness check, as in the code) -/
def Persp.write (D : Nat) (p : Persp) : Except Err Seg :=
  match writeFP D p.facts with
  | .error e => .error e
  | .ok (c, pf) =>
    if p.commands.isEmpty then .error .emptyPerspective
    else .ok ⟨c, pf, p.commands⟩

/-- `LinearStorage::create` for the init perspective (no prior): depth 1, no compaction -/
def Persp.create (p : Persp) : Except Err Seg :=
  if p.commands.isEmpty then .error .emptyPerspective
  else .ok ⟨[⟨p.facts.map, 1⟩], none, p.commands⟩

/-- the prior used for mid-segment reconstruction -/
def Seg.basePrior (s : Seg) : FP :=
  match s.priorFacts with
  | some c => .overIndex [] c
  | none => .overNone []

/-- `get_fact_perspective(location)`, `i` = index of the command inside the segment -/
def Seg.factPerspective (s : Seg) (i : Nat) : Except Err FP :=
  if i ≥ s.commands.length then .error .outOfBounds
  else if i + 1 = s.commands.length ∨ s.commands.all (fun c => c.updates.isEmpty) then
    .ok (.overIndex [] s.facts)
  else
    .ok ((s.commands.take (i + 1)).foldl (fun f c => f.applyUpdates c.updates) s.basePrior)

/-- the `prior_facts` of `get_linear_perspective(parent)` as a fact perspective for the new
`LinearPerspective` (whose own map starts empty) -/
def Seg.linearPerspective (s : Seg) (i : Nat) : Except Err Persp :=
  if i ≥ s.commands.length then .error .outOfBounds
  else if i + 1 = s.commands.length then .ok { facts := .overIndex [] s.facts }
  else
    let f := (s.commands.take (i + 1)).foldl (fun f c => f.applyUpdates c.updates) s.basePrior
    -- `if facts.prior.is_none() { retain non-empty }` has no effect on the flat map
    if f.map.isEmpty then
      match s.priorFacts with
      | some c => .ok { facts := .overIndex [] c }
      | none => .ok { facts := .overNone [] }
    else .ok { facts := .overPersp [] f }

/-- `new_merge_perspective`: the braid index is the prior -/
def mergePerspective (braid : Chain) : Persp := { facts := .overIndex [] braid }

end AranyaV.Facts
