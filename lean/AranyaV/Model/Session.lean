import AranyaV.Model.Facts
/-!
Model of ephemeral sessions (`crates/aranya-runtime/src/client/session.rs`):
`Session { base_facts, fact_log, current_facts }`, the `SessionPerspective` query / insert /
delete / checkpoint / revert, the two-way sorted merge `QueryIterator` with tombstones, the
prefix scan `PrefixIter`, and the rollback of `Session::action` / `Session::receive`.

`base_facts` is a fact index of the linear storage (`Chain`, see `Model/Facts.lean`);
`current_facts : Arc<BTreeMap<String, BTreeMap<Keys, Option<Bytes>>>>` is the flattened sorted
association list `FMap` (key = `name :: components`).  The `Arc`/`Yoke` plumbing (sharing the map
with live iterators) is not modelled: an iterator is the list of items it will yield.
-/
namespace AranyaV.Facts

/-- an item of the base iterator: `Result<Fact, StorageError>` (the error payload is irrelevant) -/
abbrev Item := Except Unit (Key × Val)

instance : DecidableEq Item := fun a b =>
  match a, b with
  | .ok x, .ok y => if h : x = y then isTrue (by rw [h]) else isFalse (fun e => by cases e; exact h rfl)
  | .error _, .error _ => isTrue rfl
  | .ok _, .error _ => isFalse (fun e => by cases e)
  | .error _, .ok _ => isFalse (fun e => by cases e)

/-- `emit` of an overlay slot: a tombstone yields nothing -/
def emitSlot (k : Key) (s : Slot) : List Item :=
  match s with
  | some v => [.ok (k, v)]
  | none => []

/-- `QueryIterator::next`, run to exhaustion: `prior` is the base iterator (ascending, may
contain errors), `current` the overlay range (ascending, with tombstones).

* overlay exhausted: the rest of the base;
* base head is an error: it is yielded before the overlay item;
* equal keys: the base item is dropped, the overlay slot decides;
* base key smaller: the base item is yielded;
* overlay key smaller (or base exhausted): the overlay slot is consumed, yielded unless it is a
  tombstone. -/
def mergeIter : List Item → FMap → List Item
  | ps, [] => ps
  | [], (k, s) :: cs => emitSlot k s ++ mergeIter [] cs
  | .error e :: ps, c :: cs => .error e :: mergeIter ps (c :: cs)
  | .ok (ko, vo) :: ps, (k, s) :: cs =>
    if k = ko then emitSlot k s ++ mergeIter ps cs
    else if ko < k then .ok (ko, vo) :: mergeIter ps ((k, s) :: cs)
    else emitSlot k s ++ mergeIter (.ok (ko, vo) :: ps) cs
termination_by ps cs => ps.length + cs.length

structure Session where
  /-- `base_facts` -/
  base : Chain
  /-- `fact_log` -/
  log : List Update := []
  /-- `current_facts` -/
  cur : FMap := []
deriving Repr, Inhabited, DecidableEq

/-- `SessionPerspective::insert` -/
def Session.insert (s : Session) (k : Key) (v : Val) : Session :=
  { s with log := s.log ++ [(k, some v)], cur := s.cur.insert k (some v) }

/-- `SessionPerspective::delete`: always a tombstone -/
def Session.delete (s : Session) (k : Key) : Session :=
  { s with log := s.log ++ [(k, none)], cur := s.cur.insert k none }

/-- `SessionPerspective::query` -/
def Session.query (s : Session) (k : Key) : Option Val :=
  match s.cur.get k with
  | some slot => slot
  | none => s.base.query k

/-- `SessionPerspective::query_prefix`, collected -/
def Session.queryPrefix (s : Session) (p : Key) : List Item :=
  mergeIter ((s.base.queryPrefix p).map .ok) (findPrefixes s.cur p)

/-- `checkpoint` -/
def Session.checkpoint (s : Session) : Nat := s.log.length

/-- the map `revert` rebuilds from a log -/
def rebuild (log : List Update) : FMap := log.foldl (fun m u => m.insert u.1 u.2) []

/-- `revert` -/
def Session.revert (s : Session) (ck : Nat) : Except Err Session :=
  if ck = s.log.length then .ok s
  else if ck > s.log.length then .error .badCheckpoint
  else
    let log := s.log.take ck
    .ok { s with log := log, cur := rebuild log }

/-! ### policy calls on a session: scripts of fact operations -/

/-- what a rule / action body may do to the perspective it is given -/
inductive SOp where
  | ins (k : Key) (v : Val)
  | del (k : Key)
  | q (k : Key)
  | qp (p : Key)
  /-- the policy rejects (`Err(PolicyError)`) at this point -/
  | fail
deriving Repr, DecidableEq

/-- an observation made from inside a policy call -/
inductive Obs where
  | q (r : Option Val)
  | qp (r : List Item)
deriving Repr

/-- run a script; `false` = the policy call returned an error (writes so far are in place) -/
def Session.runScript : Session → List SOp → Session × List Obs × Bool
  | s, [] => (s, [], true)
  | s, .ins k v :: r => Session.runScript (s.insert k v) r
  | s, .del k :: r => Session.runScript (s.delete k) r
  | s, .q k :: r =>
    let (s', o, ok) := Session.runScript s r
    (s', .q (s.query k) :: o, ok)
  | s, .qp p :: r =>
    let (s', o, ok) := Session.runScript s r
    (s', .qp (s.queryPrefix p) :: o, ok)
  | s, .fail :: _ => (s, [], false)

/-- `Session::action` / `Session::receive`: checkpoint, call the policy, revert on error -/
def Session.call (s : Session) (script : List SOp) : Except Err (Session × List Obs × Bool) :=
  let ck := s.checkpoint
  let (s', obs, ok) := s.runScript script
  if ok then .ok (s', obs, true)
  else
    match s'.revert ck with
    | .error e => .error e
    | .ok s'' => .ok (s'', obs, false)

end AranyaV.Facts
