/-
Model of `aranya_capi_core::write_c_str` / `CStrWriter`
(crates/aranya-capi-core/src/cstr.rs).

The Rust code receives `dst : &mut [MaybeUninit<c_char>]` and `nw : &mut usize`, formats a
`Display` value into a `CStrWriter` (one `write_str` call per fragment the `Display`
implementation emits), then calls `finish`.

The model keeps the *whole memory* around the buffer (`mem`), the buffer being the region
`[base, base+len)` of it, so that "never writes outside the buffer" is a statement about the
model and not a typing artefact: every store goes through `store`, which records the absolute
address in `trace`.  Slice operations are transliterated with their bounds checks:

* `split_last_mut()`            → `none` iff `len = 0`, else the sub-slice `[0, len-1)`
* `get_mut(nw..end)` on it      → `some` iff `nw ≤ end ∧ end ≤ len-1`
* `copy_from_slice(src)`        → panics iff the two lengths differ (`panicked := true`)
* `self.dst.get_mut(idx)`       → `some` iff `idx < len`
* `usize::saturating_add`       → `satAdd umax` with `umax = usize::MAX` (a parameter)

A `Display` implementation may itself return `fmt::Error` after having emitted its fragments;
then `write!` fails, `write_c_str` returns `Err(Bug)` and `finish` is never called
(`fails = true`).  `CStrWriter::write_str` itself never fails.
-/
namespace AranyaV.CStr

/-- `usize::saturating_add`, `umax = usize::MAX` -/
def satAdd (umax a b : Nat) : Nat := min (a + b) umax

/-- `usize::MAX` on the 64-bit targets the harness runs on -/
def usizeMax : Nat := 2 ^ 64 - 1

structure W where
  /-- all memory: bytes before the buffer, the buffer `[base, base+len)`, bytes after it -/
  mem : List UInt8
  base : Nat
  len : Nat
  /-- `*self.nw` -/
  nw : Nat
  /-- absolute addresses stored to, most recent first -/
  trace : List Nat := []
  /-- `copy_from_slice` length-mismatch panic reached -/
  panicked : Bool := false
deriving Repr, DecidableEq

/-- one byte store at absolute address `a` -/
def store (w : W) (a : Nat) (b : UInt8) : W :=
  { w with mem := w.mem.set a b, trace := a :: w.trace }

/-- `dst.copy_from_slice(src)` where `dst` starts at absolute address `a` -/
def copyAt (w : W) (a : Nat) : List UInt8 → W
  | [] => w
  | b :: bs => copyAt (store w a b) (a + 1) bs

/-- `CStrWriter::new` -/
def W.new (mem : List UInt8) (base len : Nat) : W :=
  { mem, base, len, nw := 0 }

/-- `CStrWriter::write` -/
def W.write (umax : Nat) (w : W) (src : List UInt8) : W :=
  if w.panicked then w else
  if src.isEmpty then w else
  let «end» := satAdd umax w.nw src.length
  -- split_last_mut
  if w.len = 0 then { w with nw := «end» } else
  let l := w.len - 1
  -- get_mut(nw..end)
  if w.nw ≤ «end» ∧ «end» ≤ l then
    -- copy_from_slice
    if «end» - w.nw ≠ src.length then { w with panicked := true }
    else { copyAt w (w.base + w.nw) src with nw := «end» }
  else { w with nw := «end» }

inductive Res where
  | ok | tooSmall | bug | panic
deriving Repr, DecidableEq

/-- `CStrWriter::finish` followed by the `map_err` of `write_c_str` -/
def W.finish (umax : Nat) (w : W) : Res × W :=
  if w.panicked then (.panic, w) else
  let idx := min w.nw w.len
  let w1 := if idx < w.len then store w (w.base + idx) 0 else w
  let w2 := { w1 with nw := satAdd umax w1.nw 1 }
  (if w2.nw ≤ w2.len then .ok else .tooSmall, w2)

/-- all `write_str` calls of one `Display::fmt` -/
def W.writeAll (umax : Nat) (w : W) (frags : List (List UInt8)) : W :=
  frags.foldl (W.write umax) w

/-- `write_c_str(dst, src, nw)`: `frags` are the fragments `src`'s `Display` emits, `fails`
says whether that `Display` implementation finally returns `fmt::Error`. -/
def run (umax : Nat) (mem : List UInt8) (base len : Nat) (frags : List (List UInt8))
    (fails : Bool) : Res × W :=
  let w := (W.new mem base len).writeAll umax frags
  if w.panicked then (.panic, w)
  else if fails then (.bug, w)
  else w.finish umax

/-- total number of bytes of a fragment list -/
def total (frags : List (List UInt8)) : Nat := (frags.map List.length).sum

end AranyaV.CStr
