/-!
Labelled transition system for the AFC shared-memory channel table
(`crates/aranya-fast-channels/src/shm/{shared.rs, write.rs, read.rs}`), properties C40–C42.

Shared memory (`SharedMem`): two channel lists ("sides" `a`, `b`), each a
`Mutex<ChanListData>` = lock + `generation` + the channels `[0, len)`; the offsets `read_off`
and `write_off` (which side readers / the writer use; `false` = side a, `true` = side b);
`next_chan_id`.  One writer (`WriteState`, thread id 0) and any number of readers
(`ReadState`, reader `i` has thread id `i + 1`).

One transition = one shared-memory access of the Rust code (the yield points of the
verification hooks, names in `WPc.label` / `RPc.label`):

```
WriteState::add          nid.inc  woff.load  lock  gen.inc len.set  unlock  roff.swap  lock  gen.inc len.set  unlock  woff.store
            (table full) nid.inc  woff.load  lock  unlock                                          → OutOfSpace
WriteState::remove       woff.load  lock  gen.inc len.set  unlock  roff.swap  lock  gen.inc len.set  unlock  woff.store
            (absent)     woff.load  lock  unlock
WriteState::remove_all   woff.load  lock  len.set gen.inc  unlock  roff.swap  lock  len.set gen.inc  unlock  woff.store
WriteState::remove_if    woff.load  lock  [gen.inc len.set … len.set]  unlock  roff.swap  lock  [gen.inc len.set …]  unlock  woff.store
            (empty)      woff.load  lock  unlock
WriteState::exists       woff.load  lock  unlock
ReadState::setup_*_ctx   roff.load  lock  gen.load  unlock
ReadState::seal          roff.load  gen.peek (unsynchronised) — equal to the cached generation: done
                                    otherwise  lock  gen.load  unlock
ReadState::open          roff.load  gen.peek — hit: done;  otherwise  lock  [gen.load on success]  unlock
ReadState::exists        roff.load  lock  unlock
```

`lock` is the step in which `Mutex::lock` succeeds (enabled only when the side is free); the
inner structure of the futex mutex is the subject of C43 (`Model/Conc/Mutex.lean`) and is a
stutter here.  Everything a thread does between two yield points is local computation on
data it owns or holds the lock of, and is folded into the preceding step.

What the writer does to a locked side is a list of micro operations `MOp` (`gen.inc`, and the
`len` updates `pushAt`, `swapRm`, `clear`) in the order of the source; for `remove_if` the
list is computed from the contents at lock time (`rifProg`), on each side separately, as the
Rust loop does.  `add` / `remove` reuse on the second side the index found on the first one,
as the source does; an index that does not fit (`Corrupted` / overwritten slot in the Rust
code) sets the flag `corrupt`.

Ghost state (not read by any transition): `hist` — the channel sequences the writer has
produced, `hist[k]` being the one belonging to generation `k`; `dead` — ids whose removal
has returned; per context the log of sequence numbers of successful seals.

Sequentially consistent interleaving semantics; `Nat` generations and ids (no wrap).
-/
namespace AranyaV.Shm

/-- A channel as far as the table is concerned: id, direction (1 = `SealOnly`,
2 = `OpenOnly`), and `par` = the remaining parameters `remove_if`'s predicate can see
(label, peer). -/
structure Chan where
  id : Nat
  dir : Nat
  par : Nat
deriving DecidableEq, Repr, Inhabited

structure Side where
  gen : Nat
  chans : List Chan
deriving DecidableEq, Repr, Inhabited

def ids (l : List Chan) : List Nat := l.map (·.id)

/-- `ChanListData::swap_remove` on the visible slice: `self[i] = self[len-1]; len -= 1`
(for the last index: plain truncation) -/
def swapRemove (l : List Chan) (i : Nat) : List Chan :=
  match (l.drop (i + 1)).getLast? with
  | none => l.take i
  | some z => l.take i ++ z :: (l.drop (i + 1)).dropLast

/-- `ChanDirection::matches(op)`: `dir & op != 0` with op 1 = Seal, 2 = Open, 3 = Any -/
def dirMatches (dir op : Nat) : Bool := (dir == 1 && (op == 1 || op == 3)) || (dir == 2 && (op == 2 || op == 3))

/-- linear search of `ChanListData::find` -/
def findLin (l : List Chan) (x op : Nat) (i : Nat := 0) : Option (Chan × Nat) :=
  match l with
  | [] => none
  | c :: cs => if c.id = x ∧ dirMatches c.dir op = true then some (c, i) else findLin cs x op (i + 1)

/-- `ChanListData::find` / `find_mut`: try the hint, fall back to the linear search -/
def find (l : List Chan) (x : Nat) (hint : Option Nat) (op : Nat) : Option (Chan × Nat) :=
  match hint with
  | none => findLin l x op
  | some h =>
    match l[h]? with
    | some c => if c.id = x ∧ dirMatches c.dir op = true then some (c, h) else findLin l x op
    | none => findLin l x op

/-- index of the first channel with id `x` (the scan of `WriteState::remove`) -/
def idxOf (l : List Chan) (x : Nat) (i : Nat := 0) : Option Nat :=
  match l with
  | [] => none
  | c :: cs => if c.id = x then some i else idxOf cs x (i + 1)

/-- a micro operation of the writer on the side it holds -/
inductive MOp where
  | genInc
  | pushAt (idx : Nat) (c : Chan)
  | swapRm (idx : Nat)
  | clear
deriving DecidableEq, Repr

def MOp.label : MOp → String
  | .genInc => "gen.inc"
  | _ => "len.set"

/-- effect on the side; `none` = the Rust code would report `Corrupted` / overwrite a slot -/
def applyM (cap : Nat) (m : MOp) (sd : Side) : Option Side :=
  match m with
  | .genInc => some { sd with gen := sd.gen + 1 }
  | .pushAt idx c =>
    if idx = sd.chans.length ∧ idx < cap then some { sd with chans := sd.chans ++ [c] } else none
  | .swapRm idx =>
    if idx < sd.chans.length then some { sd with chans := swapRemove sd.chans idx } else none
  | .clear => some { sd with chans := [] }

def runProg (cap : Nat) : List MOp → Side → Option Side
  | [], sd => some sd
  | m :: ms, sd => match applyM cap m sd with
    | some sd' => runProg cap ms sd'
    | none => none

/-- the indices `ChanListData::remove_if` swap-removes, in order (`fuel` ≥ `l.length - i`) -/
def rifIdxs (p : Chan → Bool) : Nat → List Chan → Nat → List Nat
  | 0, _, _ => []
  | fuel + 1, l, i =>
    match l[i]? with
    | none => []
    | some c => if p c then i :: rifIdxs p fuel (swapRemove l i) i else rifIdxs p fuel l (i + 1)

/-- the micro operations of `ChanListData::remove_if`: the generation is bumped once, before
the first removal, and not at all if nothing matches -/
def rifProg (p : Chan → Bool) (l : List Chan) : List MOp :=
  match rifIdxs p l.length l 0 with
  | [] => []
  | is => .genInc :: is.map .swapRm

/-- results of the operations -/
inductive Ret where
  | ok
  | okId (id : Nat)
  | outOfSpace
  | bool (b : Bool)
  | notFound
  | keyExpired
  /-- the closure passed to `seal`/`open` failed (injected) -/
  | fErr
  | sealed (seq : Nat)
  | opened
  /-- `setup_*_ctx` succeeded; the new context is this reader's context number `k` -/
  | ctx (k : Nat)
deriving DecidableEq, Repr

/-- what the writer is asked to do (`add` gets its id from `next_chan_id`) -/
inductive WReq where
  | add (dir par : Nat)
  | remove (x : Nat)
  | removeAll
  | removeIf (p : Chan → Bool)
  | exists_ (x : Nat)

inductive WOp where
  | add (c : Chan)
  | remove (x : Nat)
  | removeAll
  | removeIf (p : Chan → Bool)
  | exists_ (x : Nat)

/-- second-side program: fixed (indices reused from the first side) or recomputed -/
inductive Prog2 where
  | fixed (l : List MOp)
  | rif (p : Chan → Bool)

def Prog2.expand : Prog2 → List Chan → List MOp
  | .fixed l, _ => l
  | .rif p, cs => rifProg p cs

/-- writer control state; `g0` (ghost) = generation of the untouched side when the operation
started -/
inductive WPc where
  | idle
  | nid (dir par : Nat)
  | ldW (op : WOp)
  | lk1 (op : WOp) (w : Bool)
  | mu1 (w : Bool) (todo : List MOp) (next : Option Prog2) (ret : Ret) (g0 : Nat)
  | sw (w : Bool) (p2 : Prog2) (ret : Ret) (g0 : Nat)
  | lk2 (r : Bool) (p2 : Prog2) (ret : Ret) (g0 : Nat)
  | mu2 (r : Bool) (todo : List MOp) (ret : Ret) (g0 : Nat)
  | st (r : Bool) (ret : Ret) (g0 : Nat)

def WPc.label : WPc → String
  | .idle => "op"
  | .nid _ _ => "nid.inc"
  | .ldW _ => "woff.load"
  | .lk1 _ _ => "lock"
  | .mu1 _ (m :: _) _ _ _ => m.label
  | .mu1 _ [] _ _ _ => "unlock"
  | .sw _ _ _ _ => "roff.swap"
  | .lk2 _ _ _ _ => "lock"
  | .mu2 _ (m :: _) _ _ => m.label
  | .mu2 _ [] _ _ => "unlock"
  | .st _ _ _ => "woff.store"

/-- A seal / open context of `read.rs` (`SealCtx(Option<Cache>)`): `live = false` is `None`.
`seq` is the sequence number of the cached `SealKey`; `log` (ghost) the sequence numbers
returned by successful seals. -/
structure Ctx where
  isSeal : Bool
  id : Nat
  live : Bool
  ch : Chan
  gen : Nat
  idx : Nat
  seq : Nat
  log : List Nat
deriving DecidableEq, Repr

inductive ROp where
  | setup (isSeal : Bool) (x : Nat)
  /-- `fail`: the closure (the AEAD) fails -/
  | seal (k : Nat) (fail : Bool)
  | open_ (k : Nat) (fail : Bool)
  | exists_ (x : Nat)
deriving DecidableEq, Repr

inductive RPc where
  | idle
  | ldR (op : ROp)
  | peek (op : ROp) (s : Bool)
  | lk (op : ROp) (s : Bool)
  /-- holding `s`, about to load the generation (setup, seal) -/
  | gl (op : ROp) (s : Bool)
  /-- holding `s`, open succeeded with channel `ch` at `idx`: about to load the generation -/
  | glo (k : Nat) (s : Bool) (ch : Chan) (idx : Nat)
  | ul (s : Bool) (ret : Ret)
deriving DecidableEq, Repr

def RPc.label : RPc → String
  | .idle => "op"
  | .ldR _ => "roff.load"
  | .peek _ _ => "gen.peek"
  | .lk _ _ => "lock"
  | .gl _ _ => "gen.load"
  | .glo _ _ _ _ => "gen.load"
  | .ul _ _ => "unlock"

/-- `dead0` (ghost): the id the operation in flight is about was in `dead` when it began -/
structure Reader where
  pc : RPc
  ctxs : List Ctx
  dead0 : Bool
deriving DecidableEq, Repr

structure State where
  a : Side
  b : Side
  /-- lock holders (thread ids) of side a / side b -/
  ha : Option Nat
  hb : Option Nat
  readOff : Bool
  writeOff : Bool
  nextId : Nat
  cap : Nat
  corrupt : Bool
  hist : List (List Chan)
  dead : List Nat
  w : WPc
  rs : List Reader

/-- `SharedMem::init` + `n` readers -/
def init (cap n : Nat) : State :=
  { a := ⟨0, []⟩, b := ⟨0, []⟩, ha := none, hb := none, readOff := false, writeOff := true,
    nextId := 0, cap := cap, corrupt := false, hist := [[]], dead := [], w := .idle,
    rs := List.replicate n ⟨.idle, [], false⟩ }

def State.side (s : State) (x : Bool) : Side := if x then s.b else s.a
def State.holder (s : State) (x : Bool) : Option Nat := if x then s.hb else s.ha
def State.setSide (s : State) (x : Bool) (sd : Side) : State :=
  if x then { s with b := sd } else { s with a := sd }
def State.setHolder (s : State) (x : Bool) (h : Option Nat) : State :=
  if x then { s with hb := h } else { s with ha := h }

def State.setW (s : State) (pc : WPc) : State := { s with w := pc }
def State.setHist (s : State) (h : List (List Chan)) : State := { s with hist := h }
def State.setRO (s : State) (x : Bool) : State := { s with readOff := x }
def State.setWO (s : State) (x : Bool) : State := { s with writeOff := x }
def State.setNextId (s : State) (n : Nat) : State := { s with nextId := n }
def State.setCorrupt (s : State) : State := { s with corrupt := true }
def State.setDead (s : State) (d : List Nat) : State := { s with dead := d }
def State.setRs (s : State) (rs : List Reader) : State := { s with rs := rs }

/-- the channel sequence the operation produces (ghost), appended to `hist` when the program
bumps the generation -/
def histAfter (cap : Nat) (hist : List (List Chan)) (prog : List MOp) (sd : Side) : List (List Chan) :=
  match prog with
  | [] => hist
  | _ => match runProg cap prog sd with
    | some sd' => hist ++ [sd'.chans]
    | none => hist

def WReq.begin : WReq → WPc
  | .add d p => .nid d p
  | .remove x => .ldW (.remove x)
  | .removeAll => .ldW .removeAll
  | .removeIf p => .ldW (.removeIf p)
  | .exists_ x => .ldW (.exists_ x)

/-- the decision taken when the first lock has been acquired: the micro operations for this
side, the program for the second side (`none` = the operation returns after the unlock) and
the result -/
def plan (cap : Nat) (op : WOp) (sd : Side) : List MOp × Option Prog2 × Ret :=
  match op with
  | .add c =>
    if sd.chans.length ≥ cap then ([], none, .outOfSpace)
    else
      let prog := [.genInc, .pushAt sd.chans.length c]
      (prog, some (.fixed prog), .okId c.id)
  | .remove x =>
    match idxOf sd.chans x with
    | none => ([], none, .ok)
    | some i =>
      let prog := [.genInc, .swapRm i]
      (prog, some (.fixed prog), .ok)
  | .removeAll => ([.clear, .genInc], some (.fixed [.clear, .genInc]), .ok)
  | .removeIf p =>
    if sd.chans.length = 0 then ([], none, .ok)
    else (rifProg p sd.chans, some (.rif p), .ok)
  | .exists_ x => ([], none, .bool (sd.chans.any (·.id == x)))

/-- ids that the finished operation removed (ghost) -/
def removedIds (hist : List (List Chan)) (g0 : Nat) (cur : List Chan) : List Nat :=
  match hist[g0]? with
  | some pre => (ids pre).filter (fun x => !(ids cur).contains x)
  | none => []

/-- `lock` of the first side succeeded: plan the operation -/
def lock1 (s : State) (op : WOp) (w : Bool) : State :=
  let pl := plan s.cap op (s.side w)
  ((s.setHolder w (some 0)).setHist (histAfter s.cap s.hist pl.1 (s.side w))).setW
    (.mu1 w pl.1 pl.2.1 pl.2.2 (s.side w).gen)

/-- a micro operation on the held side `x`; `ok` / `bad` = the next control state -/
def muStep (s : State) (x : Bool) (m : MOp) (ok bad : WPc) : State :=
  match applyM s.cap m (s.side x) with
  | some sd' => (s.setSide x sd').setW ok
  | none => s.setCorrupt.setW bad

/-- unlock of the first side -/
def unlock1 (s : State) (w : Bool) (nx : Option Prog2) (ret : Ret) (g0 : Nat) : State × Option Ret :=
  match nx with
  | none => ((s.setHolder w none).setW .idle, some ret)
  | some p2 => ((s.setHolder w none).setW (.sw w p2 ret g0), none)

def swapOff (s : State) (w : Bool) (p2 : Prog2) (ret : Ret) (g0 : Nat) : State :=
  (s.setRO w).setW (.lk2 s.readOff p2 ret g0)

def lock2 (s : State) (r : Bool) (p2 : Prog2) (ret : Ret) (g0 : Nat) : State :=
  (s.setHolder r (some 0)).setW (.mu2 r (p2.expand (s.side r).chans) ret g0)

def storeOff (s : State) (r : Bool) (g0 : Nat) : State :=
  ((s.setWO r).setDead (s.dead ++ removedIds s.hist g0 (s.side r).chans)).setW .idle

/-- one step of the writer: new state and the result if the operation returns -/
def wStep (s : State) : Option (State × Option Ret) :=
  match s.w with
  | .idle => none
  | .nid d p => some ((s.setNextId (s.nextId + 1)).setW (.ldW (.add ⟨s.nextId, d, p⟩)), none)
  | .ldW op => some (s.setW (.lk1 op s.writeOff), none)
  | .lk1 op w => if s.holder w ≠ none then none else some (lock1 s op w, none)
  | .mu1 w (m :: rest) nx ret g0 =>
    some (muStep s w m (.mu1 w rest nx ret g0) (.mu1 w [] none ret g0), none)
  | .mu1 w [] nx ret g0 => some (unlock1 s w nx ret g0)
  | .sw w p2 ret g0 => some (swapOff s w p2 ret g0, none)
  | .lk2 r p2 ret g0 => if s.holder r ≠ none then none else some (lock2 s r p2 ret g0, none)
  | .mu2 r (m :: rest) ret g0 => some (muStep s r m (.mu2 r rest ret g0) (.mu2 r [] ret g0), none)
  | .mu2 r [] ret g0 => some ((s.setHolder r none).setW (.st r ret g0), none)
  | .st r ret g0 => some (storeOff s r g0, some ret)

def wBegin (s : State) (rq : WReq) : Option State :=
  match s.w with
  | .idle => some (s.setW rq.begin)
  | _ => none

/-- a fresh context for channel `ch` found at `idx` in a list of generation `g` -/
def newCtx (isSeal : Bool) (ch : Chan) (g idx : Nat) : Ctx :=
  { isSeal, id := ch.id, live := true, ch, gen := g, idx, seq := 0, log := [] }

/-- the id an operation is about (ghost bookkeeping for `dead0`) -/
def ROp.target (ctxs : List Ctx) : ROp → Option Nat
  | .setup _ x => some x
  | .exists_ x => some x
  | .seal k _ => (ctxs[k]?).map (·.id)
  | .open_ k _ => (ctxs[k]?).map (·.id)

/-- Effect of a reader step on the shared state is only through the lock: `acq`/`rel`. -/
inductive LockEff where
  | none
  | acq (s : Bool)
  | rel (s : Bool)

/-- ghost: the operation's target id is already dead when it begins -/
def deadAtBegin (dead : List Nat) (ctxs : List Ctx) (op : ROp) : Bool :=
  match op.target ctxs with
  | some x => dead.contains x
  | none => false

/-- A reader starts an operation.  `seal`/`open` on an expired context return at once. -/
def rBeginLocal (dead : List Nat) (r : Reader) (op : ROp) : Option (Reader × Option Ret) :=
  match r.pc with
  | .idle =>
    match op with
    | .setup _ _ => some ({ r with pc := .ldR op, dead0 := deadAtBegin dead r.ctxs op }, none)
    | .exists_ _ => some ({ r with pc := .ldR op, dead0 := deadAtBegin dead r.ctxs op }, none)
    | .seal k _ =>
      match r.ctxs[k]? with
      | none => none
      | some c =>
        if c.isSeal = false then none
        else if c.live = false then some ({ r with dead0 := deadAtBegin dead r.ctxs op }, some .keyExpired)
        else some ({ r with pc := .ldR op, dead0 := deadAtBegin dead r.ctxs op }, none)
    | .open_ k _ =>
      match r.ctxs[k]? with
      | none => none
      | some c =>
        if c.isSeal = true then none
        else if c.live = false then some ({ r with dead0 := deadAtBegin dead r.ctxs op }, some .keyExpired)
        else some ({ r with pc := .ldR op, dead0 := deadAtBegin dead r.ctxs op }, none)
  | _ => none

/-- successful seal with the context's key: returns `seq`, the key advances -/
def Ctx.sealed (c : Ctx) : Ctx := { c with seq := c.seq + 1, log := c.log ++ [c.seq] }

/-- One step of a reader.  `readOff`, `sd` = the side the step looks at (generation and, under
the lock, contents), `free` = whether that side's lock is free. -/
def rStepLocal (readOff : Bool) (side : Bool → Side) (free : Bool → Bool) (r : Reader) :
    Option (Reader × LockEff × Option Ret) :=
  match r.pc with
  | .idle => none
  | .ldR op =>
    match op with
    | .setup _ _ => some ({ r with pc := .lk op readOff }, .none, none)
    | .exists_ _ => some ({ r with pc := .lk op readOff }, .none, none)
    | .seal _ _ => some ({ r with pc := .peek op readOff }, .none, none)
    | .open_ _ _ => some ({ r with pc := .peek op readOff }, .none, none)
  | .peek op s =>
    match op with
    | .seal k fail =>
      match r.ctxs[k]? with
      | none => none
      | some c =>
        if c.gen = (side s).gen then
          if fail then some ({ r with pc := .idle }, .none, some .fErr)
          else some ({ r with pc := .idle, ctxs := r.ctxs.set k c.sealed }, .none, some (.sealed c.seq))
        else some ({ r with pc := .lk op s }, .none, none)
    | .open_ k fail =>
      match r.ctxs[k]? with
      | none => none
      | some c =>
        if c.gen = (side s).gen then
          some ({ r with pc := .idle }, .none, some (if fail then .fErr else .opened))
        else some ({ r with pc := .lk op s }, .none, none)
    | _ => none
  | .lk op s =>
    if free s = false then none
    else
      match op with
      | .setup _ _ => some ({ r with pc := .gl op s }, .acq s, none)
      | .seal _ _ => some ({ r with pc := .gl op s }, .acq s, none)
      | .exists_ x => some ({ r with pc := .ul s (.bool ((side s).chans.any (·.id == x))) }, .acq s, none)
      | .open_ k fail =>
        match r.ctxs[k]? with
        | none => none
        | some c =>
          match find (side s).chans c.id (some c.idx) 2 with
          | none => some ({ r with pc := .ul s .notFound }, .acq s, none)
          | some (ch, idx) =>
            if fail then some ({ r with pc := .ul s .fErr }, .acq s, none)
            else some ({ r with pc := .glo k s ch idx }, .acq s, none)
  | .gl op s =>
    match op with
    | .setup isSeal x =>
      match find (side s).chans x none (if isSeal then 1 else 2) with
      | none => some ({ r with pc := .ul s .notFound }, .none, none)
      | some (ch, idx) =>
        some ({ r with pc := .ul s (.ctx r.ctxs.length), ctxs := r.ctxs ++ [newCtx isSeal ch (side s).gen idx] },
              .none, none)
    | .seal k fail =>
      match r.ctxs[k]? with
      | none => none
      | some c =>
        match find (side s).chans c.id (some c.idx) 1 with
        | none => some ({ r with pc := .ul s .notFound, ctxs := r.ctxs.set k { c with live := false } }, .none, none)
        | some (ch, idx) =>
          if fail then some ({ r with pc := .ul s .fErr }, .none, none)
          else
            some ({ r with pc := .ul s (.sealed c.seq),
                           ctxs := r.ctxs.set k { c.sealed with ch := ch, gen := (side s).gen, idx := idx } },
                  .none, none)
    | _ => none
  | .glo k s ch idx =>
    match r.ctxs[k]? with
    | none => none
    | some c =>
      some ({ r with pc := .ul s .opened,
                     ctxs := r.ctxs.set k { c with ch := ch, gen := (side s).gen, idx := idx } }, .none, none)
  | .ul s ret => some ({ r with pc := .idle }, .rel s, some ret)

def applyLock (s : State) (i : Nat) : LockEff → State
  | .none => s
  | .acq x => s.setHolder x (some (i + 1))
  | .rel x => s.setHolder x none

def rBegin (s : State) (i : Nat) (op : ROp) : Option (State × Option Ret) :=
  match s.rs[i]? with
  | none => none
  | some r =>
    match rBeginLocal s.dead r op with
    | none => none
    | some (r', ret) => some (s.setRs (s.rs.set i r'), ret)

def rStep (s : State) (i : Nat) : Option (State × Option Ret) :=
  match s.rs[i]? with
  | none => none
  | some r =>
    match rStepLocal s.readOff s.side (fun x => (s.holder x).isNone) r with
    | none => none
    | some (r', eff, ret) => some (applyLock (s.setRs (s.rs.set i r')) i eff, ret)

/-- schedules are lists of these -/
inductive Act where
  | wBegin (rq : WReq)
  | wStep
  | rBegin (i : Nat) (op : ROp)
  | rStep (i : Nat)

def step (s : State) : Act → Option (State × Option Ret)
  | .wBegin rq => (wBegin s rq).map (·, none)
  | .wStep => wStep s
  | .rBegin i op => rBegin s i op
  | .rStep i => rStep s i

/-- states reachable from `init cap n` by some schedule -/
inductive Reachable (cap n : Nat) : State → Prop where
  | init : Reachable cap n (init cap n)
  | step {s s' : State} {a : Act} {ret : Option Ret} :
      Reachable cap n s → step s a = some (s', ret) → Reachable cap n s'

end AranyaV.Shm
