/-!
Memory orderings of Rust atomics, as extracted from the source by `tools/items/conc_ord.py`.

The concurrency models (`Mutex`, `BiArc`, `Arc`, `Shm`) are sequentially consistent transition
systems.  What ties them to the `Ordering::…` annotations actually written in the source is a
*side condition*: every atomic access has at least the ordering its role in the protocol
requires (`sufficient`), in the lattice

    Relaxed  <  Acquire, Release  <  AcqRel  <  SeqCst        (Acquire, Release incomparable).

The step from "orderings ≥ role requirement" to "reasoning about sequentially consistent
interleavings is sound for this protocol" is the usual DRF-SC / release–acquire argument; it is
NOT mechanised and is part of the trusted base.
-/
namespace AranyaV.Conc

inductive MemOrd where
  | relaxed | acquire | release | acqRel | seqCst
deriving DecidableEq, Repr, Inhabited

/-- `a.le b`: ordering `b` is at least as strong as `a` -/
def MemOrd.le : MemOrd → MemOrd → Bool
  | .relaxed, _ => true
  | .acquire, .acquire | .acquire, .acqRel | .acquire, .seqCst => true
  | .release, .release | .release, .acqRel | .release, .seqCst => true
  | .acqRel, .acqRel | .acqRel, .seqCst => true
  | .seqCst, .seqCst => true
  | _, _ => false

/-- `(success ordering, failure ordering)` of one access; the failure ordering is `relaxed`
for everything but `compare_exchange` -/
abbrev OrdPair := MemOrd × MemOrd

/-- every access (in source order) is at least as strong as required; the two tables must
list the same number of accesses -/
def sufficient (req act : List OrdPair) : Bool :=
  req.length == act.length &&
    (List.zip req act).all (fun p => p.1.1.le p.2.1 && p.1.2.le p.2.2)

end AranyaV.Conc
