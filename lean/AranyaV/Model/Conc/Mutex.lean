import AranyaV.Gen.ConcMutex
/-!
Labelled transition system for the futex mutex of
`crates/aranya-fast-channels/src/mutex.rs` (`Mutex::sys_lock` / `Mutex::sys_unlock`, the
`libc` + Linux/macOS variant; the algorithm is the Go runtime's `lock_futex.go`).

Shared state: the futex word `key ∈ {0 unlocked, 1 locked, 2 locked-with-sleepers}`.
Per-thread control state `Pc`: the program counter of the Rust function, one *atomic
operation on `key`* per transition, plus the thread-local variables that are live at that
point (`wait`, and the index `i` of the `for _ in 0..PASSIVE_SPIN` loop):

```
sys_lock:   fast:   cas(0→1)            ok → return (hold);   Err(v) → wait := v
            loop {
              for i in 0..PASSIVE_SPIN {
                load i: while key.load() == 0 {
                cas i :   cas(0→wait)    ok → return (hold);   fail → sched_yield, re-test `while`
                        }
              }
              swap:   old = key.swap(2); old == 0 → return (hold);   wait := 2
              fwait:  futex_wait(key, 2)         -- returns at once if key ≠ 2, else sleeps
            }
sys_unlock: unlock: old = key.swap(0);  0 → bug!;  2 → wake;  1 → done;  _ → bug!
            wake:   futex_wake(key, 1)  -- wakes one sleeper if there is any
```

Any number of threads (`pcs : List Pc`, thread id = index).  A schedule is a list of `Act`s:
`run t` (thread `t` performs its next operation), `wakeOne t w` (thread `t`'s `futex_wake(1)`
takes effect and the kernel chooses sleeper `w`), `spur w` (the kernel wakes sleeper `w`
spuriously).  `step` returns `none` when the action is not enabled — in particular `run t`
for a thread that is asleep in the futex (blocked).

Kernel futex semantics assumed (DESIGN section 5): `futex_wait(addr, v)` atomically compares
`*addr` with `v` and either returns or enqueues the caller; a sleeper is released by a
`futex_wake` that selects it, or spuriously; `futex_wake(addr, 1)` releases exactly one
sleeper if at least one is enqueued, none otherwise.  All operations are sequentially
consistent (interleaving semantics).
-/
namespace AranyaV.Mutex

open AranyaV.Gen.ConcMutex (passiveSpin)

inductive Pc where
  /-- outside `lock`/`unlock`, not holding the mutex -/
  | idle
  /-- about to execute the fast-path `compare_exchange(UNLOCKED, LOCKED)` -/
  | fast
  /-- iteration `i` of the passive-spin `for`, about to evaluate `key.load() == UNLOCKED`;
  the local `wait` is `w` -/
  | load (i w : Nat)
  /-- the load saw `UNLOCKED`; about to execute `compare_exchange(UNLOCKED, wait)` -/
  | cas (i w : Nat)
  /-- spinning is over; about to execute `key.swap(SLEEPING)` -/
  | swap
  /-- `wait = SLEEPING`; about to call `futex_wait(key, SLEEPING)` -/
  | fwait
  /-- enqueued in the futex (blocked) -/
  | asleep
  /-- released from the futex (by a wake or spuriously), `futex_wait` has not returned yet -/
  | woken
  /-- `lock` has returned: inside the critical section -/
  | hold
  /-- the guard is being dropped: about to execute `key.swap(UNLOCKED)` -/
  | unlock
  /-- the swap returned `SLEEPING`: about to call `futex_wake(key, 1)` -/
  | wake
  /-- `sys_unlock` found the mutex unlocked or in an invalid state (`bug!`) -/
  | bug
deriving DecidableEq, Repr, Inhabited

structure State where
  key : Nat
  pcs : List Pc
deriving DecidableEq, Repr

/-- all `n` threads idle, mutex unlocked (`Mutex::new`) -/
def init (n : Nat) : State := ⟨0, List.replicate n .idle⟩

inductive Act where
  | run (t : Nat)
  | wakeOne (t w : Nat)
  | spur (w : Nat)
deriving DecidableEq, Repr

def Act.isSpur : Act → Bool
  | .spur _ => true
  | _ => false

/-- where the spin phase continues when the `for` counter is `i` -/
def spinAt (i w : Nat) : Pc := if i < passiveSpin then .load i w else .swap

def isAsleep : Pc → Bool
  | .asleep => true
  | _ => false

/-- The next operation of a thread at `p` when the futex word is `key`; `sleepers` says
whether some thread is enqueued in the futex.  Result: new value of the word and new pc;
`none` = not enabled. -/
def runPc (key : Nat) (sleepers : Bool) : Pc → Option (Nat × Pc)
  | .idle => some (key, .fast)
  | .fast => if key = 0 then some (1, .hold) else some (key, spinAt 0 key)
  | .load i w => if key = 0 then some (key, .cas i w) else some (key, spinAt (i + 1) w)
  | .cas i w => if key = 0 then some (w, .hold) else some (key, .load i w)
  | .swap => if key = 0 then some (2, .hold) else some (2, .fwait)
  | .fwait => if key = 2 then some (key, .asleep) else some (key, spinAt 0 2)
  | .asleep => none
  | .woken => some (key, spinAt 0 2)
  | .hold => some (key, .unlock)
  | .unlock =>
    if key = 0 then some (0, .bug)
    else if key = 2 then some (0, .wake)
    else if key = 1 then some (0, .idle)
    else some (0, .bug)
  | .wake => if sleepers then none else some (key, .idle)
  | .bug => none

def State.sleepers (s : State) : Bool := s.pcs.any isAsleep

def step (s : State) : Act → Option State
  | .run t =>
    match s.pcs[t]? with
    | none => none
    | some p =>
      match runPc s.key s.sleepers p with
      | none => none
      | some (k, p') => some ⟨k, s.pcs.set t p'⟩
  | .wakeOne t w =>
    if s.pcs[t]? = some .wake ∧ s.pcs[w]? = some .asleep then
      some ⟨s.key, (s.pcs.set t .idle).set w .woken⟩
    else none
  | .spur w =>
    if s.pcs[w]? = some .asleep then some ⟨s.key, s.pcs.set w .woken⟩ else none

/-- run a schedule; `none` if some action was not enabled -/
def exec (s : State) : List Act → Option State
  | [] => some s
  | a :: as => match step s a with
    | none => none
    | some s' => exec s' as

/-- the label the harness sees for a thread parked at this pc (name of its yield point) -/
def Pc.label : Pc → String
  | .idle => "idle"
  | .fast => "fast"
  | .load _ _ => "load"
  | .cas _ _ => "cas"
  | .swap => "swap"
  | .fwait => "fwait"
  | .asleep => "asleep"
  | .woken => "woken"
  | .hold => "cs"
  | .unlock => "unlock"
  | .wake => "wake"
  | .bug => "bug"

end AranyaV.Mutex
