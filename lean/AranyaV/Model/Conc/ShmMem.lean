/-!
Model of the in-memory AFC state (`crates/aranya-fast-channels/src/memory.rs`,
`memory/lender.rs`) for C40 (`single_live_ctx`) and the memory half of C41.

`State<CS>` is an `Arc<StdMutex<Inner>>`: every `AranyaState` operation and `setup_*_ctx` /
`exists` runs under that mutex, so they are atomic steps here.  A channel's data sits in a
`Lender`; a context holds a `Loan`.  The `BiArc` flag is `SHARED` iff both the `Lender` and a
`Loan` are alive (C44): `Lender::lend` = `swap(SHARED)` succeeds iff the flag was `UNSHARED`;
dropping the `Loan` or the `Lender` = `swap(UNSHARED)`; `Loan::get_mut` (the lock-free fast path
of `seal` / `open`) = `load() == SHARED`.  The `Lender` is alive iff the channel is in the
map; ids are never reused, so "the context's `Lender` is alive" is "its id is in the map".
-/
namespace AranyaV.ShmMem

structure MChan where
  id : Nat
  /-- 1 = seal, 2 = open -/
  dir : Nat
  par : Nat
  /-- the `BiArc` flag is `SHARED`: a `Loan` of this channel's `Lender` is alive -/
  loaned : Bool
  /-- sequence number of the `SealKey` stored in the channel's `ExclusiveChannelData`: the key
  lives in the channel, not in the context, so it survives dropping and re-creating a context -/
  seq : Nat
  /-- ghost: the sequence numbers sealed under this channel's key so far -/
  klog : List Nat
deriving DecidableEq, Repr

structure MCtx where
  id : Nat
  isSeal : Bool
  /-- the context (and its `Loan`) has been dropped -/
  dropped : Bool
  /-- ghost: the channel key's sequence number when the context was set up -/
  start : Nat
  /-- ghost: the sequence numbers this context's successful seals returned -/
  log : List Nat
deriving DecidableEq, Repr

structure State where
  chans : List MChan
  nextId : Nat
  ctxs : List MCtx
deriving DecidableEq, Repr

def init : State := ⟨[], 0, []⟩

inductive Ret where
  | ok
  | okId (id : Nat)
  | bool (b : Bool)
  | notFound
  | fErr
  | sealed (seq : Nat)
  | opened
  | ctx (k : Nat)
  | invalid
deriving DecidableEq, Repr

inductive Op where
  | add (dir par : Nat)
  | remove (x : Nat)
  | removeAll
  | removeIf (p : MChan → Bool)
  | exists_ (x : Nat)
  | setup (isSeal : Bool) (x : Nat)
  | sealC (k : Nat) (fail : Bool)
  | openC (k : Nat) (fail : Bool)
  | dropC (k : Nat)

/-- direction a context kind needs -/
def wantDir (isSeal : Bool) : Nat := if isSeal then 1 else 2

def present (s : State) (x : Nat) : Bool := s.chans.any (·.id == x)

def setLoaned (l : List MChan) (x : Nat) (b : Bool) : List MChan :=
  l.map fun c => if c.id = x then { c with loaned := b } else c

/-- a successful seal advances the channel's key -/
def bumpSeq (l : List MChan) (x : Nat) : List MChan :=
  l.map fun c => if c.id = x then { c with seq := c.seq + 1, klog := c.klog ++ [c.seq] } else c

def step (s : State) : Op → State × Ret
  | .add d p =>
    ({ s with chans := s.chans ++ [⟨s.nextId, d, p, false, 0, []⟩], nextId := s.nextId + 1 }, .okId s.nextId)
  | .remove x => ({ s with chans := s.chans.filter (·.id != x) }, .ok)
  | .removeAll => ({ s with chans := [] }, .ok)
  | .removeIf p => ({ s with chans := s.chans.filter (fun c => !p c) }, .ok)
  | .exists_ x => (s, .bool (present s x))
  | .setup isSeal x =>
    match s.chans.find? (·.id == x) with
    | none => (s, .notFound)
    | some c =>
      if c.dir ≠ wantDir isSeal then (s, .notFound)
      else if c.loaned then (s, .notFound)
      else ({ s with chans := setLoaned s.chans x true, ctxs := s.ctxs ++ [⟨x, isSeal, false, c.seq, []⟩] },
            .ctx s.ctxs.length)
  | .sealC k fail =>
    match s.ctxs[k]? with
    | none => (s, .invalid)
    | some c =>
      if c.dropped ∨ ¬ c.isSeal then (s, .invalid)
      else
        match s.chans.find? (·.id == c.id) with
        | none => (s, .notFound)
        | some ch =>
          if fail then (s, .fErr)
          else ({ s with chans := bumpSeq s.chans c.id,
                         ctxs := s.ctxs.set k { c with log := c.log ++ [ch.seq] } }, .sealed ch.seq)
  | .openC k fail =>
    match s.ctxs[k]? with
    | none => (s, .invalid)
    | some c =>
      if c.dropped ∨ c.isSeal then (s, .invalid)
      else if !present s c.id then (s, .notFound)
      else if fail then (s, .fErr)
      else (s, .opened)
  | .dropC k =>
    match s.ctxs[k]? with
    | none => (s, .invalid)
    | some c =>
      if c.dropped then (s, .invalid)
      else ({ s with chans := setLoaned s.chans c.id false, ctxs := s.ctxs.set k { c with dropped := true } }, .ok)

def run (s : State) : List Op → State
  | [] => s
  | o :: os => run (step s o).1 os

inductive Reachable : State → Prop where
  | init : Reachable init
  | step {s : State} (o : Op) : Reachable s → Reachable (step s o).1

end AranyaV.ShmMem
