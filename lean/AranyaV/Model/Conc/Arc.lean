/-!
Labelled transition system for the hand-rolled `Arc` of heap strings,
`crates/aranya-policy-text/src/repr.rs` (`mod arc`, `ArcStr`), which backs `Text` /
`Identifier` values longer than `MAX_INLINE` bytes.

```
ArcStr::new     alloc { strong = 1, data }
Clone::clone    old = strong.fetch_add(1, Relaxed); assert!(old <= MAX_REFCOUNT); new handle
as_ref          read data through the handle
Drop::drop      if strong.fetch_sub(1, Release) != 1 { return }
                fence(Acquire); dealloc
```

Shared state: the counter, how often the allocation was freed, whether any operation touched
it after the free.  Any number of threads; thread `t` owns `handles` handles (not counting one
it is in the middle of dropping).  Handles can be moved between threads (`give`), which has
no effect on shared memory.  What Rust's ownership rules guarantee about clients is in the
enabling conditions of the `start…` actions: `clone` and reads need a handle (`&self`), and
only an owned handle can be dropped.  The counter is an unbounded `Nat`: the
`assert!(old <= MAX_REFCOUNT)` overflow guard (2⁶³ live handles) is outside the model.
Sequentially consistent interleavings.
-/
namespace AranyaV.Arc

inductive Pc where
  | idle
  /-- in `clone`: about to `strong.fetch_add(1)` -/
  | clone
  /-- about to read the string data through a handle -/
  | read
  /-- in `drop`: about to `strong.fetch_sub(1)`; the handle being dropped is no longer counted
  in `handles` -/
  | drop
  /-- `fetch_sub` returned 1: about to fence and deallocate -/
  | free
deriving DecidableEq, Repr, Inhabited

structure Th where
  pc : Pc
  handles : Nat
deriving DecidableEq, Repr, Inhabited

structure State where
  strong : Nat
  freed : Nat
  uaf : Bool
  ths : List Th
deriving DecidableEq, Repr

/-- `ArcStr::new` on thread 0; `n + 1` threads -/
def init (n : Nat) : State := ⟨1, 0, false, ⟨.idle, 1⟩ :: List.replicate n ⟨.idle, 0⟩⟩

inductive Op where
  | startClone | startRead | startDrop
  /-- perform the operation the thread is parked before -/
  | step
  /-- move one handle to thread `u` (no shared-memory effect) -/
  | give (u : Nat)
deriving DecidableEq, Repr

def State.touch (s : State) : Bool := s.uaf || decide (0 < s.freed)

def step (s : State) (t : Nat) (op : Op) : Option State :=
  match s.ths[t]? with
  | none => none
  | some th =>
    match op, th.pc with
    | .startClone, .idle =>
      if 0 < th.handles then some { s with ths := s.ths.set t { th with pc := .clone } } else none
    | .startRead, .idle =>
      if 0 < th.handles then some { s with ths := s.ths.set t { th with pc := .read } } else none
    | .startDrop, .idle =>
      if 0 < th.handles then some { s with ths := s.ths.set t ⟨.drop, th.handles - 1⟩ } else none
    | .give u, .idle =>
      if 0 < th.handles ∧ t ≠ u then
        match (s.ths.set t ⟨.idle, th.handles - 1⟩)[u]? with
        | none => none
        | some tu =>
          some { s with ths := (s.ths.set t ⟨.idle, th.handles - 1⟩).set u { tu with handles := tu.handles + 1 } }
      else none
    | .step, .clone =>
      some { s with strong := s.strong + 1, uaf := s.touch, ths := s.ths.set t ⟨.idle, th.handles + 1⟩ }
    | .step, .read =>
      some { s with uaf := s.touch, ths := s.ths.set t { th with pc := .idle } }
    | .step, .drop =>
      some { s with strong := s.strong - 1, uaf := s.touch,
                    ths := s.ths.set t { th with pc := if s.strong = 1 then .free else .idle } }
    | .step, .free =>
      some { s with freed := s.freed + 1, ths := s.ths.set t { th with pc := .idle } }
    | _, _ => none

def exec (s : State) : List (Nat × Op) → Option State
  | [] => some s
  | (t, op) :: as => match step s t op with
    | none => none
    | some s' => exec s' as

def Pc.label : Pc → String
  | .idle => "idle"
  | .clone => "arc.clone"
  | .read => "read"
  | .drop => "arc.drop"
  | .free => "arc.free"

end AranyaV.Arc
