/-!
Labelled transition system for `Lender` / `Loan` / `BiArc` of
`crates/aranya-fast-channels/src/memory/lender.rs`.

`BiArc<T>` is a heap allocation `{ state : AtomicBool, value : T }` with at most two handles.
`state = SHARED (true)` means "two handles exist".

```
BiArc::new            alloc, state := UNSHARED                       (Lender::new)
BiArc::try_clone      old = state.swap(SHARED);  old == UNSHARED → Some(second handle) | None
                                                                     (Lender::lend → Loan)
BiArc::get_unconditional   read value                                (Lender::shared)
BiArc::get_if_shared  state.load() == SHARED → Some(&value) | None   (Loan::get_ref / get_mut)
BiArc::drop           old = state.swap(UNSHARED); old == UNSHARED → free
                                                                     (drop of Lender or Loan)
```

Shared state: the flag, how often the allocation has been freed, whether any operation
touched the allocation after it was freed.  Handles: the one `Lender` (`alive`, `dropping` =
its `drop` has started, `gone` = its `drop` has returned) and the `Loan`s, each owned by the
thread that obtained it (`Th.loan`).  Any number of threads.

What Rust's ownership rules guarantee about *clients* is part of the model as enabling
conditions of the `start…` actions (they have no effect on shared memory):
* `lend` / `shared` need `&Lender`: they can only start while the `Lender` is alive, and the
  `Lender` can only be dropped while no such call is in progress (a borrow is outstanding);
* `get_ref` / `get_mut` / drop of a `Loan` can only be started by the thread that owns it, and
  the references returned by `get_*` borrow the `Loan`: while a thread is `using` them it
  cannot drop the `Loan` (but the `Lender` can be dropped by another thread at any time).
Every other transition is one atomic operation of the Rust code, enabled whenever the thread
is at that program point.  Sequentially consistent interleavings.
-/
namespace AranyaV.BiArc

inductive Pc where
  | idle
  /-- `Lender::lend` → `try_clone`: about to `state.swap(SHARED)` -/
  | lend
  /-- `Lender::shared` → `get_unconditional`: about to read the value -/
  | shared
  /-- drop of the `Lender`: about to `state.swap(UNSHARED)` -/
  | ldrop
  /-- … the swap returned UNSHARED: about to free the allocation -/
  | lfree
  /-- `Loan::get_ref/get_mut` → `get_if_shared`: about to `state.load()` -/
  | get
  /-- `get_*` returned `Some`: holding `(&S, &X)`, about to read/write through them -/
  | using
  /-- drop of the `Loan`: about to `state.swap(UNSHARED)` -/
  | ndrop
  /-- … the swap returned UNSHARED: about to free the allocation -/
  | nfree
deriving DecidableEq, Repr, Inhabited

structure Th where
  pc : Pc
  /-- this thread owns a live `Loan` handle -/
  loan : Bool
deriving DecidableEq, Repr, Inhabited

inductive LSt where
  | alive | dropping | gone
deriving DecidableEq, Repr, Inhabited

structure State where
  /-- `BiArcInner::state` (true = SHARED) -/
  flag : Bool
  /-- number of times the allocation was freed -/
  freed : Nat
  /-- some operation touched the allocation after it had been freed -/
  uaf : Bool
  lender : LSt
  ths : List Th
deriving DecidableEq, Repr

/-- `Lender::new` and `n` idle threads without loans -/
def init (n : Nat) : State := ⟨false, 0, false, .alive, List.replicate n ⟨.idle, false⟩⟩

inductive Op where
  | startLend | startShared | startLDrop | startGet | startNDrop
  /-- perform the operation the thread is parked before -/
  | step
deriving DecidableEq, Repr

def inLenderCall (t : Th) : Bool := t.pc == .lend || t.pc == .shared

/-- every operation on the allocation first requires it to be live -/
def State.touch (s : State) : Bool := s.uaf || decide (0 < s.freed)

def step (s : State) (t : Nat) (op : Op) : Option State :=
  match s.ths[t]? with
  | none => none
  | some th =>
    match op, th.pc with
    | .startLend, .idle =>
      if s.lender = .alive then some { s with ths := s.ths.set t { th with pc := .lend } } else none
    | .startShared, .idle =>
      if s.lender = .alive then some { s with ths := s.ths.set t { th with pc := .shared } } else none
    | .startLDrop, .idle =>
      if s.lender = .alive ∧ s.ths.all (fun x => !inLenderCall x) then
        some { s with lender := .dropping, ths := s.ths.set t { th with pc := .ldrop } }
      else none
    | .startGet, .idle =>
      if th.loan then some { s with ths := s.ths.set t { th with pc := .get } } else none
    | .startNDrop, .idle =>
      if th.loan then some { s with ths := s.ths.set t { th with pc := .ndrop } } else none
    | .step, .lend =>
      -- old = swap(SHARED); UNSHARED → a Loan is created
      some { s with flag := true, uaf := s.touch,
                    ths := s.ths.set t ⟨.idle, th.loan || !s.flag⟩ }
    | .step, .shared =>
      some { s with uaf := s.touch, ths := s.ths.set t { th with pc := .idle } }
    | .step, .ldrop =>
      if s.flag then
        some { s with flag := false, uaf := s.touch, lender := .gone,
                      ths := s.ths.set t { th with pc := .idle } }
      else
        some { s with flag := false, uaf := s.touch, ths := s.ths.set t { th with pc := .lfree } }
    | .step, .lfree =>
      some { s with freed := s.freed + 1, lender := .gone, ths := s.ths.set t { th with pc := .idle } }
    | .step, .get =>
      some { s with uaf := s.touch,
                    ths := s.ths.set t { th with pc := if s.flag then .using else .idle } }
    | .step, .using =>
      some { s with uaf := s.touch, ths := s.ths.set t { th with pc := .idle } }
    | .step, .ndrop =>
      if s.flag then
        some { s with flag := false, uaf := s.touch, ths := s.ths.set t ⟨.idle, false⟩ }
      else
        some { s with flag := false, uaf := s.touch, ths := s.ths.set t ⟨.nfree, false⟩ }
    | .step, .nfree =>
      some { s with freed := s.freed + 1, ths := s.ths.set t { th with pc := .idle } }
    | _, _ => none

def exec (s : State) : List (Nat × Op) → Option State
  | [] => some s
  | (t, op) :: as => match step s t op with
    | none => none
    | some s' => exec s' as

def Pc.label : Pc → String
  | .idle => "idle"
  | .lend => "bi.clone"
  | .shared => "bi.get"
  | .ldrop => "bi.drop"
  | .lfree => "bi.free"
  | .get => "bi.load"
  | .using => "use"
  | .ndrop => "bi.drop"
  | .nfree => "bi.free"

end AranyaV.BiArc
