import AranyaV.Gen.ConstsBase58
/-
Model of the text and serde forms of `aranya_id::Id` (crates/aranya-id/src/id.rs) and of the
`spideroak-base58` routines they call (`String32::{encode, decode}`, version pinned by
/repo/Cargo.lock; constants regenerated into `AranyaV.Gen.Base58`).

Two layers:

* **S** — `encode b` = the `b58Size32` (= 44) base-58 digits of the big-endian number `beNat b`,
  written with `ALPHABET`; `decodeSpec s` = "every byte is in the alphabet and the number the
  digits denote is `< 2^256`", result the 32 big-endian bytes of that number.
* **M** — the algorithms the crate uses: `encodeM` strips `RADIX = 58^10` at a time and emits ten
  digits per round (fewer, without leading zeros, in the last round) right-to-left into a buffer
  pre-filled with `'1'`; `decodeM` folds the input ten bytes at a time through the `B58` table
  with `checked_mul/checked_add` on `u64` and `Uint::fma` with its overflow flag.

The 256-bit integer `Uint<4, 32>` is modelled as a `Nat` (`quo_radix` = exact `divMod` by
`RADIX`; `fma` = `x*y + r` with "overflowed" = `≥ 2^256`); the word-level version of `fma`
(`mul_add_ww` with carries) is modelled separately as `fmaWords` and proved equal to it.
The reciprocal division `div_ww` is not modelled below the `divMod` level.

serde: human-readable serializers get the base-58 string, others get `serialize_bytes` of the
32 bytes.  `serde_json` is modelled on plain string documents (`"…"` without escapes — the
harness only sends those plus a few non-string documents); postcard's `deserialize_bytes` is
modelled exactly (LEB128 `usize` length, at most 10 bytes, last byte ≤ 1, then that many bytes).
-/
namespace AranyaV.Base58
open AranyaV.Gen.Base58

/-! ## positional notation (big-endian digit lists) -/

/-- value of a big-endian digit list in base `B` -/
def ofDigits (B : Nat) (ds : List Nat) : Nat := ds.foldl (fun acc d => acc * B + d) 0

/-- the `k` low-order base-`B` digits of `n`, big-endian -/
def toDigits (B : Nat) : Nat → Nat → List Nat
  | 0, _ => []
  | k + 1, n => toDigits B k (n / B) ++ [n % B]

/-- `u64/u256::from_be_bytes` -/
def beNat (bs : List UInt8) : Nat := ofDigits 256 (bs.map UInt8.toNat)

/-- `to_be_bytes` into `k` bytes -/
def beBytes (k n : Nat) : List UInt8 := (toDigits 256 k n).map UInt8.ofNat

/-! ## tables -/

/-- `ALPHABET[d]` -/
def digitChar (d : Nat) : UInt8 := alphabet.getD d 0

/-- `B58[c]` (255 = not a base-58 character) -/
def digitVal (c : UInt8) : Nat := table.getD c.toNat 255

def two256 : Nat := 2 ^ (8 * idLen)
def u64Max : Nat := 2 ^ 64 - 1

/-! ## S layer -/

/-- `Display` / `to_base58` of an id -/
def encode (b : List UInt8) : List UInt8 :=
  (toDigits 58 b58Size32 (beNat b)).map digitChar

inductive Err where
  | badInput | bug
deriving Repr, DecidableEq

def allValid (s : List UInt8) : Bool := s.all (fun c => digitVal c != 255)

/-- the number a base-58 string denotes -/
def value (s : List UInt8) : Nat := ofDigits 58 (s.map digitVal)

/-- `Id::decode` / `FromStr`, specification -/
def decodeSpec (s : List UInt8) : Except Err (List UInt8) :=
  if allValid s && decide (value s < two256) then .ok (beBytes idLen (value s)) else .error .badInput

/-! ## M layer: `String32::encode` -/

/-- `i = i.checked_sub(1).expect(..); dst.data[i] = ALPHABET[(r % 58) as usize]; r /= 58`,
`n` times (`none` = the `expect` panics) -/
def emitN : Nat → Nat → Nat → List UInt8 → Option (Nat × List UInt8)
  | 0, _, i, data => some (i, data)
  | n + 1, r, i, data =>
    if i = 0 then none else emitN n (r / 58) (i - 1) (data.set (i - 1) (digitChar (r % 58)))

/-- the same, `while r > 0` -/
def emitWhile (r i : Nat) (data : List UInt8) : Option (Nat × List UInt8) :=
  if h : r = 0 then some (i, data)
  else if i = 0 then none
  else emitWhile (r / 58) (i - 1) (data.set (i - 1) (digitChar (r % 58)))
termination_by r
decreasing_by exact Nat.div_lt_self (Nat.pos_of_ne_zero h) (by decide)

/-- `while !x.is_zero() { let mut r = x.quo_radix(); … }` -/
def encLoop (x i : Nat) (data : List UInt8) : Option (List UInt8) :=
  if h : x = 0 then some data
  else
    let r := x % radix
    let x' := x / radix
    if x' = 0 then (emitWhile r i data).map (·.2)
    else match emitN group r i data with
      | none => none
      | some (i', data') => encLoop x' i' data'
termination_by x
decreasing_by exact Nat.div_lt_self (Nat.pos_of_ne_zero h) (by decide)

/-- `String32::encode(b).as_bytes()` (`none` = panic) -/
def encodeM (b : List UInt8) : Option (List UInt8) :=
  encLoop (beNat b) b58Size32 (List.replicate b58Size32 (digitChar 0))

/-! ## M layer: `String32::decode` -/

/-- the `try_fold` over one chunk: table lookup, `checked_mul(58)`, `checked_add(v)` on `u64` -/
def chunkFold : Nat → List UInt8 → Except Err Nat
  | acc, [] => .ok acc
  | acc, c :: cs =>
    let v := digitVal c
    if v = 255 then .error .badInput
    else if acc * 58 > u64Max then .error .bug
    else if acc * 58 + v > u64Max then .error .bug
    else chunkFold (acc * 58 + v) cs

/-- `slice.chunks(n)` -/
def chunks {α} (n : Nat) (l : List α) : List (List α) :=
  if h : l = [] ∨ n = 0 then [] else l.take n :: chunks n (l.drop n)
termination_by l.length
decreasing_by
  have : l ≠ [] := fun e => h (Or.inl e)
  have : 0 < l.length := List.length_pos_iff.mpr this
  simp only [List.length_drop]; omega

/-- `x.fma(RADII[chunk.len()], total)` per chunk; `false` (overflow) → `BadInput` -/
def decLoop : Nat → List (List UInt8) → Except Err Nat
  | x, [] => .ok x
  | x, ch :: rest =>
    match chunkFold 0 ch with
    | .error e => .error e
    | .ok t =>
      let x' := x * radii.getD ch.length 0 + t
      if x' ≥ two256 then .error .badInput else decLoop x' rest

/-- `String32::decode(s)` = `Id::decode(s)` -/
def decodeM (s : List UInt8) : Except Err (List UInt8) :=
  match decLoop 0 (chunks chunk s) with
  | .ok x => .ok (beBytes idLen x)
  | .error e => .error e

/-! ## word-level `Uint::fma` -/

/-- `mul_add_ww(x, y, c)` = `(hi, lo)` of `x*y + c` -/
def mulAddWW (x y c : Nat) : Nat × Nat := ((x * y + c) / 2 ^ 64, (x * y + c) % 2 ^ 64)

/-- `for x in &mut self.words { (c, *x) = mul_add_ww(*x, y, c) }` — words little-endian;
returns the new words and the final carry (`fma` reports `c == 0`) -/
def fmaWords : List Nat → Nat → Nat → List Nat × Nat
  | [], _, c => ([], c)
  | w :: ws, y, c =>
    let (hi, lo) := mulAddWW w y c
    let (ws', c') := fmaWords ws y hi
    (lo :: ws', c')

/-- value of little-endian 64-bit words -/
def wordsVal : List Nat → Nat
  | [] => 0
  | w :: ws => w + 2 ^ 64 * wordsVal ws

/-! ## serde -/

/-- `serde_json::to_string(&id)` -/
def serJson (b : List UInt8) : List UInt8 := [34] ++ encode b ++ [34]

/-- bytes allowed inside the plain string documents the model covers: printable ASCII except
`"` and `\` -/
def plainChar (c : UInt8) : Bool := 32 ≤ c.toNat && c.toNat ≤ 126 && c != 34 && c != 92

/-- `serde_json::from_str::<Id>` on a document that is either a plain string or not a string
at all (`none` = error) -/
def deJson (t : List UInt8) : Option (List UInt8) :=
  match t with
  | 34 :: rest =>
    match rest.reverse with
    | 34 :: revBody =>
      let body := revBody.reverse
      if body.all plainChar then
        match decodeM body with
        | .ok b => some b
        | .error _ => none
      else none
    | _ => none
  | _ => none

/-- `postcard::to_allocvec(&id)`: `serialize_bytes` = varint length, then the bytes -/
def serBin (b : List UInt8) : List UInt8 := UInt8.ofNat b.length :: b

/-- postcard `try_take_varint_u64`: at most 10 bytes, 7 bits each, little-endian; the tenth byte
must be ≤ 1.  Returns the value and the remaining input. -/
def varint : Nat → Nat → Nat → List UInt8 → Option (Nat × List UInt8)
  | 0, _, _, _ => none
  | _, _, _, [] => none
  | fuel + 1, i, out, v :: rest =>
    let out := out + (v.toNat % 128) * 2 ^ (7 * i) % 2 ^ 64
    if v.toNat < 128 then
      if i = 9 ∧ v.toNat > 1 then none else some (out, rest)
    else varint fuel (i + 1) out rest

/-- `postcard::take_from_bytes::<Id>`: `deserialize_bytes` → `visit_bytes` (length must be 32) -/
def deBin (w : List UInt8) : Option (List UInt8 × List UInt8) :=
  match varint 10 0 0 w with
  | none => none
  | some (n, rest) =>
    if rest.length < n then none
    else if n ≠ idLen then none
    else some (rest.take n, rest.drop n)

/-- `IdVisitor::visit_seq` over a sequence of `u8` (a non-human-readable deserializer that
answers `deserialize_bytes` with a sequence): needs `idLen` elements, ignores the rest -/
def deSeq (w : List UInt8) : Option (List UInt8) :=
  if w.length < idLen then none else some (w.take idLen)

end AranyaV.Base58
