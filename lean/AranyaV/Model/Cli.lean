import AranyaV.Gen.CliMain
/-!
# Model of the policy-compiler CLI's `main` (C31)

`crates/aranya-policy-compiler/src/bin/policy-compiler/main.rs::main`, control flow only.
Everything the environment or the library decides is an input bit:

* `readOk`      — `std::fs::read_to_string(&args.file)` succeeded (else `.expect` panics),
* `parseOk`     — `parse_policy_document` returned `Ok`,
* `compileOk`   — `Compiler::compile` returned `Ok`,
* `validateRet` — the raw `bool` returned by `validate(&module)`,
* `noValidate`, `stubFfi` — the command-line flags,
* `createOk`    — `File::create(out_path)` and `ciborium::into_writer` succeeded (else `.expect` panics).

Whether `main` negates `validate`'s result is *not* written here: it comes from
`AranyaV.Gen.CliMain` (`guardNegated`), regenerated from the Rust source on every run.  What `true`
means for `validate` (`validateTrueMeansFailed`) is the library's contract — asserted by its own tests
and checked semantically on every run by the harness (`vparts` requests: the real `validate` on
modules whose first / a middle / the last label fails while the others pass, and on modules whose
labels all pass).  `cliWith` is the model for an arbitrary guard polarity, `cli` the instance for the
current tree.
-/
namespace AranyaV.Cli

structure Input where
  readOk : Bool
  parseOk : Bool
  compileOk : Bool
  validateRet : Bool
  noValidate : Bool
  stubFfi : Bool
  createOk : Bool
deriving Repr, DecidableEq

/-- process exit: `ExitCode::SUCCESS` (0), `ExitCode::FAILURE` (1), or an `.expect` panic (101) -/
inductive Exit where
  | success | failure | crash
deriving Repr, DecidableEq

structure Outcome where
  exit : Exit
  /-- a module was written to the output file -/
  wrote : Bool
deriving Repr, DecidableEq

/-- `main` with the reject-guard `!args.no_validate && (if neg then !validate(..) else validate(..))` -/
def cliWith (neg : Bool) (a : Input) : Outcome :=
  if !a.readOk then ⟨.crash, false⟩            -- .expect("could not read input file")
  else if !a.parseOk then ⟨.failure, false⟩    -- Err(e) => { println!; return FAILURE }
  else if !a.compileOk then ⟨.failure, false⟩  -- Err(e) => { println!; return FAILURE }
  else if !a.noValidate && (if neg then !a.validateRet else a.validateRet) then ⟨.failure, false⟩
  else if a.stubFfi then ⟨.success, false⟩     -- "Not creating output file with --stub-ffi"
  else if !a.createOk then ⟨.crash, false⟩     -- .expect("could not open output file")
  else ⟨.success, true⟩

/-- the CLI of the current source tree -/
def cli (a : Input) : Outcome := cliWith Gen.CliMain.guardNegated a

/-- contract of `aranya_policy_compiler::validate::validate`: it returns `true` iff at least one label
of the module has a trace failure (library tests: `assert!(validate(&m))` for invalid policies,
`assert!(!validate(&m))` for valid ones).  Tied by the harness, not by source patterns. -/
def validateTrueMeansFailed : Bool := true

/-- `validate` on a module whose labels have these per-label verdicts (`true` = that label has a trace
failure): any failing label — first, middle or last — makes the module fail -/
def validateOfWith (tmf : Bool) (labelFails : List Bool) : Bool := labelFails.any id == tmf
def validateOf (labelFails : List Bool) : Bool := validateOfWith validateTrueMeansFailed labelFails

/-- the library's verdict "validation failed", given the polarity of `validate`'s return value -/
def failedWith (tmf : Bool) (a : Input) : Bool := a.validateRet == tmf

def validateFailed (a : Input) : Bool := failedWith validateTrueMeansFailed a

def Exit.code : Exit → Nat
  | .success => 0 | .failure => 1 | .crash => 101

end AranyaV.Cli
