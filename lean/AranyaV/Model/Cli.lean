import AranyaV.Gen.CliMain
/-!
# Model of the policy-compiler CLI's `main` (C31)

`crates/aranya-policy-compiler/src/bin/policy-compiler/main.rs::main`, control flow only.
Everything the environment or the library decides is an input bit:

* `readOk`      — `std::fs::read_to_string(&args.file)` succeeded (else `.expect` panics),
* `parseOk`     — `parse_policy_document` returned `Ok`,
* `compileOk`   — `Compiler::compile` returned `Ok`,
* `validateRet` — the raw `bool` returned by `validate(&module)`,
* `noValidate`, `stubFfi` — the command-line flags,
* `createOk`    — `File::create(out_path)` and `ciborium::into_writer` succeeded (else `.expect` panics).

The two facts the property hinges on — whether `main` negates `validate`'s result and what
`true` means for `validate` — are *not* written here: they come from `AranyaV.Gen.CliMain`,
regenerated from the Rust source on every run.  `cliWith` is the model for an arbitrary guard
polarity, `cli` the instance for the current tree.
-/
namespace AranyaV.Cli

structure Input where
  readOk : Bool
  parseOk : Bool
  compileOk : Bool
  validateRet : Bool
  noValidate : Bool
  stubFfi : Bool
  createOk : Bool
deriving Repr, DecidableEq

/-- process exit: `ExitCode::SUCCESS` (0), `ExitCode::FAILURE` (1), or an `.expect` panic (101) -/
inductive Exit where
  | success | failure | crash
deriving Repr, DecidableEq

structure Outcome where
  exit : Exit
  /-- a module was written to the output file -/
  wrote : Bool
deriving Repr, DecidableEq

/-- `main` with the reject-guard `!args.no_validate && (if neg then !validate(..) else validate(..))` -/
def cliWith (neg : Bool) (a : Input) : Outcome :=
  if !a.readOk then ⟨.crash, false⟩            -- .expect("could not read input file")
  else if !a.parseOk then ⟨.failure, false⟩    -- Err(e) => { println!; return FAILURE }
  else if !a.compileOk then ⟨.failure, false⟩  -- Err(e) => { println!; return FAILURE }
  else if !a.noValidate && (if neg then !a.validateRet else a.validateRet) then ⟨.failure, false⟩
  else if a.stubFfi then ⟨.success, false⟩     -- "Not creating output file with --stub-ffi"
  else if !a.createOk then ⟨.crash, false⟩     -- .expect("could not open output file")
  else ⟨.success, true⟩

/-- the CLI of the current source tree -/
def cli (a : Input) : Outcome := cliWith Gen.CliMain.guardNegated a

/-- the library's verdict "validation failed", given the polarity of `validate`'s return value -/
def failedWith (tmf : Bool) (a : Input) : Bool := a.validateRet == tmf

def validateFailed (a : Input) : Bool := failedWith Gen.CliMain.validateTrueMeansFailed a

def Exit.code : Exit → Nat
  | .success => 0 | .failure => 1 | .crash => 101

end AranyaV.Cli
