/-
Model of `aranya_runtime::storage::TraversalQueue` (crates/aranya-runtime/src/storage/mod.rs).

The Rust structure is `entries : Vec<Location>` + `partition : usize`, with the uncovered
entries at indexes `< partition` and the covered ones at and above it; every move between
the two regions is a swap across the boundary.  The model keeps the two regions as two
lists (`unc`, `cov`).  Every *observable* result of the Rust API (the value popped, the
covered flag, the multiset of drained locations, `all_covered`, `is_empty`) is a function of
those two multisets, except for the choice of "first entry of a segment" when a segment
occurs more than once, which only happens when `push_duplicate` is mixed with the
deduplicating pushes on the same segment (neither call site does so; the correspondence
harness keeps the two on disjoint segments).

`Location`'s derived `Ord` is lexicographic on `(max_cut, segment)` (field order), which is
what `Loc.ble` implements.  `Iterator::max_by_key` returns the *last* maximum, i.e. the one
with the highest index: a covered copy wins over an uncovered copy of an equal location.
-/
namespace AranyaV.Queue

structure Loc where
  mc  : Nat
  seg : Nat
deriving DecidableEq, Repr, Inhabited

/-- derived `Ord` on `Location { max_cut, segment }` -/
def Loc.ble (a b : Loc) : Bool := a.mc < b.mc || (a.mc == b.mc && a.seg ≤ b.seg)

structure Queue where
  unc : List Loc := []
  cov : List Loc := []
deriving Repr, DecidableEq, Inhabited

def Queue.all (q : Queue) : List Loc := q.unc ++ q.cov

def Queue.new : Queue := {}
def Queue.clear (_ : Queue) : Queue := {}
def Queue.isEmpty (q : Queue) : Bool := q.all.isEmpty
def Queue.allCovered (q : Queue) : Bool := q.unc.isEmpty

/-- maximum of a list under `Loc.ble` -/
def maxLoc : List Loc → Option Loc
  | [] => none
  | x :: xs => match maxLoc xs with
    | none => some x
    | some m => if x.ble m then some m else some x

/-- erase the first element satisfying `p` -/
def eraseFirst (p : Loc → Bool) : List Loc → List Loc
  | [] => []
  | x :: xs => if p x then xs else x :: eraseFirst p xs

/-- replace the first element satisfying `p` by `f` of it -/
def updFirst (p : Loc → Bool) (f : Loc → Loc) : List Loc → List Loc
  | [] => []
  | x :: xs => if p x then f x :: xs else x :: updFirst p f xs

def sameSeg (s : Nat) (x : Loc) : Bool := x.seg == s

/-- `push_covered` -/
def Queue.pushCovered (q : Queue) (loc : Loc) (covered : Bool) : Queue :=
  match q.unc.find? (sameSeg loc.seg) with
  | some e =>
    -- entry found in the uncovered region
    if loc.mc > e.mc then
      if covered then
        { unc := eraseFirst (sameSeg loc.seg) q.unc, cov := q.cov ++ [⟨loc.mc, e.seg⟩] }
      else
        { q with unc := updFirst (sameSeg loc.seg) (fun x => ⟨loc.mc, x.seg⟩) q.unc }
    else if loc.mc == e.mc then
      if covered then
        { unc := eraseFirst (sameSeg loc.seg) q.unc, cov := q.cov ++ [e] }
      else q
    else q
  | none =>
    match q.cov.find? (sameSeg loc.seg) with
    | some e =>
      if loc.mc > e.mc then
        if covered then
          { q with cov := updFirst (sameSeg loc.seg) (fun x => ⟨loc.mc, x.seg⟩) q.cov }
        else
          { unc := q.unc ++ [⟨loc.mc, e.seg⟩], cov := eraseFirst (sameSeg loc.seg) q.cov }
      else q
    | none =>
      if covered then { q with cov := q.cov ++ [loc] } else { q with unc := q.unc ++ [loc] }

def Queue.push (q : Queue) (loc : Loc) : Queue := q.pushCovered loc false

/-- `push_duplicate` -/
def Queue.pushDuplicate (q : Queue) (loc : Loc) : Queue := { q with unc := q.unc ++ [loc] }

/-- `peek` -/
def Queue.peek (q : Queue) : Option Loc := maxLoc q.all

/-- `pop_covered`: the covered copy wins a tie (last maximum in index order). -/
def Queue.popCovered (q : Queue) : Option (Loc × Bool) × Queue :=
  match maxLoc q.all with
  | none => (none, q)
  | some m =>
    if q.cov.contains m then (some (m, true), { q with cov := q.cov.erase m })
    else (some (m, false), { q with unc := q.unc.erase m })

def Queue.pop (q : Queue) : Option Loc × Queue :=
  let (r, q') := q.popCovered
  (r.map (·.1), q')

/-- `pop_duplicates` -/
def Queue.popDuplicates (q : Queue) : Option (Loc × Nat) × Queue :=
  match maxLoc q.all with
  | none => (none, q)
  | some m =>
    (some (m, q.all.count m), { unc := q.unc.filter (· != m), cov := q.cov.filter (· != m) })

/-- `drain_above`: returns the emitted (uncovered, above threshold) locations -/
def Queue.drainAbove (q : Queue) (thr : Nat) : List Loc × Queue :=
  (q.unc.filter (fun x => x.mc > thr),
   { unc := q.unc.filter (fun x => !(x.mc > thr)), cov := q.cov.filter (fun x => !(x.mc > thr)) })

/-- `drain_all` -/
def Queue.drainAll (q : Queue) : List Loc × Queue := (q.unc, {})

/-- `cover_up_to(segment, coverage_mc, longest_mc)` -/
def Queue.coverUpTo (q : Queue) (seg cmc lmc : Nat) : Queue :=
  match q.unc.find? (sameSeg seg) with
  | none => q
  | some e =>
    if cmc ≥ lmc then
      { unc := eraseFirst (sameSeg seg) q.unc, cov := q.cov ++ [e] }
    else if cmc ≥ e.mc then
      { q with unc := updFirst (sameSeg seg) (fun x => ⟨cmc + 1, x.seg⟩) q.unc }
    else q

/-! ### operations as data (for induction over operation sequences and for the driver) -/

inductive Op where
  | push (l : Loc)
  | pushCovered (l : Loc) (c : Bool)
  | pushDuplicate (l : Loc)
  | pop
  | popCovered
  | popDuplicates
  | drainAbove (thr : Nat)
  | drainAll
  | coverUpTo (seg cmc lmc : Nat)
  | clear
deriving Repr

def Queue.apply (q : Queue) : Op → Queue
  | .push l => q.push l
  | .pushCovered l c => q.pushCovered l c
  | .pushDuplicate l => q.pushDuplicate l
  | .pop => q.pop.2
  | .popCovered => q.popCovered.2
  | .popDuplicates => q.popDuplicates.2
  | .drainAbove t => (q.drainAbove t).2
  | .drainAll => q.drainAll.2
  | .coverUpTo s c l => q.coverUpTo s c l
  | .clear => q.clear

def Op.isDup : Op → Bool
  | .pushDuplicate _ => true
  | _ => false

end AranyaV.Queue
