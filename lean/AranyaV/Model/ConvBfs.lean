import AranyaV.Model.Segments
/-!
# Model.ConvBfs — the duplicate-counting BFS of `client/convergence_map.rs`

`ConvergenceMap::new` seeds the traversal queue with every head (`push_duplicate`);
`advance_to(target_max_cut)` repeatedly looks at the maximum of the queue (`peek`; locations are
ordered by `(max_cut, segment)`), stops when its max cut is below the target, otherwise removes
*all* copies of it (`pop_duplicates`, which also says how many there were), ignores it when it is
at or below the cut (`loc.max_cut <= lca.max_cut`), records an entry `(loc, count)` when
`count >= 2`, and pushes the previous command of the segment, or every prior of the segment for
its first command (`push_duplicate` again).

The queue is C21's `Queue` (only `push_duplicate`/`peek`/`pop_duplicates` are used here, so the
covered region stays empty).  `popped` is a ghost field (the order in which locations left the
queue); `entries` lists the `insert_entry` calls (the block store that receives them is
`Model.ConvMap`).
-/
namespace AranyaV.Segments
open AranyaV.Queue (Loc Queue)

structure Bfs where
  q : Queue
  popped : List Loc
  entries : List (Loc × Nat)
deriving Repr

/-- `ConvergenceMap::new` -/
def Bfs.init (heads : List Loc) : Bfs :=
  { q := heads.foldl Queue.pushDuplicate Queue.new, popped := [], entries := [] }

/-- "Expand priors": `segment.previous(loc)` or every prior -/
def expandPriors (s : Store) (q : Queue) (loc : Loc) : Except Err Queue :=
  match s.seg? loc.seg with
  | none => .error .segmentOutOfBounds
  | some _ => .ok ((s.parents loc).foldl Queue.pushDuplicate q)

/-- `advance_to` -/
def advanceTo (s : Store) (cut target : Nat) : Nat → Bfs → Except Err Bfs
  | 0, _ => .error .fuel
  | n + 1, b =>
    match b.q.peek with
    | none => .ok b
    | some top =>
      if top.mc < target then .ok b
      else
        match b.q.popDuplicates with
        | (none, _) => .error .bug
        | (some (loc, count), q') =>
          if loc.mc ≤ cut then
            advanceTo s cut target n { b with q := q', popped := loc :: b.popped }
          else
            let entries := if 2 ≤ count then (loc, count) :: b.entries else b.entries
            match expandPriors s q' loc with
            | .error e => .error e
            | .ok q'' => advanceTo s cut target n { q := q'', popped := loc :: b.popped, entries := entries }

end AranyaV.Segments
