import AranyaV.Model.FactKey
/-!
# `Module` ⇄ `Machine` (C28)

`aranya_policy_module::ModuleV0` (crates/aranya-policy-module/src/module.rs) stores the
definition tables (`action_defs`, `command_defs`, `fact_defs`, `struct_defs`, `enum_defs`) as
`Vec`s; `Machine::from_module` (crates/aranya-policy-vm/src/machine.rs) collects each of them into
an `AutoMap` — a `BTreeMap` keyed by the definition's name
(crates/aranya-policy-module/src/automap.rs) — and copies `progmem`, `labels`, `codemap`,
`globals` unchanged.  The compiler's `CompileTarget::into_module`
(crates/aranya-policy-compiler/src/compile/target.rs) writes the tables out of name-keyed maps.

Model: a table is a list of `(name, definition)`; an `AutoMap` is such a list kept strictly sorted
by name (byte order of the identifier, `blt`); collecting inserts left to right (a later
definition with the same name replaces the earlier one).  Everything that is copied unchanged is
one opaque component `rest`.
-/
namespace AranyaV.Module
open AranyaV.FactKey

/-- a definition table as stored in a `Module` -/
abbrev Table (α : Type) := List (Bytes × α)

/-- `BTreeMap::insert` on a list sorted by `blt` -/
def ins {α : Type} (k : Bytes) (v : α) : Table α → Table α
  | [] => [(k, v)]
  | (k', v') :: rest =>
    if blt k k' then (k, v) :: (k', v') :: rest
    else if k = k' then (k, v) :: rest
    else (k', v') :: ins k v rest

/-- `iter.collect::<AutoMap<_>>()` -/
def collect {α : Type} (t : Table α) : Table α := t.foldl (fun acc kv => ins kv.1 kv.2 acc) []

/-- `AutoMap::get` -/
def get {α : Type} (k : Bytes) : Table α → Option α
  | [] => none
  | (k', v) :: rest => if k = k' then some v else get k rest

/-- the five tables, and everything that is copied unchanged -/
structure Module (A C F S E R : Type) where
  actions : Table A
  commands : Table C
  facts : Table F
  structs : Table S
  enums : Table E
  rest : R

/-- `Machine`: same components, the tables being `AutoMap`s -/
structure Machine (A C F S E R : Type) where
  actions : Table A
  commands : Table C
  facts : Table F
  structs : Table S
  enums : Table E
  rest : R

/-- `Machine::from_module` -/
def Machine.fromModule {A C F S E R : Type} (m : Module A C F S E R) : Machine A C F S E R :=
  ⟨collect m.actions, collect m.commands, collect m.facts, collect m.structs, collect m.enums, m.rest⟩

/-- writing a machine's tables back out in map order (what `into_module` does with its maps) -/
def Machine.intoModule {A C F S E R : Type} (m : Machine A C F S E R) : Module A C F S E R :=
  ⟨m.actions, m.commands, m.facts, m.structs, m.enums, m.rest⟩

end AranyaV.Module
