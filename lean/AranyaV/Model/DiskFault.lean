import AranyaV.Model.Disk
/-!
# Model.DiskFault — I/O errors and short files (C15)

**I/O errors.**  Every I/O call of the writer (`write_all`, `fdatasync`, `fallocate`, the `fsync`
inside `File::fallocate`) may fail; the adversary chooses, per storage call, the index `idx` of the
failing I/O call within the call's op stream and, for a failing `write_all`, how many leading
bytes `keep` were written before the error (the `pwrite` loop writes front to back).  A failing
barrier makes nothing durable and reports an error; whatever was issued stays pending (it may
still reach the medium later or at a crash).  Not modelled: a kernel that drops dirty pages after
a failed `fsync` and lets a later `fsync` succeed without them.

`appendAtF` / `commitF` transliterate where each `?` of `imp.rs` returns: which in-memory fields
of the `Writer` were already updated when the error propagates (`alloc_end` only after
`fallocate`+`fsync` returned; `free_offset`, `data_dirty` only after both `pwrite`s;
`heads`/`fact_cache` after the head-set append; `generation`/`checksum` before the root `pwrite`s;
`next_root` only after the final barrier).

**Short files.**  `loadRootSz` is `File::load` on a file of `size` bytes: `read_exact` fails when the
range is not inside the file, and `Writer::open` treats that like an invalid root.
-/
namespace AranyaV.Disk
open AranyaV.Wire

/-- the adversary's choice for one storage call: index of the failing I/O call in the call's
fault-free op stream (no failure if `idx` is not smaller than its length), and the number of bytes
a failing `write_all` still wrote -/
structure Fault where
  idx : Nat
  keep : Nat
  deriving Repr, DecidableEq

/-- the op stream up to and including the failing I/O call -/
def cutOps (ops : List Op) (f : Fault) : List Op :=
  ops.take f.idx ++
    (match ops[f.idx]? with
     | some (.write off b) => [.write off (b.take f.keep), .failed]
     | some _ => [.failed]
     | none => [])

/-- `append_at` with an injected failure: (writer afterwards, ops issued, returned `Ok`?) -/
def Writer.appendAtF (L : Layout) (w : Writer) (bytes : Bytes) (f : Fault) : Writer × List Op × Bool :=
  let r := w.appendAt L bytes
  let g := w.ensureCapacity L (w.root.free.toNat + lenPrefixLen + bytes.length)
  if r.2.2.length ≤ f.idx then (r.1, r.2.2, true)
  else if f.idx < g.2.length then (w, cutOps r.2.2 f, false)
  else (g.1, cutOps r.2.2 f, false)

/-- `commit` with an injected failure -/
def Writer.commitF (L : Layout) (ck : Checksum) (w : Writer) (heads : Bytes) (fact : Nat) (f : Fault) :
    Writer × List Op × Bool :=
  let a := w.appendAt L heads
  let full := w.commit L ck heads fact
  let w2 : Writer := { a.1 with root := { a.1.root with heads := some a.2.1, fact := some fact } }
  if full.2.length ≤ f.idx then (full.1, full.2, true)
  else if f.idx < a.2.2.length then ((w.appendAtF L heads f).1, cutOps full.2 f, false)
  else if f.idx = a.2.2.length then (w2, cutOps full.2 f, false)
  else ({ w2 with root := full.1.root, dataDirty := false }, cutOps full.2 f, false)

/-- a storage call with the adversary's choice -/
def Writer.stepF (L : Layout) (ck : Checksum) (w : Writer) (c : Call) (f : Fault) : Writer × List Op × Bool :=
  match c with
  | .append bytes _ => w.appendAtF L bytes f
  | .commit heads _ fact => w.commitF L ck heads fact f

/-- op stream of a list of calls with faults -/
def traceF (L : Layout) (ck : Checksum) (w : Writer) : List (Call × Fault) → List Op
  | [] => []
  | (c, f) :: cs => (w.stepF L ck c f).2.1 ++ traceF L ck (w.stepF L ck c f).1 cs

/-! ## short files -/

/-- `File::load::<Root>` on a file of `size` bytes -/
def loadRootSz (img : Img) (size off : Nat) : Option Root :=
  if off + 4 ≤ size ∧ off + 4 + lenAt img off ≤ size then loadRoot img off else none

def loadValidSz (ck : Checksum) (img : Img) (size off : Nat) : Option Root :=
  match loadRootSz img size off with
  | some r => if r.valid ck then some r else none
  | none => none

/-- `Writer::open` on a file of `size` bytes -/
def Writer.openSz (L : Layout) (ck : Checksum) (img : Img) (size : Nat) : Option Writer :=
  let mk (r : Root) (chosen : Nat) : Writer :=
    { root := r, allocEnd := r.free.toNat, nextRoot := L.other chosen, dataDirty := false }
  match loadValidSz ck img size L.rootA, loadValidSz ck img size L.rootB with
  | some a, some b => if a.gen < b.gen then some (mk b L.rootB) else some (mk a L.rootA)
  | some a, none => some (mk a L.rootA)
  | none, some b => some (mk b L.rootB)
  | none, none => none

end AranyaV.Disk
