import AranyaV.Gen.ConstsBraid
/-!
# Model.ConvMap — the block store of `client/convergence_map.rs`

`ConvergenceMap` keeps its entries (location → remaining arrival count) in `NUM_BLOCKS` in-memory
blocks of at most `BLOCK_ENTRIES` entries; when the active block is full the least recently
accessed block is written to the spill file and a root-index entry `(min_max_cut, max_max_cut)` is
appended; `should_continue` looks the location up in memory and then in every spilled block whose
range contains the location's max cut, loading such a block back (which evicts the LRU block).

Model: a location is a key `key : Nat` with its `mc` (max cut); a block is its recorded range, its
entries and `last_accessed`; the root index and the spill file together are the list `root` of
spilled blocks (`Vec::swap_remove`/`push` on the root index are modelled exactly: that order is
what the scan's termination depends on).  The BFS (`advance_to`) is not part of this model.

* `scanRev` — the disk scan **after the fix**: from the last root entry down to the first.
* `scanFwd` — the scan as it was (index `ri` from 0, not incremented after a load), with fuel, kept
  to exhibit the non-termination.
-/
namespace AranyaV.ConvMap
open AranyaV.Gen

structure Entry where
  key : Nat
  mc : Nat
  count : Nat
deriving DecidableEq, Repr

structure Block where
  lo : Nat
  hi : Nat
  entries : List Entry
  last : Nat
deriving DecidableEq, Repr

/-- `MaxCut::new(u64::MAX)` -/
def bigCut : Nat := 2 ^ 64 - 1

/-- `Block::new` / `Block::clear` -/
def Block.empty : Block := { lo := bigCut, hi := 0, entries := [], last := 0 }

/-- `Block::insert` -/
def Block.insert (b : Block) (e : Entry) : Block :=
  { b with lo := min b.lo e.mc, hi := max b.hi e.mc, entries := b.entries ++ [e] }

/-- `Block::load_from_bytes` -/
def Block.ofEntries (es : List Entry) : Block := es.foldl Block.insert Block.empty

inductive Err where
  | rootOverflow
  | bug
deriving DecidableEq, Repr

structure CMap where
  mem : List Block
  root : List Block
  active : Nat
  counter : Nat
deriving DecidableEq, Repr

/-- `Vec::swap_remove(i)`: the last element takes the place of the removed one -/
def swapRemove {α : Type} (l : List α) (i : Nat) : List α :=
  match l.drop (i + 1) with
  | [] => l.take i
  | x :: rest => l.take i ++ (x :: rest).getLast (by simp) :: (x :: rest).dropLast

/-- `lru_block`: index of the first block with the smallest `last_accessed` -/
def lruGo : List Block → Nat → Nat → Nat → Nat
  | [], _, best, _ => best
  | b :: bs, i, best, bestLast =>
    if b.last < bestLast then lruGo bs (i + 1) i b.last else lruGo bs (i + 1) best bestLast

def lru (mem : List Block) : Nat :=
  match mem with
  | [] => 0
  | b :: bs => lruGo bs 1 0 b.last

/-- `spill_lru` -/
def spillLru (cap : Nat) (m : CMap) : Except Err CMap :=
  let i := lru m.mem
  match m.mem[i]? with
  | none => .error .bug
  | some b =>
    if b.entries = [] then .ok { m with active := i }
    else if cap ≤ m.root.length then .error .rootOverflow
    else .ok { m with root := m.root ++ [b], mem := m.mem.set i Block.empty, active := i }

/-- `load_block_from_disk` -/
def loadBlock (cap : Nat) (m : CMap) (ri : Nat) : Except Err (CMap × Nat) :=
  match m.root[ri]? with
  | none => .error .bug
  | some node =>
    let loaded := { (Block.ofEntries node.entries) with last := m.counter }
    match spillLru cap { m with root := swapRemove m.root ri } with
    | .error e => .error e
    | .ok m2 => .ok ({ m2 with mem := m2.mem.set m2.active loaded }, m2.active)

/-- `Block::find` -/
def findIn : List Entry → Nat → Option Nat
  | [], _ => none
  | e :: es, key => if e.key == key then some 0 else (findIn es key).map (· + 1)

/-- `find_in_memory` -/
def findMemGo : List Block → Nat → Nat → Option (Nat × Nat)
  | [], _, _ => none
  | b :: bs, i, key =>
    match findIn b.entries key with
    | some ei => some (i, ei)
    | none => findMemGo bs (i + 1) key

def findMem (mem : List Block) (key : Nat) : Option (Nat × Nat) := findMemGo mem 0 key

/-- `consume_entry` -/
def consume (m : CMap) (bi ei : Nat) : CMap × Bool :=
  match m.mem[bi]? with
  | none => (m, true)
  | some b =>
    match b.entries[ei]? with
    | none => (m, true)
    | some e =>
      if e.count > 1 then
        let e' : Entry := { e with count := e.count - 1 }
        let b' : Block := { b with last := m.counter, entries := b.entries.set ei e' }
        ({ m with mem := m.mem.set bi b' }, false)
      else
        let b' : Block := { b with last := m.counter, entries := swapRemove b.entries ei }
        ({ m with mem := m.mem.set bi b' }, true)

def inRange (node : Block) (mc : Nat) : Bool := decide (node.lo ≤ mc) && decide (mc ≤ node.hi)

/-- the disk scan of `should_continue` after the fix: root indices `i-1, i-2, …, 0` -/
def scanRev (cap key mc : Nat) : Nat → CMap → Except Err (CMap × Bool)
  | 0, m => .ok (m, true)
  | i + 1, m =>
    match m.root[i]? with
    | none => scanRev cap key mc i m
    | some node =>
      if inRange node mc then
        match loadBlock cap m i with
        | .error e => .error e
        | .ok (m', bi) =>
          match (m'.mem[bi]?).bind (fun b => findIn b.entries key) with
          | some ei => .ok (consume m' bi ei)
          | none => scanRev cap key mc i m'
      else scanRev cap key mc i m

/-- `should_continue` (after `advance_to`) -/
def shouldContinue (cap : Nat) (m : CMap) (key mc : Nat) : Except Err (CMap × Bool) :=
  let m := { m with counter := m.counter + 1 }
  match findMem m.mem key with
  | some (bi, ei) => .ok (consume m bi ei)
  | none => scanRev cap key mc m.root.length m

/-- the disk scan as it was before the fix (`ri` is not incremented after a load, because
`swap_remove` moved another entry to `ri`); `none` = fuel exhausted -/
def scanFwd (cap key mc : Nat) : Nat → Nat → CMap → Except Err (Option (CMap × Bool))
  | 0, _, _ => .ok none
  | fuel + 1, ri, m =>
    match m.root[ri]? with
    | none => .ok (some (m, true))
    | some node =>
      if inRange node mc then
        match loadBlock cap m ri with
        | .error e => .error e
        | .ok (m', bi) =>
          match (m'.mem[bi]?).bind (fun b => findIn b.entries key) with
          | some ei => .ok (some (consume m' bi ei))
          | none => scanFwd cap key mc fuel ri m'
      else scanFwd cap key mc fuel (ri + 1) m

end AranyaV.ConvMap
