/-!
# Model.Wire — the postcard wire primitives (import-free)

Shared by C26 (`aranya-policy-vm/src/serialize.rs`, which calls `postcard-core`) and C18
(sync messages, serde + `postcard`).  Both crates contain the *same* varint loops
(`postcard-core/src/{de,ser,varint}.rs`, `postcard/src/de/deserializer.rs`):

```text
fn try_take_u64(f) {                       fn varint_u64(n, out) {
  let mut out = 0;                           let mut value = n;
  for i in 0..varint_max::<u64>() {          for i in 0..varint_max::<u64>() {
    let val = f.pop()?;                        out[i] = value.to_le_bytes()[0];
    out |= ((val & 0x7F) as u64) << (7*i);     if value < 128 { return &mut out[..=i]; }
    if val & 0x80 == 0 {                       out[i] |= 0x80;
      if i == varint_max-1 && val > max_of_last_byte { break /* bad */ }   value >>= 7;
      else { return Some(out) }              }
    }                                        &mut out[..]
  }                                        }
  None /* bad */ }
```

Modelling decisions (all covered by the differential tie, none by assumption in a theorem):
* integers are `Nat`; `out |= carry << 7*i` is written in the equivalent recursive form
  `low7 + 128 * rest` (the or-ed bit ranges are disjoint).  No wrap-around can be observed in an
  accepted value: the last byte is only accepted when it is `≤ max_of_last_byte`
  (`varintDec_lt` proves every accepted value is `< 2^bits`);
* the `for i in 0..varint_max` loop is the structural fuel `k` (remaining iterations);
* zig-zag is the arithmetic function on `Int` (`2x` / `-2x-1`), the bit-twiddling
  `(n << 1) ^ (n >> 63)` agrees with it on the `i64` range;
* `core::str::from_utf8` is modelled by `validUtf8` (Unicode 15 table 3-7, well-formed UTF-8
  byte sequences).
-/
namespace AranyaV.Wire

/-- the two ways a primitive read fails: input exhausted (`pop`/`try_take_n` failed), or the
bytes are present but not a valid encoding -/
inductive Err
  | eof
  | bad
  deriving DecidableEq, Repr, Inhabited

abbrev Bytes := List UInt8

/-- `varint_max::<T>()` for a `bits`-bit integer type -/
def varintMax (bits : Nat) : Nat := (bits + 6) / 7

/-- `max_of_last_byte::<T>()` -/
def maxOfLastByte (bits : Nat) : Nat := 2 ^ (bits % 7) - 1

/-- body of `varint_uN`: `k` = remaining loop iterations -/
def varintEncLoop : Nat → Nat → Bytes
  | 0, _ => []
  | k + 1, n =>
    if n < 128 then [UInt8.ofNat n]
    else UInt8.ofNat (n % 128 + 128) :: varintEncLoop k (n / 128)

/-- `varint_u16/u32/u64/usize` -/
def varintEnc (bits n : Nat) : Bytes := varintEncLoop (varintMax bits) n

/-- body of `try_take_uN`: `k` = remaining loop iterations, `lastMax = max_of_last_byte`.
Loop exhausted (continuation bit on the last byte) or an over-large last byte ⇒ `bad`;
`pop` on empty input ⇒ `eof`. -/
def varintDecLoop (lastMax : Nat) : Nat → Bytes → Except Err (Nat × Bytes)
  | 0, _ => .error .bad
  | _ + 1, [] => .error .eof
  | k + 1, b :: bs =>
    if b.toNat < 128 then
      if k = 0 ∧ b.toNat > lastMax then .error .bad else .ok (b.toNat, bs)
    else
      match varintDecLoop lastMax k bs with
      | .ok (hi, rest) => .ok (b.toNat % 128 + 128 * hi, rest)
      | .error e => .error e

/-- `try_take_u16/u32/u64/usize` -/
def varintDec (bits : Nat) (bs : Bytes) : Except Err (Nat × Bytes) :=
  varintDecLoop (maxOfLastByte bits) (varintMax bits) bs

/-- `zig_zag_i64` on the mathematical integers -/
def zigzag (x : Int) : Nat := if 0 ≤ x then (2 * x).toNat else (-2 * x - 1).toNat

/-- `de_zig_zag_i64` -/
def unzigzag (n : Nat) : Int := if n % 2 = 0 then ((n / 2 : Nat) : Int) else -((n / 2 : Nat) : Int) - 1

/-- `i64` range -/
def inI64 (x : Int) : Prop := -(2 : Int) ^ 63 ≤ x ∧ x < (2 : Int) ^ 63

instance (x : Int) : Decidable (inI64 x) := by unfold inI64; exact inferInstance

def i64Enc (x : Int) : Bytes := varintEnc 64 (zigzag x)

def i64Dec (bs : Bytes) : Except Err (Int × Bytes) :=
  match varintDec 64 bs with
  | .ok (n, rest) => .ok (unzigzag n, rest)
  | .error e => .error e

/-- `Flavor::try_take_n` on a slice -/
def takeN (n : Nat) (bs : Bytes) : Except Err (Bytes × Bytes) :=
  if n ≤ bs.length then .ok (bs.take n, bs.drop n) else .error .eof

/-- `Flavor::pop` -/
def pop : Bytes → Except Err (UInt8 × Bytes)
  | [] => .error .eof
  | b :: bs => .ok (b, bs)

/-- `try_push_bytes`: `varint(usize)` length then the bytes -/
def bytesEnc (b : Bytes) : Bytes := varintEnc 64 b.length ++ b

/-- `try_take_bytes` -/
def bytesDec (bs : Bytes) : Except Err (Bytes × Bytes) :=
  match varintDec 64 bs with
  | .ok (n, rest) => takeN n rest
  | .error e => .error e

/-- `try_take_bool` / `deserialize_bool` -/
def boolDec : Bytes → Except Err (Bool × Bytes)
  | [] => .error .eof
  | b :: bs => if b = 0 then .ok (false, bs) else if b = 1 then .ok (true, bs) else .error .bad

def boolEnc (b : Bool) : Bytes := [if b then 1 else 0]

/-! ## UTF-8 well-formedness (what `core::str::from_utf8` accepts) -/

def inR (b : UInt8) (lo hi : Nat) : Bool := decide (lo ≤ b.toNat) && decide (b.toNat ≤ hi)

def cont (b : UInt8) : Bool := inR b 0x80 0xBF

def validUtf8 : Bytes → Bool
  | [] => true
  | b0 :: rest =>
    if b0.toNat < 0x80 then validUtf8 rest
    else if inR b0 0xC2 0xDF then
      match rest with
      | b1 :: r => cont b1 && validUtf8 r
      | _ => false
    else if inR b0 0xE0 0xEF then
      match rest with
      | b1 :: b2 :: r =>
        (if b0.toNat = 0xE0 then inR b1 0xA0 0xBF
         else if b0.toNat = 0xED then inR b1 0x80 0x9F
         else cont b1) && cont b2 && validUtf8 r
      | _ => false
    else if inR b0 0xF0 0xF4 then
      match rest with
      | b1 :: b2 :: b3 :: r =>
        (if b0.toNat = 0xF0 then inR b1 0x90 0xBF
         else if b0.toNat = 0xF4 then inR b1 0x80 0x8F
         else cont b1) && cont b2 && cont b3 && validUtf8 r
      | _ => false
    else false

end AranyaV.Wire
