import AranyaV.Model.Framing
import AranyaV.Gen.CryptoC36
/-!
# Byte-level model of the associated data of `DefaultEngine::wrap_secret` / `unwrap_secret`

    ad = tuple_hash("DefaultEngine", suite OIDs, [T::ID.as_bytes(), key id])

`T::ID.as_bytes()` is the OID of the suite algorithm the key kind belongs to (or the literal
`64 byte Seed`).  The item order on each side comes from the generated declarations.
-/
namespace AranyaV.Framing
open Gen.C36

/-- `AlgId::as_bytes()` of a key kind for a suite with the given OIDs -/
def algIdBytes (oids : List Bytes) (k : Kind) : Bytes :=
  match k.oidIndex with
  | none => seedAlgId
  | some i => oids.getD i []

def adItem (algId keyId : Bytes) : AdField → Bytes
  | .algId => algId
  | .keyId => keyId

/-- AD preimage computed by `wrap_secret` -/
def wrapAdPreimage (oids : List Bytes) (algId keyId : Bytes) (dsize : Nat) : Bytes :=
  suiteTuplePreimage engineTag oids (wrapAdOrder.map (adItem algId keyId)) dsize

/-- AD preimage computed by `unwrap_secret` -/
def unwrapAdPreimage (oids : List Bytes) (algId keyId : Bytes) (dsize : Nat) : Bytes :=
  suiteTuplePreimage engineTag oids (unwrapAdOrder.map (adItem algId keyId)) dsize

end AranyaV.Framing
