import AranyaV.Model.Wire
/-!
# Model.Postcard — schema-directed model of `postcard` + `serde` derive output (import-free)

What `postcard::take_from_bytes::<T>` does for the `T`s of the sync protocol, as a function of a
`Schema` describing `T`:

* `varU bits`   — `u16/u32/u64/u128/usize`: LEB128 varint (`try_take_varint_uN`)
* `bool`        — one byte, 0 or 1, anything else `DeserializeBadBool`
* `bytesN n`    — `aranya_id::Id`: `deserialize_bytes` (varint length, that many bytes) and then the
                  visitor requires exactly `n` bytes (`invalid_length` → `SerdeDeCustom`)
* `duration`    — `core::time::Duration`: `secs: u64`, `nanos: u32`, serde rejects
                  `secs + nanos / 10^9` overflowing `u64` (custom error), otherwise normalises
* `vec cap s`   — `heapless::Vec<T, cap>`: varint length, then elements one at a time; the element
                  that does not fit is decoded *first* and then `push` fails (custom error) — so a
                  too-long vector is an error, never a truncation, and an element error wins
* `tuple ss`    — structs, tuples, struct/tuple variants: the fields in order, no framing
* `enum vs`     — derived enums: variant index as `varint(u32)`, out of range is serde's
                  `invalid_value` (custom error), then the variant's payload
-/
namespace AranyaV.Postcard
open AranyaV.Wire

inductive Schema
  | varU (bits : Nat)
  | bool
  | bytesN (n : Nat)
  | duration
  | vec (cap : Nat) (s : Schema)
  | tuple (ss : List Schema)
  | enum (vs : List Schema)
  deriving Repr, Inhabited

/-- decoded value, dynamically typed -/
inductive WVal
  | nat (n : Nat)
  | bool (b : Bool)
  | bytes (b : Bytes)
  | seq (vs : List WVal)
  | tuple (vs : List WVal)
  | variant (idx : Nat) (v : WVal)
  deriving Repr, Inhabited

/-- `postcard::Error` classes that decoding can produce -/
inductive PErr
  | eof        -- DeserializeUnexpectedEnd
  | badVarint  -- DeserializeBadVarint
  | badBool    -- DeserializeBadBool
  | custom     -- SerdeDeCustom
  deriving DecidableEq, Repr, Inhabited

def liftW : Wire.Err → PErr
  | .eof => .eof
  | .bad => .badVarint

abbrev Res := Except PErr (WVal × Bytes)

def nanosPerSec : Nat := 1000000000

def decVarU (bits : Nat) (bs : Bytes) : Except PErr (Nat × Bytes) :=
  match varintDec bits bs with
  | .ok r => .ok r
  | .error e => .error (liftW e)

/-- `SeqAccess` over `len` announced elements feeding `heapless::Vec::push` with `room` free slots -/
def decElems (f : Bytes → Res) : Nat → Nat → Bytes → Except PErr (List WVal × Bytes)
  | 0, _, bs => .ok ([], bs)
  | n + 1, room, bs =>
    match f bs with
    | .error e => .error e
    | .ok (v, rest) =>
      match room with
      | 0 => .error .custom
      | room + 1 =>
        match decElems f n room rest with
        | .ok (vs, r) => .ok (v :: vs, r)
        | .error e => .error e

mutual
def dec : Schema → Bytes → Res
  | .varU bits, bs =>
    match decVarU bits bs with
    | .ok (n, rest) => .ok (.nat n, rest)
    | .error e => .error e
  | .bool, bs =>
    match bs with
    | [] => .error .eof
    | b :: rest =>
      if b = 0 then .ok (.bool false, rest) else if b = 1 then .ok (.bool true, rest)
      else .error .badBool
  | .bytesN n, bs =>
    match decVarU 64 bs with
    | .error e => .error e
    | .ok (len, rest) =>
      match takeN len rest with
      | .error _ => .error .eof
      | .ok (b, rest') => if len = n then .ok (.bytes b, rest') else .error .custom
  | .duration, bs =>
    match decVarU 64 bs with
    | .error e => .error e
    | .ok (secs, rest) =>
      match decVarU 32 rest with
      | .error e => .error e
      | .ok (nanos, rest') =>
        if secs + nanos / nanosPerSec < 2 ^ 64 then
          .ok (.tuple [.nat (secs + nanos / nanosPerSec), .nat (nanos % nanosPerSec)], rest')
        else .error .custom
  | .vec cap s, bs =>
    match decVarU 64 bs with
    | .error e => .error e
    | .ok (len, rest) =>
      match decElems (dec s) len cap rest with
      | .ok (vs, r) => .ok (.seq vs, r)
      | .error e => .error e
  | .tuple ss, bs =>
    match decTuple ss bs with
    | .ok (vs, r) => .ok (.tuple vs, r)
    | .error e => .error e
  | .enum vs, bs =>
    match decVarU 32 bs with
    | .error e => .error e
    | .ok (idx, rest) =>
      match decVariant vs idx rest with
      | .ok (v, r) => .ok (.variant idx v, r)
      | .error e => .error e
def decTuple : List Schema → Bytes → Except PErr (List WVal × Bytes)
  | [], bs => .ok ([], bs)
  | s :: ss, bs =>
    match dec s bs with
    | .error e => .error e
    | .ok (v, rest) =>
      match decTuple ss rest with
      | .ok (vs, r) => .ok (v :: vs, r)
      | .error e => .error e
/-- payload of variant number `idx`; an index past the end is serde's `invalid_value` -/
def decVariant : List Schema → Nat → Bytes → Res
  | [], _, _ => .error .custom
  | s :: _, 0, bs => dec s bs
  | _ :: ss, idx + 1, bs => decVariant ss idx bs
end

/-- elements of a sequence, each encoded by `f` -/
def encElems (f : WVal → Bytes) : List WVal → Bytes
  | [] => []
  | v :: vs => f v ++ encElems f vs

mutual
def enc : Schema → WVal → Bytes
  | .varU bits, .nat n => varintEnc bits n
  | .bool, .bool b => boolEnc b
  | .bytesN _, .bytes b => bytesEnc b
  | .duration, .tuple [.nat s, .nat n] => varintEnc 64 s ++ varintEnc 32 n
  | .vec _ s, .seq vs => varintEnc 64 vs.length ++ encElems (enc s) vs
  | .tuple ss, .tuple vs => encTuple ss vs
  | .enum vs, .variant idx v => varintEnc 32 idx ++ encVariant vs idx v
  | _, _ => []
def encTuple : List Schema → List WVal → Bytes
  | s :: ss, v :: vs => enc s v ++ encTuple ss vs
  | _, _ => []
def encVariant : List Schema → Nat → WVal → Bytes
  | [], _, _ => []
  | s :: _, 0, v => enc s v
  | _ :: ss, idx + 1, v => encVariant ss idx v
end

/-- `postcard::take_from_bytes::<T>` -/
def takeFromBytes (s : Schema) (bs : Bytes) : Res := dec s bs

end AranyaV.Postcard
