import AranyaV.Gen.CryptoC34
/-!
# Byte-level framing of everything aranya-crypto feeds to a hash / KDF / AEAD

`tuple_hash` (spideroak-crypto `hash::tuple_hash`, via `CipherSuiteExt::tuple_hash`) is NIST
SP 800-185 TupleHash framing over an ordinary hash `H`:

    H( encode_string(x₁) ‖ … ‖ encode_string(xₙ) ‖ right_encode(8·|H|) )

with `encode_string(s) = left_encode(8·|s|) ‖ s`, `left_encode(x) = n ‖ be(x)`,
`right_encode(x) = be(x) ‖ n`, `be(x)` the minimal big-endian base-256 digits of `x` (one zero
digit for `x = 0`) and `n` their number (sha3-utils `left_encode_bytes`/`right_encode_bytes`
compute exactly this for `x = 8·len`).

This file is the *model*: total computable functions producing the exact preimage bytes.  The
harness recomputes the same bytes in Rust, hashes them with the real SHA-256 and compares with the
real digests / ids, and `./check` diffs the harness bytes against this model's bytes; the
injectivity theorems are in `Proofs/Framing.lean`.  Import-free apart from generated constants.
-/
namespace AranyaV.Framing

abbrev Bytes := List UInt8

/-- little-endian base-256 digits, at least one digit -/
def leDigits (n : Nat) : Bytes :=
  if n < 256 then [UInt8.ofNat n] else UInt8.ofNat (n % 256) :: leDigits (n / 256)
termination_by n
decreasing_by omega

/-- minimal big-endian digits (`[0]` for 0) -/
def beDigits (n : Nat) : Bytes := (leDigits n).reverse

/-- SP 800-185 `left_encode` -/
def leftEncode (x : Nat) : Bytes := UInt8.ofNat (beDigits x).length :: beDigits x

/-- SP 800-185 `right_encode` -/
def rightEncode (x : Nat) : Bytes := beDigits x ++ [UInt8.ofNat (beDigits x).length]

/-- SP 800-185 `encode_string` over a byte string (bit length = 8·len) -/
def encodeString (s : Bytes) : Bytes := leftEncode (8 * s.length) ++ s

def concatEncoded (items : List Bytes) : Bytes := (items.map encodeString).flatten

/-- what `hash::tuple_hash::<H,_>(items)` feeds to `H`; `dsize` = `H::DIGEST_SIZE` in bytes -/
def tupleHashPreimage (items : List Bytes) (dsize : Nat) : Bytes :=
  concatEncoded items ++ rightEncode (8 * dsize)

/-- `CipherSuiteExt::tuple_hash(tag, context)`: tag, then the six suite OIDs, then the context -/
def suiteTupleItems (tag : Bytes) (oids : List Bytes) (ctx : List Bytes) : List Bytes :=
  tag :: (oids ++ ctx)

def suiteTuplePreimage (tag : Bytes) (oids ctx : List Bytes) (dsize : Nat) : Bytes :=
  tupleHashPreimage (suiteTupleItems tag oids ctx) dsize

/-- `IdExt::new::<CS>(tag, data)` = `tuple_hash("ID-v1", data ++ [tag])` -/
def idPreimage (oids : List Bytes) (tag : Bytes) (data : List Bytes) (dsize : Nat) : Bytes :=
  suiteTuplePreimage Gen.C34.idTag oids (data ++ [tag]) dsize

/-! ## C34: command digest and ids -/

open Gen.C34 in
/-- the four inputs of `Cmd::digest` -/
structure CmdFields where
  author : Bytes
  name : Bytes
  parent : Bytes
  data : Bytes
deriving DecidableEq, Repr

open Gen.C34 in
def CmdFields.get (f : CmdFields) : DigestField → Bytes
  | .author => f.author
  | .name => f.name
  | .parent => f.parent
  | .data => f.data

/-- items of `Cmd::digest` after tag and OIDs, in the order the source hashes them -/
def digestItems (f : CmdFields) : List Bytes := Gen.C34.digestOrder.map f.get

/-- preimage of `Cmd::digest::<CS>(author)` -/
def digestPreimage (oids : List Bytes) (f : CmdFields) (dsize : Nat) : Bytes :=
  suiteTuplePreimage Gen.C34.signTag oids (digestItems f) dsize

open Gen.C34 in
def cmdIdItems (digest sig : Bytes) : List Bytes :=
  cmdIdOrder.map fun | .digest => digest | .sig => sig

/-- preimage of `policy::cmd_id(digest, sig)` -/
def cmdIdPreimage (oids : List Bytes) (digest sig : Bytes) (dsize : Nat) : Bytes :=
  idPreimage oids Gen.C34.cmdIdTag (cmdIdItems digest sig) dsize

open Gen.C34 in
def mergeIdItems (left right : Bytes) : List Bytes :=
  mergeIdOrder.map fun | .left => left | .right => right

/-- preimage of `policy::merge_cmd_id(left, right)` -/
def mergeIdPreimage (oids : List Bytes) (left right : Bytes) (dsize : Nat) : Bytes :=
  idPreimage oids Gen.C34.mergeIdTag (mergeIdItems left right) dsize

/-- preimage of `VerifyingKey::id()` / `SigningKey::id()` over the exported public key bytes -/
def signingKeyIdPreimage (oids : List Bytes) (pk : Bytes) (dsize : Nat) : Bytes :=
  idPreimage oids Gen.C34.signingKeyCtx [pk] dsize

end AranyaV.Framing
