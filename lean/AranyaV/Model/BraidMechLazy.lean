import AranyaV.Model.BraidMech
/-!
# Model.BraidMechLazy — the mechanism with the convergence BFS interleaved (`should_continue`
calls `advance_to(location.max_cut)` first)

`Model.BraidMech.implBraid` starts from the convergence map of the *completed* BFS.  The real code
runs the BFS lazily: `should_continue(location)` first advances it until everything with
`max_cut ≥ location.max_cut` has been processed, then looks the location up.  Here the map starts
empty with no level; `reveal t` models `advance_to(t)`: when `t` is below the current level the
entries the BFS records for the band `t ≤ max_cut < level` (given by the oracle `rev t`: "the entry
the BFS advanced to `t` holds for this command") are added, and the level drops to `t`; a target at
or above the level changes nothing.  `mcOf` is the max cut of a command id.
-/
namespace AranyaV.Braid
open AranyaV.Spec AranyaV.Gen

structure LState where
  heap : List Nat
  counts : Nat → Option Nat
  /-- lowest max cut the BFS has been advanced to (`none`: not advanced yet) -/
  level : Option Nat
  out : List Nat

/-- `advance_to(t)` on the map: `(map', level')` -/
def reveal (rev : Nat → Nat → Option Nat) (mcOf : Nat → Nat) (level : Option Nat)
    (counts : Nat → Option Nat) (t : Nat) : (Nat → Option Nat) × Option Nat :=
  match level with
  | none => (fun q => if t ≤ mcOf q then rev t q else counts q, some t)
  | some l =>
    if t < l then (fun q => if t ≤ mcOf q ∧ mcOf q < l then rev t q else counts q, some t)
    else (counts, some l)

/-- `should_continue`: advance, then look up / consume -/
def shouldContinueLazy (rev : Nat → Nat → Option Nat) (mcOf : Nat → Nat) (level : Option Nat)
    (counts : Nat → Option Nat) (p : Nat) : Bool × (Nat → Option Nat) × Option Nat :=
  let a := reveal rev mcOf level counts (mcOf p)
  let r := shouldContinue a.1 p
  (r.1, r.2, a.2)

def pushPriorsLazy (g : Graph) (below : Nat → Bool) (sameSeg : Nat → Nat → Bool)
    (rev : Nat → Nat → Option Nat) (mcOf : Nat → Nat) :
    List Nat → List Nat → (Nat → Option Nat) → Option Nat →
      Except BraidErr (List Nat × (Nat → Option Nat) × Option Nat)
  | [], heap, counts, level => .ok (heap, counts, level)
  | p :: ps, heap, counts, level =>
    if below p then pushPriorsLazy g below sameSeg rev mcOf ps heap counts level
    else
      let r := shouldContinueLazy rev mcOf level counts p
      if !r.1 then pushPriorsLazy g below sameSeg rev mcOf ps heap r.2.1 r.2.2
      else if heap.any (fun o => sameSeg p o) then pushPriorsLazy g below sameSeg rev mcOf ps heap r.2.1 r.2.2
      else
        match pushStrand g heap p with
        | .error e => .error e
        | .ok heap' => pushPriorsLazy g below sameSeg rev mcOf ps heap' r.2.1 r.2.2

def implLoopLazy (g : Graph) (below : Nat → Bool) (sameSeg : Nat → Nat → Bool)
    (rev : Nat → Nat → Option Nat) (mcOf : Nat → Nat) : Nat → LState → Except BraidErr (List Nat)
  | 0, _ => .error .malformed
  | fuel + 1, s =>
    match minAvail g s.heap with
    | none => .ok s.out
    | some c =>
      let heap := s.heap.erase c.id
      let out := if isMerge c then s.out else c.id :: s.out
      match pushPriorsLazy g below sameSeg rev mcOf c.parents heap s.counts s.level with
      | .error e => .error e
      | .ok (heap', counts', level') =>
        match heap' with
        | [x] => .ok (x :: out)
        | _ => implLoopLazy g below sameSeg rev mcOf fuel
            { heap := heap', counts := counts', level := level', out := out }

/-- `braid(..)` with the lazily advanced convergence map -/
def implBraidLazy (g : Graph) (heads : List Nat) (below : Nat → Bool) (sameSeg : Nat → Nat → Bool)
    (rev : Nat → Nat → Option Nat) (mcOf : Nat → Nat) : Except BraidErr (List Nat) :=
  match pushHeads g [] heads with
  | .error e => .error e
  | .ok heap =>
    implLoopLazy g below sameSeg rev mcOf g.length
      { heap := heap, counts := fun _ => none, level := none, out := [] }

end AranyaV.Braid
