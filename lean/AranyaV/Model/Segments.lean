import AranyaV.Model.Queue
import AranyaV.Gen.ConstsSegments
/-
Model of the segment store of `aranya_runtime` and of the backward searches over it:

* `crates/aranya-runtime/src/storage/mod.rs`: `search_queued`, `Storage::get_location`,
  `Storage::get_location_from`, `Storage::is_ancestor`, `Segment::get_by_address`;
* `crates/aranya-runtime/src/storage/linear/mod.rs`: `SegmentRepr` (`offset`, `prior`,
  `commands`, `max_cut`, `skip_list`), `LinearSegment::get_command`, `skip_target_boundaries`,
  `has_nearby_rich_anchor`, `build_skip_list`, `walk_collecting_skips`, and the part of
  `LinearStorage::write` that decides the new segment's skip list.

A store is the list of segments in the order they were appended.  A segment holds its index
(the file offset in Rust), the max cut of its first command (`SegmentRepr::max_cut`), the ids of
its commands (command `j` has max cut `first + j`), its prior and its skip list.  Command ids
are `Nat` (the harness maps the 32-byte ids to small integers in creation order).

Loops are fuel-driven; running out of fuel is an explicit error (`Err.fuel`) which the theorems
show unreachable on well-formed stores.  `buggy` failures are `Err.bug`; a segment that cannot be
fetched is `Err.segmentOutOfBounds`.

Not modelled: the `QUEUE_CAPACITY` overflow error of `TraversalQueue::push` (the queue model of
C21 is unbounded; the queue holds at most one entry per segment, so the error needs a frontier
of more than `QUEUE_CAPACITY` segments), facts, policies, command payloads.
-/
namespace AranyaV.Segments
open AranyaV.Queue (Loc Queue)

inductive Prior where
  | none
  | single (p : Loc)
  | merge (l r : Loc)
deriving DecidableEq, Repr, Inhabited

/-- `impl IntoIterator for Prior<T>`: left first -/
def Prior.toList : Prior → List Loc
  | .none => []
  | .single p => [p]
  | .merge l r => [l, r]

structure Seg where
  idx   : Nat
  first : Nat
  ids   : List Nat
  prior : Prior
  skips : List Loc
deriving DecidableEq, Repr, Inhabited

structure Store where
  segs : List Seg
deriving DecidableEq, Repr, Inhabited

/-- `Address { id, max_cut }` -/
structure Addr where
  id : Nat
  mc : Nat
deriving DecidableEq, Repr, Inhabited

inductive Err where
  | segmentOutOfBounds
  | bug
  | fuel
deriving DecidableEq, Repr, Inhabited

def Seg.firstLoc (g : Seg) : Loc := ⟨g.first, g.idx⟩

/-- `LinearSegment::get_command`: the id of the command at `l`, when `l` points into `g` -/
def Seg.getCommand (g : Seg) (l : Loc) : Option Nat :=
  if g.idx = l.seg ∧ g.first ≤ l.mc then g.ids[l.mc - g.first]? else none

/-- `Segment::get_by_address` -/
def Seg.getByAddress (g : Seg) (a : Addr) : Option Loc :=
  match g.getCommand ⟨a.mc, g.idx⟩ with
  | some id => if id = a.id then some ⟨a.mc, g.idx⟩ else none
  | none => none

/-- `Storage::get_segment` (by segment index; the max cut of the location is not looked at) -/
def Store.seg? (s : Store) (i : Nat) : Option Seg := s.segs.find? (fun g => g.idx == i)

/-- the id of the command stored at a location, if the location is valid -/
def Store.cmdAt (s : Store) (l : Loc) : Option Nat :=
  match s.seg? l.seg with
  | some g => g.getCommand l
  | none => none

def Store.valid (s : Store) (l : Loc) : Bool := (s.cmdAt l).isSome

/-! ## the abstract graph -/

/-- parents of the command at a location: the previous command of the segment, or the
segment's prior for its first command -/
def Store.parents (s : Store) (l : Loc) : List Loc :=
  match s.seg? l.seg with
  | none => []
  | some g =>
    if (g.getCommand l).isSome then
      if g.first < l.mc then [⟨l.mc - 1, l.seg⟩] else g.prior.toList
    else []

def Seg.locs (g : Seg) : List Loc := (List.range g.ids.length).map (fun j => ⟨g.first + j, g.idx⟩)

/-- every location of the store -/
def Store.allLocs (s : Store) : List Loc := s.segs.flatMap Seg.locs

structure Node where
  loc : Loc
  id : Nat
  parents : List Loc
deriving DecidableEq, Repr

/-- the abstract command graph of a store: one node per valid location -/
def absGraph (s : Store) : List Node :=
  s.allLocs.filterMap (fun l => (s.cmdAt l).map (fun id => ⟨l, id, s.parents l⟩))

/-! ## searches -/

/-- the `for prior in segment.prior() { if prior.max_cut >= target { queue.push(prior) } }` loop -/
def pushPriors (q : Queue) (ps : List Loc) (tmc : Nat) : Queue :=
  ps.foldl (fun q p => if tmc ≤ p.mc then q.push p else q) q

/-- The loop shared (textually duplicated in Rust) by `search_queued` and `Storage::is_ancestor`:
`tmc` is the target max cut, `hit` the per-segment test
(`segment.get_by_address(address)` resp. `segment.get_command(search_location).is_some()`). -/
def searchLoop (s : Store) (tmc : Nat) (hit : Seg → Option Loc) :
    Nat → Queue → Except Err (Option Loc)
  | 0, _ => .error .fuel
  | n + 1, q =>
    match q.pop with
    | (none, _) => .ok none
    | (some loc, q') =>
      match s.seg? loc.seg with
      | none => .error .segmentOutOfBounds
      | some g =>
        match hit g with
        | some found => .ok (some found)
        | none =>
          -- first skip entry with max_cut >= target
          match g.skips.find? (fun k => tmc ≤ k.mc) with
          | some k => searchLoop s tmc hit n (q'.push k)
          | none => searchLoop s tmc hit n (pushPriors q' g.prior.toList tmc)

/-- enough fuel for every search on a well-formed store (theorem `searchLoop_total`) -/
def Store.fuel (s : Store) : Nat := s.allLocs.length + 1

/-- `search_queued` -/
def searchQueued (s : Store) (a : Addr) (q : Queue) : Except Err (Option Loc) :=
  searchLoop s a.mc (fun g => g.getByAddress a) s.fuel q

/-- `Storage::get_location`; `heads` are the locations of the committed head set -/
def getLocation (s : Store) (heads : List Loc) (a : Addr) : Except Err (Option Loc) :=
  searchQueued s a (pushPriors Queue.new heads a.mc)

/-- `Storage::get_location_from` -/
def getLocationFrom (s : Store) (start : Loc) (a : Addr) : Except Err (Option Loc) :=
  if start.mc < a.mc then .ok none else searchQueued s a (Queue.new.push start)

def isAncestorHit (search : Loc) (g : Seg) : Option Loc :=
  if (g.getCommand search).isSome then some search else none

/-- `Storage::is_ancestor(search_location, start_location)` -/
def isAncestor (s : Store) (search start : Loc) : Except Err Bool :=
  if search.mc > start.mc ∨ search = start then .ok false
  else
    match searchLoop s search.mc (isAncestorHit search) s.fuel (Queue.new.push start) with
    | .ok r => .ok r.isSome
    | .error e => .error e

/-- the same store with every skip list erased -/
def eraseSkips (s : Store) : Store := ⟨s.segs.map (fun g => { g with skips := [] })⟩

/-! ## skip-list construction -/

/-- the `while boundary > 0` loop of `skip_target_boundaries(n)`; `gapMin` is `MIN_SKIP_GAP` -/
def boundariesLoop (gapMin n : Nat) : Nat → Nat → List Nat → Except Err (List Nat)
  | 0, _, _ => .error .fuel
  | f + 1, b, acc =>
    if b = 0 then .ok acc
    else
      let acc := acc ++ [b]
      -- `n.checked_sub(boundary).assume(..)`
      if n < b then .error .bug
      else
        let gap := n - b
        if gap ≤ gapMin then .ok acc
        else boundariesLoop gapMin n f (b + gap / 2) acc

/-- `skip_target_boundaries(n)` (ascending) -/
def skipTargetBoundaries (n : Nat) : Except Err (List Nat) :=
  boundariesLoop AranyaV.Gen.minSkipGap n (n + 1) (n / 2) []

/-- `has_nearby_rich_anchor`; the first argument counts the remaining iterations of
`for _ in 0..MIN_SKIP_GAP` -/
def hasNearbyRichAnchor (s : Store) : Nat → Loc → Except Err Bool
  | 0, _ => .ok false
  | k + 1, check =>
    match s.seg? check.seg with
    | none => .error .segmentOutOfBounds
    | some g =>
      if g.skips.length > 1 then .ok true
      else
        match g.prior with
        | .single p => hasNearbyRichAnchor s k p
        | .merge _ _ =>
          match g.skips.getLast? with
          | some l => hasNearbyRichAnchor s k l
          | none => .error .bug
        | .none => .ok false

/-- the inner `while let Some(&t) = targets.last()` loop: `targets` is kept highest first
(the Rust vector is ascending and consumed from its end) -/
def popReached (segMin : Nat) (fl : Loc) : List Nat → List Loc → List Nat × List Loc
  | [], acc => ([], acc)
  | t :: ts, acc => if segMin ≤ t then popReached segMin fl ts (acc ++ [fl]) else (t :: ts, acc)

/-- `Iterator::min_by_key(|s| s.max_cut)`: the first minimum -/
def minByMc : List Loc → Option Loc
  | [] => none
  | x :: xs =>
    match minByMc xs with
    | none => some x
    | some m => if m.mc < x.mc then some m else some x

/-- `walk_collecting_skips` -/
def walkCollectingSkips (s : Store) : Nat → Loc → List Nat → List Loc → Except Err (List Loc)
  | 0, _, _, _ => .error .fuel
  | f + 1, current, targets, skips =>
    match s.seg? current.seg with
    | none => .error .segmentOutOfBounds
    | some g =>
      match popReached g.first g.firstLoc targets skips with
      | ([], skips) => .ok skips
      | (nt :: ts, skips) =>
        match minByMc (g.skips.filter (fun k => nt ≤ k.mc ∧ k.mc < current.mc)) with
        | some k => walkCollectingSkips s f k (nt :: ts) skips
        | none =>
          match g.prior with
          | .single p =>
            if nt ≤ p.mc then walkCollectingSkips s f p (nt :: ts) skips else .ok skips
          | _ => .ok skips

/-- stable insertion by max cut (`sort_by_key` is stable) -/
def insertByMc (x : Loc) : List Loc → List Loc
  | [] => [x]
  | y :: ys => if x.mc < y.mc then x :: y :: ys else y :: insertByMc x ys

def sortByMc (l : List Loc) : List Loc := l.foldl (fun acc x => insertByMc x acc) []

/-- `Vec::dedup`: drop consecutive repeats -/
def dedup : List Loc → List Loc
  | [] => []
  | [x] => [x]
  | x :: y :: ys => if x = y then dedup (y :: ys) else x :: dedup (y :: ys)

/-- `build_skip_list(prior, last_common_ancestor, n)` -/
def buildSkipList (s : Store) (prior : Prior) (lca : Option Loc) (n : Nat) :
    Except Err (List Loc) :=
  let go (walkStart : Loc) (lca : Option Loc) : Except Err (List Loc) :=
    match hasNearbyRichAnchor s AranyaV.Gen.minSkipGap walkStart with
    | .error e => .error e
    | .ok rich =>
      if rich ∨ n < AranyaV.Gen.minSkipGap then .ok lca.toList
      else
        match skipTargetBoundaries n with
        | .error e => .error e
        | .ok targets =>
          match walkCollectingSkips s (walkStart.mc + 1) walkStart targets.reverse [] with
          | .error e => .error e
          | .ok skips =>
            let skips := match lca with
              | some l => if skips.contains l then skips else skips ++ [l]
              | none => skips
            .ok (dedup (sortByMc skips))
  match prior with
  | .none => .ok []
  | .merge _ _ =>
    match lca with
    | none => .error .bug
    | some l => go l (some l)
  | .single p => go p none

/-- the segment appended by `LinearStorage::write` for a perspective with the given prior,
first max cut, command ids and (for merges) recorded last common ancestor -/
def Store.write (s : Store) (idx first : Nat) (ids : List Nat) (prior : Prior) (lca : Option Loc) :
    Except Err Store :=
  match buildSkipList s prior lca first with
  | .error e => .error e
  | .ok skips => .ok ⟨s.segs ++ [{ idx, first, ids, prior, skips }]⟩

end AranyaV.Segments
