import AranyaV.Spec.Lang
/-!
# Model.LangLower — type checking during lowering (aranya-policy-compiler/src/compile/lower.rs,
types.rs, the definition passes of compile.rs) for the C22–C24 fragment

`lowerProgram` takes the parsed AST (same `Expr`/`Stmt` type, with `enumRef` values unset, struct
sources unexpanded, foreign ids unset) and either rejects it (`none`, the real compiler returns a
`CompileError`) or returns the typed IR the code generator consumes.  Which error is reported is
not modelled, only accept / reject.
-/
namespace AranyaV.Lang
open AranyaV.Gen.Lang

/-- `TypeKind::matches` -/
def Ty.matchesT : Ty → Ty → Bool
  | .unit, .unit | .string, .string | .bytes, .bytes | .int, .int | .bool, .bool | .id, .id
  | .never, .never => true
  | .struct a, .struct b => a == b
  | .enum a, .enum b => a == b
  | .optional a, .optional b => a.matchesT b
  | .result a b, .result c d => a.matchesT c && b.matchesT d
  | _, _ => false

/-- `TypeKind::fits_type`: `Never` fits everything (both ways) -/
def Ty.fits : Ty → Ty → Bool
  | .never, _ => true
  | _, .never => true
  | .unit, .unit | .string, .string | .bytes, .bytes | .int, .int | .bool, .bool | .id, .id => true
  | .struct a, .struct b => a == b
  | .enum a, .enum b => a == b
  | .optional a, .optional b => a.fits b
  | .result a b, .result c d => a.fits c && b.fits d
  | _, _ => false

/-- `types::unify_pair` -/
def unify : Ty → Ty → Option Ty
  | l, .never => Option.some l
  | .never, r => Option.some r
  | .optional a, .optional b => (unify a b).map .optional
  | .result a b, .result c d => match unify a c, unify b d with
    | Option.some x, Option.some y => Option.some (.result x y)
    | _, _ => Option.none
  | l, r => if l.matchesT r then Option.some l else Option.none

/-- `types::check_type` -/
def checkType (t target : Ty) : Option Ty :=
  match t with
  | .never => Option.some target
  | _ => if t.fits target then Option.some t else Option.none

def unifyAs (a b target : Ty) : Option Ty :=
  match checkType a target, checkType b target with
  | Option.some x, Option.some y => unify x y
  | _, _ => Option.none

structure FfiSig where
  name : Nat
  args : List Ty
  ret : Ty

structure LCtx where
  enums : List (Nat × List Nat)
  structs : List (Nat × List (Nat × Ty))
  globals : List (Nat × Ty)
  sigs : List (Nat × List (Nat × Ty) × Ty)
  /-- foreign modules handed to the compiler, in order: (module name, functions) -/
  ffiMods : List (Nat × List FfiSig)
  uses : List Nat
  retTy : Ty

abbrev Scopes := List (List (Nat × Ty))

def LCtx.structDef (cx : LCtx) (n : Nat) : Option (List (Nat × Ty)) := (cx.structs.find? (·.1 == n)).map (·.2)

def scopeGet (cx : LCtx) (sc : Scopes) (x : Nat) : Option Ty :=
  match sc.findSome? (fun b => (b.find? (·.1 == x)).map (·.2)) with
  | Option.some t => Option.some t
  | Option.none => (cx.globals.find? (·.1 == x)).map (·.2)

/-- `IdentifierTypeStack::add` -/
def scopeAdd (cx : LCtx) (sc : Scopes) (x : Nat) (t : Ty) : Option Scopes :=
  if cx.globals.any (·.1 == x) then Option.none
  else if sc.any (fun b => b.any (·.1 == x)) then Option.none
  else match sc with
    | [] => Option.none
    | b :: rest => Option.some (((x, t) :: b) :: rest)

/-- `ensure_type_is_defined` -/
def typeDefined (cx : LCtx) : Ty → Bool
  | .struct n => cx.structs.any (·.1 == n)
  | .enum n => cx.enums.any (·.1 == n)
  | .optional t => typeDefined cx t
  | .result a b => typeDefined cx a && typeDefined cx b
  | _ => true

/-- `CompileTarget::cardinality` (fuel for the struct recursion) -/
def cardinality (cx : LCtx) : Nat → Ty → Option Nat
  | 0, _ => Option.none
  | _ + 1, .string => Option.none
  | _ + 1, .bytes => Option.none
  | _ + 1, .id => Option.none
  | _ + 1, .int => Option.none
  | _ + 1, .bool => Option.some 2
  | n + 1, .optional t => (cardinality cx n t).map (· + 1)
  | n + 1, .struct s => match cx.structDef s with
    | Option.none => Option.none
    | Option.some [] => Option.none
    | Option.some ((_, t) :: rest) =>
      rest.foldl (fun acc (f : Nat × Ty) => match cardinality cx n f.2 with
        | Option.none => Option.none
        | Option.some v => acc.map (v * ·)) (cardinality cx n t)
  | _ + 1, .enum e => (cx.enums.find? (·.1 == e)).map (·.2.length)
  | _ + 1, .never => Option.some 0
  | _ + 1, .unit => Option.some 1
  | n + 1, .result a b => match cardinality cx n a, cardinality cx n b with
    | Option.some x, Option.some y => Option.some (x + y)
    | _, _ => Option.none

mutual
/-- `Expression::is_literal` -/
def isLiteral : Expr → Bool
  | .unit | .int _ | .str _ | .bool _ | .enumRef _ _ _ | .none => true
  | .some e => isLiteral e
  | .ok e => isLiteral e
  | .err e => isLiteral e
  | .struct _ fs srcs => literalFields fs && srcs.isEmpty
  | _ => false
def literalFields : List (Nat × Expr) → Bool
  | [] => true
  | (_, e) :: rest => isLiteral e && literalFields rest
end

mutual
/-- `ExprKind::matches` restricted to the forms a match pattern may take (anything else is
rejected as a non-literal pattern anyway); struct literals compare field sets (`same_pattern`) -/
def patEq : Expr → Expr → Bool
  | .unit, .unit => true
  | .int a, .int b => a == b
  | .str a, .str b => a == b
  | .bool a, .bool b => a == b
  | .none, .none => true
  | .some a, .some b => patEq a b
  | .ok a, .ok b => patEq a b
  | .err a, .err b => patEq a b
  | .var a, .var b => a == b
  | .enumRef a b _, .enumRef c d _ => a == c && b == d
  | .struct n fa sa, .struct m fb sb =>
    n == m && sa.isEmpty && sb.isEmpty && fa.length == fb.length && patEqFields fa fb
  | _, _ => false
/-- every field of the first literal occurs, with the same pattern, in the second (`same_pattern`) -/
def patEqFields : List (Nat × Expr) → List (Nat × Expr) → Bool
  | [], _ => true
  | (k, a) :: fa, fb => patEqField k a fb && patEqFields fa fb
def patEqField (k : Nat) (a : Expr) : List (Nat × Expr) → Bool
  | [] => false
  | (l, b) :: fb => (k == l && patEq a b) || patEqField k a fb
end

/-- state of the duplicate / unreachable / redundant pattern scan of `lower_match_…` -/
structure Scan where
  all : List Expr := []
  okB : Bool := false
  errB : Bool := false
  someB : Bool := false

def isVar : Expr → Bool | .var _ => true | _ => false

/-- one arm's alternatives; the three per-arm literal flags are threaded through -/
def scanVals : Scan → Bool → Bool → Bool → List Expr → Option Scan
  | s, _, _, _, [] => Option.some s
  | s, okL, errL, someL, v :: vs =>
    if s.all.any (patEq v ·) then Option.none else
    match v with
    | .ok i =>
      if isVar i then (if okL then Option.none else scanVals { s with all := s.all ++ [v], okB := true } okL errL someL vs)
      else if s.okB then Option.none else scanVals { s with all := s.all ++ [v] } true errL someL vs
    | .err i =>
      if isVar i then (if errL then Option.none else scanVals { s with all := s.all ++ [v], errB := true } okL errL someL vs)
      else if s.errB then Option.none else scanVals { s with all := s.all ++ [v] } okL true someL vs
    | .some i =>
      if isVar i then (if someL then Option.none else scanVals { s with all := s.all ++ [v], someB := true } okL errL someL vs)
      else if s.someB then Option.none else scanVals { s with all := s.all ++ [v] } okL errL true vs
    | _ => scanVals { s with all := s.all ++ [v] } okL errL someL vs

def scanPats : Scan → List Pat → Option Scan
  | s, [] => Option.some s
  | s, .default :: ps => scanPats s ps
  | s, .values vs :: ps =>
    if vs.length > 1 && vs.any (fun v => (bindingOf v).isSome) then Option.none else
    match scanVals s false false false vs with
    | Option.some s' => scanPats s' ps
    | Option.none => Option.none

def defaultOk : List Pat → Bool
  | [] => true
  | [.default] => true
  | .default :: _ => false
  | _ :: ps => defaultOk ps

/-- exhaustiveness bookkeeping of `lower_match_…` over the collected pattern values -/
def missingDefault (cx : LCtx) (st : Ty) (all : List Expr) (hasDefault : Bool) : Bool :=
  let card := cardinality cx 64
  let resultEx := match st with
    | .result okT errT =>
      let okBind := all.any fun | .ok i => isVar i | _ => false
      let errBind := all.any fun | .err i => isVar i | _ => false
      let okLits := (all.filter fun | .ok i => !isVar i | _ => false).length
      let errLits := (all.filter fun | .err i => !isVar i | _ => false).length
      (okBind || card okT == Option.some okLits) && (errBind || card errT == Option.some errLits)
    | _ => false
  let optEx := match st with
    | .optional it =>
      let someBind := all.any fun | .some i => isVar i | _ => false
      let hasNone := all.any fun | .none => true | _ => false
      let someLits := (all.filter fun | .some i => !isVar i | _ => false).length
      hasNone && (someBind || card it == Option.some someLits)
    | _ => false
  !hasDefault && !resultEx && !optEx && (match card st with | Option.none => true | Option.some c => c > all.length)

def findDup : List Nat → Bool
  | [] => false
  | x :: xs => xs.contains x || findDup xs

/-- `evaluate_sources`: the `(field, src.field)` pairs appended to a struct literal, with the
type `src.field` lowers to -/
def expandSources (cx : LCtx) (sc : Scopes) (baseDef : List (Nat × Ty)) (given : List Nat) :
    List Nat → List Nat → Option (List (Nat × Expr × Ty))
  | [], _ => Option.some []
  | src :: rest, seen => match scopeGet cx sc src with
    | Option.some (.struct sn) => match cx.structDef sn with
      | Option.none => Option.none
      | Option.some sdef =>
        let todo := sdef.filter (fun f => !given.contains f.1)
        if todo.any (fun f => seen.contains f.1) then Option.none
        else if !(todo.all fun f => match baseDef.find? (·.1 == f.1) with
            | Option.some (_, bt) => bt.matchesT f.2
            | Option.none => false) then Option.none
        else match expandSources cx sc baseDef given rest (seen ++ todo.map (·.1)) with
          | Option.some more => Option.some (todo.map (fun f => (f.1, Expr.dot (.var src) f.1, f.2)) ++ more)
          | Option.none => Option.none
    | _ => Option.none

def indexOf? (xs : List Nat) (x : Nat) : Option Nat :=
  let rec go : List Nat → Nat → Option Nat
    | [], _ => Option.none
    | y :: ys, i => if y == x then Option.some i else go ys (i + 1)
  go xs 0

def patsOfE : List (Pat × Expr) → List Pat
  | [] => []
  | (p, _) :: r => p :: patsOfE r
def patsOfS : List (Pat × List Stmt) → List Pat
  | [] => []
  | (p, _) :: r => p :: patsOfS r

mutual
def lowerExpr (cx : LCtx) (sc : Scopes) : Expr → Option (Expr × Ty)
  | .unit => Option.some (.unit, .unit)
  | .int n => Option.some (.int n, .int)
  | .str s => Option.some (.str s, .string)
  | .bool b => Option.some (.bool b, .bool)
  | .none => Option.some (.none, .optional .never)
  | .some e => match lowerExpr cx sc e with
    | Option.some (e', t) => Option.some (.some e', .optional t)
    | Option.none => Option.none
  | .ok e => match lowerExpr cx sc e with
    | Option.some (e', t) => Option.some (.ok e', .result t .never)
    | Option.none => Option.none
  | .err e => match lowerExpr cx sc e with
    | Option.some (e', t) => Option.some (.err e', .result .never t)
    | Option.none => Option.none
  | .struct name fields sources => match cx.structDef name with
    | Option.none => Option.none
    | Option.some d =>
      if sources.isEmpty then
        (if findDup (fields.map (·.1)) || !(d.all fun f => fields.any (·.1 == f.1)) then Option.none else
         match lowerFields cx sc d fields with
         | Option.some fs' => Option.some (.struct name fs' sources, .struct name)
         | Option.none => Option.none)
      else if fields.length == d.length then Option.none
      else match expandSources cx sc d (fields.map (·.1)) sources [] with
        | Option.none => Option.none
        | Option.some extra =>
          if findDup (fields.map (·.1) ++ extra.map (·.1)) ||
             !(d.all fun f => fields.any (·.1 == f.1) || extra.any (·.1 == f.1)) then Option.none else
          match lowerFields cx sc d fields with
          | Option.some fs' => Option.some (.struct name (fs' ++ extra.map (fun x => (x.1, x.2.1))) sources, .struct name)
          | Option.none => Option.none
  | .ite c t f => match lowerExpr cx sc c, lowerExpr cx sc t, lowerExpr cx sc f with
    | Option.some (c', ct), Option.some (t', tt), Option.some (f', ft) =>
      if ct.fits .bool then (unify tt ft).map (fun ty => (.ite c' t' f', ty)) else Option.none
    | _, _, _ => Option.none
  | .todo => Option.some (.todo, .never)
  | .call f args => match cx.sigs.find? (·.1 == f) with
    | Option.none => Option.none
    | Option.some (_, params, rt) =>
      if params.length != args.length then Option.none else
      match lowerArgs cx sc (params.map (·.2)) args with
      | Option.some args' => Option.some (.call f args', rt)
      | Option.none => Option.none
  | .ffi mname fname _ args =>
    if !cx.uses.contains mname then Option.none else
    match indexOf? (cx.ffiMods.map (·.1)) mname with
    | Option.none => Option.none
    | Option.some mi => match cx.ffiMods[mi]? with
      | Option.none => Option.none
      | Option.some (_, fns) => match indexOf? (fns.map (·.name)) fname with
        | Option.none => Option.none
        | Option.some pi => match fns[pi]? with
          | Option.none => Option.none
          | Option.some sig =>
            if sig.args.length != args.length then Option.none else
            match lowerArgs cx sc sig.args args with
            | Option.some args' => Option.some (.ffi mname fname (Option.some (mi, pi)) args', sig.ret)
            | Option.none => Option.none
  | .ret e => match lowerExpr cx sc e with
    | Option.some (e', t) => if t.fits cx.retTy then Option.some (.ret e', .never) else Option.none
    | Option.none => Option.none
  | .var x => (scopeGet cx sc x).map (fun t => (.var x, t))
  | .enumRef name variant _ => match cx.enums.find? (·.1 == name) with
    | Option.none => Option.none
    | Option.some (_, vs) => (indexOf? vs variant).map (fun i => (.enumRef name variant (Int.ofNat i), .enum name))
  | .and a b => match lowerExpr cx sc a, lowerExpr cx sc b with
    | Option.some (a', ta), Option.some (b', tb) => (unifyAs ta tb .bool).map (fun _ => (.and a' b', .bool))
    | _, _ => Option.none
  | .or a b => match lowerExpr cx sc a, lowerExpr cx sc b with
    | Option.some (a', ta), Option.some (b', tb) => (unifyAs ta tb .bool).map (fun _ => (.or a' b', .bool))
    | _, _ => Option.none
  | .coalesce a b => match lowerExpr cx sc a with
    | Option.some (a', .optional it) => match lowerExpr cx sc b with
      | Option.some (b', tb) => (unify it tb).map (fun ty => (.coalesce a' b', ty))
      | Option.none => Option.none
    | _ => Option.none
  | .dot e f => match lowerExpr cx sc e with
    | Option.some (e', .struct sn) => match cx.structDef sn with
      | Option.none => Option.none
      | Option.some d => (d.find? (·.1 == f)).map (fun ft => (.dot e' f, ft.2))
    | _ => Option.none
  | .eq a b => match lowerExpr cx sc a, lowerExpr cx sc b with
    | Option.some (a', ta), Option.some (b', tb) => (unify ta tb).map (fun _ => (.eq a' b', .bool))
    | _, _ => Option.none
  | .ne a b => match lowerExpr cx sc a, lowerExpr cx sc b with
    | Option.some (a', ta), Option.some (b', tb) => (unify ta tb).map (fun _ => (.ne a' b', .bool))
    | _, _ => Option.none
  | .gt a b => match lowerExpr cx sc a, lowerExpr cx sc b with
    | Option.some (a', ta), Option.some (b', tb) => (unifyAs ta tb .int).map (fun _ => (.gt a' b', .bool))
    | _, _ => Option.none
  | .lt a b => match lowerExpr cx sc a, lowerExpr cx sc b with
    | Option.some (a', ta), Option.some (b', tb) => (unifyAs ta tb .int).map (fun _ => (.lt a' b', .bool))
    | _, _ => Option.none
  | .ge a b => match lowerExpr cx sc a, lowerExpr cx sc b with
    | Option.some (a', ta), Option.some (b', tb) => (unifyAs ta tb .int).map (fun _ => (.ge a' b', .bool))
    | _, _ => Option.none
  | .le a b => match lowerExpr cx sc a, lowerExpr cx sc b with
    | Option.some (a', ta), Option.some (b', tb) => (unifyAs ta tb .int).map (fun _ => (.le a' b', .bool))
    | _, _ => Option.none
  | .not e => match lowerExpr cx sc e with
    | Option.some (e', t) => (checkType t .bool).map (fun ty => (.not e', ty))
    | Option.none => Option.none
  | .is e s => match lowerExpr cx sc e with
    | Option.some (e', .optional _) => Option.some (.is e' s, .bool)
    | _ => Option.none
  | .block ss e => match lowerStmts cx ([] :: sc) ss with
    | Option.none => Option.none
    | Option.some (ss', sc') => match lowerExpr cx sc' e with
      | Option.some (e', t) => Option.some (.block ss' e', t)
      | Option.none => Option.none
  | .substruct e sub => match cx.structDef sub with
    | Option.none => Option.none
    | Option.some sd => match lowerExpr cx sc e with
      | Option.some (e', .struct ln) => match cx.structDef ln with
        | Option.none => Option.none
        | Option.some ld =>
          if sd.all (fun f => ld.any (fun g => g.1 == f.1 && g.2.matchesT f.2)) then Option.some (.substruct e' sub, .struct sub)
          else Option.none
      | _ => Option.none
  | .cast e to => match cx.structDef to with
    | Option.none => Option.none
    | Option.some rd => match lowerExpr cx sc e with
      | Option.some (e', .struct ln) => match cx.structDef ln with
        | Option.none => Option.none
        | Option.some ld =>
          if ld.length == rd.length && ld.all (fun f => rd.any (fun g => g.1 == f.1 && f.2.matchesT g.2)) then
            Option.some (.cast e' to, .struct to)
          else Option.none
      | _ => Option.none
  | .mtch scrut arms =>
    let pats := patsOfE arms
    match scanPats {} pats with
    | Option.none => Option.none
    | Option.some scan =>
      if (pats.filter (fun | .default => true | _ => false)).length > 1 then Option.none else
      match lowerExpr cx sc scrut with
      | Option.none => Option.none
      | Option.some (scrut', st0) =>
        if !defaultOk pats then Option.none else
        match lowerArmsE cx sc st0 Option.none arms with
        | Option.some (st, Option.some ty, arms') =>
          if missingDefault cx st scan.all (pats.any (fun | .default => true | _ => false)) then Option.none
          else Option.some (.mtch scrut' arms', ty)
        | _ => Option.none

def lowerArgs (cx : LCtx) (sc : Scopes) : List Ty → List Expr → Option (List Expr)
  | _, [] => Option.some []
  | [], _ :: _ => Option.some []
  | pt :: pts, e :: es => match lowerExpr cx sc e with
    | Option.some (e', t) => if t.fits pt then (lowerArgs cx sc pts es).map (e' :: ·) else Option.none
    | Option.none => Option.none

def lowerFields (cx : LCtx) (sc : Scopes) (d : List (Nat × Ty)) : List (Nat × Expr) → Option (List (Nat × Expr))
  | [] => Option.some []
  | (k, e) :: rest => match d.find? (·.1 == k) with
    | Option.none => Option.none
    | Option.some (_, ft) => match lowerExpr cx sc e with
      | Option.some (e', t) => if t.fits ft then (lowerFields cx sc d rest).map ((k, e') :: ·) else Option.none
      | Option.none => Option.none

/-- patterns: literals are lowered and unified into the scrutinee type, binding patterns are
checked against the (refined) scrutinee type and annotated with the type they bind -/
def lowerPatValsE (cx : LCtx) (sc : Scopes) : Ty → List Expr → Option (Ty × List Expr × List (Nat × Ty))
  | st, [] => Option.some (st, [], [])
  | st, v :: vs =>
    if isLiteral v then
      match lowerExpr cx sc v with
      | Option.none => Option.none
      | Option.some (v', vt) => match unify st vt with
        | Option.none => Option.none
        | Option.some st' => (lowerPatValsE cx sc st' vs).map (fun (s, out, bs) => (s, v' :: out, bs))
    else match v, st with
      | .ok (.var x), .result okT _ => (lowerPatValsE cx sc st vs).map (fun (s, out, bs) => (s, v :: out, (x, okT) :: bs))
      | .err (.var x), .result _ errT => (lowerPatValsE cx sc st vs).map (fun (s, out, bs) => (s, v :: out, (x, errT) :: bs))
      | .some (.var x), .optional it => (lowerPatValsE cx sc st vs).map (fun (s, out, bs) => (s, v :: out, (x, it) :: bs))
      | _, _ => Option.none

/-- one arm's pattern: refined scrutinee type, lowered pattern, bindings -/
def lowerPat (cx : LCtx) (sc : Scopes) : Ty → Pat → Option (Ty × Pat × List (Nat × Ty))
  | st, .default => Option.some (st, Pat.default, [])
  | st, .values vs => (lowerPatValsE cx sc st vs).map (fun (s, vs', bs) => (s, Pat.values vs', bs))

/-- arms of a match expression, one pass: the arm's patterns refine the scrutinee type, its
bindings are added to a fresh scope, the body is lowered and unified with the other arms -/
def lowerArmsE (cx : LCtx) (sc : Scopes) : Ty → Option Ty → List (Pat × Expr) → Option (Ty × Option Ty × List (Pat × Expr))
  | st, ty, [] => Option.some (st, ty, [])
  | st, ty, (pat, body) :: rest =>
    match lowerPat cx sc st pat with
    | Option.none => Option.none
    | Option.some (st', pat', bs) =>
      match bs.foldl (fun acc (b : Nat × Ty) => acc.bind (fun s => scopeAdd cx s b.1 b.2)) (Option.some ([] :: sc)) with
      | Option.none => Option.none
      | Option.some sc' => match lowerExpr cx sc' body with
        | Option.none => Option.none
        | Option.some (body', bt) =>
          match (match ty with
            | Option.none => Option.some bt
            | Option.some t => unify t bt) with
          | Option.none => Option.none
          | Option.some t => (lowerArmsE cx sc st' (Option.some t) rest).map (fun (s, r, out) => (s, r, (pat', body') :: out))

def lowerArmsS (cx : LCtx) (sc : Scopes) : Ty → List (Pat × List Stmt) → Option (Ty × List (Pat × List Stmt))
  | st, [] => Option.some (st, [])
  | st, (pat, body) :: rest =>
    match lowerPat cx sc st pat with
    | Option.none => Option.none
    | Option.some (st', pat', bs) =>
      match bs.foldl (fun acc (b : Nat × Ty) => acc.bind (fun s => scopeAdd cx s b.1 b.2)) (Option.some ([] :: sc)) with
      | Option.none => Option.none
      | Option.some sc' => match lowerStmts cx sc' body with
        | Option.none => Option.none
        | Option.some (body', _) => (lowerArmsS cx sc st' rest).map (fun (s, out) => (s, (pat', body') :: out))

def lowerStmts (cx : LCtx) : Scopes → List Stmt → Option (List Stmt × Scopes)
  | sc, [] => Option.some ([], sc)
  | sc, s :: ss => match lowerStmt cx sc s with
    | Option.none => Option.none
    | Option.some (s', sc') => (lowerStmts cx sc' ss).map (fun (out, r) => (s' :: out, r))

def lowerStmt (cx : LCtx) (sc : Scopes) : Stmt → Option (Stmt × Scopes)
  | .let_ x e => match lowerExpr cx sc e with
    | Option.some (e', t) => (scopeAdd cx sc x t).map (fun sc' => (.let_ x e', sc'))
    | Option.none => Option.none
  | .check c els => match lowerExpr cx sc c, lowerExpr cx sc els with
    | Option.some (c', ct), Option.some (els', et) =>
      if ct.fits .bool && et == .never then Option.some (.check c' els', sc) else Option.none
    | _, _ => Option.none
  | .mtch scrut arms =>
    let pats := patsOfS arms
    match scanPats {} pats with
    | Option.none => Option.none
    | Option.some scan =>
      if (pats.filter (fun | .default => true | _ => false)).length > 1 then Option.none else
      match lowerExpr cx sc scrut with
      | Option.none => Option.none
      | Option.some (scrut', st0) =>
        if !defaultOk pats then Option.none else
        match lowerArmsS cx sc st0 arms with
        | Option.some (st, arms') =>
          if missingDefault cx st scan.all (pats.any (fun | .default => true | _ => false)) then Option.none
          else Option.some (.mtch scrut' arms', sc)
        | Option.none => Option.none
  | .ifS branches hasElse els => match lowerBranches cx sc branches with
    | Option.none => Option.none
    | Option.some bs' =>
      if hasElse then (lowerStmts cx ([] :: sc) els).map (fun (els', _) => (.ifS bs' true els', sc))
      else Option.some (.ifS bs' false [], sc)
  | .ret e => match lowerExpr cx sc e with
    | Option.some (e', t) => if t.fits cx.retTy then Option.some (.ret e', sc) else Option.none
    | Option.none => Option.none
  | .dassert e => match lowerExpr cx sc e with
    | Option.some (e', t) => (checkType t .bool).map (fun _ => (.dassert e', sc))
    | Option.none => Option.none

def lowerBranches (cx : LCtx) (sc : Scopes) : List (Expr × List Stmt) → Option (List (Expr × List Stmt))
  | [] => Option.some []
  | (c, ss) :: rest => match lowerExpr cx sc c with
    | Option.some (c', ct) =>
      if ct.fits .bool then
        match lowerStmts cx ([] :: sc) ss with
        | Option.some (ss', _) => (lowerBranches cx sc rest).map ((c', ss') :: ·)
        | Option.none => Option.none
      else Option.none
    | Option.none => Option.none
end

/-! ## Definitions pass + functions -/

/-- parsed program (names interned) -/
structure SProgram where
  uses : List Nat
  enums : List (Nat × List Nat)
  structs : List (Nat × List (Nat × Ty))
  globals : List (Nat × Expr)
  funs : List FunDef

/-- `ConstValue::vtype` -/
def constVtype : Val → Ty
  | .unit => .unit | .int _ => .int | .bool _ => .bool | .str _ => .string | .id _ => .id
  | .enum n _ => .enum n | .struct n _ => .struct n | .ident _ => .never
  | .none => .optional .never | .some v => .optional (constVtype v)
  | .ok v => .result (constVtype v) .never | .err v => .result .never (constVtype v)

def Val.vtype (v : Val) : Ty := constVtype v

/-- `expression_value` for the literal forms (global lets) -/
def constValue (enums : List (Nat × List Nat)) (structs : List (Nat × List (Nat × Ty))) : Nat → Expr → Option Val
  | 0, _ => Option.none
  | _ + 1, .unit => Option.some .unit
  | _ + 1, .int n => Option.some (.int n)
  | _ + 1, .bool b => Option.some (.bool b)
  | _ + 1, .str s => Option.some (.str s)
  | _ + 1, .none => Option.some .none
  | n + 1, .some e => (constValue enums structs n e).map .some
  | n + 1, .ok e => (constValue enums structs n e).map .ok
  | n + 1, .err e => (constValue enums structs n e).map .err
  | _ + 1, .enumRef name variant _ => match enums.find? (·.1 == name) with
    | Option.none => Option.none
    | Option.some (_, vs) => (indexOf? vs variant).map (fun i => .enum name (Int.ofNat i))
  | n + 1, .struct name fields srcs =>
    -- checked like a struct literal in a function body: no duplicate field, every field of the
    -- definition given, only fields of the definition, every value of the declared type
    if !srcs.isEmpty then Option.none else
    match structs.find? (·.1 == name) with
    | Option.none => Option.none
    | Option.some (_, d) =>
      if findDup (fields.map (·.1)) || !(d.all fun f => fields.any (·.1 == f.1)) then Option.none else
      (fields.foldl (fun acc (f : Nat × Expr) => match acc, constValue enums structs n f.2, d.find? (·.1 == f.1) with
        | Option.some fs, Option.some v, Option.some (_, ft) =>
          if (constVtype v).fits ft then Option.some (setField fs f.1 v) else Option.none
        | _, _, _ => Option.none) (Option.some [])).map (.struct name)
  | _ + 1, _ => Option.none

def directDeps (fs : List (Nat × Ty)) : List Nat :=
  fs.filterMap fun | (_, .struct n) => Option.some n | _ => Option.none

/-- order in which `sorted_type_definitions` yields the structs: depth-first post-order over
"has a field of type `struct X`", roots in source order; `none` on a cycle -/
def topoVisit (all : List (Nat × List (Nat × Ty))) : Nat → List Nat → List Nat → Nat → Option (List Nat)
  | 0, _, _, _ => Option.none
  | fuel + 1, path, done, n =>
    if done.contains n then Option.some done
    else if path.contains n then Option.none
    else match all.find? (·.1 == n) with
      | Option.none => Option.some done   -- undefined dependency: reported when the field type is checked
      | Option.some (_, fs) =>
        match (directDeps fs).foldl (fun acc d => acc.bind (fun dn => topoVisit all fuel (n :: path) dn d)) (Option.some done) with
        | Option.some done' => Option.some (done' ++ [n])
        | Option.none => Option.none

def topoOrder (all : List (Nat × List (Nat × Ty))) : Option (List Nat) :=
  all.foldl (fun acc s => acc.bind (fun dn => topoVisit all (all.length + 1) [] dn s.1)) (Option.some [])

def builtinSigs : List (Nat × List (Nat × Ty) × Ty) :=
  (List.range builtinNames.length).map fun i =>
    (i, [(0, Ty.int), (0, Ty.int)], if builtinRet[i]? == Option.some "int" then Ty.int else Ty.optional .int)

structure Lowered where
  prog : Program
  uses : List Nat

def lowerFun (cx : LCtx) (fd : FunDef) : Option FunDef :=
  if findDup (fd.params.map (·.1)) then Option.none
  else if !(fd.params.all (fun p => typeDefined cx p.2)) || !typeDefined cx fd.ret then Option.none
  else match fd.params.reverse.foldl (fun acc (p : Nat × Ty) => acc.bind (fun s => scopeAdd cx s p.1 p.2)) (Option.some [[]]) with
    | Option.none => Option.none
    | Option.some sc => match lowerStmts { cx with retTy := fd.ret } sc fd.body with
      | Option.some (body', _) => Option.some { fd with body := body' }
      | Option.none => Option.none

def lowerProgram (ffiMods : List (Nat × List FfiSig)) (ffi : Nat → Nat → List Val → FfiRes) (sp : SProgram) : Option Program :=
  -- enums
  if findDup (sp.enums.map (·.1)) || sp.enums.any (fun e => findDup e.2) then Option.none else
  -- structs
  if findDup (sp.structs.map (·.1)) then Option.none else
  match topoOrder sp.structs with
  | Option.none => Option.none
  | Option.some order =>
    let cx0 : LCtx := { enums := sp.enums, structs := [], globals := [], sigs := [], ffiMods := ffiMods, uses := sp.uses, retTy := .unit }
    let defined := order.foldl (fun (acc : Option LCtx) n => acc.bind fun cx =>
      match sp.structs.find? (·.1 == n) with
      | Option.none => Option.some cx
      | Option.some (_, fs) =>
        if findDup (fs.map (·.1)) || !(fs.all (fun f => typeDefined cx f.2)) then Option.none
        else Option.some { cx with structs := cx.structs ++ [(n, fs)] }) (Option.some cx0)
    match defined with
    | Option.none => Option.none
    | Option.some cx1 =>
      -- global lets
      let gl := sp.globals.foldl (fun (acc : Option (List (Nat × Val))) g => acc.bind fun gs =>
        match constValue sp.enums cx1.structs 64 g.2 with
        | Option.none => Option.none
        | Option.some v => if gs.any (·.1 == g.1) then Option.none else Option.some (gs ++ [(g.1, v)])) (Option.some [])
      match gl with
      | Option.none => Option.none
      | Option.some globals =>
        let sigs := builtinSigs ++ sp.funs.map (fun fd => (fd.name, fd.params, fd.ret))
        if findDup (sigs.map (·.1)) then Option.none else
        let cx : LCtx := { cx1 with globals := globals.map (fun g => (g.1, g.2.vtype)), sigs := sigs }
        match sp.funs.foldl (fun (acc : Option (List FunDef)) fd => acc.bind fun out =>
            (lowerFun cx fd).map (fun fd' => out ++ [fd'])) (Option.some []) with
        | Option.none => Option.none
        | Option.some funs =>
          Option.some { enums := sp.enums, structs := sp.structs, globals := globals, funs := funs, ffi := ffi }

end AranyaV.Lang
