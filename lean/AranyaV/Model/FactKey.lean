import AranyaV.Gen.FactKeyTags
/-!
# Fact-key byte encoding (`crates/aranya-runtime/src/vm_policy/io.rs`: `ser_key`, `deser_key`)

A fact key `FactKey { identifier, value : HashableValue }` is stored as

    be64(identifier.len) ++ identifier ++ [tag] ++ value_bytes

with `tag = KeyType as u8` (generated: `AranyaV.Gen.FactKeyTags`) and `value_bytes`

* `Int i`      : `i64::to_be_bytes(i ^ (1 << 63))`  (sign-bit flip, big-endian)
* `Bool b`     : `[0]` / `[1]`
* `String s`   : the UTF-8 bytes of `s`
* `Id id`      : the 32 bytes of the id
* `Enum(n, v)` : `i64::to_be_bytes(v ^ (1 << 63)) ++ n` (value first, then the enum's name)

`i64` values are modelled as `Int` (the two's-complement image `toU64` is what is xor-ed, as in
the code: `int ^ (1 << 63)` is a bit operation on the 64-bit pattern); strings / identifiers /
ids are their byte lists.  `deser_key` checks UTF-8 (`core::str::from_utf8`), identifier syntax
(`Identifier::validate`) and "no NUL" (`Text::validate`); these are modelled by the functions
`utf8Valid`, `identOk`, `textOk` below.

The storage compares `Keys` (`Box<[Box<[u8]>]>`, derived `Ord`) lexicographically, component
by component, each component being a byte string compared lexicographically: `blt` / `compsLt`.
-/
namespace AranyaV.FactKey
open AranyaV.Gen.FactKeyTags

abbrev Bytes := List UInt8

/-! ## byte-string order (`<[u8] as Ord>`), component-wise order (`Keys`) -/

/-- strict lexicographic order on byte strings (a proper prefix is smaller) -/
def blt : Bytes → Bytes → Bool
  | [], [] => false
  | [], _ :: _ => true
  | _ :: _, [] => false
  | a :: as, b :: bs => a < b || (a == b && blt as bs)

/-- strict lexicographic order on sequences of byte strings (derived `Ord` of `Keys`) -/
def compsLt : List Bytes → List Bytes → Bool
  | [], [] => false
  | [], _ :: _ => true
  | _ :: _, [] => false
  | a :: as, b :: bs => blt a b || (a == b && compsLt as bs)

/-! ## integers -/

def two63 : Nat := 2 ^ signBit
def two64 : Nat := 2 * two63

/-- an `i64` -/
def isI64 (i : Int) : Prop := -(two63 : Int) ≤ i ∧ i < (two63 : Int)

instance (i : Int) : Decidable (isI64 i) := by unfold isI64; infer_instance

/-- two's-complement bit pattern of an `i64`, as a natural number `< 2^64` -/
def toU64 (i : Int) : Nat := (i % (two64 : Int)).toNat

/-- the `i64` with a given bit pattern (`n < 2^64`) -/
def ofU64 (n : Nat) : Int := if n < two63 then (n : Int) else (n : Int) - (two64 : Int)

/-- `x ^ (1 << 63)` on the bit pattern -/
def flip (n : Nat) : Nat := n ^^^ two63

/-- `k` big-endian bytes of `n` (`to_be_bytes`; `n < 256^k`) -/
def be : Nat → Nat → Bytes
  | 0, _ => []
  | k + 1, n => UInt8.ofNat (n / 256 ^ k % 256) :: be k (n % 256 ^ k)

/-- inverse of `be` (`from_be_bytes`) -/
def unbe : Bytes → Nat
  | [] => 0
  | b :: bs => b.toNat * 256 ^ bs.length + unbe bs

/-- the 8 bytes stored for an integer key: `i64::to_be_bytes(i ^ (1 << 63))` -/
def intBytes (i : Int) : Bytes := be 8 (flip (toU64 i))

/-- `i64::from_be_bytes(bytes) ^ (1 << 63)` (for exactly 8 bytes) -/
def intOfBytes (bs : Bytes) : Int := ofU64 (flip (unbe bs))

/-! ## key values -/

/-- `HashableValue` -/
inductive HVal where
  | int (i : Int)
  | bool (b : Bool)
  | str (s : Bytes)
  | id (b : Bytes)
  | enum (name : Bytes) (v : Int)
deriving DecidableEq, Repr, Inhabited

/-- `FactKey` -/
structure Key where
  ident : Bytes
  val : HVal
deriving DecidableEq, Repr, Inhabited

def tagOf : HVal → Nat
  | .int _ => serInt
  | .bool _ => serBool
  | .str _ => serString
  | .id _ => serId
  | .enum _ _ => serEnum

def valBytes : HVal → Bytes
  | .int i => intBytes i
  | .bool b => [if b then 1 else 0]
  | .str s => s
  | .id b => b
  | .enum n v => intBytes v ++ n

/-- `ser_key` -/
def serKey (k : Key) : Bytes :=
  be 8 k.ident.length ++ k.ident ++ [UInt8.ofNat (tagOf k.val)] ++ valBytes k.val

/-- `ser_keys` -/
def serKeys (ks : List Key) : List Bytes := ks.map serKey

/-! ## validity of the pieces (`Identifier::validate`, `Text::validate`, `from_utf8`) -/

def isAlpha (b : UInt8) : Bool := (65 ≤ b && b ≤ 90) || (97 ≤ b && b ≤ 122)
def isAlnum (b : UInt8) : Bool := isAlpha b || (48 ≤ b && b ≤ 57)
def tailOk (b : UInt8) : Bool := isAlnum b || b == 95

/-- `Identifier::validate` -/
def identOk : Bytes → Bool
  | [] => false
  | b :: rest => isAlpha b && rest.all tailOk

/-- `Text::validate`: no NUL byte -/
def textOk (s : Bytes) : Bool := !s.contains 0

def cont (b : UInt8) : Bool := 0x80 ≤ b && b ≤ 0xBF
def second3 (b0 b1 : UInt8) : Bool :=
  if b0 = 0xE0 then 0xA0 ≤ b1 && b1 ≤ 0xBF
  else if b0 = 0xED then 0x80 ≤ b1 && b1 ≤ 0x9F
  else cont b1
def second4 (b0 b1 : UInt8) : Bool :=
  if b0 = 0xF0 then 0x90 ≤ b1 && b1 ≤ 0xBF
  else if b0 = 0xF4 then 0x80 ≤ b1 && b1 ≤ 0x8F
  else cont b1

/-- `core::str::from_utf8(..).is_ok()` (RFC 3629) -/
def utf8Valid : Bytes → Bool
  | [] => true
  | b0 :: rest =>
    if b0 ≤ 0x7F then utf8Valid rest
    else if 0xC2 ≤ b0 && b0 ≤ 0xDF then
      match rest with
      | b1 :: r => cont b1 && utf8Valid r
      | _ => false
    else if 0xE0 ≤ b0 && b0 ≤ 0xEF then
      match rest with
      | b1 :: b2 :: r => second3 b0 b1 && cont b2 && utf8Valid r
      | _ => false
    else if 0xF0 ≤ b0 && b0 ≤ 0xF4 then
      match rest with
      | b1 :: b2 :: b3 :: r => second4 b0 b1 && cont b2 && cont b3 && utf8Valid r
      | _ => false
    else false

/-- size of `BaseId` -/
def idSize : Nat := 32

/-- what a `HashableValue` can be in the real code -/
def HVal.Valid : HVal → Prop
  | .int i => isI64 i
  | .bool _ => True
  | .str s => utf8Valid s = true ∧ textOk s = true
  | .id b => b.length = idSize
  | .enum n v => identOk n = true ∧ isI64 v

def Key.Valid (k : Key) : Prop :=
  identOk k.ident = true ∧ k.ident.length < two64 ∧ k.val.Valid

instance : (v : HVal) → Decidable v.Valid
  | .int _ => by unfold HVal.Valid; infer_instance
  | .bool _ => by unfold HVal.Valid; infer_instance
  | .str _ => by unfold HVal.Valid; infer_instance
  | .id _ => by unfold HVal.Valid; infer_instance
  | .enum _ _ => by unfold HVal.Valid; infer_instance

instance (k : Key) : Decidable k.Valid := by unfold Key.Valid; infer_instance

/-! ## `deser_key` -/

inductive DeErr where
  | missingLen | identTooShort | identNotUtf8 | badIdent | missingTag | badTag
  | badIntLen | badBool | strNotUtf8 | strNul | badIdLen | missingEnumValue
  | enumNotUtf8 | enumBadIdent
deriving DecidableEq, Repr

/-- `deser_key` (on a 64-bit target: `usize::try_from(u64)` cannot fail) -/
def deserKey (bytes : Bytes) : Except DeErr Key :=
  if bytes.length < 8 then .error .missingLen else
  let n := unbe (bytes.take 8)
  let rest := bytes.drop 8
  if n > rest.length then .error .identTooShort else
  let ident := rest.take n
  let rest := rest.drop n
  if !utf8Valid ident then .error .identNotUtf8 else
  if !identOk ident then .error .badIdent else
  match rest with
  | [] => .error .missingTag
  | tag :: vb =>
    if tag.toNat = deInt then
      if vb.length = 8 then .ok ⟨ident, .int (intOfBytes vb)⟩ else .error .badIntLen
    else if tag.toNat = deBool then
      if vb = [0] then .ok ⟨ident, .bool false⟩
      else if vb = [1] then .ok ⟨ident, .bool true⟩
      else .error .badBool
    else if tag.toNat = deString then
      if !utf8Valid vb then .error .strNotUtf8
      else if !textOk vb then .error .strNul
      else .ok ⟨ident, .str vb⟩
    else if tag.toNat = deId then
      if vb.length = idSize then .ok ⟨ident, .id vb⟩ else .error .badIdLen
    else if tag.toNat = deEnum then
      if vb.length < 8 then .error .missingEnumValue else
      let name := vb.drop 8
      if !utf8Valid name then .error .enumNotUtf8
      else if !identOk name then .error .enumBadIdent
      else .ok ⟨ident, .enum name (intOfBytes (vb.take 8))⟩
    else .error .badTag

/-! ## typed order (what the policy author sees) -/

/-- order of two key values of the same type: ints numerically, `false < true`, strings and ids
bytewise, enums by value then name (Rust `(i64, Identifier)` order) -/
def HVal.lt : HVal → HVal → Bool
  | .int a, .int b => decide (a < b)
  | .bool a, .bool b => !a && b
  | .str a, .str b => blt a b
  | .id a, .id b => blt a b
  | .enum n v, .enum m w => decide (v < w) || (v == w && blt n m)
  | _, _ => false

/-- two key values have the same constructor -/
def HVal.sameType : HVal → HVal → Bool
  | .int _, .int _ => true
  | .bool _, .bool _ => true
  | .str _, .str _ => true
  | .id _, .id _ => true
  | .enum _ _, .enum _ _ => true
  | _, _ => false

/-- typed lexicographic order on key tuples -/
def keysLt : List Key → List Key → Bool
  | [], [] => false
  | [], _ :: _ => true
  | _ :: _, [] => false
  | a :: as, b :: bs => a.val.lt b.val || (a == b && keysLt as bs)

end AranyaV.FactKey
