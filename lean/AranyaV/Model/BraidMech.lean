import AranyaV.Spec.Braid
/-!
# Model.BraidMech — the mechanism of `client/braiding.rs::braid`

A functional transliteration of the real algorithm with locations abstracted to command ids:

* the **strand heap** is a list; `pop` takes the minimum of the key `(Priority, CmdId)` (the real heap is
  a max-heap over the *reversed* key); `push` refuses a second finalize (`has_finalize` is modelled as
  "the heap holds a finalize", which is what the flag tracks);
* the **cut-off** `location.max_cut <= lca.max_cut` is the predicate `below`;
* the **convergence map** is a partial function `counts : id → remaining arrivals` holding an entry for
  every command above the cut with at least two children in the braided region (what the
  duplicate-counting BFS of `convergence_map.rs` computes; the BFS itself, its incremental `advance_to`
  and the block/spill storage are abstracted); `shouldContinue` is `should_continue`/`consume_entry`:
  an entry with count `> 1` is decremented and the strand dropped, the last arrival removes the entry
  and continues, a location without an entry continues;
* the **same-segment shortcut** is the parameter `sameSeg p o`
  (`location.same_segment(other.next) && location.max_cut <= other.next.max_cut`);
* **`lone`** is tested after the priors of the popped strand were pushed; the lone strand is pushed to
  the result last, so the iteration (reverse of the pushes) starts with it;
* merge commands are popped but not pushed to the result.

`implBraid` returns the iteration order of the `BraidResult`: the start followed by the commands to
evaluate.
-/
namespace AranyaV.Braid
open AranyaV.Spec AranyaV.Gen

structure MState where
  heap : List Nat
  counts : Nat → Option Nat
  /-- pushes to the `BraidResult`, most recent first -/
  out : List Nat

/-- `StrandHeap::push` -/
def pushStrand (g : Graph) (heap : List Nat) (p : Nat) : Except BraidErr (List Nat) :=
  if isFinalize g p && heap.any (isFinalize g) then .error .parallelFinalize else .ok (heap ++ [p])

/-- the initial `for &head in heads { strands.push(..)? }` -/
def pushHeads (g : Graph) (heap : List Nat) : List Nat → Except BraidErr (List Nat)
  | [] => .ok heap
  | h :: hs =>
    match pushStrand g heap h with
    | .error e => .error e
    | .ok heap' => pushHeads g heap' hs

/-- `ConvergenceMap::should_continue` on an up-to-date map: `(continue?, map')` -/
def shouldContinue (counts : Nat → Option Nat) (p : Nat) : Bool × (Nat → Option Nat) :=
  match counts p with
  | none => (true, counts)
  | some k =>
    if k > 1 then (false, fun q => if q = p then some (k - 1) else counts q)
    else (true, fun q => if q = p then none else counts q)

/-- the `'location: for location in prior` loop -/
def pushPriors (g : Graph) (below : Nat → Bool) (sameSeg : Nat → Nat → Bool) :
    List Nat → List Nat → (Nat → Option Nat) → Except BraidErr (List Nat × (Nat → Option Nat))
  | [], heap, counts => .ok (heap, counts)
  | p :: ps, heap, counts =>
    if below p then pushPriors g below sameSeg ps heap counts
    else
      let r := shouldContinue counts p
      if !r.1 then pushPriors g below sameSeg ps heap r.2
      else if heap.any (fun o => sameSeg p o) then pushPriors g below sameSeg ps heap r.2
      else
        match pushStrand g heap p with
        | .error e => .error e
        | .ok heap' => pushPriors g below sameSeg ps heap' r.2

/-- the `while let Some(strand) = strands.pop()` loop -/
def implLoop (g : Graph) (below : Nat → Bool) (sameSeg : Nat → Nat → Bool) :
    Nat → MState → Except BraidErr (List Nat)
  | 0, _ => .error .malformed
  | fuel + 1, s =>
    match minAvail g s.heap with
    | none => .ok s.out
    | some c =>
      let heap := s.heap.erase c.id
      let out := if isMerge c then s.out else c.id :: s.out
      match pushPriors g below sameSeg c.parents heap s.counts with
      | .error e => .error e
      | .ok (heap', counts') =>
        match heap' with
        | [x] => .ok (x :: out)
        | _ => implLoop g below sameSeg fuel { heap := heap', counts := counts', out := out }

/-- children of `p` inside the region -/
def regionChildCount (g : Graph) (R : List Nat) (p : Nat) : Nat :=
  ((children g p).filter (R.contains ·)).length

/-- the convergence map after the BFS: entries for commands above the cut with ≥ 2 region children -/
def initCounts (g : Graph) (R : List Nat) (below : Nat → Bool) : Nat → Option Nat :=
  fun p => if !below p && R.contains p && decide (2 ≤ regionChildCount g R p)
    then some (regionChildCount g R p) else none

/-- `braid(storage, heads, lca, ..)` followed by `BraidResult::iter` -/
def implBraid (g : Graph) (heads : List Nat) (below : Nat → Bool) (sameSeg : Nat → Nat → Bool) :
    Except BraidErr (List Nat) :=
  match pushHeads g [] heads with
  | .error e => .error e
  | .ok heap =>
    implLoop g below sameSeg g.length
      { heap := heap, counts := initCounts g (ancSelfAll g heads) below, out := [] }

end AranyaV.Braid
