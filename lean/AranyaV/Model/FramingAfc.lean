import AranyaV.Model.FramingSeal
import AranyaV.Gen.CryptoC38
/-!
# Byte-level model of the AFC unidirectional-channel `Info` (C38)

    info = "AfcUniKey-v1" ‖ parent_cmd_id ‖ seal_id ‖ open_id ‖ label_id      (12 + 4·32 = 140 bytes)

used as HPKE `info` (followed by the encoded suite OIDs, `hpke::wrap_info`) by `UniSecrets::new`,
`UniSealKey/UniOpenKey::from_author_secret` and `::from_peer_encap`.
-/
namespace AranyaV.Framing
open Gen.C38

structure ChanBytes where
  parent : Bytes
  sealId : Bytes
  openId : Bytes
  label : Bytes
deriving DecidableEq, Repr

def ChanBytes.get (c : ChanBytes) : ChanField → Bytes
  | .parent => c.parent
  | .sealId => c.sealId
  | .openId => c.openId
  | .label => c.label

/-- `UniChannel::info().as_bytes()` -/
def uniInfo (c : ChanBytes) : Bytes := fixedLayout uniDomain uniLayout c.get

end AranyaV.Framing
