/-!
# Finish blocks: where facts and effects can change (C30)

A model of

* the **statement-context rules** of the policy compiler
  (`crates/aranya-policy-compiler/src/compile/lower.rs`: `lower_statements`,
  `check_finish_expression`, the colour checks on function calls, `lower_recall_call`):
  `accept` says which statement is legal in which context (action, pure function, command `policy`
  block, command `recall` block, `finish` block / finish function);
* the **shape of the code the compiler emits** for an accepted command
  (`crates/aranya-policy-compiler/src/compile.rs`: `compile_typed_statement`,
  `compile_command_policy`, `compile_command_recall`, `compile_function`,
  `compile_finish_function`): a region tree `Code` — plain instructions, `Exit(Panic)` sites,
  the four effectful instructions `Create/Update/Delete/Emit`, branches, calls, `Recall`, and
  *finish regions* `Meta(Finish(true)); body; Exit(reason)`;
* the **run** of such code on the VM as far as facts and effects are concerned
  (`crates/aranya-policy-vm/src/machine.rs`: `Create/Update/Delete` write through `MachineIO`,
  `Emit` calls `io.effect(.., recalled)` with `recalled = (ctx is Recall)`, `Recall` switches the
  context from `Policy` to `Recall` and never back, `Exit(reason)` ends the run).

Data is abstracted: which way a branch goes, and whether an effectful instruction fails with a
machine error, is read from a decision list, over which the theorems quantify.
-/
namespace AranyaV.Finish

/-- `StatementContext` -/
inductive Ctx where
  | action | pureFn | policy | recall | finish
deriving DecidableEq, Repr

/-- expressions, as far as the context rules and the emitted code care -/
inductive Expr where
  | simple              -- literal / identifier / field access / struct literal / enum reference / optional of those
  | compute             -- any other expression without calls (arithmetic, comparisons, queries, …)
  | mayPanic            -- contains `todo()` / `test_fail()` / a stubbed FFI call: an `Exit(Panic)` site
  | call (f : Nat)      -- a call of user function `f` used as an expression
  | recall (r : Nat)    -- `recall r(..)` expression (type `Never`)
  | ret                 -- `return e` expression (type `Never`)
deriving DecidableEq, Repr

inductive EffKind where
  | create | update | delete | emit
deriving DecidableEq, Repr

mutual
  inductive Stmt where
    | letS (e : Expr)
    | check (cond : Expr) (els : Expr)
    | matchS (scrut : Expr) (arms : Arms) (exhaustive : Bool)
    | ifS (cond : Expr) (branches : Arms) (hasElse : Bool)
    | finish (body : Block)
    | eff (k : EffKind) (e : Expr)          -- create / update / delete / emit, `e` = their operand expressions
    | callS (f : Nat)                       -- function-call statement
    | recallS (r : Nat)
    | debugAssert (e : Expr)
    | publish (e : Expr)
    | retS (e : Expr)
    | mapS (body : Block)
    | actionCall (a : Nat)
  inductive Block where
    | nil
    | cons (s : Stmt) (rest : Block)
  inductive Arms where
    | nil
    | cons (b : Block) (rest : Arms)
end

structure FnDef where
  isFinish : Bool
  body : Block

/-- what the context rules look at outside the statement list itself -/
structure Env where
  fns : List FnDef
  nRecalls : Nat        -- number of recall blocks of the enclosing command
  debug : Bool          -- `Compiler::debug(true)`
  /-- `debug_assert` is rejected inside `finish` blocks / finish functions (it is the only
  statement legal there that can emit an `Exit(Panic)`) -/
  strict : Bool

/-! ## the context rules (`lower_statements`) -/

def isFinishFn (env : Env) (f : Nat) : Option Bool := (env.fns[f]?).map (·.isFinish)

/-- `lower_expression` in a context (incl. `check_finish_expression`) -/
def acceptExpr (env : Env) (ctx : Ctx) : Expr → Bool
  | .simple => true
  | .compute => ctx != .finish
  | .mayPanic => ctx != .finish && env.debug
  | .call f => ctx != .finish && isFinishFn env f == some false
  | .recall r => ctx == .policy && r < env.nRecalls
  | .ret => ctx == .pureFn || ctx == .action

/-- type `Never`: what a `check`'s else-expression must be -/
def isTerminal : Expr → Bool
  | .mayPanic | .recall _ | .ret => true
  | _ => false

def plainCtx (ctx : Ctx) : Bool := ctx == .action || ctx == .pureFn || ctx == .policy || ctx == .recall

mutual
  /-- one statement in a context; `last` = it is the last statement of its block -/
  def acceptStmt (env : Env) (ctx : Ctx) (last : Bool) : Stmt → Bool
    | .letS e => plainCtx ctx && acceptExpr env ctx e
    | .check c e => plainCtx ctx && acceptExpr env ctx c && acceptExpr env ctx e && isTerminal e
    | .matchS s arms _ => plainCtx ctx && acceptExpr env ctx s && acceptArms env ctx arms
    | .ifS c arms _ => plainCtx ctx && acceptExpr env ctx c && acceptArms env ctx arms
    | .finish body => (ctx == .policy || ctx == .recall) && last && acceptBlock env .finish body
    | .eff _ e => ctx == .finish && acceptExpr env .finish e
    | .callS f => ctx == .finish && isFinishFn env f == some true
    | .recallS r => ctx == .policy && r < env.nRecalls
    | .debugAssert e => acceptExpr env ctx e && !(env.strict && ctx == .finish)
    | .publish e => ctx == .action && acceptExpr env ctx e
    | .retS e => (ctx == .pureFn || ctx == .action) && acceptExpr env ctx e
    | .mapS body => ctx == .action && acceptBlock env ctx body
    | .actionCall _ => ctx == .action
  def acceptBlock (env : Env) (ctx : Ctx) : Block → Bool
    | .nil => true
    | .cons s rest =>
      acceptStmt env ctx (match rest with | .nil => true | _ => false) s && acceptBlock env ctx rest
  def acceptArms (env : Env) (ctx : Ctx) : Arms → Bool
    | .nil => true
    | .cons b rest => acceptBlock env ctx b && acceptArms env ctx rest
end

/-! ## emitted code, as a region tree -/

inductive ExitR where
  | normal | check | panic
deriving DecidableEq, Repr

mutual
  inductive Node where
    | op                               -- instructions that touch neither facts nor effects and cannot exit
    | exit (r : ExitR)                 -- `Exit(r)`
    | eff (k : EffKind)                -- `Create` / `Update` / `Delete` / `Emit`
    | choice (alts : Alts)             -- conditional control flow: exactly one alternative runs, then the code after it
    | loop (body : Code)               -- `QueryStart` / `QueryNext` loop
    | finishRegion (body : Code) (r : ExitR)   -- `Meta(Finish(true))`, body, `Exit(r)`
    | callFn (f : Nat)                 -- `Call` of a user function
    | recall (r : Nat)                 -- `Recall`: switch to recall context, call recall block `r`
    | ret                              -- `Return`
    | publish                          -- `Publish` (the run yields to the host, which resumes it)
  inductive Code where
    | nil
    | cons (n : Node) (rest : Code)
  inductive Alts where
    | nil
    | cons (c : Code) (rest : Alts)
end

def Code.append : Code → Code → Code
  | .nil, d => d
  | .cons n c, d => .cons n (Code.append c d)

instance : Append Code := ⟨Code.append⟩

def Code.single (n : Node) : Code := .cons n .nil

/-- `compile_typed_expression`, reduced to what matters here -/
def compileExpr : Expr → Code
  | .simple => Code.single .op
  | .compute => Code.single .op
  | .mayPanic => Code.single (.choice (.cons (Code.single .op) (.cons (Code.single (.exit .panic)) .nil)))
  | .call f => .cons .op (Code.single (.callFn f))
  | .recall r => .cons .op (Code.single (.recall r))
  | .ret => .cons .op (Code.single .ret)

mutual
  /-- `compile_typed_statement` -/
  def compileStmt (debug : Bool) (ctx : Ctx) : Stmt → Code
    | .letS e => compileExpr e ++ Code.single .op
    | .check c e => compileExpr c ++ Code.single (.choice (.cons .nil (.cons (compileExpr e) .nil)))
    | .matchS s arms exhaustive =>
      compileExpr s ++ Code.single (.choice (compileArms debug ctx arms
        (if exhaustive then .nil else .cons (Code.single (.exit .panic)) .nil)))
    | .ifS c arms _ =>
      -- every branch, and "no branch taken" (which is also what a missing `else` does)
      compileExpr c ++ Code.single (.choice (compileArms debug ctx arms (.cons .nil .nil)))
    | .finish body =>
      Code.single (.finishRegion (compileBlock debug .finish body)
        (if ctx == .recall then .check else .normal))
    | .eff k e => compileExpr e ++ Code.single (.eff k)
    | .callS f => .cons .op (Code.single (.callFn f))
    | .recallS r => .cons .op (Code.single (.recall r))
    | .debugAssert e =>
      if debug then compileExpr e ++ Code.single (.choice (.cons .nil (.cons (Code.single (.exit .panic)) .nil)))
      else .nil
    | .publish e => compileExpr e ++ Code.single .publish
    | .retS e => compileExpr e ++ Code.single .ret
    | .mapS body => .cons .op (Code.single (.loop (compileBlock debug ctx body)))
    | .actionCall _ => .cons .op (Code.single .op)
  def compileBlock (debug : Bool) (ctx : Ctx) : Block → Code
    | .nil => .nil
    | .cons s rest => compileStmt debug ctx s ++ compileBlock debug ctx rest
  def compileArms (debug : Bool) (ctx : Ctx) : Arms → Alts → Alts
    | .nil, tail => tail
    | .cons b rest, tail => .cons (compileBlock debug ctx b) (compileArms debug ctx rest tail)
end

/-- a command: its `policy` block and its `recall` blocks -/
structure Command where
  policy : Block
  recalls : List Block

/-- everything the compiler emits for one command and the functions it can call -/
structure Program where
  policy : Code
  recalls : List Code
  fns : List Code

/-- `compile_command_policy` (ends in `Exit(Panic)`), `compile_command_recall` (each block ends in
`Exit(Check)`), `compile_function` (ends in `Exit(Panic)`), `compile_finish_function` (ends in
`Return`) -/
def compileProgram (debug : Bool) (fns : List FnDef) (cmd : Command) : Program where
  policy := compileBlock debug .policy cmd.policy ++ Code.single (.exit .panic)
  recalls := cmd.recalls.map fun b => compileBlock debug .recall b ++ Code.single (.exit .check)
  fns := fns.map fun f =>
    if f.isFinish then compileBlock debug .finish f.body ++ Code.single .ret
    else compileBlock debug .pureFn f.body ++ Code.single (.exit .panic)

def acceptProgram (debug strict : Bool) (fns : List FnDef) (cmd : Command) : Bool :=
  let env : Env := ⟨fns, cmd.recalls.length, debug, strict⟩
  acceptBlock env .policy cmd.policy
  && cmd.recalls.all (acceptBlock env .recall)
  && fns.all fun f => acceptBlock { env with nRecalls := 0 } (if f.isFinish then .finish else .pureFn) f.body

/-! ## the run -/

/-- one `MachineIO` side effect: what, the `recalled` flag the VM attached (for fact writes: the
context flag at that moment), and — ghost — whether it was issued by code of a recall block -/
structure Entry where
  kind : EffKind
  recalled : Bool
  inRecallCode : Bool
deriving DecidableEq, Repr

structure St where
  recalled : Bool := false     -- `ctx` is `CommandContext::Recall`
  log : List Entry := []
deriving DecidableEq, Repr

inductive Res where
  | fall (ds : List Nat) (st : St)     -- ran off the end of this code
  | ret (ds : List Nat) (st : St)      -- executed `Return`
  | exit (r : ExitR) (st : St)         -- executed `Exit(r)`
  | err (st : St)                      -- machine error
  | oof                                -- out of fuel
deriving DecidableEq, Repr

def nthAlt : Alts → Nat → Option Code
  | .nil, _ => none
  | .cons c _, 0 => some c
  | .cons _ rest, n + 1 => nthAlt rest n

def Alts.length : Alts → Nat
  | .nil => 0
  | .cons _ rest => rest.length + 1

/-- Run `code` (all recursion is on `fuel`).  `inRecall` is the ghost "this is recall-block code"
flag.  Decisions: a `choice` reads the index of the alternative taken; an effectful instruction
reads whether it fails (non-zero) — e.g. `Update` of a missing fact, `Emit` of a bad struct;
a `loop` reads whether to run the body once more. -/
def run (p : Program) : Nat → Bool → Code → List Nat → St → Res
  | 0, _, _, _, _ => .oof
  | _ + 1, _, .nil, ds, st => .fall ds st
  | fuel + 1, ir, .cons n rest, ds, st =>
    let continue' (r : Res) : Res :=
      match r with
      | .fall ds' st' => run p fuel ir rest ds' st'
      | other => other
    match n with
    | .op => run p fuel ir rest ds st
    | .exit r => .exit r st
    | .eff k =>
      match ds with
      | [] => .err st
      | d :: ds' =>
        if d != 0 then .err st
        else run p fuel ir rest ds' { st with log := st.log ++ [⟨k, st.recalled, ir⟩] }
    | .choice alts =>
      match ds with
      | [] => .err st
      | d :: ds' =>
        match nthAlt alts d with
        | none => .err st
        | some c => continue' (run p fuel ir c ds' st)
    | .loop body =>
      match ds with
      | [] => .err st
      | d :: ds' =>
        if d == 0 then run p fuel ir rest ds' st
        else continue' (run p fuel ir (body ++ Code.single (.loop body)) ds' st)
    | .finishRegion body r =>
      match run p fuel ir body ds st with
      | .fall _ st' => .exit r st'
      | other => other
    | .callFn f =>
      match p.fns[f]? with
      | none => .err st
      | some c =>
        match run p fuel ir c ds st with
        | .ret ds' st' => run p fuel ir rest ds' st'
        | .fall _ st' => .err st'       -- ran past the end of a function: `InvalidAddress`
        | other => other
    | .recall r =>
      match p.recalls[r]? with
      | none => .err st
      | some c =>
        -- the context becomes `Recall`; the recall block never returns (it ends in `Exit(Check)`)
        match run p fuel true c ds { st with recalled := true } with
        | .ret _ st' => .err st'
        | .fall _ st' => .err st'
        | other => other
    | .ret => .ret ds st
    | .publish => run p fuel ir rest ds st

end AranyaV.Finish
