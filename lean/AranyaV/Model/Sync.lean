import AranyaV.Model.Queue
import AranyaV.Model.Segments
import AranyaV.Gen.SyncConsts
/-
Model of the sync mechanism of `aranya_runtime` (crates/aranya-runtime/src/sync/):

* `responder.rs`: `push_bounded`, `skip_jump`, `SyncResponder::find_needed_segments`,
  `SyncResponder::get_commands`, `SyncResponder::get_next`, `SyncResponder::poll`,
  `SyncResponder::dispatch` (the `SyncRequest` arm, also reached through `start_session`);
* `requester.rs`: `SyncRequester::get_sync_commands` (the order check on `response_index` /
  `max_index`) and `SyncRequester::get_commands` (the sample);
* over the segment store of `AranyaV.Model.Segments` (segments with command ids, prior, skip list,
  max cuts) and the traversal queue of `AranyaV.Model.Queue`.

Limits (`COMMAND_SAMPLE_MAX`, `COMMAND_RESPONSE_MAX`, `SEGMENT_BUFFER_MAX`, the capacity of the
`command_data` buffer = `MAX_SYNC_MESSAGE_SIZE`) are a parameter `Limits`; `Limits.real` holds the
values translated from the source on every run.

`find_needed_segments` is written once, generically in the queue operations (`QOps`), and
instantiated twice: with the two-region queue model of C21 (`specOps`, the instance the theorems
are about) and with `VQueue`, an index-faithful transliteration of `TraversalQueue`
(`Vec<Location>` + `partition`, every swap as in the Rust code).  The two differ only in the
*order* in which `drain_above` / `drain_all` hand entries to `push_bounded`, which matters only
for which of several equal-max-cut entries survive when more than `SEGMENT_BUFFER_MAX` segments
are needed.  The driver runs the `VQueue` instance (so it can be compared with the real code
entry for entry) and cross-checks it against the `specOps` instance on every request.

Not modelled: the session id check, `bytes_sent`/`max_bytes` (unused by the Rust code), the
responder's `PeerCache` update in `poll` (C20), storage providers without the graph, the byte
layout of messages (C18): whether a message fits the caller's buffer is an input (`fits`).
`QUEUE_CAPACITY` overflow of the traversal queues is not modelled (unbounded lists).
-/
namespace AranyaV.Sync
open AranyaV.Queue AranyaV.Segments

structure Limits where
  /-- `COMMAND_SAMPLE_MAX` -/
  sampleMax : Nat
  /-- `COMMAND_RESPONSE_MAX` -/
  responseMax : Nat
  /-- `SEGMENT_BUFFER_MAX` -/
  segmentMax : Nat
  /-- capacity of `command_data: Vec<u8, MAX_SYNC_MESSAGE_SIZE>` -/
  dataMax : Nat
deriving Repr, DecidableEq, Inhabited

def Limits.real : Limits :=
  { sampleMax := AranyaV.Gen.Sync.commandSampleMax
    responseMax := AranyaV.Gen.Sync.commandResponseMax
    segmentMax := AranyaV.Gen.Sync.segmentBufferMax
    dataMax := AranyaV.Gen.Sync.maxSyncMessageSize }

/-! ## small list helpers -/

/-- index of the LAST maximum by max cut (`Iterator::max_by_key` returns the last maximum) -/
def lastMaxIdx : List Loc → Option Nat
  | [] => none
  | x :: xs =>
    match lastMaxIdx xs with
    | none => some 0
    | some j => if x.mc > (xs.getD j x).mc then some 0 else some (j + 1)

/-- `push_bounded(v, loc)` with `cap = SEGMENT_BUFFER_MAX`.  For `cap = 0` the Rust code panics
(`expect("non-empty")`); the model returns `v` there and every theorem assumes `1 ≤ cap`. -/
def pushBounded (cap : Nat) (v : List Loc) (loc : Loc) : List Loc :=
  if v.length < cap then v ++ [loc]
  else
    match lastMaxIdx v with
    | none => v
    | some i => if loc.mc < (v.getD i loc).mc then v.set i loc else v

/-- stable insertion, descending by max cut (`sort_by_key(|l| Reverse(l.max_cut))`) -/
def insertDesc (x : Loc) : List Loc → List Loc
  | [] => [x]
  | y :: ys => if y.mc < x.mc then x :: y :: ys else y :: insertDesc x ys

def sortDesc (l : List Loc) : List Loc := l.foldl (fun acc x => insertDesc x acc) []

/-- insertion into a list sorted by the derived `Ord` of `Location` (`collected.sort()`) -/
def insertLoc (x : Loc) : List Loc → List Loc
  | [] => [x]
  | y :: ys => if x.ble y then x :: y :: ys else y :: insertLoc x ys

def sortLoc (l : List Loc) : List Loc := l.foldr insertLoc []

/-- `segment.longest_max_cut()`: a `Bug` on an empty segment -/
def _root_.AranyaV.Segments.Seg.longest (g : Seg) : Except Err Nat :=
  if g.ids.isEmpty then .error .bug else .ok (g.first + (g.ids.length - 1))

/-- `Segment::get_from(location)`: the command ids from `location` to the end of the segment -/
def _root_.AranyaV.Segments.Seg.getFrom (g : Seg) (l : Loc) : List Nat :=
  if g.idx = l.seg ∧ g.first ≤ l.mc then g.ids.drop (l.mc - g.first) else []

/-- `Segment::head_address` -/
def _root_.AranyaV.Segments.Seg.headAddr (g : Seg) : Except Err Addr :=
  match g.ids.getLast?, g.longest with
  | some i, .ok m => .ok ⟨i, m⟩
  | _, _ => .error .bug

/-! ## skip_jump -/

def priorBelow (p : Prior) (target : Nat) : Bool :=
  match p with
  | .single q => q.mc < target
  | .merge a b => a.mc < target || b.mc < target
  | .none => true

/-- the `loop` of `skip_jump` -/
def skipJumpLoop (s : Store) (target : Nat) : Nat → Loc → Except Err Loc
  | 0, _ => .error .fuel
  | n + 1, current =>
    match s.seg? current.seg with
    | none => .error .segmentOutOfBounds
    | some g =>
      match minByMc (g.skips.filter (fun k => target ≤ k.mc ∧ k.mc < current.mc)) with
      | some k => skipJumpLoop s target n k
      | none =>
        if priorBelow g.prior target then .ok current
        else
          match g.prior with
          | .single p => skipJumpLoop s target n p
          | _ => .ok current

/-- `skip_jump(storage, head, target)` -/
def skipJump (s : Store) (head : Loc) (target : Nat) : Except Err Loc :=
  if head.mc ≤ target then .ok head else skipJumpLoop s target (head.mc + 1) head

/-! ## find_needed_segments, generic in the queue -/

structure QOps (Q : Type) where
  empty : Q
  pushCovered : Q → Loc → Bool → Q
  popCovered : Q → Option (Loc × Bool) × Q
  drainAbove : Q → Nat → List Loc × Q
  drainAll : Q → List Loc × Q
  coverUpTo : Q → Nat → Nat → Nat → Q
  allCovered : Q → Bool
  isEmpty : Q → Bool

/-- the queue model of C21 -/
def specOps : QOps Queue where
  empty := Queue.new
  pushCovered := Queue.pushCovered
  popCovered := Queue.popCovered
  drainAbove := Queue.drainAbove
  drainAll := Queue.drainAll
  coverUpTo := Queue.coverUpTo
  allCovered := Queue.allCovered
  isEmpty := Queue.isEmpty

/-- resolve the sample to locations: `get_location` per address, unknown addresses dropped -/
def resolve (s : Store) (heads : List Loc) : List Addr → Except Err (List Loc)
  | [] => .ok []
  | a :: as =>
    match getLocation s heads a with
    | .error e => .error e
    | .ok r =>
      match resolve s heads as with
      | .error e => .error e
      | .ok ls => .ok (r.toList ++ ls)

/-- the first have-location in the scan window that lies in segment `seg`:
`for scan in have_cursor.. { if hloc.max_cut < shortest {break}; if hloc.segment == head.segment {..} }` -/
def scanHave (seg shortest : Nat) : List Loc → Option Loc
  | [] => none
  | h :: t => if h.mc < shortest then none else if h.seg = seg then some h else scanHave seg shortest t

structure FnsState (Q : Type) where
  hq : Q
  pq : Q
  coll : List Loc
  prev : Option Nat
  /-- `have_locations[have_cursor..]` -/
  rem : List Loc

/-- seed the heads queue: `for head in heads { heads.push(skip_jump(head, skip_target)) }` -/
def seedHeads {Q : Type} (ops : QOps Q) (s : Store) (target : Nat) : List Loc → Q → Except Err Q
  | [], q => .ok q
  | h :: hs, q =>
    match skipJump s h target with
    | .error e => .error e
    | .ok st => seedHeads ops s target hs (ops.pushCovered q st false)

def pushPriorsCov {Q : Type} (ops : QOps Q) (q : Q) (ps : List Loc) (c : Bool) : Q :=
  ps.foldl (fun q p => ops.pushCovered q p c) q

/-- flush pending entries whose max cut is above the just-popped entry's:
`if prev_max_cut != Some(head.max_cut) { pending.drain_above(head.max_cut, |loc| push_bounded(..)) }` -/
def flushAbove {Q : Type} (ops : QOps Q) (cap : Nat) (pq : Q) (coll : List Loc) (prev : Option Nat)
    (mc : Nat) : Q × List Loc :=
  if prev != some mc then
    ((ops.drainAbove pq mc).2, (ops.drainAbove pq mc).1.foldl (pushBounded cap) coll)
  else (pq, coll)

/-- the three cases of one iteration (covered / contains a have-location / neither), given the
heads queue without the popped entry and the flushed pending queue -/
def fnsVisit {Q : Type} (ops : QOps Q) (s : Store) (hq1 pq1 : Q) (coll1 rem : List Loc) (head : Loc)
    (covered : Bool) : Except Err (FnsState Q) :=
  match s.seg? head.seg with
  | none => .error .segmentOutOfBounds
  | some g =>
    match g.longest with
    | .error e => .error e
    | .ok longest =>
      if covered then
        -- Case 1: the peer has this segment up to `head.max_cut`
        .ok ⟨pushPriorsCov ops hq1 g.prior.toList true,
             ops.coverUpTo pq1 head.seg head.mc longest, coll1, some head.mc, rem⟩
      else
        let rem1 := rem.dropWhile (fun h => h.mc > longest)
        match scanHave head.seg g.first rem1 with
        | some hloc =>
          -- Case 2: the segment contains a have-location
          .ok ⟨pushPriorsCov ops hq1 g.prior.toList true,
               if hloc.mc < longest then ops.pushCovered pq1 ⟨hloc.mc + 1, head.seg⟩ false else pq1,
               coll1, some head.mc, rem1⟩
        | none =>
          -- Case 3: uncovered, no have-location
          .ok ⟨pushPriorsCov ops hq1 g.prior.toList false,
               ops.pushCovered pq1 g.firstLoc false, coll1, some head.mc, rem1⟩

/-- one iteration of the `while let Some((head, covered)) = heads.pop_covered()` loop, after the
pop (`hq1` is the heads queue without the popped entry), up to the early-termination test -/
def fnsStep {Q : Type} (ops : QOps Q) (cap : Nat) (s : Store) (st : FnsState Q) (head : Loc)
    (covered : Bool) (hq1 : Q) : Except Err (FnsState Q) :=
  fnsVisit ops s hq1 (flushAbove ops cap st.pq st.coll st.prev head.mc).1
    (flushAbove ops cap st.pq st.coll st.prev head.mc).2 st.rem head covered

/-- the `while let Some((head, covered)) = heads.pop_covered()` loop; after every iteration:
`if heads.all_covered() && !heads.is_empty() { break }` -/
def fnsLoop {Q : Type} (ops : QOps Q) (cap : Nat) (s : Store) :
    Nat → FnsState Q → Except Err (FnsState Q)
  | 0, _ => .error .fuel
  | n + 1, st =>
    match ops.popCovered st.hq with
    | (none, _) => .ok st
    | (some (head, covered), hq1) =>
      match fnsStep ops cap s st head covered hq1 with
      | .error e => .error e
      | .ok st' =>
        if ops.allCovered st'.hq && !ops.isEmpty st'.hq then .ok st' else fnsLoop ops cap s n st'

/-- `have_locations.first().map(|l| l.max_cut).unwrap_or(MaxCut::new(0))` (after the descending sort:
the highest max cut of the sample) -/
def headMc : List Loc → Nat
  | [] => 0
  | h :: _ => h.mc

/-- `SyncResponder::find_needed_segments(commands, storage)`; `heads` = committed head locations -/
def findNeededG {Q : Type} (ops : QOps Q) (lim : Limits) (s : Store) (heads : List Loc)
    (commands : List Addr) : Except Err (List Loc) :=
  if commands.length > lim.sampleMax then .error .bug
  else
    match resolve s heads commands with
    | .error e => .error e
    | .ok locs =>
      let haves := sortDesc locs
      match seedHeads ops s (headMc haves + lim.segmentMax) heads ops.empty with
      | .error e => .error e
      | .ok hq =>
        match fnsLoop ops lim.segmentMax s s.fuel ⟨hq, ops.empty, [], none, haves⟩ with
        | .error e => .error e
        | .ok st =>
          let (em, _) := ops.drainAll st.pq
          .ok (sortLoc (em.foldl (pushBounded lim.segmentMax) st.coll))

def findNeeded (lim : Limits) (s : Store) (heads : List Loc) (commands : List Addr) :
    Except Err (List Loc) :=
  findNeededG specOps lim s heads commands

/-! ## an index-faithful `TraversalQueue` (driver only) -/

structure VQueue where
  entries : Array Loc := #[]
  partition : Nat := 0
deriving Repr, Inhabited

namespace VQueue

def swap (a : Array Loc) (i j : Nat) : Array Loc :=
  match a[i]?, a[j]? with
  | some x, some y => (a.setIfInBounds i y).setIfInBounds j x
  | _, _ => a

/-- `Vec::swap_remove(i)` -/
def swapRemove (a : Array Loc) (i : Nat) : Array Loc :=
  match a.back? with
  | none => a
  | some l => (a.setIfInBounds i l).pop

def pushCovered (q : VQueue) (loc : Loc) (covered : Bool) : VQueue :=
  match q.entries.findIdx? (fun x => x.seg == loc.seg) with
  | some i =>
    let e := q.entries.getD i loc
    let wasCovered := i ≥ q.partition
    if loc.mc > e.mc then
      let ent := q.entries.setIfInBounds i ⟨loc.mc, e.seg⟩
      if !wasCovered && covered then
        { entries := swap ent i (q.partition - 1), partition := q.partition - 1 }
      else if wasCovered && !covered then
        { entries := swap ent i q.partition, partition := q.partition + 1 }
      else { q with entries := ent }
    else if loc.mc == e.mc then
      let newCovered := wasCovered || covered
      if !wasCovered && newCovered then
        { entries := swap q.entries i (q.partition - 1), partition := q.partition - 1 }
      else q
    else q
  | none =>
    let ent := q.entries.push loc
    if !covered then
      { entries := swap ent q.partition (ent.size - 1), partition := q.partition + 1 }
    else { q with entries := ent }

/-- index of the last maximum under `Loc.ble` -/
def maxIdx (a : Array Loc) : Option Nat :=
  (List.range a.size).foldl (fun acc i =>
    match acc with
    | none => some i
    | some j => if (a.getD j default).ble (a.getD i default) then some i else some j) none

def removeUncovered (q : VQueue) (i : Nat) : Loc × VQueue :=
  let p := q.partition - 1
  let ent := swap q.entries i p
  (ent.getD p default, { entries := swapRemove ent p, partition := p })

def popCovered (q : VQueue) : Option (Loc × Bool) × VQueue :=
  match maxIdx q.entries with
  | none => (none, q)
  | some i =>
    if i < q.partition then
      let (l, q') := q.removeUncovered i
      (some (l, false), q')
    else (some (q.entries.getD i default, true), { q with entries := swapRemove q.entries i })

/-- the uncovered pass of `drain_above` -/
def drainUnc (thr : Nat) : Nat → Nat → VQueue → List Loc → List Loc × VQueue
  | 0, _, q, acc => (acc, q)
  | f + 1, i, q, acc =>
    if i < q.partition then
      if (q.entries.getD i default).mc > thr then
        let (l, q') := q.removeUncovered i
        drainUnc thr f i q' (acc ++ [l])
      else drainUnc thr f (i + 1) q acc
    else (acc, q)

/-- the covered pass of `drain_above` -/
def drainCov (thr : Nat) : Nat → Nat → Array Loc → Array Loc
  | 0, _, a => a
  | f + 1, i, a =>
    if i < a.size then
      if (a.getD i default).mc > thr then drainCov thr f i (swapRemove a i)
      else drainCov thr f (i + 1) a
    else a

def drainAbove (q : VQueue) (thr : Nat) : List Loc × VQueue :=
  let (em, q1) := drainUnc thr (2 * q.entries.size + 2) 0 q []
  (em, { q1 with entries := drainCov thr (2 * q1.entries.size + 2) q1.partition q1.entries })

def drainAll (q : VQueue) : List Loc × VQueue :=
  ((q.entries.toList.take q.partition), {})

def coverUpTo (q : VQueue) (seg cmc lmc : Nat) : VQueue :=
  match q.entries.findIdx? (fun x => x.seg == seg) with
  | none => q
  | some i =>
    if i ≥ q.partition then q
    else if cmc ≥ lmc then
      { entries := swap q.entries i (q.partition - 1), partition := q.partition - 1 }
    else
      let e := q.entries.getD i default
      if cmc ≥ e.mc then { q with entries := q.entries.setIfInBounds i ⟨cmc + 1, e.seg⟩ } else q

def ops : QOps VQueue where
  empty := {}
  pushCovered := pushCovered
  popCovered := popCovered
  drainAbove := drainAbove
  drainAll := drainAll
  coverUpTo := coverUpTo
  allCovered := fun q => q.partition == 0
  isEmpty := fun q => q.entries.isEmpty

end VQueue

/-! ## the responder: get_commands / get_next / poll -/

inductive RState where
  | new | start | send | idle | reset | stopped
deriving DecidableEq, Repr, Inhabited

inductive SErr where
  | notReady
  | commandOverflow
  | missingSyncResponse
  | sessionState
  | storage (e : Err)
deriving DecidableEq, Repr, Inhabited

structure Responder where
  state : RState := .new
  has : List Addr := []
  toSend : List Loc := []
  nextSend : Nat := 0
  msgIndex : Nat := 0
deriving DecidableEq, Repr, Inhabited

/-- what one call of `get_commands` decides -/
structure Batch where
  /-- ids of the commands put into the response, in order -/
  cmds : List Nat
  /-- bytes appended to `command_data` -/
  used : Nat
  /-- the new `next_send` -/
  next : Nat
  /-- `to_send[i] := loc` (the response filled up inside segment entry `i`) -/
  resume : Option (Nat × Loc)
deriving DecidableEq, Repr, Inhabited

/-- The `for i in self.next_send..self.to_send.len()` loop of `get_commands`; the first argument is
`to_send[i..]`, `acc` the commands gathered so far, `used` the bytes in `command_data`; `sz` gives
the stored size (policy + payload bytes) of a command. -/
def gcLoop (lim : Limits) (s : Store) (sz : Nat → Nat) :
    List Loc → Nat → List Nat → Nat → Except SErr Batch
  | [], i, acc, used => .ok ⟨acc, used, i, none⟩
  | loc :: rest, i, acc, used =>
    if acc.length ≥ lim.responseMax then .ok ⟨acc, used, i, none⟩
    else
      match s.seg? loc.seg with
      | none => .error (.storage .segmentOutOfBounds)
      | some g =>
        let found := g.getFrom loc
        let take := found.take (lim.responseMax - acc.length)
        let used' := used + (take.map sz).sum
        if used' > lim.dataMax then .error .commandOverflow
        else if take.length < found.length then
          .ok ⟨acc ++ take, used', i, some (i, ⟨loc.mc + take.length, loc.seg⟩)⟩
        else gcLoop lim s sz rest (i + 1) (acc ++ take) used'

/-- `SyncResponder::get_commands` -/
def getCommands (lim : Limits) (s : Store) (sz : Nat → Nat) (r : Responder) : Except SErr Batch :=
  gcLoop lim s sz (r.toSend.drop r.nextSend) r.nextSend [] 0

inductive PollOut where
  | response (index : Nat) (cmds : List Nat)
  | syncEnd (maxIndex : Nat)
  | endSession
  /-- the caller's buffer cannot hold the message (`BufferTooSmall` / postcard buffer full) -/
  | tooSmall
  | err (e : SErr)
deriving DecidableEq, Repr, Inhabited

def applyResume (ts : List Loc) : Option (Nat × Loc) → List Loc
  | none => ts
  | some (i, l) => ts.set i l

/-- `SyncResponder::get_next`; `fits` says whether the whole message fits the caller's buffer.
A message that does not fit leaves the session where it was. -/
def getNext (lim : Limits) (s : Store) (sz : Nat → Nat) (r : Responder) (fits : Bool) :
    Responder × PollOut :=
  if r.nextSend ≥ r.toSend.length then
    if fits then ({ r with state := .idle }, .syncEnd r.msgIndex) else (r, .tooSmall)
  else
    match getCommands lim s sz r with
    | .error e => ({ r with state := .reset }, .err e)
    | .ok b =>
      if fits then
        ({ r with msgIndex := r.msgIndex + 1, nextSend := b.next, toSend := applyResume r.toSend b.resume },
          .response r.msgIndex b.cmds)
      else (r, .tooSmall)

/-- the `SyncRequest` arm of `dispatch` (also `start_session`, which first refuses more than
`COMMAND_SAMPLE_MAX` heads) -/
def Responder.startSession (lim : Limits) (r : Responder) (commands : List Addr) :
    Except SErr Responder :=
  if commands.length > lim.sampleMax then .error .commandOverflow
  else .ok { r with state := .start, has := commands, toSend := [], nextSend := 0 }

/-- `SyncResponder::poll` (generic in the queue used by `find_needed_segments`) -/
def pollG {Q : Type} (ops : QOps Q) (lim : Limits) (s : Store) (heads : List Loc) (sz : Nat → Nat)
    (r : Responder) (fits : Bool) : Responder × PollOut :=
  match r.state with
  | .new | .idle | .stopped => (r, .err .notReady)
  | .start =>
    match findNeededG ops lim s heads r.has with
    | .error e => ({ r with state := .send }, .err (.storage e))
    | .ok ts => getNext lim s sz { r with state := .send, toSend := ts } fits
  | .send => getNext lim s sz r fits
  | .reset => ({ r with state := .stopped }, if fits then .endSession else .tooSmall)

def poll (lim : Limits) (s : Store) (heads : List Loc) (sz : Nat → Nat) (r : Responder)
    (fits : Bool) : Responder × PollOut :=
  pollG specOps lim s heads sz r fits

/-! ## the requester: order check and sample -/

inductive QState where
  | new | start | waiting | idle | closed | resync | partialSync | reset
deriving DecidableEq, Repr, Inhabited

structure Requester where
  state : QState := .new
  nextIndex : Nat := 0
deriving DecidableEq, Repr, Inhabited

/-- `SyncRequester::get_sync_commands` on a well-formed message of the right session -/
def Requester.receive (q : Requester) : PollOut → Requester × Except SErr (Option (List Nat))
  | .response idx cmds =>
    if q.state = .start ∨ q.state = .waiting then
      if idx ≠ q.nextIndex then ({ q with state := .resync }, .error .missingSyncResponse)
      else ({ state := .waiting, nextIndex := q.nextIndex + 1 }, .ok (some cmds))
    else (q, .error .sessionState)
  | .syncEnd m =>
    if q.state = .start ∨ q.state = .waiting then
      if m ≠ q.nextIndex then ({ q with state := .resync }, .error .missingSyncResponse)
      else ({ q with state := .partialSync }, .ok none)
    else (q, .error .sessionState)
  | .endSession => ({ q with state := .closed }, .ok none)
  | .tooSmall => (q, .ok none)
  | .err _ => (q, .ok none)

/-- one entry of the requester's `PeerCache`: address and location -/
structure CacheHead where
  addr : Addr
  loc : Loc
deriving DecidableEq, Repr, Inhabited

/-- `location == peer_cache_loc || is_ancestor(location, peer_cache_loc)` for some cache location -/
def hitsCache (s : Store) (location : Loc) : List Loc → Except Err Bool
  | [] => .ok false
  | pc :: rest =>
    if location = pc then .ok true
    else
      match isAncestor s location pc with
      | .error e => .error e
      | .ok true => .ok true
      | .ok false => hitsCache s location rest

/-- the `'current: for &location in &current` loop: returns (commands, next) -/
def sampleRound (lim : Limits) (s : Store) (cacheLocs : List Loc) :
    List Loc → List Addr → List Loc → Except Err (List Addr × List Loc)
  | [], cmds, next => .ok (cmds, next)
  | location :: rest, cmds, next =>
    match hitsCache s location cacheLocs with
    | .error e => .error e
    | .ok true => sampleRound lim s cacheLocs rest cmds next
    | .ok false =>
      match s.seg? location.seg with
      | none => .error .segmentOutOfBounds
      | some g =>
        match g.headAddr with
        | .error e => .error e
        | .ok a =>
          let cmds := cmds ++ [a]
          let next := next ++ g.prior.toList
          if cmds.length ≥ lim.sampleMax then .ok (cmds, next)
          else sampleRound lim s cacheLocs rest cmds next

/-- the `while commands.len() < COMMAND_SAMPLE_MAX && !current.is_empty()` loop -/
def sampleLoop (lim : Limits) (s : Store) (cacheLocs : List Loc) :
    Nat → List Loc → List Addr → Except Err (List Addr)
  | 0, _, _ => .error .fuel
  | n + 1, current, cmds =>
    if cmds.length < lim.sampleMax ∧ !current.isEmpty then
      match sampleRound lim s cacheLocs current cmds [] with
      | .error e => .error e
      | .ok (cmds', next) => sampleLoop lim s cacheLocs n next cmds'
    else .ok cmds

/-- `SyncRequester::get_commands` without an open transaction (`session` = `None`): the cache
heads first, then the head addresses of the most recent segments, breadth first from every
committed head, not descending below a cache head. -/
def sample (lim : Limits) (s : Store) (heads : List Loc) (cache : List CacheHead) :
    Except Err (List Addr) :=
  let cmds := (cache.map (·.addr)).take lim.sampleMax
  sampleLoop lim s (cache.map (·.loc)) (s.allLocs.length + 2) heads cmds

end AranyaV.Sync
