import AranyaV.Model.Segments
import AranyaV.Gen.ConstsPeerCache
/-
Model of `PeerCache::add_command` (crates/aranya-runtime/src/sync/responder.rs).

The cache is `heapless::Vec<LocatedAddress, PEER_HEAD_MAX>`; an entry is `(id, location)`.
`add_command(storage, addr)`:
  * `storage.get_location(addr)` (search from the COMMITTED heads); `None` → nothing happens;
  * `new = (addr.id, (loc.segment, addr.max_cut))`;
  * `heads.retain(|h| retain_head(h).unwrap_or(false))` where `retain_head(old)` is
      - `old.id == new.id || is_ancestor(new, old)?`  → clear the `add_command` flag, keep `old`;
      - `is_ancestor(old, new)?`                      → drop `old`;
      - otherwise keep `old`;
    an error of `is_ancestor` makes `unwrap_or(false)` drop the entry (modelled as is);
  * if the flag is still set: `heads.push(new).ok()` — silently dropped when the vector is full
    (the `TODO(jdygert): Replace an old head when full?` in the source; modelled as is).
-/
namespace AranyaV.PeerCache
open AranyaV.Queue (Loc)
open AranyaV.Segments

/-- `LocatedAddress` -/
structure Head where
  id : Nat
  loc : Loc
deriving DecidableEq, Repr, Inhabited

/-- the closure `retain_head`: `(retain, clears the add flag)` -/
def retainHead (s : Store) (new old : Head) : Bool × Bool :=
  if old.id = new.id then (true, true)
  else
    match isAncestor s new.loc old.loc with
    | .error _ => (false, false)       -- `?` then `unwrap_or(false)`
    | .ok true => (true, true)
    | .ok false =>
      match isAncestor s old.loc new.loc with
      | .error _ => (false, false)
      | .ok true => (false, false)
      | .ok false => (true, false)

/-- `Vec::retain` with the side effect on `add_command`; returns (kept entries, add flag) -/
def retainLoop (s : Store) (new : Head) : List Head → Bool → List Head × Bool
  | [], add => ([], add)
  | old :: rest, add =>
    let (keep, clear) := retainHead s new old
    let (r, a) := retainLoop s new rest (add && !clear)
    (if keep then old :: r else r, a)

/-- `PeerCache::add_command`; `heads` are the committed heads of the storage, `cap` is
`PEER_HEAD_MAX` -/
def addCommandCap (cap : Nat) (s : Store) (heads : List Loc) (cache : List Head) (a : Addr) :
    Except Err (List Head) :=
  match getLocation s heads a with
  | .error e => .error e
  | .ok none => .ok cache
  | .ok (some loc) =>
    let new : Head := ⟨a.id, ⟨a.mc, loc.seg⟩⟩
    let (kept, add) := retainLoop s new cache true
    .ok (if add then (if kept.length < cap then kept ++ [new] else kept) else kept)

def addCommand (s : Store) (heads : List Loc) (cache : List Head) (a : Addr) :
    Except Err (List Head) :=
  addCommandCap AranyaV.Gen.peerHeadMax s heads cache a

/-- a whole sequence of `add_command` calls (an error stops the sequence) -/
def addAll (cap : Nat) (s : Store) (heads : List Loc) : List Head → List Addr → Except Err (List Head)
  | cache, [] => .ok cache
  | cache, a :: as =>
    match addCommandCap cap s heads cache a with
    | .error e => .error e
    | .ok c => addAll cap s heads c as

end AranyaV.PeerCache
