/-!
# Spec.Sync — what a sync session must deliver (storage independent)

Commands are elements of any type with decidable equality (ids, or locations in the
responder's store); `par c` lists the parents of command `c` in the one DAG both
replicas' graphs are sub-DAGs of (same id ⇒ same command ⇒ same parents).  A replica's committed
graph is a parents-closed finite set of ids, given as a list.

`A` is the requester's graph, `B` the responder's, `hv ⊆ A` the sample the requester sends.
`needed B hv = B \ anc*(hv ∩ B)`.  A *session outcome* is a list `D` of delivered commands with
  (i)   `D ⊆ B`,
  (ii)  every parent of a delivered command is delivered too or already held by the requester,
  (iii) if the requester lacks anything of `B`, the session delivers at least one command it lacks.
`StrictOutcome` is the stronger form of the design (`D ⊆ needed`, closed within `needed`); it
implies `Outcome`.  The mechanism realises `Outcome` but not always `D ⊆ needed` (it may re-send
commands the sample already covers, see notes/C16.md), which is why the convergence theorems
are stated for `Outcome`.
-/
namespace AranyaV.Spec.Sync

variable {α : Type} [DecidableEq α]

/-- ancestor-or-self in the DAG given by `par` -/
inductive AncS (par : α → List α) : α → α → Prop
  | refl (a : α) : AncS par a a
  | step {a m b : α} : AncS par a m → m ∈ par b → AncS par a b

/-- parents-closed -/
def Closed (par : α → List α) (S : List α) : Prop := ∀ c ∈ S, ∀ p ∈ par c, p ∈ S

/-- `c ∈ B \ anc*(hv ∩ B)` -/
def Needed (par : α → List α) (B hv : List α) (c : α) : Prop :=
  c ∈ B ∧ ¬ ∃ h, h ∈ hv ∧ h ∈ B ∧ AncS par c h

structure Outcome (par : α → List α) (A B D : List α) : Prop where
  sound : ∀ c ∈ D, c ∈ B
  closed : ∀ c ∈ D, ∀ p ∈ par c, p ∈ D ∨ p ∈ A
  progress : (∃ c ∈ B, c ∉ A) → ∃ c ∈ D, c ∉ A

structure StrictOutcome (par : α → List α) (A B hv D : List α) : Prop where
  needed : ∀ c ∈ D, Needed par B hv c
  closed : ∀ c ∈ D, ∀ p ∈ par c, Needed par B hv p → p ∈ D
  progress : (∃ c ∈ B, c ∉ A) → ∃ c ∈ D, c ∉ A

theorem closed_anc {par : α → List α} {S : List α} (hS : Closed par S) {a b : α}
    (h : AncS par a b) (hb : b ∈ S) : a ∈ S := by
  induction h with
  | refl => exact hb
  | step _ hm ih => exact ih (hS _ hb _ hm)

/-- the design's outcome (relative to the sample) is an outcome in the sense used here -/
theorem StrictOutcome.outcome {par : α → List α} {A B hv D : List α}
    (hA : Closed par A) (hB : Closed par B) (hhv : ∀ h ∈ hv, h ∈ A)
    (h : StrictOutcome par A B hv D) : Outcome par A B D where
  sound c hc := (h.needed c hc).1
  closed c hc p hp := by
    have hpB : p ∈ B := hB c (h.needed c hc).1 p hp
    by_cases hn : Needed par B hv p
    · exact Or.inl (h.closed c hc p hp hn)
    · right
      have : ∃ x, x ∈ hv ∧ x ∈ B ∧ AncS par p x := by
        apply Classical.byContradiction
        intro hne
        exact hn ⟨hpB, hne⟩
      obtain ⟨x, hx, _, hax⟩ := this
      exact closed_anc hA hax (hhv x hx)
  progress := h.progress

/-- the requester's graph after ingesting a session's commands -/
def ingest (A D : List α) : List α := A ++ D

theorem ingest_closed {par : α → List α} {A B D : List α} (hA : Closed par A)
    (h : Outcome par A B D) : Closed par (ingest A D) := by
  intro c hc p hp
  simp only [ingest, List.mem_append] at hc ⊢
  rcases hc with hc | hc
  · exact Or.inl (hA c hc p hp)
  · rcases h.closed c hc p hp with h1 | h1
    · exact Or.inr h1
    · exact Or.inl h1

/-- the commands of `B` the requester lacks -/
def missing (A B : List α) : List α := B.filter (fun c => !A.contains c)

theorem mem_missing {A B : List α} {c : α} : c ∈ missing A B ↔ c ∈ B ∧ c ∉ A := by
  simp [missing]

theorem missing_nil_iff {A B : List α} : missing A B = [] ↔ ∀ c ∈ B, c ∈ A := by
  simp [missing, List.filter_eq_nil_iff]

theorem countP_le_of_imp {l : List α} {p q : α → Bool} (h : ∀ x ∈ l, p x = true → q x = true) :
    l.countP p ≤ l.countP q := by
  induction l with
  | nil => simp
  | cons a l ih =>
    have ih' := ih (fun x hx => h x (List.mem_cons_of_mem _ hx))
    have ha := h a (List.mem_cons_self ..)
    simp only [List.countP_cons]
    cases hp : p a <;> cases hq : q a <;> simp_all
    omega

theorem countP_lt_of_imp {l : List α} {p q : α → Bool} (h : ∀ x ∈ l, p x = true → q x = true)
    {w : α} (hw : w ∈ l) (hq : q w = true) (hp : p w = false) : l.countP p < l.countP q := by
  induction l with
  | nil => cases hw
  | cons a l ih =>
    simp only [List.countP_cons]
    have hle := countP_le_of_imp (fun x hx => h x (List.mem_cons_of_mem _ hx))
    rcases List.mem_cons.mp hw with rfl | hw'
    · simp [hq, hp]; omega
    · have := ih (fun x hx => h x (List.mem_cons_of_mem _ hx)) hw'
      have ha := h a (List.mem_cons_self ..)
      cases hpa : p a <;> cases hqa : q a <;> simp_all
      omega

/-- **Each session delivers at least one missing command while any are missing**: the number of
missing commands never grows and strictly shrinks while it is positive. -/
theorem session_progress {par : α → List α} {A B D : List α} (h : Outcome par A B D) :
    (missing (ingest A D) B).length ≤ (missing A B).length ∧
    (missing A B ≠ [] → (missing (ingest A D) B).length < (missing A B).length) := by
  have himp : ∀ x ∈ B, (!(ingest A D).contains x) = true → (!A.contains x) = true := by
    intro x _ hx
    simp only [ingest, Bool.not_eq_true', List.contains_eq_mem, List.mem_append,
      decide_eq_false_iff_not, not_or] at hx ⊢
    exact hx.1
  simp only [missing, ← List.countP_eq_length_filter]
  refine ⟨countP_le_of_imp himp, ?_⟩
  intro hne
  have : ∃ c ∈ B, c ∉ A := by
    apply Classical.byContradiction
    intro hn
    apply hne
    show missing A B = []
    exact missing_nil_iff.mpr (fun c hc => Classical.byContradiction fun hca => hn ⟨c, hc, hca⟩)
  obtain ⟨w, hwD, hwA⟩ := h.progress this
  exact countP_lt_of_imp himp (h.sound w hwD) (by simpa using hwA)
    (by simp [ingest, hwD])

/-- `Run par B A n A'`: `n` consecutive sessions against the responder's graph `B` take the
requester's graph from `A` to `A'`; every session's outcome is arbitrary within `Outcome` -/
inductive Run (par : α → List α) (B : List α) : List α → Nat → List α → Prop
  | done (A : List α) : Run par B A 0 A
  | session {A D A' : List α} {n : Nat} :
      Outcome par A B D → Run par B (ingest A D) n A' → Run par B A (n + 1) A'

/-- **Repeated sync delivers everything**: after `n` sessions at most `|B \ A| - n` commands of
`B` are still missing, whatever each session chose to deliver within `Outcome`; in particular
`|B \ A|` sessions suffice for `B ⊆ A'`. -/
theorem sessions_converge {par : α → List α} {B A A' : List α} {n : Nat}
    (h : Run par B A n A') :
    (missing A' B).length ≤ (missing A B).length - n ∧
    ((missing A B).length ≤ n → ∀ c ∈ B, c ∈ A') := by
  have key : (missing A' B).length ≤ (missing A B).length - n := by
    induction h with
    | done A => simp
    | @session A D A' n ho _ ih =>
      have ⟨h1, h2⟩ := session_progress ho
      by_cases he : missing A B = []
      · have : (missing (ingest A D) B).length = 0 := by rw [he] at h1; simpa using h1
        rw [this] at ih; rw [he]; simpa using ih
      · have := h2 he
        omega
  refine ⟨key, fun hle => ?_⟩
  have : (missing A' B).length = 0 := by omega
  exact missing_nil_iff.mp (List.length_eq_zero_iff.mp this)

/-- the requester's graph only grows, stays parents-closed, and stays within `A ∪ B` -/
theorem run_invariants {par : α → List α} {B A A' : List α} {n : Nat}
    (hA : Closed par A) (h : Run par B A n A') :
    Closed par A' ∧ (∀ c ∈ A, c ∈ A') ∧ (∀ c ∈ A', c ∈ A ∨ c ∈ B) := by
  induction h with
  | done A => exact ⟨hA, fun _ h => h, fun _ h => Or.inl h⟩
  | @session A D A' n ho _ ih =>
    obtain ⟨h1, h2, h3⟩ := ih (ingest_closed hA ho)
    refine ⟨h1, fun c hc => h2 c (by simp [ingest, hc]), fun c hc => ?_⟩
    rcases h3 c hc with h | h
    · simp only [ingest, List.mem_append] at h
      rcases h with h | h
      · exact Or.inl h
      · exact Or.inr (ho.sound c h)
    · exact Or.inr h

/-- **Syncing in both directions until neither side receives anything makes the replicas
converge**: if a session `A ← B` delivers nothing new to `A` and a session `B ← A` delivers nothing
new to `B`, both hold the same command set. -/
theorem bidirectional {par : α → List α} {A B D₁ D₂ : List α}
    (h₁ : Outcome par A B D₁) (q₁ : ∀ c ∈ D₁, c ∈ A)
    (h₂ : Outcome par B A D₂) (q₂ : ∀ c ∈ D₂, c ∈ B) : ∀ c, c ∈ A ↔ c ∈ B := by
  intro c
  constructor
  · intro hc
    apply Classical.byContradiction
    intro hn
    obtain ⟨w, hw, hwn⟩ := h₂.progress ⟨c, hc, hn⟩
    exact hwn (q₂ w hw)
  · intro hc
    apply Classical.byContradiction
    intro hn
    obtain ⟨w, hw, hwn⟩ := h₁.progress ⟨c, hc, hn⟩
    exact hwn (q₁ w hw)

/-- a session `A ← B` does not change what `B` lacks of `A` -/
theorem missing_other_unchanged {par : α → List α} {A B D : List α} (h : Outcome par A B D) :
    missing B (ingest A D) = missing B A := by
  simp only [missing, ingest, List.filter_append]
  have : List.filter (fun c => !B.contains c) D = [] := by
    rw [List.filter_eq_nil_iff]
    intro c hc
    simpa using h.sound c hc
  rw [this, List.append_nil]

/-- one round of bidirectional sync (`A ← B`, then `B ← A'`): the total number of commands either
side lacks strictly decreases unless the replicas already hold the same commands — so syncing both
ways reaches quiescence, where `bidirectional` applies, after at most `|B \ A| + |A \ B|` rounds -/
theorem round_progress {par : α → List α} {A B D₁ D₂ : List α}
    (h₁ : Outcome par A B D₁) (h₂ : Outcome par B (ingest A D₁) D₂) :
    (missing (ingest A D₁) (ingest B D₂)).length + (missing (ingest B D₂) (ingest A D₁)).length
        ≤ (missing A B).length + (missing B A).length ∧
    ((missing A B).length + (missing B A).length ≠ 0 →
      (missing (ingest A D₁) (ingest B D₂)).length + (missing (ingest B D₂) (ingest A D₁)).length
        < (missing A B).length + (missing B A).length) := by
  have a1 := session_progress h₁
  have a2 : missing B (ingest A D₁) = missing B A := missing_other_unchanged h₁
  have b1 := session_progress h₂
  have b2 : missing (ingest A D₁) (ingest B D₂) = missing (ingest A D₁) B :=
    missing_other_unchanged h₂
  rw [b2]
  rw [a2] at b1
  refine ⟨by omega, fun hne => ?_⟩
  by_cases hz : missing A B = []
  · have hz' : (missing B A).length ≠ 0 := by simpa [hz] using hne
    have : missing B A ≠ [] := by intro h; rw [h] at hz'; simp at hz'
    have := b1.2 this
    omega
  · have := a1.2 hz
    omega

end AranyaV.Spec.Sync
