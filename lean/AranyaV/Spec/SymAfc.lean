import AranyaV.Spec.SymHpke
import AranyaV.Gen.CryptoC38
/-!
# Spec.SymAfc — symbolic model of AFC unidirectional channel keys (C38)

`UniSecrets::new`, `UniSealKey::from_author_secret`, `UniOpenKey::from_peer_encap` (HPKE auth mode
with the channel's root secret as the deterministic ephemeral key), `SealKey::seal` /
`OpenKey::open`, and the role checks of `Handler::uni_channel_created` / `uni_channel_received`.
-/
namespace AranyaV.Sym
open Gen.C38

/-- the four channel parameters that go into `Info` -/
structure Chan where
  parent : Term
  sealId : Term
  openId : Term
  label : Term
deriving DecidableEq, Repr

def Chan.get (c : Chan) : ChanField → Term
  | .parent => c.parent
  | .sealId => c.sealId
  | .openId => c.openId
  | .label => c.label

/-- `UniChannel::info()` (fixed-width record: domain literal, then the fields in layout order) -/
def uniInfo (c : Chan) : Term := tuple (.lit uniDomain :: uniLayout.map fun p => c.get p.1)

/-- `UniSecrets::new`: the encapsulation sent to the peer; `none` = `Err` -/
def authorEncap (ourSk root : Nat) (theirPk : Term) (c : Chan) : Option Term :=
  if c.sealId = c.openId then none
  else (setupSend (some ourSk) root theirPk (uniInfo c)).map (·.1)

/-- `Uni{Seal,Open}Key::from_author_secret`: the raw key the author derives -/
def authorKey (ourSk root : Nat) (theirPk : Term) (c : Chan) : Option HpkeKeys :=
  if c.sealId = c.openId then none
  else (setupSend (some ourSk) root theirPk (uniInfo c)).map (·.2)

/-- `Uni{Seal,Open}Key::from_peer_encap`: the raw key the peer derives -/
def peerKey (ourSk : Nat) (theirPk enc : Term) (c : Chan) : Option HpkeKeys :=
  if c.sealId = c.openId then none
  else setupRecv (some theirPk) enc ourSk (uniInfo c)

/-- `SealKey::seal` at sequence number `seq` with auth data `ad` -/
def afcSeal (k : HpkeKeys) (seq ad pt : Term) : Term × Term :=
  (.enc k.key (tuple [k.nonce, seq]) ad pt, .etag k.key (tuple [k.nonce, seq]) ad pt)

/-- `OpenKey::open` -/
def afcOpen (k : HpkeKeys) (seq ad body tag : Term) : Option Term :=
  aeadOpen k.key (tuple [k.nonce, seq]) ad body tag

/-! ## handler decision logic -/

inductive HErr where
  | authorMustBeSealer
  | transform
deriving DecidableEq, Repr

/-- `UniChannelCreated` effect + what the key store holds (author enc key, root secret) -/
structure Created where
  parent : Term
  openId : Term
  peerPk : Term
  label : Term
  ourSk : Nat
  root : Nat

/-- `Handler::uni_channel_created` for device `dev`: only ever yields a SEAL key -/
def uniChannelCreated (dev : Term) (e : Created) : Except HErr HpkeKeys :=
  if dev = e.openId then .error .authorMustBeSealer
  else match authorKey e.ourSk e.root e.peerPk ⟨e.parent, dev, e.openId, e.label⟩ with
    | some k => .ok k
    | none => .error .transform

/-- `UniChannelReceived` effect + the peer's enc key -/
structure Received where
  parent : Term
  sealId : Term
  authorPk : Term
  label : Term
  enc : Term
  ourSk : Nat

/-- `Handler::uni_channel_received` for device `dev`: only ever yields an OPEN key -/
def uniChannelReceived (dev : Term) (e : Received) : Except HErr HpkeKeys :=
  if e.sealId = dev then .error .authorMustBeSealer
  else match peerKey e.ourSk e.authorPk e.enc ⟨e.parent, e.sealId, dev, e.label⟩ with
    | some k => .ok k
    | none => .error .transform

end AranyaV.Sym
