import AranyaV.Spec.SymHpke
import AranyaV.Gen.CryptoC37
/-!
# Spec.SymSeal — symbolic model of the sealing operations of C37

`GroupKey::seal/open`, `seal_group_key/open_group_key` (HPKE base), `seal_psk_seed/open_psk_seed`
and `seal_topic_key/open_topic_key` (HPKE auth), `TopicKey::seal_message/open_message`.
Contexts follow the generated item orders / layouts; a fixed-width record is a tuple of its
domain literal and its fields (the byte-level injectivity of the layout is `Framing.fixedLayout_inj`).
-/
namespace AranyaV.Sym
open Gen.C37

/-! ## group keys -/

structure GkCtx where
  label : Term
  parent : Term
  author : Term
deriving DecidableEq, Repr

def GkCtx.get (c : GkCtx) : GkField → Term
  | .label => c.label
  | .parent => c.parent
  | .author => c.author

/-- `Context::to_bytes` -/
def gkInfo (oids : List Term) (c : GkCtx) : Term := thash oids groupKeyTag (gkOrder.map c.get)

/-- `GroupKey::derive_key` -/
def gkKey (seed info : Term) : Term :=
  .kdf (.kdf seed (tuple [.lit gkExtractDomain, .lit gkExtractLabel]))
    (tuple [.lit gkExpandDomain, .lit gkExpandLabel, info])

/-- `nonce ‖ ciphertext ‖ tag` -/
structure Sealed where
  nonce : Term
  body : Term
  tag : Term
deriving DecidableEq, Repr

def gkSeal (oids : List Term) (seed : Term) (c : GkCtx) (nonce pt : Term) : Sealed :=
  let info := gkInfo oids c
  let k := gkKey seed info
  ⟨nonce, .enc k nonce info pt, .etag k nonce info pt⟩

def gkOpen (oids : List Term) (seed : Term) (c : GkCtx) (s : Sealed) : Option Term :=
  let info := gkInfo oids c
  aeadOpen (gkKey seed info) s.nonce info s.body s.tag

/-! ## fixed-width HPKE infos -/

/-- `GroupKeyInfo` -/
def sgkInfo (group : Term) : Term := tuple (.lit sgkDomain :: sgkLayout.map fun p => match p.1 with | .group => group)

/-- psk `Info` -/
def pskInfo (group : Term) : Term := tuple (.lit pskDomain :: pskLayout.map fun p => match p.1 with | .group => group)

/-- `TopicKeyRotationInfo` -/
def topicInfo (version topic : Term) : Term :=
  tuple (.lit topicDomain :: topicLayout.map fun p => match p.1 with | .version => version | .topic => topic)

/-- `EncryptionPublicKey::seal_group_key` (HPKE base mode, info = AD) with ephemeral secret `e` -/
def sealGroupKey (e : Nat) (pkR group seed : Term) : Option (Term × Term × Term) :=
  hpkeSeal none e pkR (sgkInfo group) (sgkInfo group) seed

/-- `EncryptionKey::open_group_key` -/
def openGroupKey (r : Nat) (enc body tag group : Term) : Option Term :=
  hpkeOpen none enc r (sgkInfo group) (sgkInfo group) body tag

/-- `EncryptionKey::seal_psk_seed` (HPKE auth mode; rejects sealing to oneself) -/
def sealPskSeed (s e : Nat) (peerPk group seed : Term) : Option (Term × Term × Term) :=
  if Term.pk (.sk s) = peerPk then none
  else hpkeSeal (some s) e peerPk (pskInfo group) (pskInfo group) seed

/-- `EncryptionKey::open_psk_seed` -/
def openPskSeed (r : Nat) (enc body tag peerPk group : Term) : Option Term :=
  hpkeOpen (some peerPk) enc r (pskInfo group) (pskInfo group) body tag

/-- `ReceiverPublicKey::seal_topic_key` (HPKE auth mode) -/
def sealTopicKey (s e : Nat) (pkR version topic seed : Term) : Option (Term × Term × Term) :=
  hpkeSeal (some s) e pkR (topicInfo version topic) (topicInfo version topic) seed

/-- `ReceiverSecretKey::open_topic_key` -/
def openTopicKey (r : Nat) (enc body tag senderPk version topic : Term) : Option Term :=
  hpkeOpen (some senderPk) enc r (topicInfo version topic) (topicInfo version topic) body tag

/-! ## topic-key messages -/

structure MsgCtx where
  version : Term
  topic : Term
  encKey : Term
  signKey : Term
deriving DecidableEq, Repr

def MsgCtx.get (c : MsgCtx) : MsgField → Term
  | .version => c.version
  | .topic => c.topic
  | .encKey => c.encKey
  | .signKey => c.signKey

def sealMsgAd (oids : List Term) (c : MsgCtx) : Term := thash oids apqMsgTag (sealMsgOrder.map c.get)
def openMsgAd (oids : List Term) (c : MsgCtx) : Term := thash oids apqMsgTag (openMsgOrder.map c.get)

/-- `TopicKey::seal_message` under the topic key's AEAD key `k` -/
def msgSeal (oids : List Term) (k : Term) (c : MsgCtx) (nonce pt : Term) : Sealed :=
  ⟨nonce, .enc k nonce (sealMsgAd oids c) pt, .etag k nonce (sealMsgAd oids c) pt⟩

/-- `TopicKey::open_message` -/
def msgOpen (oids : List Term) (k : Term) (c : MsgCtx) (s : Sealed) : Option Term :=
  aeadOpen k s.nonce (openMsgAd oids c) s.body s.tag

end AranyaV.Sym
