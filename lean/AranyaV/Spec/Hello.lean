import AranyaV.Spec.Synth
/-!
# Spec.Hello — the hello-notification decision with symbolic command ids

Command ids are symbolic (`HTerm`): `leaf n` is the id of a non-merge command, `merge l r` is
the id of the merge command over parents `l`, `r` (perfect hash: a free constructor).  The
hello head of a head list is the pairwise fold `foldPairs` of the id-sorted heads
(`ClientState::hello_head` / `transaction::synthetic_head`); `shouldSync` is
`ClientState::should_sync_on_hello`.
-/
namespace AranyaV.Spec.Hello
open AranyaV.Spec

abbrev Id := HTerm

def hello (heads : List Id) : Option Id := foldPairs heads.length heads

/-- a replica's view: `none` = the graph does not exist locally -/
structure View where
  heads : List Id
  has   : Id → Bool

/-- `should_sync_on_hello` -/
def shouldSync (mine : Option View) (adv : Id) : Bool :=
  match mine with
  | none => true
  | some v => if hello v.heads == some adv then false else !(v.has adv)

/-- parents of a command, as far as ids determine them: a merge command's parents are the two
hashed ids; other commands' parents are given by `par` -/
def parents (par : Nat → List Id) : Id → List Id
  | .leaf n => par n
  | .merge l r => [l, r]

/-- `AncSelf par x y`: x is an ancestor-or-self of y -/
inductive AncSelf (par : Nat → List Id) : Id → Id → Prop where
  | refl (x) : AncSelf par x x
  | step {x p y} : p ∈ parents par y → AncSelf par x p → AncSelf par x y

/-- a set of ids closed under parents -/
def Closed (par : Nat → List Id) (has : Id → Bool) : Prop :=
  ∀ y, has y = true → ∀ p ∈ parents par y, has p = true

/-- direct subterm chain -/
inductive Sub : HTerm → HTerm → Prop where
  | refl (t) : Sub t t
  | left {s l r} : Sub s l → Sub s (.merge l r)
  | right {s l r} : Sub s r → Sub s (.merge l r)

end AranyaV.Spec.Hello
