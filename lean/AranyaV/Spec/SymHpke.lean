import AranyaV.Spec.SymWrap
/-!
# Spec.SymHpke — symbolic HPKE (RFC 9180) base and auth mode, single-shot

* `dh` is commutative: `DH(a, pk b) = DH(b, pk a)` (`mkDh` orders the two secret atoms);
* KEM: `shared = ExtractAndExpand(dh…, kem_context)` with `kem_context = enc ‖ pkR [‖ pkS]`;
* key schedule: `key`, `base_nonce` = `kdf shared (label, mode, info)`.
Used for sealed group keys (base), PSK seeds and topic keys (auth) and AFC uni channels (auth,
deterministic ephemeral key).
-/
namespace AranyaV.Sym

/-- public key of the n-th secret atom -/
def pkOf (n : Nat) : Term := .pk (.sk n)

/-- commutative Diffie–Hellman over secret atoms -/
def mkDh (a b : Nat) : Term := if a ≤ b then .dh a b else .dh b a

theorem mkDh_comm (a b : Nat) : mkDh a b = mkDh b a := by
  unfold mkDh
  by_cases h1 : a ≤ b <;> by_cases h2 : b ≤ a <;> simp [h1, h2]
  · have : a = b := by omega
    subst this; simp
  · omega

/-- `DH(sk, pub)`: defined when `pub` is the public half of a secret atom -/
def dhWith (sk : Nat) (pub : Term) : Option Term :=
  match pub with
  | .pk (.sk n) => some (mkDh sk n)
  | _ => none

theorem dhWith_eq_some {sk : Nat} {pub d : Term} :
    dhWith sk pub = some d ↔ ∃ n, pub = .pk (.sk n) ∧ d = mkDh sk n := by
  unfold dhWith
  split
  · rename_i n
    constructor
    · intro h; exact ⟨n, rfl, (Option.some.inj h).symm⟩
    · rintro ⟨m, h1, h2⟩
      simp only [Term.pk.injEq, Term.sk.injEq] at h1
      subst h1; rw [h2]
  · rename_i hne
    constructor
    · intro h; cases h
    · rintro ⟨m, h1, _⟩
      exact absurd h1 (hne m)

/-- HPKE mode byte: base = 0, auth = 2 -/
def modeLit (auth : Bool) : Term := .lit [if auth then 2 else 0]

/-- `kem_context` -/
def kemCtx (enc pkR : Term) (pkS : Option Term) : Term := tuple (enc :: pkR :: pkS.toList)

/-- sender side of (Auth)Encap with ephemeral secret `skE`: `(enc, shared_secret)` -/
def sendShared (skS : Option Nat) (skE : Nat) (pkR : Term) : Option (Term × Term) :=
  match dhWith skE pkR with
  | none => none
  | some d1 =>
    let enc := Term.pk (.sk skE)
    match skS with
    | none => some (enc, .kdf (tuple [d1]) (kemCtx enc pkR none))
    | some s =>
      match dhWith s pkR with
      | none => none
      | some d2 => some (enc, .kdf (tuple [d1, d2]) (kemCtx enc pkR (some (.pk (.sk s)))))

/-- receiver side of (Auth)Decap -/
def recvShared (pkS : Option Term) (enc : Term) (skR : Nat) : Option Term :=
  match dhWith skR enc with
  | none => none
  | some d1 =>
    match pkS with
    | none => some (.kdf (tuple [d1]) (kemCtx enc (.pk (.sk skR)) none))
    | some p =>
      match dhWith skR p with
      | none => none
      | some d2 => some (.kdf (tuple [d1, d2]) (kemCtx enc (.pk (.sk skR)) (some p)))

/-- the AEAD key and base nonce of the key schedule -/
structure HpkeKeys where
  key : Term
  nonce : Term
deriving DecidableEq, Repr

def schedule (auth : Bool) (shared info : Term) : HpkeKeys :=
  { key := .kdf shared (tuple [.lit [0x6b], modeLit auth, info]),
    nonce := .kdf shared (tuple [.lit [0x6e], modeLit auth, info]) }

/-- `setup_send` (+ raw key extraction): `(enc, keys)` -/
def setupSend (skS : Option Nat) (skE : Nat) (pkR info : Term) : Option (Term × HpkeKeys) :=
  (sendShared skS skE pkR).map fun (enc, sh) => (enc, schedule skS.isSome sh info)

/-- `setup_recv` -/
def setupRecv (pkS : Option Term) (enc : Term) (skR : Nat) (info : Term) : Option HpkeKeys :=
  (recvShared pkS enc skR).map fun sh => schedule pkS.isSome sh info

/-- single-shot seal (sequence number 0): `(enc, body, tag)` -/
def hpkeSeal (skS : Option Nat) (skE : Nat) (pkR info ad pt : Term) : Option (Term × Term × Term) :=
  (setupSend skS skE pkR info).map fun (enc, k) =>
    (enc, .enc k.key k.nonce ad pt, .etag k.key k.nonce ad pt)

/-- single-shot open -/
def hpkeOpen (pkS : Option Term) (enc : Term) (skR : Nat) (info ad body tag : Term) : Option Term :=
  match setupRecv pkS enc skR info with
  | none => none
  | some k => aeadOpen k.key k.nonce ad body tag

end AranyaV.Sym
