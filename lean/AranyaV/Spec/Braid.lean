import AranyaV.Spec.Rule
/-!
# Spec.Braid — the storage-independent reference braid (C03) and fact states

State: processed set `P`, available set `A` (commands all of whose children inside
`anc*(heads)` are processed), reversed output `out`.  Step: if `A = {x}` stop with start `x`;
otherwise remove the minimum of `A` under `(priority, id)`, record it unless it is a merge,
add each parent all of whose children (inside `anc*(heads)`) are now processed; adding a second
finalize to `A` is `parallelFinalize`.  The evaluation order is the reverse of the removal
order, starting from the stored state of `start`.
-/
namespace AranyaV.Spec
open AranyaV.Gen

inductive BraidErr where
  | parallelFinalize
  | malformed
deriving Repr, DecidableEq

structure BState where
  processed : List Nat
  avail     : List Nat
  out       : List Nat     -- removed commands, most recently removed first (= evaluation order); merges omitted
deriving Repr

def isFinalize (g : Graph) (i : Nat) : Bool :=
  match g.find? i with
  | some c => c.prio == Priority.finalize
  | none => false

/-- add `xs` to the available set; a second finalize is an error -/
def addAvail (g : Graph) (avail : List Nat) : List Nat → Except BraidErr (List Nat)
  | [] => .ok avail
  | x :: xs =>
    if isFinalize g x && avail.any (isFinalize g) then .error .parallelFinalize
    else addAvail g (avail ++ [x]) xs

/-- minimum of the available set under the strand key -/
def minAvail (g : Graph) : List Nat → Option Cmd
  | [] => none
  | x :: xs =>
    match g.find? x, minAvail g xs with
    | none, r => r
    | some c, none => some c
    | some c, some m => if keyLt c m then some c else some m

def braidLoop (g : Graph) (region : List Nat) : Nat → BState → Except BraidErr (Nat × List Nat)
  | 0, _ => .error .malformed
  | fuel + 1, s =>
    match s.avail with
    | [x] => .ok (x, s.out)
    | _ =>
      match minAvail g s.avail with
      | none => .error .malformed
      | some c =>
        let avail := s.avail.erase c.id
        let processed := c.id :: s.processed
        let out := if isMerge c then s.out else c.id :: s.out
        let ready := c.parents.filter (fun p =>
          !avail.contains p &&
          ((children g p).filter (region.contains ·)).all (processed.contains ·))
        match addAvail g avail ready.eraseDups with
        | .error e => .error e
        | .ok avail' => braidLoop g region fuel { processed, avail := avail', out }

/-- `refBraid g heads = (start, order)`: evaluate `order` left to right on top of the stored
state of `start`. -/
def refBraid (g : Graph) (heads : List Nat) : Except BraidErr (Nat × List Nat) :=
  match addAvail g [] heads with
  | .error e => .error e
  | .ok a => braidLoop g (ancSelfAll g heads) (g.length + 1) { processed := [], avail := a, out := [] }

/-- fold the rule over an order (rejections inside a braid are skipped, partial writes kept) -/
def applyOrder (g : Graph) (order : List Nat) (s : Facts) : Facts :=
  order.foldl (fun acc i => match g.find? i with
    | some c => (rule c acc).1
    | none => acc) s

/-- stored fact state after every command, computed parents-first -/
def allStates (g : Graph) : List (Nat × Except BraidErr Facts) :=
  g.foldl (fun acc c =>
    let st : Except BraidErr Facts :=
      match c.parents with
      | [] => .ok (rule c {}).1
      | [p] => match acc.lookup p with
        | some (.ok s) => .ok (rule c s).1
        | some (.error e) => .error e
        | none => .error .malformed
      | [l, r] =>
        -- prefix of the graph up to here is enough: all ancestors are earlier in the list
        match refBraid g [l, r] with
        | .error e => .error e
        | .ok (start, order) => match acc.lookup start with
          | some (.ok s) => .ok (applyOrder g order s)
          | some (.error e) => .error e
          | none => .error .malformed
      | _ => .error .malformed
    acc ++ [(c.id, st)]) []

def stateAt (g : Graph) (i : Nat) : Except BraidErr Facts :=
  match (allStates g).lookup i with
  | some s => s
  | none => .error .malformed

/-- fact state of a head set -/
def factsOf (g : Graph) (heads : List Nat) : Except BraidErr Facts :=
  match heads with
  | [h] => stateAt g h
  | _ => match refBraid g heads with
    | .error e => .error e
    | .ok (start, order) => match stateAt g start with
      | .ok s => .ok (applyOrder g order s)
      | .error e => .error e

end AranyaV.Spec
