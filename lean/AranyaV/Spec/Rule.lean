import AranyaV.Spec.Graph
/-!
# Spec.Rule — the audit policy's rule, as a function on fact states

`Facts` is the observable fact state of the audit policy: the `"f"` facts as an association
list sorted by key, and the `"log"` fact.  `rule c s = (s', accepted, effects)`; when
`accepted = false` the writes made before the failing op are still in `s'` (the runtime
reverts them at origin and does not in a braid — callers decide).
-/
namespace AranyaV.Spec

structure Facts where
  f   : List (Nat × Nat) := []
  log : Option (List String) := none
deriving Repr, DecidableEq, Inhabited

def insertSorted (k v : Nat) : List (Nat × Nat) → List (Nat × Nat)
  | [] => [(k, v)]
  | (k', v') :: rest =>
    if k < k' then (k, v) :: (k', v') :: rest
    else if k = k' then (k, v) :: rest
    else (k', v') :: insertSorted k v rest

def Facts.get (s : Facts) (k : Nat) : Option Nat := s.f.lookup k

structure RuleSt where
  facts : Facts
  tag : String
  effects : List Nat := []

def runOps : List Op → RuleSt → RuleSt × Bool
  | [], st => (st, true)
  | op :: rest, st =>
    match op with
    | .set k v => runOps rest { st with facts := { st.facts with f := insertSorted k v st.facts.f } }
    | .del k => runOps rest { st with facts := { st.facts with f := st.facts.f.filter (·.1 != k) } }
    | .append =>
      let l := match st.facts.log with
        | none => [st.tag]
        | some l => l ++ [st.tag]
      runOps rest { st with facts := { st.facts with log := some l } }
    | .reqAbsent k => if (st.facts.get k).isSome then (st, false) else runOps rest st
    | .reqPresent k => if (st.facts.get k).isNone then (st, false) else runOps rest st
    | .fail => (st, false)
    | .emit n => runOps rest { st with effects := st.effects ++ [n] }
    | .tag t => runOps rest { st with tag := t }

/-- the rule: new facts, accepted?, effects emitted -/
def rule (c : Cmd) (s : Facts) : Facts × Bool × List Nat :=
  let (st, ok) := runOps c.body { facts := s, tag := c.tag }
  (st.facts, ok, st.effects)

end AranyaV.Spec
