import AranyaV.Spec.Graph
/-!
# Spec.Synth — the deterministic pairwise fold of a head set (`fold_merge_pairs`)

`collapse_heads` (which writes merge commands) and `synthetic_head` (which only computes the
address to advertise) both fold the id-sorted head set through the same queue discipline:
pop two entries off the front, combine them, push the result on the back, until one remains.
The merge command's id is a hash of the id-ordered parent pair; symbolically it is the term
`merge l r`.
-/
namespace AranyaV.Spec

inductive HTerm where
  | leaf (id : Nat)
  | merge (l r : HTerm)
deriving Repr, DecidableEq, Inhabited

def HTerm.size : HTerm → Nat
  | .leaf _ => 1
  | .merge l r => l.size + r.size

/-- `fold_merge_pairs` on a queue; fuel bounds the number of steps (`q.length` suffices) -/
def foldPairs : Nat → List HTerm → Option HTerm
  | _, [] => none
  | _, [x] => some x
  | 0, _ => none
  | fuel + 1, l :: r :: rest => foldPairs fuel (rest ++ [.merge l r])

/-- hello head of a head set (ids ascending, as the committed head set stores them) -/
def synth (heads : List Nat) : Option HTerm :=
  foldPairs heads.length (heads.map .leaf)

/-- each step shortens the queue by one, so `length` steps always suffice -/
theorem foldPairs_isSome (q : List HTerm) (fuel : Nat) (hq : q ≠ []) (hf : q.length ≤ fuel + 1) :
    (foldPairs fuel q).isSome = true := by
  induction fuel generalizing q with
  | zero =>
    match q, hq, hf with
    | [x], _, _ => simp [foldPairs]
    | _ :: _ :: _, _, hf => simp at hf
  | succ n ih =>
    match q, hq, hf with
    | [x], _, _ => simp [foldPairs]
    | l :: r :: rest, _, hf =>
      simp only [foldPairs]
      apply ih
      · simp
      · simp at hf ⊢; omega

theorem synth_isSome (heads : List Nat) (h : heads ≠ []) : (synth heads).isSome = true := by
  unfold synth
  cases heads with
  | nil => exact absurd rfl h
  | cons a t =>
    cases t with
    | nil => simp [foldPairs]
    | cons b t' =>
      apply foldPairs_isSome
      · simp
      · simp

end AranyaV.Spec
