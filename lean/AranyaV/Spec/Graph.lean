import AranyaV.Gen.Priority
/-!
# Spec.Graph — commands, graphs, ancestry (storage independent)

`Cmd.id` is the command id as a natural number (the big-endian value of the 32-byte id, so
the order on `Nat` is the byte-lexicographic order `CmdId: Ord` uses).  A graph is a list of
commands *listed parents-first* (every parent of a command occurs earlier in the list).
-/
namespace AranyaV.Spec
open AranyaV.Gen

/-- ops of the audit policy's rule language (harness/src/gk.rs) -/
inductive Op where
  | set (k v : Nat)
  | del (k : Nat)
  | append
  | reqAbsent (k : Nat)
  | reqPresent (k : Nat)
  | fail
  | emit (n : Nat)
  | tag (t : String)
deriving Repr, DecidableEq, Inhabited

structure Cmd where
  id      : Nat
  parents : List Nat          -- [] (init) | [p] | [l, r] (merge)
  prio    : Priority
  body    : List Op
  /-- tag used by `append` (first 4 bytes of the id, hex) -/
  tag     : String := ""
deriving Repr, Inhabited

abbrev Graph := List Cmd

def Graph.find? (g : Graph) (i : Nat) : Option Cmd := List.find? (fun c => c.id == i) g

def isMerge (c : Cmd) : Bool := c.parents.length == 2

/-- the strand key: `(Priority, CmdId)` compared lexicographically, `Priority` by derived `Ord` -/
def keyLt (a b : Cmd) : Bool :=
  let ka := (a.prio.cls, a.prio.arg, a.id)
  let kb := (b.prio.cls, b.prio.arg, b.id)
  ka.1 < kb.1 || (ka.1 == kb.1 && (ka.2.1 < kb.2.1 || (ka.2.1 == kb.2.1 && ka.2.2 < kb.2.2)))

/-- max cut of every command, computed in list (parents-first) order -/
def maxCuts (g : Graph) : List (Nat × Nat) :=
  g.foldl (fun acc c =>
    let pm := c.parents.map (fun p => (acc.lookup p).getD 0)
    let m := match pm with
      | [] => 0
      | _ => pm.foldl max 0 + 1
    acc ++ [(c.id, m)]) []

def maxCut (g : Graph) (i : Nat) : Nat := ((maxCuts g).lookup i).getD 0

/-- ancestors-or-self of a set of ids: walk the list backwards (children before parents) -/
def ancSelfAll (g : Graph) (hs : List Nat) : List Nat :=
  g.reverse.foldl (fun acc c => if acc.contains c.id then acc ++ c.parents.filter (!acc.contains ·) else acc) hs

/-- `a` is a proper ancestor of `b` -/
def anc (g : Graph) (a b : Nat) : Bool :=
  a != b && (ancSelfAll g [b]).contains a

def children (g : Graph) (i : Nat) : List Nat := (g.filter (·.parents.contains i)).map (·.id)

/-- `HeadSet::push` on command ids (`storage/head_set.rs`): binary-search insert that keeps the
set sorted and is a no-op when the id is already present -/
def hsPush : List Nat → Nat → List Nat
  | [], x => [x]
  | y :: ys, x => if x < y then x :: y :: ys else if x = y then y :: ys else y :: hsPush ys x

/-- ids without children, pushed into a head set: ascending and duplicate-free (the committed
head set is sorted by id) -/
def frontier (g : Graph) : List Nat :=
  ((g.filter (fun c => (children g c.id).isEmpty)).map (·.id)).foldl hsPush []

end AranyaV.Spec
