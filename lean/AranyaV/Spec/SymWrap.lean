import AranyaV.Spec.Sym
import AranyaV.Gen.CryptoC36
/-!
# Spec.SymWrap — symbolic model of `DefaultEngine::wrap_secret` / `unwrap_secret` (C36)

Perfect AEAD with separately addressable ciphertext body and tag: `enc k n ad pt` is the body,
`encTag k n ad pt` the tag; `open` succeeds only on a (body, tag) pair produced by one `seal`
under the same key, nonce and associated data (INT-CTXT + binding of nonce and AD).
-/
namespace AranyaV.Sym
open Gen.C36

/-- the tag half of an AEAD sealing; `Term.enc` is the body half -/
abbrev encTag (k n ad pt : Term) : Term := .etag k n ad pt

theorem encTag_inj {k n ad pt k' n' ad' pt' : Term} (h : encTag k n ad pt = encTag k' n' ad' pt') :
    k = k' ∧ n = n' ∧ ad = ad' ∧ pt = pt' := by
  simpa [encTag] using h

/-- perfect AEAD open over separate body and tag -/
def aeadOpen (k n ad body tag : Term) : Option Term :=
  match body with
  | .enc k' n' ad' pt =>
    if k' = k ∧ n' = n ∧ ad' = ad ∧ tag = encTag k' n' ad' pt then some pt else none
  | _ => none

theorem aeadOpen_eq_some {k n ad body tag pt : Term} :
    aeadOpen k n ad body tag = some pt ↔ body = .enc k n ad pt ∧ tag = encTag k n ad pt := by
  unfold aeadOpen
  split
  · rename_i k' n' ad' pt'
    constructor
    · intro h
      split at h
      · rename_i hc
        obtain ⟨rfl, rfl, rfl, rfl⟩ := hc
        cases h
        exact ⟨rfl, rfl⟩
      · cases h
    · rintro ⟨h1, h2⟩
      cases h1
      simp [h2]
  · rename_i hne
    constructor
    · intro h; cases h
    · rintro ⟨h1, _⟩
      exact absurd h1 (hne _ _ _ _)

/-- a key type `T: UnwrappedKey`: its kind and the bytes of `T::ID` -/
structure KeyType where
  kind : Kind
  algId : Bytes
deriving DecidableEq, Repr

/-- `WrappedKey` of the default engine -/
structure Wrapped where
  id : Term
  nonce : Term
  variant : Kind
  ct : Term
  tag : Term
deriving DecidableEq, Repr

def adField (algId : Bytes) (keyId : Term) : AdField → Term
  | .algId => .lit algId
  | .keyId => keyId

/-- the associated data computed by `wrap_secret` -/
def wrapAd (oids : List Term) (T : KeyType) (keyId : Term) : Term :=
  thash oids engineTag (wrapAdOrder.map (adField T.algId keyId))

/-- the associated data computed by `unwrap_secret` -/
def unwrapAd (oids : List Term) (T : KeyType) (keyId : Term) : Term :=
  thash oids engineTag (unwrapAdOrder.map (adField T.algId keyId))

/-- `wrap_secret::<T>(id, secret)` under engine key `ek` with fresh nonce `n` -/
def wrap (oids : List Term) (ek : Term) (T : KeyType) (id secret n : Term) : Wrapped :=
  let ad := wrapAd oids T id
  { id := id, nonce := n, variant := T.kind, ct := .enc ek n ad secret, tag := encTag ek n ad secret }

inductive UnwrapResult where
  | ok (secret : Term)
  /-- `UnwrapError::Open` -/
  | openErr
  /-- `UnwrapError::WrongKeyType` -/
  | wrongKeyType
deriving DecidableEq, Repr

/-- `unwrap_secret::<T>(key)` under engine key `ek` -/
def unwrap (oids : List Term) (ek : Term) (T : KeyType) (w : Wrapped) : UnwrapResult :=
  match aeadOpen ek w.nonce (unwrapAd oids T w.id) w.ct w.tag with
  | none => .openErr
  | some pt => if T.kind = w.variant then .ok pt else .wrongKeyType

end AranyaV.Sym
