import AranyaV.Gen.LangInstr
/-!
# Spec.Lang — the policy language fragment of C22–C24 and its big-step semantics

* `Val`   values (unit, Int64-range integers as `Int` with explicit overflow checks, bool, string,
          id, enum, struct, optional, result; `ident` only occurs on the VM stack)
* `Expr` / `Stmt` / `Pat`  the typed IR forms as `aranya_policy_ast::thir` has them
          (`ExprKind`, `StmtKind`, `MatchPattern`); the same type is used for the parsed AST
          (`ast::ExprKind`): lowering fills in `enumRef`'s value, expands struct sources into
          fields and resolves foreign-function ids.
* `eval`  fuel-indexed big-step evaluator.  Outcomes: value | early return | policy exit |
          foreign-function error | stuck (no meaning) | out of fuel.

Identifiers are `Nat` (the drivers intern names; the first identifiers are the builtins of
`Gen.Lang.builtinNames`).  Core Lean only: the model drivers link this file.
-/
namespace AranyaV.Lang
open AranyaV.Gen.Lang

/-! ## Values -/

inductive Val where
  | unit
  | int (i : Int)
  | bool (b : Bool)
  | str (s : List Nat)
  | id (n : Nat)
  | enum (name : Nat) (v : Int)
  | ident (n : Nat)
  | none
  | some (v : Val)
  | ok (v : Val)
  | err (v : Val)
  | struct (name : Nat) (fields : List (Nat × Val))
  deriving Repr, Inhabited

mutual
/-- structural equality (`Value: PartialEq`); struct fields are kept sorted by key -/
def Val.beq : Val → Val → Bool
  | .unit, .unit => true
  | .int a, .int b => a == b
  | .bool a, .bool b => a == b
  | .str a, .str b => a == b
  | .id a, .id b => a == b
  | .enum n a, .enum m b => n == m && a == b
  | .ident a, .ident b => a == b
  | .none, .none => true
  | .some a, .some b => Val.beq a b
  | .ok a, .ok b => Val.beq a b
  | .err a, .err b => Val.beq a b
  | .struct n fa, .struct m fb => n == m && beqFields fa fb
  | _, _ => false
def beqFields : List (Nat × Val) → List (Nat × Val) → Bool
  | [], [] => true
  | (k, a) :: fa, (l, b) :: fb => k == l && Val.beq a b && beqFields fa fb
  | _, _ => false
end

def i64Min : Int := -9223372036854775808
def i64Max : Int := 9223372036854775807
def inI64 (i : Int) : Bool := decide (i64Min ≤ i) && decide (i ≤ i64Max)

/-- `i64::checked_add/sub`: `none` exactly on overflow -/
def checked (r : Int) : Val := if inI64 r then .some (.int r) else .none
/-- `i64::saturating_add/sub` -/
def saturate (r : Int) : Int := if r < i64Min then i64Min else if r > i64Max then i64Max else r

/-- sorted insert with replacement (`BTreeMap::insert`) -/
def setField : List (Nat × Val) → Nat → Val → List (Nat × Val)
  | [], k, v => [(k, v)]
  | (k', v') :: rest, k, v =>
    if k < k' then (k, v) :: (k', v') :: rest
    else if k = k' then (k, v) :: rest
    else (k', v') :: setField rest k v

def getField : List (Nat × Val) → Nat → Option Val
  | [], _ => Option.none
  | (k', v') :: rest, k => if k = k' then Option.some v' else getField rest k

def removeField : List (Nat × Val) → Nat → List (Nat × Val)
  | [], _ => []
  | (k', v') :: rest, k => if k = k' then rest else (k', v') :: removeField rest k

/-! ## Types -/

inductive Ty where
  | unit | string | bytes | int | bool | id
  | struct (n : Nat) | enum (n : Nat)
  | optional (t : Ty)
  | never
  | result (ok err : Ty)
  deriving DecidableEq, Repr, Inhabited

/-- `Value::fits_type` -/
def Val.fitsType : Val → Ty → Bool
  | .unit, .unit => true
  | .int _, .int => true
  | .bool _, .bool => true
  | .str _, .string => true
  | .struct n _, .struct m => n == m
  | .id _, .id => true
  | .enum n _, .enum m => n == m
  | .some v, .optional t => v.fitsType t
  | .none, .optional _ => true
  | .ok v, .result t _ => v.fitsType t
  | .err v, .result _ t => v.fitsType t
  | _, _ => false

/-! ## Syntax -/

mutual
inductive Expr where
  | unit
  | int (n : Int)
  | str (s : List Nat)
  | bool (b : Bool)
  | none
  | some (e : Expr)
  | ok (e : Expr)
  | err (e : Expr)
  | struct (name : Nat) (fields : List (Nat × Expr)) (sources : List Nat)
  | ite (c t f : Expr)
  | todo
  | call (f : Nat) (args : List Expr)
  | ffi (m f : Nat) (ids : Option (Nat × Nat)) (args : List Expr)
  | ret (e : Expr)
  | var (x : Nat)
  | enumRef (name variant : Nat) (value : Int)
  | and (a b : Expr)
  | or (a b : Expr)
  | coalesce (a b : Expr)
  | dot (e : Expr) (f : Nat)
  | eq (a b : Expr)
  | ne (a b : Expr)
  | gt (a b : Expr)
  | lt (a b : Expr)
  | ge (a b : Expr)
  | le (a b : Expr)
  | not (e : Expr)
  | is (e : Expr) (some : Bool)
  | block (ss : List Stmt) (e : Expr)
  | substruct (e : Expr) (sub : Nat)
  | cast (e : Expr) (to : Nat)
  | mtch (scrut : Expr) (arms : List (Pat × Expr))
inductive Stmt where
  | let_ (x : Nat) (e : Expr)
  | check (c els : Expr)
  | mtch (scrut : Expr) (arms : List (Pat × List Stmt))
  | ifS (branches : List (Expr × List Stmt)) (hasElse : Bool) (els : List Stmt)
  | ret (e : Expr)
  | dassert (e : Expr)
inductive Pat where
  | default
  | values (vs : List Expr)
end

instance : Inhabited Expr := ⟨.unit⟩
instance : Inhabited Stmt := ⟨.ret .unit⟩
instance : Inhabited Pat := ⟨.default⟩

structure FunDef where
  name : Nat
  params : List (Nat × Ty)
  ret : Ty
  body : List Stmt
  deriving Inhabited

/-- one recorded foreign call: module, procedure, arguments -/
abbrev FfiCall := Nat × Nat × List Val
abbrev Log := List FfiCall

inductive FfiRes where
  | ret (v : Val)
  | fail
  /-- arguments do not fit the foreign function (its own conversions fail) -/
  | bad

structure Program where
  enums : List (Nat × List Nat)
  structs : List (Nat × List (Nat × Ty))
  globals : List (Nat × Val)
  funs : List FunDef
  /-- foreign functions: (module index, procedure index) ↦ behaviour -/
  ffi : Nat → Nat → List Val → FfiRes

def Program.structDef (p : Program) (n : Nat) : Option (List (Nat × Ty)) :=
  (p.structs.find? (·.1 == n)).map (·.2)
def Program.funDef (p : Program) (n : Nat) : Option FunDef := p.funs.find? (·.name == n)
def Program.global (p : Program) (x : Nat) : Option Val := (p.globals.find? (·.1 == x)).map (·.2)

/-! ## Environments: block scopes of the current function, innermost first -/

abbrev Env := List (List (Nat × Val))

def lookupBlocks : Env → Nat → Option Val
  | [], _ => Option.none
  | b :: rest, x => match b.find? (·.1 == x) with
    | Option.some (_, v) => Option.some v
    | Option.none => lookupBlocks rest x

def lookupVar (p : Program) (env : Env) (x : Nat) : Option Val :=
  match lookupBlocks env x with
  | Option.some v => Option.some v
  | Option.none => p.global x

/-- `ScopeManager::set`: no re-definition of a visible local or of a global -/
def bindVar (p : Program) (env : Env) (x : Nat) (v : Val) : Option Env :=
  if (p.global x).isSome then Option.none
  else if (lookupBlocks env x).isSome then Option.none
  else match env with
    | [] => Option.none
    | b :: rest => Option.some (((x, v) :: b) :: rest)

/-! ## Outcomes -/

inductive Res (α : Type) where
  | val (a : α) (log : Log)
  | ret (v : Val) (log : Log)
  | exit (r : ExitReason) (log : Log)
  | ffiErr (log : Log)
  | stuck
  | oof

/-- the binding pattern forms `Ok(x)`, `Err(x)`, `Some(x)` -/
def bindingOf : Expr → Option (WrapType × Nat)
  | .ok (.var x) => Option.some (.Ok, x)
  | .err (.var x) => Option.some (.Err, x)
  | .some (.var x) => Option.some (.Some, x)
  | _ => Option.none

def firstBinding : List Expr → Option (WrapType × Nat)
  | [] => Option.none
  | e :: es => match bindingOf e with
    | Option.some b => Option.some b
    | Option.none => firstBinding es

def isWrap : WrapType → Val → Bool
  | .Some, .some _ => true
  | .Ok, .ok _ => true
  | .Err, .err _ => true
  | _, _ => false

def unwrap : WrapType → Val → Option Val
  | .Some, .some v => Option.some v
  | .Ok, .ok v => Option.some v
  | .Err, .err v => Option.some v
  | _, _ => Option.none

/-- the four arithmetic builtins, by builtin index (order of `Gen.Lang.builtinNames`) -/
def builtinOp (f : Nat) (a b : Int) : Option Val :=
  match (builtinInstr f : Option (Instruction Unit Unit Unit Unit)) with
  | Option.some .Add => Option.some (checked (a + b))
  | Option.some .Sub => Option.some (checked (a - b))
  | Option.some .SaturatingAdd => Option.some (.int (saturate (a + b)))
  | Option.some .SaturatingSub => Option.some (.int (saturate (a - b)))
  | _ => Option.none

/-- integer comparison; `none` unless both operands are integers -/
def cmpInts (f : Int → Int → Bool) : Val → Val → Option Val
  | .int i, .int j => Option.some (.bool (f i j))
  | _, _ => Option.none

/-- exactly two integer arguments -/
def intPair : List Val → Option (Int × Int)
  | [.int a, .int b] => Option.some (a, b)
  | _ => Option.none

def isBuiltin (f : Nat) : Bool := (builtinInstr f : Option (Instruction Unit Unit Unit Unit)).isSome

/-- bind parameters last-to-first (the callee's prologue) -/
def bindParams (p : Program) : Env → List (Nat × Val) → Option Env
  | env, [] => Option.some env
  | env, (x, v) :: rest => match bindVar p env x v with
    | Option.some env' => bindParams p env' rest
    | Option.none => Option.none

/-- substruct: pick the fields of `def` out of `fs`, each must fit its declared type -/
def pickFields (fs : List (Nat × Val)) : List (Nat × Ty) → Option (List (Nat × Val))
  | [] => Option.some []
  | (k, t) :: rest => match getField fs k, pickFields fs rest with
    | Option.some v, Option.some acc => if v.fitsType t then Option.some ((k, v) :: acc) else Option.none
    | _, _ => Option.none

def castOk (fs : List (Nat × Val)) (d : List (Nat × Ty)) : Bool :=
  d.all fun (k, t) => match getField fs k with
    | Option.some v => v.fitsType t
    | Option.none => false

def structOfPairs (name : Nat) (kvs : List (Nat × Val)) : Val :=
  .struct name (kvs.foldl (fun acc kv => setField acc kv.1 kv.2) [])

/-- the selected arm's binding pattern (the first one among its alternatives) binds the payload -/
def bindArm (p : Program) (env : Env) (v : Val) : Pat → Option Env
  | .default => Option.some env
  | .values vs => match firstBinding vs with
    | Option.none => Option.some env
    | Option.some (w, x) => match unwrap w v with
      | Option.some inner => bindVar p env x inner
      | Option.none => Option.none

/-! ## The evaluator -/

mutual
def evalExpr (p : Program) : Nat → Env → Log → Expr → Res Val
  | 0, _, _, _ => .oof
  | n + 1, env, log, e =>
    match e with
    | .unit => .val .unit log
    | .int i => .val (.int i) log
    | .str s => .val (.str s) log
    | .bool b => .val (.bool b) log
    | .none => .val .none log
    | .some e => match evalExpr p n env log e with
      | .val v l => .val (.some v) l
      | r => r
    | .ok e => match evalExpr p n env log e with
      | .val v l => .val (.ok v) l
      | r => r
    | .err e => match evalExpr p n env log e with
      | .val v l => .val (.err v) l
      | r => r
    | .struct name fields _ =>
      match p.structDef name with
      | Option.none => .stuck
      | Option.some d => evalFields p n env log d fields (.struct name [])
    | .ite c t f => match evalExpr p n env log c with
      | .val (.bool true) l => evalExpr p n env l t
      | .val (.bool false) l => evalExpr p n env l f
      | .val _ _ => .stuck
      | r => r
    | .todo => .exit .Panic log
    | .call f args => match evalArgs p n env log args with
      | .val vs l =>
        if isBuiltin f then
          match intPair vs with
          | Option.some (a, b) => match builtinOp f a b with
            | Option.some v => .val v l
            | Option.none => .stuck
          | Option.none => .stuck
        else evalCall p n f vs l
      | .ret v l => .ret v l
      | .exit r l => .exit r l
      | .ffiErr l => .ffiErr l
      | .stuck => .stuck
      | .oof => .oof
    | .ffi _ _ ids args => match ids with
      | Option.none => .stuck
      | Option.some (mi, pi) => match evalArgs p n env log args with
        | .val vs l => match p.ffi mi pi vs with
          | .ret v => .val v ((mi, pi, vs) :: l)
          | .fail => .ffiErr ((mi, pi, vs) :: l)
          | .bad => .stuck
        | .ret v l => .ret v l
        | .exit r l => .exit r l
        | .ffiErr l => .ffiErr l
        | .stuck => .stuck
        | .oof => .oof
    | .ret e => match evalExpr p n env log e with
      | .val v l => .ret v l
      | r => r
    | .var x => match lookupVar p env x with
      | Option.some v => .val v log
      | Option.none => .stuck
    | .enumRef name _ v => .val (.enum name v) log
    | .and a b => match evalExpr p n env log a with
      | .val (.bool false) l => .val (.bool false) l
      | .val (.bool true) l => match evalExpr p n env l b with
        | .val (.bool x) l' => .val (.bool x) l'
        | .val _ _ => .stuck
        | r => r
      | .val _ _ => .stuck
      | r => r
    | .or a b => match evalExpr p n env log a with
      | .val (.bool true) l => .val (.bool true) l
      | .val (.bool false) l => match evalExpr p n env l b with
        | .val (.bool x) l' => .val (.bool x) l'
        | .val _ _ => .stuck
        | r => r
      | .val _ _ => .stuck
      | r => r
    | .coalesce a b => match evalExpr p n env log a with
      | .val (.some v) l => .val v l
      | .val .none l => evalExpr p n env l b
      | .val _ _ => .stuck
      | r => r
    | .dot e f => match evalExpr p n env log e with
      | .val (.struct _ fs) l => match getField fs f with
        | Option.some v => .val v l
        | Option.none => .stuck
      | .val _ _ => .stuck
      | r => r
    | .eq a b => match evalExpr p n env log a with
      | .val x l => match evalExpr p n env l b with
        | .val y l' => .val (.bool (x.beq y)) l'
        | r => r
      | r => r
    | .ne a b => match evalExpr p n env log a with
      | .val x l => match evalExpr p n env l b with
        | .val y l' => .val (.bool (!(x.beq y))) l'
        | r => r
      | r => r
    | .gt a b => match evalExpr p n env log a with
      | .val x l => match evalExpr p n env l b with
        | .val y l' => match cmpInts (fun i j => decide (i > j)) x y with
          | Option.some v => .val v l'
          | Option.none => .stuck
        | r => r
      | r => r
    | .lt a b => match evalExpr p n env log a with
      | .val x l => match evalExpr p n env l b with
        | .val y l' => match cmpInts (fun i j => decide (i < j)) x y with
          | Option.some v => .val v l'
          | Option.none => .stuck
        | r => r
      | r => r
    | .ge a b => match evalExpr p n env log a with
      | .val x l => match evalExpr p n env l b with
        | .val y l' => match cmpInts (fun i j => decide (i ≥ j)) x y with
          | Option.some v => .val v l'
          | Option.none => .stuck
        | r => r
      | r => r
    | .le a b => match evalExpr p n env log a with
      | .val x l => match evalExpr p n env l b with
        | .val y l' => match cmpInts (fun i j => decide (i ≤ j)) x y with
          | Option.some v => .val v l'
          | Option.none => .stuck
        | r => r
      | r => r
    | .not e => match evalExpr p n env log e with
      | .val (.bool b) l => .val (.bool (!b)) l
      | .val _ _ => .stuck
      | r => r
    | .is e s => match evalExpr p n env log e with
      | .val (.some _) l => .val (.bool s) l
      | .val .none l => .val (.bool (!s)) l
      | .val _ _ => .stuck
      | r => r
    | .block ss e => match evalStmts p n ([] :: env) log ss with
      | .val env' l => evalExpr p n env' l e
      | .ret v l => .ret v l
      | .exit r l => .exit r l
      | .ffiErr l => .ffiErr l
      | .stuck => .stuck
      | .oof => .oof
    | .substruct e sub => match p.structDef sub with
      | Option.none => .stuck
      | Option.some d => match evalExpr p n env log e with
        | .val (.struct _ fs) l => match pickFields fs d with
          | Option.some kvs => .val (structOfPairs sub kvs) l
          | Option.none => .stuck
        | .val _ _ => .stuck
        | r => r
    | .cast e to => match evalExpr p n env log e with
      | .val (.struct _ fs) l => match p.structDef to with
        | Option.some d => if castOk fs d then .val (.struct to fs) l else .stuck
        | Option.none => .stuck
      | .val _ _ => .stuck
      | r => r
    | .mtch scrut arms => match evalExpr p n env log scrut with
      | .val v l => match selectArm p n env l v (arms.map (·.1)) 0 with
        | .val k l' => match arms[k]? with
          | Option.none => .stuck
          | Option.some (pat, body) => match bindArm p ([] :: env) v pat with
            | Option.none => .stuck
            | Option.some env' => evalExpr p n env' l' body
        | .ret v l => .ret v l
        | .exit r l => .exit r l
        | .ffiErr l => .ffiErr l
        | .stuck => .stuck
        | .oof => .oof
      | r => r

def evalArgs (p : Program) : Nat → Env → Log → List Expr → Res (List Val)
  | 0, _, _, _ => .oof
  | _ + 1, _, log, [] => .val [] log
  | n + 1, env, log, e :: es => match evalExpr p n env log e with
    | .val v l => match evalArgs p n env l es with
      | .val vs l' => .val (v :: vs) l'
      | r => r
    | .ret v l => .ret v l
    | .exit r l => .exit r l
    | .ffiErr l => .ffiErr l
    | .stuck => .stuck
    | .oof => .oof

/-- struct literal fields, left to right, into the accumulator struct -/
def evalFields (p : Program) : Nat → Env → Log → List (Nat × Ty) → List (Nat × Expr) → Val → Res Val
  | 0, _, _, _, _, _ => .oof
  | _ + 1, _, log, _, [], acc => .val acc log
  | n + 1, env, log, d, (k, e) :: rest, acc => match evalExpr p n env log e with
    | .val v l => match acc with
      | .struct name fs =>
        if d.any (·.1 == k) then evalFields p n env l d rest (.struct name (setField fs k v))
        else .stuck
      | _ => .stuck
    | r => r

/-- a user function: parameters bound last-to-first in a fresh frame; falling off the end panics -/
def evalCall (p : Program) : Nat → Nat → List Val → Log → Res Val
  | 0, _, _, _ => .oof
  | n + 1, f, vs, log => match p.funDef f with
    | Option.none => .stuck
    | Option.some fd =>
      if fd.params.length ≠ vs.length then .stuck else
      match bindParams p [[]] ((fd.params.map (·.1)).zip vs).reverse with
      | Option.none => .stuck
      | Option.some env => match evalStmts p n env log fd.body with
        | .val _ l => .exit .Panic l
        | .ret v l => .val v l
        | .exit r l => .exit r l
        | .ffiErr l => .ffiErr l
        | .stuck => .stuck
        | .oof => .oof

def evalStmts (p : Program) : Nat → Env → Log → List Stmt → Res Env
  | 0, _, _, _ => .oof
  | _ + 1, env, log, [] => .val env log
  | n + 1, env, log, s :: ss => match evalStmt p n env log s with
    | .val env' l => evalStmts p n env' l ss
    | r => r

/-- statements of a nested block: own scope, dropped at the end -/
def evalScoped (p : Program) : Nat → Env → Log → List Stmt → Res Env
  | 0, _, _, _ => .oof
  | n + 1, env, log, ss => match evalStmts p n ([] :: env) log ss with
    | .val (_ :: rest) l => .val rest l
    | .val [] _ => .stuck
    | r => r

def evalStmt (p : Program) : Nat → Env → Log → Stmt → Res Env
  | 0, _, _, _ => .oof
  | n + 1, env, log, s =>
    match s with
    | .let_ x e => match evalExpr p n env log e with
      | .val v l => match bindVar p env x v with
        | Option.some env' => .val env' l
        | Option.none => .stuck
      | .ret v l => .ret v l
      | .exit r l => .exit r l
      | .ffiErr l => .ffiErr l
      | .stuck => .stuck
      | .oof => .oof
    | .check c els => match evalExpr p n env log c with
      | .val (.bool true) l => .val env l
      | .val (.bool false) l => match evalExpr p n env l els with
        | .val _ _ => .stuck
        | .ret v l => .ret v l
        | .exit r l => .exit r l
        | .ffiErr l => .ffiErr l
        | .stuck => .stuck
        | .oof => .oof
      | .val _ _ => .stuck
      | .ret v l => .ret v l
      | .exit r l => .exit r l
      | .ffiErr l => .ffiErr l
      | .stuck => .stuck
      | .oof => .oof
    | .mtch scrut arms => match evalExpr p n env log scrut with
      | .val v l => match selectArm p n env l v (arms.map (·.1)) 0 with
        | .val k l' => match arms[k]? with
          | Option.none => .stuck
          | Option.some (pat, body) => match bindArm p ([] :: env) v pat with
            | Option.none => .stuck
            | Option.some env' => match evalStmts p n env' l' body with
              | .val (_ :: rest) l'' => .val rest l''
              | .val [] _ => .stuck
              | r => r
        | .ret v l => .ret v l
        | .exit r l => .exit r l
        | .ffiErr l => .ffiErr l
        | .stuck => .stuck
        | .oof => .oof
      | .ret v l => .ret v l
      | .exit r l => .exit r l
      | .ffiErr l => .ffiErr l
      | .stuck => .stuck
      | .oof => .oof
    | .ifS branches hasElse els => evalBranches p n env log branches hasElse els
    | .ret e => match evalExpr p n env log e with
      | .val v l => .ret v l
      | .ret v l => .ret v l
      | .exit r l => .exit r l
      | .ffiErr l => .ffiErr l
      | .stuck => .stuck
      | .oof => .oof
    | .dassert e => match evalExpr p n env log e with
      | .val (.bool true) l => .val env l
      | .val (.bool false) l => .exit .Panic l
      | .val _ _ => .stuck
      | .ret v l => .ret v l
      | .exit r l => .exit r l
      | .ffiErr l => .ffiErr l
      | .stuck => .stuck
      | .oof => .oof

def evalBranches (p : Program) : Nat → Env → Log → List (Expr × List Stmt) → Bool → List Stmt → Res Env
  | 0, _, _, _, _, _ => .oof
  | n + 1, env, log, [], hasElse, els => if hasElse then evalScoped p n env log els else .val env log
  | n + 1, env, log, (c, ss) :: rest, hasElse, els => match evalExpr p n env log c with
    | .val (.bool true) l => evalScoped p n env l ss
    | .val (.bool false) l => evalBranches p n env l rest hasElse els
    | .val _ _ => .stuck
    | .ret v l => .ret v l
    | .exit r l => .exit r l
    | .ffiErr l => .ffiErr l
    | .stuck => .stuck
    | .oof => .oof

/-- does one of the alternative patterns of an arm match `v`?  Binding patterns test the wrapper,
literal patterns are evaluated and compared. -/
def matchVals (p : Program) : Nat → Env → Log → Val → List Expr → Res Bool
  | 0, _, _, _, _ => .oof
  | _ + 1, _, log, _, [] => .val false log
  | n + 1, env, log, v, pe :: rest => match bindingOf pe with
    | Option.some (w, _) => if isWrap w v then .val true log else matchVals p n env log v rest
    | Option.none => match evalExpr p n env log pe with
      | .val lit l => if v.beq lit then .val true l else matchVals p n env l v rest
      | .ret x l => .ret x l
      | .exit r l => .exit r l
      | .ffiErr l => .ffiErr l
      | .stuck => .stuck
      | .oof => .oof

/-- index of the first arm that matches; no arm: stuck -/
def selectArm (p : Program) : Nat → Env → Log → Val → List Pat → Nat → Res Nat
  | 0, _, _, _, _, _ => .oof
  | _ + 1, _, _, _, [], _ => .stuck
  | _ + 1, _, log, _, .default :: _, k => .val k log
  | n + 1, env, log, v, .values vs :: rest, k => match matchVals p n env log v vs with
    | .val true l => .val k l
    | .val false l => selectArm p n env l v rest (k + 1)
    | .ret x l => .ret x l
    | .exit r l => .exit r l
    | .ffiErr l => .ffiErr l
    | .stuck => .stuck
    | .oof => .oof
end

/-- Run function `f` on `args` (the entry point the harness uses). -/
def evalFn (p : Program) (fuel : Nat) (f : Nat) (args : List Val) : Res Val :=
  evalCall p fuel f args []

end AranyaV.Lang
