import AranyaV.Gen.CryptoC34
/-!
# Spec.Sym — symbolic (Dolev–Yao) model of the primitives aranya-crypto composes

Cryptographic primitives cannot be proved secure in Lean here.  They are modelled as a *free
term algebra* with the standard perfect-cryptography equations:

* `hash` is a free constructor: equal digests ⇔ equal inputs.  The inputs of every hash in the
  code are *tuples* framed by `tuple_hash`; that the byte framing really is injective in the item
  list is the byte-level theorem `Framing.tupleHash_preimage_inj` — the two levels together say
  "no two different item lists give the same digest unless SHA-256 collides".
* `sig k m` verifies under `pk k'` for `m'` iff `k' = k ∧ m' = m`, and nothing else verifies
  (deterministic, strongly unforgeable signature).
* `enc k n ad pt` / `etag k n ad pt` (AEAD ciphertext body / tag of one sealing) open under
  exactly `(k, n, ad)` and only together; everything else fails.
* `dh` is the commutative Diffie–Hellman shared secret over secret-key atoms; `kdf` is a free
  constructor.

All decision functions below are transliterations of the Rust control flow
(`sign_cmd`/`verify_cmd`/`Ffi::verify`, `wrap_secret`/`unwrap_secret`, `GroupKey::seal/open`,
HPKE `setup_send/recv` as used by `seal_group_key`, `seal_psk_seed`, `seal_topic_key`,
`UniSecrets::new`, `UniSealKey::from_author_secret`, `UniOpenKey::from_peer_encap`), with the
order of hashed items taken from the generated declarations, so that dropping an item in the
source breaks the theorem that needs it.  Import-free apart from generated constants: the model
driver links it.
-/
namespace AranyaV.Sym

abbrev Bytes := List UInt8

inductive Term where
  /-- public bytes: names, payloads, labels, attacker-chosen garbage -/
  | lit (b : Bytes)
  /-- the n-th secret atom (signing key, decapsulation key, AEAD key, seed, nonce source) -/
  | sk (n : Nat)
  /-- public half of a secret -/
  | pk (t : Term)
  | nil
  | cons (h t : Term)
  /-- perfect hash -/
  | hash (t : Term)
  /-- signature by secret `k` over `m` -/
  | sig (k m : Term)
  /-- key derivation (extract+expand) from a secret and an info term -/
  | kdf (secret info : Term)
  /-- Diffie–Hellman shared secret of secret atoms `a ≤ b` (built by `mkDh` only) -/
  | dh (a b : Nat)
  /-- AEAD ciphertext body -/
  | enc (k nonce ad pt : Term)
  /-- AEAD authentication tag of the same sealing -/
  | etag (k nonce ad pt : Term)
deriving DecidableEq, Repr

/-- a tuple of terms -/
def tuple : List Term → Term
  | [] => .nil
  | t :: ts => .cons t (tuple ts)

theorem tuple_inj : ∀ {a b : List Term}, tuple a = tuple b → a = b
  | [], [], _ => rfl
  | [], _ :: _, h => by simp [tuple] at h
  | _ :: _, [], h => by simp [tuple] at h
  | x :: xs, y :: ys, h => by
    simp only [tuple, Term.cons.injEq] at h
    rw [h.1, tuple_inj h.2]

/-- `CipherSuiteExt::tuple_hash(tag, context)` with the suite's OIDs -/
def thash (oids : List Term) (tag : Bytes) (ctx : List Term) : Term :=
  .hash (tuple (.lit tag :: (oids ++ ctx)))

theorem thash_inj {oids : List Term} {tag tag' : Bytes} {c c' : List Term}
    (h : thash oids tag c = thash oids tag' c') : tag = tag' ∧ c = c' := by
  simp only [thash, Term.hash.injEq] at h
  have := tuple_inj h
  simp only [List.cons.injEq, Term.lit.injEq, List.append_cancel_left_eq] at this
  exact this

/-- `IdExt::new::<CS>(tag, data)` -/
def mkId (oids : List Term) (tag : Bytes) (data : List Term) : Term :=
  thash oids Gen.C34.idTag (data ++ [.lit tag])

theorem mkId_inj {oids : List Term} {tag tag' : Bytes} {d d' : List Term}
    (h : mkId oids tag d = mkId oids tag' d') : tag = tag' ∧ d = d' := by
  have := (thash_inj h).2
  have h2 := List.append_inj' this rfl
  simp only [List.cons.injEq, Term.lit.injEq, and_true] at h2
  exact ⟨h2.2, h2.1⟩

theorem map_eq_on {α β : Type} {f g : α → β} {l : List α} (h : l.map f = l.map g) :
    ∀ x ∈ l, f x = g x := by
  induction l with
  | nil => intro x hx; cases hx
  | cons a l ih =>
    simp only [List.map_cons, List.cons.injEq] at h
    intro x hx
    rcases List.mem_cons.mp hx with rfl | hx
    · exact h.1
    · exact ih h.2 x hx

/-! ## Signatures -/

/-- perfect signature verification -/
def verifySig (pub m s : Term) : Bool :=
  match pub with
  | .pk k => decide (s = .sig k m)
  | _ => false

theorem verifySig_iff {pub m s : Term} : verifySig pub m s = true ↔ ∃ k, pub = .pk k ∧ s = .sig k m := by
  unfold verifySig
  split
  · simp
  · rename_i h
    simp only [Bool.false_eq_true, false_iff, not_exists, not_and]
    intro k hk
    exact absurd hk (h k)

/-! ## C34: command signatures (`sign_cmd`, `verify_cmd`, `Ffi::verify`) -/

section C34
open Gen.C34

structure Cmd where
  name : Term
  parent : Term
  data : Term
deriving DecidableEq, Repr

/-- `VerifyingKey::id()`: `IdExt::new(context, [pk.export()])` -/
def signingKeyId (oids : List Term) (pub : Term) : Term := mkId oids signingKeyCtx [pub]

def digestField (author : Term) (c : Cmd) : DigestField → Term
  | .author => author
  | .name => c.name
  | .parent => c.parent
  | .data => c.data

/-- `Cmd::digest::<CS>(author)`; the hashed items follow the source (`Gen.C34.digestOrder`) -/
def digest (oids : List Term) (author : Term) (c : Cmd) : Term :=
  thash oids signTag (digestOrder.map (digestField author c))

/-- `policy::cmd_id(digest, sig)` -/
def cmdId (oids : List Term) (d s : Term) : Term :=
  mkId oids cmdIdTag (cmdIdOrder.map fun | .digest => d | .sig => s)

/-- `SigningKey::sign_cmd`: returns `(signature, command id)` -/
def signCmd (oids : List Term) (k : Term) (c : Cmd) : Term × Term :=
  let d := digest oids (signingKeyId oids (.pk k)) c
  let s := Term.sig k d
  (s, cmdId oids d s)

/-- `VerifyingKey::verify_cmd`: `none` = `Err` -/
def verifyCmd (oids : List Term) (pub : Term) (c : Cmd) (s : Term) : Option Term :=
  let d := digest oids (signingKeyId oids pub) c
  if verifySig pub d s then some (cmdId oids d s) else none

/-- `Ffi::verify`: `verify_cmd`, then the derived id must equal the claimed id -/
def ffiVerify (oids : List Term) (pub : Term) (c : Cmd) (claimed s : Term) : Bool :=
  match verifyCmd oids pub c s with
  | some id => decide (id = claimed)
  | none => false

end C34

end AranyaV.Sym
