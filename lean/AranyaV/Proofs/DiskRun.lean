import AranyaV.Proofs.DiskInv
/-!
Runs of the writer protocol (C15): the hypotheses (`TornOK`/`ChecksumOK`, `Bounded`), the
bookkeeping functions used by the statements (`doneFrom`, `progFrom`, `recsOf`), the step lemmas
and the induction over the list of calls.
-/
namespace AranyaV.Disk
open AranyaV.Wire

/-! ## statement-level definitions -/

/-- **The checksum hypothesis for one root write.**  `old` is the medium when the root write
starts, `slot` the slot it goes to, `new` the record.  Whatever sub-masks `m1`, `m2` of the two
`pwrite`s (length prefix, body) reach the medium, the slot validates only as the new record or as
what validated there before. -/
def TornOK (ck : Checksum) (old : Img) (slot : Nat) (new : Root) : Prop :=
  ∀ (m1 m2 : List Bool) (r' : Root),
    loadValid ck (applyMasked (applyMasked old ⟨slot, be32Enc (encBody new).length⟩ m1)
      ⟨slot + lenPrefixLen, encBody new⟩ m2) slot = some r' →
    r' = new ∨ loadValid ck old slot = some r'

/-- `TornOK` for every root write of the run (`d` is the disk when the writer is in state `w`) -/
def ChecksumOK (L : Layout) (ck : Checksum) : Writer → Disk → List Call → Prop
  | _, _, [] => True
  | w, d, c :: cs =>
    (match c with
     | .append _ _ => True
     | .commit heads _ fact =>
       let r := w.commit L ck heads fact
       TornOK ck (d.execAll (r.2.take (r.2.length - 3))).durable w.nextRoot r.1.root) ∧
    ChecksumOK L ck (w.step L ck c).1 (d.execAll (w.step L ck c).2) cs

/-- every control record written by the run fits the machine types (`u64`/`i64`); beyond these
bounds the real code returns `Bug` errors, which the model does not have -/
def Bounded (L : Layout) (ck : Checksum) : Writer → List Call → Prop
  | _, [] => True
  | w, c :: cs =>
    (match c with
     | .append _ _ => True
     | .commit heads _ fact => (w.commit L ck heads fact).1.root.Bounded) ∧
    Bounded L ck (w.step L ck c).1 cs

/-- the committed root after a completed call -/
def Call.doneAfter (c : Call) (r : Root) (done : Option Root) : Option Root :=
  match c with
  | .commit _ _ _ => some r
  | .append _ _ => done

/-- root of the last commit all of whose ops are among the first `n` ops of the trace -/
def doneFrom (L : Layout) (ck : Checksum) (w : Writer) (done : Option Root) : List Call → Nat → Option Root
  | [], _ => done
  | c :: cs, n =>
    if n < (w.step L ck c).2.length then done
    else doneFrom L ck (w.step L ck c).1 (c.doneAfter (w.step L ck c).1.root done) cs
      (n - (w.step L ck c).2.length)

/-- root of the commit whose root write has started but whose final barrier has not returned
after the first `n` ops (the last three ops of a commit are: prefix write, body write, barrier) -/
def progFrom (L : Layout) (ck : Checksum) (w : Writer) : List Call → Nat → Option Root
  | [], _ => none
  | c :: cs, n =>
    if n < (w.step L ck c).2.length then
      (match c with
       | .commit _ _ _ => if (w.step L ck c).2.length ≤ n + 2 then some (w.step L ck c).1.root else none
       | .append _ _ => none)
    else progFrom L ck (w.step L ck c).1 cs (n - (w.step L ck c).2.length)

def Call.toRec (w : Writer) : Call → Rec
  | .append b refs => ⟨w.root.free.toNat, b, refs⟩
  | .commit h refs _ => ⟨w.root.free.toNat, h, refs⟩

/-- the records appended by the calls (an `append`'s item, a `commit`'s head set) -/
def recsOf (L : Layout) (ck : Checksum) (w : Writer) : List Call → List Rec
  | [] => []
  | c :: cs => c.toRec w :: recsOf L ck (w.step L ck c).1 cs

/-- what must hold of a crash image: `open` fails only if nothing was committed (`lo = none`),
otherwise returns `lo` or `hi`; every record that ends below the recovered write frontier is
intact -/
def SafeAt (L : Layout) (ck : Checksum) (img : Img) (lo hi : Option Root) (recs : List Rec) : Prop :=
  (match Writer.open L ck img with
   | none => lo = none
   | some w => some w.root = lo ∨ some w.root = hi) ∧
  (∀ w, Writer.open L ck img = some w → ∀ rec ∈ recs, (rec.end_ : Int) ≤ w.root.free → agreeRec img rec)

/-- what a later run needs to know about an image it is reopened from: both slots' length
prefixes keep reads inside the slot, the slot scheduled for the next root write holds nothing as
new as the recovered root, and the recovered write frontier lies in the data region -/
structure ReopenOK (L : Layout) (ck : Checksum) (img : Img) : Prop where
  lenA : lenOK img L.rootA
  lenB : lenOK img L.rootB
  stale : ∀ w, Writer.open L ck img = some w →
    ∀ r', loadValid ck img w.nextRoot = some r' → r'.gen < w.root.gen
  fs : ∀ w, Writer.open L ck img = some w → (L.freeStart : Int) ≤ w.root.free

/-! ## model equations -/

theorem ensure_root (L : Layout) (w : Writer) (e : Nat) : (w.ensureCapacity L e).1.root = w.root := by
  unfold Writer.ensureCapacity; split <;> rfl

theorem ensure_next (L : Layout) (w : Writer) (e : Nat) :
    (w.ensureCapacity L e).1.nextRoot = w.nextRoot := by
  unfold Writer.ensureCapacity; split <;> rfl

/-- ops that stay in the data region at or beyond `free` -/
def DataOp (L : Layout) (free : Nat) : Op → Prop
  | .write off _ => free ≤ off ∧ L.freeStart ≤ off
  | _ => True

theorem ensure_ops (L : Layout) (w : Writer) (e free : Nat) :
    ∀ o ∈ (w.ensureCapacity L e).2, DataOp L free o := by
  unfold Writer.ensureCapacity
  split
  · intro o h; cases h
  · intro o h
    simp only [List.mem_cons, List.not_mem_nil, or_false] at h
    rcases h with rfl | rfl <;> trivial

theorem appendAt_root (L : Layout) (w : Writer) (b : Bytes) :
    (w.appendAt L b).1.root = { w.root with free := ((w.root.free.toNat + 4 + b.length : Nat) : Int) } := by
  simp [Writer.appendAt, ensure_root, lenPrefixLen]

theorem appendAt_next (L : Layout) (w : Writer) (b : Bytes) :
    (w.appendAt L b).1.nextRoot = w.nextRoot := by
  simp [Writer.appendAt, ensure_next]

theorem appendAt_ops (L : Layout) (w : Writer) (b : Bytes) :
    (w.appendAt L b).2.2 = (w.ensureCapacity L (w.root.free.toNat + 4 + b.length)).2 ++
      [.write w.root.free.toNat (be32Enc b.length), .write (w.root.free.toNat + 4) b] := by
  simp [Writer.appendAt, lenPrefixLen]

/-- the record written by a commit -/
def commitRoot (ck : Checksum) (w : Writer) (heads : Bytes) (fact : Nat) : Root :=
  let free : Int := ((w.root.free.toNat + 4 + heads.length : Nat) : Int)
  { gen := w.root.gen + 1, heads := some w.root.free.toNat, fact := some fact, free := free,
    sum := ck (w.root.gen + 1) (some w.root.free.toNat) (some fact) free }

theorem commit_root (L : Layout) (ck : Checksum) (w : Writer) (heads : Bytes) (fact : Nat) :
    (w.commit L ck heads fact).1.root = commitRoot ck w heads fact := by
  simp only [Writer.commit, Writer.writeRoot, commitRoot, Writer.appendAt, ensure_root, lenPrefixLen]

theorem commit_next (L : Layout) (ck : Checksum) (w : Writer) (heads : Bytes) (fact : Nat) :
    (w.commit L ck heads fact).1.nextRoot = L.other w.nextRoot := by
  simp [Writer.commit, Writer.writeRoot, appendAt_next]

theorem commit_ops (L : Layout) (ck : Checksum) (w : Writer) (heads : Bytes) (fact : Nat) :
    (w.commit L ck heads fact).2 = ((w.appendAt L heads).2.2 ++ [.fdatasync]) ++
      [.write w.nextRoot (be32Enc (encBody (commitRoot ck w heads fact)).length),
       .write (w.nextRoot + lenPrefixLen) (encBody (commitRoot ck w heads fact)), .fdatasync] := by
  have h := commit_root L ck w heads fact
  simp only [Writer.commit, Writer.writeRoot] at h ⊢
  rw [h]
  simp [Writer.appendAt, ensure_next]

theorem commitRoot_valid (ck : Checksum) (w : Writer) (heads : Bytes) (fact : Nat) :
    (commitRoot ck w heads fact).valid ck = true := by
  simp [commitRoot, Root.valid]

/-! ## quiet states under lists of data ops -/

section
variable {L : Layout} {ck : Checksum}

theorem Quiet.execAll_data (hL : L.OK) {done : Option Root} {next g free : Nat} {recs : List Rec} :
    ∀ (ops : List Op) (d : Disk) (D : Nat), Quiet L ck d done next g D free recs →
      (∀ o ∈ ops, DataOp L free o) → ∃ D', Quiet L ck (d.execAll ops) done next g D' free recs := by
  intro ops
  induction ops with
  | nil => intro d D q _; exact ⟨D, q⟩
  | cons o os ih =>
    intro d D q h
    have ho := h o List.mem_cons_self
    have hos : ∀ o' ∈ os, DataOp L free o' := fun o' h' => h o' (List.mem_cons_of_mem _ h')
    simp only [Disk.execAll]
    cases o with
    | write off bytes => exact ih _ D (q.write bytes ho.1 ho.2) hos
    | fdatasync => exact ih _ free (q.sync hL) hos
    | fsync => exact ih _ free (q.sync hL) hos
    | falloc a b => exact ih _ D q hos
    | failed => exact ih _ D q hos

/-- verdict and intact records on every crash image of a quiet disk; `fut` are records that will
only be appended later -/
theorem Quiet.safe (hL : L.OK) {d : Disk} {done : Option Root} {next g D free : Nat} {recs : List Rec}
    (q : Quiet L ck d done next g D free recs) (hi : Option Root) (fut : List Rec)
    (hfut : ∀ rec ∈ fut, free ≤ rec.off) (χ : List (List Bool)) :
    SafeAt L ck (d.crash χ) done hi (recs ++ fut) ∧ ReopenOK L ck (d.crash χ) := by
  have ho := q.open_crash hL χ
  refine ⟨?_, (q.crash_slot hL χ (Or.inl rfl)).2, (q.crash_slot hL χ (Or.inr rfl)).2, ?_, ?_⟩
  · unfold SafeAt
    rw [ho]
    cases done with
    | none => exact ⟨rfl, fun w h => by cases h⟩
    | some r =>
      refine ⟨Or.inl rfl, ?_⟩
      intro w hw rec hrec hle
      simp only [Option.map_some, Option.some.injEq] at hw
      subst hw
      simp only [mkW] at hle
      have hD := q.doneFree r rfl
      have := q.D_le
      rcases List.mem_append.mp hrec with h | h
      · exact q.intact χ h (by omega)
      · have := hfut rec h; unfold Rec.end_ at hle; omega
  · intro w hw r' hr'
    rw [ho] at hw
    cases done with
    | none => cases hw
    | some r =>
      simp only [Option.map_some, Option.some.injEq] at hw
      subst hw
      simp only [mkW] at hr' ⊢
      rw [(q.crash_slot hL χ q.next_slot).1] at hr'
      obtain ⟨r0, h0, hlt⟩ := q.stale r' hr'
      cases h0; exact hlt
  · intro w hw
    rw [ho] at hw
    cases done with
    | none => cases hw
    | some r =>
      simp only [Option.map_some, Option.some.injEq] at hw
      subst hw
      exact q.doneFs r rfl

end

/-! ## the writer invariant at call boundaries -/

structure WInv (L : Layout) (ck : Checksum) (w : Writer) (d : Disk) (done : Option Root) (D : Nat)
    (recs : List Rec) : Prop where
  q : Quiet L ck d done w.nextRoot w.root.gen D w.root.free.toNat recs
  nonneg : 0 ≤ w.root.free
  fs : L.freeStart ≤ w.root.free.toNat

section
variable {L : Layout} {ck : Checksum} {w : Writer} {d : Disk} {done : Option Root} {D : Nat}
  {recs : List Rec}

theorem appendAt_dataOps (L : Layout) (w : Writer) (b : Bytes) (hfs : L.freeStart ≤ w.root.free.toNat) :
    ∀ o ∈ (w.appendAt L b).2.2, DataOp L w.root.free.toNat o := by
  rw [appendAt_ops]
  intro o ho
  rcases List.mem_append.mp ho with h | h
  · exact ensure_ops L w _ _ o h
  · simp only [List.mem_cons, List.not_mem_nil, or_false] at h
    rcases h with rfl | rfl
    · exact ⟨Nat.le_refl _, hfs⟩
    · exact ⟨by omega, by omega⟩

/-- any prefix of the ops of an `append_at` leaves the disk quiet with the same committed root -/
theorem append_mid (hL : L.OK) (h : WInv L ck w d done D recs) (b : Bytes) (n : Nat) :
    ∃ D', Quiet L ck (d.execAll ((w.appendAt L b).2.2.take n)) done w.nextRoot w.root.gen D'
      w.root.free.toNat recs :=
  Quiet.execAll_data hL _ d D h.q
    (fun o ho => appendAt_dataOps L w b h.fs o (List.mem_of_mem_take ho))

/-- the disk after a complete `append_at` -/
theorem append_quiet (hL : L.OK) (h : WInv L ck w d done D recs) (b : Bytes) (refs : List Nat) :
    ∃ D', Quiet L ck (d.execAll (w.appendAt L b).2.2) done w.nextRoot w.root.gen D'
      (w.root.free.toNat + 4 + b.length) (recs ++ [⟨w.root.free.toNat, b, refs⟩]) := by
  rw [appendAt_ops, execAll_append]
  obtain ⟨D', q'⟩ := Quiet.execAll_data hL _ d D h.q (ensure_ops L w _ w.root.free.toNat)
  exact ⟨D', q'.record h.fs b refs⟩

theorem append_inv (hL : L.OK) (h : WInv L ck w d done D recs) (b : Bytes) (refs : List Nat) :
    ∃ D', WInv L ck (w.appendAt L b).1 (d.execAll (w.appendAt L b).2.2) done D'
      (recs ++ [⟨w.root.free.toNat, b, refs⟩]) := by
  obtain ⟨D', q'⟩ := append_quiet hL h b refs
  refine ⟨D', ?_, ?_, ?_⟩
  · rw [appendAt_next, appendAt_root]
    simp only [Int.toNat_natCast]
    exact q'
  · rw [appendAt_root]; simp only; omega
  · rw [appendAt_root]; simp only [Int.toNat_natCast]; have := h.fs; omega

end

/-! ## the root write -/

section
variable {L : Layout} {ck : Checksum}

theorem crash_pre (d : Disk) (hp : d.pending = []) (pre body : Write) (χ : List (List Bool)) :
    ∃ m1 m2, (d.pwrite pre).crash χ = applyMasked (applyMasked d.durable pre m1) body m2 := by
  unfold Disk.crash
  simp only [durable_pwrite, pending_pwrite, hp, List.nil_append]
  cases χ with
  | nil => exact ⟨[], [], by simp [crashGo, applyMasked_nil]⟩
  | cons k ks => exact ⟨k, [], by simp [crashGo, applyMasked_nil]⟩

theorem crash_pre_body (d : Disk) (hp : d.pending = []) (pre body : Write) (χ : List (List Bool)) :
    ∃ m1 m2, ((d.pwrite pre).pwrite body).crash χ = applyMasked (applyMasked d.durable pre m1) body m2 := by
  unfold Disk.crash
  simp only [durable_pwrite, pending_pwrite, hp, List.nil_append, List.cons_append]
  cases χ with
  | nil => exact ⟨[], [], by simp [crashGo, applyMasked_nil]⟩
  | cons k ks =>
    cases ks with
    | nil => exact ⟨k, [], by simp [crashGo, applyMasked_nil]⟩
    | cons k2 ks2 => exact ⟨k, k2, by simp [crashGo]⟩

/-- the two slots' read ranges do not overlap -/
theorem other_disjoint (hL : L.OK) {next : Nat} (hn : next = L.rootA ∨ next = L.rootB) {i : Nat}
    (hi : i < rootMax) : L.other next + i < next ∨ next + rootMax ≤ L.other next + i := by
  have := hL.a_b
  rcases hn with rfl | rfl
  · rw [L.other_A]; omega
  · rw [Layout.other_B hL]; omega

/-- crash images while the root write is in flight (prefix written, or prefix and body written,
neither synced) -/
theorem torn_safe (hL : L.OK) {d : Disk} {done : Option Root} {next g free : Nat} {recs : List Rec}
    (q : Quiet L ck d done next g free free recs) {new : Root}
    (hgen : new.gen = g + 1) (hfree : new.free = (free : Int)) (hfs : L.freeStart ≤ free)
    (htorn : TornOK ck d.durable next new) (img : Img)
    (himg : ∃ m1 m2, img = applyMasked (applyMasked d.durable ⟨next, be32Enc (encBody new).length⟩ m1)
      ⟨next + lenPrefixLen, encBody new⟩ m2)
    (fut : List Rec) (hfut : ∀ rec ∈ fut, free ≤ rec.off) :
    SafeAt L ck img done (some new) (recs ++ fut) ∧ ReopenOK L ck img := by
  obtain ⟨m1, m2, rfl⟩ := himg
  have hlen := encBody_length_le new
  -- outside the slot being written the image is the durable one
  have hout : ∀ i, (i < next ∨ next + rootMax ≤ i) →
      applyMasked (applyMasked d.durable ⟨next, be32Enc (encBody new).length⟩ m1)
        ⟨next + lenPrefixLen, encBody new⟩ m2 i = d.durable i := by
    intro i hi
    rw [applyMasked_not_covers, applyMasked_not_covers]
    · unfold covers; simp only [be32Enc_length]; unfold rootMax at hi; omega
    · unfold covers; simp only [lenPrefixLen]; unfold rootMax bodyMax at *; omega
  have hother := slot_congr ck (q.lenS (Layout.other_slot hL q.next_slot))
    (fun i hi => (hout _ (other_disjoint hL q.next_slot hi)).symm)
  have hcur := hother.1.symm.trans q.cur
  have hst : ∀ r', loadValid ck (applyMasked (applyMasked d.durable ⟨next, be32Enc (encBody new).length⟩ m1)
        ⟨next + lenPrefixLen, encBody new⟩ m2) next = some r' →
      r' = new ∨ ∃ r, done = some r ∧ r'.gen < r.gen := by
    intro r' h
    rcases htorn m1 m2 r' h with h | h
    · exact Or.inl h
    · exact Or.inr (q.stale r' h)
  have hdata : ∀ rec ∈ recs, agreeRec (applyMasked (applyMasked d.durable ⟨next, be32Enc (encBody new).length⟩ m1)
        ⟨next + lenPrefixLen, encBody new⟩ m2) rec := by
    intro rec hrec
    obtain ⟨a, b, _, e⟩ := q.recs_ok rec hrec
    refine agreeRec_congr (fun i hi _ => hout i (Or.inr ?_)) (e b)
    have := slot_lt hL q.next_slot (i := rootMax - 1) (by unfold rootMax; omega)
    unfold rootMax at *; omega
  have hlenNext := lenOK_mix (q.lenS q.next_slot) hlen m1 m2 (encBody new)
  have hlenS : ∀ s, s = L.rootA ∨ s = L.rootB →
      lenOK (applyMasked (applyMasked d.durable ⟨next, be32Enc (encBody new).length⟩ m1)
        ⟨next + lenPrefixLen, encBody new⟩ m2) s := by
    intro s hs
    by_cases hsn : s = next
    · subst hsn; exact hlenNext
    · have : s = L.other next := by
        rcases hs with rfl | rfl <;> rcases q.next_slot with h | h
        · exact absurd h.symm hsn
        · rw [h, Layout.other_B hL]
        · rw [h, L.other_A]
        · exact absurd h.symm hsn
      subst this; exact hother.2
  rcases open_torn hL ck q.next_slot hcur q.gen hgen hst with ⟨ho, hold⟩ | ⟨ho, hnewload⟩
  · refine ⟨?_, hlenS _ (Or.inl rfl), hlenS _ (Or.inr rfl), ?_, ?_⟩
    · unfold SafeAt
      rw [ho]
      cases done with
      | none => exact ⟨rfl, fun w h => by cases h⟩
      | some r =>
        refine ⟨Or.inl rfl, ?_⟩
        intro w hw rec hrec hle
        simp only [Option.map_some, Option.some.injEq] at hw
        subst hw
        simp only [mkW] at hle
        have hD := q.doneFree r rfl
        rcases List.mem_append.mp hrec with h | h
        · exact hdata rec h
        · have := hfut rec h; unfold Rec.end_ at hle; omega
    · intro w hw r' hr'
      rw [ho] at hw
      cases done with
      | none => cases hw
      | some r =>
        simp only [Option.map_some, Option.some.injEq] at hw
        subst hw
        simp only [mkW] at hr' ⊢
        obtain ⟨r0, h0, hlt⟩ := hold r' hr'
        cases h0; exact hlt
    · intro w hw
      rw [ho] at hw
      cases done with
      | none => cases hw
      | some r =>
        simp only [Option.map_some, Option.some.injEq] at hw
        subst hw
        exact q.doneFs r rfl
  · refine ⟨?_, hlenS _ (Or.inl rfl), hlenS _ (Or.inr rfl), ?_, ?_⟩
    · unfold SafeAt
      rw [ho]
      refine ⟨Or.inr rfl, ?_⟩
      intro w hw rec hrec hle
      simp only [Option.some.injEq] at hw
      subst hw
      simp only [mkW, hfree] at hle
      rcases List.mem_append.mp hrec with h | h
      · exact hdata rec h
      · have := hfut rec h; unfold Rec.end_ at hle; omega
    · intro w hw r' hr'
      rw [ho] at hw
      simp only [Option.some.injEq] at hw
      subst hw
      simp only [mkW] at hr' ⊢
      rw [hcur] at hr'
      have := q.gen r' hr'
      omega
    · intro w hw
      rw [ho] at hw
      simp only [Option.some.injEq] at hw
      subst hw
      simp only [mkW, hfree]
      omega

/-- after the barrier that ends the root write, the new root is the committed one -/
theorem commit_done (hL : L.OK) {d : Disk} {done : Option Root} {next g free : Nat} {recs : List Rec}
    (q : Quiet L ck d done next g free free recs) (hp : d.pending = []) {new : Root}
    (hb : new.Bounded) (hv : new.valid ck = true)
    (hgen : new.gen = g + 1) (hfree : new.free = (free : Int)) (hfs : L.freeStart ≤ free) :
    Quiet L ck ((d.pwrite ⟨next, be32Enc (encBody new).length⟩).pwrite
      ⟨next + lenPrefixLen, encBody new⟩).sync (some new) (L.other next) (g + 1) free free recs := by
  have hlen := encBody_length_le new
  have hview : d.view = d.durable := by simp [Disk.view, hp, applyAll]
  have hdur : ((d.pwrite ⟨next, be32Enc (encBody new).length⟩).pwrite
      ⟨next + lenPrefixLen, encBody new⟩).sync.durable =
      applyFull (applyFull d.durable ⟨next, be32Enc (encBody new).length⟩) ⟨next + lenPrefixLen, encBody new⟩ := by
    simp [hview]
  have hout : ∀ i, (i < next ∨ next + rootMax ≤ i) →
      applyFull (applyFull d.durable ⟨next, be32Enc (encBody new).length⟩)
        ⟨next + lenPrefixLen, encBody new⟩ i = d.durable i := by
    intro i hi
    rw [applyFull_not_covers, applyFull_not_covers]
    · unfold covers; simp only [be32Enc_length]; unfold rootMax at hi; omega
    · unfold covers; simp only [lenPrefixLen]; unfold rootMax bodyMax at *; omega
  have hother := slot_congr ck (q.lenS (Layout.other_slot hL q.next_slot))
    (fun i hi => (hout _ (other_disjoint hL q.next_slot hi)).symm)
  have hpre : agree (applyFull (applyFull d.durable ⟨next, be32Enc (encBody new).length⟩)
      ⟨next + lenPrefixLen, encBody new⟩) next (be32Enc (encBody new).length) := by
    refine agree_congr (fun i hi => applyFull_not_covers ?_) (agree_applyFull _ _ _)
    rw [be32Enc_length] at hi
    unfold covers; simp only [lenPrefixLen]; omega
  have hbody : agree (applyFull (applyFull d.durable ⟨next, be32Enc (encBody new).length⟩)
      ⟨next + lenPrefixLen, encBody new⟩) (next + 4) (encBody new) := agree_applyFull _ _ _
  have hload : loadValid ck (applyFull (applyFull d.durable ⟨next, be32Enc (encBody new).length⟩)
      ⟨next + lenPrefixLen, encBody new⟩) next = some new := by
    unfold loadValid
    rw [loadRoot_of_agree hb hpre hbody]
    simp [hv]
  have hlenNext : lenOK (applyFull (applyFull d.durable ⟨next, be32Enc (encBody new).length⟩)
      ⟨next + lenPrefixLen, encBody new⟩) next := by
    unfold lenOK
    rw [lenAt_be32 (by unfold bodyMax at hlen; omega) hpre]
    unfold rootMax bodyMax at *; omega
  have hn' := Layout.other_slot hL q.next_slot
  have hlenS : ∀ s, s = L.rootA ∨ s = L.rootB →
      lenOK (applyFull (applyFull d.durable ⟨next, be32Enc (encBody new).length⟩)
        ⟨next + lenPrefixLen, encBody new⟩) s := by
    intro s hs
    by_cases hsn : s = next
    · subst hsn; exact hlenNext
    · have : s = L.other next := by
        rcases hs with rfl | rfl <;> rcases q.next_slot with h | h
        · exact absurd h.symm hsn
        · rw [h, Layout.other_B hL]
        · rw [h, L.other_A]
        · exact absurd h.symm hsn
      subst this; exact hother.2
  refine ⟨hn', ?_, ?_, ?_, ?_, ?_, ?_, Nat.le_refl _, ?_, ?_, ?_⟩
  · rw [hdur]; exact hlenS _ (Or.inl rfl)
  · rw [hdur]; exact hlenS _ (Or.inr rfl)
  · rw [hdur, Layout.other_other hL q.next_slot]; exact hload
  · intro r' h
    rw [hdur, ← hother.1, q.cur] at h
    exact ⟨new, rfl, by have := q.gen r' h; omega⟩
  · intro r h; cases h; exact hgen
  · intro p hp'; simp at hp'
  · intro r h; cases h; rw [hfree]; exact Int.le_refl _
  · intro r h; cases h; rw [hfree]; omega
  · intro rec hrec
    obtain ⟨a, b, _, e⟩ := q.recs_ok rec hrec
    have hag : agreeRec (applyFull (applyFull d.durable ⟨next, be32Enc (encBody new).length⟩)
        ⟨next + lenPrefixLen, encBody new⟩) rec := by
      refine agreeRec_congr (fun i hi _ => hout i (Or.inr ?_)) (e b)
      have := slot_lt hL q.next_slot (i := rootMax - 1) (by unfold rootMax; omega)
      unfold rootMax at *; omega
    refine ⟨a, b, ?_, fun _ => ?_⟩
    · rw [view_sync, view_pwrite, view_pwrite, hview]; exact hag
    · rw [hdur]; exact hag

end

end AranyaV.Disk
