import AranyaV.Model.Sync
import AranyaV.Proofs.Segments
/-! Helper definitions and lemmas for the sync model (C16, C17): what a `to_send` list stands
for (`streamIds`, `streamLocs`), the specification of one `get_commands` call (`gcLoop_spec`),
and traces of polls. -/
namespace AranyaV.Sync
open AranyaV.Queue AranyaV.Segments

/-! ## what a to-send entry stands for -/

/-- the command ids a `to_send` entry stands for: from the location to the end of its segment -/
def entryIds (s : Store) (l : Loc) : List Nat :=
  match s.seg? l.seg with
  | some g => g.getFrom l
  | none => []

/-- the commands a `to_send` list stands for, in sending order -/
def streamIds (s : Store) (ts : List Loc) : List Nat := ts.flatMap (entryIds s)

/-- termination measure: remaining entries plus remaining commands -/
def weight (s : Store) (ts : List Loc) : Nat := (ts.map (fun l => 1 + (entryIds s l).length)).sum

@[simp] theorem streamIds_nil (s : Store) : streamIds s [] = [] := rfl
@[simp] theorem streamIds_cons (s : Store) (l : Loc) (ts : List Loc) :
    streamIds s (l :: ts) = entryIds s l ++ streamIds s ts := by simp [streamIds]
@[simp] theorem weight_nil (s : Store) : weight s [] = 0 := rfl
@[simp] theorem weight_cons (s : Store) (l : Loc) (ts : List Loc) :
    weight s (l :: ts) = 1 + (entryIds s l).length + weight s ts := by simp [weight]

theorem getFrom_shift {g : Seg} {l : Loc} (h1 : g.idx = l.seg) (h2 : g.first ≤ l.mc) (k : Nat) :
    g.getFrom ⟨l.mc + k, l.seg⟩ = (g.getFrom l).drop k := by
  unfold Seg.getFrom
  have : g.first ≤ l.mc + k := by omega
  simp only [h1, h2, this, and_self, if_true, List.drop_drop]
  congr 1; omega

theorem getFrom_ne_nil {g : Seg} {l : Loc} (h : g.getFrom l ≠ []) : g.idx = l.seg ∧ g.first ≤ l.mc := by
  unfold Seg.getFrom at h
  by_cases hc : g.idx = l.seg ∧ g.first ≤ l.mc
  · exact hc
  · simp [hc] at h

theorem entryIds_resume {s : Store} {g : Seg} {l : Loc} (hg : s.seg? l.seg = some g) (k : Nat)
    (hk : k < (g.getFrom l).length) :
    entryIds s ⟨l.mc + k, l.seg⟩ = (g.getFrom l).drop k := by
  have hne : g.getFrom l ≠ [] := by
    intro h; rw [h] at hk; simp at hk
  obtain ⟨h1, h2⟩ := getFrom_ne_nil hne
  simp only [entryIds, hg]
  exact getFrom_shift h1 h2 k

/-! ## one `get_commands` call -/

/-- Specification of the `get_commands` loop.  `pre` is `to_send[..i]`, `ts` is `to_send[i..]`.
With `rest` = what remains to be sent afterwards (`to_send[next..]` after the resume update):
nothing is lost or duplicated (`b.cmds ++ stream rest = acc ++ stream ts`), the measure does not
grow, and it shrinks whenever there was something to send and room for at least one command. -/
theorem gcLoop_spec (lim : Limits) (s : Store) (sz : Nat → Nat) :
    ∀ (ts pre : List Loc) (acc : List Nat) (used : Nat) (b : Batch),
      gcLoop lim s sz ts pre.length acc used = .ok b →
      b.cmds ++ streamIds s ((applyResume (pre ++ ts) b.resume).drop b.next) = acc ++ streamIds s ts ∧
      weight s ((applyResume (pre ++ ts) b.resume).drop b.next) ≤ weight s ts ∧
      (ts ≠ [] → acc.length < lim.responseMax →
        weight s ((applyResume (pre ++ ts) b.resume).drop b.next) < weight s ts) ∧
      (acc.length ≤ lim.responseMax → b.cmds.length ≤ lim.responseMax) ∧
      ((applyResume (pre ++ ts) b.resume).length = (pre ++ ts).length) ∧
      pre.length ≤ b.next ∧ b.next ≤ (pre ++ ts).length := by
  intro ts
  induction ts with
  | nil =>
    intro pre acc used b h
    simp only [gcLoop, Except.ok.injEq] at h
    subst h
    simp [applyResume]
  | cons loc rest ih =>
    intro pre acc used b h
    unfold gcLoop at h
    by_cases hfull : acc.length ≥ lim.responseMax
    · simp only [hfull, if_true, Except.ok.injEq] at h
      subst h
      simp only [applyResume, List.drop_left', List.length_append, List.length_cons]
      refine ⟨by simp, Nat.le_refl _, ?_, ?_, trivial, Nat.le_refl _, by omega⟩
      · intro _ hlt; omega
      · intro hle; exact hle
    · rw [if_neg hfull] at h
      cases hg : s.seg? loc.seg with
      | none => rw [hg] at h; cases h
      | some g =>
        rw [hg] at h
        dsimp only at h
        have hroom : 1 ≤ lim.responseMax - acc.length := by omega
        have hent : entryIds s loc = g.getFrom loc := by simp [entryIds, hg]
        generalize htk : List.take (lim.responseMax - acc.length) (g.getFrom loc) = tk at h
        have htklen : tk.length = min (lim.responseMax - acc.length) (g.getFrom loc).length := by
          rw [← htk, List.length_take]
        split at h
        · cases h
        · split at h
          · -- the response filled up inside this segment
            rename_i hpart
            cases h
            have hlen : tk.length = lim.responseMax - acc.length := by omega
            have hres := entryIds_resume hg tk.length hpart
            have hset : ((pre ++ loc :: rest).set pre.length ⟨loc.mc + tk.length, loc.seg⟩).drop pre.length
                = ⟨loc.mc + tk.length, loc.seg⟩ :: rest := by
              rw [List.set_append_right _ _ (Nat.le_refl _)]
              simp
            simp only [applyResume]
            rw [hset]
            have htd : tk ++ (g.getFrom loc).drop tk.length = g.getFrom loc := by
              rw [hlen, ← htk]; exact List.take_append_drop _ _
            refine ⟨?_, ?_, ?_, ?_, by simp, Nat.le_refl _, by simp⟩
            · simp only [streamIds_cons, hres, hent]
              rw [List.append_assoc, ← List.append_assoc tk, htd]
            · simp only [weight_cons, hres, hent, List.length_drop]; omega
            · intro _ _
              simp only [weight_cons, hres, hent, List.length_drop]; omega
            · intro _
              simp only [List.length_append]; omega
          · -- the whole (rest of the) segment fits
            rename_i hpart
            have htake : tk = g.getFrom loc := by
              rw [← htk]; apply List.take_of_length_le; omega
            subst htake
            have hpre : (pre ++ [loc]).length = pre.length + 1 := by simp
            rw [← hpre] at h
            obtain ⟨h1, h2, h3, h4, h5, h6, h7⟩ := ih (pre ++ [loc]) _ _ b h
            have happ : pre ++ [loc] ++ rest = pre ++ loc :: rest := by simp
            rw [happ] at h1 h2 h3 h5 h7
            refine ⟨?_, ?_, ?_, ?_, h5, by omega, h7⟩
            · rw [h1]; simp [hent]
            · simp only [weight_cons]; omega
            · intro _ _; simp only [weight_cons]; omega
            · intro hle
              by_cases hr : acc.length + (g.getFrom loc).length ≤ lim.responseMax
              · exact h4 (by simpa using hr)
              · omega

/-! ## locations of a stream -/

/-- the locations a `to_send` entry stands for -/
def entryLocs (s : Store) (l : Loc) : List Loc :=
  (List.range (entryIds s l).length).map (fun j => ⟨l.mc + j, l.seg⟩)

def streamLocs (s : Store) (ts : List Loc) : List Loc := ts.flatMap (entryLocs s)

theorem entryIds_length_valid {s : Store} {l : Loc} {g : Seg} (hg : s.seg? l.seg = some g)
    (h1 : g.first ≤ l.mc) : (entryIds s l).length = g.first + g.ids.length - l.mc := by
  have := seg?_idx hg
  simp [entryIds, hg, Seg.getFrom, this, h1]; omega

/-- the ids of a stream are the ids stored at its locations -/
theorem streamIds_eq_cmdAt (s : Store) (ts : List Loc) :
    (streamLocs s ts).map (s.cmdAt) = (streamIds s ts).map some := by
  induction ts with
  | nil => rfl
  | cons l ts ih =>
    simp only [streamLocs, streamIds, List.flatMap_cons, List.map_append] at ih ⊢
    rw [ih]; congr 1
    unfold entryLocs entryIds Store.cmdAt
    cases hg : s.seg? l.seg with
    | none => simp
    | some g =>
      simp only [List.map_map]
      by_cases hc : g.idx = l.seg ∧ g.first ≤ l.mc
      · apply List.ext_getElem
        · simp
        · intro i h1 h2
          simp only [List.length_map, List.length_range] at h1
          simp only [List.getElem_map, List.getElem_range, Function.comp, Seg.getCommand, hg]
          have h3 : g.first ≤ l.mc + i := by omega
          simp only [hc.1, h3, and_self, if_true]
          simp only [Seg.getFrom, hc, and_self, if_true, List.length_drop] at h1
          simp only [Seg.getFrom, hc, and_self, if_true, List.getElem_drop]
          rw [List.getElem?_eq_getElem (by omega)]
          congr 2; omega
      · simp [Seg.getFrom, hc]

/-! ## the closure property of a to-send list -/

/-- Closure property of a `to_send` list relative to a set `cov` of covered locations (the
ancestors-or-self of the peer's sample): every entry points into its segment, and every parent of
the entry's first command is covered or lies in the range of an *earlier* entry. -/
def ToSendOK (s : Store) (cov : Loc → Prop) (ts : List Loc) : Prop :=
  ∀ k e, ts[k]? = some e →
    (∃ g, s.seg? e.seg = some g ∧ g.first ≤ e.mc) ∧
    ∀ p ∈ s.parents e, cov p ∨
      ∃ (k' : Nat) (e' : Loc), k' < k ∧ ts[k']? = some e' ∧ e'.seg = p.seg ∧ e'.mc ≤ p.mc ∧ s.valid p = true

theorem mem_entryLocs {s : Store} {e x : Loc} :
    x ∈ entryLocs s e ↔ x.seg = e.seg ∧ e.mc ≤ x.mc ∧ x.mc < e.mc + (entryIds s e).length := by
  unfold entryLocs
  simp only [List.mem_map, List.mem_range]
  constructor
  · rintro ⟨j, hj, rfl⟩; exact ⟨rfl, by simp, by simp; omega⟩
  · rintro ⟨h1, h2, h3⟩
    refine ⟨x.mc - e.mc, by omega, ?_⟩
    cases x; simp at h1 h2 ⊢; exact ⟨by omega, h1.symm⟩

/-- a valid location of the same segment at or above an entry's start is in the entry's range -/
theorem mem_entryLocs_of_valid {s : Store} {e p : Loc} (hseg : e.seg = p.seg) (hle : e.mc ≤ p.mc)
    (hv : s.valid p = true) (hfirst : ∃ g, s.seg? e.seg = some g ∧ g.first ≤ e.mc) :
    p ∈ entryLocs s e := by
  obtain ⟨g, hg, h1⟩ := hfirst
  obtain ⟨g', hg', _, h3⟩ := valid_iff.mp hv
  rw [← hseg, hg] at hg'; cases hg'
  rw [mem_entryLocs, entryIds_length_valid hg h1]
  exact ⟨hseg.symm, hle, by omega⟩

end AranyaV.Sync
