import AranyaV.Model.LangLower
namespace AranyaV.Lang
open AranyaV.Gen.Lang

/-- no `never` inside a (declared) type -/
def Ty.neverFree : Ty → Bool
  | .never => false
  | .optional t => t.neverFree
  | .result a b => a.neverFree && b.neverFree
  | _ => true

theorem fitsType_never (v : Val) : v.fitsType .never = false := by cases v <;> rfl

theorem fits_bool {v : Val} (h : v.fitsType .bool = true) : ∃ b, v = .bool b := by
  cases v <;> simp [Val.fitsType] at h; exact ⟨_, rfl⟩
theorem fits_int {v : Val} (h : v.fitsType .int = true) : ∃ i, v = .int i := by
  cases v <;> simp [Val.fitsType] at h; exact ⟨_, rfl⟩
theorem fits_optional {v : Val} {t : Ty} (h : v.fitsType (.optional t) = true) :
    v = .none ∨ ∃ w, v = .some w ∧ w.fitsType t = true := by
  cases v <;> simp [Val.fitsType] at h
  · exact Or.inl rfl
  · exact Or.inr ⟨_, rfl, h⟩

theorem matchesT_eq : ∀ {a b : Ty}, a.matchesT b = true → a = b := by
  intro a
  induction a with
  | optional t ih => intro b h; cases b <;> simp [Ty.matchesT] at h; rw [ih h]
  | result x y ihx ihy => intro b h; cases b <;> simp [Ty.matchesT] at h; rw [ihx h.1, ihy h.2]
  | struct n => intro b h; cases b <;> simp [Ty.matchesT] at h; rw [h]
  | enum n => intro b h; cases b <;> simp [Ty.matchesT] at h; rw [h]
  | _ => intro b h; cases b <;> simp [Ty.matchesT] at h <;> rfl

/-- subsumption along `fits_type` into a declared (never-free) type -/
theorem fitsType_of_fits : ∀ {s t : Ty} {v : Val}, s.fits t = true → t.neverFree = true → v.fitsType s = true → v.fitsType t = true := by
  intro s
  induction s with
  | never => intro t v _ _ h; rw [fitsType_never] at h; cases h
  | optional a ih =>
    intro t v hf hn hv
    cases t <;> simp [Ty.fits, Ty.neverFree] at hf hn
    rcases fits_optional hv with rfl | ⟨w, rfl, hw⟩
    · rfl
    · simp only [Val.fitsType]; exact ih hf hn hw
  | result a b iha ihb =>
    intro t v hf hn hv
    cases t <;> simp [Ty.fits, Ty.neverFree] at hf hn
    cases v <;> simp [Val.fitsType] at hv ⊢
    · exact iha hf.1 hn.1 hv
    · exact ihb hf.2 hn.2 hv
  | struct n => intro t v hf hn hv; cases t <;> simp [Ty.fits, Ty.neverFree] at hf hn; subst hf; exact hv
  | enum n => intro t v hf hn hv; cases t <;> simp [Ty.fits, Ty.neverFree] at hf hn; subst hf; exact hv
  | _ => intro t v hf hn hv; cases t <;> simp [Ty.fits, Ty.neverFree] at hf hn <;> exact hv

theorem fitsType_unify : ∀ {l r u : Ty} {v : Val}, unify l r = some u →
    (v.fitsType l = true → v.fitsType u = true) ∧ (v.fitsType r = true → v.fitsType u = true) := by
  intro l
  induction l with
  | optional a ih =>
    intro r u v h
    cases r <;> simp [unify, Ty.matchesT] at h
    · obtain ⟨x, hx, rfl⟩ := h
      refine ⟨fun hv => ?_, fun hv => ?_⟩
      · rcases fits_optional hv with rfl | ⟨w, rfl, hw⟩
        · rfl
        · simp only [Val.fitsType]; exact (ih hx).1 hw
      · rcases fits_optional hv with rfl | ⟨w, rfl, hw⟩
        · rfl
        · simp only [Val.fitsType]; exact (ih hx).2 hw
    · subst h; exact ⟨id, fun hv => (by rw [fitsType_never] at hv; cases hv)⟩
  | result a b iha ihb =>
    intro r u v h
    cases r <;> simp [unify, Ty.matchesT] at h
    · subst h; exact ⟨id, fun hv => (by rw [fitsType_never] at hv; cases hv)⟩
    · rename_i c d
      cases hx : unify a c <;> cases hy : unify b d <;> simp [hx, hy] at h
      subst h
      refine ⟨fun hv => ?_, fun hv => ?_⟩
      · cases v <;> simp [Val.fitsType] at hv ⊢
        · exact (iha hx).1 hv
        · exact (ihb hy).1 hv
      · cases v <;> simp [Val.fitsType] at hv ⊢
        · exact (iha hx).2 hv
        · exact (ihb hy).2 hv
  | never =>
    intro r u v h
    cases r <;> simp [unify] at h <;> subst h <;> exact ⟨fun hv => (by rw [fitsType_never] at hv; cases hv), id⟩
  | _ =>
    intro r u v h
    cases r <;> simp [unify, Ty.matchesT] at h <;>
      first
        | (subst h; exact ⟨id, fun hv => (by rw [fitsType_never] at hv; cases hv)⟩)
        | (obtain ⟨h1, h2⟩ := h; subst h1; subst h2; exact ⟨id, id⟩)
        | (subst h; exact ⟨id, id⟩)

/-- `check_type` against a concrete target: a value of the checked type has the target's shape -/
theorem fitsType_checkType {t target x : Ty} {v : Val} (h : checkType t target = some x) (hn : target.neverFree = true)
    (hv : v.fitsType t = true) : v.fitsType target = true ∧ x = t := by
  unfold checkType at h
  cases t <;> simp at h
  all_goals first
    | (rw [fitsType_never] at hv; cases hv)
    | exact ⟨fitsType_of_fits h.1 hn hv, h.2.symm⟩

theorem fitsType_unifyAs {a b target u : Ty} (h : unifyAs a b target = some u) (hn : target.neverFree = true) :
    (∀ v : Val, v.fitsType a = true → v.fitsType target = true) ∧ (∀ v : Val, v.fitsType b = true → v.fitsType target = true) := by
  unfold unifyAs at h
  cases ha : checkType a target <;> cases hb : checkType b target <;> simp [ha, hb] at h
  exact ⟨fun v hv => (fitsType_checkType ha hn hv).1, fun v hv => (fitsType_checkType hb hn hv).1⟩

/-! ## struct and enum values: every struct occurring inside a value conforms to its definition,
every enum value is one of the declared variants -/
mutual
def Val.wf (p : Program) : Val → Prop
  | .struct n fs =>
    (∃ d, p.structDef n = some d ∧ ∀ q ∈ d, ∃ v, getField fs q.1 = some v ∧ v.fitsType q.2 = true) ∧ wfFields p fs
  | .some v | .ok v | .err v => Val.wf p v
  | .enum n i => ∃ q, p.enums.find? (·.1 == n) = some q ∧ 0 ≤ i ∧ i < q.2.length
  | _ => True
def wfFields (p : Program) : List (Nat × Val) → Prop
  | [] => True
  | (_, v) :: rest => Val.wf p v ∧ wfFields p rest
end

theorem wfFields_get {p : Program} : ∀ {fs : List (Nat × Val)} {k : Nat} {v : Val}, wfFields p fs →
    getField fs k = some v → v.wf p
  | [], _, _, _, h => by simp [getField] at h
  | (k', v') :: rest, k, v, hw, h => by
    simp only [wfFields] at hw
    simp only [getField] at h
    split at h
    · simp only [Option.some.injEq] at h; subst h; exact hw.1
    · exact wfFields_get hw.2 h

theorem wfFields_set {p : Program} : ∀ {fs : List (Nat × Val)} {k : Nat} {v : Val}, wfFields p fs → v.wf p →
    wfFields p (setField fs k v)
  | [], _, _, _, hv => by simp [setField, wfFields, hv]
  | (k', v') :: rest, k, v, hw, hv => by
    simp only [wfFields] at hw
    simp only [setField]
    split
    · simp only [wfFields]; exact ⟨hv, hw.1, hw.2⟩
    · split
      · simp only [wfFields]; exact ⟨hv, hw.2⟩
      · simp only [wfFields]; exact ⟨hw.1, wfFields_set hw.2 hv⟩

theorem getField_setField_same : ∀ (fs : List (Nat × Val)) (k : Nat) (v : Val), getField (setField fs k v) k = some v
  | [], k, v => by simp [setField, getField]
  | (k', v') :: rest, k, v => by
    simp only [setField]
    split
    · simp [getField]
    · split
      · simp [getField]
      · rename_i h1 h2
        simp only [getField, h2, if_false]
        exact getField_setField_same rest k v

theorem getField_setField_other : ∀ (fs : List (Nat × Val)) (k k2 : Nat) (v : Val), k2 ≠ k →
    getField (setField fs k v) k2 = getField fs k2
  | [], k, k2, v, h => by simp [setField, getField, h]
  | (k', v') :: rest, k, k2, v, h => by
    simp only [setField]
    split
    · simp [getField, h]
    · split
      · rename_i h1 h2; subst h2; simp [getField, h]
      · simp only [getField]
        split
        · rfl
        · exact getField_setField_other rest k k2 v h

/-- value typing: `Value::fits_type` plus conformance of the struct values inside -/
def Fit (p : Program) (v : Val) (t : Ty) : Prop := v.fitsType t = true ∧ v.wf p

theorem fit_never {p : Program} {v : Val} (h : Fit p v .never) : False := by
  have := h.1; rw [fitsType_never] at this; cases this
theorem fit_bool {p : Program} {v : Val} (h : Fit p v .bool) : ∃ b, v = .bool b := fits_bool h.1
theorem fit_int {p : Program} {v : Val} (h : Fit p v .int) : ∃ i, v = .int i := fits_int h.1
theorem fit_optional {p : Program} {v : Val} {t : Ty} (h : Fit p v (.optional t)) :
    v = .none ∨ ∃ w, v = .some w ∧ Fit p w t := by
  rcases fits_optional h.1 with rfl | ⟨w, rfl, hw⟩
  · exact Or.inl rfl
  · exact Or.inr ⟨w, rfl, hw, by have := h.2; simpa [Val.wf] using this⟩
theorem fit_of_fits {p : Program} {s t : Ty} {v : Val} (hf : s.fits t = true) (hn : t.neverFree = true) (h : Fit p v s) :
    Fit p v t := ⟨fitsType_of_fits hf hn h.1, h.2⟩
theorem fit_unify {p : Program} {l r u : Ty} {v : Val} (hu : unify l r = some u) :
    (Fit p v l → Fit p v u) ∧ (Fit p v r → Fit p v u) :=
  ⟨fun h => ⟨(fitsType_unify hu).1 h.1, h.2⟩, fun h => ⟨(fitsType_unify hu).2 h.1, h.2⟩⟩
theorem fit_checkType {p : Program} {t target x : Ty} {v : Val} (h : checkType t target = some x) (hn : target.neverFree = true)
    (hv : Fit p v t) : Fit p v target ∧ x = t :=
  ⟨⟨(fitsType_checkType h hn hv.1).1, hv.2⟩, (fitsType_checkType h hn hv.1).2⟩
theorem fit_unifyAs {p : Program} {a b target u : Ty} (h : unifyAs a b target = some u) (hn : target.neverFree = true) :
    (∀ v : Val, Fit p v a → Fit p v target) ∧ (∀ v : Val, Fit p v b → Fit p v target) :=
  ⟨fun v hv => ⟨(fitsType_unifyAs h hn).1 v hv.1, hv.2⟩, fun v hv => ⟨(fitsType_unifyAs h hn).2 v hv.1, hv.2⟩⟩

theorem fit_unit {p : Program} : Fit p .unit .unit := ⟨rfl, by simp [Val.wf]⟩
theorem fit_bool_mk {p : Program} {b : Bool} : Fit p (.bool b) .bool := ⟨rfl, by simp [Val.wf]⟩
theorem fit_int_mk {p : Program} {i : Int} : Fit p (.int i) .int := ⟨rfl, by simp [Val.wf]⟩
theorem fit_str_mk {p : Program} {s : List Nat} : Fit p (.str s) .string := ⟨rfl, by simp [Val.wf]⟩
theorem fit_enum_mk {p : Program} {n : Nat} {i : Int} {q : Nat × List Nat} (hq : p.enums.find? (·.1 == n) = some q)
    (h0 : 0 ≤ i) (h1 : i < q.2.length) : Fit p (.enum n i) (.enum n) :=
  ⟨by simp [Val.fitsType], by simp only [Val.wf]; exact ⟨q, hq, h0, h1⟩⟩
theorem fit_none_mk {p : Program} {t : Ty} : Fit p .none (.optional t) := ⟨rfl, by simp [Val.wf]⟩
theorem fit_some_mk {p : Program} {v : Val} {t : Ty} (h : Fit p v t) : Fit p (.some v) (.optional t) :=
  ⟨by simpa [Val.fitsType] using h.1, by simpa [Val.wf] using h.2⟩
theorem fit_ok_mk {p : Program} {v : Val} {t e : Ty} (h : Fit p v t) : Fit p (.ok v) (.result t e) :=
  ⟨by simpa [Val.fitsType] using h.1, by simpa [Val.wf] using h.2⟩
theorem fit_err_mk {p : Program} {v : Val} {t e : Ty} (h : Fit p v e) : Fit p (.err v) (.result t e) :=
  ⟨by simpa [Val.fitsType] using h.1, by simpa [Val.wf] using h.2⟩

def BlockOk (p : Program) : List (Nat × Ty) → List (Nat × Val) → Prop
  | [], [] => True
  | (x, t) :: b, (y, v) :: eb => x = y ∧ Fit p v t ∧ BlockOk p b eb
  | _, _ => False

/-- the run-time scopes have the shape and the types the lowering pass tracked -/
def EnvOk (p : Program) : Scopes → Env → Prop
  | [], [] => True
  | b :: sc, eb :: env => BlockOk p b eb ∧ EnvOk p sc env
  | _, _ => False

theorem blockOk_find {p : Program} {x : Nat} : ∀ {b : List (Nat × Ty)} {eb : List (Nat × Val)}, BlockOk p b eb →
    (∀ q, b.find? (·.1 == x) = some q → ∃ y v, eb.find? (·.1 == x) = some (y, v) ∧ Fit p v q.2) ∧
    (b.find? (·.1 == x) = none → eb.find? (·.1 == x) = none) ∧
    (b.any (·.1 == x) = false → eb.find? (·.1 == x) = none)
  | [], [], _ => by simp
  | [], _ :: _, h => by simp [BlockOk] at h
  | _ :: _, [], h => by simp [BlockOk] at h
  | (y, t) :: b, (z, v) :: eb, h => by
    simp only [BlockOk] at h
    obtain ⟨rfl, hv, hb⟩ := h
    have ih := blockOk_find (x := x) hb
    by_cases hy : (y == x) = true
    · simp [List.find?, hy]; exact ⟨_, _, ⟨rfl, rfl⟩, hv⟩
    · simp only [Bool.not_eq_true] at hy
      simp only [List.find?, hy, List.any_cons, Bool.false_or]
      exact ih

theorem envOk_get {p : Program} {x : Nat} : ∀ {sc : Scopes} {env : Env} {t : Ty}, EnvOk p sc env →
    sc.findSome? (fun b => (b.find? (·.1 == x)).map (·.2)) = some t →
    ∃ v, lookupBlocks env x = some v ∧ Fit p v t
  | [], _, _, _, h => by simp at h
  | _ :: _, [], _, h, _ => by simp [EnvOk] at h
  | b :: sc, eb :: env, t, h, hf => by
    simp only [EnvOk] at h
    simp only [List.findSome?_cons] at hf
    cases hb : b.find? (·.1 == x) with
    | some q =>
      simp only [hb, Option.map_some, Option.some.injEq] at hf
      obtain ⟨y, v, he, hv⟩ := (blockOk_find (x := x) h.1).1 q hb
      exact ⟨v, by simp [lookupBlocks, he], hf ▸ hv⟩
    | none =>
      simp only [hb, Option.map_none] at hf
      have he := (blockOk_find (x := x) h.1).2.1 hb
      obtain ⟨v, hl, hv⟩ := envOk_get h.2 hf
      exact ⟨v, by simp [lookupBlocks, he, hl], hv⟩

theorem envOk_fresh {p : Program} {x : Nat} : ∀ {sc : Scopes} {env : Env}, EnvOk p sc env →
    sc.any (fun b => b.any (·.1 == x)) = false → lookupBlocks env x = none
  | [], [], _, _ => rfl
  | [], _ :: _, h, _ => by simp [EnvOk] at h
  | _ :: _, [], h, _ => by simp [EnvOk] at h
  | b :: sc, eb :: env, h, hf => by
    simp only [EnvOk] at h
    simp only [List.any_cons, Bool.or_eq_false_iff] at hf
    have he := (blockOk_find (x := x) h.1).2.2 hf.1
    simp [lookupBlocks, he, envOk_fresh h.2 hf.2]

theorem envOk_none {p : Program} {x : Nat} : ∀ {sc : Scopes} {env : Env}, EnvOk p sc env →
    sc.findSome? (fun b => (b.find? (·.1 == x)).map (·.2)) = none → lookupBlocks env x = none
  | [], [], _, _ => rfl
  | [], _ :: _, h, _ => by simp [EnvOk] at h
  | _ :: _, [], h, _ => by simp [EnvOk] at h
  | b :: sc, eb :: env, h, hf => by
    simp only [EnvOk] at h
    simp only [List.findSome?_cons] at hf
    cases hb : b.find? (·.1 == x) with
    | some q => simp [hb] at hf
    | none =>
      simp only [hb, Option.map_none] at hf
      have he := (blockOk_find (x := x) h.1).2.1 hb
      simp [lookupBlocks, he, envOk_none h.2 hf]

/-- the global `let`s as the lowering pass and the evaluator see them -/
structure GOk (cx : LCtx) (p : Program) : Prop where
  eq : cx.globals = p.globals.map (fun g => (g.1, g.2.vtype))
  fit : ∀ g ∈ p.globals, Fit p g.2 g.2.vtype

theorem gOk_any {cx : LCtx} {p : Program} (hG : GOk cx p) (x : Nat) :
    cx.globals.any (·.1 == x) = (p.global x).isSome := by
  rw [hG.eq, Program.global, Option.isSome_map]
  generalize p.globals = gs
  induction gs with
  | nil => rfl
  | cons g gs ih =>
    simp only [List.map_cons, List.any_cons, List.find?_cons]
    cases hgx : (g.1 == x) <;> simp [ih]

theorem gOk_get {cx : LCtx} {p : Program} (hG : GOk cx p) {x : Nat} {t : Ty}
    (h : (cx.globals.find? (·.1 == x)).map (·.2) = some t) : ∃ v, p.global x = some v ∧ Fit p v t := by
  rw [hG.eq, List.find?_map, Option.map_map, Option.map_eq_some_iff] at h
  obtain ⟨g, hg, rfl⟩ := h
  have hg' : p.globals.find? (·.1 == x) = some g := by simpa [Function.comp_def] using hg
  exact ⟨g.2, by simp [Program.global, hg'], hG.fit g (List.mem_of_find?_eq_some hg')⟩

theorem scopeAdd_bindVar {cx : LCtx} {p : Program} (hG : GOk cx p)
    {sc sc' : Scopes} {env : Env} {x : Nat} {t : Ty} {v : Val}
    (h : EnvOk p sc env) (ha : scopeAdd cx sc x t = some sc') (hv : Fit p v t) :
    ∃ env', bindVar p env x v = some env' ∧ EnvOk p sc' env' := by
  unfold scopeAdd at ha
  split at ha
  · cases ha
  rename_i hglob
  rw [gOk_any hG] at hglob
  split at ha
  · cases ha
  · rename_i hfresh
    simp only [Bool.not_eq_true] at hfresh
    have hl := envOk_fresh h hfresh
    cases sc with
    | nil => cases ha
    | cons b rest =>
      cases env with
      | nil => simp [EnvOk] at h
      | cons eb erest =>
        simp only [Option.some.injEq] at ha; subst ha
        refine ⟨((x, v) :: eb) :: erest, ?_, ?_⟩
        · simp [bindVar, hglob, hl]
        · simp only [EnvOk] at h ⊢
          exact ⟨by simp only [BlockOk]; exact ⟨trivial, hv, h.1⟩, h.2⟩

end AranyaV.Lang
