import AranyaV.Model.LangLower
namespace AranyaV.Lang
open AranyaV.Gen.Lang

/-- no `never` inside a (declared) type -/
def Ty.neverFree : Ty → Bool
  | .never => false
  | .optional t => t.neverFree
  | .result a b => a.neverFree && b.neverFree
  | _ => true

theorem fitsType_never (v : Val) : v.fitsType .never = false := by cases v <;> rfl

theorem fits_bool {v : Val} (h : v.fitsType .bool = true) : ∃ b, v = .bool b := by
  cases v <;> simp [Val.fitsType] at h; exact ⟨_, rfl⟩
theorem fits_int {v : Val} (h : v.fitsType .int = true) : ∃ i, v = .int i := by
  cases v <;> simp [Val.fitsType] at h; exact ⟨_, rfl⟩
theorem fits_optional {v : Val} {t : Ty} (h : v.fitsType (.optional t) = true) :
    v = .none ∨ ∃ w, v = .some w ∧ w.fitsType t = true := by
  cases v <;> simp [Val.fitsType] at h
  · exact Or.inl rfl
  · exact Or.inr ⟨_, rfl, h⟩

theorem matchesT_eq : ∀ {a b : Ty}, a.matchesT b = true → a = b := by
  intro a
  induction a with
  | optional t ih => intro b h; cases b <;> simp [Ty.matchesT] at h; rw [ih h]
  | result x y ihx ihy => intro b h; cases b <;> simp [Ty.matchesT] at h; rw [ihx h.1, ihy h.2]
  | struct n => intro b h; cases b <;> simp [Ty.matchesT] at h; rw [h]
  | enum n => intro b h; cases b <;> simp [Ty.matchesT] at h; rw [h]
  | _ => intro b h; cases b <;> simp [Ty.matchesT] at h <;> rfl

/-- subsumption along `fits_type` into a declared (never-free) type -/
theorem fitsType_of_fits : ∀ {s t : Ty} {v : Val}, s.fits t = true → t.neverFree = true → v.fitsType s = true → v.fitsType t = true := by
  intro s
  induction s with
  | never => intro t v _ _ h; rw [fitsType_never] at h; cases h
  | optional a ih =>
    intro t v hf hn hv
    cases t <;> simp [Ty.fits, Ty.neverFree] at hf hn
    rcases fits_optional hv with rfl | ⟨w, rfl, hw⟩
    · rfl
    · simp only [Val.fitsType]; exact ih hf hn hw
  | result a b iha ihb =>
    intro t v hf hn hv
    cases t <;> simp [Ty.fits, Ty.neverFree] at hf hn
    cases v <;> simp [Val.fitsType] at hv ⊢
    · exact iha hf.1 hn.1 hv
    · exact ihb hf.2 hn.2 hv
  | struct n => intro t v hf hn hv; cases t <;> simp [Ty.fits, Ty.neverFree] at hf hn; subst hf; exact hv
  | enum n => intro t v hf hn hv; cases t <;> simp [Ty.fits, Ty.neverFree] at hf hn; subst hf; exact hv
  | _ => intro t v hf hn hv; cases t <;> simp [Ty.fits, Ty.neverFree] at hf hn <;> exact hv

theorem fitsType_unify : ∀ {l r u : Ty} {v : Val}, unify l r = some u →
    (v.fitsType l = true → v.fitsType u = true) ∧ (v.fitsType r = true → v.fitsType u = true) := by
  intro l
  induction l with
  | optional a ih =>
    intro r u v h
    cases r <;> simp [unify, Ty.matchesT] at h
    · obtain ⟨x, hx, rfl⟩ := h
      refine ⟨fun hv => ?_, fun hv => ?_⟩
      · rcases fits_optional hv with rfl | ⟨w, rfl, hw⟩
        · rfl
        · simp only [Val.fitsType]; exact (ih hx).1 hw
      · rcases fits_optional hv with rfl | ⟨w, rfl, hw⟩
        · rfl
        · simp only [Val.fitsType]; exact (ih hx).2 hw
    · subst h; exact ⟨id, fun hv => (by rw [fitsType_never] at hv; cases hv)⟩
  | result a b iha ihb =>
    intro r u v h
    cases r <;> simp [unify, Ty.matchesT] at h
    · subst h; exact ⟨id, fun hv => (by rw [fitsType_never] at hv; cases hv)⟩
    · rename_i c d
      cases hx : unify a c <;> cases hy : unify b d <;> simp [hx, hy] at h
      subst h
      refine ⟨fun hv => ?_, fun hv => ?_⟩
      · cases v <;> simp [Val.fitsType] at hv ⊢
        · exact (iha hx).1 hv
        · exact (ihb hy).1 hv
      · cases v <;> simp [Val.fitsType] at hv ⊢
        · exact (iha hx).2 hv
        · exact (ihb hy).2 hv
  | never =>
    intro r u v h
    cases r <;> simp [unify] at h <;> subst h <;> exact ⟨fun hv => (by rw [fitsType_never] at hv; cases hv), id⟩
  | _ =>
    intro r u v h
    cases r <;> simp [unify, Ty.matchesT] at h <;>
      first
        | (subst h; exact ⟨id, fun hv => (by rw [fitsType_never] at hv; cases hv)⟩)
        | (obtain ⟨h1, h2⟩ := h; subst h1; subst h2; exact ⟨id, id⟩)
        | (subst h; exact ⟨id, id⟩)

/-- `check_type` against a concrete target: a value of the checked type has the target's shape -/
theorem fitsType_checkType {t target x : Ty} {v : Val} (h : checkType t target = some x) (hn : target.neverFree = true)
    (hv : v.fitsType t = true) : v.fitsType target = true ∧ x = t := by
  unfold checkType at h
  cases t <;> simp at h
  all_goals first
    | (rw [fitsType_never] at hv; cases hv)
    | exact ⟨fitsType_of_fits h.1 hn hv, h.2.symm⟩

theorem fitsType_unifyAs {a b target u : Ty} (h : unifyAs a b target = some u) (hn : target.neverFree = true) :
    (∀ v : Val, v.fitsType a = true → v.fitsType target = true) ∧ (∀ v : Val, v.fitsType b = true → v.fitsType target = true) := by
  unfold unifyAs at h
  cases ha : checkType a target <;> cases hb : checkType b target <;> simp [ha, hb] at h
  exact ⟨fun v hv => (fitsType_checkType ha hn hv).1, fun v hv => (fitsType_checkType hb hn hv).1⟩

def BlockOk : List (Nat × Ty) → List (Nat × Val) → Prop
  | [], [] => True
  | (x, t) :: b, (y, v) :: eb => x = y ∧ v.fitsType t = true ∧ BlockOk b eb
  | _, _ => False

/-- the run-time scopes have the shape and the types the lowering pass tracked -/
def EnvOk : Scopes → Env → Prop
  | [], [] => True
  | b :: sc, eb :: env => BlockOk b eb ∧ EnvOk sc env
  | _, _ => False

theorem blockOk_find {x : Nat} : ∀ {b : List (Nat × Ty)} {eb : List (Nat × Val)}, BlockOk b eb →
    (∀ q, b.find? (·.1 == x) = some q → ∃ y v, eb.find? (·.1 == x) = some (y, v) ∧ v.fitsType q.2 = true) ∧
    (b.find? (·.1 == x) = none → eb.find? (·.1 == x) = none) ∧
    (b.any (·.1 == x) = false → eb.find? (·.1 == x) = none)
  | [], [], _ => by simp
  | [], _ :: _, h => by simp [BlockOk] at h
  | _ :: _, [], h => by simp [BlockOk] at h
  | (y, t) :: b, (z, v) :: eb, h => by
    simp only [BlockOk] at h
    obtain ⟨rfl, hv, hb⟩ := h
    have ih := blockOk_find (x := x) hb
    by_cases hy : (y == x) = true
    · simp [List.find?, hy]; exact ⟨_, _, ⟨rfl, rfl⟩, hv⟩
    · simp only [Bool.not_eq_true] at hy
      simp only [List.find?, hy, List.any_cons, Bool.false_or]
      exact ih

theorem envOk_get {x : Nat} : ∀ {sc : Scopes} {env : Env} {t : Ty}, EnvOk sc env →
    sc.findSome? (fun b => (b.find? (·.1 == x)).map (·.2)) = some t →
    ∃ v, lookupBlocks env x = some v ∧ v.fitsType t = true
  | [], _, _, _, h => by simp at h
  | _ :: _, [], _, h, _ => by simp [EnvOk] at h
  | b :: sc, eb :: env, t, h, hf => by
    simp only [EnvOk] at h
    simp only [List.findSome?_cons] at hf
    cases hb : b.find? (·.1 == x) with
    | some q =>
      simp only [hb, Option.map_some, Option.some.injEq] at hf
      obtain ⟨y, v, he, hv⟩ := (blockOk_find (x := x) h.1).1 q hb
      exact ⟨v, by simp [lookupBlocks, he], hf ▸ hv⟩
    | none =>
      simp only [hb, Option.map_none] at hf
      have he := (blockOk_find (x := x) h.1).2.1 hb
      obtain ⟨v, hl, hv⟩ := envOk_get h.2 hf
      exact ⟨v, by simp [lookupBlocks, he, hl], hv⟩

theorem envOk_fresh {x : Nat} : ∀ {sc : Scopes} {env : Env}, EnvOk sc env →
    sc.any (fun b => b.any (·.1 == x)) = false → lookupBlocks env x = none
  | [], [], _, _ => rfl
  | [], _ :: _, h, _ => by simp [EnvOk] at h
  | _ :: _, [], h, _ => by simp [EnvOk] at h
  | b :: sc, eb :: env, h, hf => by
    simp only [EnvOk] at h
    simp only [List.any_cons, Bool.or_eq_false_iff] at hf
    have he := (blockOk_find (x := x) h.1).2.2 hf.1
    simp [lookupBlocks, he, envOk_fresh h.2 hf.2]

theorem scopeAdd_bindVar {cx : LCtx} {p : Program} (hg : cx.globals = []) (hpg : p.globals = [])
    {sc sc' : Scopes} {env : Env} {x : Nat} {t : Ty} {v : Val}
    (h : EnvOk sc env) (ha : scopeAdd cx sc x t = some sc') (hv : v.fitsType t = true) :
    ∃ env', bindVar p env x v = some env' ∧ EnvOk sc' env' := by
  unfold scopeAdd at ha
  simp only [hg, List.any_nil, Bool.false_eq_true, if_false] at ha
  split at ha
  · cases ha
  · rename_i hfresh
    simp only [Bool.not_eq_true] at hfresh
    have hl := envOk_fresh h hfresh
    cases sc with
    | nil => cases ha
    | cons b rest =>
      cases env with
      | nil => simp [EnvOk] at h
      | cons eb erest =>
        simp only [Option.some.injEq] at ha; subst ha
        refine ⟨((x, v) :: eb) :: erest, ?_, ?_⟩
        · simp [bindVar, Program.global, hpg, hl]
        · simp only [EnvOk] at h ⊢
          exact ⟨by simp only [BlockOk]; exact ⟨trivial, hv, h.1⟩, h.2⟩

end AranyaV.Lang
