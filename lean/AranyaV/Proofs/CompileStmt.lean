import AranyaV.Proofs.CompileCtl
/-!
C22: simulation cases for statements (`let`, `check`, `return`, `debug_assert`, `if`), nested
statement blocks and block expressions.
-/
namespace AranyaV.Lang
open AranyaV.Gen.Lang
variable (S : Sim)

theorem Steps.cast_pc {m : Machine} {s : VM} {j b : List Val} {e : Env} {f : List Env} {K : List Nat} {pc pc' : Nat} {l : Log}
    (h : Steps m s (stAt j b e f K pc l)) (hp : pc = pc') : Steps m s (stAt j b e f K pc' l) := hp ▸ h

theorem sim_block {n : Nat} (ihE : ExprSim S n) (ihSs : StmtsSim S n) (ss : List Stmt) (e : Expr) :
    ExprCase S (n + 1) (.block ss e) := by
  intro env log wp c junk base fr K hsup hcode hdefs
  simp only [supE, Bool.and_eq_true] at hsup
  simp only [compileExpr, defsOk_append] at hdefs
  have hcode' : CodeAt S.labels S.m.prog wp ([Instruction.Block] ++ (compileStmts S.m.p.structs (wp + 1) c ss).code ++
      (compileExpr S.m.p.structs (wp + 1 + (compileStmts S.m.p.structs (wp + 1) c ss).code.length)
        (compileStmts S.m.p.structs (wp + 1) c ss).c e).code ++ [Instruction.End]) := by
    simpa [compileExpr] using hcode
  simp only [codeAt_append, codeAt_single, res] at hcode'
  normpc at hcode'
  obtain ⟨⟨⟨hblk, hcS⟩, hcE⟩, hend⟩ := hcode'
  have ihs := ihSs ss ([] :: env) log (wp + 1) c junk base fr K hsup.1 hcS hdefs.1
  have pre : Steps S.m (stAt junk base env fr K wp log) (stAt junk base ([] :: env) fr K (wp + 1) log) :=
    Steps.one (step_block hblk)
  simp only [evalExpr, compileExpr]
  cases hrs : evalStmts S.m.p n ([] :: env) log ss with
  | val env' l =>
    rw [hrs] at ihs; simp only [Outcome] at ihs
    obtain ⟨b, rfl⟩ := (envTail_all S.m.p n).1 [] env log ss env' l hrs
    have ihe := ihE e (b :: env) l _ _ junk base fr K hsup.2 hcE hdefs.2
    dsimp only
    cases hre : evalExpr S.m.p n (b :: env) l e with
    | val v l' =>
      rw [hre] at ihe; simp only [Outcome] at ihe ⊢
      refine pre.trans (ihs.trans (ihe.trans ?_))
      exact Steps.cast_pc (Steps.one (step_end hend)) (by simp only [List.length_cons, List.length_append, List.length_nil]; omega)
    | _ => first | (rw [hre] at ihe; exact Outcome.of_steps (pre.trans ihs) ihe) | trivial
  | _ => first | (rw [hrs] at ihs; exact Outcome.of_steps pre ihs) | trivial

theorem stmtsSim_succ {n : Nat} (ih1 : StmtSim S n) (ihSs : StmtsSim S n) : StmtsSim S (n + 1) := by
  intro ss env log wp c junk base fr K hsup hcode hdefs
  cases ss with
  | nil =>
    simp only [evalStmts, Outcome, compileStmts, List.length_nil, Nat.add_zero]
    exact Steps.refl _
  | cons s ss =>
    simp only [supSs, Bool.and_eq_true] at hsup
    simp only [compileStmts, codeAt_append, defsOk_append] at hcode hdefs
    have ihs := ih1 s env log wp c junk base fr K hsup.1 hcode.1 hdefs.1
    simp only [evalStmts, compileStmts]
    cases hr : evalStmt S.m.p n env log s with
    | val env' l =>
      rw [hr] at ihs; simp only [Outcome] at ihs
      have ihr := ihSs ss env' l _ _ junk base fr K hsup.2 hcode.2 hdefs.2
      dsimp only
      cases hrr : evalStmts S.m.p n env' l ss with
      | val env'' l' =>
        rw [hrr] at ihr; simp only [Outcome] at ihr ⊢
        refine ihs.trans ?_
        normpc
        exact ihr
      | _ => first | (rw [hrr] at ihr; exact Outcome.of_steps ihs ihr) | trivial
    | _ => first | (rw [hr] at ihs; exact ihs) | trivial

theorem scopedSim_succ {n : Nat} (ihSs : StmtsSim S n) : ScopedSim S (n + 1) := by
  intro ss env log wp c junk base fr K hsup hcode hdefs
  have hcode' : CodeAt S.labels S.m.prog wp ([Instruction.Block] ++ (compileStmts S.m.p.structs (wp + 1) c ss).code ++ [Instruction.End]) := by
    simpa using hcode
  simp only [codeAt_append, codeAt_single, res] at hcode'
  normpc at hcode'
  obtain ⟨⟨hblk, hcS⟩, hend⟩ := hcode'
  have ihs := ihSs ss ([] :: env) log (wp + 1) c junk base fr K hsup hcS hdefs
  have pre : Steps S.m (stAt junk base env fr K wp log) (stAt junk base ([] :: env) fr K (wp + 1) log) :=
    Steps.one (step_block hblk)
  simp only [evalScoped]
  cases hrs : evalStmts S.m.p n ([] :: env) log ss with
  | val env' l =>
    rw [hrs] at ihs; simp only [Outcome] at ihs
    cases env' with
    | nil => trivial
    | cons b rest =>
      simp only [Outcome]
      refine pre.trans (ihs.trans ?_)
      have : wp + (compileStmts S.m.p.structs (wp + 1) c ss).code.length + 2 =
          wp + 1 + (compileStmts S.m.p.structs (wp + 1) c ss).code.length + 1 := by omega
      rw [this]
      exact Steps.one (step_end hend)
  | _ => first | (rw [hrs] at ihs; exact Outcome.of_steps pre ihs) | trivial

/-- one statement case of `StmtSim` -/
def StmtCase (n : Nat) (s : Stmt) : Prop :=
  ∀ (env : Env) (log : Log) (wp c : Nat) (junk base : List Val) (fr : List Env) (K : List Nat),
    supS s = true →
    CodeAt S.labels S.m.prog wp (compileStmt S.m.p.structs wp c s).code →
    DefsOk S.labels (compileStmt S.m.p.structs wp c s).defs →
    Outcome S.m (evalStmt S.m.p n env log s) base fr K
      (fun env' l => stAt junk base env' fr K (wp + (compileStmt S.m.p.structs wp c s).code.length) l)
      (stAt junk base env fr K wp log)

theorem stmtSim_succ {n : Nat} (ihE : ExprSim S n) (ihBr : BranchesSim S n)
    (hM : ∀ scrut arms, StmtCase S (n + 1) (.mtch scrut arms)) : StmtSim S (n + 1) := by
  intro s env log wp c junk base fr K hsup hcode hdefs
  cases s with
  | let_ x e =>
    simp only [supS] at hsup
    simp only [compileStmt, codeAt_append, codeAt_single, res] at hcode hdefs
    have ih := ihE e env log wp c junk base fr K hsup hcode.1 hdefs
    simp only [evalStmt, compileStmt]
    cases hr : evalExpr S.m.p n env log e with
    | val v l =>
      rw [hr] at ih; simp only [Outcome] at ih
      dsimp only
      cases hb : bindVar S.m.p env x v with
      | none => trivial
      | some env' =>
        simp only [Outcome]
        refine ih.trans ?_
        normpc
        exact Steps.one (step_def hcode.2 hb)
    | _ => first | (rw [hr] at ih; exact ih) | trivial
  | check cnd els =>
    simp only [supS, Bool.and_eq_true] at hsup
    simp only [compileStmt, defsOk_append, defsOk_cons, DefsOk.nil, and_true] at hdefs
    obtain ⟨⟨hdC, hdE⟩, hok⟩ := hdefs
    simp only [compileStmt, codeAt_append, codeAt_single] at hcode
    simp only [res_br hok] at hcode
    normpc at hcode
    obtain ⟨⟨hcC, hbr⟩, hcE⟩ := hcode
    have ihc := ihE cnd env log wp c junk base fr K hsup.1 hcC hdC
    simp only [evalStmt, compileStmt]
    cases hrc : evalExpr S.m.p n env log cnd with
    | val x l =>
      rw [hrc] at ihc; simp only [Outcome] at ihc
      cases x <;> simp only [Outcome] <;> try trivial
      rename_i bv
      cases bv with
      | true =>
        simp only [Outcome]
        refine ihc.trans ?_
        normpc
        exact Steps.one (step_branch_true hbr)
      | false =>
        have ihe := ihE els env l _ _ junk base fr K hsup.2 hcE hdE
        have pre := ihc.trans (Steps.one (step_branch_false hbr))
        dsimp only
        cases hre : evalExpr S.m.p n env l els with
        | val y l' => trivial
        | _ => first | (rw [hre] at ihe; exact Outcome.of_steps pre ihe) | trivial
    | _ => first | (rw [hrc] at ihc; exact ihc) | trivial
  | ret e =>
    simp only [supS] at hsup
    simp only [compileStmt, codeAt_append, codeAt_cons, CodeAt.nil, and_true, res] at hcode hdefs
    have ih := ihE e env log wp c junk base fr K hsup hcode.1 hdefs
    simp only [evalStmt, compileStmt]
    cases hr : evalExpr S.m.p n env log e with
    | val v l =>
      rw [hr] at ih
      simp only [Outcome] at ih ⊢
      exact ⟨env, _, ih.trans (Steps.one (step_restoreSP hcode.2.1)), hcode.2.2⟩
    | _ => first | (rw [hr] at ih; exact ih) | trivial
  | dassert e =>
    simp only [supS] at hsup
    simp only [compileStmt, codeAt_append, codeAt_cons, CodeAt.nil, and_true, res, resT] at hcode hdefs
    have ih := ihE e env log wp c junk base fr K hsup hcode.1 hdefs
    simp only [evalStmt, compileStmt]
    cases hr : evalExpr S.m.p n env log e with
    | val v l =>
      rw [hr] at ih; simp only [Outcome] at ih
      cases v <;> simp only [Outcome] <;> try trivial
      rename_i bv
      cases bv with
      | true =>
        simp only [Outcome]
        refine ih.trans ?_
        normpc
        exact Steps.one (step_branch_true hcode.2.1)
      | false =>
        simp only [Outcome]
        exact ⟨_, ⟨_, ih.trans (Steps.one (step_branch_false hcode.2.1)), step_exit hcode.2.2⟩, rfl⟩
    | _ => first | (rw [hr] at ih; exact ih) | trivial
  | ifS brs hasElse els =>
    simp only [supS, Bool.and_eq_true] at hsup
    simp only [evalStmt]
    cases hasElse with
    | false =>
      simp only [compileStmt, Bool.false_eq_true, if_false, List.append_nil, defsOk_append, defsOk_cons, DefsOk.nil, and_true,
        List.length_nil, Nat.add_zero] at hcode hdefs ⊢
      exact ihBr brs false els env log wp (c + 1) (.anon c) _ junk base fr K hsup.1 (by simp) hcode hdefs.1 hdefs.2
        (by simp) (by intro _; rfl)
    | true =>
      simp only [Bool.not_true, Bool.false_or] at hsup
      simp only [compileStmt, if_true, defsOk_append, defsOk_cons, DefsOk.nil, and_true] at hcode hdefs
      rw [codeAt_append] at hcode
      simp only [compileStmt, if_true]
      refine Outcome.cast (ihBr brs true els env log wp (c + 1) (.anon c) _ junk base fr K hsup.1 (fun _ => hsup.2)
        hcode.1 hdefs.1.1 hdefs.2 (fun _ => ⟨hcode.2, hdefs.1.2, ?_⟩) (by simp)) ?_
      · simp only [List.length_cons, List.length_append, List.length_nil]; omega
      · intro _ _; congr 1
        simp only [List.length_cons, List.length_append, List.length_nil]; omega
  | mtch scrut arms => exact hM scrut arms env log wp c junk base fr K hsup hcode hdefs

theorem branchesSim_succ {n : Nat} (ihE : ExprSim S n) (ihSc : ScopedSim S n) (ihBr : BranchesSim S n) :
    BranchesSim S (n + 1) := by
  intro brs hasElse els env log wp c endL endAddr junk base fr K hsup hsupE hcode hdefs hend hF hN
  cases brs with
  | nil =>
    simp only [compileBranches, List.length_nil, Nat.add_zero] at hF hN
    simp only [evalBranches]
    cases hasElse with
    | true =>
      simp only [if_true]
      obtain ⟨hcF, hdF, hEnd⟩ := hF rfl
      refine Outcome.cast (ihSc els env log wp c junk base fr K (hsupE rfl) hcF hdF) ?_
      intro _ _; rw [hEnd]
    | false =>
      simp only [Bool.false_eq_true, if_false, Outcome]
      rw [hN rfl]
      exact Steps.refl _
  | cons br rest =>
    obtain ⟨c0, ss⟩ := br
    simp only [supBrs, Bool.and_eq_true] at hsup
    simp only [compileBranches, defsOk_append, defsOk_cons, DefsOk.nil, and_true] at hdefs
    obtain ⟨⟨⟨hdC, hdS⟩, hnext⟩, hdR⟩ := hdefs
    have hlenB : wp + (compileBranches S.m.p.structs wp c endL ((c0, ss) :: rest)).code.length =
        (wp + (compileExpr S.m.p.structs wp (c + 1) c0).code.length + 3 +
          (compileStmts S.m.p.structs (wp + (compileExpr S.m.p.structs wp (c + 1) c0).code.length + 3)
            (compileExpr S.m.p.structs wp (c + 1) c0).c ss).code.length + 2) +
        (compileBranches S.m.p.structs (wp + (compileExpr S.m.p.structs wp (c + 1) c0).code.length + 3 +
          (compileStmts S.m.p.structs (wp + (compileExpr S.m.p.structs wp (c + 1) c0).code.length + 3)
            (compileExpr S.m.p.structs wp (c + 1) c0).c ss).code.length + 2)
          (compileStmts S.m.p.structs (wp + (compileExpr S.m.p.structs wp (c + 1) c0).code.length + 3)
            (compileExpr S.m.p.structs wp (c + 1) c0).c ss).c endL rest).code.length := by
      simp only [compileBranches, List.length_append, List.length_cons, List.length_nil]; omega
    have hcB : (compileBranches S.m.p.structs wp c endL ((c0, ss) :: rest)).c =
        (compileBranches S.m.p.structs (wp + (compileExpr S.m.p.structs wp (c + 1) c0).code.length + 3 +
          (compileStmts S.m.p.structs (wp + (compileExpr S.m.p.structs wp (c + 1) c0).code.length + 3)
            (compileExpr S.m.p.structs wp (c + 1) c0).c ss).code.length + 2)
          (compileStmts S.m.p.structs (wp + (compileExpr S.m.p.structs wp (c + 1) c0).code.length + 3)
            (compileExpr S.m.p.structs wp (c + 1) c0).c ss).c endL rest).c := by
      simp only [compileBranches]
    rw [hlenB, hcB] at hF
    rw [hlenB] at hN
    have hcode' : CodeAt S.labels S.m.prog wp
        ((compileExpr S.m.p.structs wp (c + 1) c0).code ++ [Instruction.Not, br (Label.anon c)] ++
          (Instruction.Block :: (compileStmts S.m.p.structs (wp + (compileExpr S.m.p.structs wp (c + 1) c0).code.length + 3)
            (compileExpr S.m.p.structs wp (c + 1) c0).c ss).code ++ [Instruction.End]) ++
          [jmp endL] ++
          (compileBranches S.m.p.structs (wp + (compileExpr S.m.p.structs wp (c + 1) c0).code.length + 3 +
            (compileStmts S.m.p.structs (wp + (compileExpr S.m.p.structs wp (c + 1) c0).code.length + 3)
              (compileExpr S.m.p.structs wp (c + 1) c0).c ss).code.length + 2)
            (compileStmts S.m.p.structs (wp + (compileExpr S.m.p.structs wp (c + 1) c0).code.length + 3)
              (compileExpr S.m.p.structs wp (c + 1) c0).c ss).c endL rest).code) := by
      simpa [compileBranches, List.append_assoc] using hcode
    rw [codeAt_append, codeAt_append, codeAt_append, codeAt_append] at hcode'
    obtain ⟨⟨⟨⟨hcC, hnb⟩, hcS⟩, hj⟩, hcR⟩ := hcode'
    simp only [codeAt_cons, CodeAt.nil, and_true, res_br hnext, res_jmp hend] at hnb hj
    simp only [res] at hnb
    have e1 : wp + ((compileExpr S.m.p.structs wp (c + 1) c0).code ++ [Instruction.Not, br (Label.anon c)]).length =
        wp + (compileExpr S.m.p.structs wp (c + 1) c0).code.length + 2 := by
      simp only [List.length_append, List.length_cons, List.length_nil]; omega
    rw [e1] at hcS
    have ihc := ihE c0 env log wp (c + 1) junk base fr K hsup.1.1 hcC hdC
    simp only [evalBranches]
    cases hrc : evalExpr S.m.p n env log c0 with
    | val x l =>
      rw [hrc] at ihc; simp only [Outcome] at ihc
      cases x <;> simp only [Outcome] <;> try trivial
      rename_i bv
      cases bv with
      | true =>
        have pre := ihc.trans ((Steps.one (step_not hnb.1)).trans (Steps.one (step_branch_false hnb.2)))
        have ihs : Outcome S.m (evalScoped S.m.p n env l ss) base fr K
            (fun env' l' => stAt junk base env' fr K (wp + (compileExpr S.m.p.structs wp (c + 1) c0).code.length + 2 +
              (compileStmts S.m.p.structs (wp + (compileExpr S.m.p.structs wp (c + 1) c0).code.length + 3)
                (compileExpr S.m.p.structs wp (c + 1) c0).c ss).code.length + 2) l')
            (stAt junk base env fr K (wp + (compileExpr S.m.p.structs wp (c + 1) c0).code.length + 2) l) :=
          ihSc ss env l (wp + (compileExpr S.m.p.structs wp (c + 1) c0).code.length + 2)
            (compileExpr S.m.p.structs wp (c + 1) c0).c junk base fr K hsup.1.2 hcS hdS
        dsimp only
        cases hrs : evalScoped S.m.p n env l ss with
        | val env' l' =>
          rw [hrs] at ihs; simp only [Outcome] at ihs ⊢
          refine pre.trans (ihs.trans ?_)
          refine Steps.one ?_
          have hj' : S.m.prog[wp + (compileExpr S.m.p.structs wp (c + 1) c0).code.length + 2 +
              (compileStmts S.m.p.structs (wp + (compileExpr S.m.p.structs wp (c + 1) c0).code.length + 3)
                (compileExpr S.m.p.structs wp (c + 1) c0).c ss).code.length + 2]? = some (Instruction.Jump (Target.Resolved endAddr)) := by
            rw [← hj]; congr 1
            simp only [List.length_append, List.length_cons, List.length_nil]; omega
          exact step_jump hj'
        | _ => first | (rw [hrs] at ihs; exact Outcome.of_steps pre ihs) | trivial
      | false =>
        have pre := ihc.trans ((Steps.one (step_not hnb.1)).trans (Steps.one (step_branch_true hnb.2)))
        have e2 : wp + ((compileExpr S.m.p.structs wp (c + 1) c0).code ++ [Instruction.Not, br (Label.anon c)] ++
            (Instruction.Block :: (compileStmts S.m.p.structs (wp + (compileExpr S.m.p.structs wp (c + 1) c0).code.length + 3)
              (compileExpr S.m.p.structs wp (c + 1) c0).c ss).code ++ [Instruction.End]) ++ [jmp endL]).length =
            wp + (compileExpr S.m.p.structs wp (c + 1) c0).code.length + 3 +
            (compileStmts S.m.p.structs (wp + (compileExpr S.m.p.structs wp (c + 1) c0).code.length + 3)
              (compileExpr S.m.p.structs wp (c + 1) c0).c ss).code.length + 2 := by
          simp only [List.length_append, List.length_cons, List.length_nil]; omega
        rw [e2] at hcR
        exact Outcome.of_steps pre (ihBr rest hasElse els env l _ _ endL endAddr junk base fr K hsup.2 hsupE hcR hdR hend hF hN)
    | _ => first | (rw [hrc] at ihc; exact ihc) | trivial

end AranyaV.Lang
