import AranyaV.Model.ConvBfs
import AranyaV.Proofs.Segments
import AranyaV.Proofs.SegmentsCheck
/-!
# Proofs.ConvBfs — the BFS of the convergence map computes exact in-region arrival counts

Invariant `J` of `advance_to` (one popped location per iteration):
* locations leave the queue in strictly descending `(max_cut, segment)` order; everything still
  queued is strictly below everything already popped;
* the number of copies of a queued location is exactly its number of *arrivals* so far: once per
  occurrence among the heads, once per occurrence among the parents of an already popped location
  above the cut;
* queued and popped locations are exactly what is reachable from the heads through locations
  above the cut (`Reg`), and every reachable location is popped or still below a queued one.
Hence, when a location is popped all its region children have been popped (they are larger), so
the count returned by `pop_duplicates` is its full in-region in-degree (`advanceTo_spec`).
-/
namespace AranyaV.Segments
open AranyaV.Queue (Loc Queue maxLoc maxLoc_mem maxLoc_ge)

/-! ## the order on locations -/

def Lt (a b : Loc) : Prop := a.ble b = true ∧ a ≠ b

theorem lt_iff (a b : Loc) : Lt a b ↔ a.mc < b.mc ∨ (a.mc = b.mc ∧ a.seg < b.seg) := by
  unfold Lt
  cases a with | mk am as =>
  cases b with | mk bm bs =>
  simp only [Loc.ble, Bool.or_eq_true, decide_eq_true_eq, Bool.and_eq_true, beq_iff_eq, ne_eq, Loc.mk.injEq]
  omega

theorem ble_iff (a b : Loc) : a.ble b = true ↔ a.mc < b.mc ∨ (a.mc = b.mc ∧ a.seg ≤ b.seg) := by
  simp [Loc.ble]

theorem lt_of_mc_lt {a b : Loc} (h : a.mc < b.mc) : Lt a b := (lt_iff a b).mpr (Or.inl h)

theorem Lt.mc_le {a b : Loc} (h : Lt a b) : a.mc ≤ b.mc := by
  rcases (lt_iff a b).mp h with h | h <;> omega

theorem Lt.irrefl (a : Loc) : ¬ Lt a a := fun h => h.2 rfl

theorem Lt.trans {a b c : Loc} (h1 : Lt a b) (h2 : Lt b c) : Lt a c := by
  rw [lt_iff] at *; omega

/-! ## region, arrivals -/

/-- `z` is reached from `w` by parent steps out of locations above the cut -/
inductive RegFrom (s : Store) (cut : Nat) : Loc → Loc → Prop
  | refl (w : Loc) : RegFrom s cut w w
  | step {w y z : Loc} : cut < w.mc → y ∈ s.parents w → RegFrom s cut y z → RegFrom s cut w z

def Reg (s : Store) (cut : Nat) (heads : List Loc) (z : Loc) : Prop := ∃ h ∈ heads, RegFrom s cut h z

theorem RegFrom.snoc {s : Store} {cut : Nat} {w x y : Loc} (h : RegFrom s cut w x) (hx : cut < x.mc)
    (hy : y ∈ s.parents x) : RegFrom s cut w y := by
  induction h with
  | refl => exact RegFrom.step hx hy (RegFrom.refl y)
  | step h1 h2 _ ih => exact RegFrom.step h1 h2 (ih hx hy)

theorem RegFrom.mc_le {s : Store} (hp : PriorsOK s) {cut : Nat} {w z : Loc} (h : RegFrom s cut w z) :
    z.mc ≤ w.mc := by
  induction h with
  | refl => exact Nat.le_refl _
  | step _ hy _ ih => have := (parent_valid hp hy).2.2; omega

/-- arrivals of `a`: occurrences among the heads plus occurrences among the parents of the popped
locations above the cut -/
def arr (s : Store) (cut : Nat) (heads P : List Loc) (a : Loc) : Nat :=
  heads.count a + ((P.filter (fun y => decide (cut < y.mc))).map (fun y => (s.parents y).count a)).sum

theorem arr_cons (s : Store) (cut : Nat) (heads P : List Loc) (x a : Loc) :
    arr s cut heads (x :: P) a = arr s cut heads P a + (if cut < x.mc then (s.parents x).count a else 0) := by
  unfold arr
  by_cases h : cut < x.mc
  · simp [List.filter_cons, h]; omega
  · simp [List.filter_cons, h]

theorem count_parents_zero {s : Store} (hp : PriorsOK s) {x a : Loc} (h : x.mc ≤ a.mc) :
    (s.parents x).count a = 0 := by
  rw [List.count_eq_zero]
  intro ha
  have := (parent_valid hp ha).2.2
  omega

/-! ## queue facts -/

theorem foldl_pushDuplicate (ps : List Loc) : ∀ q : Queue,
    (ps.foldl Queue.pushDuplicate q).unc = q.unc ++ ps ∧ (ps.foldl Queue.pushDuplicate q).cov = q.cov := by
  induction ps with
  | nil => intro q; simp
  | cons p ps ih =>
    intro q
    obtain ⟨h1, h2⟩ := ih (q.pushDuplicate p)
    exact ⟨by rw [List.foldl_cons, h1]; simp [Queue.pushDuplicate],
      by rw [List.foldl_cons, h2]; simp [Queue.pushDuplicate]⟩

theorem count_filter_ne (l : List Loc) (x a : Loc) (h : a ≠ x) : (l.filter (· != x)).count a = l.count a := by
  induction l with
  | nil => rfl
  | cons y ys ih =>
    by_cases hy : y = x
    · subst hy
      have : (y != y) = false := by simp
      rw [List.filter_cons, this]
      simp only [Bool.false_eq_true, if_false, ih]
      rw [List.count_cons]
      have : (y == a) = false := by simpa using Ne.symm h
      simp [this]
    · have : (y != x) = true := by simpa using hy
      rw [List.filter_cons, this]
      simp only [if_true, List.count_cons, ih]

/-! ## the invariant -/

structure J (s : Store) (cut : Nat) (heads : List Loc) (b : Bfs) : Prop where
  cov : b.q.cov = []
  val : ∀ a ∈ b.q.unc, s.valid a = true
  pval : ∀ p ∈ b.popped, s.valid p = true
  lt : ∀ a ∈ b.q.unc, ∀ p ∈ b.popped, Lt a p
  desc : b.popped.Pairwise (fun p p' => Lt p p')
  cnt : ∀ a, a ∉ b.popped → b.q.unc.count a = arr s cut heads b.popped a
  soundQ : ∀ a ∈ b.q.unc, Reg s cut heads a
  soundP : ∀ p ∈ b.popped, Reg s cut heads p
  compl : ∀ z, Reg s cut heads z → z ∈ b.popped ∨ ∃ w ∈ b.q.unc, RegFrom s cut w z
  ent : ∀ x k, (x, k) ∈ b.entries ↔
    x ∈ b.popped ∧ cut < x.mc ∧ k = arr s cut heads b.popped x ∧ 2 ≤ k

theorem init_J (s : Store) (cut : Nat) (heads : List Loc) (hv : ∀ h ∈ heads, s.valid h = true) :
    J s cut heads (Bfs.init heads) := by
  obtain ⟨h1, h2⟩ := foldl_pushDuplicate heads Queue.new
  have hunc : (Bfs.init heads).q.unc = heads := by simpa [Bfs.init, Queue.new] using h1
  have hcov : (Bfs.init heads).q.cov = [] := by simpa [Bfs.init, Queue.new] using h2
  refine ⟨hcov, by rw [hunc]; exact hv, by simp [Bfs.init], by simp [Bfs.init], by simp [Bfs.init], ?_, ?_,
    by simp [Bfs.init], ?_, by simp [Bfs.init]⟩
  · intro a _; rw [hunc]; simp [Bfs.init, arr]
  · intro a ha; rw [hunc] at ha; exact ⟨a, ha, RegFrom.refl a⟩
  · rintro z ⟨h, hh, hr⟩
    exact Or.inr ⟨h, by rw [hunc]; exact hh, hr⟩

/-- one iteration of `advance_to` keeps the invariant -/
theorem step_J {s : Store} (hp : PriorsOK s) {cut : Nat} {heads : List Loc} {b : Bfs} (hj : J s cut heads b)
    {x : Loc} (hx : maxLoc b.q.all = some x) :
    ∃ cnt q', b.q.popDuplicates = (some (x, cnt), q') ∧ cnt = arr s cut heads b.popped x ∧
      (x.mc ≤ cut → J s cut heads (Bfs.mk q' (x :: b.popped) b.entries)) ∧
      (cut < x.mc → ∃ q'', expandPriors s q' x = .ok q'' ∧
        J s cut heads (Bfs.mk q'' (x :: b.popped)
          (if 2 ≤ cnt then (x, cnt) :: b.entries else b.entries))) := by
  have hall : b.q.all = b.q.unc := by simp [Queue.all, hj.cov]
  rw [hall] at hx
  have hxq : x ∈ b.q.unc := maxLoc_mem hx
  have hmax : ∀ a ∈ b.q.unc, a.ble x = true := maxLoc_ge hx
  have hxP : x ∉ b.popped := fun h => Lt.irrefl x (hj.lt x hxq x h)
  have hxv : s.valid x = true := hj.val x hxq
  have hpop : b.q.popDuplicates = (some (x, b.q.unc.count x),
      { unc := b.q.unc.filter (· != x), cov := [] }) := by
    simp [Queue.popDuplicates, hall, hx, hj.cov]
  have hfl : ∀ a, a ∈ b.q.unc.filter (· != x) ↔ a ∈ b.q.unc ∧ a ≠ x := by
    intro a; simp
  have hltx : ∀ a ∈ b.q.unc.filter (· != x), Lt a x := fun a ha =>
    ⟨hmax a ((hfl a).mp ha).1, ((hfl a).mp ha).2⟩
  have hparlt : ∀ y ∈ s.parents x, Lt y x := fun y hy => lt_of_mc_lt (parent_valid hp hy).2.2
  -- facts shared by both cases
  have hdesc : (x :: b.popped).Pairwise (fun p p' => Lt p p') :=
    List.pairwise_cons.mpr ⟨fun p hp' => hj.lt x hxq p hp', hj.desc⟩
  have hpval : ∀ p ∈ x :: b.popped, s.valid p = true := by
    intro p hp'; simp only [List.mem_cons] at hp'
    rcases hp' with rfl | hp'
    · exact hxv
    · exact hj.pval p hp'
  have hsoundP : ∀ p ∈ x :: b.popped, Reg s cut heads p := by
    intro p hp'; simp only [List.mem_cons] at hp'
    rcases hp' with rfl | hp'
    · exact hj.soundQ _ hxq
    · exact hj.soundP p hp'
  have harr_old : ∀ y ∈ b.popped, arr s cut heads (x :: b.popped) y = arr s cut heads b.popped y := by
    intro y hy
    rw [arr_cons]
    have : (s.parents x).count y = 0 := count_parents_zero hp (hj.lt x hxq y hy).mc_le
    simp [this]
  have harr_x : arr s cut heads (x :: b.popped) x = arr s cut heads b.popped x := by
    rw [arr_cons]
    have : (s.parents x).count x = 0 := count_parents_zero hp (Nat.le_refl _)
    simp [this]
  refine ⟨b.q.unc.count x, _, hpop, hj.cnt x hxP, ?_, ?_⟩
  · -- at or below the cut: dropped
    intro hcut
    have hnot : ¬ cut < x.mc := by omega
    refine ⟨rfl, fun a ha => hj.val a ((hfl a).mp ha).1, hpval, ?_, hdesc, ?_,
      fun a ha => hj.soundQ a ((hfl a).mp ha).1, hsoundP, ?_, ?_⟩
    · intro a ha p hp'
      simp only [List.mem_cons] at hp'
      rcases hp' with rfl | hp'
      · exact hltx a ha
      · exact hj.lt a ((hfl a).mp ha).1 p hp'
    · intro a ha
      simp only [List.mem_cons, not_or] at ha
      rw [count_filter_ne _ _ _ ha.1, hj.cnt a ha.2, arr_cons]
      simp [hnot]
    · intro z hz
      rcases hj.compl z hz with h | ⟨w, hw, hwz⟩
      · exact Or.inl (List.mem_cons_of_mem _ h)
      · by_cases hwx : w = x
        · subst hwx
          cases hwz with
          | refl => exact Or.inl (by simp)
          | step h1 _ _ => omega
        · exact Or.inr ⟨w, (hfl w).mpr ⟨hw, hwx⟩, hwz⟩
    · intro y k
      rw [hj.ent y k]
      constructor
      · rintro ⟨h1, h2, h3, h4⟩
        exact ⟨List.mem_cons_of_mem _ h1, h2, by rw [harr_old y h1]; exact h3, h4⟩
      · rintro ⟨h1, h2, h3, h4⟩
        simp only [List.mem_cons] at h1
        rcases h1 with rfl | h1
        · omega
        · exact ⟨h1, h2, by rw [← harr_old y h1]; exact h3, h4⟩
  · -- above the cut: recorded (if it is a convergence point) and expanded
    intro hcut
    obtain ⟨g, hg, _, _⟩ := valid_iff.mp hxv
    obtain ⟨hu, hc⟩ := foldl_pushDuplicate (s.parents x) { unc := b.q.unc.filter (· != x), cov := [] }
    refine ⟨(s.parents x).foldl Queue.pushDuplicate { unc := b.q.unc.filter (· != x), cov := [] },
      by simp [expandPriors, hg], ?_⟩
    have hmemq : ∀ a, a ∈ ((s.parents x).foldl Queue.pushDuplicate
        { unc := b.q.unc.filter (· != x), cov := [] }).unc ↔ (a ∈ b.q.unc ∧ a ≠ x) ∨ a ∈ s.parents x := by
      intro a; rw [hu]; simp
    refine ⟨by rw [hc], ?_, hpval, ?_, hdesc, ?_, ?_, hsoundP, ?_, ?_⟩
    · intro a ha
      rcases (hmemq a).mp ha with h | h
      · exact hj.val a h.1
      · exact (parent_valid hp h).1
    · intro a ha p hp'
      simp only [List.mem_cons] at hp'
      rcases (hmemq a).mp ha with h | h
      · rcases hp' with rfl | hp'
        · exact ⟨hmax a h.1, h.2⟩
        · exact hj.lt a h.1 p hp'
      · rcases hp' with rfl | hp'
        · exact hparlt a h
        · exact (hparlt a h).trans (hj.lt x hxq p hp')
    · intro a ha
      simp only [List.mem_cons, not_or] at ha
      rw [hu, List.count_append, count_filter_ne _ _ _ ha.1, hj.cnt a ha.2, arr_cons]
      simp [hcut]
    · intro a ha
      rcases (hmemq a).mp ha with h | h
      · exact hj.soundQ a h.1
      · obtain ⟨h0, hh0, hr⟩ := hj.soundQ x hxq
        exact ⟨h0, hh0, hr.snoc hcut h⟩
    · intro z hz
      rcases hj.compl z hz with h | ⟨w, hw, hwz⟩
      · exact Or.inl (List.mem_cons_of_mem _ h)
      · by_cases hwx : w = x
        · subst hwx
          cases hwz with
          | refl => exact Or.inl (by simp)
          | step _ hy hr => exact Or.inr ⟨_, (hmemq _).mpr (Or.inr hy), hr⟩
        · exact Or.inr ⟨w, (hmemq w).mpr (Or.inl ⟨hw, hwx⟩), hwz⟩
    · intro y k
      have hcx : b.q.unc.count x = arr s cut heads b.popped x := hj.cnt x hxP
      by_cases h2 : 2 ≤ b.q.unc.count x
      · simp only [h2, if_true, List.mem_cons, Prod.mk.injEq]
        rw [hj.ent y k]
        constructor
        · rintro (⟨rfl, rfl⟩ | ⟨h1, h3, h4, h5⟩)
          · exact ⟨Or.inl rfl, hcut, by rw [harr_x]; exact hcx, h2⟩
          · exact ⟨Or.inr h1, h3, by rw [harr_old y h1]; exact h4, h5⟩
        · rintro ⟨h1 | h1, h3, h4, h5⟩
          · subst h1; left; exact ⟨rfl, by rw [h4, harr_x, hcx]⟩
          · right; exact ⟨h1, h3, by rw [← harr_old y h1]; exact h4, h5⟩
      · simp only [h2, if_false]
        rw [hj.ent y k]
        constructor
        · rintro ⟨h1, h3, h4, h5⟩
          exact ⟨List.mem_cons_of_mem _ h1, h3, by rw [harr_old y h1]; exact h4, h5⟩
        · rintro ⟨h1, h3, h4, h5⟩
          simp only [List.mem_cons] at h1
          rcases h1 with rfl | h1
          · rw [harr_x, ← hcx] at h4; omega
          · exact ⟨h1, h3, by rw [← harr_old y h1]; exact h4, h5⟩

/-- `advance_to`: the invariant at exit, everything still queued is below the target, everything
popped during the call is at or above it -/
theorem advanceTo_J {s : Store} (hp : PriorsOK s) {cut target : Nat} {heads : List Loc} :
    ∀ (n : Nat) (b b' : Bfs), J s cut heads b → (∀ p ∈ b.popped, target ≤ p.mc) →
      advanceTo s cut target n b = .ok b' →
      J s cut heads b' ∧ (∀ a ∈ b'.q.unc, a.mc < target) ∧ (∀ p ∈ b'.popped, target ≤ p.mc) := by
  intro n
  induction n with
  | zero => intro b b' _ _ h; simp [advanceTo] at h
  | succ n ih =>
    intro b b' hj ht h
    rw [advanceTo] at h
    have hall : b.q.all = b.q.unc := by simp [Queue.all, hj.cov]
    cases hpk : b.q.peek with
    | none =>
      rw [hpk] at h
      simp only [Except.ok.injEq] at h
      subst h
      have : b.q.unc = [] := by
        have := AranyaV.Queue.maxLoc_none.mp (by simpa [Queue.peek] using hpk)
        rw [hall] at this; exact this
      exact ⟨hj, by rw [this]; simp, ht⟩
    | some top =>
      rw [hpk] at h
      simp only at h
      have hx : maxLoc b.q.all = some top := by simpa [Queue.peek] using hpk
      by_cases hlt : top.mc < target
      · simp only [hlt, if_true, Except.ok.injEq] at h
        subst h
        refine ⟨hj, ?_, ht⟩
        intro a ha
        have := maxLoc_ge hx a (by rw [hall]; exact ha)
        rw [ble_iff] at this
        omega
      · simp only [hlt, if_false] at h
        obtain ⟨cnt, q', hpop, _, hlow, hhigh⟩ := step_J hp hj hx
        rw [hpop] at h
        simp only at h
        have ht' : ∀ p ∈ top :: b.popped, target ≤ p.mc := by
          intro p hp'; simp only [List.mem_cons] at hp'
          rcases hp' with rfl | hp'
          · omega
          · exact ht p hp'
        by_cases hc : top.mc ≤ cut
        · simp only [hc, if_true] at h
          exact ih _ b' (hlow hc) ht' h
        · simp only [hc, if_false] at h
          obtain ⟨q'', he, hj'⟩ := hhigh (by omega)
          rw [he] at h
          simp only at h
          exact ih _ b' hj' ht' h

/-- **Exact counts.** After `advance_to(target)` from the initial state: the popped locations are
exactly the region locations at or above the target, popped in strictly descending order (once
each); an entry `(x, k)` was recorded exactly for the popped `x` above the cut whose number of
arrivals `k` is at least two; and the arrivals of a popped `x` are final — every location that
has `x` among its parents and is in the region above the cut has been popped. -/
theorem advanceTo_spec {s : Store} (hp : PriorsOK s) {cut target : Nat} {heads : List Loc}
    (hv : ∀ h ∈ heads, s.valid h = true) {n : Nat} {b : Bfs}
    (h : advanceTo s cut target n (Bfs.init heads) = .ok b) :
    b.popped.Pairwise (fun p p' => Lt p p') ∧
    (∀ z, z ∈ b.popped ↔ Reg s cut heads z ∧ target ≤ z.mc) ∧
    (∀ x k, (x, k) ∈ b.entries ↔
      x ∈ b.popped ∧ cut < x.mc ∧ k = arr s cut heads b.popped x ∧ 2 ≤ k) ∧
    (∀ x ∈ b.popped, ∀ y, Reg s cut heads y → cut < y.mc → x ∈ s.parents y → y ∈ b.popped) := by
  obtain ⟨hj, hq, ht⟩ := advanceTo_J hp n _ b (init_J s cut heads hv) (by simp [Bfs.init]) h
  have hmem : ∀ z, z ∈ b.popped ↔ Reg s cut heads z ∧ target ≤ z.mc := by
    intro z
    constructor
    · intro hz; exact ⟨hj.soundP z hz, ht z hz⟩
    · rintro ⟨hz, hzt⟩
      rcases hj.compl z hz with h1 | ⟨w, hw, hwz⟩
      · exact h1
      · have := hwz.mc_le hp
        have := hq w hw
        omega
  refine ⟨hj.desc, hmem, hj.ent, ?_⟩
  intro x hx y hy _ hxy
  apply (hmem y).mpr
  refine ⟨hy, ?_⟩
  have := (parent_valid hp hxy).2.2
  have := ht x hx
  omega

/-! ## successive `advance_to` calls (the BFS is advanced lazily by `should_continue`) -/

/-- the BFS has been advanced to level `m`: everything still queued is below `m`, everything
popped is at or above it -/
structure Adv (s : Store) (cut : Nat) (heads : List Loc) (m : Nat) (b : Bfs) : Prop where
  inv : J s cut heads b
  queued : ∀ a ∈ b.q.unc, a.mc < m
  poppedGe : ∀ p ∈ b.popped, m ≤ p.mc

/-- the first call -/
theorem advanceTo_init_adv {s : Store} (hp : PriorsOK s) {cut t : Nat} {heads : List Loc}
    (hv : ∀ h ∈ heads, s.valid h = true) {n : Nat} {b : Bfs}
    (h : advanceTo s cut t n (Bfs.init heads) = .ok b) : Adv s cut heads t b := by
  obtain ⟨h1, h2, h3⟩ := advanceTo_J hp n _ b (init_J s cut heads hv) (by simp [Bfs.init]) h
  exact ⟨h1, h2, h3⟩

/-- a call with a lower target advances the level -/
theorem advanceTo_adv_lower {s : Store} (hp : PriorsOK s) {cut m t : Nat} {heads : List Loc} {b b' : Bfs}
    (ha : Adv s cut heads m b) (htm : t ≤ m) {n : Nat} (h : advanceTo s cut t n b = .ok b') :
    Adv s cut heads t b' := by
  obtain ⟨h1, h2, h3⟩ := advanceTo_J hp n b b' ha.inv (fun p hp' => by have := ha.poppedGe p hp'; omega) h
  exact ⟨h1, h2, h3⟩

/-- a call with a target at or above the level does nothing -/
theorem advanceTo_adv_noop {s : Store} {cut m t : Nat} {heads : List Loc} {b : Bfs}
    (ha : Adv s cut heads m b) (htm : m ≤ t) (n : Nat) : advanceTo s cut t (n + 1) b = .ok b := by
  rw [advanceTo]
  cases hpk : b.q.peek with
  | none => rfl
  | some top =>
    simp only
    have hall : b.q.all = b.q.unc := by simp [Queue.all, ha.inv.cov]
    have hx : maxLoc b.q.all = some top := by simpa [Queue.peek] using hpk
    have htop : top ∈ b.q.unc := by rw [← hall]; exact maxLoc_mem hx
    have := ha.queued top htop
    have hlt : top.mc < t := by omega
    simp [hlt]

/-- what a BFS advanced to level `m` has recorded -/
theorem adv_spec {s : Store} (hp : PriorsOK s) {cut m : Nat} {heads : List Loc} {b : Bfs}
    (ha : Adv s cut heads m b) :
    b.popped.Pairwise (fun p p' => Lt p p') ∧
    (∀ z, z ∈ b.popped ↔ Reg s cut heads z ∧ m ≤ z.mc) ∧
    (∀ x k, (x, k) ∈ b.entries ↔
      x ∈ b.popped ∧ cut < x.mc ∧ k = arr s cut heads b.popped x ∧ 2 ≤ k) := by
  refine ⟨ha.inv.desc, ?_, ha.inv.ent⟩
  intro z
  constructor
  · intro hz; exact ⟨ha.inv.soundP z hz, ha.poppedGe z hz⟩
  · rintro ⟨hz, hzt⟩
    rcases ha.inv.compl z hz with h1 | ⟨w, hw, hwz⟩
    · exact h1
    · have := hwz.mc_le hp
      have := ha.queued w hw
      omega

/-- any sequence of `advance_to` calls -/
def advanceSeq (s : Store) (cut fuel : Nat) : List Nat → Bfs → Except Err Bfs
  | [], b => .ok b
  | t :: ts, b =>
    match advanceTo s cut t fuel b with
    | .error e => .error e
    | .ok b' => advanceSeq s cut fuel ts b'

theorem advanceSeq_adv {s : Store} (hp : PriorsOK s) {cut : Nat} {heads : List Loc} {fuel : Nat} :
    ∀ (ts : List Nat) (m : Nat) (b b' : Bfs), Adv s cut heads m b → advanceSeq s cut fuel ts b = .ok b' →
      Adv s cut heads (ts.foldl min m) b' := by
  intro ts
  induction ts with
  | nil => intro m b b' ha h; simp only [advanceSeq, Except.ok.injEq] at h; subst h; simpa using ha
  | cons t ts ih =>
    intro m b b' ha h
    simp only [advanceSeq] at h
    cases h1 : advanceTo s cut t fuel b with
    | error e => rw [h1] at h; cases h
    | ok b1 =>
      rw [h1] at h
      simp only [List.foldl_cons]
      by_cases htm : t ≤ m
      · have : min m t = t := by omega
        rw [this]
        exact ih t b1 b' (advanceTo_adv_lower hp ha htm h1) h
      · have hmin : min m t = m := by omega
        rw [hmin]
        cases fuel with
        | zero => simp [advanceTo] at h1
        | succ n =>
          rw [advanceTo_adv_noop ha (by omega) n] at h1
          simp only [Except.ok.injEq] at h1
          subst h1
          exact ih m b b' ha h

/-- `advance_to` never takes an error branch: no missing segment, no `bug`, and
`allLocs.length + 1` iterations suffice (every iteration pops a different command location) -/
theorem advanceTo_total {s : Store} (hp : PriorsOK s) {cut target : Nat} {heads : List Loc} :
    ∀ (n : Nat) (b : Bfs), J s cut heads b → s.allLocs.length < n + b.popped.length →
      ∃ b', advanceTo s cut target n b = .ok b' := by
  intro n
  induction n with
  | zero =>
    intro b hj hn
    exfalso
    have hnd : b.popped.Nodup := by
      unfold List.Nodup
      refine hj.desc.imp ?_
      intro a c h e
      subst e
      exact Lt.irrefl a h
    have := hnd.length_le_of_subset (fun p hp' => valid_mem_allLocs (hj.pval p hp'))
    omega
  | succ n ih =>
    intro b hj hn
    rw [advanceTo]
    cases hpk : b.q.peek with
    | none => exact ⟨b, rfl⟩
    | some top =>
      simp only
      by_cases hlt : top.mc < target
      · exact ⟨b, by simp [hlt]⟩
      · simp only [hlt, if_false]
        have hx : maxLoc b.q.all = some top := by simpa [Queue.peek] using hpk
        obtain ⟨cnt, q', hpop, _, hlow, hhigh⟩ := step_J hp hj hx
        rw [hpop]
        simp only
        by_cases hc : top.mc ≤ cut
        · simp only [hc, if_true]
          exact ih _ (hlow hc) (by simp; omega)
        · simp only [hc, if_false]
          obtain ⟨q'', he, hj'⟩ := hhigh (by omega)
          rw [he]
          exact ih _ hj' (by simp; omega)

end AranyaV.Segments
