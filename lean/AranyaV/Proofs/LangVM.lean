import AranyaV.Model.Compile
/-!
Helper lemmas for C22–C24: multi-step execution (`Steps`), code placement (`CodeAt`), total
label resolution (`res`), and one lemma per instruction describing `step` when that instruction
is at the pc.
-/
namespace AranyaV.Lang
open AranyaV.Gen.Lang

/-! ## multi-step execution -/

inductive Steps (m : Machine) : VM → VM → Prop where
  | refl (s : VM) : Steps m s s
  | next {s s' s'' : VM} : step m s = .running s' → Steps m s' s'' → Steps m s s''

theorem Steps.trans {m : Machine} {a b c : VM} (h1 : Steps m a b) (h2 : Steps m b c) : Steps m a c := by
  induction h1 with
  | refl => exact h2
  | next h _ ih => exact .next h (ih h2)

theorem Steps.one {m : Machine} {a b : VM} (h : step m a = .running b) : Steps m a b := .next h (.refl _)

/-- `s` runs to an exit with reason `r`, final state `t` -/
def ExitsWith (m : Machine) (s : VM) (r : ExitReason) (t : VM) : Prop :=
  ∃ s', Steps m s s' ∧ step m s' = .exited r t

/-- `s` runs into machine error `e` with log `l` -/
def ErrorsWith (m : Machine) (s : VM) (e : MErr) (l : Log) : Prop :=
  ∃ s', Steps m s s' ∧ step m s' = .error e l

theorem ExitsWith.of_steps {m : Machine} {a b t : VM} {r} (h1 : Steps m a b) (h2 : ExitsWith m b r t) : ExitsWith m a r t := by
  obtain ⟨s', hs, he⟩ := h2
  exact ⟨s', h1.trans hs, he⟩

theorem ErrorsWith.of_steps {m : Machine} {a b : VM} {e l} (h1 : Steps m a b) (h2 : ErrorsWith m b e l) : ErrorsWith m a e l := by
  obtain ⟨s', hs, he⟩ := h2
  exact ⟨s', h1.trans hs, he⟩

theorem run_of_steps {m : Machine} {a b : VM} (h : Steps m a b) :
    ∀ k, ∃ k', run m (k' + k) a = run m k b := by
  induction h with
  | refl => intro k; exact ⟨0, by simp⟩
  | next hs _ ih =>
    intro k
    obtain ⟨k', hk⟩ := ih k
    refine ⟨k' + 1, ?_⟩
    have : k' + 1 + k = (k' + k) + 1 := by omega
    rw [this, run, hs]
    exact hk

theorem run_of_exits {m : Machine} {a t : VM} {r} (h : ExitsWith m a r t) : ∃ k, run m k a = .exited r t := by
  obtain ⟨s', hs, he⟩ := h
  obtain ⟨k', hk⟩ := run_of_steps hs 1
  exact ⟨k' + 1, by rw [hk, run, he]⟩

theorem run_of_errors {m : Machine} {a : VM} {e l} (h : ErrorsWith m a e l) : ∃ k, run m k a = .error e l := by
  obtain ⟨s', hs, he⟩ := h
  obtain ⟨k', hk⟩ := run_of_steps hs 1
  exact ⟨k' + 1, by rw [hk, run, he]⟩

/-! ## label resolution as a total map -/

def resT (labels : List (Label × Nat)) : Target Label → Target Label
  | .Resolved n => .Resolved n
  | .Unresolved l => match lookupLabel labels l with
    | some a => .Resolved a
    | none => .Unresolved l

def res (labels : List (Label × Nat)) : Instr → Instr
  | .Branch t => .Branch (resT labels t)
  | .Jump t => .Jump (resT labels t)
  | .Call t => .Call (resT labels t)
  | .Recall t => .Recall (resT labels t)
  | i => i

theorem resolveTarget_eq {labels t t'} (h : resolveTarget labels t = some t') : t' = resT labels t := by
  cases t with
  | Resolved n => simp [resolveTarget] at h; simp [resT, h]
  | Unresolved l =>
    simp only [resolveTarget] at h
    cases hl : lookupLabel labels l with
    | none => simp [hl] at h
    | some a => simp [hl] at h; simp [resT, hl, h]

theorem resolveInstr_eq {labels i i'} (h : resolveInstr labels i = some i') : i' = res labels i := by
  cases i <;> simp only [resolveInstr, Option.some.injEq, Option.map_eq_some_iff] at h <;>
    first
    | (obtain ⟨t', ht, rfl⟩ := h; simp [res, resolveTarget_eq ht])
    | (subst h; rfl)

theorem resolveTargets_eq {labels} : ∀ {code prog}, resolveTargets labels code = some prog → prog = code.map (res labels)
  | [], prog, h => by simp [resolveTargets] at h; simp [h]
  | i :: is, prog, h => by
    simp only [resolveTargets] at h
    cases hi : resolveInstr labels i with
    | none => simp [hi] at h
    | some i' =>
      cases hr : resolveTargets labels is with
      | none => simp [hi, hr] at h
      | some is' =>
        simp [hi, hr] at h
        subst h
        simp [resolveInstr_eq hi, resolveTargets_eq hr]

/-! ## code placement -/

/-- the resolved image of `code` sits in `prog` at address `wp` -/
def CodeAt (labels : List (Label × Nat)) (prog : List Instr) (wp : Nat) (code : List Instr) : Prop :=
  code.map (res labels) <+: prog.drop wp

theorem CodeAt.nil {labels prog wp} : CodeAt labels prog wp [] := by simp [CodeAt]

theorem codeAt_append {labels prog wp} {a b : List Instr} :
    CodeAt labels prog wp (a ++ b) ↔ CodeAt labels prog wp a ∧ CodeAt labels prog (wp + a.length) b := by
  unfold CodeAt
  constructor
  · rintro ⟨t, ht⟩
    rw [List.map_append, List.append_assoc] at ht
    refine ⟨⟨_, ht⟩, ?_⟩
    have : prog.drop (wp + a.length) = (prog.drop wp).drop a.length := by rw [List.drop_drop]
    rw [this, ← ht]
    have hl : a.length = (a.map (res labels)).length := by simp
    rw [hl, List.drop_left]
    exact ⟨t, rfl⟩
  · rintro ⟨⟨t, ht⟩, ⟨u, hu⟩⟩
    have : prog.drop (wp + a.length) = (prog.drop wp).drop a.length := by rw [List.drop_drop]
    rw [this, ← ht] at hu
    have hl : a.length = (a.map (res labels)).length := by simp
    rw [hl, List.drop_left] at hu
    refine ⟨u, ?_⟩
    rw [List.map_append, List.append_assoc, hu, ht]

theorem codeAt_cons {labels prog wp} {i : Instr} {rest : List Instr} :
    CodeAt labels prog wp (i :: rest) ↔ prog[wp]? = some (res labels i) ∧ CodeAt labels prog (wp + 1) rest := by
  have h := @codeAt_append labels prog wp [i] rest
  simp only [List.singleton_append, List.length_singleton] at h
  rw [h]
  constructor
  · rintro ⟨⟨t, ht⟩, h2⟩
    refine ⟨?_, h2⟩
    simp only [List.map_cons, List.map_nil, List.singleton_append] at ht
    have := congrArg List.head? ht
    simpa [List.head?_drop] using this.symm
  · rintro ⟨h1, h2⟩
    refine ⟨?_, h2⟩
    unfold CodeAt
    simp only [List.map_cons, List.map_nil]
    have hlt : wp < prog.length := by
      rcases Nat.lt_or_ge wp prog.length with h | h
      · exact h
      · simp [List.getElem?_eq_none h] at h1
    rw [List.drop_eq_getElem_cons hlt]
    have : prog[wp] = res labels i := by
      rw [List.getElem?_eq_getElem hlt] at h1
      exact Option.some.inj h1
    rw [this]
    exact ⟨_, rfl⟩

theorem codeAt_single {labels prog wp} {i : Instr} :
    CodeAt labels prog wp [i] ↔ prog[wp]? = some (res labels i) := by
  rw [codeAt_cons]; simp [CodeAt.nil]

/-- every label defined by a code fragment is known to `labels` with the same address -/
def DefsOk (labels : List (Label × Nat)) (defs : List (Label × Nat)) : Prop :=
  ∀ q ∈ defs, lookupLabel labels q.1 = some q.2

theorem DefsOk.nil {labels} : DefsOk labels [] := by simp [DefsOk]
theorem defsOk_append {labels a b} : DefsOk labels (a ++ b) ↔ DefsOk labels a ∧ DefsOk labels b := by
  simp only [DefsOk, List.mem_append]
  constructor
  · intro h; exact ⟨fun q hq => h q (Or.inl hq), fun q hq => h q (Or.inr hq)⟩
  · rintro ⟨h1, h2⟩ q (hq | hq); exact h1 q hq; exact h2 q hq
theorem defsOk_cons {labels q b} : DefsOk labels (q :: b) ↔ lookupLabel labels q.1 = some q.2 ∧ DefsOk labels b := by
  simp [DefsOk]

theorem res_br {labels l a} (h : lookupLabel labels l = some a) : res labels (br l) = .Branch (.Resolved a) := by
  simp [br, res, resT, h]
theorem res_jmp {labels l a} (h : lookupLabel labels l = some a) : res labels (jmp l) = .Jump (.Resolved a) := by
  simp [jmp, res, resT, h]

/-! ## one lemma per instruction -/

section steps
variable {m : Machine} {σ : List Val} {sc : List Env} {K : List Nat} {pc : Nat} {lg : Log}

theorem step_const {v} (h : m.prog[pc]? = some (.Const v)) :
    step m ⟨σ, sc, K, pc, lg⟩ = .running ⟨v :: σ, sc, K, pc + 1, lg⟩ := by
  simp [step, h, VM.next, VM.push]

theorem step_ident {i} (h : m.prog[pc]? = some (.Identifier i)) :
    step m ⟨σ, sc, K, pc, lg⟩ = .running ⟨.ident i :: σ, sc, K, pc + 1, lg⟩ := by
  simp [step, h, VM.next, VM.push]

theorem step_get {x env fr v} (h : m.prog[pc]? = some (.Get x)) (hv : lookupVar m.p env x = some v) :
    step m ⟨σ, env :: fr, K, pc, lg⟩ = .running ⟨v :: σ, env :: fr, K, pc + 1, lg⟩ := by
  simp [step, h, hv, VM.next, VM.push]

theorem step_def {x env env' fr v} (h : m.prog[pc]? = some (.Def x)) (hv : bindVar m.p env x v = some env') :
    step m ⟨v :: σ, env :: fr, K, pc, lg⟩ = .running ⟨σ, env' :: fr, K, pc + 1, lg⟩ := by
  simp [step, h, hv, VM.next]

theorem step_dup {v} (h : m.prog[pc]? = some .Dup) :
    step m ⟨v :: σ, sc, K, pc, lg⟩ = .running ⟨v :: v :: σ, sc, K, pc + 1, lg⟩ := by
  simp [step, h, VM.next, VM.push]

theorem step_pop {v} (h : m.prog[pc]? = some .Pop) :
    step m ⟨v :: σ, sc, K, pc, lg⟩ = .running ⟨σ, sc, K, pc + 1, lg⟩ := by
  simp [step, h, VM.next]

theorem step_block {env fr} (h : m.prog[pc]? = some .Block) :
    step m ⟨σ, env :: fr, K, pc, lg⟩ = .running ⟨σ, ([] :: env) :: fr, K, pc + 1, lg⟩ := by
  simp [step, h, VM.next]

theorem step_end {b env fr} (h : m.prog[pc]? = some .End) :
    step m ⟨σ, (b :: env) :: fr, K, pc, lg⟩ = .running ⟨σ, env :: fr, K, pc + 1, lg⟩ := by
  simp [step, h, VM.next]

theorem step_jump {n} (h : m.prog[pc]? = some (.Jump (.Resolved n))) :
    step m ⟨σ, sc, K, pc, lg⟩ = .running ⟨σ, sc, K, n, lg⟩ := by
  simp [step, h]

theorem step_branch_true {n} (h : m.prog[pc]? = some (.Branch (.Resolved n))) :
    step m ⟨.bool true :: σ, sc, K, pc, lg⟩ = .running ⟨σ, sc, K, n, lg⟩ := by
  simp [step, h]

theorem step_branch_false {t} (h : m.prog[pc]? = some (.Branch t)) :
    step m ⟨.bool false :: σ, sc, K, pc, lg⟩ = .running ⟨σ, sc, K, pc + 1, lg⟩ := by
  simp [step, h, VM.next]

theorem step_exit {r} (h : m.prog[pc]? = some (.Exit r)) :
    step m ⟨σ, sc, K, pc, lg⟩ = .exited r ⟨σ, sc, K, pc, lg⟩ := by
  simp [step, h]

theorem step_add {a b : Int} (h : m.prog[pc]? = some .Add) :
    step m ⟨.int b :: .int a :: σ, sc, K, pc, lg⟩ = .running ⟨checked (a + b) :: σ, sc, K, pc + 1, lg⟩ := by
  simp [step, h, VM.next]
theorem step_sub {a b : Int} (h : m.prog[pc]? = some .Sub) :
    step m ⟨.int b :: .int a :: σ, sc, K, pc, lg⟩ = .running ⟨checked (a - b) :: σ, sc, K, pc + 1, lg⟩ := by
  simp [step, h, VM.next]
theorem step_satadd {a b : Int} (h : m.prog[pc]? = some .SaturatingAdd) :
    step m ⟨.int b :: .int a :: σ, sc, K, pc, lg⟩ = .running ⟨.int (saturate (a + b)) :: σ, sc, K, pc + 1, lg⟩ := by
  simp [step, h, VM.next]
theorem step_satsub {a b : Int} (h : m.prog[pc]? = some .SaturatingSub) :
    step m ⟨.int b :: .int a :: σ, sc, K, pc, lg⟩ = .running ⟨.int (saturate (a - b)) :: σ, sc, K, pc + 1, lg⟩ := by
  simp [step, h, VM.next]

theorem step_not {b} (h : m.prog[pc]? = some .Not) :
    step m ⟨.bool b :: σ, sc, K, pc, lg⟩ = .running ⟨.bool (!b) :: σ, sc, K, pc + 1, lg⟩ := by
  simp [step, h, VM.next]

theorem step_gt {a b : Int} (h : m.prog[pc]? = some .Gt) :
    step m ⟨.int b :: .int a :: σ, sc, K, pc, lg⟩ = .running ⟨.bool (decide (a > b)) :: σ, sc, K, pc + 1, lg⟩ := by
  simp [step, h, VM.next]
theorem step_lt {a b : Int} (h : m.prog[pc]? = some .Lt) :
    step m ⟨.int b :: .int a :: σ, sc, K, pc, lg⟩ = .running ⟨.bool (decide (a < b)) :: σ, sc, K, pc + 1, lg⟩ := by
  simp [step, h, VM.next]
theorem step_eq {a b : Val} (h : m.prog[pc]? = some .Eq) :
    step m ⟨b :: a :: σ, sc, K, pc, lg⟩ = .running ⟨.bool (a.beq b) :: σ, sc, K, pc + 1, lg⟩ := by
  simp [step, h, VM.next]

theorem step_wrap {w v} (h : m.prog[pc]? = some (.Wrap w)) :
    step m ⟨v :: σ, sc, K, pc, lg⟩ =
      .running ⟨wrapVal w v :: σ, sc, K, pc + 1, lg⟩ := by
  simp [step, h, VM.next]

theorem step_is {w v} (h : m.prog[pc]? = some (.Is w)) :
    step m ⟨v :: σ, sc, K, pc, lg⟩ = .running ⟨.bool (isWrap w v) :: σ, sc, K, pc + 1, lg⟩ := by
  simp [step, h, VM.next]

theorem step_unwrap {w v inner} (h : m.prog[pc]? = some (.Unwrap w)) (hu : unwrap w v = some inner) :
    step m ⟨v :: σ, sc, K, pc, lg⟩ = .running ⟨inner :: σ, sc, K, pc + 1, lg⟩ := by
  simp [step, h, hu, VM.next]

theorem step_meta {x} (h : m.prog[pc]? = some (.Meta x)) :
    step m ⟨σ, sc, K, pc, lg⟩ = .running ⟨σ, sc, K, pc + 1, lg⟩ := by
  simp [step, h, VM.next]

theorem step_structNew {n} (h : m.prog[pc]? = some (.StructNew n)) :
    step m ⟨σ, sc, K, pc, lg⟩ = .running ⟨.struct n [] :: σ, sc, K, pc + 1, lg⟩ := by
  simp [step, h, VM.next, VM.push]

theorem step_structSet {f v name fs d} (h : m.prog[pc]? = some (.StructSet f))
    (hd : m.p.structDef name = some d) (hf : d.any (·.1 == f) = true) :
    step m ⟨v :: .struct name fs :: σ, sc, K, pc, lg⟩ = .running ⟨.struct name (setField fs f v) :: σ, sc, K, pc + 1, lg⟩ := by
  simp [step, h, hd, hf, VM.next]

theorem step_structGet {f v name fs} (h : m.prog[pc]? = some (.StructGet f)) (hg : getField fs f = some v) :
    step m ⟨.struct name fs :: σ, sc, K, pc, lg⟩ = .running ⟨v :: σ, sc, K, pc + 1, lg⟩ := by
  simp [step, h, hg, VM.next]

theorem step_cast {to name fs d} (h : m.prog[pc]? = some (.Cast to))
    (hd : m.p.structDef to = some d) (hc : castOk fs d = true) :
    step m ⟨.struct name fs :: σ, sc, K, pc, lg⟩ = .running ⟨.struct to fs :: σ, sc, K, pc + 1, lg⟩ := by
  simp [step, h, hd, hc, VM.next]

theorem step_saveSP (h : m.prog[pc]? = some .SaveSP) :
    step m ⟨σ, sc, K, pc, lg⟩ = .running ⟨σ, sc, σ.length :: K, pc + 1, lg⟩ := by
  simp [step, h, VM.next]

theorem step_call {n} (h : m.prog[pc]? = some (.Call (.Resolved n))) :
    step m ⟨σ, sc, K, pc, lg⟩ = .running ⟨σ, [[]] :: sc, pc :: K, n, lg⟩ := by
  simp [step, h]

theorem step_return_top (h : m.prog[pc]? = some .Return) :
    step m ⟨σ, sc, [], pc, lg⟩ = .exited .Normal ⟨σ, sc, [], pc, lg⟩ := by
  simp [step, h]

theorem step_return {ra fr0 fr} (h : m.prog[pc]? = some .Return) :
    step m ⟨σ, fr0 :: fr, ra :: K, pc, lg⟩ = .running ⟨σ, fr, K, ra + 1, lg⟩ := by
  simp [step, h]

/-- `RestoreSP` with the returned value on top of `junk ++ base`, saved pointer `base.length` -/
theorem step_restoreSP {v junk base} (h : m.prog[pc]? = some .RestoreSP) :
    step m ⟨v :: (junk ++ base), sc, base.length :: K, pc, lg⟩ = .running ⟨v :: base, sc, K, pc + 1, lg⟩ := by
  simp only [step, h]
  by_cases hj : junk = []
  · subst hj; simp [VM.next]
  · have hlen : junk.length > 0 := List.length_pos_iff.mpr hj
    have h1 : ¬ ((v :: (junk ++ base)).length < base.length + 1) := by simp
    have h2 : ¬ ((v :: (junk ++ base)).length = base.length + 1) := by simp; omega
    simp only [h1, h2, if_false, VM.next]
    have : (junk ++ base).length - base.length = junk.length := by simp
    rw [this, List.drop_left]

end steps

end AranyaV.Lang
