import AranyaV.Model.Wire
/-!
Lemmas about the postcard primitives of `Model.Wire`: round trips, "decoder consumes a prefix",
value bounds, and "a truncated canonical encoding fails with `eof`".
-/
namespace AranyaV.Wire

theorem toNat_ofNat_lt {n : Nat} (h : n < 256) : (UInt8.ofNat n).toNat = n := by
  simp [UInt8.toNat_ofNat']; omega

/-! ## varint -/

/-- round trip of the two loops, generic in the loop count `k+1` and in the number `r` of
payload bits of the last byte (`lastMax = 2^r - 1`) -/
theorem varintLoop_rt (r : Nat) (hr : r ≤ 7) (rest : Bytes) :
    ∀ (k n : Nat), n < 2 ^ (7 * k + r) →
      varintDecLoop (2 ^ r - 1) (k + 1) (varintEncLoop (k + 1) n ++ rest) = .ok (n, rest) := by
  intro k
  induction k with
  | zero =>
    intro n hn
    have h128 : (2:Nat) ^ r ≤ 128 := by
      have : (2:Nat) ^ r ≤ 2 ^ 7 := Nat.pow_le_pow_right (by decide) hr
      simpa using this
    simp only [Nat.mul_zero, Nat.zero_add] at hn
    have hn128 : n < 128 := by omega
    simp only [varintEncLoop, hn128, if_true, List.cons_append, List.nil_append, varintDecLoop]
    rw [toNat_ofNat_lt (by omega)]
    simp only [hn128, if_true]
    rw [if_neg (by omega)]
  | succ k ih =>
    intro n hn
    by_cases h : n < 128
    · simp only [varintEncLoop, h, if_true, List.cons_append, List.nil_append, varintDecLoop]
      rw [toNat_ofNat_lt (by omega)]
      simp only [h, if_true]
      rw [if_neg (by omega)]
    · have hdiv : n / 128 < 2 ^ (7 * k + r) := by
        have e : 2 ^ (7 * (k + 1) + r) = 128 * 2 ^ (7 * k + r) := by
          rw [show 7 * (k + 1) + r = 7 + (7 * k + r) by omega, Nat.pow_add]
        rw [e] at hn
        exact Nat.div_lt_of_lt_mul hn
      have hb : (UInt8.ofNat (n % 128 + 128)).toNat = n % 128 + 128 :=
        toNat_ofNat_lt (by omega)
      rw [varintEncLoop]
      simp only [h, if_false, List.cons_append]
      rw [varintDecLoop, hb]
      rw [if_neg (by omega), ih _ hdiv]
      simp only [Except.ok.injEq, Prod.mk.injEq, and_true]
      omega

theorem varint64_rt (n : Nat) (h : n < 2 ^ 64) (rest : Bytes) :
    varintDec 64 (varintEnc 64 n ++ rest) = .ok (n, rest) :=
  varintLoop_rt 1 (by decide) rest 9 n h

theorem varint32_rt (n : Nat) (h : n < 2 ^ 32) (rest : Bytes) :
    varintDec 32 (varintEnc 32 n ++ rest) = .ok (n, rest) :=
  varintLoop_rt 4 (by decide) rest 4 n h

theorem varint16_rt (n : Nat) (h : n < 2 ^ 16) (rest : Bytes) :
    varintDec 16 (varintEnc 16 n ++ rest) = .ok (n, rest) :=
  varintLoop_rt 2 (by decide) rest 2 n h

/-- the decoder returns a suffix of its input and reads between 1 and `k` bytes -/
theorem varintDecLoop_prefix (L : Nat) :
    ∀ (k : Nat) (bs : Bytes) (n : Nat) (rest : Bytes),
      varintDecLoop L k bs = .ok (n, rest) →
      ∃ used, bs = used ++ rest ∧ 1 ≤ used.length ∧ used.length ≤ k := by
  intro k
  induction k with
  | zero => intro bs n rest h; simp [varintDecLoop] at h
  | succ k ih =>
    intro bs n rest h
    cases bs with
    | nil => simp [varintDecLoop] at h
    | cons b bs =>
      rw [varintDecLoop] at h
      split at h
      · split at h
        · cases h
        · simp only [Except.ok.injEq, Prod.mk.injEq] at h
          exact ⟨[b], by simp [h.2], by simp, by simp⟩
      · split at h
        · rename_i hi rest' heq
          simp only [Except.ok.injEq, Prod.mk.injEq] at h
          obtain ⟨used, hu, h1, h2⟩ := ih bs hi rest' heq
          refine ⟨b :: used, ?_, by simp, by simp; omega⟩
          rw [hu, ← h.2]; rfl
        · cases h

theorem varintDec_prefix {bits : Nat} {bs : Bytes} {n : Nat} {rest : Bytes}
    (h : varintDec bits bs = .ok (n, rest)) :
    ∃ used, bs = used ++ rest ∧ 1 ≤ used.length ∧ used.length ≤ varintMax bits :=
  varintDecLoop_prefix _ _ _ _ _ h

/-- every accepted value is below `128^(k-1) * (lastMax+1)`: nothing is lost by the shifts -/
theorem varintDecLoop_lt (L : Nat) (hL : L < 128) :
    ∀ (k : Nat) (bs : Bytes) (n : Nat) (rest : Bytes),
      varintDecLoop L k bs = .ok (n, rest) → n < 128 ^ (k - 1) * (L + 1) := by
  intro k
  induction k with
  | zero => intro bs n rest h; simp [varintDecLoop] at h
  | succ k ih =>
    intro bs n rest h
    cases bs with
    | nil => simp [varintDecLoop] at h
    | cons b bs =>
      rw [varintDecLoop] at h
      split at h
      · rename_i hb
        split at h
        · cases h
        · rename_i hk
          simp only [Except.ok.injEq, Prod.mk.injEq] at h
          rw [← h.1]
          simp only [Nat.add_sub_cancel]
          cases k with
          | zero => simp at hk ⊢; omega
          | succ k =>
            have : 128 ^ (k + 1) * (L + 1) ≥ 128 ^ (k + 1) := Nat.le_mul_of_pos_right _ (by omega)
            have : 128 ^ (k + 1) ≥ 128 := by
              rw [Nat.pow_succ]; exact Nat.le_mul_of_pos_left _ (Nat.pow_pos (by decide))
            omega
      · split at h
        · rename_i hi rest' heq
          simp only [Except.ok.injEq, Prod.mk.injEq] at h
          have hh := ih bs hi rest' heq
          cases k with
          | zero => simp [varintDecLoop] at heq
          | succ k =>
            simp only [Nat.add_sub_cancel] at hh ⊢
            rw [← h.1, Nat.pow_succ, Nat.mul_assoc, Nat.mul_comm (128 ^ k) (128 * (L+1)),
              Nat.mul_assoc]
            have : b.toNat % 128 < 128 := Nat.mod_lt _ (by decide)
            have : hi + 1 ≤ (L + 1) * 128 ^ k := by rw [Nat.mul_comm]; omega
            have : 128 * (hi + 1) ≤ 128 * ((L + 1) * 128 ^ k) := Nat.mul_le_mul_left _ this
            omega
        · cases h

theorem varintDec64_lt {bs : Bytes} {n : Nat} {rest : Bytes}
    (h : varintDec 64 bs = .ok (n, rest)) : n < 2 ^ 64 := by
  have := varintDecLoop_lt 1 (by decide) 10 bs n rest h
  simpa using this

theorem varintDec32_lt {bs : Bytes} {n : Nat} {rest : Bytes}
    (h : varintDec 32 bs = .ok (n, rest)) : n < 2 ^ 32 := by
  have := varintDecLoop_lt 15 (by decide) 5 bs n rest h
  simpa using this

/-- every proper prefix of a canonical encoding fails with `eof` (never `bad`, never `ok`) -/
theorem varintLoop_trunc (L : Nat) :
    ∀ (k n : Nat) (p q : Bytes), p ++ q = varintEncLoop k n → q ≠ [] →
      varintDecLoop L k p = .error .eof := by
  intro k
  induction k with
  | zero => intro n p q h hq; simp [varintEncLoop] at h; exact absurd h.2 hq
  | succ k ih =>
    intro n p q h hq
    cases p with
    | nil => simp [varintDecLoop]
    | cons b p =>
      rw [varintEncLoop] at h
      split at h
      · simp only [List.cons_append, List.cons.injEq, List.append_eq_nil_iff] at h
        exact absurd h.2.2 hq
      · simp only [List.cons_append, List.cons.injEq] at h
        rw [varintDecLoop, h.1, toNat_ofNat_lt (by omega), if_neg (by omega), ih _ p q h.2 hq]

theorem varint_trunc {bits n : Nat} {p q : Bytes} (h : p ++ q = varintEnc bits n) (hq : q ≠ []) :
    varintDec bits p = .error .eof :=
  varintLoop_trunc _ _ _ _ _ h hq

/-! ## zig-zag -/

theorem zigzag_rt (x : Int) : unzigzag (zigzag x) = x := by
  unfold unzigzag zigzag; split <;> split <;> omega

theorem zigzag_lt {x : Int} (h : inI64 x) : zigzag x < 2 ^ 64 := by
  unfold inI64 at h; unfold zigzag; split <;> omega

theorem unzigzag_inI64 {n : Nat} (h : n < 2 ^ 64) : inI64 (unzigzag n) := by
  unfold inI64 unzigzag; split <;> omega

theorem i64_rt {x : Int} (h : inI64 x) (rest : Bytes) : i64Dec (i64Enc x ++ rest) = .ok (x, rest) := by
  unfold i64Dec i64Enc
  rw [varint64_rt _ (zigzag_lt h)]
  simp [zigzag_rt]

theorem i64Dec_prefix {bs : Bytes} {x : Int} {rest : Bytes} (h : i64Dec bs = .ok (x, rest)) :
    ∃ used, bs = used ++ rest ∧ 1 ≤ used.length := by
  unfold i64Dec at h
  split at h
  · rename_i n r heq
    simp only [Except.ok.injEq, Prod.mk.injEq] at h
    obtain ⟨u, hu, h1, _⟩ := varintDec_prefix heq
    exact ⟨u, by rw [hu, h.2], h1⟩
  · cases h

theorem i64Dec_inI64 {bs : Bytes} {x : Int} {rest : Bytes} (h : i64Dec bs = .ok (x, rest)) :
    inI64 x := by
  unfold i64Dec at h
  split at h
  · rename_i n r heq
    simp only [Except.ok.injEq, Prod.mk.injEq] at h
    rw [← h.1]; exact unzigzag_inI64 (varintDec64_lt heq)
  · cases h

theorem i64_trunc {x : Int} {p q : Bytes} (h : p ++ q = i64Enc x) (hq : q ≠ []) :
    i64Dec p = .error .eof := by
  unfold i64Dec; rw [varint_trunc h hq]

/-! ## take / pop / length-prefixed bytes -/

theorem takeN_append (b rest : Bytes) : takeN b.length (b ++ rest) = .ok (b, rest) := by
  simp [takeN]

theorem takeN_prefix {n : Nat} {bs a rest : Bytes} (h : takeN n bs = .ok (a, rest)) :
    bs = a ++ rest ∧ a.length = n := by
  unfold takeN at h
  split at h
  · simp only [Except.ok.injEq, Prod.mk.injEq] at h
    rw [← h.1, ← h.2]; simp; omega
  · cases h

theorem takeN_short {n : Nat} {bs : Bytes} (h : bs.length < n) : takeN n bs = .error .eof := by
  simp [takeN]; omega

theorem bytes_rt (b : Bytes) (hlen : b.length < 2 ^ 64) (rest : Bytes) :
    bytesDec (bytesEnc b ++ rest) = .ok (b, rest) := by
  unfold bytesDec bytesEnc
  rw [List.append_assoc, varint64_rt _ hlen]
  exact takeN_append b rest

theorem bytesDec_prefix {bs a rest : Bytes} (h : bytesDec bs = .ok (a, rest)) :
    ∃ used, bs = used ++ rest ∧ 1 ≤ used.length := by
  unfold bytesDec at h
  split at h
  · rename_i n r heq
    obtain ⟨u, hu, h1, _⟩ := varintDec_prefix heq
    obtain ⟨h2, _⟩ := takeN_prefix h
    exact ⟨u ++ a, by rw [hu, h2, List.append_assoc], by simp; omega⟩
  · cases h

/-- the payload returned by `bytesDec` lies inside the input: it is a contiguous sub-list that
ends where the remainder starts -/
theorem bytesDec_payload {bs a rest : Bytes} (h : bytesDec bs = .ok (a, rest)) :
    ∃ hdr, bs = hdr ++ a ++ rest := by
  unfold bytesDec at h
  split at h
  · rename_i n r heq
    obtain ⟨u, hu, _, _⟩ := varintDec_prefix heq
    obtain ⟨h2, _⟩ := takeN_prefix h
    exact ⟨u, by rw [hu, h2, List.append_assoc]⟩
  · cases h

theorem bytes_trunc {b p q : Bytes} (hlen : b.length < 2 ^ 64) (h : p ++ q = bytesEnc b)
    (hq : q ≠ []) : bytesDec p = .error .eof := by
  unfold bytesEnc at h
  unfold bytesDec
  have hqlen : q.length ≠ 0 := by intro h0; exact hq (List.eq_nil_of_length_eq_zero h0)
  -- either p is a proper prefix of the length varint, or it contains it
  rcases List.append_eq_append_iff.mp h with ⟨c, hc1, hc2⟩ | ⟨c, hc1, hc2⟩
  · -- varint = p ++ c, q = c ++ b
    by_cases hcn : c = []
    · subst hcn
      simp only [List.append_nil] at hc1
      simp only [List.nil_append] at hc2
      have := varint64_rt b.length hlen []
      rw [List.append_nil, hc1] at this
      rw [this]
      apply takeN_short
      rw [hc2] at hqlen
      simp only [List.length_nil]
      omega
    · rw [varint_trunc hc1.symm hcn]
  · -- p = varint ++ c, b = c ++ q
    rw [hc1, varint64_rt _ hlen]
    apply takeN_short
    rw [hc2]; simp; omega

theorem pop_prefix {bs : Bytes} {b : UInt8} {rest : Bytes} (h : pop bs = .ok (b, rest)) :
    bs = b :: rest := by
  cases bs with
  | nil => simp [pop] at h
  | cons x xs => simp [pop] at h; rw [h.1, h.2]

theorem boolDec_enc (b : Bool) (rest : Bytes) : boolDec (boolEnc b ++ rest) = .ok (b, rest) := by
  cases b <;> simp [boolDec, boolEnc]

theorem boolDec_prefix {bs : Bytes} {b : Bool} {rest : Bytes} (h : boolDec bs = .ok (b, rest)) :
    ∃ x, bs = x :: rest := by
  cases bs with
  | nil => simp [boolDec] at h
  | cons x xs =>
    refine ⟨x, ?_⟩
    simp only [boolDec] at h
    split at h
    · simp at h; rw [h.2]
    · split at h
      · simp at h; rw [h.2]
      · cases h

end AranyaV.Wire
