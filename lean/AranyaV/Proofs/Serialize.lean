import AranyaV.Model.Serialize
import AranyaV.Proofs.Wire
/-!
Helper definitions and lemmas for C26: sorted association lists as `BTreeMap`s, the
"matches its schema" predicate `fits`, struct nesting depth, the field-loop lemmas and the
central mutual induction `good_enc` (round trip + truncation for every conforming value).
-/
namespace AranyaV.Serialize
open AranyaV.Wire AranyaV.Gen.SerializeTags

def keys {α : Type} (m : List (Nat × α)) : List Nat := m.map (·.1)

def Sorted {α : Type} (m : List (Nat × α)) : Prop := (keys m).Pairwise (· < ·)

theorem lookup_none_of_lt {α : Type} (m : List (Nat × α)) (k : Nat)
    (h : ∀ x ∈ keys m, k < x) : lookup m k = none := by
  induction m with
  | nil => rfl
  | cons a m ih =>
    obtain ⟨k', v⟩ := a
    have h1 : k < k' := h k' (by simp [keys])
    have h2 : ∀ x ∈ keys m, k < x := fun x hx => h x (by simp [keys] at hx ⊢; exact Or.inr hx)
    simp only [lookup]
    rw [if_neg (by omega)]
    exact ih h2

theorem lookup_mem {α : Type} (m : List (Nat × α)) (k : Nat) (v : α) (h : lookup m k = some v) :
    (k, v) ∈ m := by
  induction m with
  | nil => simp [lookup] at h
  | cons a m ih =>
    obtain ⟨k', v'⟩ := a
    simp only [lookup] at h
    split at h
    · rename_i hk; simp at h; subst hk; subst h; simp
    · exact List.mem_cons_of_mem _ (ih h)

theorem lookup_isSome_of_mem_keys {α : Type} (m : List (Nat × α)) (k : Nat) (h : k ∈ keys m) :
    (lookup m k).isSome = true := by
  induction m with
  | nil => simp [keys] at h
  | cons a m ih =>
    obtain ⟨k', v'⟩ := a
    simp only [lookup]
    split
    · rfl
    · rename_i hk
      simp only [keys, List.map_cons, List.mem_cons] at h
      rcases h with h | h
      · exact absurd h.symm hk
      · exact ih h

theorem lookup_none_of_not_mem_keys {α : Type} (m : List (Nat × α)) (k : Nat) (h : k ∉ keys m) :
    lookup m k = none := by
  induction m with
  | nil => rfl
  | cons a m ih =>
    obtain ⟨k', v'⟩ := a
    simp only [keys, List.map_cons, List.mem_cons, not_or] at h
    simp only [lookup]
    rw [if_neg (fun e => h.1 e.symm)]
    exact ih h.2

theorem lookup_of_mem_nodup {α : Type} (m : List (Nat × α)) (k : Nat) (v : α)
    (hn : (keys m).Nodup) (h : (k, v) ∈ m) : lookup m k = some v := by
  induction m with
  | nil => simp at h
  | cons a m ih =>
    obtain ⟨k', v'⟩ := a
    simp only [keys, List.map_cons, List.nodup_cons] at hn
    simp only [List.mem_cons, Prod.mk.injEq] at h
    simp only [lookup]
    rcases h with ⟨h1, h2⟩ | h
    · subst h1; subst h2; simp
    · have : k' ≠ k := by
        intro e; subst e
        exact hn.1 (List.mem_map.mpr ⟨(k', v), h, rfl⟩)
      rw [if_neg this]
      exact ih hn.2 h

theorem lookup_insertField (m : List (Nat × Val)) (n : Nat) (v : Val) (k : Nat) :
    lookup (insertField m n v) k = if n = k then some v else lookup m k := by
  induction m with
  | nil => simp [insertField, lookup]
  | cons a m ih =>
    obtain ⟨k', w⟩ := a
    simp only [insertField]
    split
    · simp [lookup]
    · split
      · rename_i h1 h2
        subst h2
        simp only [lookup]
        split <;> rfl
      · rename_i h1 h2
        simp only [lookup, ih]
        split
        · rename_i h3; subst h3; rw [if_neg h2]
        · rfl

theorem keys_insertField (m : List (Nat × Val)) (n : Nat) (v : Val) :
    ∀ x, x ∈ keys (insertField m n v) ↔ x = n ∨ x ∈ keys m := by
  induction m with
  | nil => intro x; simp [insertField, keys]
  | cons a m ih =>
    obtain ⟨k', w⟩ := a
    intro x
    simp only [insertField]
    split
    · simp [keys]
    · split
      · rename_i h1 h2; subst h2; simp [keys]
      · have := ih x
        simp only [keys, List.map_cons, List.mem_cons] at this ⊢
        rw [this]
        constructor
        · rintro (h | h | h) <;> simp [h]
        · rintro (h | h | h) <;> simp [h]

theorem insertField_sorted (m : List (Nat × Val)) (n : Nat) (v : Val) (h : Sorted m) :
    Sorted (insertField m n v) := by
  induction m with
  | nil => simp [insertField, Sorted, keys]
  | cons a m ih =>
    obtain ⟨k', w⟩ := a
    have h' := h
    simp only [Sorted, keys, List.map_cons, List.pairwise_cons] at h
    simp only [insertField]
    split
    · rename_i h1
      simp only [Sorted, keys, List.map_cons, List.pairwise_cons]
      refine ⟨?_, h⟩
      intro x hx
      simp only [List.mem_cons] at hx
      rcases hx with hx | hx
      · omega
      · have := h.1 x hx; omega
    · split
      · rename_i h1 h2
        simpa [Sorted, keys] using h
      · rename_i h1 h2
        simp only [Sorted, keys, List.map_cons, List.pairwise_cons]
        refine ⟨?_, ih h.2⟩
        intro x hx
        have := (keys_insertField m n v x).mp hx
        rcases this with e | e
        · omega
        · exact h.1 x e

theorem sorted_ext {α : Type} :
    ∀ (a b : List (Nat × α)), Sorted a → Sorted b → (∀ k, lookup a k = lookup b k) → a = b := by
  intro a
  induction a with
  | nil =>
    intro b _ _ h
    cases b with
    | nil => rfl
    | cons x b =>
      obtain ⟨k, v⟩ := x
      have := h k
      simp [lookup] at this
  | cons x a ih =>
    intro b ha hb h
    obtain ⟨k1, v1⟩ := x
    cases b with
    | nil =>
      have := h k1
      simp [lookup] at this
    | cons y b =>
      obtain ⟨k2, v2⟩ := y
      simp only [Sorted, keys, List.map_cons, List.pairwise_cons] at ha hb
      have hk : k1 = k2 := by
        rcases Nat.lt_trichotomy k1 k2 with hlt | heq | hgt
        · have e := h k1
          simp only [lookup, if_true] at e
          rw [if_neg (by omega)] at e
          rw [lookup_none_of_lt b k1 (fun x hx => by have := hb.1 x hx; omega)] at e
          cases e
        · exact heq
        · have e := h k2
          simp only [lookup, if_true] at e
          rw [if_neg (by omega)] at e
          rw [lookup_none_of_lt a k2 (fun x hx => by have := ha.1 x hx; omega)] at e
          cases e
      subst hk
      have hv : v1 = v2 := by
        have e := h k1
        simpa [lookup] using e
      subst hv
      have : a = b := by
        apply ih b ha.2 hb.2
        intro k
        by_cases hk : k1 = k
        · subst hk
          rw [lookup_none_of_lt a k1 ha.1, lookup_none_of_lt b k1 hb.1]
        · have e := h k
          simpa [lookup, hk] using e
      rw [this]

/-! ## "matches its schema" and struct nesting depth -/

mutual
/-- struct nesting depth of a value (what the deserializer's recursion through the schema costs) -/
def sdepth : Val → Nat
  | .struct _ fs => sdepthFields fs + 1
  | .some v => sdepth v
  | .ok v => sdepth v
  | .err v => sdepth v
  | _ => 0
def sdepthFields : List (Nat × Val) → Nat
  | [] => 0
  | (_, v) :: rest => max (sdepth v) (sdepthFields rest)
end

mutual
/-- the value matches the type under the schema: what `Value`s built by the VM for a declared
struct satisfy.  For a struct: the field map is a map (strictly sorted keys), it has exactly the
declared field names (declared names distinct), each field matches its declared type. -/
def fits (ds : List StructDef) (es : List EnumDef) : Val → Ty → Bool
  | .unit, .unit => true
  | .int x, .int => decide (inI64 x)
  | .bool _, .bool => true
  | .string s, .string => validUtf8 s && decide ((0 : UInt8) ∉ s) && decide (s.length < 2 ^ 64)
  | .bytes b, .bytes => decide (b.length < 2 ^ 64)
  | .id b, .id => decide (b.length = idSize)
  | .enum n x, .enum m =>
    decide (n = m) && decide (inI64 x) &&
      (match findEnum es n with
       | Option.some vs => decide (x ∈ vs)
       | Option.none => false)
  | .none, .optional _ => true
  | .some v, .optional t => fits ds es v t
  | .ok v, .result a _ => fits ds es v a
  | .err v, .result _ b => fits ds es v b
  | .struct n fs, .struct m =>
    decide (n = m) &&
      (match findStruct ds n with
       | Option.some items =>
         decide ((keys fs).Pairwise (· < ·)) && decide ((keys items).Nodup) &&
         decide (items.length = fs.length) &&
         (keys items).all (fun k => (lookup fs k).isSome) &&
         fitsFields ds es fs items
       | Option.none => false)
  | _, _ => false
def fitsFields (ds : List StructDef) (es : List EnumDef) : List (Nat × Val) → List (Nat × Ty) → Bool
  | [], _ => true
  | (k, v) :: rest, items =>
    (match lookup items k with
     | Option.some t => fits ds es v t
     | Option.none => false) && fitsFields ds es rest items
end

/-- side conditions on the generated constants (checked by `decide`, the proofs below only use
these facts, never the values) -/
structure TagsOK : Prop where
  none_eq : serNone = deNone
  some_eq : serSome = deSome
  ok_eq : serOk = deOk
  err_eq : serErr = deErr
  opt_ne : deNone ≠ deSome
  res_ne : deOk ≠ deErr
  none_lt : serNone < 256
  some_lt : serSome < 256
  ok_lt : serOk < 256
  err_lt : serErr < 256
  id_lt : idSize < 256

theorem tagsOK : TagsOK := by
  constructor <;> decide

/-- `enc` is a good encoding of `v` at type `t` for the decoder `f`: it decodes to `v` leaving
exactly what follows, and every proper prefix of it fails with `UnexpectedEnd` -/
def GoodEnc (f : Ty → Bytes → DeRes) (t : Ty) (v : Val) (enc : Bytes) : Prop :=
  (∀ rest, f t (enc ++ rest) = .ok (v, rest)) ∧
  (∀ p q, p ++ q = enc → q ≠ [] → f t p = .error .unexpectedEnd)

/-- the field map `deFields` builds from the definition's fields, looking the values up in `fs` -/
def build (fs : List (Nat × Val)) : List (Nat × Ty) → List (Nat × Val) → List (Nat × Val)
  | [], acc => acc
  | (n, _) :: its, acc =>
    match lookup fs n with
    | Option.some v => build fs its (insertField acc n v)
    | Option.none => build fs its acc

theorem lookup_serFields (ds : List StructDef) (fs : List (Nat × Val)) (n : Nat) :
    lookup (serFields ds fs) n = (lookup fs n).map (serVal ds) := by
  induction fs with
  | nil => simp [serFields, lookup]
  | cons a fs ih =>
    obtain ⟨k, v⟩ := a
    simp only [serFields, lookup]
    split
    · rfl
    · exact ih

theorem fields_good (ds : List StructDef) (f : Ty → Bytes → DeRes) (fs : List (Nat × Val)) :
    ∀ (its : List (Nat × Ty)),
      (∀ n t, (n, t) ∈ its →
        ∃ v enc, lookup fs n = some v ∧ serVal ds v = .ok enc ∧ GoodEnc f t v enc) →
      ∃ out, assemble its (serFields ds fs) = .ok out ∧
        (∀ acc rest, deFields f its acc (out ++ rest) = .ok (build fs its acc, rest)) ∧
        (∀ acc p q, p ++ q = out → q ≠ [] → deFields f its acc p = .error .unexpectedEnd) := by
  intro its
  induction its with
  | nil =>
    intro _
    refine ⟨[], rfl, ?_, ?_⟩
    · intro acc rest; simp [deFields, build]
    · intro acc p q h hq
      simp only [List.append_eq_nil_iff] at h
      exact absurd h.2 hq
  | cons a its ih =>
    intro H
    obtain ⟨n, t⟩ := a
    obtain ⟨v, enc, hl, hs, hrt, htr⟩ := H n t (by simp)
    obtain ⟨out', ha, hr, ht⟩ := ih (fun n' t' hm => H n' t' (List.mem_cons_of_mem _ hm))
    refine ⟨enc ++ out', ?_, ?_, ?_⟩
    · simp only [assemble, lookup_serFields, hl, Option.map_some, hs, ha]
    · intro acc rest
      simp only [deFields, List.append_assoc, hrt, build, hl]
      exact hr _ _
    · intro acc p q h hq
      rcases List.append_eq_append_iff.mp h with ⟨c, hc1, hc2⟩ | ⟨c, hc1, hc2⟩
      · -- enc = p ++ c, q = c ++ out'
        by_cases hcn : c = []
        · subst hcn
          simp only [List.append_nil] at hc1
          simp only [List.nil_append] at hc2
          subst hc1
          have := hrt []
          simp only [List.append_nil] at this
          simp only [deFields, this]
          exact ht _ [] q (by simpa using hc2) hq
        · simp only [deFields, htr p c hc1.symm hcn]
      · -- p = enc ++ c, out' = c ++ q
        subst hc1
        simp only [deFields, hrt]
        exact ht _ c q hc2.symm hq

theorem lookup_build (fs : List (Nat × Val)) :
    ∀ (its : List (Nat × Ty)) (acc : List (Nat × Val)),
      (∀ n ∈ keys its, (lookup fs n).isSome = true) →
      ∀ k, lookup (build fs its acc) k = if k ∈ keys its then lookup fs k else lookup acc k := by
  intro its
  induction its with
  | nil => intro acc _ k; simp [build, keys]
  | cons a its ih =>
    intro acc H k
    obtain ⟨n, t⟩ := a
    have hn := H n (by simp [keys])
    obtain ⟨v, hv⟩ := Option.isSome_iff_exists.mp hn
    have H' : ∀ n ∈ keys its, (lookup fs n).isSome = true :=
      fun m hm => H m (by simp only [keys, List.map_cons, List.mem_cons] at hm ⊢; exact Or.inr hm)
    simp only [build, hv]
    rw [ih _ H' k, lookup_insertField]
    simp only [keys, List.map_cons, List.mem_cons]
    by_cases h1 : k ∈ List.map (fun x => x.fst) its
    · simp [h1]
    · by_cases h2 : n = k
      · subst h2; simp [h1, hv]
      · have : ¬ k = n := fun e => h2 e.symm
        simp [h1, h2, this]

theorem build_sorted (fs : List (Nat × Val)) :
    ∀ (its : List (Nat × Ty)) (acc : List (Nat × Val)), Sorted acc → Sorted (build fs its acc) := by
  intro its
  induction its with
  | nil => intro acc h; simpa [build] using h
  | cons a its ih =>
    intro acc h
    obtain ⟨n, t⟩ := a
    simp only [build]
    split
    · exact ih _ (insertField_sorted _ _ _ h)
    · exact ih _ h

theorem build_eq (fs : List (Nat × Val)) (items : List (Nat × Ty)) (hs : Sorted fs)
    (h1 : ∀ n ∈ keys items, (lookup fs n).isSome = true)
    (h2 : ∀ k ∈ keys fs, k ∈ keys items) : build fs items [] = fs := by
  apply sorted_ext _ _ (build_sorted fs items [] (by simp [Sorted, keys])) hs
  intro k
  rw [lookup_build fs items [] h1 k]
  split
  · rfl
  · rename_i hk
    have : k ∉ keys fs := fun hmem => hk (h2 k hmem)
    rw [lookup_none_of_not_mem_keys fs k this]
    rfl

/-! ## the central induction -/

theorem mem_keys_of_mem {α : Type} {m : List (Nat × α)} {k : Nat} {v : α} (h : (k, v) ∈ m) :
    k ∈ keys m := List.mem_map.mpr ⟨(k, v), h, rfl⟩

/-- tagged payload: `tag :: enc` is good for a decoder that pops the tag and then runs a good
inner decoder, wrapping the result in `C` -/
theorem good_tagged {f : Ty → Bytes → DeRes} {t t' : Ty} {v : Val} (C : Val → Val) {enc : Bytes}
    {tag : UInt8}
    (hdec : ∀ bs, f t (tag :: bs) =
      match f t' bs with
      | .ok (x, r) => .ok (C x, r)
      | .error e => .error e)
    (hnil : f t [] = .error .unexpectedEnd)
    (g : GoodEnc f t' v enc) : GoodEnc f t (C v) (tag :: enc) := by
  obtain ⟨hrt, htr⟩ := g
  constructor
  · intro rest
    rw [List.cons_append, hdec, hrt]
  · intro p q h hq
    cases p with
    | nil => exact hnil
    | cons x p =>
      simp only [List.cons_append, List.cons.injEq] at h
      rw [h.1, hdec, htr p q h.2 hq]

theorem liftErr_eof : liftErr .eof = .unexpectedEnd := rfl

section
variable (ds : List StructDef) (es : List EnumDef)

theorem deVal_optional_nil (sd : Nat → Bytes → DeRes) (t : Ty) :
    deVal es sd (.optional t) [] = .error .unexpectedEnd := by
  simp [deVal, pop, liftErr]

theorem deVal_result_nil (sd : Nat → Bytes → DeRes) (a b : Ty) :
    deVal es sd (.result a b) [] = .error .unexpectedEnd := by
  simp [deVal, pop, liftErr]

theorem deVal_some (T : TagsOK) (sd : Nat → Bytes → DeRes) (t : Ty) (bs : Bytes) :
    deVal es sd (.optional t) (UInt8.ofNat serSome :: bs) =
      match deVal es sd t bs with
      | .ok (x, r) => .ok (.some x, r)
      | .error e => .error e := by
  have h1 : (UInt8.ofNat serSome).toNat = deSome := by
    rw [toNat_ofNat_lt T.some_lt, T.some_eq]
  have h2 : deSome ≠ deNone := fun e => T.opt_ne e.symm
  rw [deVal]
  simp only [pop, h1, h2, if_false, if_true]
  cases deVal es sd t bs with
  | error e => rfl
  | ok p => cases p; rfl

theorem deVal_none (T : TagsOK) (sd : Nat → Bytes → DeRes) (t : Ty) (bs : Bytes) :
    deVal es sd (.optional t) (UInt8.ofNat serNone :: bs) = .ok (.none, bs) := by
  have h1 : (UInt8.ofNat serNone).toNat = deNone := by
    rw [toNat_ofNat_lt T.none_lt, T.none_eq]
  rw [deVal]
  simp only [pop, h1, if_true]

theorem deVal_ok (T : TagsOK) (sd : Nat → Bytes → DeRes) (a b : Ty) (bs : Bytes) :
    deVal es sd (.result a b) (UInt8.ofNat serOk :: bs) =
      match deVal es sd a bs with
      | .ok (x, r) => .ok (.ok x, r)
      | .error e => .error e := by
  have h1 : (UInt8.ofNat serOk).toNat = deOk := by
    rw [toNat_ofNat_lt T.ok_lt, T.ok_eq]
  rw [deVal]
  simp only [pop, h1, if_true]
  cases deVal es sd a bs with
  | error e => rfl
  | ok p => cases p; rfl

theorem deVal_err (T : TagsOK) (sd : Nat → Bytes → DeRes) (a b : Ty) (bs : Bytes) :
    deVal es sd (.result a b) (UInt8.ofNat serErr :: bs) =
      match deVal es sd b bs with
      | .ok (x, r) => .ok (.err x, r)
      | .error e => .error e := by
  have h1 : (UInt8.ofNat serErr).toNat = deErr := by
    rw [toNat_ofNat_lt T.err_lt, T.err_eq]
  have h2 : deErr ≠ deOk := fun e => T.res_ne e.symm
  rw [deVal]
  simp only [pop, h1, h2, if_false, if_true]
  cases deVal es sd b bs with
  | error e => rfl
  | ok p => cases p; rfl

end

theorem deStruct_succ (ds : List StructDef) (es : List EnumDef) (fuel n : Nat) (bs : Bytes)
    (items : List (Nat × Ty)) (h : findStruct ds n = some items) :
    deStruct ds es (fuel + 1) n bs =
      match deFields (deVal es (deStruct ds es fuel)) items [] bs with
      | .ok (fs, rest) => .ok (.struct n fs, rest)
      | .error e => .error e := by
  rw [deStruct]; simp only [h]
  cases deFields (deVal es (deStruct ds es fuel)) items [] bs with
  | error e => rfl
  | ok p => cases p; rfl

mutual
/-- central induction: every value that matches its type serializes, and the serialization is a
good encoding (decodes back to the value, every proper prefix fails with `UnexpectedEnd`),
provided the recursion budget covers the value's struct nesting depth -/
theorem good_enc (ds : List StructDef) (es : List EnumDef) (T : TagsOK) :
    (v : Val) → ∀ (t : Ty) (fuel : Nat), fits ds es v t = true → sdepth v ≤ fuel →
      ∃ enc, serVal ds v = .ok enc ∧ GoodEnc (deVal es (deStruct ds es fuel)) t v enc
  | .unit, t, fuel, hf, _ => by
    cases t <;> simp [fits] at hf
    refine ⟨[], rfl, ?_, ?_⟩
    · intro rest; simp [deVal]
    · intro p q h hq; simp at h; exact absurd h.2 hq
  | .int x, t, fuel, hf, _ => by
    cases t <;> simp [fits] at hf
    refine ⟨i64Enc x, rfl, ?_, ?_⟩
    · intro rest; simp [deVal, i64_rt hf]
    · intro p q h hq; simp [deVal, i64_trunc h hq, liftErr]
  | .bool b, t, fuel, hf, _ => by
    cases t <;> simp [fits] at hf
    refine ⟨boolEnc b, rfl, ?_, ?_⟩
    · intro rest; simp [deVal, boolDec_enc]
    · intro p q h hq
      cases p with
      | nil => simp [deVal, boolDec, liftErr]
      | cons x p =>
        simp [boolEnc] at h
        exact absurd h.2.2 hq
  | .string s, t, fuel, hf, _ => by
    cases t <;> simp [fits] at hf
    refine ⟨bytesEnc s, rfl, ?_, ?_⟩
    · intro rest; simp [deVal, bytes_rt s hf.2, hf.1.1, hf.1.2]
    · intro p q h hq; simp [deVal, bytes_trunc hf.2 h hq, liftErr]
  | .bytes s, t, fuel, hf, _ => by
    cases t <;> simp [fits] at hf
    refine ⟨bytesEnc s, rfl, ?_, ?_⟩
    · intro rest; simp [deVal, bytes_rt s hf]
    · intro p q h hq; simp [deVal, bytes_trunc hf h hq, liftErr]
  | .id b, t, fuel, hf, _ => by
    cases t <;> simp [fits] at hf
    have hid : (UInt8.ofNat idSize).toNat = idSize := toNat_ofNat_lt T.id_lt
    refine ⟨UInt8.ofNat idSize :: b, rfl, ?_, ?_⟩
    · intro rest
      have := takeN_append b rest
      rw [hf] at this
      simp [deVal, pop, hid, this]
    · intro p q h hq
      cases p with
      | nil => simp [deVal, pop, liftErr]
      | cons x p =>
        simp only [List.cons_append, List.cons.injEq] at h
        have hlen : p.length < idSize := by
          have hq' : q.length ≠ 0 := fun h0 => hq (List.eq_nil_of_length_eq_zero h0)
          have := congrArg List.length h.2
          simp at this; omega
        simp [deVal, pop, h.1, hid, takeN_short hlen, liftErr]
  | .enum n x, t, fuel, hf, _ => by
    cases t <;> simp [fits] at hf
    rename_i m
    obtain ⟨⟨hnm, hx⟩, hvs⟩ := hf
    subst hnm
    cases hfe : findEnum es n with
    | none => simp [hfe] at hvs
    | some vs =>
      simp [hfe] at hvs
      refine ⟨i64Enc x, rfl, ?_, ?_⟩
      · intro rest; simp [deVal, hfe, i64_rt hx, hvs]
      · intro p q h hq; simp [deVal, hfe, i64_trunc h hq, liftErr]
  | .none, t, fuel, hf, _ => by
    cases t <;> simp [fits] at hf
    refine ⟨[UInt8.ofNat serNone], rfl, ?_, ?_⟩
    · intro rest; exact deVal_none es T _ _ rest
    · intro p q h hq
      cases p with
      | nil => exact deVal_optional_nil es _ _
      | cons x p => simp at h; exact absurd h.2.2 hq
  | .some v, t, fuel, hf, hd => by
    cases t <;> simp [fits] at hf
    rename_i t'
    simp only [sdepth] at hd
    obtain ⟨enc, hs, g⟩ := good_enc ds es T v t' fuel hf hd
    refine ⟨UInt8.ofNat serSome :: enc, by simp [serVal, hs], ?_⟩
    exact good_tagged Val.some (deVal_some es T _ t') (deVal_optional_nil es _ _) g
  | .ok v, t, fuel, hf, hd => by
    cases t <;> simp [fits] at hf
    rename_i a b
    simp only [sdepth] at hd
    obtain ⟨enc, hs, g⟩ := good_enc ds es T v a fuel hf hd
    refine ⟨UInt8.ofNat serOk :: enc, by simp [serVal, hs], ?_⟩
    exact good_tagged Val.ok (deVal_ok es T _ a b) (deVal_result_nil es _ _ _) g
  | .err v, t, fuel, hf, hd => by
    cases t <;> simp [fits] at hf
    rename_i a b
    simp only [sdepth] at hd
    obtain ⟨enc, hs, g⟩ := good_enc ds es T v b fuel hf hd
    refine ⟨UInt8.ofNat serErr :: enc, by simp [serVal, hs], ?_⟩
    exact good_tagged Val.err (deVal_err es T _ a b) (deVal_result_nil es _ _ _) g
  | .internal, t, fuel, hf, _ => by
    cases t <;> simp [fits] at hf
  | .struct n fs, t, fuel, hf, hd => by
    cases t <;> simp [fits] at hf
    rename_i m
    obtain ⟨hnm, hrest⟩ := hf
    subst hnm
    cases hfind : findStruct ds n with
    | none => simp [hfind] at hrest
    | some items =>
      simp [hfind] at hrest
      obtain ⟨⟨⟨⟨hsorted, hnodup⟩, hlen⟩, hall⟩, hff⟩ := hrest
      simp only [sdepth] at hd
      cases fuel with
      | zero => omega
      | succ fuel =>
        have hdf : sdepthFields fs ≤ fuel := by omega
        have F := good_fields ds es T fs items fuel hff hdf
        have hpresent : ∀ k ∈ keys items, (lookup fs k).isSome = true := by
          intro k hk
          exact hall k (by simpa [keys] using hk)
        have H : ∀ k t, (k, t) ∈ items → ∃ v enc, lookup fs k = some v ∧ serVal ds v = .ok enc ∧
            GoodEnc (deVal es (deStruct ds es fuel)) t v enc := by
          intro k t hm
          obtain ⟨v, hv⟩ := Option.isSome_iff_exists.mp (hpresent k (mem_keys_of_mem hm))
          obtain ⟨t', enc, hl, hs, g⟩ := F k v (lookup_mem _ _ _ hv)
          rw [lookup_of_mem_nodup items k t hnodup hm] at hl
          cases hl
          exact ⟨v, enc, hv, hs, g⟩
        have hsub : ∀ k ∈ keys fs, k ∈ keys items := by
          intro k hk
          obtain ⟨⟨k', v⟩, hm, hk'⟩ := List.mem_map.mp hk
          simp only at hk'; subst hk'
          obtain ⟨t', _, hl, _, _⟩ := F k' v hm
          exact mem_keys_of_mem (lookup_mem _ _ _ hl)
        obtain ⟨out, ha, hr, ht⟩ := fields_good ds (deVal es (deStruct ds es fuel)) fs items H
        refine ⟨out, ?_, ?_, ?_⟩
        · simp [serVal, hfind, hlen, ha]
        · intro rest
          rw [deVal, deStruct_succ ds es fuel n _ items hfind, hr,
            build_eq fs items hsorted hpresent hsub]
        · intro p q h hq
          rw [deVal, deStruct_succ ds es fuel n _ items hfind, ht [] p q h hq]
/-- field-wise form of `good_enc` -/
theorem good_fields (ds : List StructDef) (es : List EnumDef) (T : TagsOK) :
    (fs : List (Nat × Val)) → ∀ (items : List (Nat × Ty)) (fuel : Nat),
      fitsFields ds es fs items = true → sdepthFields fs ≤ fuel →
      ∀ k v, (k, v) ∈ fs → ∃ t enc, lookup items k = some t ∧ serVal ds v = .ok enc ∧
        GoodEnc (deVal es (deStruct ds es fuel)) t v enc
  | [], _, _, _, _ => by intro k v h; simp at h
  | (k0, v0) :: rest, items, fuel, hf, hd => by
    intro k v hm
    simp only [fitsFields, Bool.and_eq_true] at hf
    simp only [sdepthFields] at hd
    rcases List.mem_cons.mp hm with h | h
    · cases h
      cases hl : lookup items k0 with
      | none => simp [hl] at hf
      | some t =>
        simp only [hl] at hf
        obtain ⟨enc, hs, g⟩ := good_enc ds es T v0 t fuel hf.1 (by omega)
        exact ⟨t, enc, rfl, hs, g⟩
    · exact good_fields ds es T rest items fuel hf.2 (by omega) k v h
end

/-! ## the decoder consumes a prefix of its input -/

/-- `g` returns, as remainder, a suffix of its input -/
def PrefixOK {α : Type} (g : Bytes → Except DeErr (α × Bytes)) : Prop :=
  ∀ bs v rest, g bs = .ok (v, rest) → ∃ used, bs = used ++ rest

theorem deVal_prefix (es : List EnumDef) (sd : Nat → Bytes → DeRes) (hsd : ∀ n, PrefixOK (sd n)) :
    ∀ t, PrefixOK (deVal es sd t) := by
  intro t
  induction t with
  | unit => intro bs v rest h; simp [deVal] at h; exact ⟨[], by simp [h.2]⟩
  | string =>
    intro bs v rest h
    simp only [deVal] at h
    split at h
    · cases h
    · rename_i s r heq
      split at h
      · simp only [Except.ok.injEq, Prod.mk.injEq] at h
        obtain ⟨u, hu, _⟩ := bytesDec_prefix heq
        exact ⟨u, by rw [hu, h.2]⟩
      · cases h
  | bytes =>
    intro bs v rest h
    simp only [deVal] at h
    split at h
    · cases h
    · rename_i s r heq
      simp only [Except.ok.injEq, Prod.mk.injEq] at h
      obtain ⟨u, hu, _⟩ := bytesDec_prefix heq
      exact ⟨u, by rw [hu, h.2]⟩
  | int =>
    intro bs v rest h
    simp only [deVal] at h
    split at h
    · cases h
    · rename_i s r heq
      simp only [Except.ok.injEq, Prod.mk.injEq] at h
      obtain ⟨u, hu, _⟩ := i64Dec_prefix heq
      exact ⟨u, by rw [hu, h.2]⟩
  | bool =>
    intro bs v rest h
    simp only [deVal] at h
    split at h
    · cases h
    · rename_i s r heq
      simp only [Except.ok.injEq, Prod.mk.injEq] at h
      obtain ⟨x, hx⟩ := boolDec_prefix heq
      exact ⟨[x], by rw [hx, h.2]; rfl⟩
  | id =>
    intro bs v rest h
    simp only [deVal] at h
    split at h
    · cases h
    · rename_i len r heq
      split at h
      · cases h
      · split at h
        · cases h
        · rename_i x r' heq'
          simp only [Except.ok.injEq, Prod.mk.injEq] at h
          have h1 := pop_prefix heq
          obtain ⟨h2, _⟩ := takeN_prefix heq'
          exact ⟨len :: x, by rw [h1, h2, h.2]; rfl⟩
  | struct n => exact hsd n
  | enum n =>
    intro bs v rest h
    simp only [deVal] at h
    split at h
    · cases h
    · split at h
      · cases h
      · rename_i x r heq
        split at h
        · simp only [Except.ok.injEq, Prod.mk.injEq] at h
          obtain ⟨u, hu, _⟩ := i64Dec_prefix heq
          exact ⟨u, by rw [hu, h.2]⟩
        · cases h
  | optional t ih =>
    intro bs v rest h
    simp only [deVal] at h
    split at h
    · cases h
    · rename_i tag r heq
      have h1 := pop_prefix heq
      split at h
      · simp only [Except.ok.injEq, Prod.mk.injEq] at h
        exact ⟨[tag], by rw [h1, h.2]; rfl⟩
      · split at h
        · split at h
          · rename_i w r' heq'
            simp only [Except.ok.injEq, Prod.mk.injEq] at h
            obtain ⟨u, hu⟩ := ih _ _ _ heq'
            exact ⟨tag :: u, by rw [h1, hu, h.2]; rfl⟩
          · cases h
        · cases h
  | never => intro bs v rest h; simp [deVal] at h
  | result a b iha ihb =>
    intro bs v rest h
    simp only [deVal] at h
    split at h
    · cases h
    · rename_i tag r heq
      have h1 := pop_prefix heq
      split at h
      · split at h
        · rename_i w r' heq'
          simp only [Except.ok.injEq, Prod.mk.injEq] at h
          obtain ⟨u, hu⟩ := iha _ _ _ heq'
          exact ⟨tag :: u, by rw [h1, hu, h.2]; rfl⟩
        · cases h
      · split at h
        · split at h
          · rename_i w r' heq'
            simp only [Except.ok.injEq, Prod.mk.injEq] at h
            obtain ⟨u, hu⟩ := ihb _ _ _ heq'
            exact ⟨tag :: u, by rw [h1, hu, h.2]; rfl⟩
          · cases h
        · cases h

theorem deFields_prefix (f : Ty → Bytes → DeRes) (hf : ∀ t, PrefixOK (f t)) :
    ∀ items acc, PrefixOK (deFields f items acc) := by
  intro items
  induction items with
  | nil => intro acc bs v rest h; simp [deFields] at h; exact ⟨[], by simp [h.2]⟩
  | cons a items ih =>
    intro acc bs v rest h
    obtain ⟨n, t⟩ := a
    simp only [deFields] at h
    split at h
    · rename_i w r heq
      obtain ⟨u1, hu1⟩ := hf t _ _ _ heq
      obtain ⟨u2, hu2⟩ := ih _ _ _ _ h
      exact ⟨u1 ++ u2, by rw [hu1, hu2, List.append_assoc]⟩
    · cases h

theorem deStruct_prefix (ds : List StructDef) (es : List EnumDef) :
    ∀ fuel n, PrefixOK (deStruct ds es fuel n) := by
  intro fuel
  induction fuel with
  | zero =>
    intro n bs v rest h
    rw [deStruct] at h
    split at h <;> cases h
  | succ fuel ih =>
    intro n bs v rest h
    rw [deStruct] at h
    split at h
    · cases h
    · rename_i items hfind
      simp only at h
      split at h
      · rename_i fs r heq
        simp only [Except.ok.injEq, Prod.mk.injEq] at h
        obtain ⟨u, hu⟩ := deFields_prefix _ (deVal_prefix es _ ih) items [] _ _ _ heq
        exact ⟨u, by rw [hu, h.2]⟩
      · cases h

/-! ## acyclic definitions bound the nesting depth -/

def tyRank (rank : Nat → Nat) : Ty → Nat
  | .struct n => rank n + 1
  | .optional t => tyRank rank t
  | .result a b => max (tyRank rank a) (tyRank rank b)
  | _ => 0

/-- what the compiler's topological sort guarantees: a rank function that strictly decreases
along "struct `n` has a field whose type mentions struct `m`" -/
def Acyclic (ds : List StructDef) (rank : Nat → Nat) : Prop :=
  ∀ n items, findStruct ds n = some items → ∀ f t, (f, t) ∈ items → tyRank rank t ≤ rank n

mutual
theorem sdepth_le (ds : List StructDef) (es : List EnumDef) (rank : Nat → Nat)
    (hA : Acyclic ds rank) :
    (v : Val) → ∀ (t : Ty), fits ds es v t = true → sdepth v ≤ tyRank rank t
  | .unit, _, _ => by simp [sdepth]
  | .int _, _, _ => by simp [sdepth]
  | .bool _, _, _ => by simp [sdepth]
  | .string _, _, _ => by simp [sdepth]
  | .bytes _, _, _ => by simp [sdepth]
  | .id _, _, _ => by simp [sdepth]
  | .enum _ _, _, _ => by simp [sdepth]
  | .none, _, _ => by simp [sdepth]
  | .internal, _, _ => by simp [sdepth]
  | .some v, t, hf => by
    cases t <;> simp [fits] at hf
    simp only [sdepth, tyRank]
    exact sdepth_le ds es rank hA v _ hf
  | .ok v, t, hf => by
    cases t <;> simp [fits] at hf
    simp only [sdepth, tyRank]
    have := sdepth_le ds es rank hA v _ hf
    omega
  | .err v, t, hf => by
    cases t <;> simp [fits] at hf
    simp only [sdepth, tyRank]
    have := sdepth_le ds es rank hA v _ hf
    omega
  | .struct n fs, t, hf => by
    cases t <;> simp [fits] at hf
    obtain ⟨hnm, hrest⟩ := hf
    subst hnm
    cases hfind : findStruct ds n with
    | none => simp [hfind] at hrest
    | some items =>
      simp [hfind] at hrest
      simp only [sdepth, tyRank]
      have := sdepthFields_le ds es rank hA fs items (rank n) hrest.2
        (fun f t hm => hA n items hfind f t hm)
      omega
theorem sdepthFields_le (ds : List StructDef) (es : List EnumDef) (rank : Nat → Nat)
    (hA : Acyclic ds rank) :
    (fs : List (Nat × Val)) → ∀ (items : List (Nat × Ty)) (B : Nat),
      fitsFields ds es fs items = true → (∀ f t, (f, t) ∈ items → tyRank rank t ≤ B) →
      sdepthFields fs ≤ B
  | [], _, _, _, _ => by simp [sdepthFields]
  | (k, v) :: rest, items, B, hf, hB => by
    simp only [fitsFields, Bool.and_eq_true] at hf
    simp only [sdepthFields]
    have h2 := sdepthFields_le ds es rank hA rest items B hf.2 hB
    cases hl : lookup items k with
    | none => simp [hl] at hf
    | some t =>
      simp only [hl] at hf
      have h1 := sdepth_le ds es rank hA v t hf.1
      have h3 := hB k t (lookup_mem _ _ _ hl)
      omega
end

/-! ## soundness: whatever the deserializer accepts matches its type -/

theorem bytesDec_len {bs s rest : Bytes} (h : bytesDec bs = .ok (s, rest)) : s.length < 2 ^ 64 := by
  unfold bytesDec at h
  split at h
  · rename_i n r heq
    have := varintDec64_lt heq
    obtain ⟨_, hl⟩ := takeN_prefix h
    omega
  · cases h

theorem length_insertField_new (m : List (Nat × Val)) (k : Nat) (v : Val) (h : k ∉ keys m) :
    (insertField m k v).length = m.length + 1 := by
  induction m with
  | nil => simp [insertField]
  | cons a m ih =>
    obtain ⟨k', w⟩ := a
    simp only [keys, List.map_cons, List.mem_cons, not_or] at h
    simp only [insertField]
    split
    · simp
    · split
      · rename_i h1 h2; exact absurd h2 h.1
      · simp only [List.length_cons]
        rw [ih (by simpa [keys] using h.2)]

theorem fitsFields_insert (ds : List StructDef) (es : List EnumDef) (items : List (Nat × Ty))
    (n : Nat) (t : Ty) (v : Val) (hl : lookup items n = some t) (hv : fits ds es v t = true) :
    ∀ (acc : List (Nat × Val)), fitsFields ds es acc items = true →
      fitsFields ds es (insertField acc n v) items = true := by
  intro acc
  induction acc with
  | nil => intro _; simp [insertField, fitsFields, hl, hv]
  | cons a acc ih =>
    intro h
    obtain ⟨k, w⟩ := a
    simp only [fitsFields, Bool.and_eq_true] at h
    simp only [insertField]
    split
    · simp only [fitsFields, Bool.and_eq_true, hl, hv, true_and]
      exact h
    · split
      · rename_i h1 h2
        subst h2
        simp only [fitsFields, Bool.and_eq_true, hl, hv, true_and]
        exact h.2
      · simp only [fitsFields, Bool.and_eq_true]
        exact ⟨h.1, ih h.2⟩

theorem lookup_insert_isSome (m : List (Nat × Val)) (n : Nat) (v : Val) (k : Nat)
    (h : (lookup m k).isSome = true ∨ k = n) : (lookup (insertField m n v) k).isSome = true := by
  rw [lookup_insertField]
  split
  · rfl
  · rename_i hne
    rcases h with h | h
    · exact h
    · exact absurd h.symm hne

theorem not_mem_keys_of_lookup_none {α : Type} (m : List (Nat × α)) (k : Nat)
    (h : k ∈ keys m) : (lookup m k).isSome = true := lookup_isSome_of_mem_keys m k h

/-- the field loop, started from a sorted accumulator whose keys are disjoint from the (distinct)
remaining field names, produces a sorted map with one entry per field, all fitting -/
theorem deFields_sound (ds : List StructDef) (es : List EnumDef) (all : List (Nat × Ty))
    (f : Ty → Bytes → DeRes)
    (hf : ∀ t bs v rest, f t bs = .ok (v, rest) → fits ds es v t = true) :
    ∀ (its : List (Nat × Ty)) (acc : List (Nat × Val)) (bs : Bytes) (fs : List (Nat × Val))
      (rest : Bytes),
      (keys its).Nodup → (∀ k ∈ keys its, k ∉ keys acc) →
      (∀ n t, (n, t) ∈ its → lookup all n = some t) →
      Sorted acc → fitsFields ds es acc all = true →
      deFields f its acc bs = .ok (fs, rest) →
      Sorted fs ∧ fs.length = acc.length + its.length ∧ fitsFields ds es fs all = true ∧
      (∀ k, (lookup acc k).isSome = true → (lookup fs k).isSome = true) ∧
      (∀ k ∈ keys its, (lookup fs k).isSome = true) := by
  intro its
  induction its with
  | nil =>
    intro acc bs fs rest _ _ _ hs hfit h
    simp only [deFields, Except.ok.injEq, Prod.mk.injEq] at h
    obtain ⟨rfl, _⟩ := h
    exact ⟨hs, by simp, hfit, fun _ hk => hk, by simp [keys]⟩
  | cons a its ih =>
    intro acc bs fs rest hnd hdisj hall hs hfit h
    obtain ⟨n, t⟩ := a
    simp only [keys, List.map_cons, List.nodup_cons] at hnd
    simp only [deFields] at h
    split at h
    · rename_i v r heq
      have hv := hf t bs v r heq
      have hn_acc : n ∉ keys acc := hdisj n (by simp [keys])
      have hlt := hall n t (by simp)
      have := ih (insertField acc n v) r fs rest hnd.2
        (by
          intro k hk hk'
          rcases (keys_insertField acc n v k).mp hk' with e | e
          · subst e; exact hnd.1 hk
          · exact hdisj k (by simp only [keys, List.map_cons, List.mem_cons]; exact Or.inr hk) e)
        (fun n' t' hm => hall n' t' (List.mem_cons_of_mem _ hm))
        (insertField_sorted acc n v hs)
        (fitsFields_insert ds es all n t v hlt hv acc hfit) h
      obtain ⟨h1, h2, h3, h4, h5⟩ := this
      refine ⟨h1, ?_, h3, ?_, ?_⟩
      · rw [h2, length_insertField_new acc n v hn_acc]; simp; omega
      · intro k hk
        exact h4 k (lookup_insert_isSome acc n v k (Or.inl hk))
      · intro k hk
        simp only [keys, List.map_cons, List.mem_cons] at hk
        rcases hk with e | e
        · subst e; exact h4 _ (lookup_insert_isSome acc _ v _ (Or.inr rfl))
        · exact h5 k e
    · cases h

/-- schema well-formedness needed for soundness: field names of a definition are distinct (what
the compiler guarantees) -/
def WFDefs (ds : List StructDef) : Prop :=
  ∀ n items, findStruct ds n = some items → (keys items).Nodup

theorem deVal_sound (ds : List StructDef) (es : List EnumDef) (sd : Nat → Bytes → DeRes)
    (hsd : ∀ n bs v rest, sd n bs = .ok (v, rest) → fits ds es v (.struct n) = true) :
    ∀ t bs v rest, deVal es sd t bs = .ok (v, rest) → fits ds es v t = true := by
  intro t
  induction t with
  | unit => intro bs v rest h; simp [deVal] at h; simp [← h.1, fits]
  | string =>
    intro bs v rest h
    simp only [deVal] at h
    split at h
    · cases h
    · rename_i s r heq
      split at h
      · rename_i hc
        simp only [Except.ok.injEq, Prod.mk.injEq] at h
        rw [← h.1]
        simp [fits, hc.1, hc.2, bytesDec_len heq]
      · cases h
  | bytes =>
    intro bs v rest h
    simp only [deVal] at h
    split at h
    · cases h
    · rename_i s r heq
      simp only [Except.ok.injEq, Prod.mk.injEq] at h
      rw [← h.1]
      simp [fits, bytesDec_len heq]
  | int =>
    intro bs v rest h
    simp only [deVal] at h
    split at h
    · cases h
    · rename_i x r heq
      simp only [Except.ok.injEq, Prod.mk.injEq] at h
      rw [← h.1]
      simp [fits, i64Dec_inI64 heq]
  | bool =>
    intro bs v rest h
    simp only [deVal] at h
    split at h
    · cases h
    · simp only [Except.ok.injEq, Prod.mk.injEq] at h
      rw [← h.1]; simp [fits]
  | id =>
    intro bs v rest h
    simp only [deVal] at h
    split at h
    · cases h
    · split at h
      · cases h
      · split at h
        · cases h
        · rename_i x r' heq'
          simp only [Except.ok.injEq, Prod.mk.injEq] at h
          obtain ⟨_, hl⟩ := takeN_prefix heq'
          rw [← h.1]; simp [fits, hl]
  | struct n => intro bs v rest h; exact hsd n bs v rest h
  | enum n =>
    intro bs v rest h
    simp only [deVal] at h
    split at h
    · cases h
    · rename_i vs hfe
      split at h
      · cases h
      · rename_i x r heq
        split at h
        · rename_i hmem
          simp only [Except.ok.injEq, Prod.mk.injEq] at h
          rw [← h.1]
          simp [fits, hfe, hmem, i64Dec_inI64 heq]
        · cases h
  | optional t ih =>
    intro bs v rest h
    simp only [deVal] at h
    split at h
    · cases h
    · split at h
      · simp only [Except.ok.injEq, Prod.mk.injEq] at h
        rw [← h.1]; simp [fits]
      · split at h
        · split at h
          · rename_i w r' heq'
            simp only [Except.ok.injEq, Prod.mk.injEq] at h
            rw [← h.1]; simp only [fits]
            exact ih _ _ _ heq'
          · cases h
        · cases h
  | never => intro bs v rest h; simp [deVal] at h
  | result a b iha ihb =>
    intro bs v rest h
    simp only [deVal] at h
    split at h
    · cases h
    · split at h
      · split at h
        · rename_i w r' heq'
          simp only [Except.ok.injEq, Prod.mk.injEq] at h
          rw [← h.1]; simp only [fits]
          exact iha _ _ _ heq'
        · cases h
      · split at h
        · split at h
          · rename_i w r' heq'
            simp only [Except.ok.injEq, Prod.mk.injEq] at h
            rw [← h.1]; simp only [fits]
            exact ihb _ _ _ heq'
          · cases h
        · cases h

theorem deStruct_sound (ds : List StructDef) (es : List EnumDef) (hwf : WFDefs ds) :
    ∀ fuel n bs v rest, deStruct ds es fuel n bs = .ok (v, rest) →
      fits ds es v (.struct n) = true := by
  intro fuel
  induction fuel with
  | zero =>
    intro n bs v rest h
    rw [deStruct] at h
    split at h <;> cases h
  | succ fuel ih =>
    intro n bs v rest h
    cases hfind : findStruct ds n with
    | none => rw [deStruct] at h; simp [hfind] at h
    | some items =>
      rw [deStruct_succ ds es fuel n bs items hfind] at h
      split at h
      · rename_i fs r heq
        simp only [Except.ok.injEq, Prod.mk.injEq] at h
        have hnd := hwf n items hfind
        have := deFields_sound ds es items (deVal es (deStruct ds es fuel))
          (deVal_sound ds es _ ih) items [] bs fs r hnd (by simp [keys])
          (fun n' t' hm => lookup_of_mem_nodup items n' t' hnd hm)
          (by simp [Sorted, keys]) (by simp [fitsFields]) heq
        obtain ⟨h1, h2, h3, _, h5⟩ := this
        rw [← h.1]
        simp only [fits, hfind, decide_true, Bool.true_and, Bool.and_eq_true, decide_eq_true_eq,
          List.all_eq_true]
        refine ⟨⟨⟨⟨h1, hnd⟩, by simp at h2; omega⟩, ?_⟩, h3⟩
        intro k hk
        exact h5 k hk
      · cases h

end AranyaV.Serialize
