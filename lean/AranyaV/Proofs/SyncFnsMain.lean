import AranyaV.Proofs.SyncFns
import AranyaV.Props.C11
/-! `find_needed_segments` as a whole: what its result is made of (`findNeeded_spec`), the closure
property the parents-first theorem needs (`fns_toSendOK`). -/
namespace AranyaV.Sync
open AranyaV.Queue AranyaV.Segments

theorem resolve_spec {s : Store} {heads : List Loc} : ∀ {cmds : List Addr} {locs : List Loc},
    resolve s heads cmds = .ok locs →
    ∀ l ∈ locs, ∃ a ∈ cmds, getLocation s heads a = .ok (some l) := by
  intro cmds
  induction cmds with
  | nil => intro locs h l hl; simp [resolve] at h; subst h; cases hl
  | cons a as ih =>
    intro locs h l hl
    unfold resolve at h
    cases hg : getLocation s heads a with
    | error e => rw [hg] at h; cases h
    | ok r =>
      rw [hg] at h
      simp only at h
      cases hr : resolve s heads as with
      | error e => rw [hr] at h; cases h
      | ok ls =>
        rw [hr] at h
        simp only [Except.ok.injEq] at h
        subst h
        rcases List.mem_append.mp hl with h1 | h1
        · cases r with
          | none => simp at h1
          | some x =>
            simp at h1; subst h1
            exact ⟨a, List.mem_cons_self .., hg⟩
        · obtain ⟨a', ha', he⟩ := ih hr l h1
          exact ⟨a', List.mem_cons_of_mem _ ha', he⟩

theorem resolve_complete {s : Store} {heads : List Loc} : ∀ {cmds : List Addr} {locs : List Loc},
    resolve s heads cmds = .ok locs →
    ∀ a ∈ cmds, ∀ x, getLocation s heads a = .ok (some x) → x ∈ locs := by
  intro cmds
  induction cmds with
  | nil => intro locs _ a ha; cases ha
  | cons a0 as ih =>
    intro locs h a ha x hx
    unfold resolve at h
    cases hg : getLocation s heads a0 with
    | error e => rw [hg] at h; cases h
    | ok r =>
      rw [hg] at h
      simp only at h
      cases hr : resolve s heads as with
      | error e => rw [hr] at h; cases h
      | ok ls =>
        rw [hr] at h
        simp only [Except.ok.injEq] at h
        subst h
        rcases List.mem_cons.mp ha with rfl | ha'
        · rw [hx] at hg
          simp only [Except.ok.injEq] at hg
          subst hg
          simp
        · exact List.mem_append_right _ (ih hr a ha' x hx)

theorem insertDesc_head_ge {x : Loc} {l : List Loc} (hl : ∀ y ∈ l, y.mc ≤ headMc l) :
    ∀ y ∈ insertDesc x l, y.mc ≤ headMc (insertDesc x l) := by
  intro y hy
  cases l with
  | nil =>
    simp [insertDesc] at hy; subst hy; simp [insertDesc, headMc]
  | cons z zs =>
    unfold insertDesc at hy ⊢
    by_cases h : z.mc < x.mc
    · rw [if_pos h] at hy ⊢
      simp only [headMc]
      rcases List.mem_cons.mp hy with rfl | hy'
      · exact Nat.le_refl _
      · have := hl y hy'; simp only [headMc] at this; omega
    · rw [if_neg h] at hy ⊢
      simp only [headMc]
      rcases List.mem_cons.mp hy with rfl | hy'
      · exact Nat.le_refl _
      · rcases mem_insertDesc.mp hy' with rfl | h2
        · omega
        · have := hl y (List.mem_cons_of_mem _ h2); simp only [headMc] at this; exact this

/-- after the descending sort the first element carries the highest max cut -/
theorem headMc_sortDesc_ge (l : List Loc) : ∀ h ∈ sortDesc l, h.mc ≤ headMc (sortDesc l) := by
  have key : ∀ (l acc : List Loc), (∀ y ∈ acc, y.mc ≤ headMc acc) →
      ∀ y ∈ l.foldl (fun acc x => insertDesc x acc) acc,
        y.mc ≤ headMc (l.foldl (fun acc x => insertDesc x acc) acc) := by
    intro l
    induction l with
    | nil => intro acc h; exact h
    | cons x xs ih => intro acc h; exact ih _ (insertDesc_head_ge h)
  exact key l [] (fun y hy => by cases hy)

/-- the pieces `find_needed_segments`' result is made of -/
structure FnsParts (s : Store) (lim : Limits) (heads : List Loc) (commands : List Addr)
    (ts haves sts F K : List Loc) : Prop where
  haves_ok : ∀ h ∈ haves, s.valid h = true ∧ ∃ a ∈ commands, getLocation s heads a = .ok (some h)
  haves_all : ∀ a ∈ commands, ∀ x, getLocation s heads a = .ok (some x) → x ∈ haves
  head_max : ∀ h ∈ haves, h.mc ≤ headMc haves
  starts_ok : ∀ x ∈ sts, s.valid x = true ∧
    ∃ h ∈ heads, skipJump s h (headMc haves + lim.segmentMax) = .ok x
  starts_all : ∀ h ∈ heads, ∃ x ∈ sts, skipJump s h (headMc haves + lim.segmentMax) = .ok x
  just : ∀ e ∈ F, Just s haves e ∧ FirstReach s sts e
  complete : ∀ l, s.valid l = true → Reach s sts l →
    Cov s haves l ∨ ∃ e ∈ F, e.seg = l.seg ∧ e.mc ≤ l.mc
  kept : Kept lim.segmentMax F K
  sorted : ts = sortLoc K

theorem findNeeded_spec {s : Store} (hwf : WF s) {lim : Limits} {heads : List Loc}
    {commands : List Addr} {ts : List Loc} (hh : ∀ h ∈ heads, s.valid h = true)
    (h : findNeeded lim s heads commands = .ok ts) :
    ∃ haves sts F K : List Loc, FnsParts s lim heads commands ts haves sts F K := by
  unfold findNeeded findNeededG at h
  by_cases hlen : commands.length > lim.sampleMax
  · rw [if_pos hlen] at h; cases h
  · rw [if_neg hlen] at h
    cases hres : resolve s heads commands with
    | error e => rw [hres] at h; cases h
    | ok locs =>
      rw [hres] at h
      simp only at h
      have hlocs := resolve_spec hres
      -- the have-locations are command locations
      have hlv : ∀ l ∈ locs, s.valid l = true := by
        intro l hl
        obtain ⟨a, _, hg⟩ := hlocs l hl
        obtain ⟨r, hr, h1, _⟩ := search_exact hwf heads hh a
        rw [hg] at hr
        simp only [Except.ok.injEq] at hr
        exact cmdAt_valid (h1 l hr.symm).1.1
      have hhv : ∀ x ∈ sortDesc locs, s.valid x = true := fun x hx => hlv x (mem_sortDesc.mp hx)
      cases hseed : seedHeads specOps s (headMc (sortDesc locs) + lim.segmentMax) heads specOps.empty with
      | error e => rw [hseed] at h; cases h
      | ok hq =>
        rw [hseed] at h
        simp only at h
        obtain ⟨sts, e1, e2, e3⟩ := seedHeads_spec s _ heads _ _ hseed
        have hsv : ∀ x ∈ sts, s.valid x = true := by
          intro x hx
          obtain ⟨h0, hh0, hsj⟩ := e2 x hx
          exact (skipJump_spec hwf (hh h0 hh0) hsj).1
        have hinv0 : Inv s (sortDesc locs) sts hq Queue.new [] (sortDesc locs) := by
          rw [e1]; exact seed_inv hsv
        cases hloop : fnsLoop specOps lim.segmentMax s s.fuel
            ⟨hq, specOps.empty, [], none, sortDesc locs⟩ with
        | error e => rw [hloop] at h; cases h
        | ok st =>
          rw [hloop] at h
          simp only [Except.ok.injEq] at h
          obtain ⟨F', hi, hk, hfin⟩ := fnsLoop_inv hwf hhv lim.segmentMax s.fuel _ st [] hinv0
            (kept_nil _) hloop
          have hda := drainAll_lookup hi.pq1
          refine ⟨sortDesc locs, sts, F' ++ st.pq.drainAll.1,
            st.pq.drainAll.1.foldl (pushBounded lim.segmentMax) st.coll, ?_, ?_, ?_, ?_, ?_, ?_, ?_, ?_, ?_⟩
          · intro x hx
            have hxl := mem_sortDesc.mp hx
            exact ⟨hlv x hxl, hlocs x hxl⟩
          · intro a ha x hx
            exact mem_sortDesc.mpr (resolve_complete hres a ha x hx)
          · exact headMc_sortDesc_ge locs
          · intro x hx
            exact ⟨hsv x hx, e2 x hx⟩
          · intro h0 hh0
            exact e3 h0 hh0
          · intro e he
            rcases List.mem_append.mp he with he | he
            · exact hi.fj e he
            · have := hi.pqu e.seg e.mc ((hda e).mp he)
              cases e; exact this
          · intro l hl hr
            rcases hi.reach l hl hr with hc | ⟨e, he, h1, h2⟩ | ⟨m, h1, h2⟩ | ⟨S, m, c, h1, h2⟩
            · exact Or.inl hc
            · exact Or.inr ⟨e, List.mem_append_left _ he, h1, h2⟩
            · right
              refine ⟨⟨m, l.seg⟩, List.mem_append_right _ ((hda ⟨m, l.seg⟩).mpr h1), rfl, h2⟩
            · left
              cases c with
              | false => exact absurd h1 (hfin S m)
              | true => exact ((hi.hqv S m true h1).2.2 rfl).down h2
          · exact kept_fold _ hk
          · rw [← h]
            rfl

end AranyaV.Sync

namespace AranyaV.Sync
open AranyaV.Queue AranyaV.Segments

/-- **`find_needed_segments` produces a list with the closure property** `ToSendOK` relative to the
ancestors-or-self of the resolved sample: on a well-formed store, every entry points into its
segment, the predecessor of a mid-segment start is covered, and every prior of a whole segment is
covered or lies in the range of an earlier entry. -/
theorem fns_toSendOK_of_parts {s : Store} (hwf : WF s) {lim : Limits} {heads : List Loc}
    {commands : List Addr} {ts haves sts F K : List Loc}
    (hp : FnsParts s lim heads commands ts haves sts F K) :
    ToSendOK s (Cov s haves) ts := by
  intro k e hk
  have hsorted := sortLoc_sorted K
  rw [← hp.sorted] at hsorted
  have heK : e ∈ K := by
    have : e ∈ ts := List.mem_of_getElem? hk
    rw [hp.sorted] at this; exact mem_sortLoc.mp this
  have heF := hp.kept.sub e heK
  obtain ⟨hj, hfr⟩ := hp.just e heF
  obtain ⟨g, hg, h1, h2, h3⟩ := hj
  refine ⟨⟨g, hg, h1⟩, ?_⟩
  intro p hpar
  obtain ⟨g', hg', _, _, hcase⟩ := mem_parents hpar
  rw [hg] at hg'; cases hg'
  rcases hcase with ⟨hlt, rfl⟩ | ⟨heq, hpm⟩
  · rcases h3 with h3 | h3
    · omega
    · exact Or.inl h3
  · have hpos : 0 < g.ids.length := by omega
    have hre : Reach s sts e := hfr g hg heq
    have hpv := (hwf.priors _ g hg p hpm)
    have hanc : AncS s p e := by
      have := prior_anc hg hpos hpm
      have he : (⟨g.first, e.seg⟩ : Loc) = e := by cases e; simp at heq ⊢; exact heq.symm
      rw [he] at this; exact this
    rcases hp.complete p hpv.1 (hre.down hanc) with hc | ⟨e', he', hs', hm'⟩
    · exact Or.inl hc
    · right
      have hlt : e'.mc < e.mc := by omega
      have he'K : e' ∈ K := hp.kept.low e heK e' he' hlt
      have he'ts : e' ∈ ts := by rw [hp.sorted]; exact mem_sortLoc.mpr he'K
      obtain ⟨k', hk', hke'⟩ := sorted_index_lt hsorted hk he'ts hlt
      exact ⟨k', e', hk', hke', hs', hm', hpv.1⟩

theorem fns_toSendOK {s : Store} (hwf : WF s) {lim : Limits} {heads : List Loc}
    {commands : List Addr} {ts : List Loc} (hh : ∀ h ∈ heads, s.valid h = true)
    (h : findNeeded lim s heads commands = .ok ts) :
    ∃ haves : List Loc,
      (∀ x ∈ haves, s.valid x = true ∧ ∃ a ∈ commands, getLocation s heads a = .ok (some x)) ∧
      ToSendOK s (Cov s haves) ts := by
  obtain ⟨haves, sts, F, K, hp⟩ := findNeeded_spec hwf hh h
  exact ⟨haves, hp.haves_ok, fns_toSendOK_of_parts hwf hp⟩

/-! ## progress -/

theorem skipJumpLoop_mc (s : Store) (target : Nat) (head : Loc) :
    ∀ (n : Nat) (cur r : Loc), (cur = head ∨ target ≤ cur.mc) →
      skipJumpLoop s target n cur = .ok r → r = head ∨ target ≤ r.mc := by
  intro n
  induction n with
  | zero => intro cur r _ h; simp [skipJumpLoop] at h
  | succ n ih =>
    intro cur r hc h
    unfold skipJumpLoop at h
    cases hg : s.seg? cur.seg with
    | none => rw [hg] at h; cases h
    | some g =>
      rw [hg] at h
      simp only at h
      cases hm : minByMc (g.skips.filter (fun k => decide (target ≤ k.mc ∧ k.mc < cur.mc))) with
      | some k =>
        rw [hm] at h
        simp only at h
        have hk := (List.mem_filter.mp (minByMc_mem' hm)).2
        simp only [decide_eq_true_eq] at hk
        exact ih k r (Or.inr hk.1) h
      | none =>
        rw [hm] at h
        simp only at h
        by_cases hb : priorBelow g.prior target = true
        · rw [if_pos hb] at h
          simp only [Except.ok.injEq] at h
          subst h; exact hc
        · rw [if_neg hb] at h
          cases hp : g.prior with
          | single p =>
            rw [hp] at h hb
            simp only at h
            have : target ≤ p.mc := by
              simp only [priorBelow, decide_eq_true_eq, Nat.not_lt] at hb; exact hb
            exact ih p r (Or.inr this) h
          | none =>
            rw [hp] at h
            simp only [Except.ok.injEq] at h
            subst h; exact hc
          | merge a b =>
            rw [hp] at h
            simp only [Except.ok.injEq] at h
            subst h; exact hc

theorem skipJump_mc {s : Store} {head r : Loc} {target : Nat}
    (h : skipJump s head target = .ok r) : r = head ∨ target ≤ r.mc := by
  unfold skipJump at h
  by_cases hle : head.mc ≤ target
  · rw [if_pos hle] at h
    simp only [Except.ok.injEq] at h
    exact Or.inl h.symm
  · rw [if_neg hle] at h
    exact skipJumpLoop_mc s target head _ head r (Or.inl rfl) h

theorem length_insertLoc (x : Loc) (l : List Loc) : (insertLoc x l).length = l.length + 1 := by
  induction l with
  | nil => simp [insertLoc]
  | cons z zs ih =>
    unfold insertLoc
    by_cases h : x.ble z = true
    · rw [if_pos h]; simp
    · rw [if_neg h]; simp [ih]

theorem length_sortLoc (l : List Loc) : (sortLoc l).length = l.length := by
  unfold sortLoc
  induction l with
  | nil => rfl
  | cons x xs ih => simp only [List.foldr, length_insertLoc, ih, List.length_cons]

theorem closed_ancS {s : Store} {A : List Loc} (hA : ∀ b ∈ A, ∀ p ∈ s.parents b, p ∈ A)
    {a b : Loc} (h : AncS s a b) (hb : b ∈ A) : a ∈ A := by
  induction h with
  | refl => exact hb
  | step _ hm ih => exact ih (hA _ hb _ hm)

/-- **Progress of `find_needed_segments`.**  `A` = the command locations of the responder's store
whose command the requester holds (parents-closed, contains the resolved sample, and its highest
max cut is sampled).  If every command of the store is an ancestor-or-self of a head and the
requester lacks one, then the stream of the result contains a command the requester lacks —
unless the buffer of `SEGMENT_BUFFER_MAX` entries is completely filled with entries the requester
holds entirely. -/
theorem fns_progress_of_parts {s : Store} {lim : Limits} (hcap : 1 ≤ lim.segmentMax)
    {heads : List Loc} {commands : List Addr} {ts haves sts F K : List Loc}
    (hp : FnsParts s lim heads commands ts haves sts F K)
    (hh : ∀ h ∈ heads, s.valid h = true)
    (A : List Loc) (hA : ∀ b ∈ A, ∀ p ∈ s.parents b, p ∈ A) (hhA : ∀ h ∈ haves, h ∈ A)
    (hmax : ∀ l ∈ A, l.mc ≤ headMc haves)
    (hcommitted : ∀ l, s.valid l = true → ∃ h ∈ heads, AncS s l h)
    (hmiss : ∃ l, s.valid l = true ∧ l ∉ A) :
    (∃ l ∈ streamLocs s ts, l ∉ A) ∨
    (ts.length = lim.segmentMax ∧ ∀ l ∈ streamLocs s ts, l ∈ A) := by
  -- a head the requester lacks, and the start the traversal was seeded with for it
  obtain ⟨l0, hl0, hl0A⟩ := hmiss
  obtain ⟨h0, hh0, hl0h⟩ := hcommitted l0 hl0
  have hh0A : h0 ∉ A := fun hin => hl0A (closed_ancS hA hl0h hin)
  obtain ⟨x, hx, hsj⟩ := hp.starts_all h0 hh0
  have hxA : x ∉ A := by
    rcases skipJump_mc hsj with rfl | hge
    · exact hh0A
    · intro hin
      have := hmax x hin
      omega
  have hxv := (hp.starts_ok x hx).1
  -- it is in the range of a flushed entry
  have hxF : ∃ e ∈ F, x ∈ entryLocs s e := by
    rcases hp.complete x hxv ⟨x, hx, AncS.refl _⟩ with ⟨h', hh', hanc⟩ | ⟨e, he, hs, hm⟩
    · exact absurd (closed_ancS hA hanc (hhA h' hh')) hxA
    · obtain ⟨g, hg, h1, _, _⟩ := (hp.just e he).1
      exact ⟨e, he, mem_entryLocs_of_valid hs hm hxv ⟨g, hg, h1⟩⟩
  obtain ⟨e, heF, hxe⟩ := hxF
  have hstream : ∀ e' ∈ K, ∀ l ∈ entryLocs s e', l ∈ streamLocs s ts := by
    intro e' he' l hl
    simp only [streamLocs, List.mem_flatMap]
    exact ⟨e', by rw [hp.sorted]; exact mem_sortLoc.mpr he', hl⟩
  by_cases heK : e ∈ K
  · exact Or.inl ⟨x, hstream e heK x hxe, hxA⟩
  · by_cases hex : ∃ l ∈ streamLocs s ts, l ∉ A
    · exact Or.inl hex
    · right
      refine ⟨?_, fun l hl => Classical.byContradiction fun hn => hex ⟨l, hl, hn⟩⟩
      have hfull : ¬ K.length < lim.segmentMax := fun hlt => heK (hp.kept.all hlt e heF)
      have := hp.kept.len
      rw [hp.sorted, length_sortLoc]
      omega

end AranyaV.Sync
