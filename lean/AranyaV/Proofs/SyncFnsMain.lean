import AranyaV.Proofs.SyncFns
import AranyaV.Props.C11
/-! `find_needed_segments` as a whole: what its result is made of (`findNeeded_spec`), the closure
property the parents-first theorem needs (`fns_toSendOK`). -/
namespace AranyaV.Sync
open AranyaV.Queue AranyaV.Segments

theorem resolve_spec {s : Store} {heads : List Loc} : ∀ {cmds : List Addr} {locs : List Loc},
    resolve s heads cmds = .ok locs →
    ∀ l ∈ locs, ∃ a ∈ cmds, getLocation s heads a = .ok (some l) := by
  intro cmds
  induction cmds with
  | nil => intro locs h l hl; simp [resolve] at h; subst h; cases hl
  | cons a as ih =>
    intro locs h l hl
    unfold resolve at h
    cases hg : getLocation s heads a with
    | error e => rw [hg] at h; cases h
    | ok r =>
      rw [hg] at h
      simp only at h
      cases hr : resolve s heads as with
      | error e => rw [hr] at h; cases h
      | ok ls =>
        rw [hr] at h
        simp only [Except.ok.injEq] at h
        subst h
        rcases List.mem_append.mp hl with h1 | h1
        · cases r with
          | none => simp at h1
          | some x =>
            simp at h1; subst h1
            exact ⟨a, List.mem_cons_self .., hg⟩
        · obtain ⟨a', ha', he⟩ := ih hr l h1
          exact ⟨a', List.mem_cons_of_mem _ ha', he⟩

theorem insertDesc_head_ge {x : Loc} {l : List Loc} (hl : ∀ y ∈ l, y.mc ≤ headMc l) :
    ∀ y ∈ insertDesc x l, y.mc ≤ headMc (insertDesc x l) := by
  intro y hy
  cases l with
  | nil =>
    simp [insertDesc] at hy; subst hy; simp [insertDesc, headMc]
  | cons z zs =>
    unfold insertDesc at hy ⊢
    by_cases h : z.mc < x.mc
    · rw [if_pos h] at hy ⊢
      simp only [headMc]
      rcases List.mem_cons.mp hy with rfl | hy'
      · exact Nat.le_refl _
      · have := hl y hy'; simp only [headMc] at this; omega
    · rw [if_neg h] at hy ⊢
      simp only [headMc]
      rcases List.mem_cons.mp hy with rfl | hy'
      · exact Nat.le_refl _
      · rcases mem_insertDesc.mp hy' with rfl | h2
        · omega
        · have := hl y (List.mem_cons_of_mem _ h2); simp only [headMc] at this; exact this

/-- after the descending sort the first element carries the highest max cut -/
theorem headMc_sortDesc_ge (l : List Loc) : ∀ h ∈ sortDesc l, h.mc ≤ headMc (sortDesc l) := by
  have key : ∀ (l acc : List Loc), (∀ y ∈ acc, y.mc ≤ headMc acc) →
      ∀ y ∈ l.foldl (fun acc x => insertDesc x acc) acc,
        y.mc ≤ headMc (l.foldl (fun acc x => insertDesc x acc) acc) := by
    intro l
    induction l with
    | nil => intro acc h; exact h
    | cons x xs ih => intro acc h; exact ih _ (insertDesc_head_ge h)
  exact key l [] (fun y hy => by cases hy)

/-- the pieces `find_needed_segments`' result is made of -/
structure FnsParts (s : Store) (lim : Limits) (heads : List Loc) (commands : List Addr)
    (ts haves sts F K : List Loc) : Prop where
  haves_ok : ∀ h ∈ haves, s.valid h = true ∧ ∃ a ∈ commands, getLocation s heads a = .ok (some h)
  starts_ok : ∀ x ∈ sts, s.valid x = true ∧
    ∃ h ∈ heads, skipJump s h (headMc haves + lim.segmentMax) = .ok x
  starts_all : ∀ h ∈ heads, ∃ x ∈ sts, skipJump s h (headMc haves + lim.segmentMax) = .ok x
  just : ∀ e ∈ F, Just s haves e ∧ FirstReach s sts e
  complete : ∀ l, s.valid l = true → Reach s sts l →
    Cov s haves l ∨ ∃ e ∈ F, e.seg = l.seg ∧ e.mc ≤ l.mc
  kept : Kept lim.segmentMax F K
  sorted : ts = sortLoc K

theorem findNeeded_spec {s : Store} (hwf : WF s) {lim : Limits} {heads : List Loc}
    {commands : List Addr} {ts : List Loc} (hh : ∀ h ∈ heads, s.valid h = true)
    (h : findNeeded lim s heads commands = .ok ts) :
    ∃ haves sts F K : List Loc, FnsParts s lim heads commands ts haves sts F K := by
  unfold findNeeded findNeededG at h
  by_cases hlen : commands.length > lim.sampleMax
  · rw [if_pos hlen] at h; cases h
  · rw [if_neg hlen] at h
    cases hres : resolve s heads commands with
    | error e => rw [hres] at h; cases h
    | ok locs =>
      rw [hres] at h
      simp only at h
      have hlocs := resolve_spec hres
      -- the have-locations are command locations
      have hlv : ∀ l ∈ locs, s.valid l = true := by
        intro l hl
        obtain ⟨a, _, hg⟩ := hlocs l hl
        obtain ⟨r, hr, h1, _⟩ := search_exact hwf heads hh a
        rw [hg] at hr
        simp only [Except.ok.injEq] at hr
        exact cmdAt_valid (h1 l hr.symm).1.1
      have hhv : ∀ x ∈ sortDesc locs, s.valid x = true := fun x hx => hlv x (mem_sortDesc.mp hx)
      cases hseed : seedHeads specOps s (headMc (sortDesc locs) + lim.segmentMax) heads specOps.empty with
      | error e => rw [hseed] at h; cases h
      | ok hq =>
        rw [hseed] at h
        simp only at h
        obtain ⟨sts, e1, e2, e3⟩ := seedHeads_spec s _ heads _ _ hseed
        have hsv : ∀ x ∈ sts, s.valid x = true := by
          intro x hx
          obtain ⟨h0, hh0, hsj⟩ := e2 x hx
          exact (skipJump_spec hwf (hh h0 hh0) hsj).1
        have hinv0 : Inv s (sortDesc locs) sts hq Queue.new [] (sortDesc locs) := by
          rw [e1]; exact seed_inv hsv
        cases hloop : fnsLoop specOps lim.segmentMax s s.fuel
            ⟨hq, specOps.empty, [], none, sortDesc locs⟩ with
        | error e => rw [hloop] at h; cases h
        | ok st =>
          rw [hloop] at h
          simp only [Except.ok.injEq] at h
          obtain ⟨F', hi, hk, hfin⟩ := fnsLoop_inv hwf hhv lim.segmentMax s.fuel _ st [] hinv0
            (kept_nil _) hloop
          have hda := drainAll_lookup hi.pq1
          refine ⟨sortDesc locs, sts, F' ++ st.pq.drainAll.1,
            st.pq.drainAll.1.foldl (pushBounded lim.segmentMax) st.coll, ?_, ?_, ?_, ?_, ?_, ?_, ?_⟩
          · intro x hx
            have hxl := mem_sortDesc.mp hx
            exact ⟨hlv x hxl, hlocs x hxl⟩
          · intro x hx
            exact ⟨hsv x hx, e2 x hx⟩
          · intro h0 hh0
            exact e3 h0 hh0
          · intro e he
            rcases List.mem_append.mp he with he | he
            · exact hi.fj e he
            · have := hi.pqu e.seg e.mc ((hda e).mp he)
              cases e; exact this
          · intro l hl hr
            rcases hi.reach l hl hr with hc | ⟨e, he, h1, h2⟩ | ⟨m, h1, h2⟩ | ⟨S, m, c, h1, h2⟩
            · exact Or.inl hc
            · exact Or.inr ⟨e, List.mem_append_left _ he, h1, h2⟩
            · right
              refine ⟨⟨m, l.seg⟩, List.mem_append_right _ ((hda ⟨m, l.seg⟩).mpr h1), rfl, h2⟩
            · left
              cases c with
              | false => exact absurd h1 (hfin S m)
              | true => exact ((hi.hqv S m true h1).2.2 rfl).down h2
          · exact kept_fold _ hk
          · rw [← h]
            rfl

end AranyaV.Sync
