import AranyaV.Proofs.DiskFault
/-!
`Bounded` discharged (C15): the per-root machine-type bounds follow by induction over the run
from four physical bounds — the checksum is a `u64`, the fact-cache offsets passed to `commit`
are `u64`s, the number of commits stays below `2^64` and the file stays below `2^63` bytes.
-/
namespace AranyaV.Disk
open AranyaV.Wire

/-- the checksum function returns a `u64` -/
def CkRange (ck : Checksum) : Prop := ∀ g h f fr, ck g h f fr < 2 ^ 64

/-- number of `commit` calls -/
def nCommits : List Call → Nat
  | [] => 0
  | .commit _ _ _ :: cs => nCommits cs + 1
  | .append _ _ :: cs => nCommits cs

/-- bytes the calls append (each item with its 4-byte length prefix) -/
def totalBytes : List Call → Nat
  | [] => 0
  | .commit h _ _ :: cs => 4 + h.length + totalBytes cs
  | .append b _ :: cs => 4 + b.length + totalBytes cs

/-- every fact-cache offset passed to `commit` is a `u64` -/
def FactsU64 : List Call → Prop
  | [] => True
  | .commit _ _ fact :: cs => fact < 2 ^ 64 ∧ FactsU64 cs
  | .append _ _ :: cs => FactsU64 cs

variable {L : Layout} {ck : Checksum}

theorem step_gen (L : Layout) (ck : Checksum) (w : Writer) (c : Call) :
    (w.step L ck c).1.root.gen = w.root.gen + nCommits [c] := by
  cases c with
  | append b refs => simp only [Writer.step, appendAt_root, nCommits, Nat.add_zero]
  | commit h refs fact => simp only [Writer.step, commit_root, commitRoot, nCommits, Nat.zero_add]

/-- **bounded_of_limits**: `Bounded` is an invariant of every run that respects the four physical
bounds -/
theorem bounded_of_limits (hck : CkRange ck) :
    ∀ (calls : List Call) (w : Writer), 0 ≤ w.root.free →
      w.root.gen + nCommits calls < 2 ^ 64 → w.root.free.toNat + totalBytes calls < 2 ^ 63 →
      FactsU64 calls → Bounded L ck w calls := by
  intro calls
  induction calls with
  | nil => intro w _ _ _ _; trivial
  | cons c cs ih =>
    intro w hnn hg hb hf
    have hfree := step_free L ck w c
    have hgen := step_gen L ck w c
    cases c with
    | append b refs =>
      refine ⟨trivial, ih _ ?_ ?_ ?_ hf⟩
      · rw [hfree]; omega
      · rw [hgen]; simp only [nCommits] at hg ⊢; omega
      · rw [hfree]; simp only [Call.toRec, totalBytes, Int.toNat_natCast] at hb ⊢; omega
    | commit h refs fact =>
      simp only [nCommits, totalBytes, FactsU64] at hg hb hf
      refine ⟨?_, ih _ ?_ ?_ ?_ hf.2⟩
      · show Root.Bounded _
        rw [commit_root]
        refine ⟨?_, ?_, ?_, ?_, hck _ _ _ _⟩
        · simp only [commitRoot]; omega
        · intro v hv; simp only [commitRoot, Option.some.injEq] at hv; omega
        · intro v hv; simp only [commitRoot, Option.some.injEq] at hv; omega
        · simp only [commitRoot, inI64]; omega
      · rw [hfree]; omega
      · rw [hgen]; simp only [nCommits]; omega
      · rw [hfree]; simp only [Call.toRec, Int.toNat_natCast]; omega

end AranyaV.Disk
