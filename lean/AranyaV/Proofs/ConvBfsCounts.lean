import AranyaV.Proofs.ConvBfs
import AranyaV.Proofs.StoreGraphBuild
import AranyaV.Proofs.BraidMech
/-!
# Proofs.ConvBfsCounts — the BFS entries are the `initCounts` of the mechanism model

After the complete BFS (`advance_to(0)`) on a store, the recorded entries `(x, k)` are exactly the
entries of `Model.BraidMech.initCounts` for the abstracting graph `graphOf s attr`, the braided
region `ancSelfAll g heads` and the cut-off predicate `max_cut ≤ cut`: a command above the cut
with at least two children in the region, with `k` = that number of children.
-/
namespace AranyaV.Segments
open AranyaV.Queue (Loc)
open AranyaV.Spec (Graph Reach Par)

theorem regFrom_ancS {s : Store} {cut : Nat} {h x : Loc} (hr : RegFrom s cut h x) : AncS s x h := by
  induction hr with
  | refl => exact AncS.refl _
  | step _ hy _ ih => exact ih.trans (AncS.step (AncS.refl _) hy)

theorem regFrom_of_ancS {s : Store} (hp : PriorsOK s) {cut : Nat} {h x : Loc} (ha : AncS s x h)
    (hx : cut < x.mc) : RegFrom s cut h x := by
  induction ha with
  | refl => exact RegFrom.refl _
  | @step m b hxm hm ih =>
    have h1 := hxm.mc_le hp
    have h2 := (parent_valid hp hm).2.2
    exact RegFrom.step (by omega) hm ih

theorem count_of_nodup {l : List Loc} (h : l.Nodup) (a : Loc) : l.count a = if a ∈ l then 1 else 0 := by
  induction l with
  | nil => simp
  | cons y ys ih =>
    rw [List.nodup_cons] at h
    rw [List.count_cons, ih h.2]
    by_cases hya : y = a
    · subst hya
      simp [h.1]
    · have : (y == a) = false := by simpa using hya
      have hay : ¬ a = y := fun e => hya e.symm
      simp [this, hay]

theorem sum_count_eq_length {s : Store} (hmd : MergeDistinct s) (x : Loc) (Q : List Loc) :
    (Q.map (fun y => (s.parents y).count x)).sum = (Q.filter (fun y => decide (x ∈ s.parents y))).length := by
  induction Q with
  | nil => rfl
  | cons y ys ih =>
    rw [List.map_cons, List.sum_cons, ih, count_of_nodup (parents_shape hmd y).2, List.filter_cons]
    by_cases h : x ∈ s.parents y
    · simp [h]; omega
    · simp [h]

/-- core: the entries of a BFS advanced to level `m`, for commands at or above that level -/
theorem initCounts_eq_entries_level {s : Store} (hwf : WF s) (hmd : MergeDistinct s)
    (attr : Loc → AranyaV.Gen.Priority) {hs : List Loc} (hnd : hs.Nodup)
    (hv : ∀ h ∈ hs, s.valid h = true) (hanti : ∀ a ∈ hs, ∀ b ∈ hs, a ≠ b → ¬ AncS s a b)
    (C : Loc) {m : Nat} {b : Bfs} (hadv : Adv s C.mc hs m b)
    {x : Loc} (hx : s.valid x = true) (hxm : m ≤ x.mc) (k : Nat) :
    AranyaV.Braid.initCounts (graphOf s attr) (Spec.ancSelfAll (graphOf s attr) (hs.map (locId s)))
        (belowOf (idLoc s) C) (locId s x) = some k ↔ (x, k) ∈ b.entries := by
  have hp := hwf.priors
  have hgw := graphOf_wf hp hmd attr
  have habs := abs_graphOf hp attr
  obtain ⟨hdesc, hmem, hent⟩ := adv_spec hp hadv
  have hpnd : b.popped.Nodup := by
    unfold List.Nodup
    refine hdesc.imp ?_
    intro a c h e; subst e; exact Lt.irrefl a h
  -- region membership, for locations above the cut
  have hRiff : ∀ y, s.valid y = true → C.mc < y.mc → m ≤ y.mc →
      (locId s y ∈ Spec.ancSelfAll (graphOf s attr) (hs.map (locId s)) ↔ y ∈ b.popped) := by
    intro y hy hyc hym
    rw [Spec.mem_ancSelfAll hgw, hmem y]
    constructor
    · rintro ⟨j, hj, hr⟩
      rw [List.mem_map] at hj
      obtain ⟨h, hh, rfl⟩ := hj
      exact ⟨⟨h, hh, regFrom_of_ancS hp ((habs.reach y h hy (hv h hh)).mp hr) hyc⟩, hym⟩
    · rintro ⟨⟨h, hh, hr⟩, _⟩
      exact ⟨locId s h, List.mem_map.mpr ⟨h, hh, rfl⟩, (habs.reach y h hy (hv h hh)).mpr (regFrom_ancS hr)⟩
  have hbelow : belowOf (idLoc s) C (locId s x) = decide (x.mc ≤ C.mc) := by
    simp [belowOf, idLoc_locId hx]
  -- the children count in the graph = the arrivals from popped locations
  have hcount : C.mc < x.mc →
      AranyaV.Braid.regionChildCount (graphOf s attr) (Spec.ancSelfAll (graphOf s attr) (hs.map (locId s))) (locId s x)
        = ((b.popped.filter (fun y => decide (C.mc < y.mc))).map (fun y => (s.parents y).count x)).sum := by
    intro hxc
    rw [sum_count_eq_length hmd]
    unfold AranyaV.Braid.regionChildCount
    -- both lists are duplicate free; compare them through `locId`
    have hnd1 : (((b.popped.filter (fun y => decide (C.mc < y.mc))).filter
        (fun y => decide (x ∈ s.parents y))).map (locId s)).Nodup := by
      refine nodup_map_of_inj_on _ _ ((hpnd.sublist List.filter_sublist).sublist List.filter_sublist) ?_
      intro a ha c hc hac
      have hav : s.valid a = true := by
        have := List.mem_filter.mp ha; have := List.mem_filter.mp this.1
        exact (hmem a).mp this.1 |>.1 |> fun ⟨h, hh, hr⟩ => (regFrom_ancS hr).valid hp (hv h hh)
      have hcv : s.valid c = true := by
        have := List.mem_filter.mp hc; have := List.mem_filter.mp this.1
        exact (hmem c).mp this.1 |>.1 |> fun ⟨h, hh, hr⟩ => (regFrom_ancS hr).valid hp (hv h hh)
      exact locId_inj hav hcv hac
    have hnd2 : ((Spec.children (graphOf s attr) (locId s x)).filter
        ((Spec.ancSelfAll (graphOf s attr) (hs.map (locId s))).contains ·)).Nodup :=
      (Spec.children_nodup hgw _).sublist List.filter_sublist
    have hperm := (List.perm_ext_iff_of_nodup hnd2 hnd1).mpr (by
      intro j
      simp only [List.mem_filter, List.mem_map, List.contains_eq_mem, decide_eq_true_eq, Spec.mem_children]
      constructor
      · rintro ⟨hpar, hjR⟩
        obtain ⟨l, hl, p, hpm, hpe⟩ := (par_graphOf attr).mp hpar
        obtain ⟨rfl, hlv⟩ := locId_of_idLoc hl
        have hpx : p = x := by
          have hpv := (parent_valid hp hpm).1
          exact (locId_inj hx hpv hpe).symm
        subst hpx
        have hlc : C.mc < l.mc := by have := (parent_valid hp hpm).2.2; omega
        have hlm : m ≤ l.mc := by have := (parent_valid hp hpm).2.2; omega
        exact ⟨l, ⟨⟨(hRiff l hlv hlc hlm).mp hjR, hlc⟩, hpm⟩, rfl⟩
      · rintro ⟨l, ⟨⟨hlP, hlc⟩, hpm⟩, rfl⟩
        have hlv := (parent_valid hp hpm).2.1
        have hlm : m ≤ l.mc := by have := (parent_valid hp hpm).2.2; omega
        exact ⟨(par_graphOf attr).mpr ⟨l, idLoc_locId hlv, x, hpm, rfl⟩, (hRiff l hlv hlc hlm).mpr hlP⟩)
    rw [hperm.length_eq, List.length_map]
  -- a head has no region child: antichain
  have hhead : x ∈ hs → ∀ y ∈ b.popped, x ∉ s.parents y := by
    intro hxh y hy hxy
    obtain ⟨⟨h, hh, hr⟩, _⟩ := (hmem y).mp hy
    have hxa : AncS s x h := (AncS.step (AncS.refl x) hxy).trans (regFrom_ancS hr)
    by_cases e : x = h
    · subst e
      have h1 := (parent_valid hp hxy).2.2
      have h2 := (regFrom_ancS hr).mc_le hp
      omega
    · exact hanti x hxh h hh e hxa
  rw [hent x k]
  unfold AranyaV.Braid.initCounts
  rw [hbelow]
  by_cases hxc : C.mc < x.mc
  · have hnb : decide (x.mc ≤ C.mc) = false := by simp; omega
    rw [hnb]
    simp only [Bool.not_false, Bool.true_and, List.contains_eq_mem]
    rw [hcount hxc]
    have harr : arr s C.mc hs b.popped x = hs.count x +
        ((b.popped.filter (fun y => decide (C.mc < y.mc))).map (fun y => (s.parents y).count x)).sum := rfl
    by_cases hxh : x ∈ hs
    · -- a head: one arrival, no children: neither side has an entry
      have hzero : ((b.popped.filter (fun y => decide (C.mc < y.mc))).map (fun y => (s.parents y).count x)).sum = 0 := by
        rw [sum_count_eq_length hmd]
        rw [List.length_eq_zero_iff, List.filter_eq_nil_iff]
        intro y hy
        have := hhead hxh y (List.mem_filter.mp hy).1
        simpa using this
      have hone : hs.count x = 1 := by rw [count_of_nodup hnd]; simp [hxh]
      rw [hzero, harr, hzero, hone]
      constructor
      · intro h
        split at h
        · rename_i hc; simp at hc
        · cases h
      · rintro ⟨_, _, rfl, h2⟩; omega
    · have hz : hs.count x = 0 := by rw [count_of_nodup hnd]; simp [hxh]
      rw [harr, hz, Nat.zero_add]
      have hR := hRiff x hx hxc hxm
      constructor
      · intro h
        split at h
        · rename_i hc
          simp only [Bool.and_eq_true, decide_eq_true_eq] at hc
          simp only [Option.some.injEq] at h
          exact ⟨hR.mp hc.1, hxc, h.symm, by omega⟩
        · cases h
      · rintro ⟨h1, _, rfl, h4⟩
        have : (decide (locId s x ∈ Spec.ancSelfAll (graphOf s attr) (hs.map (locId s))) &&
            decide (2 ≤ ((b.popped.filter (fun y => decide (C.mc < y.mc))).map (fun y => (s.parents y).count x)).sum)) = true := by
          simp only [Bool.and_eq_true, decide_eq_true_eq]
          exact ⟨hR.mpr h1, h4⟩
        rw [if_pos this]
  · have hb : decide (x.mc ≤ C.mc) = true := by simp; omega
    rw [hb]
    simp only [Bool.not_true, Bool.false_and, Bool.false_eq_true, if_false]
    constructor
    · intro h; cases h
    · rintro ⟨_, h2, _, _⟩; omega

/-- **`initCounts_eq_arrivals`** for the complete BFS (one call with target 0). -/
theorem initCounts_eq_entries {s : Store} (hwf : WF s) (hmd : MergeDistinct s)
    (attr : Loc → AranyaV.Gen.Priority) {hs : List Loc} (hnd : hs.Nodup)
    (hv : ∀ h ∈ hs, s.valid h = true) (hanti : ∀ a ∈ hs, ∀ b ∈ hs, a ≠ b → ¬ AncS s a b)
    (C : Loc) {n : Nat} {b : Bfs} (hrun : advanceTo s C.mc 0 n (Bfs.init hs) = .ok b)
    {x : Loc} (hx : s.valid x = true) (k : Nat) :
    AranyaV.Braid.initCounts (graphOf s attr) (Spec.ancSelfAll (graphOf s attr) (hs.map (locId s)))
        (belowOf (idLoc s) C) (locId s x) = some k ↔ (x, k) ∈ b.entries :=
  initCounts_eq_entries_level hwf hmd attr hnd hv hanti C (advanceTo_init_adv hwf.priors hv hrun) hx
    (Nat.zero_le _) k

end AranyaV.Segments
