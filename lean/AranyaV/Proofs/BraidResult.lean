import AranyaV.Model.Braid
/-!
# Proofs.BraidResult — iteration is the reverse of the pushes, for every block size `B ≥ 1`
-/
namespace AranyaV.Braid

variable {α : Type}

def BraidIter.valid (it : BraidIter α) : Prop :=
  it.memPos ≤ it.mem.length ∧ it.diskBufPos ≤ it.diskBuf.length ∧ it.diskRemaining ≤ it.disk.length

/-- what remains to be yielded -/
def BraidIter.rest (it : BraidIter α) : List α :=
  (it.mem.take it.memPos).reverse ++ (it.diskBuf.take it.diskBufPos).reverse ++
    (it.disk.take it.diskRemaining).reverse

theorem take_rev_pos (l : List α) (pos : Nat) (h0 : 0 < pos) (hl : pos ≤ l.length) :
    ∃ x, l[pos - 1]? = some x ∧ (l.take pos).reverse = x :: (l.take (pos - 1)).reverse := by
  obtain ⟨k, rfl⟩ : ∃ k, pos = k + 1 := ⟨pos - 1, by omega⟩
  have hk : k < l.length := by omega
  refine ⟨l[k], by simp [hk], ?_⟩
  rw [List.take_succ]
  simp [hk]

theorem yieldBuf_spec (it : BraidIter α) (hv : it.valid) (hm : it.memPos = 0) (hp : 0 < it.diskBufPos) :
    ∃ x it', it.yieldBuf = .yield x it' ∧ it.rest = x :: it'.rest ∧ it'.valid := by
  obtain ⟨x, hx, hr⟩ := take_rev_pos it.diskBuf it.diskBufPos hp hv.2.1
  refine ⟨x, { it with diskBufPos := it.diskBufPos - 1 }, by simp [BraidIter.yieldBuf, hx], ?_, ?_⟩
  · simp [BraidIter.rest, hm, hr]
  · exact ⟨hv.1, by have := hv.2.1; simp only; omega, hv.2.2⟩

theorem load_spec (B : Nat) (hB : 0 < B) (it : BraidIter α) (hv : it.valid) (hm : it.memPos = 0)
    (hp : it.diskBufPos = 0) (hr : 0 < it.diskRemaining) :
    (it.loadPrevBlock B).valid ∧ (it.loadPrevBlock B).rest = it.rest ∧
      (it.loadPrevBlock B).memPos = 0 ∧ 0 < (it.loadPrevBlock B).diskBufPos := by
  have hcount : 0 < min it.diskRemaining B := by omega
  have hle : min it.diskRemaining B ≤ it.diskRemaining := Nat.min_le_left _ _
  refine ⟨⟨by simp [BraidIter.loadPrevBlock, hm], ?_, ?_⟩, ?_, by simp [BraidIter.loadPrevBlock, hm], by simpa [BraidIter.loadPrevBlock] using hcount⟩
  · have := hv.2.2
    simp only [BraidIter.loadPrevBlock, List.length_take, List.length_drop]
    omega
  · have := hv.2.2
    simp only [BraidIter.loadPrevBlock]
    omega
  · have h3 := hv.2.2
    have hsplit : it.disk.take it.diskRemaining =
        it.disk.take (it.diskRemaining - min it.diskRemaining B) ++
          (it.disk.drop (it.diskRemaining - min it.diskRemaining B)).take (min it.diskRemaining B) := by
      rw [← List.take_add]
      congr 1
      omega
    simp only [BraidIter.rest, BraidIter.loadPrevBlock, hm, hp, List.take_zero, List.reverse_nil,
      List.nil_append, List.take_take, Nat.min_self]
    rw [hsplit, List.reverse_append]

theorem next_spec (B : Nat) (hB : 0 < B) (it : BraidIter α) (hv : it.valid) :
    (it.next B = .done ∧ it.rest = []) ∨
    ∃ x it', it.next B = .yield x it' ∧ it.rest = x :: it'.rest ∧ it'.valid := by
  by_cases hm : 0 < it.memPos
  · right
    obtain ⟨x, hx, hr⟩ := take_rev_pos it.mem it.memPos hm hv.1
    refine ⟨x, { it with memPos := it.memPos - 1 }, by simp [BraidIter.next, hm, hx], ?_, ?_⟩
    · simp [BraidIter.rest, hr]
    · exact ⟨by have := hv.1; simp only; omega, hv.2.1, hv.2.2⟩
  · have hm0 : it.memPos = 0 := by omega
    by_cases hp : 0 < it.diskBufPos
    · right
      obtain ⟨x, it', h1, h2, h3⟩ := yieldBuf_spec it hv hm0 hp
      exact ⟨x, it', by simp [BraidIter.next, hm0, hp, h1], h2, h3⟩
    · have hp0 : it.diskBufPos = 0 := by omega
      by_cases hr : 0 < it.diskRemaining
      · right
        obtain ⟨hv2, hrest, hm2, hp2⟩ := load_spec B hB it hv hm0 hp0 hr
        obtain ⟨x, it', h1, h2, h3⟩ := yieldBuf_spec _ hv2 hm2 hp2
        refine ⟨x, it', ?_, by rw [← hrest]; exact h2, h3⟩
        simp only [BraidIter.next, hm0, hp0, Nat.lt_irrefl, if_false, hr, if_true, hp2, h1]
      · left
        have hr0 : it.diskRemaining = 0 := by omega
        exact ⟨by simp [BraidIter.next, hm0, hp0, hr0], by simp [BraidIter.rest, hm0, hp0, hr0]⟩

theorem collect_spec (B : Nat) (hB : 0 < B) : ∀ (n : Nat) (it : BraidIter α), it.valid →
    it.rest.length < n → BraidIter.collect B n it = some it.rest := by
  intro n
  induction n with
  | zero => intro it _ h; omega
  | succ n ih =>
    intro it hv hn
    rcases next_spec B hB it hv with ⟨h1, h2⟩ | ⟨x, it', h1, h2, h3⟩
    · simp [BraidIter.collect, h1, h2]
    · have hlen : it'.rest.length < n := by rw [h2] at hn; simp at hn; omega
      simp [BraidIter.collect, h1, ih it' h3 hlen, h2]

theorem push_spec (B : Nat) (hB : 0 < B) (r : BraidResult α) (x : α) (hr : r.mem.length ≤ B) :
    ∃ r', r.push B x = some r' ∧ r'.disk ++ r'.mem = r.disk ++ r.mem ++ [x] ∧ r'.mem.length ≤ B := by
  by_cases hfull : r.mem.length = B
  · refine ⟨{ mem := [x], disk := r.disk ++ r.mem }, ?_, by simp, by simp; omega⟩
    simp [BraidResult.push, hfull, hB]
  · have hlt : r.mem.length < B := by omega
    refine ⟨{ r with mem := r.mem ++ [x] }, ?_, by simp, by simp; omega⟩
    simp [BraidResult.push, hfull, hlt]

theorem pushAll_spec (B : Nat) (hB : 0 < B) : ∀ (xs : List α) (r : BraidResult α), r.mem.length ≤ B →
    ∃ r', pushAll B r xs = some r' ∧ r'.disk ++ r'.mem = r.disk ++ r.mem ++ xs ∧ r'.mem.length ≤ B := by
  intro xs
  induction xs with
  | nil => intro r hr; exact ⟨r, rfl, by simp, hr⟩
  | cons x xs ih =>
    intro r hr
    obtain ⟨r1, h1, h2, h3⟩ := push_spec B hB r x hr
    obtain ⟨r2, h4, h5, h6⟩ := ih r1 h3
    exact ⟨r2, by simp [pushAll, h1, h4], by rw [h5, h2]; simp, h6⟩

/-- **`BraidResult.iter_rev`.** For every block size `B ≥ 1` and every push sequence `xs`: all
pushes succeed, and running the iterator to the end (`xs.length + 1` calls of `next`) yields
exactly `xs.reverse` with no index out of range — whether or not blocks were spilled. -/
theorem BraidResult.iter_rev (B : Nat) (hB : 0 < B) (xs : List α) :
    ∃ r, pushAll B BraidResult.new xs = some r ∧
      (iterOf r).collect B (xs.length + 1) = some xs.reverse := by
  obtain ⟨r, h1, h2, _⟩ := pushAll_spec B hB xs BraidResult.new (by simp [BraidResult.new])
  refine ⟨r, h1, ?_⟩
  have hv : (iterOf r).valid := by simp [iterOf, BraidIter.valid]
  have hrest : (iterOf r).rest = xs.reverse := by
    have : xs = r.disk ++ r.mem := by simpa [BraidResult.new] using h2.symm
    simp [iterOf, BraidIter.rest, this]
  rw [collect_spec B hB _ _ hv (by rw [hrest]; simp), hrest]

end AranyaV.Braid
