import AranyaV.Proofs.CompileDefs
/-!
Layout of compiled code (C22 / C24): the anonymous labels a construct defines are exactly one
per allocated counter value, hence pairwise distinct; with distinct function names every label
of a compiled program resolves to the address the compiler recorded for it.
-/
namespace AranyaV.Lang
open AranyaV.Gen.Lang

/-- the labels in `d` are distinct anonymous labels with numbers in `[c, c')` -/
structure Good (c : Nat) (d : List (Label × Nat)) (c' : Nat) : Prop where
  le : c ≤ c'
  nodup : (d.map (·.1)).Nodup
  rng : ∀ q ∈ d, ∃ k, q.1 = .anon k ∧ c ≤ k ∧ k < c'

theorem Good.nil {c} : Good c [] c := ⟨Nat.le_refl _, by simp, by simp⟩

theorem Good.single (k : Nat) (x : Nat) : Good k [(.anon k, x)] (k + 1) :=
  ⟨by omega, by simp, by intro q hq; simp at hq; subst hq; exact ⟨k, rfl, by omega, by omega⟩⟩

theorem Good.seq {c c1 c2 d1 d2} (g1 : Good c d1 c1) (g2 : Good c1 d2 c2) : Good c (d1 ++ d2) c2 := by
  refine ⟨Nat.le_trans g1.le g2.le, ?_, ?_⟩
  · rw [List.map_append, List.nodup_append]
    refine ⟨g1.nodup, g2.nodup, ?_⟩
    intro a ha b hb hab
    obtain ⟨q1, hq1, rfl⟩ := List.mem_map.mp ha
    obtain ⟨q2, hq2, rfl⟩ := List.mem_map.mp hb
    obtain ⟨k1, e1, _, h1⟩ := g1.rng q1 hq1
    obtain ⟨k2, e2, h2, _⟩ := g2.rng q2 hq2
    rw [e1, e2] at hab
    cases hab
    omega
  · intro q hq
    rcases List.mem_append.mp hq with h | h
    · obtain ⟨k, e, h1, h2⟩ := g1.rng q h
      exact ⟨k, e, h1, Nat.lt_of_lt_of_le h2 g2.le⟩
    · obtain ⟨k, e, h1, h2⟩ := g2.rng q h
      exact ⟨k, e, Nat.le_trans g1.le h1, h2⟩

theorem Good.perm {c c' d d'} (g : Good c d c') (h : d.Perm d') : Good c d' c' :=
  ⟨g.le, (h.map _).nodup_iff.mp g.nodup, fun q hq => g.rng q (h.mem_iff.mpr hq)⟩

theorem Good.skip {c d c'} (g : Good (c + 1) d c') : Good c d c' :=
  ⟨by have := g.le; omega, g.nodup, fun q hq => by obtain ⟨k, e, h1, h2⟩ := g.rng q hq; exact ⟨k, e, by omega, h2⟩⟩

theorem good_and {c cA cB dA dB x y} (gA : Good c dA cA) (gB : Good (cA + 2) dB cB) :
    Good c (dA ++ [(.anon cA, x)] ++ dB ++ [(.anon (cA + 1), y)]) cB := by
  have g := gA.seq ((Good.single cA x).seq ((Good.single (cA + 1) y).seq gB))
  refine g.perm ?_
  simp only [List.append_assoc]
  exact List.Perm.append_left _ (List.Perm.append_left _ List.perm_append_comm)

theorem good_or {c cA cB dA dB x y} (gA : Good c dA cA) (gB : Good (cA + 2) dB cB) :
    Good c (dA ++ dB ++ [(.anon cA, x), (.anon (cA + 1), y)]) cB := by
  have g := gA.seq ((Good.single cA x).seq ((Good.single (cA + 1) y).seq gB))
  refine g.perm ?_
  simp only [List.append_assoc]
  refine List.Perm.append_left _ ?_
  have : [(Label.anon cA, x), (Label.anon (cA + 1), y)] = [(Label.anon cA, x)] ++ [(Label.anon (cA + 1), y)] := rfl
  rw [this, ← List.append_assoc [(Label.anon cA, x)]]
  exact List.perm_append_comm

theorem good_two_first {c cA cB dA dB x y} (gA : Good (c + 2) dA cA) (gB : Good cA dB cB) :
    Good c (dA ++ dB ++ [(.anon c, x), (.anon (c + 1), y)]) cB := by
  have g := (Good.single c x).seq ((Good.single (c + 1) y).seq (gA.seq gB))
  refine g.perm ?_
  have := @List.perm_append_comm _ [(Label.anon c, x), (Label.anon (c + 1), y)] (dA ++ dB)
  simpa [List.append_assoc] using this

theorem good_ite {c cC cF cT dC dF dT x y} (gC : Good (c + 2) dC cC) (gF : Good cC dF cF) (gT : Good cF dT cT) :
    Good c (dC ++ dF ++ [(.anon c, x)] ++ dT ++ [(.anon (c + 1), y)]) cT := by
  have g := good_two_first (x := x) (y := y) gC (gF.seq gT)
  refine g.perm ?_
  have h1 : (dT ++ [(Label.anon c, x)]).Perm ([(Label.anon c, x)] ++ dT) := List.perm_append_comm
  have := (h1.append_left (dC ++ dF)).append_right [(Label.anon (c + 1), y)]
  simpa [List.append_assoc] using this

theorem good_after {c cC cE dC dE x} (gC : Good c dC cC) (gE : Good (cC + 1) dE cE) :
    Good c (dC ++ dE ++ [(.anon cC, x)]) cE := by
  have g := gC.seq ((Good.single cC x).seq gE)
  refine g.perm ?_
  simp only [List.append_assoc]
  exact List.Perm.append_left _ List.perm_append_comm

theorem good_first {c cB cF dB dF x} (gB : Good (c + 1) dB cB) (gF : Good cB dF cF) :
    Good c (dB ++ dF ++ [(.anon c, x)]) cF := by
  have g := (Good.single c x).seq (gB.seq gF)
  exact g.perm List.perm_append_comm

theorem good_branch {c cC cS cR dC dS dR x} (gC : Good (c + 1) dC cC) (gS : Good cC dS cS) (gR : Good cS dR cR) :
    Good c (dC ++ dS ++ [(.anon c, x)] ++ dR) cR := by
  have g := (Good.single c x).seq ((gC.seq gS).seq gR)
  refine g.perm ?_
  have := (@List.perm_append_comm _ [(Label.anon c, x)] (dC ++ dS)).append_right dR
  simpa [List.append_assoc] using this

/-- `Good` only looks at the label names -/
theorem Good.congr_keys {c c' d d'} (g : Good c d c') (h : d'.map (·.1) = d.map (·.1)) : Good c d' c' := by
  refine ⟨g.le, h ▸ g.nodup, ?_⟩
  intro q hq
  have : q.1 ∈ d.map (·.1) := h ▸ List.mem_map.mpr ⟨q, hq, rfl⟩
  obtain ⟨q', hq', e⟩ := List.mem_map.mp this
  obtain ⟨k, hk, h1, h2⟩ := g.rng q' hq'
  exact ⟨k, by rw [← e]; exact hk, h1, h2⟩

/-- arm labels as pseudo definitions -/
def pseudo (ls : List Label) : List (Label × Nat) := ls.map fun l => (l, 0)

theorem good_tests_vals {c cV cR dV dR lR x} (gV : Good (c + 1) dV cV) (gR : Good cV (dR ++ lR) cR) :
    Good c ((dV ++ dR) ++ ((Label.anon c, x) :: lR)) cR := by
  have g := (Good.single c x).seq (gV.seq gR)
  refine g.perm ?_
  have h1 : ([(Label.anon c, x)] ++ (dV ++ (dR ++ lR))).Perm ((dV ++ dR) ++ ([(Label.anon c, x)] ++ lR)) := by
    have := (@List.perm_append_comm _ [(Label.anon c, x)] (dV ++ dR)).append_right lR
    simpa [List.append_assoc] using this
  simpa using h1

theorem good_tests_default {c cR dR lR x} (gR : Good (c + 1) (dR ++ lR) cR) :
    Good c (dR ++ ((Label.anon c, x) :: lR)) cR := by
  have g := (Good.single c x).seq gR
  refine g.perm ?_
  have := (@List.perm_append_comm _ [(Label.anon c, x)] dR).append_right lR
  simpa [List.append_assoc] using this

/-- what the arms phase defines: one address per consumed arm label, plus the bodies' own labels -/
def ArmsGood (c : Nat) (ls : List Label) (n : Nat) (o : Out) : Prop :=
  ∃ bd addrs, Good c bd o.c ∧ addrs.map (·.1) = ls.take n ∧ o.defs.Perm (addrs ++ bd)

theorem armsGood_nil (c : Nat) (ls : List Label) (n : Nat) (h : ls = [] ∨ n = 0) : ArmsGood c ls n ⟨[], [], c⟩ := by
  refine ⟨[], [], Good.nil, ?_, by simp⟩
  rcases h with rfl | rfl <;> simp

theorem armsGood_cons {c cB : Nat} {l : Label} {ls : List Label} {n wp : Nat} {dB : List (Label × Nat)} {R : Out} {code : List Instr}
    (gB : Good c dB cB) (gR : ArmsGood cB ls n R) :
    ArmsGood c (l :: ls) (n + 1) ⟨code, (l, wp) :: dB ++ R.defs, R.c⟩ := by
  obtain ⟨bd, addrs, g, hk, hp⟩ := gR
  refine ⟨dB ++ bd, (l, wp) :: addrs, gB.seq g, by simp [hk], ?_⟩
  simp only [List.cons_append]
  refine List.Perm.cons _ ?_
  have h1 : (dB ++ R.defs).Perm (dB ++ (addrs ++ bd)) := List.Perm.append_left _ hp
  refine h1.trans ?_
  have := (@List.perm_append_comm _ dB addrs).append_right bd
  simpa [List.append_assoc] using this

theorem good_match {c : Nat} {dS dT : List (Label × Nat)} {cS cT : Nat} {ls : List Label} {A : Out} {n x : Nat}
    (gS : Good c dS cS) (gT : Good (cS + 1) (dT ++ pseudo ls) cT) (gA : ArmsGood cT ls n A) (hn : ls.length ≤ n) :
    Good c (dS ++ dT ++ A.defs ++ [(Label.anon cS, x)]) A.c := by
  obtain ⟨bd, addrs, g, hk, hp⟩ := gA
  have hk' : addrs.map (·.1) = ls := by rw [hk, List.take_of_length_le hn]
  have gT' : Good (cS + 1) (dT ++ addrs) cT := gT.congr_keys (by simp [pseudo, hk', Function.comp_def])
  have gall := gS.seq ((Good.single cS x).seq ((gT'.seq g)))
  refine gall.perm ?_
  have h1 : (dS ++ dT ++ A.defs ++ [(Label.anon cS, x)]).Perm (dS ++ dT ++ (addrs ++ bd) ++ [(Label.anon cS, x)]) :=
    List.Perm.append_right _ (List.Perm.append_left _ hp)
  refine List.Perm.trans ?_ h1.symm
  have h2 := (@List.perm_append_comm _ [(Label.anon cS, x)] (dT ++ addrs ++ bd)).append_left dS
  simpa [List.append_assoc] using h2

theorem testsE_len (sd : Defs) : ∀ (arms : List (Pat × Expr)) (wp c : Nat), (compileTestsE sd wp c arms).2.length = arms.length
  | [], _, _ => by simp [compileTestsE]
  | (.values vs, _) :: rest, wp, c => by simp [compileTestsE, testsE_len sd rest]
  | (.default, _) :: rest, wp, c => by simp [compileTestsE, testsE_len sd rest]
theorem testsS_len (sd : Defs) : ∀ (arms : List (Pat × List Stmt)) (wp c : Nat), (compileTestsS sd wp c arms).2.length = arms.length
  | [], _, _ => by simp [compileTestsS]
  | (.values vs, _) :: rest, wp, c => by simp [compileTestsS, testsS_len sd rest]
  | (.default, _) :: rest, wp, c => by simp [compileTestsS, testsS_len sd rest]

theorem good_all (sd : Defs) :
    (∀ wp c e, Good c (compileExpr sd wp c e).defs (compileExpr sd wp c e).c) ∧
    (∀ (wp c : Nat) (end_ : Label) (ls : List Label) (arms : List (Pat × Expr)),
      ArmsGood c ls arms.length (compileArmsE sd wp c end_ ls arms)) ∧
    (∀ (wp c : Nat) (arms : List (Pat × Expr)),
      Good c ((compileTestsE sd wp c arms).1.defs ++ pseudo (compileTestsE sd wp c arms).2) (compileTestsE sd wp c arms).1.c) ∧
    (∀ (wp c : Nat) (arm : Label) (vs : List Expr),
      Good c (compilePatVals sd wp c arm vs).defs (compilePatVals sd wp c arm vs).c) ∧
    (∀ wp c ss, Good c (compileStmts sd wp c ss).defs (compileStmts sd wp c ss).c) ∧
    (∀ wp c s, Good c (compileStmt sd wp c s).defs (compileStmt sd wp c s).c) ∧
    (∀ wp c end_ brs, Good c (compileBranches sd wp c end_ brs).defs (compileBranches sd wp c end_ brs).c) ∧
    (∀ (wp c : Nat) (end_ : Label) (ls : List Label) (arms : List (Pat × List Stmt)),
      ArmsGood c ls arms.length (compileArmsS sd wp c end_ ls arms)) ∧
    (∀ (wp c : Nat) (arms : List (Pat × List Stmt)),
      Good c ((compileTestsS sd wp c arms).1.defs ++ pseudo (compileTestsS sd wp c arms).2) (compileTestsS sd wp c arms).1.c) ∧
    (∀ wp c es, Good c (compileArgs sd wp c es).defs (compileArgs sd wp c es).c) ∧
    (∀ wp c fs, Good c (compileFields sd wp c fs).defs (compileFields sd wp c fs).c) := by
  apply compileExpr.mutual_induct sd
  case case12 => intro wp c f args i hi ih; simp only [compileExpr, hi]; exact ih
  case case13 => intro wp c f args hi ih; simp only [compileExpr, hi]; exact ih
  case case34 =>
    intro wp c scrut arms S end_ T ihS ihT ihA
    simp only [compileExpr]
    exact good_match ihS ihT ihA (Nat.le_of_eq (testsE_len sd arms _ _))
  case case37 =>
    intro wp c scrut arms S end_ T ihS ihT ihA
    simp only [compileStmt]
    exact good_match ihS ihT ihA (Nat.le_of_eq (testsS_len sd arms _ _))
  case case38 =>
    intro wp c brs hasElse els end_ B ihB ihS
    simp only [compileStmt]
    cases hasElse with
    | true => simp only [if_true]; exact good_first ihB ihS
    | false =>
      simp only [Bool.false_eq_true, if_false, List.append_nil]
      have := good_first (x := wp + (compileBranches sd wp (c + 1) (Label.anon c) brs).code.length + 0) ihB (Good.nil (c := (compileBranches sd wp (c + 1) (Label.anon c) brs).c))
      simpa using this
  case case44 => intro wp c arm e es w hw ih; simp only [compilePatVals, hw]; exact ih
  case case45 => intro wp c arm e es hw E ihE ihR; simp only [compilePatVals, hw]; exact Good.seq ihE ihR
  case case51 =>
    intro t wp c end_ ls h
    cases ls with
    | nil => cases t <;> (simp only [compileArmsE]; exact armsGood_nil c [] _ (Or.inl rfl))
    | cons l ls =>
      cases t with
      | nil => simp only [compileArmsE]; exact armsGood_nil c _ _ (Or.inr rfl)
      | cons pb rest => exact (h l ls pb.1 pb.2 rest rfl rfl).elim
  case case56 =>
    intro t wp c end_ ls h
    cases ls with
    | nil => cases t <;> (simp only [compileArmsS]; exact armsGood_nil c [] _ (Or.inl rfl))
    | cons l ls =>
      cases t with
      | nil => simp only [compileArmsS]; exact armsGood_nil c _ _ (Or.inr rfl)
      | cons pb rest => exact (h l ls pb.1 pb.2 rest rfl rfl).elim
  all_goals (intros; first | trivial | skip)
  all_goals (simp only [compileExpr, compileArgs, compileFields, compileStmt, compileStmts, compileBranches, compilePatVals,
    compileTestsE, compileTestsS, compileArmsE, compileArmsS, pseudo, List.map_cons, List.map_nil, List.append_nil, List.length_cons, List.length_nil])
  all_goals (first
    | exact Good.nil
    | assumption
    | exact Good.seq ‹_› ‹_›
    | exact good_and ‹_› ‹_›
    | exact good_or ‹_› ‹_›
    | exact good_two_first ‹_› ‹_›
    | exact good_ite ‹_› ‹_› ‹_›
    | exact good_after ‹_› ‹_›
    | exact good_first ‹_› ‹_›
    | exact good_branch ‹_› ‹_› ‹_›
    | exact good_tests_vals ‹_› ‹_›
    | exact good_tests_default ‹_›
    | exact armsGood_cons ‹_› ‹_›
    | skip)

/-- the labels of a list of compiled functions: one `fn` label per function plus distinct anonymous ones -/
theorem funs_good (sd : Defs) : ∀ (funs : List FunDef) (wp c : Nat),
    ∃ bd fl, Good c bd (compileFuns sd wp c funs).c ∧ fl.map (·.1) = funs.map (fun fd => Label.fn fd.name) ∧
      (compileFuns sd wp c funs).defs.Perm (fl ++ bd)
  | [], wp, c => ⟨[], [], Good.nil, rfl, by simp [compileFuns]⟩
  | fd :: rest, wp, c => by
    obtain ⟨bd, fl, g, hk, hp⟩ := funs_good sd rest (wp + (compileFun sd wp c fd).code.length) (compileFun sd wp c fd).c
    have gB := (good_all sd).2.2.2.2.1 (wp + ((fd.params.reverse.map fun (x : Nat × Ty) => (Instruction.Def x.1 : Instr)) ++ [Instruction.SaveSP]).length) c fd.body
    refine ⟨(compileStmts sd (wp + ((fd.params.reverse.map fun (x : Nat × Ty) => (Instruction.Def x.1 : Instr)) ++ [Instruction.SaveSP]).length) c fd.body).defs ++ bd,
      (Label.fn fd.name, wp) :: fl, ?_, by simp [hk], ?_⟩
    · simp only [compileFuns]
      exact gB.seq (by simpa [compileFun] using g)
    · simp only [compileFuns, compileFun, List.cons_append]
      refine List.Perm.cons _ ?_
      have h1 := List.Perm.append_left (compileStmts sd (wp + ((fd.params.reverse.map fun (x : Nat × Ty) => (Instruction.Def x.1 : Instr)) ++ [Instruction.SaveSP]).length) c fd.body).defs hp
      refine List.Perm.trans (by simpa [compileFun] using h1) ?_
      have := (@List.perm_append_comm _ (compileStmts sd (wp + ((fd.params.reverse.map fun (x : Nat × Ty) => (Instruction.Def x.1 : Instr)) ++ [Instruction.SaveSP]).length) c fd.body).defs fl).append_right bd
      simpa [List.append_assoc] using this

theorem nodup_map_fn : ∀ (ns : List Nat), ns.Nodup → (ns.map Label.fn).Nodup
  | [], _ => by simp
  | n :: ns, h => by
    simp only [List.nodup_cons, List.map_cons, List.mem_map, not_exists, not_and] at h ⊢
    refine ⟨?_, nodup_map_fn ns h.2⟩
    intro x hx hxe
    cases hxe
    exact h.1 hx

/-- **the `define_label` duplicate check never fires on model-compiled code**: with distinct
function names all labels of the program are distinct -/
theorem labels_never_collide (sd : Defs) (funs : List FunDef) (hn : (funs.map (·.name)).Nodup) :
    labelsDistinct (compileUnresolved sd funs).defs = true := by
  obtain ⟨bd, fl, g, hk, hp⟩ := funs_good sd funs 1 0
  have key : ((compileFuns sd 1 0 funs).defs.map (·.1)).Nodup := by
    rw [(hp.map _).nodup_iff, List.map_append, List.nodup_append]
    refine ⟨?_, g.nodup, ?_⟩
    · rw [hk]
      have : (funs.map fun fd => Label.fn fd.name) = (funs.map (·.name)).map Label.fn := by simp
      rw [this]
      exact nodup_map_fn _ hn
    · intro a ha b hb hab
      rw [hk] at ha
      obtain ⟨fd, _, rfl⟩ := List.mem_map.mp ha
      obtain ⟨q, hq, rfl⟩ := List.mem_map.mp hb
      obtain ⟨k, hk', _, _⟩ := g.rng q hq
      rw [hk'] at hab
      cases hab
  simp only [labelsDistinct, compileUnresolved]
  exact decide_eq_true key

end AranyaV.Lang
