import AranyaV.Proofs.CompileDefs
/-!
Layout of compiled code (C22 / C24): the anonymous labels a construct defines are exactly one
per allocated counter value, hence pairwise distinct; with distinct function names every label
of a compiled program resolves to the address the compiler recorded for it.
-/
namespace AranyaV.Lang
open AranyaV.Gen.Lang

/-- the labels in `d` are distinct anonymous labels with numbers in `[c, c')` -/
structure Good (c : Nat) (d : List (Label × Nat)) (c' : Nat) : Prop where
  le : c ≤ c'
  nodup : (d.map (·.1)).Nodup
  rng : ∀ q ∈ d, ∃ k, q.1 = .anon k ∧ c ≤ k ∧ k < c'

theorem Good.nil {c} : Good c [] c := ⟨Nat.le_refl _, by simp, by simp⟩

theorem Good.single (k : Nat) (x : Nat) : Good k [(.anon k, x)] (k + 1) :=
  ⟨by omega, by simp, by intro q hq; simp at hq; subst hq; exact ⟨k, rfl, by omega, by omega⟩⟩

theorem Good.seq {c c1 c2 d1 d2} (g1 : Good c d1 c1) (g2 : Good c1 d2 c2) : Good c (d1 ++ d2) c2 := by
  refine ⟨Nat.le_trans g1.le g2.le, ?_, ?_⟩
  · rw [List.map_append, List.nodup_append]
    refine ⟨g1.nodup, g2.nodup, ?_⟩
    intro a ha b hb hab
    obtain ⟨q1, hq1, rfl⟩ := List.mem_map.mp ha
    obtain ⟨q2, hq2, rfl⟩ := List.mem_map.mp hb
    obtain ⟨k1, e1, _, h1⟩ := g1.rng q1 hq1
    obtain ⟨k2, e2, h2, _⟩ := g2.rng q2 hq2
    rw [e1, e2] at hab
    cases hab
    omega
  · intro q hq
    rcases List.mem_append.mp hq with h | h
    · obtain ⟨k, e, h1, h2⟩ := g1.rng q h
      exact ⟨k, e, h1, Nat.lt_of_lt_of_le h2 g2.le⟩
    · obtain ⟨k, e, h1, h2⟩ := g2.rng q h
      exact ⟨k, e, Nat.le_trans g1.le h1, h2⟩

theorem Good.perm {c c' d d'} (g : Good c d c') (h : d.Perm d') : Good c d' c' :=
  ⟨g.le, (h.map _).nodup_iff.mp g.nodup, fun q hq => g.rng q (h.mem_iff.mpr hq)⟩

theorem Good.skip {c d c'} (g : Good (c + 1) d c') : Good c d c' :=
  ⟨by have := g.le; omega, g.nodup, fun q hq => by obtain ⟨k, e, h1, h2⟩ := g.rng q hq; exact ⟨k, e, by omega, h2⟩⟩

theorem good_and {c cA cB dA dB x y} (gA : Good c dA cA) (gB : Good (cA + 2) dB cB) :
    Good c (dA ++ [(.anon cA, x)] ++ dB ++ [(.anon (cA + 1), y)]) cB := by
  have g := gA.seq ((Good.single cA x).seq ((Good.single (cA + 1) y).seq gB))
  refine g.perm ?_
  simp only [List.append_assoc]
  exact List.Perm.append_left _ (List.Perm.append_left _ List.perm_append_comm)

theorem good_or {c cA cB dA dB x y} (gA : Good c dA cA) (gB : Good (cA + 2) dB cB) :
    Good c (dA ++ dB ++ [(.anon cA, x), (.anon (cA + 1), y)]) cB := by
  have g := gA.seq ((Good.single cA x).seq ((Good.single (cA + 1) y).seq gB))
  refine g.perm ?_
  simp only [List.append_assoc]
  refine List.Perm.append_left _ ?_
  have : [(Label.anon cA, x), (Label.anon (cA + 1), y)] = [(Label.anon cA, x)] ++ [(Label.anon (cA + 1), y)] := rfl
  rw [this, ← List.append_assoc [(Label.anon cA, x)]]
  exact List.perm_append_comm

theorem good_two_first {c cA cB dA dB x y} (gA : Good (c + 2) dA cA) (gB : Good cA dB cB) :
    Good c (dA ++ dB ++ [(.anon c, x), (.anon (c + 1), y)]) cB := by
  have g := (Good.single c x).seq ((Good.single (c + 1) y).seq (gA.seq gB))
  refine g.perm ?_
  have := @List.perm_append_comm _ [(Label.anon c, x), (Label.anon (c + 1), y)] (dA ++ dB)
  simpa [List.append_assoc] using this

theorem good_ite {c cC cF cT dC dF dT x y} (gC : Good (c + 2) dC cC) (gF : Good cC dF cF) (gT : Good cF dT cT) :
    Good c (dC ++ dF ++ [(.anon c, x)] ++ dT ++ [(.anon (c + 1), y)]) cT := by
  have g := good_two_first (x := x) (y := y) gC (gF.seq gT)
  refine g.perm ?_
  have h1 : (dT ++ [(Label.anon c, x)]).Perm ([(Label.anon c, x)] ++ dT) := List.perm_append_comm
  have := (h1.append_left (dC ++ dF)).append_right [(Label.anon (c + 1), y)]
  simpa [List.append_assoc] using this

theorem good_after {c cC cE dC dE x} (gC : Good c dC cC) (gE : Good (cC + 1) dE cE) :
    Good c (dC ++ dE ++ [(.anon cC, x)]) cE := by
  have g := gC.seq ((Good.single cC x).seq gE)
  refine g.perm ?_
  simp only [List.append_assoc]
  exact List.Perm.append_left _ List.perm_append_comm

theorem good_first {c cB cF dB dF x} (gB : Good (c + 1) dB cB) (gF : Good cB dF cF) :
    Good c (dB ++ dF ++ [(.anon c, x)]) cF := by
  have g := (Good.single c x).seq (gB.seq gF)
  exact g.perm List.perm_append_comm

theorem good_branch {c cC cS cR dC dS dR x} (gC : Good (c + 1) dC cC) (gS : Good cC dS cS) (gR : Good cS dR cR) :
    Good c (dC ++ dS ++ [(.anon c, x)] ++ dR) cR := by
  have g := (Good.single c x).seq ((gC.seq gS).seq gR)
  refine g.perm ?_
  have := (@List.perm_append_comm _ [(Label.anon c, x)] (dC ++ dS)).append_right dR
  simpa [List.append_assoc] using this

end AranyaV.Lang
