import AranyaV.Model.Finish
/-!
Helper definitions and lemmas for C30: shape predicates on emitted code and the invariants of
`run` they give.
-/
namespace AranyaV.Finish

/-- colour table of the functions: `some true` = finish function, `some false` = pure function -/
abbrev Flags := List Bool

mutual
  /-- code that may be the body of a finish region: only plain instructions, effectful
  instructions and calls of finish functions — no `Exit`, no branch, no `Recall`, no `Return` -/
  def finPure (fl : Flags) : Code → Bool
    | .nil => true
    | .cons n rest => finNode fl n && finPure fl rest
  def finNode (fl : Flags) : Node → Bool
    | .op => true
    | .eff _ => true
    | .callFn f => fl[f]? == some true
    | _ => false
end

/-- code of a finish function: a finish body, then `Return` -/
def finFn (fl : Flags) (c : Code) : Prop := ∃ body, c = body ++ Code.single .ret ∧ finPure fl body = true

mutual
  /-- **no bare effect**: no `Create/Update/Delete/Emit` outside a finish region; every finish region
  has a finish body and exits with `Normal` or `Check`; only pure functions are called -/
  def noBare (fl : Flags) : Code → Bool
    | .nil => true
    | .cons n rest => noBareNode fl n && noBare fl rest
  def noBareNode (fl : Flags) : Node → Bool
    | .op | .exit _ | .recall _ | .ret | .publish => true
    | .eff _ => false
    | .choice alts => noBareAlts fl alts
    | .loop body => noBare fl body
    | .finishRegion body r => finPure fl body && r != .panic
    | .callFn f => fl[f]? == some false
  def noBareAlts (fl : Flags) : Alts → Bool
    | .nil => true
    | .cons c rest => noBare fl c && noBareAlts fl rest
end

mutual
  /-- no `Exit(Check)` (neither bare nor as the exit of a finish region): code of a `policy` block
  or of a function -/
  def noCheck : Code → Bool
    | .nil => true
    | .cons n rest => noCheckNode n && noCheck rest
  def noCheckNode : Node → Bool
    | .exit r => r != .check
    | .choice alts => noCheckAlts alts
    | .loop body => noCheck body
    | .finishRegion body r => noCheck body && r != .check
    | _ => true
  def noCheckAlts : Alts → Bool
    | .nil => true
    | .cons c rest => noCheck c && noCheckAlts rest
end

/-- what the compiler guarantees about a whole program -/
structure WFP (p : Program) (fl : Flags) : Prop where
  pureFns : ∀ (f : Nat) (c : Code), p.fns[f]? = some c → fl[f]? = some false → noBare fl c = true ∧ noCheck c = true
  finFns : ∀ (f : Nat) (c : Code), p.fns[f]? = some c → fl[f]? = some true → finFn fl c
  recalls : ∀ (r : Nat) (c : Code), p.recalls[r]? = some c → noBare fl c = true

/-! ## append lemmas -/

theorem Code.nil_append (c : Code) : (Code.nil ++ c) = c := rfl
theorem Code.cons_append (n : Node) (c d : Code) : (Code.cons n c ++ d) = Code.cons n (c ++ d) := rfl

theorem finPure_append (fl : Flags) : ∀ (a b : Code),
    finPure fl (a ++ b) = (finPure fl a && finPure fl b)
  | .nil, b => by simp [Code.nil_append, finPure]
  | .cons n rest, b => by simp [Code.cons_append, finPure, finPure_append fl rest b, Bool.and_assoc]

theorem noBare_append (fl : Flags) : ∀ (a b : Code),
    noBare fl (a ++ b) = (noBare fl a && noBare fl b)
  | .nil, b => by simp [Code.nil_append, noBare]
  | .cons n rest, b => by simp [Code.cons_append, noBare, noBare_append fl rest b, Bool.and_assoc]

theorem noCheck_append : ∀ (a b : Code), noCheck (a ++ b) = (noCheck a && noCheck b)
  | .nil, b => by simp [Code.nil_append, noCheck]
  | .cons n rest, b => by simp [Code.cons_append, noCheck, noCheck_append rest b, Bool.and_assoc]

theorem noBareAlts_nth {fl : Flags} : ∀ {alts : Alts} {d : Nat} {c : Code},
    noBareAlts fl alts = true → nthAlt alts d = some c → noBare fl c = true
  | .nil, _, _, _, h => by simp [nthAlt] at h
  | .cons c' rest, 0, c, ha, h => by
    simp only [nthAlt, Option.some.injEq] at h; subst h
    simp only [noBareAlts, Bool.and_eq_true] at ha; exact ha.1
  | .cons c' rest, d + 1, c, ha, h => by
    simp only [nthAlt] at h
    simp only [noBareAlts, Bool.and_eq_true] at ha
    exact noBareAlts_nth ha.2 h

theorem noCheckAlts_nth : ∀ {alts : Alts} {d : Nat} {c : Code},
    noCheckAlts alts = true → nthAlt alts d = some c → noCheck c = true
  | .nil, _, _, _, h => by simp [nthAlt] at h
  | .cons c' rest, 0, c, ha, h => by
    simp only [nthAlt, Option.some.injEq] at h; subst h
    simp only [noCheckAlts, Bool.and_eq_true] at ha; exact ha.1
  | .cons c' rest, d + 1, c, ha, h => by
    simp only [nthAlt] at h
    simp only [noCheckAlts, Bool.and_eq_true] at ha
    exact noCheckAlts_nth ha.2 h

end AranyaV.Finish
