import AranyaV.Proofs.Sync
import AranyaV.Proofs.SyncQueue
/-!
The loop invariant of `find_needed_segments` (`fnsLoop` over the C21 queue model).

Fixed context: a well-formed store `s`, the resolved have-locations `haves`, the locations the
traversal was seeded with (`starts`).  `Cov l` = `l` is an ancestor-or-self of a have-location.
Ghost state: `F`, the list of all entries flushed from the pending queue so far (of which
`collected` keeps the `SEGMENT_BUFFER_MAX` lowest).

Invariant (`Inv`): queue entries are command locations reachable from a start; covered flags
are sound (`Cov`); pending / flushed entries are *justified* starts (`Just`: the segment's first
command, or the command before is covered); and every command location reachable from a start is
*accounted for* (`Acc`): covered, or in the range of a flushed or pending entry, or still below
an entry of the heads queue.
-/
namespace AranyaV.Sync
open AranyaV.Queue AranyaV.Segments

/-! ## definitions -/

/-- ancestor-or-self of a have-location -/
def Cov (s : Store) (haves : List Loc) (l : Loc) : Prop := ∃ h ∈ haves, AncS s l h

/-- a justified start of a to-send entry: a command location that is its segment's first command
or whose predecessor in the segment is covered -/
def Just (s : Store) (haves : List Loc) (e : Loc) : Prop :=
  ∃ g, s.seg? e.seg = some g ∧ g.first ≤ e.mc ∧ e.mc < g.first + g.ids.length ∧
    (e.mc = g.first ∨ Cov s haves ⟨e.mc - 1, e.seg⟩)

/-- the whole segment is covered -/
def FullCov (s : Store) (haves : List Loc) (S : Nat) : Prop :=
  ∃ g, s.seg? S = some g ∧ 0 < g.ids.length ∧ Cov s haves ⟨g.first + g.ids.length - 1, S⟩

def Reach (s : Store) (starts : List Loc) (l : Loc) : Prop := ∃ x ∈ starts, AncS s l x

/-- an entry that starts at its segment's first command is reachable from a start -/
def FirstReach (s : Store) (starts : List Loc) (e : Loc) : Prop :=
  ∀ g, s.seg? e.seg = some g → e.mc = g.first → Reach s starts e

/-- `l` is accounted for -/
def Acc (s : Store) (haves : List Loc) (hq pq : Queue) (F : List Loc) (l : Loc) : Prop :=
  Cov s haves l ∨
  (∃ e ∈ F, e.seg = l.seg ∧ e.mc ≤ l.mc) ∨
  (∃ m, pq.lookup l.seg = some (m, false) ∧ m ≤ l.mc) ∨
  (∃ S m c, hq.lookup S = some (m, c) ∧ AncS s l ⟨m, S⟩)

structure Inv (s : Store) (haves starts : List Loc) (hq pq : Queue) (F rem : List Loc) : Prop where
  hq1 : OnePerSeg hq
  pq1 : OnePerSeg pq
  hqv : ∀ S m c, hq.lookup S = some (m, c) →
    s.valid ⟨m, S⟩ = true ∧ Reach s starts ⟨m, S⟩ ∧ (c = true → Cov s haves ⟨m, S⟩)
  pqu : ∀ S m, pq.lookup S = some (m, false) → Just s haves ⟨m, S⟩ ∧ FirstReach s starts ⟨m, S⟩
  pqc : ∀ S m, pq.lookup S = some (m, true) → FullCov s haves S
  fj : ∀ e ∈ F, Just s haves e ∧ FirstReach s starts e
  reach : ∀ l, s.valid l = true → Reach s starts l → Acc s haves hq pq F l
  rem : ∀ h ∈ rem, h ∈ haves

/-! ## basic facts -/

theorem Cov.down {s : Store} {haves : List Loc} {a b : Loc} (h : Cov s haves b) (hab : AncS s a b) :
    Cov s haves a := by
  obtain ⟨x, hx, hbx⟩ := h
  exact ⟨x, hx, hab.trans hbx⟩

theorem Reach.down {s : Store} {starts : List Loc} {a b : Loc} (h : Reach s starts b)
    (hab : AncS s a b) : Reach s starts a := by
  obtain ⟨x, hx, hbx⟩ := h
  exact ⟨x, hx, hab.trans hbx⟩

/-- two command locations of one segment: the lower is an ancestor-or-self of the higher -/
theorem chain_seg {s : Store} {g : Seg} {S a b : Nat} (hg : s.seg? S = some g)
    (h1 : g.first ≤ a) (h2 : a ≤ b) (h3 : b < g.first + g.ids.length) : AncS s ⟨a, S⟩ ⟨b, S⟩ :=
  chain hg a h1 b h2 h3

theorem Just.valid {s : Store} {haves : List Loc} {e : Loc} (h : Just s haves e) :
    s.valid e = true := by
  obtain ⟨g, hg, h1, h2, _⟩ := h
  exact valid_of_seg hg h1 h2

/-- below a justified start everything in the segment is covered -/
theorem Just.cov_below {s : Store} {haves : List Loc} {S m : Nat} (h : Just s haves ⟨m, S⟩)
    {g : Seg} (hg : s.seg? S = some g) {a : Nat} (h1 : g.first ≤ a) (h2 : a < m) :
    Cov s haves ⟨a, S⟩ := by
  obtain ⟨g', hg', f1, f2, f3⟩ := h
  simp only at hg' f1 f2 f3
  rw [hg] at hg'; cases hg'
  rcases f3 with f3 | f3
  · omega
  · exact f3.down (chain_seg hg h1 (by omega) (by omega))

theorem FullCov.cov {s : Store} {haves : List Loc} {S : Nat} (h : FullCov s haves S) {l : Loc}
    (hl : s.valid l = true) (hs : l.seg = S) : Cov s haves l := by
  obtain ⟨g, hg, hpos, hc⟩ := h
  obtain ⟨g', hg', h1, h2⟩ := valid_iff.mp hl
  rw [hs, hg] at hg'; cases hg'
  have : AncS s l ⟨g.first + g.ids.length - 1, S⟩ := by
    have := chain_seg hg h1 (show l.mc ≤ g.first + g.ids.length - 1 by omega) (by omega)
    cases l; simp at hs; subst hs; exact this
  exact hc.down this

/-! ## pushing a list of priors -/

theorem pushPriorsCov_nil (q : Queue) (c : Bool) : pushPriorsCov specOps q [] c = q := rfl

theorem pushPriorsCov_cons (q : Queue) (p : Loc) (ps : List Loc) (c : Bool) :
    pushPriorsCov specOps q (p :: ps) c = pushPriorsCov specOps (q.pushCovered p c) ps c := rfl

/-- what one `push_covered` does to the recorded entries, in the form the invariant needs -/
theorem push_spec {q : Queue} (hq : OnePerSeg q) (p : Loc) (c : Bool) :
    OnePerSeg (q.pushCovered p c) ∧
    (∀ S m' c', (q.pushCovered p c).lookup S = some (m', c') →
      (∃ c0, q.lookup S = some (m', c0) ∧ (c' = true → c0 = true ∨ (c = true ∧ p = ⟨m', S⟩))) ∨
      (p = ⟨m', S⟩ ∧ (c' = true → c = true))) ∧
    (∀ S m0 c0, q.lookup S = some (m0, c0) →
      ∃ m' c', (q.pushCovered p c).lookup S = some (m', c') ∧ m0 ≤ m') ∧
    (∃ m' c', (q.pushCovered p c).lookup p.seg = some (m', c') ∧ p.mc ≤ m') ∧
    (∀ S, S ≠ p.seg → (q.pushCovered p c).lookup S = q.lookup S) := by
  obtain ⟨h1, h2, h3⟩ := push_rules q p c hq
  refine ⟨h1, ?_, ?_, ?_, h3⟩
  · intro S m' c' hl
    by_cases hS : S = p.seg
    · subst hS
      rw [h2] at hl
      cases hold : q.lookup p.seg with
      | none =>
        rw [hold] at hl
        simp only [pushRule, Option.some.injEq, Prod.mk.injEq] at hl
        right
        refine ⟨?_, fun hc => by rw [hl.2]; exact hc⟩
        cases p; simp at hl ⊢; exact hl.1
      | some mw =>
        obtain ⟨m, w⟩ := mw
        rw [hold] at hl
        simp only [pushRule] at hl
        by_cases hgt : p.mc > m
        · simp only [hgt, if_true, Option.some.injEq, Prod.mk.injEq] at hl
          right
          refine ⟨?_, fun hc => by rw [hl.2]; exact hc⟩
          cases p; simp at hl ⊢; exact hl.1
        · simp only [hgt, if_false] at hl
          by_cases heq : p.mc = m
          · simp only [heq, if_true, Option.some.injEq, Prod.mk.injEq] at hl
            left
            refine ⟨w, by rw [← hl.1], ?_⟩
            intro hc
            rw [← hl.2] at hc
            rcases Bool.or_eq_true_iff.mp hc with hw | hcc
            · exact Or.inl hw
            · right
              refine ⟨hcc, ?_⟩
              cases p; simp at heq hl ⊢; rw [heq]; exact hl.1
          · simp only [heq, if_false, Option.some.injEq, Prod.mk.injEq] at hl
            left
            exact ⟨w, by rw [← hl.1], fun hc => Or.inl (by rw [← hl.2] at hc; exact hc)⟩
    · rw [h3 S hS] at hl
      exact Or.inl ⟨c', hl, fun hc => Or.inl hc⟩
  · intro S m0 c0 hl
    by_cases hS : S = p.seg
    · subst hS
      rw [h2, hl]
      simp only [pushRule]
      by_cases hgt : p.mc > m0
      · exact ⟨p.mc, c, by simp [hgt], by omega⟩
      · by_cases heq : p.mc = m0
        · exact ⟨m0, c0 || c, by simp [heq], Nat.le_refl _⟩
        · exact ⟨m0, c0, by simp [hgt, heq], Nat.le_refl _⟩
    · exact ⟨m0, c0, by rw [h3 S hS]; exact hl, Nat.le_refl _⟩
  · rw [h2]
    cases hold : q.lookup p.seg with
    | none => exact ⟨p.mc, c, by simp [pushRule], Nat.le_refl _⟩
    | some mw =>
      obtain ⟨m, w⟩ := mw
      simp only [pushRule]
      by_cases hgt : p.mc > m
      · exact ⟨p.mc, c, by simp [hgt], Nat.le_refl _⟩
      · by_cases heq : p.mc = m
        · exact ⟨m, w || c, by simp [heq], by omega⟩
        · exact ⟨m, w, by simp [hgt, heq], by omega⟩

/-- pushing all priors with one flag -/
theorem pushPriors_spec' (ps : List Loc) (c : Bool) : ∀ {q : Queue}, OnePerSeg q →
    OnePerSeg (pushPriorsCov specOps q ps c) ∧
    (∀ S m' c', (pushPriorsCov specOps q ps c).lookup S = some (m', c') →
      (∃ c0, q.lookup S = some (m', c0) ∧ (c' = true → c0 = true ∨ (c = true ∧ (⟨m', S⟩ : Loc) ∈ ps))) ∨
      ((⟨m', S⟩ : Loc) ∈ ps ∧ (c' = true → c = true))) ∧
    (∀ S m0 c0, q.lookup S = some (m0, c0) →
      ∃ m' c', (pushPriorsCov specOps q ps c).lookup S = some (m', c') ∧ m0 ≤ m') ∧
    (∀ p ∈ ps, ∃ m' c', (pushPriorsCov specOps q ps c).lookup p.seg = some (m', c') ∧ p.mc ≤ m') := by
  induction ps with
  | nil =>
    intro q hq
    refine ⟨hq, ?_, ?_, ?_⟩
    · intro S m' c' hl; exact Or.inl ⟨c', hl, fun h => Or.inl h⟩
    · intro S m0 c0 hl; exact ⟨m0, c0, hl, Nat.le_refl _⟩
    · intro p hp; cases hp
  | cons p ps ih =>
    intro q hq
    obtain ⟨a1, a2, a3, a4, _⟩ := push_spec hq p c
    obtain ⟨b1, b2, b3, b4⟩ := ih a1
    rw [pushPriorsCov_cons]
    refine ⟨b1, ?_, ?_, ?_⟩
    · intro S m' c' hl
      rcases b2 S m' c' hl with ⟨c0, h0, hc0⟩ | ⟨hmem, hc⟩
      · rcases a2 S m' c0 h0 with ⟨c00, h00, hc00⟩ | ⟨hp, hcp⟩
        · left
          refine ⟨c00, h00, fun hc' => ?_⟩
          rcases hc0 hc' with h | ⟨h1, h2⟩
          · rcases hc00 h with h | ⟨h1, h2⟩
            · exact Or.inl h
            · exact Or.inr ⟨h1, by rw [h2]; exact List.mem_cons_self ..⟩
          · exact Or.inr ⟨h1, List.mem_cons_of_mem _ h2⟩
        · right
          refine ⟨by rw [← hp]; exact List.mem_cons_self .., fun hc' => ?_⟩
          rcases hc0 hc' with h | ⟨h1, _⟩
          · exact hcp h
          · exact h1
      · exact Or.inr ⟨List.mem_cons_of_mem _ hmem, hc⟩
    · intro S m0 c0 hl
      obtain ⟨m1, c1, h1, hle1⟩ := a3 S m0 c0 hl
      obtain ⟨m2, c2, h2, hle2⟩ := b3 S m1 c1 h1
      exact ⟨m2, c2, h2, by omega⟩
    · intro x hx
      rcases List.mem_cons.mp hx with rfl | hx'
      · obtain ⟨m1, c1, h1, hle1⟩ := a4
        obtain ⟨m2, c2, h2, hle2⟩ := b3 _ m1 c1 h1
        exact ⟨m2, c2, h2, by omega⟩
      · exact b4 x hx'

end AranyaV.Sync

namespace AranyaV.Sync
open AranyaV.Queue AranyaV.Segments

/-! ## one iteration: after the pop and the flush, before the visit -/

/-- the state after `pop_covered` returned `head` and the pending queue was flushed -/
structure Mid (s : Store) (haves starts : List Loc) (hq pq : Queue) (F : List Loc) (head : Loc) :
    Prop where
  hq1 : OnePerSeg hq
  pq1 : OnePerSeg pq
  hqv : ∀ S m c, hq.lookup S = some (m, c) →
    s.valid ⟨m, S⟩ = true ∧ Reach s starts ⟨m, S⟩ ∧ (c = true → Cov s haves ⟨m, S⟩)
  pqu : ∀ S m, pq.lookup S = some (m, false) → Just s haves ⟨m, S⟩ ∧ FirstReach s starts ⟨m, S⟩
  pqc : ∀ S m, pq.lookup S = some (m, true) → FullCov s haves S
  fj : ∀ e ∈ F, Just s haves e ∧ FirstReach s starts e
  reach : ∀ l, s.valid l = true → Reach s starts l → Acc s haves hq pq F l ∨ AncS s l head

/-- priors of a segment are ancestors of its first command -/
theorem prior_anc {s : Store} {g : Seg} {S : Nat} (hg : s.seg? S = some g) (hpos : 0 < g.ids.length)
    {p : Loc} (hp : p ∈ g.prior.toList) : AncS s p ⟨g.first, S⟩ := by
  have : s.parents ⟨g.first, S⟩ = g.prior.toList :=
    parents_first (s := s) (l := ⟨g.first, S⟩) hg rfl hpos
  exact AncS.step (AncS.refl p) (by rw [this]; exact hp)

/-- The common end of the three visit cases.  `hq2` is the heads queue after pushing the priors of
the popped segment `P` (all with flag `c`), `pq2` the pending queue after the case's update, which
only touched segment `P` and accounts for every command of `P` that was accounted through the
pending queue before or lies at or below the popped location. -/
theorem visit_finish {s : Store} (hwf : WF s) {haves starts : List Loc} {hq1 pq1 pq2 : Queue}
    {F rem' : List Loc} {head : Loc} {g : Seg} {c : Bool}
    (hm : Mid s haves starts hq1 pq1 F head)
    (hg : s.seg? head.seg = some g) (hv : s.valid head = true) (hreach : Reach s starts head)
    (hcov : c = true → Cov s haves ⟨g.first, head.seg⟩)
    (q1 : OnePerSeg pq2)
    (q2 : ∀ S, S ≠ head.seg → pq2.lookup S = pq1.lookup S)
    (q3u : ∀ m, pq2.lookup head.seg = some (m, false) →
      Just s haves ⟨m, head.seg⟩ ∧ FirstReach s starts ⟨m, head.seg⟩)
    (q3c : ∀ m, pq2.lookup head.seg = some (m, true) → FullCov s haves head.seg)
    (q4 : ∀ l, s.valid l = true → l.seg = head.seg →
      (Cov s haves l ∨ (∃ m, pq1.lookup head.seg = some (m, false) ∧ m ≤ l.mc) ∨ l.mc ≤ head.mc) →
      Cov s haves l ∨ (∃ m, pq2.lookup head.seg = some (m, false) ∧ m ≤ l.mc))
    (hrem : ∀ h ∈ rem', h ∈ haves) :
    Inv s haves starts (pushPriorsCov specOps hq1 g.prior.toList c) pq2 F rem' := by
  obtain ⟨g', hg', hf1, hf2⟩ := valid_iff.mp hv
  rw [hg] at hg'; cases hg'
  have hpos : 0 < g.ids.length := by omega
  obtain ⟨b1, b2, b3, b4⟩ := pushPriors_spec' g.prior.toList c hm.hq1
  have hfirst_head : AncS s ⟨g.first, head.seg⟩ head := by
    have := chain_seg hg (Nat.le_refl _) hf1 hf2
    cases head; exact this
  have hprior : ∀ p ∈ g.prior.toList,
      s.valid p = true ∧ Reach s starts p ∧ (c = true → Cov s haves p) := by
    intro p hp
    have hanc := prior_anc hg hpos hp
    exact ⟨(hwf.priors _ g hg p hp).1, hreach.down (hanc.trans hfirst_head),
      fun hc => (hcov hc).down hanc⟩
  -- entries of the new heads queue
  have hqv2 : ∀ S m cc, (pushPriorsCov specOps hq1 g.prior.toList c).lookup S = some (m, cc) →
      s.valid ⟨m, S⟩ = true ∧ Reach s starts ⟨m, S⟩ ∧ (cc = true → Cov s haves ⟨m, S⟩) := by
    intro S m cc hl
    rcases b2 S m cc hl with ⟨c0, h0, hc0⟩ | ⟨hmem, hc⟩
    · obtain ⟨v, r, cv⟩ := hm.hqv S m c0 h0
      refine ⟨v, r, fun hcc => ?_⟩
      rcases hc0 hcc with h | ⟨h1, h2⟩
      · exact cv h
      · exact (hprior _ h2).2.2 h1
    · obtain ⟨v, r, cv⟩ := hprior _ hmem
      exact ⟨v, r, fun hcc => cv (hc hcc)⟩
  refine ⟨b1, q1, hqv2, ?_, ?_, hm.fj, ?_, hrem⟩
  · intro S m hl
    by_cases hS : S = head.seg
    · subst hS; exact q3u m hl
    · rw [q2 S hS] at hl; exact hm.pqu S m hl
  · intro S m hl
    by_cases hS : S = head.seg
    · subst hS; exact q3c m hl
    · rw [q2 S hS] at hl; exact hm.pqc S m hl
  · -- every reachable command location is accounted for
    intro l hl hr
    -- an entry of the old heads queue survives (possibly raised)
    have via_hq : ∀ S m cc, hq1.lookup S = some (m, cc) → AncS s l ⟨m, S⟩ →
        Acc s haves (pushPriorsCov specOps hq1 g.prior.toList c) pq2 F l := by
      intro S m cc h0 hanc
      obtain ⟨m', c', h', hle⟩ := b3 S m cc h0
      obtain ⟨v', _, _⟩ := hqv2 S m' c' h'
      obtain ⟨v, _, _⟩ := hm.hqv S m cc h0
      have : AncS s ⟨m, S⟩ ⟨m', S⟩ := chain_loc v v' rfl hle
      exact Or.inr (Or.inr (Or.inr ⟨S, m', c', h', hanc.trans this⟩))
    have via_q4 : l.seg = head.seg →
        (Cov s haves l ∨ (∃ m, pq1.lookup head.seg = some (m, false) ∧ m ≤ l.mc) ∨ l.mc ≤ head.mc) →
        Acc s haves (pushPriorsCov specOps hq1 g.prior.toList c) pq2 F l := by
      intro hs h
      rcases q4 l hl hs h with h | ⟨m, h1, h2⟩
      · exact Or.inl h
      · exact Or.inr (Or.inr (Or.inl ⟨m, by rw [hs]; exact h1, h2⟩))
    rcases hm.reach l hl hr with hacc | hanc
    · rcases hacc with h | h | ⟨m, h1, h2⟩ | ⟨S, m, cc, h1, h2⟩
      · exact Or.inl h
      · exact Or.inr (Or.inl h)
      · by_cases hs : l.seg = head.seg
        · exact via_q4 hs (Or.inr (Or.inl ⟨m, by rw [← hs]; exact h1, h2⟩))
        · exact Or.inr (Or.inr (Or.inl ⟨m, by rw [q2 _ hs]; exact h1, h2⟩))
      · exact via_hq S m cc h1 h2
    · -- below the popped location
      rcases descent hanc g hg hf1 with ⟨hs, _, hle⟩ | ⟨p, hp, hlp⟩
      · exact via_q4 hs (Or.inr (Or.inr hle))
      · obtain ⟨m', c', h', hle⟩ := b4 p hp
        obtain ⟨v', _, _⟩ := hqv2 p.seg m' c' h'
        have : AncS s p ⟨m', p.seg⟩ := chain_loc (hprior p hp).1 v' rfl hle
        exact Or.inr (Or.inr (Or.inr ⟨p.seg, m', c', h', hlp.trans this⟩))

end AranyaV.Sync

namespace AranyaV.Sync
open AranyaV.Queue AranyaV.Segments

/-! ## the flush before the visit -/

theorem mid_of_inv {s : Store} {haves starts : List Loc} {hq hq1 pq pq1 : Queue}
    {F rem em : List Loc} {head : Loc} {covered : Bool}
    (hi : Inv s haves starts hq pq F rem)
    (p1 : hq.lookup head.seg = some (head.mc, covered)) (p2 : OnePerSeg hq1)
    (p3 : ∀ t, t ≠ head.seg → hq1.lookup t = hq.lookup t)
    (p4 : hq1.lookup head.seg = none)
    (d1 : OnePerSeg pq1)
    (d2 : ∀ t m c, pq1.lookup t = some (m, c) → pq.lookup t = some (m, c))
    (d3 : ∀ t m, pq.lookup t = some (m, false) → pq1.lookup t = some (m, false) ∨ (⟨m, t⟩ : Loc) ∈ em)
    (d4 : ∀ x ∈ em, pq.lookup x.seg = some (x.mc, false)) :
    Mid s haves starts hq1 pq1 (F ++ em) head := by
  refine ⟨p2, d1, ?_, ?_, ?_, ?_, ?_⟩
  · intro S m c hl
    by_cases hS : S = head.seg
    · subst hS; rw [p4] at hl; cases hl
    · rw [p3 S hS] at hl; exact hi.hqv S m c hl
  · intro S m hl; exact hi.pqu S m (d2 S m false hl)
  · intro S m hl; exact hi.pqc S m (d2 S m true hl)
  · intro e he
    rcases List.mem_append.mp he with he | he
    · exact hi.fj e he
    · have := hi.pqu e.seg e.mc (d4 e he)
      cases e; exact this
  · intro l hl hr
    rcases hi.reach l hl hr with h | ⟨e, he, h1, h2⟩ | ⟨m, h1, h2⟩ | ⟨S, m, c, h1, h2⟩
    · exact Or.inl (Or.inl h)
    · exact Or.inl (Or.inr (Or.inl ⟨e, List.mem_append_left _ he, h1, h2⟩))
    · rcases d3 _ m h1 with h | h
      · exact Or.inl (Or.inr (Or.inr (Or.inl ⟨m, h, h2⟩)))
      · exact Or.inl (Or.inr (Or.inl ⟨⟨m, l.seg⟩, List.mem_append_right _ h, rfl, h2⟩))
    · by_cases hS : S = head.seg
      · subst hS
        rw [p1] at h1
        simp only [Option.some.injEq, Prod.mk.injEq] at h1
        right
        rw [← h1.1] at h2
        cases head; exact h2
      · exact Or.inl (Or.inr (Or.inr (Or.inr ⟨S, m, c, by rw [p3 S hS]; exact h1, h2⟩)))

theorem option_filter_some {α : Type} {p : α → Bool} {o : Option α} {x : α}
    (h : o.filter p = some x) : o = some x ∧ p x = true := by
  cases o with
  | none => simp [Option.filter] at h
  | some y =>
    simp only [Option.filter] at h
    by_cases hp : p y = true
    · simp only [hp, if_true, Option.some.injEq] at h
      subst h; exact ⟨rfl, hp⟩
    · simp [hp] at h

/-- the two ways the pending queue is (not) flushed both satisfy the hypotheses of `mid_of_inv` -/
theorem drain_rel {pq : Queue} (h : OnePerSeg pq) (thr : Nat) :
    OnePerSeg (pq.drainAbove thr).2 ∧
    (∀ t m c, (pq.drainAbove thr).2.lookup t = some (m, c) → pq.lookup t = some (m, c)) ∧
    (∀ t m, pq.lookup t = some (m, false) →
      (pq.drainAbove thr).2.lookup t = some (m, false) ∨ (⟨m, t⟩ : Loc) ∈ (pq.drainAbove thr).1) ∧
    (∀ x ∈ (pq.drainAbove thr).1, pq.lookup x.seg = some (x.mc, false)) := by
  obtain ⟨e1, e2, e3⟩ := drain_lookup h thr
  refine ⟨e2, ?_, ?_, ?_⟩
  · intro t m c hl
    rw [e3] at hl
    exact (option_filter_some hl).1
  · intro t m hl
    by_cases hle : m ≤ thr
    · left; rw [e3, hl]; simp [Option.filter, hle]
    · right; rw [e1]; exact ⟨hl, by show thr < m; omega⟩
  · intro x hx; exact ((e1 x).mp hx).1

/-! ## pushing onto the pending queue -/

/-- `pending.push(loc)` (uncovered) in lookup form -/
theorem push_unc_spec {q : Queue} (hq : OnePerSeg q) (p : Loc) :
    OnePerSeg (q.pushCovered p false) ∧
    (q.pushCovered p false).lookup p.seg =
      (match q.lookup p.seg with
       | none => some (p.mc, false)
       | some (m, w) => if p.mc > m then some (p.mc, false) else some (m, w)) ∧
    ∀ t, t ≠ p.seg → (q.pushCovered p false).lookup t = q.lookup t := by
  obtain ⟨h1, h2, h3⟩ := push_rules q p false hq
  refine ⟨h1, ?_, h3⟩
  rw [h2]
  cases q.lookup p.seg with
  | none => rfl
  | some mw =>
    obtain ⟨m, w⟩ := mw
    simp only [pushRule]
    by_cases hgt : p.mc > m
    · simp [hgt]
    · by_cases heq : p.mc = m <;> simp [hgt, heq]

theorem scanHave_some {seg shortest : Nat} {l : List Loc} {h : Loc}
    (hs : scanHave seg shortest l = some h) : h ∈ l ∧ h.seg = seg ∧ shortest ≤ h.mc := by
  induction l with
  | nil => simp [scanHave] at hs
  | cons x xs ih =>
    unfold scanHave at hs
    by_cases h1 : x.mc < shortest
    · simp [h1] at hs
    · simp only [h1, if_false] at hs
      by_cases h2 : x.seg = seg
      · simp only [h2, if_true, Option.some.injEq] at hs
        subst hs
        exact ⟨List.mem_cons_self .., h2, by omega⟩
      · simp only [h2, if_false] at hs
        obtain ⟨a, b, c⟩ := ih hs
        exact ⟨List.mem_cons_of_mem _ a, b, c⟩

end AranyaV.Sync

namespace AranyaV.Sync
open AranyaV.Queue AranyaV.Segments

/-! ## the visit -/

theorem longest_ok {g : Seg} (hpos : 0 < g.ids.length) : g.longest = .ok (g.first + (g.ids.length - 1)) := by
  unfold Seg.longest
  have : g.ids.isEmpty = false := by
    cases h : g.ids with
    | nil => simp [h] at hpos
    | cons _ _ => rfl
  simp [this]

/-- every command of the visited segment is accounted for once the pending queue records, for
that segment, a justified uncovered entry or a covered one -/
theorem seg_accounted {s : Store} {haves : List Loc} {pq2 : Queue} {P : Nat} {g : Seg}
    (hg : s.seg? P = some g)
    (hent : (∃ m, pq2.lookup P = some (m, false) ∧ Just s haves ⟨m, P⟩) ∨
      (∃ m, pq2.lookup P = some (m, true) ∧ FullCov s haves P))
    {l : Loc} (hl : s.valid l = true) (hs : l.seg = P) :
    Cov s haves l ∨ (∃ m, pq2.lookup P = some (m, false) ∧ m ≤ l.mc) := by
  obtain ⟨g', hg', h1, h2⟩ := valid_iff.mp hl
  rw [hs, hg] at hg'; cases hg'
  rcases hent with ⟨m, hm, hj⟩ | ⟨m, _, hf⟩
  · by_cases hle : m ≤ l.mc
    · exact Or.inr ⟨m, hm, hle⟩
    · left
      have := hj.cov_below hg h1 (show l.mc < m by omega)
      cases l; simp at hs; subst hs; exact this
  · exact Or.inl (hf.cov hl hs)

theorem fnsVisit_inv {s : Store} (hwf : WF s) {haves starts : List Loc}
    (hhv : ∀ h ∈ haves, s.valid h = true)
    {hq1 pq1 : Queue} {F coll1 rem : List Loc} {head : Loc} {covered : Bool}
    {st' : FnsState Queue}
    (hm : Mid s haves starts hq1 pq1 F head) (hrem : ∀ h ∈ rem, h ∈ haves)
    (hv : s.valid head = true) (hreach : Reach s starts head)
    (hcovd : covered = true → Cov s haves head)
    (hvis : fnsVisit specOps s hq1 pq1 coll1 rem head covered = .ok st') :
    Inv s haves starts st'.hq st'.pq F st'.rem ∧ st'.coll = coll1 := by
  obtain ⟨g, hg, hf1, hf2⟩ := valid_iff.mp hv
  have hpos : 0 < g.ids.length := by omega
  have hgi := seg?_idx hg
  unfold fnsVisit at hvis
  rw [hg] at hvis
  simp only [longest_ok hpos] at hvis
  have hfirst_head : AncS s ⟨g.first, head.seg⟩ head := by
    have := chain_seg hg (Nat.le_refl _) hf1 hf2
    cases head; exact this
  cases covered with
  | true =>
    -- Case 1
    simp only [if_true, Except.ok.injEq] at hvis
    subst hvis
    refine ⟨?_, rfl⟩
    have hch := hcovd rfl
    obtain ⟨c1, c2, c3⟩ := cover_up_to_spec pq1 head.seg head.mc (g.first + (g.ids.length - 1)) hm.pq1
    apply visit_finish hwf hm hg hv hreach (fun _ => hch.down hfirst_head) c1 c3
    · -- q3u
      intro m hl
      rw [c2] at hl
      cases hold : pq1.lookup head.seg with
      | none => rw [hold] at hl; simp [coverRule] at hl
      | some mw =>
        obtain ⟨m0, w⟩ := mw
        rw [hold] at hl
        cases w with
        | true => simp [coverRule] at hl
        | false =>
          simp only [coverRule] at hl
          by_cases h1 : head.mc ≥ g.first + (g.ids.length - 1)
          · simp [h1] at hl
          · simp only [h1, if_false] at hl
            by_cases h2 : head.mc ≥ m0
            · simp only [h2, if_true, Option.some.injEq, Prod.mk.injEq, and_true] at hl
              subst hl
              refine ⟨⟨g, hg, by simp; omega, by simp; omega, Or.inr ?_⟩, ?_⟩
              · simp only [Nat.add_sub_cancel]
                cases head; exact hch
              · intro g' hg' he
                simp only at hg' he
                rw [hg] at hg'; cases hg'; omega
            · simp only [h2, if_false, Option.some.injEq, Prod.mk.injEq, and_true] at hl
              subst hl
              exact hm.pqu _ _ hold
    · -- q3c
      intro m hl
      rw [c2] at hl
      cases hold : pq1.lookup head.seg with
      | none => rw [hold] at hl; simp [coverRule] at hl
      | some mw =>
        obtain ⟨m0, w⟩ := mw
        rw [hold] at hl
        cases w with
        | true => exact hm.pqc _ _ hold
        | false =>
          simp only [coverRule] at hl
          by_cases h1 : head.mc ≥ g.first + (g.ids.length - 1)
          · refine ⟨g, hg, hpos, ?_⟩
            have : g.first + g.ids.length - 1 = head.mc := by omega
            rw [this]; cases head; exact hch
          · simp only [h1, if_false] at hl
            by_cases h2 : head.mc ≥ m0 <;> simp [h2] at hl
    · -- q4
      intro l hl hs hpre
      obtain ⟨g', hg', l1, l2⟩ := valid_iff.mp hl
      rw [hs, hg] at hg'; cases hg'
      by_cases hle : l.mc ≤ head.mc
      · left
        have : AncS s l head := chain_loc hl hv hs hle
        exact hch.down this
      · rcases hpre with h | ⟨m, h1, h2⟩ | h
        · exact Or.inl h
        · right
          rw [c2, h1]
          simp only [coverRule]
          have h1' : ¬ head.mc ≥ g.first + (g.ids.length - 1) := by omega
          simp only [h1', if_false]
          by_cases h2' : head.mc ≥ m
          · exact ⟨head.mc + 1, by simp [h2'], by omega⟩
          · exact ⟨m, by simp [h2'], h2⟩
        · omega
    · exact hrem
  | false =>
    simp only [Bool.false_eq_true, if_false] at hvis
    have hrem1 : ∀ h ∈ rem.dropWhile (fun h => decide (h.mc > g.first + (g.ids.length - 1))), h ∈ haves :=
      fun h hh => hrem h ((List.dropWhile_sublist _).subset hh)
    cases hscan : scanHave head.seg g.first
        (rem.dropWhile (fun h => decide (h.mc > g.first + (g.ids.length - 1)))) with
    | some hloc =>
      -- Case 2
      rw [hscan] at hvis
      simp only [Except.ok.injEq] at hvis
      subst hvis
      refine ⟨?_, rfl⟩
      obtain ⟨hmem, hlseg, hlmc⟩ := scanHave_some hscan
      have hlv : s.valid hloc = true := hhv _ (hrem1 _ hmem)
      have hlcov : Cov s haves hloc := ⟨hloc, hrem1 _ hmem, AncS.refl _⟩
      obtain ⟨gl, hgl, k1, k2⟩ := valid_iff.mp hlv
      rw [hlseg, hg] at hgl; cases hgl
      have hfirst_hloc : AncS s ⟨g.first, head.seg⟩ hloc := by
        have := chain_seg hg (Nat.le_refl _) hlmc k2
        cases hloc; simp at hlseg; subst hlseg; exact this
      simp only [specOps]
      by_cases hpart : hloc.mc < g.first + (g.ids.length - 1)
      · simp only [hpart, if_true]
        obtain ⟨u1, u2, u3⟩ := push_unc_spec hm.pq1 ⟨hloc.mc + 1, head.seg⟩
        simp only at u2 u3
        have hnewj : Just s haves ⟨hloc.mc + 1, head.seg⟩ := by
          refine ⟨g, hg, by simp; omega, by simp; omega, Or.inr ?_⟩
          simp only [Nat.add_sub_cancel]
          cases hloc; simp at hlseg; subst hlseg; exact hlcov
        -- what the pending queue records for the segment afterwards
        have hent : (∃ m, (pq1.pushCovered ⟨hloc.mc + 1, head.seg⟩ false).lookup head.seg = some (m, false) ∧
              Just s haves ⟨m, head.seg⟩ ∧ FirstReach s starts ⟨m, head.seg⟩) ∨
            (∃ m, (pq1.pushCovered ⟨hloc.mc + 1, head.seg⟩ false).lookup head.seg = some (m, true) ∧
              pq1.lookup head.seg = some (m, true)) := by
          rw [u2]
          have hfr : FirstReach s starts ⟨hloc.mc + 1, head.seg⟩ := by
            intro g' hg' he
            simp only at hg' he
            rw [hg] at hg'; cases hg'; omega
          cases hold : pq1.lookup head.seg with
          | none => exact Or.inl ⟨_, rfl, hnewj, hfr⟩
          | some mw =>
            obtain ⟨m0, w⟩ := mw
            simp only
            by_cases hgt : hloc.mc + 1 > m0
            · simp only [hgt, if_true]; exact Or.inl ⟨_, rfl, hnewj, hfr⟩
            · simp only [hgt, if_false]
              cases w with
              | false => exact Or.inl ⟨m0, rfl, hm.pqu _ _ hold⟩
              | true => exact Or.inr ⟨m0, rfl, rfl⟩
        apply visit_finish hwf hm hg hv hreach (fun _ => hlcov.down hfirst_hloc) u1 u3
        · intro m hl
          rcases hent with ⟨m', h1, h2⟩ | ⟨m', h1, _⟩
          · rw [h1] at hl; simp only [Option.some.injEq, Prod.mk.injEq, and_true] at hl
            subst hl; exact h2
          · rw [h1] at hl; simp at hl
        · intro m hl
          rcases hent with ⟨m', h1, _⟩ | ⟨m', h1, h2⟩
          · rw [h1] at hl; simp at hl
          · exact hm.pqc _ _ h2
        · intro l hl hs _
          apply seg_accounted hg _ hl hs
          rcases hent with ⟨m', h1, h2, _⟩ | ⟨m', h1, h2⟩
          · exact Or.inl ⟨m', h1, h2⟩
          · exact Or.inr ⟨m', h1, hm.pqc _ _ h2⟩
        · exact hrem1
      · simp only [hpart, if_false]
        have hfull : hloc.mc = g.first + g.ids.length - 1 := by omega
        apply visit_finish hwf hm hg hv hreach (fun _ => hlcov.down hfirst_hloc) hm.pq1 (fun _ _ => rfl)
        · intro m hl; exact hm.pqu _ _ hl
        · intro m hl; exact hm.pqc _ _ hl
        · intro l hl hs _
          left
          obtain ⟨g', hg', l1, l2⟩ := valid_iff.mp hl
          rw [hs, hg] at hg'; cases hg'
          exact hlcov.down (chain_loc hl hlv (hs.trans hlseg.symm) (by omega))
        · exact hrem1
    | none =>
      -- Case 3
      rw [hscan] at hvis
      simp only [Except.ok.injEq] at hvis
      subst hvis
      refine ⟨?_, rfl⟩
      simp only [specOps]
      have hfl : g.firstLoc = ⟨g.first, head.seg⟩ := by simp [Seg.firstLoc, hgi]
      rw [hfl]
      obtain ⟨u1, u2, u3⟩ := push_unc_spec hm.pq1 ⟨g.first, head.seg⟩
      simp only at u2 u3
      have hnewj : Just s haves ⟨g.first, head.seg⟩ :=
        ⟨g, hg, Nat.le_refl _, by simp; omega, Or.inl rfl⟩
      have hfr : FirstReach s starts ⟨g.first, head.seg⟩ := fun _ _ _ => hreach.down hfirst_head
      have hent : (∃ m, (pq1.pushCovered ⟨g.first, head.seg⟩ false).lookup head.seg = some (m, false) ∧
            Just s haves ⟨m, head.seg⟩ ∧ FirstReach s starts ⟨m, head.seg⟩) ∨
          (∃ m, (pq1.pushCovered ⟨g.first, head.seg⟩ false).lookup head.seg = some (m, true) ∧
            pq1.lookup head.seg = some (m, true)) := by
        rw [u2]
        cases hold : pq1.lookup head.seg with
        | none => exact Or.inl ⟨_, rfl, hnewj, hfr⟩
        | some mw =>
          obtain ⟨m0, w⟩ := mw
          simp only
          by_cases hgt : g.first > m0
          · simp only [hgt, if_true]; exact Or.inl ⟨_, rfl, hnewj, hfr⟩
          · simp only [hgt, if_false]
            cases w with
            | false => exact Or.inl ⟨m0, rfl, hm.pqu _ _ hold⟩
            | true => exact Or.inr ⟨m0, rfl, rfl⟩
      apply visit_finish hwf hm hg hv hreach (fun h => by cases h) u1 u3
      · intro m hl
        rcases hent with ⟨m', h1, h2⟩ | ⟨m', h1, _⟩
        · rw [h1] at hl; simp only [Option.some.injEq, Prod.mk.injEq, and_true] at hl
          subst hl; exact h2
        · rw [h1] at hl; simp at hl
      · intro m hl
        rcases hent with ⟨m', h1, _⟩ | ⟨m', h1, h2⟩
        · rw [h1] at hl; simp at hl
        · exact hm.pqc _ _ h2
      · intro l hl hs _
        apply seg_accounted hg _ hl hs
        rcases hent with ⟨m', h1, h2, _⟩ | ⟨m', h1, h2⟩
        · exact Or.inl ⟨m', h1, h2⟩
        · exact Or.inr ⟨m', h1, hm.pqc _ _ h2⟩
      · exact hrem1

end AranyaV.Sync

namespace AranyaV.Sync
open AranyaV.Queue AranyaV.Segments

/-! ## one iteration and the whole loop -/

/-- the flush satisfies the hypotheses of `mid_of_inv`, and `collected` absorbs what was emitted -/
theorem flush_rel {pq : Queue} (h : OnePerSeg pq) (cap : Nat) (coll : List Loc) (prev : Option Nat)
    (mc : Nat) :
    ∃ em : List Loc, (flushAbove specOps cap pq coll prev mc).2 = em.foldl (pushBounded cap) coll ∧
      OnePerSeg (flushAbove specOps cap pq coll prev mc).1 ∧
      (∀ t m c, (flushAbove specOps cap pq coll prev mc).1.lookup t = some (m, c) →
        pq.lookup t = some (m, c)) ∧
      (∀ t m, pq.lookup t = some (m, false) →
        (flushAbove specOps cap pq coll prev mc).1.lookup t = some (m, false) ∨ (⟨m, t⟩ : Loc) ∈ em) ∧
      (∀ x ∈ em, pq.lookup x.seg = some (x.mc, false)) := by
  unfold flushAbove
  by_cases hp : (prev != some mc) = true
  · simp only [hp, if_true]
    obtain ⟨a, b, c, d⟩ := drain_rel h mc
    exact ⟨(pq.drainAbove mc).1, rfl, a, b, c, d⟩
  · simp only [hp, Bool.false_eq_true, if_false]
    refine ⟨[], rfl, h, fun _ _ _ hl => hl, fun _ _ hl => Or.inl hl, ?_⟩
    intro x hx; cases hx

theorem fnsStep_inv {s : Store} (hwf : WF s) {haves starts : List Loc}
    (hhv : ∀ h ∈ haves, s.valid h = true) (cap : Nat)
    {st st' : FnsState Queue} {F : List Loc} {head : Loc} {covered : Bool} {hq1 : Queue}
    (hi : Inv s haves starts st.hq st.pq F st.rem)
    (hpop : st.hq.popCovered = (some (head, covered), hq1))
    (hstep : fnsStep specOps cap s st head covered hq1 = .ok st') :
    ∃ em : List Loc, Inv s haves starts st'.hq st'.pq (F ++ em) st'.rem ∧
      st'.coll = em.foldl (pushBounded cap) st.coll := by
  have hp := pop_lookup hi.hq1
  rw [hpop] at hp
  obtain ⟨p1, _, p2, p4, p3⟩ := hp
  obtain ⟨hv, hreach, hcv⟩ := hi.hqv _ _ _ p1
  have hv' : s.valid head = true := by cases head; exact hv
  have hreach' : Reach s starts head := by cases head; exact hreach
  have hcv' : covered = true → Cov s haves head := by cases head; exact hcv
  obtain ⟨em, e1, d1, d2, d3, d4⟩ := flush_rel hi.pq1 cap st.coll st.prev head.mc
  have hmid := mid_of_inv hi p1 p2 p3 p4 d1 d2 d3 d4
  unfold fnsStep at hstep
  obtain ⟨h1, h2⟩ := fnsVisit_inv hwf hhv hmid hi.rem hv' hreach' hcv' hstep
  exact ⟨em, h1, by rw [h2, e1]⟩

/-- no uncovered entry is left in the heads queue -/
def Final (hq : Queue) : Prop := ∀ S m, hq.lookup S ≠ some (m, false)

/-- relation between everything flushed (`F`) and what `collected` keeps (`K`): `K ⊆ F`, `K` is
closed downwards in max cut within `F`, and nothing is dropped before the buffer is full -/
structure Kept (cap : Nat) (F K : List Loc) : Prop where
  sub : ∀ e ∈ K, e ∈ F
  low : ∀ e ∈ K, ∀ e' ∈ F, e'.mc < e.mc → e' ∈ K
  len : K.length ≤ cap
  all : K.length < cap → ∀ e ∈ F, e ∈ K

theorem lastMaxIdx_none {l : List Loc} (h : lastMaxIdx l = none) : l = [] := by
  cases l with
  | nil => rfl
  | cons y ys =>
    unfold lastMaxIdx at h
    cases hr : lastMaxIdx ys with
    | none => rw [hr] at h; cases h
    | some j =>
      rw [hr] at h
      dsimp only at h
      by_cases hgt : y.mc > (ys.getD j y).mc
      · rw [if_pos hgt] at h; cases h
      · rw [if_neg hgt] at h; cases h

theorem lastMaxIdx_spec : ∀ (l : List Loc) (i : Nat), lastMaxIdx l = some i →
    ∃ hi : i < l.length, ∀ y ∈ l, y.mc ≤ (l[i]).mc := by
  intro l
  induction l with
  | nil => intro i h; simp [lastMaxIdx] at h
  | cons x xs ih =>
    intro i h
    unfold lastMaxIdx at h
    cases hr : lastMaxIdx xs with
    | none =>
      rw [hr] at h
      have hi0 : i = 0 := by cases h; rfl
      subst hi0
      have := lastMaxIdx_none hr
      subst this
      exact ⟨by simp, fun y hy => by simp at hy; subst hy; simp⟩
    | some j =>
      rw [hr] at h
      dsimp only at h
      obtain ⟨hj, hmax⟩ := ih j hr
      have hgd : xs.getD j x = xs[j] := by simp [List.getD, List.getElem?_eq_getElem hj]
      rw [hgd] at h
      by_cases hgt : x.mc > (xs[j]).mc
      · rw [if_pos hgt] at h
        have hi0 : i = 0 := by cases h; rfl
        subst hi0
        refine ⟨by simp, fun y hy => ?_⟩
        simp only [List.getElem_cons_zero]
        rcases List.mem_cons.mp hy with rfl | hy'
        · exact Nat.le_refl _
        · have := hmax y hy'; omega
      · rw [if_neg hgt] at h
        have hi1 : i = j + 1 := by cases h; rfl
        subst hi1
        refine ⟨by simp; omega, fun y hy => ?_⟩
        simp only [List.getElem_cons_succ]
        rcases List.mem_cons.mp hy with rfl | hy'
        · omega
        · exact hmax y hy'

theorem mem_set_of_ne {l : List Loc} {i : Nat} (hi : i < l.length) {x e : Loc} (he : e ∈ l)
    (hne : e.mc ≠ (l[i]).mc) : e ∈ l.set i x := by
  obtain ⟨k, hk, hke⟩ := List.mem_iff_getElem.mp he
  have hki : k ≠ i := by
    intro h; subst h; rw [hke] at hne; exact hne rfl
  rw [List.mem_iff_getElem]
  refine ⟨k, by simpa using hk, ?_⟩
  rw [List.getElem_set_ne (Ne.symm hki)]
  exact hke

theorem mem_set_cases {l : List Loc} {i : Nat} {x e : Loc} (he : e ∈ l.set i x) :
    e = x ∨ e ∈ l := by
  rcases List.mem_or_eq_of_mem_set he with h | h
  · exact Or.inr h
  · exact Or.inl h

theorem mem_set_self {l : List Loc} {i : Nat} (hi : i < l.length) (x : Loc) : x ∈ l.set i x := by
  rw [List.mem_iff_getElem]
  exact ⟨i, by simpa using hi, by simp⟩

theorem kept_push {cap : Nat} {F K : List Loc} (hk : Kept cap F K) (x : Loc) :
    Kept cap (F ++ [x]) (pushBounded cap K x) := by
  unfold pushBounded
  by_cases hlt : K.length < cap
  · simp only [hlt, if_true]
    have hall := hk.all hlt
    refine ⟨?_, ?_, by simp; omega, ?_⟩
    · intro e he
      rcases List.mem_append.mp he with h | h
      · exact List.mem_append_left _ (hk.sub e h)
      · exact List.mem_append_right _ h
    · intro e _ e' he' _
      rcases List.mem_append.mp he' with h | h
      · exact List.mem_append_left _ (hall e' h)
      · exact List.mem_append_right _ h
    · intro _ e he
      rcases List.mem_append.mp he with h | h
      · exact List.mem_append_left _ (hall e h)
      · exact List.mem_append_right _ h
  · simp only [hlt, if_false]
    have hlen : K.length = cap := by have := hk.len; omega
    cases hmi : lastMaxIdx K with
    | none =>
      -- only for an empty `K` (capacity 0)
      have hK := lastMaxIdx_none hmi
      subst hK
      simp only
      refine ⟨?_, ?_, by simp, ?_⟩
      · intro e he; cases he
      · intro e he; cases he
      · intro h; simp at hlen; omega
    | some i =>
      obtain ⟨hi, hmax⟩ := lastMaxIdx_spec K i hmi
      have hgd : (K.getD i x) = K[i] := by simp [List.getD, List.getElem?_eq_getElem hi]
      simp only [hgd]
      by_cases hx : x.mc < (K[i]).mc
      · simp only [hx, if_true]
        refine ⟨?_, ?_, by simp; omega, ?_⟩
        · intro e he
          rcases mem_set_cases he with rfl | h
          · simp
          · exact List.mem_append_left _ (hk.sub e h)
        · intro e he e' he' hlt'
          have he'K : e' = x ∨ e' ∈ K := by
            rcases List.mem_append.mp he' with h | h
            · right
              rcases mem_set_cases he with hex | h2
              · rw [hex] at hlt'
                exact hk.low _ (List.getElem_mem hi) e' h (by omega)
              · exact hk.low e h2 e' h hlt'
            · left; simpa using h
          rcases he'K with hex | h
          · rw [hex]; exact mem_set_self hi x
          · apply mem_set_of_ne hi h
            rcases mem_set_cases he with hex | h2
            · rw [hex] at hlt'; omega
            · have := hmax e h2; omega
        · intro h
          simp only [List.length_set] at h
          omega
      · simp only [hx, if_false]
        refine ⟨fun e he => List.mem_append_left _ (hk.sub e he), ?_, hk.len, ?_⟩
        · intro e he e' he' hlt'
          rcases List.mem_append.mp he' with h | h
          · exact hk.low e he e' h hlt'
          · have hex : e' = x := by simpa using h
            rw [hex] at hlt'
            have := hmax e he; omega
        · intro h; omega

theorem kept_fold {cap : Nat} (em : List Loc) : ∀ {F K : List Loc}, Kept cap F K →
    Kept cap (F ++ em) (em.foldl (pushBounded cap) K) := by
  induction em with
  | nil => intro F K h; simpa using h
  | cons x xs ih =>
    intro F K h
    have := ih (kept_push h x)
    simpa [List.foldl, List.append_assoc] using this

theorem kept_nil (cap : Nat) : Kept cap [] [] := by
  refine ⟨?_, ?_, by simp, ?_⟩
  · intro e he; cases he
  · intro e he; cases he
  · intro _ e he; cases he

end AranyaV.Sync

namespace AranyaV.Sync
open AranyaV.Queue AranyaV.Segments

/-! ## the loop -/

theorem fnsLoop_inv {s : Store} (hwf : WF s) {haves starts : List Loc}
    (hhv : ∀ h ∈ haves, s.valid h = true) (cap : Nat) :
    ∀ (n : Nat) (st st' : FnsState Queue) (F : List Loc),
      Inv s haves starts st.hq st.pq F st.rem → Kept cap F st.coll →
      fnsLoop specOps cap s n st = .ok st' →
      ∃ F', Inv s haves starts st'.hq st'.pq F' st'.rem ∧ Kept cap F' st'.coll ∧ Final st'.hq := by
  intro n
  induction n with
  | zero => intro st st' F _ _ h; simp [fnsLoop] at h
  | succ n ih =>
    intro st st' F hi hk h
    unfold fnsLoop at h
    have hsp : specOps.popCovered st.hq = st.hq.popCovered := rfl
    rw [hsp] at h
    cases hpop : st.hq.popCovered with
    | mk r hq1 =>
      rw [hpop] at h
      cases r with
      | none =>
        simp only [Except.ok.injEq] at h
        subst h
        have hp := pop_lookup hi.hq1
        rw [hpop] at hp
        refine ⟨F, hi, hk, ?_⟩
        intro S m hl
        rw [empty_lookup hp.1 S] at hl; cases hl
      | some hc =>
        obtain ⟨head, covered⟩ := hc
        simp only at h
        cases hstep : fnsStep specOps cap s st head covered hq1 with
        | error e => rw [hstep] at h; cases h
        | ok st1 =>
          rw [hstep] at h
          simp only at h
          obtain ⟨em, hi1, hc1⟩ := fnsStep_inv hwf hhv cap hi hpop hstep
          have hk1 : Kept cap (F ++ em) st1.coll := by rw [hc1]; exact kept_fold em hk
          by_cases hbrk : (specOps.allCovered st1.hq && !specOps.isEmpty st1.hq) = true
          · rw [if_pos hbrk] at h
            simp only [Except.ok.injEq] at h
            subst h
            refine ⟨F ++ em, hi1, hk1, ?_⟩
            have hall : st1.hq.allCovered = true := by
              have := (Bool.and_eq_true_iff.mp hbrk).1
              exact this
            exact allCovered_lookup hi1.hq1 hall
          · rw [if_neg hbrk] at h
            exact ih st1 st' (F ++ em) hi1 hk1 h

/-! ## seeding the heads queue -/

theorem minByMc_mem' {l : List Loc} {k : Loc} (h : minByMc l = some k) : k ∈ l := by
  induction l generalizing k with
  | nil => simp [minByMc] at h
  | cons x xs ih =>
    simp only [minByMc] at h
    cases hm : minByMc xs with
    | none => rw [hm] at h; simp at h; subst h; exact List.mem_cons_self ..
    | some m =>
      rw [hm] at h
      simp only at h
      by_cases hlt : m.mc < x.mc
      · rw [if_pos hlt] at h; simp at h; subst h
        exact List.mem_cons_of_mem _ (ih hm)
      · rw [if_neg hlt] at h; simp at h; subst h; exact List.mem_cons_self ..

theorem skipJumpLoop_spec {s : Store} (hwf : WF s) (target : Nat) :
    ∀ (n : Nat) (cur r : Loc), s.valid cur = true → skipJumpLoop s target n cur = .ok r →
      s.valid r = true ∧ AncS s r cur := by
  intro n
  induction n with
  | zero => intro cur r _ h; simp [skipJumpLoop] at h
  | succ n ih =>
    intro cur r hv h
    obtain ⟨g, hg, h1, h2⟩ := valid_iff.mp hv
    have hpos : 0 < g.ids.length := by omega
    unfold skipJumpLoop at h
    rw [hg] at h
    simp only at h
    have hfirst : AncS s ⟨g.first, cur.seg⟩ cur := by
      have := chain_seg hg (Nat.le_refl _) h1 h2
      cases cur; exact this
    cases hm : minByMc (g.skips.filter (fun k => decide (target ≤ k.mc ∧ k.mc < cur.mc))) with
    | some k =>
      rw [hm] at h
      simp only at h
      have hk : k ∈ g.skips := (List.mem_filter.mp (minByMc_mem' hm)).1
      have hks := hwf.skips _ g hg k hk
      obtain ⟨hrv, hra⟩ := ih k r hks.1 h
      have hgf : g.firstLoc = ⟨g.first, cur.seg⟩ := by simp [Seg.firstLoc, seg?_idx hg]
      have : AncS s k ⟨g.first, cur.seg⟩ := by rw [← hgf]; exact hks.2.1.ancS
      exact ⟨hrv, hra.trans (this.trans hfirst)⟩
    | none =>
      rw [hm] at h
      simp only at h
      by_cases hb : priorBelow g.prior target = true
      · rw [if_pos hb] at h
        simp only [Except.ok.injEq] at h
        subst h
        exact ⟨hv, AncS.refl _⟩
      · rw [if_neg hb] at h
        cases hp : g.prior with
        | single p =>
          rw [hp] at h
          simp only at h
          have hpm : p ∈ g.prior.toList := by simp [hp, Prior.toList]
          obtain ⟨hrv, hra⟩ := ih p r (hwf.priors _ g hg p hpm).1 h
          exact ⟨hrv, hra.trans ((prior_anc hg hpos hpm).trans hfirst)⟩
        | none =>
          rw [hp] at h
          simp only [Except.ok.injEq] at h
          subst h; exact ⟨hv, AncS.refl _⟩
        | merge a b =>
          rw [hp] at h
          simp only [Except.ok.injEq] at h
          subst h; exact ⟨hv, AncS.refl _⟩

theorem skipJump_spec {s : Store} (hwf : WF s) {head r : Loc} {target : Nat}
    (hv : s.valid head = true) (h : skipJump s head target = .ok r) :
    s.valid r = true ∧ AncS s r head := by
  unfold skipJump at h
  by_cases hle : head.mc ≤ target
  · rw [if_pos hle] at h
    simp only [Except.ok.injEq] at h
    subst h; exact ⟨hv, AncS.refl _⟩
  · rw [if_neg hle] at h
    exact skipJumpLoop_spec hwf target _ head r hv h

/-- the heads queue is seeded by pushing (uncovered) one start per head -/
theorem seedHeads_spec (s : Store) (target : Nat) : ∀ (hs : List Loc) (q q' : Queue),
    seedHeads specOps s target hs q = .ok q' →
    ∃ sts : List Loc, q' = pushPriorsCov specOps q sts false ∧
      (∀ x ∈ sts, ∃ h ∈ hs, skipJump s h target = .ok x) ∧
      (∀ h ∈ hs, ∃ x ∈ sts, skipJump s h target = .ok x) := by
  intro hs
  induction hs with
  | nil =>
    intro q q' h
    simp only [seedHeads, Except.ok.injEq] at h
    subst h
    refine ⟨[], rfl, ?_, ?_⟩
    · intro x hx; cases hx
    · intro h hh; cases hh
  | cons h0 hs ih =>
    intro q q' h
    unfold seedHeads at h
    cases hsj : skipJump s h0 target with
    | error e => rw [hsj] at h; cases h
    | ok st =>
      rw [hsj] at h
      simp only at h
      obtain ⟨sts, e1, e2, e3⟩ := ih _ _ h
      refine ⟨st :: sts, by rw [pushPriorsCov_cons]; exact e1, ?_, ?_⟩
      · intro x hx
        rcases List.mem_cons.mp hx with rfl | hx'
        · exact ⟨h0, List.mem_cons_self .., hsj⟩
        · obtain ⟨hh, hm, he⟩ := e2 x hx'
          exact ⟨hh, List.mem_cons_of_mem _ hm, he⟩
      · intro hh hm
        rcases List.mem_cons.mp hm with rfl | hm'
        · exact ⟨st, List.mem_cons_self .., hsj⟩
        · obtain ⟨x, hx, he⟩ := e3 hh hm'
          exact ⟨x, List.mem_cons_of_mem _ hx, he⟩

/-- the invariant holds when the loop is entered -/
theorem seed_inv {s : Store} {haves sts : List Loc} (hsv : ∀ x ∈ sts, s.valid x = true) :
    Inv s haves sts (pushPriorsCov specOps Queue.new sts false) Queue.new [] haves := by
  obtain ⟨b1, b2, _, b4⟩ := pushPriors_spec' sts false new_onePerSeg
  have hent : ∀ S m c, (pushPriorsCov specOps Queue.new sts false).lookup S = some (m, c) →
      (⟨m, S⟩ : Loc) ∈ sts ∧ c = false := by
    intro S m c hl
    rcases b2 S m c hl with ⟨c0, h0, _⟩ | ⟨hmem, hc⟩
    · rw [new_lookup] at h0; cases h0
    · refine ⟨hmem, ?_⟩
      cases c with
      | false => rfl
      | true => exact absurd (hc rfl) (by simp)
  refine ⟨b1, new_onePerSeg, ?_, ?_, ?_, ?_, ?_, fun h hh => hh⟩
  · intro S m c hl
    obtain ⟨hmem, hc⟩ := hent S m c hl
    exact ⟨hsv _ hmem, ⟨_, hmem, AncS.refl _⟩, fun h => by rw [hc] at h; cases h⟩
  · intro S m hl; rw [new_lookup] at hl; cases hl
  · intro S m hl; rw [new_lookup] at hl; cases hl
  · intro e he; cases he
  · intro l hl ⟨x, hx, hlx⟩
    obtain ⟨m', c', h', hle⟩ := b4 x hx
    obtain ⟨hmem, _⟩ := hent _ _ _ h'
    have : AncS s x ⟨m', x.seg⟩ := chain_loc (hsv x hx) (hsv _ hmem) rfl hle
    exact Or.inr (Or.inr (Or.inr ⟨x.seg, m', c', h', hlx.trans this⟩))

/-! ## sorting -/

theorem mem_insertDesc {x y : Loc} {l : List Loc} : y ∈ insertDesc x l ↔ y = x ∨ y ∈ l := by
  induction l with
  | nil => simp [insertDesc]
  | cons z zs ih =>
    unfold insertDesc
    by_cases h : z.mc < x.mc
    · simp [h]
    · simp only [h, if_false, List.mem_cons, ih]
      constructor
      · rintro (h | h | h)
        · exact Or.inr (Or.inl h)
        · exact Or.inl h
        · exact Or.inr (Or.inr h)
      · rintro (h | h | h)
        · exact Or.inr (Or.inl h)
        · exact Or.inl h
        · exact Or.inr (Or.inr h)

theorem mem_sortDesc {y : Loc} {l : List Loc} : y ∈ sortDesc l ↔ y ∈ l := by
  unfold sortDesc
  suffices H : ∀ acc : List Loc, y ∈ l.foldl (fun acc x => insertDesc x acc) acc ↔ y ∈ acc ∨ y ∈ l by
    simpa using H []
  induction l with
  | nil => intro acc; simp
  | cons x xs ih =>
    intro acc
    simp only [List.foldl, ih, mem_insertDesc, List.mem_cons]
    constructor
    · rintro ((h | h) | h)
      · exact Or.inr (Or.inl h)
      · exact Or.inl h
      · exact Or.inr (Or.inr h)
    · rintro (h | h | h)
      · exact Or.inl (Or.inr h)
      · exact Or.inl (Or.inl h)
      · exact Or.inr h

theorem mem_insertLoc {x y : Loc} {l : List Loc} : y ∈ insertLoc x l ↔ y = x ∨ y ∈ l := by
  induction l with
  | nil => simp [insertLoc]
  | cons z zs ih =>
    unfold insertLoc
    by_cases h : x.ble z = true
    · rw [if_pos h]; simp
    · rw [if_neg h]
      simp only [List.mem_cons, ih]
      constructor
      · rintro (h | h | h)
        · exact Or.inr (Or.inl h)
        · exact Or.inl h
        · exact Or.inr (Or.inr h)
      · rintro (h | h | h)
        · exact Or.inr (Or.inl h)
        · exact Or.inl h
        · exact Or.inr (Or.inr h)

theorem mem_sortLoc {y : Loc} {l : List Loc} : y ∈ sortLoc l ↔ y ∈ l := by
  unfold sortLoc
  induction l with
  | nil => simp
  | cons x xs ih => simp only [List.foldr, mem_insertLoc, ih, List.mem_cons]

theorem insertLoc_sorted {x : Loc} {l : List Loc} (h : l.Pairwise (fun a b => a.ble b = true)) :
    (insertLoc x l).Pairwise (fun a b => a.ble b = true) := by
  induction l with
  | nil => simp [insertLoc]
  | cons z zs ih =>
    unfold insertLoc
    rw [List.pairwise_cons] at h
    by_cases hb : x.ble z = true
    · rw [if_pos hb]
      rw [List.pairwise_cons]
      refine ⟨?_, List.pairwise_cons.mpr h⟩
      intro a ha
      rcases List.mem_cons.mp ha with rfl | ha'
      · exact hb
      · exact Loc.ble_trans hb (h.1 a ha')
    · rw [if_neg hb]
      rw [List.pairwise_cons]
      refine ⟨?_, ih h.2⟩
      intro a ha
      rcases mem_insertLoc.mp ha with rfl | ha'
      · rcases Loc.ble_total a z with h1 | h1
        · exact absurd h1 hb
        · exact h1
      · exact h.1 a ha'

theorem sortLoc_sorted (l : List Loc) : (sortLoc l).Pairwise (fun a b => a.ble b = true) := by
  unfold sortLoc
  induction l with
  | nil => simp
  | cons x xs ih => exact insertLoc_sorted ih

/-- in a sorted list an element with a strictly smaller max cut comes earlier -/
theorem sorted_index_lt {l : List Loc} (hs : l.Pairwise (fun a b => a.ble b = true)) {k : Nat}
    {e e' : Loc} (hk : l[k]? = some e) (he' : e' ∈ l) (hlt : e'.mc < e.mc) :
    ∃ k', k' < k ∧ l[k']? = some e' := by
  obtain ⟨k', hk', hke'⟩ := List.mem_iff_getElem.mp he'
  have hkl : k < l.length := by
    rcases Nat.lt_or_ge k l.length with h | h
    · exact h
    · rw [List.getElem?_eq_none h] at hk; cases hk
  have hke : l[k] = e := by
    rw [List.getElem?_eq_getElem hkl] at hk; exact Option.some.inj hk
  refine ⟨k', ?_, by rw [List.getElem?_eq_getElem hk', hke']⟩
  rcases Nat.lt_trichotomy k' k with h | h | h
  · exact h
  · subst h; rw [hke] at hke'; subst hke'; omega
  · have := List.pairwise_iff_getElem.mp hs k k' hkl hk' h
    rw [hke, hke'] at this
    simp only [Loc.ble, Bool.or_eq_true, decide_eq_true_eq, Bool.and_eq_true, beq_iff_eq] at this
    omega

end AranyaV.Sync
