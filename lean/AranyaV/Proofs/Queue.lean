import AranyaV.Model.Queue
/-! Helper lemmas for the traversal-queue model. -/
namespace AranyaV.Queue

theorem Loc.ble_refl (a : Loc) : a.ble a = true := by simp [Loc.ble]

theorem Loc.ble_trans {a b c : Loc} (h1 : a.ble b = true) (h2 : b.ble c = true) : a.ble c = true := by
  simp [Loc.ble] at *; omega

theorem Loc.ble_total (a b : Loc) : a.ble b = true ∨ b.ble a = true := by
  simp [Loc.ble]; omega

theorem Loc.ble_antisymm {a b : Loc} (h1 : a.ble b = true) (h2 : b.ble a = true) : a = b := by
  cases a; cases b; simp [Loc.ble] at *; omega

theorem maxLoc_none {l : List Loc} : maxLoc l = none ↔ l = [] := by
  cases l with
  | nil => simp [maxLoc]
  | cons x xs =>
    simp only [maxLoc]; split
    · simp
    · split <;> simp

theorem maxLoc_mem {l : List Loc} {m : Loc} (h : maxLoc l = some m) : m ∈ l := by
  induction l generalizing m with
  | nil => simp [maxLoc] at h
  | cons x xs ih =>
    simp only [maxLoc] at h
    split at h
    · simp at h; simp [h]
    · rename_i m' hm'
      split at h
      · simp at h; subst h; exact List.mem_cons_of_mem _ (ih hm')
      · simp at h; simp [h]

theorem maxLoc_ge {l : List Loc} {m : Loc} (h : maxLoc l = some m) : ∀ x ∈ l, x.ble m = true := by
  induction l generalizing m with
  | nil => simp
  | cons x xs ih =>
    simp only [maxLoc] at h
    intro y hy
    split at h
    · rename_i hn
      have : xs = [] := maxLoc_none.mp hn
      subst this; simp at h hy; subst h; subst hy; exact Loc.ble_refl _
    · rename_i m' hm'
      split at h
      · rename_i hle
        simp at h; subst h
        rcases List.mem_cons.mp hy with rfl | hy'
        · exact hle
        · exact ih hm' y hy'
      · rename_i hle
        simp at h; subst h
        rcases List.mem_cons.mp hy with rfl | hy'
        · exact Loc.ble_refl _
        · have h1 := ih hm' y hy'
          have h2 : m'.ble x = true := by
            rcases Loc.ble_total x m' with h | h
            · exact absurd h hle
            · exact h
          exact Loc.ble_trans h1 h2

theorem mem_eraseFirst_of_mem {p : Loc → Bool} {l : List Loc} {x : Loc}
    (h : x ∈ eraseFirst p l) : x ∈ l := by
  induction l with
  | nil => simp [eraseFirst] at h
  | cons y ys ih =>
    simp only [eraseFirst] at h
    split at h
    · exact List.mem_cons_of_mem _ h
    · rcases List.mem_cons.mp h with rfl | h'
      · simp
      · exact List.mem_cons_of_mem _ (ih h')

/-- segments of a list -/
def segs (l : List Loc) : List Nat := l.map (·.seg)

theorem find_none_iff {s : Nat} {l : List Loc} : l.find? (sameSeg s) = none ↔ s ∉ segs l := by
  simp only [List.find?_eq_none, segs, sameSeg, List.mem_map, beq_iff_eq]
  constructor
  · rintro h ⟨x, hx, rfl⟩; exact h x hx rfl
  · intro h x hx he; exact h ⟨x, hx, he⟩

theorem find_some_seg {s : Nat} {l : List Loc} {e : Loc} (h : l.find? (sameSeg s) = some e) :
    e.seg = s ∧ e ∈ l := by
  have h1 := List.find?_some h
  have h2 := List.mem_of_find?_eq_some h
  simp [sameSeg] at h1
  exact ⟨h1, h2⟩

theorem segs_cons (y : Loc) (ys : List Loc) : segs (y :: ys) = y.seg :: segs ys := rfl

theorem mem_segs_eraseFirst {s t : Nat} {l : List Loc} (hn : (segs l).Nodup) :
    t ∈ segs (eraseFirst (sameSeg s) l) ↔ (t ∈ segs l ∧ t ≠ s) := by
  induction l with
  | nil => simp [eraseFirst, segs]
  | cons y ys ih =>
    rw [segs_cons, List.nodup_cons] at hn
    have ih' := ih hn.2
    by_cases h : y.seg = s
    · have : eraseFirst (sameSeg s) (y :: ys) = ys := by simp [eraseFirst, sameSeg, h]
      rw [this, segs_cons, List.mem_cons]
      constructor
      · intro ht; refine ⟨Or.inr ht, ?_⟩; rintro rfl; rw [← h] at ht; exact hn.1 ht
      · rintro ⟨hh | hh, hne⟩
        · exact absurd (hh.trans h) hne
        · exact hh
    · have : eraseFirst (sameSeg s) (y :: ys) = y :: eraseFirst (sameSeg s) ys := by
        simp [eraseFirst, sameSeg, h]
      rw [this, segs_cons, segs_cons, List.mem_cons, List.mem_cons, ih']
      constructor
      · rintro (hh | hh)
        · exact ⟨Or.inl hh, by rw [hh]; exact h⟩
        · exact ⟨Or.inr hh.1, hh.2⟩
      · rintro ⟨hh | hh, hne⟩
        · exact Or.inl hh
        · exact Or.inr ⟨hh, hne⟩

theorem nodup_segs_eraseFirst {s : Nat} {l : List Loc} (hn : (segs l).Nodup) :
    (segs (eraseFirst (sameSeg s) l)).Nodup := by
  induction l with
  | nil => simp [eraseFirst, segs]
  | cons y ys ih =>
    have hn' := hn
    rw [segs_cons, List.nodup_cons] at hn'
    by_cases h : y.seg = s
    · have : eraseFirst (sameSeg s) (y :: ys) = ys := by simp [eraseFirst, sameSeg, h]
      rw [this]; exact hn'.2
    · have : eraseFirst (sameSeg s) (y :: ys) = y :: eraseFirst (sameSeg s) ys := by
        simp [eraseFirst, sameSeg, h]
      rw [this, segs_cons, List.nodup_cons]
      refine ⟨?_, ih hn'.2⟩
      intro hm
      exact hn'.1 ((mem_segs_eraseFirst hn'.2).mp hm).1

theorem segs_updFirst {s : Nat} {l : List Loc} {f : Loc → Loc} (hf : ∀ x, (f x).seg = x.seg) :
    segs (updFirst (sameSeg s) f l) = segs l := by
  induction l with
  | nil => simp [updFirst]
  | cons y ys ih =>
    simp only [updFirst]
    split
    · simp [segs, hf]
    · simp only [segs, List.map] at *; rw [ih]

end AranyaV.Queue

namespace AranyaV.Queue

theorem find_eraseFirst_same {s : Nat} {l : List Loc} (hn : (segs l).Nodup) :
    (eraseFirst (sameSeg s) l).find? (sameSeg s) = none := by
  rw [find_none_iff, mem_segs_eraseFirst hn]; simp

theorem find_eraseFirst_other {s t : Nat} {l : List Loc} (h : t ≠ s) :
    (eraseFirst (sameSeg s) l).find? (sameSeg t) = l.find? (sameSeg t) := by
  induction l with
  | nil => simp [eraseFirst]
  | cons y ys ih =>
    by_cases hy : y.seg = s
    · have ht : sameSeg t y = false := by simp [sameSeg, hy]; exact fun h' => h h'.symm
      simp [eraseFirst, sameSeg, hy, List.find?_cons]
      have : (s == t) = false := by simp; exact fun h' => h h'.symm
      simp [this]
    · simp [eraseFirst, sameSeg, hy, List.find?_cons]
      split
      · rfl
      · simpa [sameSeg] using ih

theorem find_updFirst_same {s : Nat} {l : List Loc} {f : Loc → Loc} {e : Loc}
    (hf : ∀ x, (f x).seg = x.seg) (h : l.find? (sameSeg s) = some e) :
    (updFirst (sameSeg s) f l).find? (sameSeg s) = some (f e) := by
  induction l with
  | nil => simp at h
  | cons y ys ih =>
    by_cases hy : y.seg = s
    · simp [List.find?_cons, sameSeg, hy] at h
      subst h
      simp [updFirst, sameSeg, hy, List.find?_cons, hf]
    · simp [List.find?_cons, sameSeg, hy] at h
      simp [updFirst, sameSeg, hy, List.find?_cons]
      simpa [sameSeg] using ih (by simpa [sameSeg] using h)

theorem find_updFirst_other {s t : Nat} {l : List Loc} {f : Loc → Loc}
    (hf : ∀ x, (f x).seg = x.seg) (h : t ≠ s) :
    (updFirst (sameSeg s) f l).find? (sameSeg t) = l.find? (sameSeg t) := by
  induction l with
  | nil => simp [updFirst]
  | cons y ys ih =>
    by_cases hy : y.seg = s
    · have : (s == t) = false := by simp; exact fun h' => h h'.symm
      simp [updFirst, sameSeg, hy, List.find?_cons, hf, this]
    · simp [updFirst, sameSeg, hy, List.find?_cons]
      split
      · rfl
      · simpa [sameSeg] using ih

theorem segs_append (a b : List Loc) : segs (a ++ b) = segs a ++ segs b := by simp [segs]

end AranyaV.Queue
