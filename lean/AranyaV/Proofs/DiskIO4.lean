import AranyaV.Proofs.DiskIO3
/-!
`commit` with a fault anywhere as an annotated stream, and the per-call lemma `call_io`.
-/
namespace AranyaV.Disk
open AranyaV.Wire

variable {L : Layout} {ck : Checksum}

theorem cutOps_append_right (P R : List Op) (f : Fault) (h : P.length ≤ f.idx) :
    cutOps (P ++ R) f = P ++ cutOps R ⟨f.idx - P.length, f.keep⟩ := by
  unfold cutOps
  rw [List.take_append, List.take_of_length_le h, List.getElem?_append_right h, List.append_assoc]

/-- the root-write part of a commit, cut at its `j`-th I/O call (`j ≥ 3`: not cut) -/
def rootPart (a : Root) (s : Nat) (j keep : Nat) : List AOp :=
  match j with
  | 0 => [.rootw a s ((be32Enc (encBody a).length).take keep), .noop .failed]
  | 1 => [.rootw a s (be32Enc (encBody a).length), .rootw a (s + 4) ((encBody a).take keep), .noop .failed]
  | 2 => [.rootw a s (be32Enc (encBody a).length), .rootw a (s + 4) (encBody a), .noop .failed]
  | _ => [.rootw a s (be32Enc (encBody a).length), .rootw a (s + 4) (encBody a), .syncCommit a]

theorem erase_rootPart (a : Root) (s j keep : Nat) :
    eraseAll (rootPart a s j keep) =
      cutOps [.write s (be32Enc (encBody a).length), .write (s + lenPrefixLen) (encBody a), .fdatasync] ⟨j, keep⟩ := by
  match j with
  | 0 => rfl
  | 1 => rfl
  | 2 => rfl
  | j + 3 => simp [rootPart, eraseAll, AOp.erase, cutOps, lenPrefixLen]

theorem gfin_rootPart (L : Layout) (a : Root) (s j keep : Nat) (g : G) :
    (gfin L g (rootPart a s j keep)).gen = a.gen ∧ (gfin L g (rootPart a s j keep)).free = g.free ∧
    (gfin L g (rootPart a s j keep)).next = (if 3 ≤ j then L.other g.next else g.next) ∧
    (gfin L g (rootPart a s j keep)).done = (if 3 ≤ j then some a else g.done) ∧
    (gfin L g (rootPart a s j keep)).recs = g.recs := by
  match j with
  | 0 => exact ⟨rfl, rfl, rfl, rfl, rfl⟩
  | 1 => exact ⟨rfl, rfl, rfl, rfl, rfl⟩
  | 2 => exact ⟨rfl, rfl, rfl, rfl, rfl⟩
  | j + 3 => exact ⟨rfl, rfl, by simp [rootPart, gfin, gnext], by simp [rootPart, gfin, gnext], rfl⟩

theorem noAdv_rootPart (a : Root) (s j keep : Nat) (r : Rec) : AOp.advance r ∉ rootPart a s j keep := by
  intro h
  match j with
  | 0 => simp [rootPart] at h
  | 1 => simp [rootPart] at h
  | 2 => simp [rootPart] at h
  | j + 3 => simp [rootPart] at h

theorem rootw_rootPart (a : Root) (s j keep : Nat) (r : Root) (off : Nat) (b : Bytes)
    (h : AOp.rootw r off b ∈ rootPart a s j keep) : r = a := by
  match j with
  | 0 => simp [rootPart] at h; exact h.1
  | 1 => simp [rootPart] at h; rcases h with h | h <;> exact h.1
  | 2 => simp [rootPart] at h; rcases h with h | h <;> exact h.1
  | j + 3 => simp [rootPart] at h; rcases h with h | h <;> exact h.1

theorem noSC_rootPart_take (a : Root) (s j keep m : Nat)
    (h : (eraseAll ((rootPart a s j keep).take m)).length < (eraseAll (rootPart a s j keep)).length) :
    NoSC ((rootPart a s j keep).take m) := by
  match j with
  | 0 => intro x hx r he; have := List.mem_of_mem_take hx; simp [rootPart] at this; rcases this with rfl | rfl <;> cases he
  | 1 => intro x hx r he; have := List.mem_of_mem_take hx; simp [rootPart] at this; rcases this with rfl | rfl | rfl <;> cases he
  | 2 => intro x hx r he; have := List.mem_of_mem_take hx; simp [rootPart] at this; rcases this with rfl | rfl | rfl <;> cases he
  | j + 3 =>
    match m with
    | 0 => intro x hx; cases hx
    | 1 => intro x hx r he; simp [rootPart] at hx; subst hx; cases he
    | 2 => intro x hx r he; simp [rootPart] at hx; rcases hx with rfl | rfl <;> cases he
    | m + 3 => simp [rootPart, eraseAll, AOp.erase] at h

/-- the root part conforms, started right after the data barrier -/
theorem conf_rootPart {g : G} {d : Disk} (a : Root) (j keep : Nat)
    (hpa : g.pa = none) (htorn : TornOKp ck d.durable g.next a) (hgen : a.gen = g.gen + 1)
    (hfree : a.free = (g.free : Int)) (hD : g.D = g.free) (hp : d.pending = [])
    (hb : a.Bounded) (hv : a.valid ck = true) : Conf L ck g d (rootPart a g.next j keep) := by
  have hnew : g.pa = none ∧ TornOKp ck d.durable g.next a ∧ a.gen = g.gen + 1 ∧ a.free = (g.free : Int) ∧
      g.D = g.free := ⟨hpa, htorn, hgen, hfree, hD⟩
  have hfull : (be32Enc (encBody a).length) = (be32Enc (encBody a).length).take 4 := rfl
  match j with
  | 0 => exact ⟨⟨Or.inl ⟨rfl, keep, rfl⟩, Or.inr hnew⟩, Or.inl rfl, trivial⟩
  | 1 =>
    exact ⟨⟨Or.inl ⟨rfl, 4, hfull⟩, Or.inr hnew⟩, ⟨Or.inr ⟨rfl, keep, rfl⟩, Or.inl rfl⟩, Or.inl rfl, trivial⟩
  | 2 =>
    exact ⟨⟨Or.inl ⟨rfl, 4, hfull⟩, Or.inr hnew⟩,
      ⟨Or.inr ⟨rfl, (encBody a).length, (List.take_length).symm⟩, Or.inl rfl⟩, Or.inl rfl, trivial⟩
  | j + 3 =>
    refine ⟨⟨Or.inl ⟨rfl, 4, hfull⟩, Or.inr hnew⟩,
      ⟨Or.inr ⟨rfl, (encBody a).length, (List.take_length).symm⟩, Or.inl rfl⟩, ⟨rfl, ?_, hb, hv⟩, trivial⟩
    simp [AOp.erase, Disk.execAll, Disk.exec, hp, gnext]

/-! ## what `commitF` returns, by region of the failing index -/

theorem commitF_lt (w : Writer) (heads : Bytes) (fact : Nat) (f : Fault)
    (h : f.idx < (w.appendAt L heads).2.2.length) :
    (w.commitF L ck heads fact f).2.1 = cutOps (w.appendAt L heads).2.2 f ∧
    (w.commitF L ck heads fact f).2.2 = false ∧
    (w.commitF L ck heads fact f).1.root = w.root ∧ (w.commitF L ck heads fact f).1.nextRoot = w.nextRoot := by
  have hlen : ¬ (w.commit L ck heads fact).2.length ≤ f.idx := by
    rw [commit_ops]; simp only [List.length_append, List.length_cons, List.length_nil]; omega
  obtain ⟨_, _, e3, e4⟩ := appendAtF_fail (L := L) w heads f (Nat.not_le_of_lt h)
  have hcut : cutOps (w.commit L ck heads fact).2 f = cutOps (w.appendAt L heads).2.2 f := by
    rw [commit_ops, List.append_assoc, cutOps_append_left _ _ _ h]
  simp only [Writer.commitF, if_neg hlen, if_pos h]
  refine ⟨hcut, ?_, e3, e4⟩
  first | rfl | trivial

theorem commitF_eq (w : Writer) (heads : Bytes) (fact : Nat) (f : Fault)
    (h : f.idx = (w.appendAt L heads).2.2.length) :
    (w.commitF L ck heads fact f).2.1 = (w.appendAt L heads).2.2 ++ [Op.failed] ∧
    (w.commitF L ck heads fact f).2.2 = false ∧
    (w.commitF L ck heads fact f).1.root.gen = w.root.gen ∧
    (w.commitF L ck heads fact f).1.root.free = ((w.root.free.toNat + 4 + heads.length : Nat) : Int) ∧
    (w.commitF L ck heads fact f).1.nextRoot = w.nextRoot := by
  have hlen : ¬ (w.commit L ck heads fact).2.length ≤ f.idx := by
    rw [commit_ops]; simp only [List.length_append, List.length_cons, List.length_nil]; omega
  have hcut : cutOps (w.commit L ck heads fact).2 f = (w.appendAt L heads).2.2 ++ [Op.failed] := by
    rw [commit_ops, List.append_assoc]; exact cutOps_at_end _ _ f h
  have hnlt : ¬ f.idx < (w.appendAt L heads).2.2.length := by omega
  simp only [Writer.commitF, if_neg hlen, if_neg hnlt, if_pos h]
  refine ⟨hcut, ?_, ?_, ?_, ?_⟩
  · first | rfl | trivial
  · simp only [appendAt_root]
  · simp only [appendAt_root]
  · simp only [appendAt_next]

theorem commitF_gt (w : Writer) (heads : Bytes) (fact : Nat) (f : Fault)
    (h : (w.appendAt L heads).2.2.length < f.idx) :
    (w.commitF L ck heads fact f).2.1 = ((w.appendAt L heads).2.2 ++ [Op.fdatasync]) ++
      cutOps [.write w.nextRoot (be32Enc (encBody (commitRoot ck w heads fact)).length),
        .write (w.nextRoot + lenPrefixLen) (encBody (commitRoot ck w heads fact)), .fdatasync]
        ⟨f.idx - ((w.appendAt L heads).2.2.length + 1), f.keep⟩ ∧
    (w.commitF L ck heads fact f).2.2 = decide ((w.appendAt L heads).2.2.length + 4 ≤ f.idx) ∧
    (w.commitF L ck heads fact f).1.root = commitRoot ck w heads fact ∧
    (w.commitF L ck heads fact f).1.nextRoot =
      (if (w.appendAt L heads).2.2.length + 4 ≤ f.idx then L.other w.nextRoot else w.nextRoot) := by
  have hl : (w.commit L ck heads fact).2.length = (w.appendAt L heads).2.2.length + 4 := by
    rw [commit_ops]; simp only [List.length_append, List.length_cons, List.length_nil]
  have hcut : cutOps (w.commit L ck heads fact).2 f = ((w.appendAt L heads).2.2 ++ [Op.fdatasync]) ++
      cutOps [.write w.nextRoot (be32Enc (encBody (commitRoot ck w heads fact)).length),
        .write (w.nextRoot + lenPrefixLen) (encBody (commitRoot ck w heads fact)), .fdatasync]
        ⟨f.idx - ((w.appendAt L heads).2.2.length + 1), f.keep⟩ := by
    rw [commit_ops, cutOps_append_right _ _ _ (by simp only [List.length_append, List.length_cons, List.length_nil]; omega)]
    simp only [List.length_append, List.length_cons, List.length_nil]
  by_cases hok : (w.appendAt L heads).2.2.length + 4 ≤ f.idx
  · have hok' : (w.commit L ck heads fact).2.length ≤ f.idx := by rw [hl]; exact hok
    simp only [Writer.commitF, if_pos hok', if_pos hok, decide_eq_true hok]
    refine ⟨?_, ?_, commit_root L ck w heads fact, commit_next L ck w heads fact⟩
    rotate_left
    · first | rfl | trivial
    rw [← hcut]
    unfold cutOps
    rw [List.take_of_length_le hok', List.getElem?_eq_none hok']
    simp
  · have hok' : ¬ (w.commit L ck heads fact).2.length ≤ f.idx := by rw [hl]; exact hok
    simp only [Writer.commitF, if_neg hok', if_neg (Nat.lt_asymm h), if_neg (Nat.ne_of_gt h),
      if_neg hok, decide_eq_false hok]
    refine ⟨hcut, ?_, commit_root L ck w heads fact, by simp only [appendAt_next]⟩
    first | rfl | trivial

end AranyaV.Disk
