import AranyaV.Proofs.BraidRef
import AranyaV.Model.BraidMech
/-!
# Proofs.BraidMech — the mechanism (`Model.BraidMech.implBraid`) computes the reference braid

Simulation of `implLoop` by `braidLoop`, one popped strand per step:
* the heap is the available set (same list, same order);
* `counts` holds, for every command above the cut, the number of its still unprocessed region
  children (an entry exists only while that number matters), so `shouldContinue p` answers `true`
  exactly when the last region child of `p` has just been processed — the readiness test of the
  reference braid;
* under the *dominator* hypothesis on the cut point `C` (every command of the region is an
  ancestor-or-self or a descendant of `C`) everything that ever becomes available is strictly above
  `C`, so the cut-off branch is taken only for priors that are not ready anyway;
* the same-segment shortcut never fires: a ready prior cannot be an ancestor of a waiting strand.
-/
namespace AranyaV.Spec

/-- `c :: processed` is descendant-closed inside the region (for an available `c`) -/
theorem closed_cons_reach {g : Graph} {R : List Nat} {s : BState} (hR : Region g R) (hi : Inv g R s)
    {c : Nat} (hcA : c ∈ s.avail) :
    ∀ x ∈ c :: s.processed, ∀ y, Reach g x y → y ∈ R → y ∈ c :: s.processed := by
  obtain ⟨_, _, hcCh⟩ := (hi.aIff c).mp hcA
  intro x hx y hxy
  induction hxy with
  | refl => intro _; exact hx
  | tail _ hp ih =>
    intro hyR
    have hm' := ih (hR.up _ hyR _ hp)
    simp only [List.mem_cons] at hm'
    rcases hm' with rfl | hm'
    · exact List.mem_cons_of_mem _ (hcCh _ hyR hp)
    · exact List.mem_cons_of_mem _ (hi.closed _ hm' _ hyR hp)

theorem children_nodup {g : Graph} (hw : WF g) (p : Nat) : (children g p).Nodup := by
  have h1 : ((g.filter (·.parents.contains p)).map (·.id)).Sublist (g.map (·.id)) :=
    List.Sublist.map _ List.filter_sublist
  exact hw.nodup.sublist h1

end AranyaV.Spec

namespace AranyaV.Braid
open AranyaV.Spec AranyaV.Gen

/-! ## counting unprocessed region children -/

/-- unprocessed region children of `p` -/
def unproc (g : Graph) (R P : List Nat) (p : Nat) : List Nat :=
  (children g p).filter (fun y => R.contains y && !P.contains y)

theorem mem_unproc {g : Graph} {R P : List Nat} {p y : Nat} :
    y ∈ unproc g R P p ↔ Par g p y ∧ y ∈ R ∧ y ∉ P := by
  simp [unproc, mem_children]

theorem unproc_eq_nil {g : Graph} {R P : List Nat} {p : Nat} :
    unproc g R P p = [] ↔ ∀ y ∈ R, Par g p y → y ∈ P := by
  rw [List.eq_nil_iff_forall_not_mem]
  constructor
  · intro h y hy hp
    apply Classical.byContradiction
    intro hn
    exact h y (mem_unproc.mpr ⟨hp, hy, hn⟩)
  · intro h y hy
    obtain ⟨h1, h2, h3⟩ := mem_unproc.mp hy
    exact h3 (h y h2 h1)

theorem unproc_cons (g : Graph) (R P : List Nat) (c p : Nat) :
    unproc g R (c :: P) p = (unproc g R P p).filter (fun y => y != c) := by
  simp only [unproc, List.filter_filter]
  apply List.filter_congr
  intro y _
  by_cases h : y = c <;> simp [h]

theorem length_filter_ne (l : List Nat) (hnd : l.Nodup) (c : Nat) :
    (l.filter (fun y => y != c)).length = if c ∈ l then l.length - 1 else l.length := by
  induction l with
  | nil => simp
  | cons x xs ih =>
    rw [List.nodup_cons] at hnd
    by_cases hx : x = c
    · subst hx
      have : xs.filter (fun y => y != x) = xs := by
        rw [List.filter_eq_self]
        intro b hb
        have : b ≠ x := by intro e; subst e; exact hnd.1 hb
        simp [this]
      simp [List.filter_cons, this]
    · have hx' : (x != c) = true := by simpa using hx
      have hcx : ¬ c = x := fun e => hx e.symm
      rw [List.filter_cons, hx']
      simp only [if_true, List.length_cons, List.mem_cons, hcx, false_or, ih hnd.2]
      by_cases hc : c ∈ xs
      · have : 0 < xs.length := List.length_pos_of_mem hc
        simp only [hc, if_true]
        omega
      · simp [hc]

theorem unproc_nodup {g : Graph} (hw : WF g) (R P : List Nat) (p : Nat) : (unproc g R P p).Nodup :=
  (children_nodup hw p).sublist List.filter_sublist

/-- what the convergence map must say about `p` when `P` is the processed set -/
def CountInvAt (g : Graph) (R P : List Nat) (counts : Nat → Option Nat) (p : Nat) : Prop :=
  (∀ k, counts p = some k → k = (unproc g R P p).length) ∧
  (counts p = none → (unproc g R P p).length ≤ 1)

theorem CountInvAt.congr {g : Graph} {R P : List Nat} {c1 c2 : Nat → Option Nat} {p : Nat}
    (h : CountInvAt g R P c1 p) (e : c2 p = c1 p) : CountInvAt g R P c2 p := by
  unfold CountInvAt at *
  rw [e]; exact h

theorem countInvAt_cons_of_not_par {g : Graph} {R P : List Nat} {counts : Nat → Option Nat} {c q : Nat}
    (hnp : ¬ Par g q c) (h : CountInvAt g R P counts q) : CountInvAt g R (c :: P) counts q := by
  have : unproc g R (c :: P) q = unproc g R P q := by
    rw [unproc_cons, List.filter_eq_self]
    intro y hy
    have : y ≠ c := by
      intro e; subst e; exact hnp (mem_unproc.mp hy).1
    simp [this]
  unfold CountInvAt at *
  rw [this]; exact h

/-- `should_continue` answers "last arrival" and keeps the map exact -/
theorem shouldContinue_spec {g : Graph} (hw : WF g) {R P : List Nat} {counts : Nat → Option Nat} {p c : Nat}
    (hinv : CountInvAt g R P counts p) (hc : c ∈ unproc g R P p) :
    ((shouldContinue counts p).1 = true ↔ unproc g R (c :: P) p = []) ∧
    CountInvAt g R (c :: P) (shouldContinue counts p).2 p ∧
    ∀ q, q ≠ p → (shouldContinue counts p).2 q = counts q := by
  have hlen : (unproc g R (c :: P) p).length = (unproc g R P p).length - 1 := by
    rw [unproc_cons, length_filter_ne _ (unproc_nodup hw R P p)]
    simp [hc]
  have hpos : 0 < (unproc g R P p).length := List.length_pos_of_mem hc
  have hnil : unproc g R (c :: P) p = [] ↔ (unproc g R P p).length = 1 := by
    rw [← List.length_eq_zero_iff, hlen]; omega
  obtain ⟨h1, h2⟩ := hinv
  unfold shouldContinue
  cases hcp : counts p with
  | none =>
    have := h2 hcp
    refine ⟨?_, ?_, fun q _ => rfl⟩
    · simp only [true_iff]; rw [hnil]; omega
    · refine ⟨fun k hk => ?_, fun _ => by rw [hlen]; omega⟩
      simp only at hk; rw [hcp] at hk; cases hk
  | some k =>
    have hk := h1 k hcp
    by_cases hgt : k > 1
    · simp only [hgt, if_true]
      refine ⟨?_, ?_, fun q hq => by simp [hq]⟩
      · simp only [Bool.false_eq_true, false_iff]; rw [hnil]; omega
      · refine ⟨fun k' hk' => ?_, fun hn => ?_⟩
        · simp only [if_true] at hk'
          cases hk'
          rw [hlen]; omega
        · simp at hn
    · simp only [hgt, if_false]
      refine ⟨?_, ?_, fun q hq => by simp [hq]⟩
      · simp only [true_iff]; rw [hnil]; omega
      · refine ⟨fun k' hk' => ?_, fun _ => by rw [hlen]; omega⟩
        simp at hk'

/-! ## strictly above the cut point -/

def Above (g : Graph) (C x : Nat) : Prop := Reach g C x ∧ x ≠ C

/-- everything available or processed is strictly above `C` -/
def J (g : Graph) (C : Nat) (s : BState) : Prop :=
  (∀ x ∈ s.avail, Above g C x) ∧ (∀ x ∈ s.processed, Above g C x)

/-- the Boolean readiness test of `braidLoop` for a parent of the removed command -/
def readyP (g : Graph) (R : List Nat) (s : BState) (c : Cmd) (p : Nat) : Bool :=
  !(s.avail.erase c.id).contains p &&
    ((children g p).filter (R.contains ·)).all ((c.id :: s.processed).contains ·)

theorem nextState_ready (g : Graph) (R : List Nat) (s : BState) (c : Cmd) :
    (nextState g R s c).2 = c.parents.filter (readyP g R s c) := rfl

theorem all_children_iff {g : Graph} {R P : List Nat} {p : Nat} :
    ((children g p).filter (R.contains ·)).all (P.contains ·) = true ↔ unproc g R P p = [] := by
  rw [unproc_eq_nil]
  simp only [List.all_eq_true, List.mem_filter, List.contains_eq_mem, decide_eq_true_eq, mem_children]
  constructor
  · intro h y hy hp; exact h y ⟨hp, hy⟩
  · intro h y hy; exact h y hy.2 hy.1

/-- facts about a parent of the removed command -/
theorem parent_facts {g : Graph} {R : List Nat} {s : BState} (hw : WF g) (hR : Region g R) (hi : Inv g R s)
    {c : Cmd} (hcg : c ∈ g) (hcA : c.id ∈ s.avail) {p : Nat} (hp : p ∈ c.parents) :
    p ∈ R ∧ p ∉ c.id :: s.processed ∧ p ∉ s.avail.erase c.id ∧ c.id ∈ unproc g R s.processed p := by
  obtain ⟨hcR, hcP, _⟩ := (hi.aIff c.id).mp hcA
  have hpar : Par g p c.id := (par_cmd hw hcg).mpr hp
  have hpR : p ∈ R := hR.up _ hcR _ hpar
  refine ⟨hpR, ?_, ?_, mem_unproc.mpr ⟨hpar, hcR, hcP⟩⟩
  · simp only [List.mem_cons, not_or]
    exact ⟨hpar.ne hw, fun hpP => hcP (hi.closed p hpP c.id hcR hpar)⟩
  · intro hm
    have hpA : p ∈ s.avail := List.mem_of_mem_erase hm
    exact hcP (((hi.aIff p).mp hpA).2.2 c.id hcR hpar)

theorem readyP_iff {g : Graph} {R : List Nat} {s : BState} (hw : WF g) (hR : Region g R) (hi : Inv g R s)
    {c : Cmd} (hcg : c ∈ g) (hcA : c.id ∈ s.avail) {p : Nat} (hp : p ∈ c.parents) :
    readyP g R s c p = true ↔ unproc g R (c.id :: s.processed) p = [] := by
  obtain ⟨_, _, h3, _⟩ := parent_facts hw hR hi hcg hcA hp
  have : (s.avail.erase c.id).contains p = false := by simpa using h3
  simp only [readyP, this, Bool.not_false, Bool.true_and]
  exact all_children_iff

/-- a parent that becomes ready is strictly above the cut point -/
theorem ready_above {g : Graph} {R : List Nat} {s : BState} {C : Nat} (hw : WF g) (hR : Region g R)
    (hi : Inv g R s) (hj : J g C s) (hdom : ∀ x ∈ R, Reach g x C ∨ Reach g C x)
    {c : Cmd} (hcg : c ∈ g) (hcA : c.id ∈ s.avail) (h2 : ∃ d ∈ s.avail, d ≠ c.id)
    {p : Nat} (hp : p ∈ c.parents) (hready : unproc g R (c.id :: s.processed) p = []) :
    Above g C p := by
  obtain ⟨hpR, _, _, _⟩ := parent_facts hw hR hi hcg hcA hp
  by_cases hpC : Reach g p C
  · exfalso
    obtain ⟨d, hdA, hdne⟩ := h2
    obtain ⟨hCd, hdC⟩ := hj.1 d hdA
    obtain ⟨hdR, hdP, _⟩ := (hi.aIff d).mp hdA
    have hpd : Reach g p d := hpC.trans hCd
    rcases hpd.cases_head with e | ⟨m, hpm, hmd⟩
    · subst e
      exact hdC (Reach.antisymm hw hpC hCd)
    · have hmR : m ∈ R := hR.reach hdR hmd
      have hmP : m ∈ c.id :: s.processed := (unproc_eq_nil.mp hready) m hmR hpm
      have := closed_cons_reach hR hi hcA m hmP d hmd hdR
      simp only [List.mem_cons] at this
      rcases this with e | e
      · exact hdne e
      · exact hdP e
  · rcases hdom p hpR with h | h
    · exact absurd h hpC
    · exact ⟨h, fun e => hpC (by rw [e]; exact Reach.refl _)⟩

/-! ## the prior loop against `addAvail` -/

theorem pushPriors_sim {g : Graph} {R : List Nat} {s : BState} {below : Nat → Bool}
    {sameSeg : Nat → Nat → Bool} (hw : WF g) (hR : Region g R) (hi : Inv g R s)
    {c : Cmd} (hcg : c ∈ g) (hcA : c.id ∈ s.avail)
    (hss : ∀ p o, sameSeg p o = true → Reach g p o)
    (hbelow : ∀ p ∈ c.parents, below p = true → readyP g R s c p = false) :
    ∀ (ps heap : List Nat) (counts : Nat → Option Nat), ps.Nodup → (∀ p ∈ ps, p ∈ c.parents) →
      (∀ p ∈ ps, p ∉ heap) → (∀ o ∈ heap, o ∈ R ∧ o ∉ c.id :: s.processed) →
      (∀ q, below q = false → (q ∈ ps → CountInvAt g R s.processed counts q) ∧
        (q ∉ ps → CountInvAt g R (c.id :: s.processed) counts q)) →
      match addAvail g heap (ps.filter (readyP g R s c)) with
      | .error e => pushPriors g below sameSeg ps heap counts = .error e
      | .ok a => ∃ counts', pushPriors g below sameSeg ps heap counts = .ok (a, counts') ∧
          ∀ q, below q = false → CountInvAt g R (c.id :: s.processed) counts' q := by
  intro ps
  induction ps with
  | nil =>
    intro heap counts _ _ _ _ hcnt
    simp only [List.filter_nil, addAvail, pushPriors]
    exact ⟨counts, rfl, fun q hq => (hcnt q hq).2 (by simp)⟩
  | cons p ps ih =>
    intro heap counts hnd hpar hnin hheap hcnt
    rw [List.nodup_cons] at hnd
    have hp : p ∈ c.parents := hpar p (by simp)
    have hpar' : ∀ q ∈ ps, q ∈ c.parents := fun q hq => hpar q (by simp [hq])
    have hnin' : ∀ q ∈ ps, q ∉ heap := fun q hq => hnin q (by simp [hq])
    by_cases hb : below p = true
    · -- at or below the cut: skipped, and not ready anyway
      have hnr : readyP g R s c p = false := hbelow p hp hb
      have hcnt' : ∀ q, below q = false → (q ∈ ps → CountInvAt g R s.processed counts q) ∧
          (q ∉ ps → CountInvAt g R (c.id :: s.processed) counts q) := by
        intro q hq
        refine ⟨fun hqm => (hcnt q hq).1 (by simp [hqm]), fun hqn => (hcnt q hq).2 ?_⟩
        simp only [List.mem_cons, not_or]
        refine ⟨?_, hqn⟩
        intro e; subst e; rw [hb] at hq; cases hq
      have := ih heap counts hnd.2 hpar' hnin' hheap hcnt'
      simp only [List.filter_cons, hnr, Bool.false_eq_true, if_false]
      rw [pushPriors]; simp only [hb, if_true]
      exact this
    · have hb' : below p = false := by simpa using hb
      obtain ⟨hpR, hpP', hpA', hcU⟩ := parent_facts hw hR hi hcg hcA hp
      obtain ⟨hcont, hcntp, hother⟩ := shouldContinue_spec hw ((hcnt p hb').1 (by simp)) hcU
      have hcnt' : ∀ q, below q = false →
          (q ∈ ps → CountInvAt g R s.processed (shouldContinue counts p).2 q) ∧
          (q ∉ ps → CountInvAt g R (c.id :: s.processed) (shouldContinue counts p).2 q) := by
        intro q hq
        constructor
        · intro hqm
          have hqp : q ≠ p := by intro e; subst e; exact hnd.1 hqm
          exact ((hcnt q hq).1 (by simp [hqm])).congr (hother q hqp)
        · intro hqn
          by_cases hqp : q = p
          · subst hqp; exact hcntp
          · exact ((hcnt q hq).2 (by simp [hqp, hqn])).congr (hother q hqp)
      by_cases hc : (shouldContinue counts p).1 = true
      · -- last arrival: the prior becomes a strand
        have hready : unproc g R (c.id :: s.processed) p = [] := hcont.mp hc
        have hr : readyP g R s c p = true := (readyP_iff hw hR hi hcg hcA hp).mpr hready
        have hseg : heap.any (fun o => sameSeg p o) = false := by
          rw [Bool.eq_false_iff]
          intro hany
          rw [List.any_eq_true] at hany
          obtain ⟨o, ho, hso⟩ := hany
          have hpo := hss p o hso
          obtain ⟨hoR, hoP⟩ := hheap o ho
          rcases hpo.cases_head with e | ⟨m, hpm, hmo⟩
          · subst e; exact hnin p (by simp) ho
          · have hmR : m ∈ R := hR.reach hoR hmo
            have hmP := (unproc_eq_nil.mp hready) m hmR hpm
            exact hoP (closed_cons_reach hR hi hcA m hmP o hmo hoR)
        simp only [List.filter_cons, hr, if_true]
        rw [pushPriors, addAvail]
        simp only [hb', Bool.false_eq_true, if_false, hc, Bool.not_true, hseg, pushStrand]
        by_cases hfin : (isFinalize g p && heap.any (isFinalize g)) = true
        · simp only [hfin, if_true]
        · simp only [hfin, if_false]
          have hnin'' : ∀ q ∈ ps, q ∉ heap ++ [p] := by
            intro q hq hm
            simp only [List.mem_append, List.mem_singleton] at hm
            rcases hm with hm | hm
            · exact hnin' q hq hm
            · subst hm; exact hnd.1 hq
          have hheap'' : ∀ o ∈ heap ++ [p], o ∈ R ∧ o ∉ c.id :: s.processed := by
            intro o ho
            simp only [List.mem_append, List.mem_singleton] at ho
            rcases ho with ho | ho
            · exact hheap o ho
            · subst ho; exact ⟨hpR, hpP'⟩
          exact ih (heap ++ [p]) _ hnd.2 hpar' hnin'' hheap'' hcnt'
      · -- not the last arrival: dropped, and not ready
        have hc' : (shouldContinue counts p).1 = false := by simpa using hc
        have hnr : readyP g R s c p = false := by
          rw [Bool.eq_false_iff]
          intro hr
          exact hc (hcont.mpr ((readyP_iff hw hR hi hcg hcA hp).mp hr))
        have := ih heap _ hnd.2 hpar' hnin' hheap hcnt'
        simp only [List.filter_cons, hnr, Bool.false_eq_true, if_false]
        rw [pushPriors]
        simp only [hb', Bool.false_eq_true, if_false, hc', Bool.not_false, if_true]
        exact this

/-! ## the main simulation -/

def liftRes : Except BraidErr (Nat × List Nat) → Except BraidErr (List Nat)
  | .ok (s, o) => .ok (s :: o)
  | .error e => .error e

theorem implLoop_sim {g : Graph} {R : List Nat} {C : Nat} {below : Nat → Bool} {sameSeg : Nat → Nat → Bool}
    (hw : WF g) (hR : Region g R) (hdom : ∀ x ∈ R, Reach g x C ∨ Reach g C x)
    (hbel : ∀ x ∈ R, below x = true → Reach g x C)
    (hss : ∀ p o, sameSeg p o = true → Reach g p o) :
    ∀ (n : Nat) (s : BState) (ms : MState), Inv g R s → J g C s → ms.heap = s.avail → ms.out = s.out →
      (∀ q, below q = false → CountInvAt g R s.processed ms.counts q) → (∀ x, s.avail ≠ [x]) →
      g.length < n + 1 + s.processed.length →
      implLoop g below sameSeg n ms = liftRes (braidLoop g R (n + 1) s) := by
  intro n
  induction n with
  | zero =>
    intro s ms hi _ _ _ _ hns hf
    exfalso
    have hAsub : ∀ x ∈ s.avail, x ∈ ids g := fun x hx => hR.sub x ((hi.aIff x).mp hx).1
    obtain ⟨c, _, _, hcA, _⟩ := minAvail_spec hw s.avail hi.aNe hAsub
    obtain ⟨hcR, hcP, _⟩ := (hi.aIff c.id).mp hcA
    have hnd : (c.id :: s.processed).Nodup := List.nodup_cons.mpr ⟨hcP, hi.pNodup⟩
    have : (c.id :: s.processed).length ≤ (ids g).length :=
      hnd.length_le_of_subset (fun x hx => by
        simp only [List.mem_cons] at hx
        rcases hx with rfl | hx
        · exact hR.sub _ hcR
        · exact hR.sub x (hi.pSub x hx))
    simp [ids] at this
    omega
  | succ n ih =>
    intro s ms hi hj hheap hout hcnt hns hf
    have hAsub : ∀ x ∈ s.avail, x ∈ ids g := fun x hx => hR.sub x ((hi.aIff x).mp hx).1
    obtain ⟨c, hm, hcg, hcA, hmin⟩ := minAvail_spec hw s.avail hi.aNe hAsub
    have h2 := exists_ne_of_not_single hi.aNodup hi.aNe hns c.id
    rw [braidLoop_succ g R (n + 1) s hns c hm]
    have hreadyNodup : (nextState g R s c).2.Nodup := (hw.parents_nodup hcg).sublist List.filter_sublist
    rw [eraseDups_of_nodup _ hreadyNodup, nextState_ready]
    -- the prior loop
    have hbelow : ∀ p ∈ c.parents, below p = true → readyP g R s c p = false := by
      intro p hp hb
      rw [Bool.eq_false_iff]
      intro hr
      have hready := (readyP_iff hw hR hi hcg hcA hp).mp hr
      obtain ⟨hCp, hpC⟩ := ready_above hw hR hi hj hdom hcg hcA h2 hp hready
      have hpR := (parent_facts hw hR hi hcg hcA hp).1
      exact hpC (Reach.antisymm hw (hbel p hpR hb) hCp)
    have hheapfacts : ∀ o ∈ s.avail.erase c.id, o ∈ R ∧ o ∉ c.id :: s.processed := by
      intro o ho
      have ho' := (hi.aNodup.mem_erase_iff).mp ho
      obtain ⟨h1, h2', _⟩ := (hi.aIff o).mp ho'.2
      exact ⟨h1, by simp only [List.mem_cons, not_or]; exact ⟨ho'.1, h2'⟩⟩
    have hcntmid : ∀ q, below q = false → (q ∈ c.parents → CountInvAt g R s.processed ms.counts q) ∧
        (q ∉ c.parents → CountInvAt g R (c.id :: s.processed) ms.counts q) := by
      intro q hq
      refine ⟨fun _ => hcnt q hq, fun hqn => countInvAt_cons_of_not_par ?_ (hcnt q hq)⟩
      intro hp; exact hqn ((par_cmd hw hcg).mp hp)
    have hsim := pushPriors_sim (below := below) (sameSeg := sameSeg) hw hR hi hcg hcA hss hbelow
      c.parents (s.avail.erase c.id) ms.counts (hw.parents_nodup hcg) (fun p hp => hp)
      (fun p hp => (parent_facts hw hR hi hcg hcA hp).2.2.1) hheapfacts hcntmid
    rw [implLoop]
    simp only [hheap, hm]
    have hA'eq : (nextState g R s c).1.avail = s.avail.erase c.id := rfl
    rw [hA'eq]
    cases ha : addAvail g (s.avail.erase c.id) (c.parents.filter (readyP g R s c)) with
    | error e =>
      rw [ha] at hsim
      simp only [hsim, liftRes]
    | ok a =>
      rw [ha] at hsim
      obtain ⟨counts', hpp, hcnt'⟩ := hsim
      simp only [hpp]
      have ha' : addAvail g (nextState g R s c).1.avail (nextState g R s c).2.eraseDups = .ok a := by
        rw [eraseDups_of_nodup _ hreadyNodup, nextState_ready, hA'eq]; exact ha
      have hi' := step_inv hw hR hi c hcg hcA hmin h2 a ha'
      have hout' : (if isMerge c = true then ms.out else c.id :: ms.out) = (nextState g R s c).1.out := by
        simp only [nextState, hout]
      obtain ⟨ea, _⟩ := addAvail_ok _ _ _ ha
      rcases a with _ | ⟨x, _ | ⟨y, zs⟩⟩
      · exact absurd rfl hi'.aNe
      · simp only
        rw [braidLoop_one g R n _ x rfl]
        simp only [liftRes, hout']
      · have h1' : ∀ x', (x :: y :: zs) ≠ [x'] := by intro x' e; simp at e
        -- J is preserved
        have hj' : J g C { (nextState g R s c).1 with avail := x :: y :: zs } := by
          constructor
          · intro u hu
            simp only at hu
            rw [ea, List.mem_append] at hu
            rcases hu with hu | hu
            · exact hj.1 u (List.mem_of_mem_erase hu)
            · rw [List.mem_filter] at hu
              exact ready_above hw hR hi hj hdom hcg hcA h2 hu.1
                ((readyP_iff hw hR hi hcg hcA hu.1).mp hu.2)
          · intro u hu
            simp only [nextState, List.mem_cons] at hu
            rcases hu with rfl | hu
            · exact hj.1 _ hcA
            · exact hj.2 u hu
        have hih := ih { (nextState g R s c).1 with avail := x :: y :: zs }
          { heap := x :: y :: zs, counts := counts', out := (nextState g R s c).1.out } hi' hj' rfl rfl
          (by simpa [nextState] using hcnt') h1' (by simp [nextState]; omega)
        simp only
        rw [hout']
        exact hih

theorem pushHeads_eq_addAvail (g : Graph) : ∀ (hs heap : List Nat), pushHeads g heap hs = addAvail g heap hs := by
  intro hs
  induction hs with
  | nil => intro heap; rfl
  | cons h hs ih =>
    intro heap
    rw [pushHeads, addAvail, pushStrand]
    by_cases hf : (isFinalize g h && heap.any (isFinalize g)) = true
    · simp [hf]
    · simp only [hf, if_false]; exact ih _

theorem initCounts_inv {g : Graph} (hw : WF g) {R : List Nat} (hR : Region g R) (below : Nat → Bool) :
    ∀ q, below q = false → CountInvAt g R [] (initCounts g R below) q := by
  intro q hq
  have hun : unproc g R [] q = (children g q).filter (R.contains ·) := by
    simp [unproc]
  have hlen : (unproc g R [] q).length = regionChildCount g R q := by rw [hun]; rfl
  unfold CountInvAt initCounts
  rw [hlen]
  by_cases hc : (!below q && R.contains q && decide (2 ≤ regionChildCount g R q)) = true
  · rw [if_pos hc]
    exact ⟨fun k hk => (by cases hk; rfl), fun h => (by cases h)⟩
  · rw [if_neg hc]
    refine ⟨fun k hk => (by cases hk), fun _ => ?_⟩
    simp only [hq, Bool.not_false, Bool.true_and, Bool.and_eq_true, decide_eq_true_eq, not_and] at hc
    by_cases hqR : R.contains q = true
    · have := hc hqR; omega
    · -- not in the region: no region children at all
      have : regionChildCount g R q = 0 := by
        unfold regionChildCount
        rw [List.length_eq_zero_iff, List.filter_eq_nil_iff]
        intro y hy hyR
        have hyR' : y ∈ R := by simpa using hyR
        have : q ∈ R := hR.up y hyR' q (mem_children.mp hy)
        exact hqR (by simpa using this)
      omega

/-- the final state of a successful run satisfies every step-preserved predicate -/
theorem braidLoop_invariant {g : Graph} {R : List Nat} (hw : WF g) (hR : Region g R) (K : BState → Prop)
    (hK : ∀ (s : BState) (c : Cmd) (a : List Nat), Inv g R s → K s → c ∈ g → c.id ∈ s.avail →
      (∃ d ∈ s.avail, d ≠ c.id) →
      addAvail g (nextState g R s c).1.avail (nextState g R s c).2.eraseDups = .ok a →
      K { (nextState g R s c).1 with avail := a }) :
    ∀ (fuel : Nat) (s : BState), Inv g R s → K s → ∀ x o, braidLoop g R fuel s = .ok (x, o) →
      ∃ s', Inv g R s' ∧ K s' ∧ s'.avail = [x] ∧ s'.out = o := by
  intro fuel
  induction fuel with
  | zero => intro s _ _ x o h; simp [braidLoop] at h
  | succ fuel ih =>
    intro s hi hk x o h
    by_cases h1 : ∃ y, s.avail = [y]
    · obtain ⟨y, hy⟩ := h1
      rw [braidLoop_one g R fuel s y hy] at h
      simp only [Except.ok.injEq, Prod.mk.injEq] at h
      obtain ⟨rfl, rfl⟩ := h
      exact ⟨s, hi, hk, hy, rfl⟩
    · have h1' : ∀ y, s.avail ≠ [y] := fun y hy => h1 ⟨y, hy⟩
      have hAsub : ∀ y ∈ s.avail, y ∈ ids g := fun y hy => hR.sub y ((hi.aIff y).mp hy).1
      obtain ⟨c, hm, hcg, hcA, hmin⟩ := minAvail_spec hw s.avail hi.aNe hAsub
      have h2 := exists_ne_of_not_single hi.aNodup hi.aNe h1' c.id
      rw [braidLoop_succ g R fuel s h1' c hm] at h
      cases ha : addAvail g (nextState g R s c).1.avail (nextState g R s c).2.eraseDups with
      | error e => rw [ha] at h; simp at h
      | ok a =>
        rw [ha] at h
        exact ih _ (step_inv hw hR hi c hcg hcA hmin h2 a ha) (hK s c a hi hk hcg hcA h2 ha) x o h

/-- `J` is preserved by every step (under the dominator hypothesis) -/
theorem J_step {g : Graph} {R : List Nat} {C : Nat} (hw : WF g) (hR : Region g R)
    (hdom : ∀ x ∈ R, Reach g x C ∨ Reach g C x) (s : BState) (c : Cmd) (a : List Nat)
    (hi : Inv g R s) (hj : J g C s) (hcg : c ∈ g) (hcA : c.id ∈ s.avail) (h2 : ∃ d ∈ s.avail, d ≠ c.id)
    (ha : addAvail g (nextState g R s c).1.avail (nextState g R s c).2.eraseDups = .ok a) :
    J g C { (nextState g R s c).1 with avail := a } := by
  have hreadyNodup : (nextState g R s c).2.Nodup := (hw.parents_nodup hcg).sublist List.filter_sublist
  rw [eraseDups_of_nodup _ hreadyNodup, nextState_ready] at ha
  obtain ⟨ea, _⟩ := addAvail_ok _ _ _ ha
  constructor
  · intro u hu
    simp only at hu
    rw [ea, List.mem_append] at hu
    rcases hu with hu | hu
    · exact hj.1 u (List.mem_of_mem_erase hu)
    · rw [List.mem_filter] at hu
      exact ready_above hw hR hi hj hdom hcg hcA h2 hu.1 ((readyP_iff hw hR hi hcg hcA hu.1).mp hu.2)
  · intro u hu
    simp only [nextState, List.mem_cons] at hu
    rcases hu with rfl | hu
    · exact hj.1 _ hcA
    · exact hj.2 u hu

end AranyaV.Braid
