import AranyaV.Model.Lca
import AranyaV.Proofs.SegmentsBuild
/-!
# Proofs.Lca — the recorded-LCA walk returns a dominator

`Spine s w L`: `L` is a command location that is an ancestor-or-self of `w` and *splits*
`anc*(w)` by max cut — everything at or below `L`'s max cut is an ancestor-or-self of `L`, everything
above it is a descendant of `L`.  Every backward move of `lca_pair` keeps its side on the spine of
its starting point (for the jump over a merge this needs the same statement for the recorded
ancestor of that merge: `MergesDom`).  When the two sides meet, the meeting point is on both
spines, i.e. it dominates `anc*(l) ∪ anc*(r)` (`Dom2`).  Which side moves only matters for
termination.
-/
namespace AranyaV.Segments
open AranyaV.Queue (Loc)

/-- `L` is on the spine below `w` and splits `anc*(w)` by max cut -/
def Spine (s : Store) (w L : Loc) : Prop :=
  s.valid L = true ∧ AncS s L w ∧ (∀ x, AncS s x w → x.mc ≤ L.mc → AncS s x L) ∧
    (∀ x, AncS s x w → L.mc < x.mc → AncS s L x)

/-- `c` dominates `anc*(l) ∪ anc*(r)`: C11's `Dom` (nothing at or below `c`'s max cut is outside
`anc*(c)`) plus: everything above `c`'s max cut is a descendant of `c` -/
def Dom2 (s : Store) (c l r : Loc) : Prop :=
  Dom s c l r ∧ ∀ x, (AncS s x l ∨ AncS s x r) → c.mc < x.mc → AncS s c x

/-- every stored merge segment ends its skip list with a dominator of its two parents -/
def MergesDom (s : Store) : Prop :=
  ∀ i g, s.seg? i = some g → ∀ l r, g.prior = .merge l r →
    ∃ k, g.skips.getLast? = some k ∧ Dom2 s k l r

theorem ancS_eq_of_mc_le {s : Store} (hp : PriorsOK s) {a b : Loc} (h : AncS s a b) (hm : b.mc ≤ a.mc) :
    a = b := by
  rcases h.eq_or_anc with e | ha
  · exact e
  · have := ha.mc_lt hp; omega

theorem spine_refl {s : Store} (hp : PriorsOK s) {w : Loc} (h : s.valid w = true) : Spine s w w :=
  ⟨h, AncS.refl w, fun _ hx _ => hx, fun x hx hm => by have := hx.mc_le hp; omega⟩

theorem spine_of_dom2 {s : Store} {c l r : Loc} (h : Dom2 s c l r) : Spine s l c ∧ Spine s r c :=
  ⟨⟨h.1.1, h.1.2.1, fun x hx hm => h.1.2.2.2 x (Or.inl hx) hm, fun x hx hm => h.2 x (Or.inl hx) hm⟩,
   ⟨h.1.1, h.1.2.2.1, fun x hx hm => h.1.2.2.2 x (Or.inr hx) hm, fun x hx hm => h.2 x (Or.inr hx) hm⟩⟩

theorem dom2_of_spines {s : Store} {c l r : Loc} (hl : Spine s l c) (hr : Spine s r c) : Dom2 s c l r := by
  refine ⟨⟨hl.1, hl.2.1, hr.2.1, ?_⟩, ?_⟩
  · rintro x (hx | hx) hm
    · exact hl.2.2.1 x hx hm
    · exact hr.2.2.1 x hx hm
  · rintro x (hx | hx) hm
    · exact hl.2.2.2 x hx hm
    · exact hr.2.2.2 x hx hm

/-- spines compose -/
theorem spine_trans {s : Store} (hp : PriorsOK s) {w a c : Loc} (h1 : Spine s w a) (h2 : Spine s a c) :
    Spine s w c := by
  have hca : c.mc ≤ a.mc := h2.2.1.mc_le hp
  refine ⟨h2.1, h2.2.1.trans h1.2.1, ?_, ?_⟩
  · intro x hx hm
    exact h2.2.2.1 x (h1.2.2.1 x hx (by omega)) hm
  · intro x hx hm
    by_cases hxa : x.mc ≤ a.mc
    · exact h2.2.2.2 x (h1.2.2.1 x hx hxa) hm
    · exact h2.2.1.trans (h1.2.2.2 x hx (by omega))

/-- moving to the unique parent keeps the spine -/
theorem spine_unique_parent {s : Store} (hp : PriorsOK s) {w L P : Loc} (h : Spine s w L)
    (hpar : s.parents L = [P]) : Spine s w P := by
  have hPL : P ∈ s.parents L := by rw [hpar]; simp
  obtain ⟨hPv, _, hPmc⟩ := parent_valid hp hPL
  have hstep : AncS s P L := AncS.step (AncS.refl P) hPL
  have hbelow : ∀ x, Anc s x L → AncS s x P := by
    rintro x ⟨m, hm, hxm⟩
    rw [hpar] at hm; simp at hm; subst hm; exact hxm
  refine ⟨hPv, hstep.trans h.2.1, ?_, ?_⟩
  · intro x hx hm
    have hxL := h.2.2.1 x hx (by omega)
    rcases hxL.eq_or_anc with e | ha
    · subst e; omega
    · exact hbelow x ha
  · intro x hx hm
    by_cases hxL : x.mc ≤ L.mc
    · have hxL' := h.2.2.1 x hx hxL
      rcases hxL'.eq_or_anc with e | ha
      · subst e; exact hstep
      · have := (hbelow x ha).mc_le hp; omega
    · exact hstep.trans (h.2.2.2 x hx (by omega))

/-- jumping from a merge command to the recorded dominator of its parents keeps the spine -/
theorem spine_merge_jump {s : Store} (hp : PriorsOK s) {w L pl pr K : Loc} (h : Spine s w L)
    (hpar : s.parents L = [pl, pr]) (hK : Dom2 s K pl pr) : Spine s w K := by
  have hplL : pl ∈ s.parents L := by rw [hpar]; simp
  obtain ⟨_, _, hplmc⟩ := parent_valid hp hplL
  have hKpl : AncS s K pl := hK.1.2.1
  have hKL : AncS s K L := AncS.step hKpl hplL
  have hKmc : K.mc < L.mc := by have := hKpl.mc_le hp; omega
  have hbelow : ∀ x, Anc s x L → AncS s x pl ∨ AncS s x pr := by
    rintro x ⟨m, hm, hxm⟩
    rw [hpar] at hm; simp at hm
    rcases hm with rfl | rfl
    · exact Or.inl hxm
    · exact Or.inr hxm
  refine ⟨hK.1.1, hKL.trans h.2.1, ?_, ?_⟩
  · intro x hx hm
    have hxL := h.2.2.1 x hx (by omega)
    rcases hxL.eq_or_anc with e | ha
    · subst e; omega
    · exact hK.1.2.2.2 x (hbelow x ha) hm
  · intro x hx hm
    by_cases hxL : x.mc ≤ L.mc
    · have hxL' := h.2.2.1 x hx hxL
      rcases hxL'.eq_or_anc with e | ha
      · subst e; exact hKL
      · exact hK.2 x (hbelow x ha) hm
    · exact hKL.trans (h.2.2.2 x hx (by omega))

/-- every backward move of `lca_pair` keeps its side on the spine, and lowers the max cut -/
theorem stepBack_spine {s : Store} (hwf : WF s) (hmd : MergesDom s) {w L L' : Loc} (h : Spine s w L)
    (hs : stepBack s L = .ok L') : Spine s w L' ∧ L'.mc < L.mc := by
  obtain ⟨g, hg, h1, h2⟩ := valid_iff.mp h.1
  unfold stepBack at hs
  rw [hg] at hs
  simp only at hs
  by_cases hf : g.first < L.mc
  · simp only [hf, if_true, Except.ok.injEq] at hs
    subst hs
    exact ⟨spine_unique_parent hwf.priors h (parents_inner hg hf h2), by simp; omega⟩
  · simp only [hf, if_false] at hs
    have hfe : L.mc = g.first := by omega
    have hpar := parents_first (l := L) hg hfe (by omega)
    cases hpr : g.prior with
    | none => rw [hpr] at hs; simp at hs
    | single p =>
      rw [hpr] at hs hpar
      simp only [Except.ok.injEq] at hs
      rw [← hs]
      have hpL : p ∈ s.parents L := by rw [hpar]; simp [Prior.toList]
      exact ⟨spine_unique_parent hwf.priors h (by rw [hpar]; rfl), (parent_valid hwf.priors hpL).2.2⟩
    | merge pl pr =>
      rw [hpr] at hs hpar
      obtain ⟨k, hk, hkd⟩ := hmd _ g hg pl pr hpr
      rw [hk] at hs
      simp only [Except.ok.injEq] at hs
      rw [← hs]
      have hplL : pl ∈ s.parents L := by rw [hpar]; simp [Prior.toList]
      have := (parent_valid hwf.priors hplL).2.2
      have hkm := hkd.1.2.1.mc_le hwf.priors
      exact ⟨spine_merge_jump hwf.priors h (by rw [hpar]; rfl) hkd, by omega⟩

/-- when `lca_pair` answers, the answer is on the spines of both starting points -/
theorem lcaPair_spines {s : Store} (hwf : WF s) (hmd : MergesDom s) {l0 r0 : Loc} :
    ∀ (n : Nat) (L R c : Loc), Spine s l0 L → Spine s r0 R → lcaPair s n L R = .ok c →
      Spine s l0 c ∧ Spine s r0 c := by
  intro n
  induction n with
  | zero => intro L R c _ _ h; simp [lcaPair] at h
  | succ n ih =>
    intro L R c hL hR h
    rw [lcaPair] at h
    by_cases he : L = R
    · simp only [he, if_true, Except.ok.injEq] at h
      subst h; subst he
      exact ⟨hL, hR⟩
    · simp only [he, if_false] at h
      by_cases hm : L.mc > R.mc
      · simp only [hm, if_true] at h
        cases hs : stepBack s L with
        | error e => rw [hs] at h; simp at h
        | ok L' =>
          rw [hs] at h
          exact ih L' R c (stepBack_spine hwf hmd hL hs).1 hR h
      · simp only [hm, if_false] at h
        cases hs : stepBack s R with
        | error e => rw [hs] at h; simp at h
        | ok R' =>
          rw [hs] at h
          exact ih L R' c hL (stepBack_spine hwf hmd hR hs).1 h

/-! ## totality (one root) -/

/-- the graph has a single root: two command locations without parents are equal -/
def OneRoot (s : Store) : Prop :=
  ∀ x y, s.valid x = true → s.valid y = true → s.parents x = [] → s.parents y = [] → x = y

/-- every command has a root among its ancestors-or-self -/
theorem exists_root {s : Store} (hp : PriorsOK s) : ∀ (n : Nat) (x : Loc), x.mc ≤ n → s.valid x = true →
    ∃ r, s.valid r = true ∧ s.parents r = [] ∧ AncS s r x := by
  intro n
  induction n with
  | zero =>
    intro x hx hv
    cases hpx : s.parents x with
    | nil => exact ⟨x, hv, hpx, AncS.refl x⟩
    | cons p ps =>
      have hpm : p ∈ s.parents x := by rw [hpx]; simp
      have := (parent_valid hp hpm).2.2
      omega
  | succ n ih =>
    intro x hx hv
    cases hpx : s.parents x with
    | nil => exact ⟨x, hv, hpx, AncS.refl x⟩
    | cons p ps =>
      have hpm : p ∈ s.parents x := by rw [hpx]; simp
      obtain ⟨hpv, _, hlt⟩ := parent_valid hp hpm
      obtain ⟨r, hrv, hrp, hra⟩ := ih p (by omega) hpv
      exact ⟨r, hrv, hrp, AncS.step hra hpm⟩

/-- a valid location that is not below-or-equal another one in max cut order can move -/
theorem stepBack_total {s : Store} (hwf : WF s) (hmd : MergesDom s) (h1r : OneRoot s) {L O : Loc}
    (hL : s.valid L = true) (hO : s.valid O = true) (hne : L ≠ O) (hm : O.mc ≤ L.mc) :
    ∃ L', stepBack s L = .ok L' := by
  obtain ⟨g, hg, h1, h2⟩ := valid_iff.mp hL
  unfold stepBack
  rw [hg]
  simp only
  by_cases hf : g.first < L.mc
  · exact ⟨⟨L.mc - 1, L.seg⟩, by simp [hf]⟩
  · simp only [hf, if_false]
    have hfe : L.mc = g.first := by omega
    have hpar := parents_first (l := L) hg hfe (by omega)
    cases hpr : g.prior with
    | none =>
      exfalso
      rw [hpr] at hpar
      -- L is the root; the root is an ancestor-or-self of O, so O = L
      obtain ⟨r, hrv, hrp, hra⟩ := exists_root hwf.priors O.mc O (Nat.le_refl _) hO
      have : r = L := h1r r L hrv hL hrp (by simpa [Prior.toList] using hpar)
      subst this
      exact hne (ancS_eq_of_mc_le hwf.priors hra hm)
    | single p => exact ⟨p, rfl⟩
    | merge pl pr =>
      obtain ⟨k, hk, _⟩ := hmd _ g hg pl pr hpr
      exact ⟨k, by simp [hk]⟩

theorem lcaPair_total {s : Store} (hwf : WF s) (hmd : MergesDom s) (h1r : OneRoot s) {l0 r0 : Loc} :
    ∀ (n : Nat) (L R : Loc), Spine s l0 L → Spine s r0 R → L.mc + R.mc < n →
      ∃ c, lcaPair s n L R = .ok c := by
  intro n
  induction n with
  | zero => intro L R _ _ h; omega
  | succ n ih =>
    intro L R hL hR hn
    rw [lcaPair]
    by_cases he : L = R
    · exact ⟨L, by simp [he]⟩
    · simp only [he, if_false]
      by_cases hm : L.mc > R.mc
      · simp only [hm, if_true]
        obtain ⟨L', hs⟩ := stepBack_total hwf hmd h1r hL.1 hR.1 he (by omega)
        rw [hs]
        obtain ⟨hsp, hlt⟩ := stepBack_spine hwf hmd hL hs
        exact ih L' R hsp hR (by omega)
      · simp only [hm, if_false]
        obtain ⟨R', hs⟩ := stepBack_total hwf hmd h1r hR.1 hL.1 (Ne.symm he) (by omega)
        rw [hs]
        obtain ⟨hsp, hlt⟩ := stepBack_spine hwf hmd hR hs
        exact ih L R' hL hsp (by omega)

/-! ## the N-way fold -/

theorem lca_fold_err {s : Store} (e : Err) : ∀ (l : List Loc), l.foldl (lcaStep s) (Except.error e) = Except.error e := by
  intro l
  induction l with
  | nil => rfl
  | cons y ys ih => simp only [List.foldl_cons]; exact ih

theorem lca_fold_spines {s : Store} (hwf : WF s) (hmd : MergesDom s) :
    ∀ (rest : List Loc) (seen : List Loc) (acc c : Loc), s.valid acc = true → (∀ h ∈ seen, Spine s h acc) →
      (∀ h ∈ rest, s.valid h = true) →
      rest.foldl (lcaStep s) (.ok acc) = .ok c →
      s.valid c = true ∧ ∀ h ∈ seen ++ rest, Spine s h c := by
  intro rest
  induction rest with
  | nil =>
    intro seen acc c hav hs _ h
    simp only [List.foldl_nil, Except.ok.injEq] at h
    subst h
    exact ⟨hav, by simpa using hs⟩
  | cons x xs ih =>
    intro seen acc c hav hs hv h
    simp only [List.foldl_cons, lcaStep] at h
    have hxv : s.valid x = true := hv x (by simp)
    cases hp : lcaPair s (lcaFuel acc x) acc x with
    | error e => rw [hp, lca_fold_err] at h; cases h
    | ok c1 =>
      rw [hp] at h
      obtain ⟨h1, h2⟩ := lcaPair_spines hwf hmd _ acc x c1 (spine_refl hwf.priors hav)
        (spine_refl hwf.priors hxv) hp
      have hs' : ∀ h ∈ seen ++ [x], Spine s h c1 := by
        intro h hh
        simp only [List.mem_append, List.mem_singleton] at hh
        rcases hh with hh | rfl
        · exact spine_trans hwf.priors (hs h hh) h1
        · exact h2
      have := ih (seen ++ [x]) c1 c h1.1 hs' (fun y hy => hv y (by simp [hy])) h
      simpa [List.append_assoc] using this

/-- the N-way `last_common_ancestor` is on the spine of every head -/
theorem lastCommonAncestor_spines {s : Store} (hwf : WF s) (hmd : MergesDom s) {hs : List Loc}
    (hv : ∀ h ∈ hs, s.valid h = true) {c : Loc} (h : lastCommonAncestor s hs = .ok c) :
    s.valid c = true ∧ ∀ h ∈ hs, Spine s h c := by
  cases hs with
  | nil => simp [lastCommonAncestor] at h
  | cons a rest =>
    have hav := hv a (by simp)
    have := lca_fold_spines hwf hmd rest [a] a c hav
      (by intro h hh; simp at hh; subst hh; exact spine_refl hwf.priors hav)
      (fun y hy => hv y (by simp [hy])) h
    simpa using this

theorem lca_fold_total {s : Store} (hwf : WF s) (hmd : MergesDom s) (h1r : OneRoot s) :
    ∀ (rest : List Loc) (acc : Loc), s.valid acc = true → (∀ h ∈ rest, s.valid h = true) →
      ∃ c, rest.foldl (lcaStep s) (.ok acc) = .ok c := by
  intro rest
  induction rest with
  | nil => intro acc _ _; exact ⟨acc, rfl⟩
  | cons x xs ih =>
    intro acc hav hv
    have hxv : s.valid x = true := hv x (by simp)
    obtain ⟨c1, hc1⟩ := lcaPair_total hwf hmd h1r (lcaFuel acc x) acc x (spine_refl hwf.priors hav)
      (spine_refl hwf.priors hxv) (by simp [lcaFuel])
    obtain ⟨h1, _⟩ := lcaPair_spines hwf hmd _ acc x c1 (spine_refl hwf.priors hav)
      (spine_refl hwf.priors hxv) hc1
    simp only [List.foldl_cons, lcaStep, hc1]
    exact ih c1 h1.1 (fun y hy => hv y (by simp [hy]))

end AranyaV.Segments
