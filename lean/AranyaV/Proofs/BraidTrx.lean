import AranyaV.Model.Trx
/-!
# Proofs.BraidTrx — a failing `commit` / `add_merge` changes nothing (for C05)

Lemmas about builder-G2's transaction model (`Model/Trx.lean`, imported, not edited): `commit`
returns before `commit_heads` on every error; in the live case (stamp current, nothing to flush
wrongly, at least two tips) it fails with `ParallelFinalize` exactly when the reference braid of the
new head set does.
-/
namespace AranyaV.Trx
open AranyaV.Spec AranyaV.Gen

/-- every failing `commit` returns the committed store and the sink it was given -/
theorem commit_err_unchanged (st : Store) (t : Trx) (sink : List SinkEv) (e : Err)
    (h : (commit (some st) t sink).2.2 = .error e) :
    (commit (some st) t sink).1 = some st ∧ (commit (some st) t sink).2.1 = sink := by
  unfold commit at h ⊢
  cases ho : t.offset with
  | none => simp [ho] at h
  | some o =>
    simp only [ho] at h ⊢
    by_cases h1 : o ≠ st.stamp
    · simp [h1]
    · simp only [h1, if_false] at h ⊢
      by_cases h2 : flushErr t = true
      · simp [h2]
      · simp only [h2, Bool.false_eq_true, if_false] at h ⊢
        by_cases h3 : (flushT t).heads.isEmpty = true
        · simp [h3] at h
        · simp only [h3, Bool.false_eq_true, if_false] at h ⊢
          split
          · rename_i hd hhs
            simp only [hhs] at h
            cases hs' : stateOf (st.graph ++ (flushT t).written) hd with
            | none => simp
            | some s => simp [hs'] at h
          · rename_i hne
            split at h
            · rename_i hd hhs; exact absurd hhs (hne hd)
            · cases hb : braidFacts (st.graph ++ (flushT t).written) (List.foldl hsPush [] (flushT t).heads) with
              | error e' => simp
              | ok r => simp [hb] at h

/-- `braidFacts` reports `ParallelFinalize` exactly when the reference braid does -/
theorem braidFacts_pf (g : List SCmd) (hs : List Nat) :
    (∃ e, braidFacts g hs = .error e ∧ e = .parallelFinalize) ↔
      refBraid (cmds g) hs = .error .parallelFinalize := by
  unfold braidFacts
  cases hr : refBraid (cmds g) hs with
  | error e =>
    cases e with
    | parallelFinalize => simp
    | malformed => simp
  | ok r =>
    obtain ⟨start, order⟩ := r
    simp only
    cases stateOf g start with
    | none => simp
    | some s => simp

/-- the live case of `commit`: current stamp, no empty perspective to flush, at least two tips -/
structure LiveMulti (st : Store) (t : Trx) : Prop where
  stamp : t.offset = some st.stamp
  flush : flushErr t = false
  multi : ∀ h, (flushT t).heads.foldl hsPush [] ≠ [h]
  nonempty : (flushT t).heads.isEmpty = false

theorem commit_live_multi {st : Store} {t : Trx} (hl : LiveMulti st t) (sink : List SinkEv) :
    commit (some st) t sink =
      match braidFacts (st.graph ++ (flushT t).written) ((flushT t).heads.foldl hsPush []) with
      | .error e => (some st, sink, .error e)
      | .ok (s, fx) =>
        (some { graph := st.graph ++ (flushT t).written, heads := (flushT t).heads.foldl hsPush [],
                stamp := st.stamp + 1, facts := s }, sink ++ braidEvs fx, .ok true) := by
  unfold commit
  simp only [hl.stamp, ne_eq, not_true_eq_false, if_false, hl.flush, Bool.false_eq_true, hl.nonempty]
  split
  · rename_i hd hhs; exact absurd hhs (hl.multi hd)
  · rfl

/-- every failing `add_merge` leaves the transaction as `flush` left it and the sink untouched -/
theorem addMerge_err_unchanged (st : Store) (t : Trx) (sink : List SinkEv) (c : Cmd) (l r : Nat) (e : Err)
    (h : (addMerge st t sink c l r).2.2 = some e) :
    (addMerge st t sink c l r).1 = flushT t ∧ (addMerge st t sink c l r).2.1 = sink := by
  unfold addMerge at h ⊢
  by_cases h1 : flushErr t = true
  · simp [h1]
  · simp only [h1, Bool.false_eq_true, if_false] at h ⊢
    by_cases h2 : (!locate st (flushT t) l) = true
    · simp [h2]
    · simp only [h2, Bool.false_eq_true, if_false] at h ⊢
      by_cases h3 : (!locate st (flushT t) r) = true
      · simp [h3]
      · simp only [h3, Bool.false_eq_true, if_false] at h ⊢
        by_cases h4 : l = r
        · simp [h4]
        · simp only [h4, if_false] at h ⊢
          cases hb : braidFacts (viewOf st (flushT t)) [l, r] with
          | error e' => simp
          | ok r' => simp [hb] at h

end AranyaV.Trx
