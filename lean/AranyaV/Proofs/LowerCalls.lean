import AranyaV.Model.LangLower
import AranyaV.Proofs.CompileCalls
/-!
C24 `resolve_total`, lowering side: a program accepted by `lowerProgram` has distinct function
names and calls only builtins or declared functions (`lowerProgram_funs`).  Proved by structural
recursion over the syntax, following the nine mutually recursive lowering functions.
-/
namespace AranyaV.Lang
open AranyaV.Gen.Lang

def Sub (cx : LCtx) (l : List Nat) : Prop := ∀ f ∈ l, isBuiltin f = false ∧ (cx.sigs.find? (·.1 == f)).isSome = true

theorem Sub.nil {cx} : Sub cx [] := by intro f hf; cases hf
theorem sub_append {cx a b} : Sub cx (a ++ b) ↔ Sub cx a ∧ Sub cx b :=
  ⟨fun h => ⟨fun f hf => h f (List.mem_append.mpr (Or.inl hf)), fun f hf => h f (List.mem_append.mpr (Or.inr hf))⟩,
   fun h f hf => (List.mem_append.mp hf).elim (h.1 f) (h.2 f)⟩

theorem calleesFields_append : ∀ (a b : List (Nat × Expr)), calleesFields (a ++ b) = calleesFields a ++ calleesFields b
  | [], b => by simp [calleesFields]
  | (k, e) :: a, b => by simp [calleesFields, calleesFields_append a b]

theorem expandSources_callees (cx : LCtx) (sc : Scopes) (bd : List (Nat × Ty)) (given : List Nat) :
    ∀ (srcs seen : List Nat) (extra : List (Nat × Expr × Ty)), expandSources cx sc bd given srcs seen = some extra →
      calleesFields (extra.map (fun x => (x.1, x.2.1))) = []
  | [], seen, extra, h => by simp [expandSources] at h; subst h; simp [calleesFields]
  | src :: rest, seen, extra, h => by
    simp only [expandSources] at h
    repeat' (split at h)
    all_goals (try (cases h; done))
    simp only [Option.some.injEq] at h; subst h
    rename_i more hm
    rw [List.map_append, calleesFields_append, expandSources_callees cx sc bd given rest _ more hm]
    simp only [List.append_nil, List.map_map]
    generalize List.filter _ _ = todo
    induction todo with
    | nil => simp [calleesFields]
    | cons x xs ih => simp [calleesFields, calleesE, ih]

macro "low_tac" : tactic => `(tactic| (
  intro sc e' t h
  simp only [lowerExpr] at h
  repeat' (split at h)
  all_goals (try (cases h; done))
  all_goals (try simp only [Option.map_eq_some_iff, Option.some.injEq, Prod.mk.injEq, exists_and_right, exists_eq_right] at h)
  all_goals (first
    | (obtain ⟨h1, h2⟩ := h; subst h1; subst h2)
    | (obtain ⟨_, h1, h2⟩ := h; subst h1; subst h2)
    | (obtain ⟨⟨_, _⟩, h1, h2⟩ := h; subst h1; subst h2)
    | (obtain ⟨_, _, h1, h2⟩ := h; subst h1; subst h2))
  all_goals (simp only [calleesE, sub_append])
  all_goals (repeat' apply And.intro)
  all_goals (first | exact Sub.nil | solve_by_elim)))


macro "low_s" : tactic => `(tactic| (
  intro sc e' t h
  simp only [lowerStmt] at h
  repeat' (split at h)
  all_goals (try (cases h; done))
  all_goals (try simp only [Option.map_eq_some_iff, Option.some.injEq, Prod.mk.injEq, exists_and_right, exists_eq_right] at h)
  all_goals (first
    | (obtain ⟨h1, h2⟩ := h; subst h1; subst h2)
    | (obtain ⟨_, h1, h2⟩ := h; subst h1; subst h2)
    | (obtain ⟨⟨_, _⟩, h1, h2⟩ := h; subst h1; subst h2)
    | (obtain ⟨_, _, h1, h2⟩ := h; subst h1; subst h2))
  all_goals (simp only [calleesS, sub_append])
  all_goals (repeat' apply And.intro)
  all_goals (first | exact Sub.nil | solve_by_elim)))


mutual
theorem lower_callsE (cx : LCtx) : (e : Expr) → ∀ sc e' t, lowerExpr cx sc e = some (e', t) → Sub cx (calleesE e')
  | .unit => by low_tac
  | .int _ => by low_tac
  | .str _ => by low_tac
  | .bool _ => by low_tac
  | .none => by low_tac
  | .todo => by low_tac
  | .var _ => by low_tac
  | .enumRef _ _ _ => by low_tac
  | .some e => by have ih := lower_callsE cx e; low_tac
  | .ok e => by have ih := lower_callsE cx e; low_tac
  | .err e => by have ih := lower_callsE cx e; low_tac
  | .not e => by have ih := lower_callsE cx e; low_tac
  | .ret e => by have ih := lower_callsE cx e; low_tac
  | .is e _ => by have ih := lower_callsE cx e; low_tac
  | .dot e _ => by have ih := lower_callsE cx e; low_tac
  | .cast e _ => by have ih := lower_callsE cx e; low_tac
  | .substruct e _ => by have ih := lower_callsE cx e; low_tac
  | .and a b => by have iha := lower_callsE cx a; have ihb := lower_callsE cx b; low_tac
  | .or a b => by have iha := lower_callsE cx a; have ihb := lower_callsE cx b; low_tac
  | .coalesce a b => by have iha := lower_callsE cx a; have ihb := lower_callsE cx b; low_tac
  | .eq a b => by have iha := lower_callsE cx a; have ihb := lower_callsE cx b; low_tac
  | .ne a b => by have iha := lower_callsE cx a; have ihb := lower_callsE cx b; low_tac
  | .gt a b => by have iha := lower_callsE cx a; have ihb := lower_callsE cx b; low_tac
  | .lt a b => by have iha := lower_callsE cx a; have ihb := lower_callsE cx b; low_tac
  | .ge a b => by have iha := lower_callsE cx a; have ihb := lower_callsE cx b; low_tac
  | .le a b => by have iha := lower_callsE cx a; have ihb := lower_callsE cx b; low_tac
  | .ite a b c => by have iha := lower_callsE cx a; have ihb := lower_callsE cx b; have ihc := lower_callsE cx c; low_tac
  | .block ss e => by have iha := lower_callsSs cx ss; have ihb := lower_callsE cx e; low_tac
  | .call f args => by
    have iha := lower_callsArgs cx args
    intro sc e' t h
    simp only [lowerExpr] at h
    repeat' (split at h)
    all_goals (try (cases h; done))
    simp only [Option.some.injEq, Prod.mk.injEq] at h
    obtain ⟨rfl, rfl⟩ := h
    simp only [calleesE, sub_append]
    refine ⟨?_, by solve_by_elim⟩
    intro g hg
    split at hg
    · cases hg
    · simp only [List.mem_singleton] at hg; subst hg; simp [*]
  | .ffi _ _ _ args => by have iha := lower_callsArgs cx args; low_tac
  | .struct _ fs _ => by
    have iha := lower_callsFields cx fs
    intro sc e' t h
    simp only [lowerExpr] at h
    repeat' (split at h)
    all_goals (try (cases h; done))
    all_goals (simp only [Option.some.injEq, Prod.mk.injEq] at h; obtain ⟨rfl, rfl⟩ := h)
    · simp only [calleesE]; solve_by_elim
    · simp only [calleesE, calleesFields_append, sub_append]
      refine ⟨by solve_by_elim, ?_⟩
      rw [expandSources_callees _ _ _ _ _ _ _ ‹_›]; exact Sub.nil
  | .mtch scrut arms => by have iha := lower_callsE cx scrut; have ihb := lower_callsArmsE cx arms; low_tac
theorem lower_callsArgs (cx : LCtx) : (es : List Expr) → ∀ sc pts es', lowerArgs cx sc pts es = some es' → Sub cx (calleesArgs es')
  | [] => by
    intro sc pts es' h
    simp only [lowerArgs, Option.some.injEq] at h; subst h; exact Sub.nil
  | e :: es => by
    have ihe := lower_callsE cx e
    have ihr := lower_callsArgs cx es
    intro sc pts es' h
    cases pts with
    | nil => simp only [lowerArgs, Option.some.injEq] at h; subst h; exact Sub.nil
    | cons pt pts =>
      simp only [lowerArgs] at h
      repeat' (split at h)
      all_goals (try (cases h; done))
      simp only [Option.map_eq_some_iff] at h
      obtain ⟨r, hr, rfl⟩ := h
      simp only [calleesArgs, sub_append]
      exact ⟨by solve_by_elim, by solve_by_elim⟩
theorem lower_callsFields (cx : LCtx) : (fs : List (Nat × Expr)) → ∀ sc d fs', lowerFields cx sc d fs = some fs' → Sub cx (calleesFields fs')
  | [] => by
    intro sc d fs' h
    simp only [lowerFields, Option.some.injEq] at h; subst h; exact Sub.nil
  | (k, e) :: rest => by
    have ihe := lower_callsE cx e
    have ihr := lower_callsFields cx rest
    intro sc d fs' h
    simp only [lowerFields] at h
    repeat' (split at h)
    all_goals (try (cases h; done))
    simp only [Option.map_eq_some_iff] at h
    obtain ⟨r, hr, rfl⟩ := h
    simp only [calleesFields, sub_append]
    exact ⟨by solve_by_elim, by solve_by_elim⟩
theorem lower_callsPatVals (cx : LCtx) : (vs : List Expr) → ∀ sc st s out bs, lowerPatValsE cx sc st vs = some (s, out, bs) → Sub cx (calleesArgs out)
  | [] => by
    intro sc st s out bs h
    simp only [lowerPatValsE, Option.some.injEq, Prod.mk.injEq] at h
    obtain ⟨_, rfl, _⟩ := h; exact Sub.nil
  | v :: vs => by
    have ihe := lower_callsE cx v
    have ihr := lower_callsPatVals cx vs
    intro sc st s out bs h
    simp only [lowerPatValsE] at h
    repeat' (split at h)
    all_goals (try (cases h; done))
    all_goals (
      simp only [Option.map_eq_some_iff] at h
      obtain ⟨⟨s1, o1, b1⟩, hr, hq⟩ := h
      simp only [Prod.mk.injEq] at hq
      obtain ⟨_, rfl, _⟩ := hq
      simp only [calleesArgs, calleesE, sub_append]
      exact ⟨by first | exact Sub.nil | solve_by_elim, by solve_by_elim⟩)
theorem lower_callsPat (cx : LCtx) : (p : Pat) → ∀ sc st s p' bs, lowerPat cx sc st p = some (s, p', bs) → Sub cx (calleesPat p')
  | .default => by
    intro sc st s p' bs h
    simp only [lowerPat, Option.some.injEq, Prod.mk.injEq] at h
    obtain ⟨_, rfl, _⟩ := h; exact Sub.nil
  | .values vs => by
    have ihp := lower_callsPatVals cx vs
    intro sc st s p' bs h
    simp only [lowerPat, Option.map_eq_some_iff] at h
    obtain ⟨⟨s1, o1, b1⟩, hr, hq⟩ := h
    simp only [Prod.mk.injEq] at hq
    obtain ⟨_, rfl, _⟩ := hq
    simp only [calleesPat]; solve_by_elim
theorem lower_callsArmsE (cx : LCtx) : (arms : List (Pat × Expr)) → ∀ sc st ty s r out, lowerArmsE cx sc st ty arms = some (s, r, out) → Sub cx (calleesArmsE out)
  | [] => by
    intro sc st ty s r out h
    simp only [lowerArmsE, Option.some.injEq, Prod.mk.injEq] at h
    obtain ⟨_, _, rfl⟩ := h; exact Sub.nil
  | (pat, body) :: rest => by
    have ihp := lower_callsPat cx pat
    have ihe := lower_callsE cx body
    have ihr := lower_callsArmsE cx rest
    intro sc st ty s r out h
    simp only [lowerArmsE] at h
    repeat' (split at h)
    all_goals (try (cases h; done))
    all_goals (
      simp only [Option.map_eq_some_iff] at h
      obtain ⟨⟨s1, r1, o1⟩, hr, hq⟩ := h
      simp only [Prod.mk.injEq] at hq
      obtain ⟨_, _, rfl⟩ := hq
      simp only [calleesArmsE, sub_append]
      exact ⟨⟨by solve_by_elim, by solve_by_elim⟩, by solve_by_elim⟩)
theorem lower_callsArmsS (cx : LCtx) : (arms : List (Pat × List Stmt)) → ∀ sc st s out, lowerArmsS cx sc st arms = some (s, out) → Sub cx (calleesArmsS out)
  | [] => by
    intro sc st s out h
    simp only [lowerArmsS, Option.some.injEq, Prod.mk.injEq] at h
    obtain ⟨_, rfl⟩ := h; exact Sub.nil
  | (pat, body) :: rest => by
    have ihp := lower_callsPat cx pat
    have ihe := lower_callsSs cx body
    have ihr := lower_callsArmsS cx rest
    intro sc st s out h
    simp only [lowerArmsS] at h
    repeat' (split at h)
    all_goals (try (cases h; done))
    all_goals (
      simp only [Option.map_eq_some_iff] at h
      obtain ⟨⟨s1, o1⟩, hr, hq⟩ := h
      simp only [Prod.mk.injEq] at hq
      obtain ⟨_, rfl⟩ := hq
      simp only [calleesArmsS, sub_append]
      exact ⟨⟨by solve_by_elim, by solve_by_elim⟩, by solve_by_elim⟩)
theorem lower_callsSs (cx : LCtx) : (ss : List Stmt) → ∀ sc ss' sc', lowerStmts cx sc ss = some (ss', sc') → Sub cx (calleesSs ss')
  | [] => by
    intro sc ss' sc' h
    simp only [lowerStmts, Option.some.injEq, Prod.mk.injEq] at h
    obtain ⟨rfl, _⟩ := h; exact Sub.nil
  | s :: ss => by
    have ihs := lower_callsS cx s
    have ihr := lower_callsSs cx ss
    intro sc ss' sc' h
    simp only [lowerStmts] at h
    repeat' (split at h)
    all_goals (try (cases h; done))
    simp only [Option.map_eq_some_iff] at h
    obtain ⟨⟨o1, r1⟩, hr, hq⟩ := h
    simp only [Prod.mk.injEq] at hq
    obtain ⟨rfl, _⟩ := hq
    simp only [calleesSs, sub_append]
    exact ⟨by solve_by_elim, by solve_by_elim⟩
theorem lower_callsS (cx : LCtx) : (s : Stmt) → ∀ sc s' sc', lowerStmt cx sc s = some (s', sc') → Sub cx (calleesS s')
  | .let_ x e => by have ih := lower_callsE cx e; low_s
  | .check a b => by have iha := lower_callsE cx a; have ihb := lower_callsE cx b; low_s
  | .ret e => by have ih := lower_callsE cx e; low_s
  | .dassert e => by have ih := lower_callsE cx e; low_s
  | .mtch scrut arms => by have iha := lower_callsE cx scrut; have ihb := lower_callsArmsS cx arms; low_s
  | .ifS brs hasElse els => by
    have iha := lower_callsBrs cx brs; have ihb := lower_callsSs cx els
    intro sc s' sc' h
    simp only [lowerStmt] at h
    repeat' (split at h)
    all_goals (try (cases h; done))
    · simp only [Option.map_eq_some_iff] at h
      obtain ⟨⟨o1, r1⟩, hr, hq⟩ := h
      simp only [Prod.mk.injEq] at hq
      obtain ⟨rfl, _⟩ := hq
      simp only [calleesS, sub_append]
      exact ⟨by solve_by_elim, by solve_by_elim⟩
    · simp only [Option.some.injEq, Prod.mk.injEq] at h
      obtain ⟨rfl, _⟩ := h
      simp only [calleesS, calleesSs, sub_append]
      exact ⟨by solve_by_elim, Sub.nil⟩
theorem lower_callsBrs (cx : LCtx) : (brs : List (Expr × List Stmt)) → ∀ sc brs', lowerBranches cx sc brs = some brs' → Sub cx (calleesBrs brs')
  | [] => by
    intro sc brs' h
    simp only [lowerBranches, Option.some.injEq] at h; subst h; exact Sub.nil
  | (c, ss) :: rest => by
    have ihc := lower_callsE cx c
    have ihs := lower_callsSs cx ss
    have ihr := lower_callsBrs cx rest
    intro sc brs' h
    simp only [lowerBranches] at h
    repeat' (split at h)
    all_goals (try (cases h; done))
    simp only [Option.map_eq_some_iff] at h
    obtain ⟨r, hr, rfl⟩ := h
    simp only [calleesBrs, sub_append]
    exact ⟨⟨by solve_by_elim, by solve_by_elim⟩, by solve_by_elim⟩
end

/-! ### program level -/

theorem findDup_nodup : ∀ (l : List Nat), findDup l = false → l.Nodup
  | [], _ => List.nodup_nil
  | x :: xs, h => by
    simp only [findDup, Bool.or_eq_false_iff] at h
    refine List.nodup_cons.mpr ⟨?_, findDup_nodup xs h.2⟩
    intro hx; have := List.contains_iff_mem.mpr hx; rw [h.1] at this; cases this

theorem lowerFun_spec {cx : LCtx} {fd fd' : FunDef} (h : lowerFun cx fd = some fd') :
    fd'.name = fd.name ∧ ∀ f ∈ calleesSs fd'.body, isBuiltin f = false ∧ (cx.sigs.find? (·.1 == f)).isSome = true := by
  simp only [lowerFun] at h
  repeat' (split at h)
  all_goals (try (cases h; done))
  simp only [Option.some.injEq] at h; subst h
  refine ⟨rfl, ?_⟩
  exact lower_callsSs { cx with retTy := fd.ret } fd.body _ _ _ ‹_›

/-- the function-lowering fold of `lowerProgram` -/
theorem lowerFuns_spec (cx : LCtx) : ∀ (funs : List FunDef) (acc out : List FunDef),
    funs.foldl (fun (acc : Option (List FunDef)) fd => acc.bind fun out =>
      (lowerFun cx fd).map (fun fd' => out ++ [fd'])) (some acc) = some out →
    ∃ l, out = acc ++ l ∧ l.map (·.name) = funs.map (·.name) ∧
      ∀ fd' ∈ l, ∀ f ∈ calleesSs fd'.body, isBuiltin f = false ∧ (cx.sigs.find? (·.1 == f)).isSome = true
  | [], acc, out, h => by
    simp only [List.foldl_nil, Option.some.injEq] at h; subst h
    exact ⟨[], by simp, rfl, by intro _ h; cases h⟩
  | fd :: rest, acc, out, h => by
    simp only [List.foldl_cons, Option.bind_some] at h
    cases hf : lowerFun cx fd with
    | none =>
      rw [hf] at h
      have : ∀ (l : List FunDef), l.foldl (fun (acc : Option (List FunDef)) fd => acc.bind fun out =>
          (lowerFun cx fd).map (fun fd' => out ++ [fd'])) none = none := by
        intro l; induction l with
        | nil => rfl
        | cons x xs ih => simpa using ih
      simp only [Option.map_none] at h; rw [this] at h; cases h
    | some fd' =>
      rw [hf] at h; simp only [Option.map_some] at h
      obtain ⟨l, rfl, hn, hc⟩ := lowerFuns_spec cx rest _ _ h
      obtain ⟨hname, hcal⟩ := lowerFun_spec hf
      refine ⟨fd' :: l, by simp, by simp [hn, hname], ?_⟩
      intro g hg
      rcases List.mem_cons.mp hg with rfl | hg
      · exact hcal
      · exact hc g hg

theorem mem_calleesFuns {f : Nat} : ∀ {funs : List FunDef}, f ∈ calleesFuns funs → ∃ fd ∈ funs, f ∈ calleesSs fd.body
  | [], h => by cases h
  | fd :: rest, h => by
    simp only [calleesFuns, List.mem_append] at h
    rcases h with h | h
    · exact ⟨fd, List.mem_cons_self .., h⟩
    · obtain ⟨g, hg, hf⟩ := mem_calleesFuns h; exact ⟨g, List.mem_cons_of_mem _ hg, hf⟩

/-- what lowering guarantees about the function list of an accepted program: distinct names,
and every (non-builtin) function called anywhere is declared -/
theorem lowerProgram_funs {mods ffi sp p} (h : lowerProgram mods ffi sp = some p) :
    (p.funs.map (·.name)).Nodup ∧ CallsDeclared p.funs := by
  unfold lowerProgram at h
  simp only at h
  repeat' (split at h)
  all_goals (try (cases h; done))
  simp only [Option.some.injEq] at h; subst h
  rename_i hdup _ funs hfuns
  obtain ⟨l, hl, hn, hc⟩ := lowerFuns_spec _ _ _ _ hfuns
  simp only [List.nil_append] at hl; subst hl
  have hnd := findDup_nodup _ (by simpa using hdup)
  have hnames : (sp.funs.map (·.name)).Nodup := by
    have := (List.nodup_append.mp hnd).2.1
    simpa [Function.comp_def] using this
  refine ⟨by simpa [hn] using hnames, ?_⟩
  intro f hf
  obtain ⟨fd, hfd, hfb⟩ := mem_calleesFuns hf
  obtain ⟨hb, hs⟩ := hc fd hfd f hfb
  simp only at hs
  obtain ⟨q, hq⟩ := Option.isSome_iff_exists.mp hs
  have hqm := List.mem_of_find?_eq_some hq
  have hq1 : q.1 = f := by have := List.find?_some hq; simpa using this
  rcases List.mem_append.mp hqm with hb' | hu
  · exfalso
    simp only [builtinSigs, List.mem_map, List.mem_range] at hb'
    obtain ⟨i, hi, rfl⟩ := hb'
    simp only at hq1; subst hq1
    have : i < 4 := hi
    have : isBuiltin i = true := by
      match i, this with
      | 0, _ | 1, _ | 2, _ | 3, _ => rfl
    rw [this] at hb; cases hb
  · obtain ⟨g, hg, rfl⟩ := List.mem_map.mp hu
    simp only at hq1
    have : g.name ∈ funs.map (·.name) := by rw [hn]; exact List.mem_map.mpr ⟨g, hg, rfl⟩
    obtain ⟨g', hg', hgn⟩ := List.mem_map.mp this
    exact ⟨g', hg', by rw [hgn, hq1]⟩

end AranyaV.Lang
