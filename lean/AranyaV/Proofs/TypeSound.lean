import AranyaV.Proofs.TypeFrag
namespace AranyaV.Lang
open AranyaV.Gen.Lang

macro "inv_low" h:ident : tactic => `(tactic| (
  simp only [lowerExpr, lowerStmt] at $h:ident
  repeat' (split at $h:ident)
  all_goals (try (cases $h:ident; done))))

macro "res_cases" h:ident "of" t:term : tactic => `(tactic| (
  revert $h:ident
  generalize $t = r
  intro $h:ident
  cases r <;> (try simp only [ROk, FitV] at $h:ident ⊢) <;> (try exact $h:ident) <;> (try trivial) <;> (try exact False.elim $h:ident)))

theorem ROk.mono {α : Type} {P P' : α → Prop} {Q Q' : Val → Prop} {r : Res α}
    (h : ROk P Q r) (hp : ∀ a, P a → P' a) (hq : ∀ v, Q v → Q' v) : ROk P' Q' r := by
  cases r <;> simp only [ROk] at h ⊢
  all_goals first | exact hp _ h | exact hq _ h | exact h

theorem fits_bool_ty {b : Bool} {t : Ty} (h : (Val.bool b).fitsType t = true) : t = .bool := by
  cases t <;> simp [Val.fitsType] at h; rfl

theorem checked_fits (r : Int) : (checked r).fitsType (.optional .int) = true := by
  unfold checked; split <;> rfl

theorem isBuiltin_cases {f : Nat} (h : isBuiltin f = true) : f = 0 ∨ f = 1 ∨ f = 2 ∨ f = 3 := by
  match f, h with
  | 0, _ => simp
  | 1, _ => simp
  | 2, _ => simp
  | 3, _ => simp
  | n + 4, h => simp [isBuiltin, builtinInstr] at h

theorem argsFit_two {vs : List Val} (h : ArgsFit vs [.int, .int]) : ∃ a b, vs = [.int a, .int b] := by
  match vs, h with
  | [v, w], h =>
    simp only [ArgsFit] at h
    obtain ⟨a, rfl⟩ := fits_int h.1
    obtain ⟨b, rfl⟩ := fits_int h.2.1
    exact ⟨a, b, rfl⟩
  | [], h => simp [ArgsFit] at h
  | [_], h => simp [ArgsFit] at h
  | _ :: _ :: _ :: _, h => simp [ArgsFit] at h

theorem argsFit_length : ∀ {vs : List Val} {ts : List Ty}, ArgsFit vs ts → vs.length = ts.length
  | [], [], _ => rfl
  | [], _ :: _, h => by simp [ArgsFit] at h
  | _ :: _, [], h => by simp [ArgsFit] at h
  | _ :: vs, _ :: ts, h => by simp only [ArgsFit] at h; simp [argsFit_length h.2]

theorem argsFit_snoc : ∀ {vs : List Val} {ts : List Ty} {v : Val} {t : Ty}, ArgsFit vs ts → v.fitsType t = true →
    ArgsFit (vs ++ [v]) (ts ++ [t])
  | [], [], _, _, _, hv => by simp [ArgsFit, hv]
  | [], _ :: _, _, _, h, _ => by simp [ArgsFit] at h
  | _ :: _, [], _, _, h, _ => by simp [ArgsFit] at h
  | _ :: vs, _ :: ts, _, _, h, hv => by
    simp only [ArgsFit] at h
    simp only [List.cons_append, ArgsFit]
    exact ⟨h.1, argsFit_snoc h.2 hv⟩

theorem argsFit_reverse : ∀ {vs : List Val} {ts : List Ty}, ArgsFit vs ts → ArgsFit vs.reverse ts.reverse
  | [], [], _ => by simp [ArgsFit]
  | [], _ :: _, h => by simp [ArgsFit] at h
  | _ :: _, [], h => by simp [ArgsFit] at h
  | _ :: vs, _ :: ts, h => by
    simp only [ArgsFit] at h
    simp only [List.reverse_cons]
    exact argsFit_snoc (argsFit_reverse h.2) h.1

theorem foldl_bind_none {α β : Type} (f : α → β → Option α) : ∀ (l : List β),
    l.foldl (fun acc q => acc.bind (fun s => f s q)) none = none
  | [] => rfl
  | _ :: l => by simp [List.foldl_cons, foldl_bind_none f l]

theorem bind_params {cx : LCtx} {p : Program} (hg : cx.globals = []) (hpg : p.globals = []) :
    ∀ (qs : List (Nat × Ty)) (ws : List Val) (sc : Scopes) (env : Env) (sc0 : Scopes), EnvOk sc env →
    qs.foldl (fun acc (q : Nat × Ty) => acc.bind (fun s => scopeAdd cx s q.1 q.2)) (some sc) = some sc0 →
    ArgsFit ws (qs.map (·.2)) → ∃ env0, bindParams p env ((qs.map (·.1)).zip ws) = some env0 ∧ EnvOk sc0 env0
  | [], [], sc, env, sc0, henv, hf, _ => by
    simp only [List.foldl_nil, Option.some.injEq] at hf; subst hf
    exact ⟨env, by simp [bindParams], henv⟩
  | [], _ :: _, _, _, _, _, _, h => by simp [ArgsFit] at h
  | _ :: _, [], _, _, _, _, _, h => by simp [ArgsFit] at h
  | (x, t) :: qs, w :: ws, sc, env, sc0, henv, hf, h => by
    simp only [List.map_cons, ArgsFit] at h
    simp only [List.foldl_cons, Option.bind_some] at hf
    cases ha : scopeAdd cx sc x t with
    | none => rw [ha, foldl_bind_none] at hf; cases hf
    | some sc1 =>
      rw [ha] at hf
      obtain ⟨env1, hb, henv1⟩ := scopeAdd_bindVar (p := p) hg hpg henv ha h.1
      obtain ⟨env0, hbp, henv0⟩ := bind_params hg hpg qs ws sc1 env1 sc0 henv1 hf h.2
      exact ⟨env0, by simp [bindParams, hb, hbp], henv0⟩

theorem lowerStmt_tail {cx : LCtx} {b : List (Nat × Ty)} {sc : Scopes} {s s' : Stmt} {sc' : Scopes}
    (h : lowerStmt cx (b :: sc) s = some (s', sc')) : ∃ b', sc' = b' :: sc := by
  cases s <;> inv_low h
  all_goals (try simp only [Option.map_eq_some_iff, Option.some.injEq, Prod.mk.injEq] at h)
  · obtain ⟨sc1, ha, _, rfl⟩ := h
    unfold scopeAdd at ha
    split at ha
    · cases ha
    split at ha
    · cases ha
    simp only [Option.some.injEq] at ha; subst ha; exact ⟨_, rfl⟩
  all_goals first
    | (obtain ⟨_, rfl⟩ := h; exact ⟨_, rfl⟩)
    | (obtain ⟨_, _, _, rfl⟩ := h; exact ⟨_, rfl⟩)
    | (obtain ⟨_, _, _⟩ := h; subst_vars; exact ⟨_, rfl⟩)

theorem lowerStmts_tail {cx : LCtx} : ∀ (ss : List Stmt) {b : List (Nat × Ty)} {sc : Scopes} {ss' : List Stmt} {sc' : Scopes},
    lowerStmts cx (b :: sc) ss = some (ss', sc') → ∃ b', sc' = b' :: sc
  | [], b, sc, ss', sc', h => by
    simp only [lowerStmts, Option.some.injEq, Prod.mk.injEq] at h
    exact ⟨b, h.2.symm⟩
  | s :: ss, b, sc, ss', sc', h => by
    simp only [lowerStmts] at h
    split at h
    · cases h
    · rename_i s1 sc1 hs
      obtain ⟨b1, rfl⟩ := lowerStmt_tail hs
      simp only [Option.map_eq_some_iff, Prod.mk.injEq] at h
      obtain ⟨⟨o, r⟩, hr, _, rfl⟩ := h
      exact lowerStmts_tail ss hr

theorem snd_e {cx : LCtx} {p : Program} {n : Nat} (hC : Ctx cx p) (ih : Snd cx p n) :
    ∀ rt sc e e' t env log, fragE e = true → lowerExpr (cx.withRet rt) sc e = some (e', t) → rt.neverFree = true →
    EnvOk sc env → ROk (FitV t) (FitV rt) (evalExpr p (n + 1) env log e') := by
  intro rt sc e e' t env log hf hl hrt henv
  cases e with
  | unit | int _ | str _ | bool _ | none | todo =>
    inv_low hl
    simp only [Option.some.injEq, Prod.mk.injEq] at hl
    obtain ⟨rfl, rfl⟩ := hl
    simp [evalExpr, ROk, FitV, Val.fitsType]
  | enumRef name variant val =>
    inv_low hl
    simp only [Option.map_eq_some_iff, Prod.mk.injEq] at hl
    obtain ⟨i, _, rfl, rfl⟩ := hl
    simp [evalExpr, ROk, FitV, Val.fitsType]
  | var x =>
    simp only [lowerExpr, Option.map_eq_some_iff, Prod.mk.injEq] at hl
    obtain ⟨t', hg, rfl, rfl⟩ := hl
    unfold scopeGet at hg
    split at hg
    · rename_i t'' hfs
      simp only [Option.some.injEq] at hg; subst hg
      obtain ⟨v, hv, hfit⟩ := envOk_get henv hfs
      simp [evalExpr, lookupVar, hv, ROk, FitV, hfit]
    · simp [LCtx.withRet, hC.hg] at hg
  | some a | ok a | err a =>
    inv_low hl
    simp only [Option.some.injEq, Prod.mk.injEq] at hl
    obtain ⟨rfl, rfl⟩ := hl
    rename_i a' ta ha
    simp only [fragE] at hf
    have iha := ih.e rt sc a a' ta env log hf ha hrt henv
    simp only [evalExpr]
    res_cases iha of evalExpr _ _ _ _ _
  | and a b =>
    inv_low hl
    simp only [Option.map_eq_some_iff, Prod.mk.injEq] at hl
    obtain ⟨u, hu, rfl, rfl⟩ := hl
    rename_i a' ta b' tb ha hb
    simp only [fragE, Bool.and_eq_true] at hf
    have hfa := fitsType_unifyAs hu rfl
    have iha := ih.e rt sc a a' ta env log hf.1 ha hrt henv
    simp only [evalExpr]
    res_cases iha of evalExpr _ _ _ _ _
    rename_i v l
    obtain ⟨b0, rfl⟩ := fits_bool (hfa.1 _ iha)
    cases b0
    · simp only [Val.fitsType]
    · simp only []
      have ihb := ih.e rt sc b b' tb env l hf.2 hb hrt henv
      res_cases ihb of evalExpr _ _ _ _ _
      rename_i w l'
      obtain ⟨b1, rfl⟩ := fits_bool (hfa.2 _ ihb)
      simp only [Val.fitsType]
  | or a b =>
    inv_low hl
    simp only [Option.map_eq_some_iff, Prod.mk.injEq] at hl
    obtain ⟨u, hu, rfl, rfl⟩ := hl
    rename_i a' ta b' tb ha hb
    simp only [fragE, Bool.and_eq_true] at hf
    have hfa := fitsType_unifyAs hu rfl
    have iha := ih.e rt sc a a' ta env log hf.1 ha hrt henv
    simp only [evalExpr]
    res_cases iha of evalExpr _ _ _ _ _
    rename_i v l
    obtain ⟨b0, rfl⟩ := fits_bool (hfa.1 _ iha)
    cases b0
    · simp only []
      have ihb := ih.e rt sc b b' tb env l hf.2 hb hrt henv
      res_cases ihb of evalExpr _ _ _ _ _
      rename_i w l'
      obtain ⟨b1, rfl⟩ := fits_bool (hfa.2 _ ihb)
      simp only [Val.fitsType]
    · simp only [Val.fitsType]
  | not a =>
    inv_low hl
    simp only [Option.map_eq_some_iff, Prod.mk.injEq] at hl
    obtain ⟨u, hu, rfl, rfl⟩ := hl
    rename_i a' ta ha
    simp only [fragE] at hf
    have iha := ih.e rt sc a a' ta env log hf ha hrt henv
    simp only [evalExpr]
    res_cases iha of evalExpr _ _ _ _ _
    rename_i v l
    obtain ⟨hb, rfl⟩ := fitsType_checkType hu rfl iha
    obtain ⟨b0, rfl⟩ := fits_bool hb
    simp only []
    rw [fits_bool_ty iha]; rfl
  | ite c a b =>
    inv_low hl
    simp only [Option.map_eq_some_iff, Prod.mk.injEq] at hl
    obtain ⟨u, hu, rfl, rfl⟩ := hl
    rename_i c' ct a' ta b' tb hc ha hb hfit
    simp only [fragE, Bool.and_eq_true] at hf
    have ihc := ih.e rt sc c c' ct env log hf.1.1 hc hrt henv
    simp only [evalExpr]
    res_cases ihc of evalExpr _ _ _ _ _
    rename_i v l
    obtain ⟨b0, rfl⟩ := fits_bool (fitsType_of_fits hfit rfl ihc)
    cases b0
    · simp only []
      exact (ih.e rt sc b b' tb env l hf.2 hb hrt henv).mono (fun v => (fitsType_unify hu).2) (fun _ h => h)
    · simp only []
      exact (ih.e rt sc a a' ta env l hf.1.2 ha hrt henv).mono (fun v => (fitsType_unify hu).1) (fun _ h => h)
  | coalesce a b =>
    inv_low hl
    simp only [Option.map_eq_some_iff, Prod.mk.injEq] at hl
    obtain ⟨u, hu, rfl, rfl⟩ := hl
    rename_i a' it ha _ b' tb hb
    simp only [fragE, Bool.and_eq_true] at hf
    have iha := ih.e rt sc a a' _ env log hf.1 ha hrt henv
    simp only [evalExpr]
    res_cases iha of evalExpr _ _ _ _ _
    rename_i v l
    rcases fits_optional iha with rfl | ⟨w, rfl, hw⟩
    · simp only []
      exact (ih.e rt sc b b' tb env l hf.2 hb hrt henv).mono (fun v => (fitsType_unify hu).2) (fun _ h => h)
    · simp only []
      exact (fitsType_unify hu).1 hw
  | is a s =>
    inv_low hl
    simp only [Option.some.injEq, Prod.mk.injEq] at hl
    obtain ⟨rfl, rfl⟩ := hl
    rename_i a' it ha
    simp only [fragE] at hf
    have iha := ih.e rt sc a a' _ env log hf ha hrt henv
    simp only [evalExpr]
    res_cases iha of evalExpr _ _ _ _ _
    rename_i v l
    rcases fits_optional iha with rfl | ⟨w, rfl, hw⟩ <;> simp only [Val.fitsType]
  | eq a b | ne a b =>
    inv_low hl
    simp only [Option.map_eq_some_iff, Prod.mk.injEq] at hl
    obtain ⟨u, hu, rfl, rfl⟩ := hl
    rename_i a' ta b' tb ha hb
    simp only [fragE, Bool.and_eq_true] at hf
    have iha := ih.e rt sc a a' ta env log hf.1 ha hrt henv
    simp only [evalExpr]
    res_cases iha of evalExpr _ _ _ _ _
    rename_i v l
    have ihb := ih.e rt sc b b' tb env l hf.2 hb hrt henv
    res_cases ihb of evalExpr _ _ _ _ _
  | gt a b | lt a b | ge a b | le a b =>
    inv_low hl
    simp only [Option.map_eq_some_iff, Prod.mk.injEq] at hl
    obtain ⟨u, hu, rfl, rfl⟩ := hl
    rename_i a' ta b' tb ha hb
    simp only [fragE, Bool.and_eq_true] at hf
    have hfa := fitsType_unifyAs hu rfl
    have iha := ih.e rt sc a a' ta env log hf.1 ha hrt henv
    simp only [evalExpr]
    res_cases iha of evalExpr _ _ _ _ _
    rename_i v l
    have ihb := ih.e rt sc b b' tb env l hf.2 hb hrt henv
    res_cases ihb of evalExpr _ _ _ _ _
    rename_i w l'
    obtain ⟨i, rfl⟩ := fits_int (hfa.1 _ iha)
    obtain ⟨j, rfl⟩ := fits_int (hfa.2 _ ihb)
    try simp only [cmpInts, Val.fitsType]
  | ret a =>
    inv_low hl
    simp only [Option.some.injEq, Prod.mk.injEq] at hl
    obtain ⟨rfl, rfl⟩ := hl
    rename_i a' ta ha hfit
    simp only [fragE] at hf
    have iha := ih.e rt sc a a' ta env log hf ha hrt henv
    simp only [evalExpr]
    res_cases iha of evalExpr _ _ _ _ _
    exact fitsType_of_fits hfit hrt iha
  | block ss a =>
    inv_low hl
    simp only [Option.some.injEq, Prod.mk.injEq] at hl
    obtain ⟨rfl, rfl⟩ := hl
    rename_i ss' sc' hs _ a' ta ha
    simp only [fragE, Bool.and_eq_true] at hf
    have ihs := ih.ss rt ([] :: sc) ss ss' sc' ([] :: env) log hf.1 hs hrt (by simp only [EnvOk, BlockOk]; exact ⟨trivial, henv⟩)
    simp only [evalExpr]
    res_cases ihs of evalStmts _ _ _ _ _
    rename_i env' l
    exact ih.e rt sc' a a' ta env' l hf.2 ha hrt ihs
  | call f args =>
    inv_low hl
    simp only [Option.some.injEq, Prod.mk.injEq] at hl
    obtain ⟨rfl, rfl⟩ := hl
    rename_i g params rt' hsig hlen _ args' hargs
    simp only [fragE] at hf
    have hlen' : (params.map (·.2)).length = args.length := by
      simp only [bne_iff_ne, ne_eq, Decidable.not_not] at hlen; simpa using hlen
    simp only [LCtx.withRet] at hsig
    simp only [evalExpr]
    by_cases hb : isBuiltin f = true
    · rw [hC.hbuiltin f hb] at hsig
      have hp : params = [(0, Ty.int), (0, Ty.int)] ∧ (f = 0 ∨ f = 2 → rt' = .optional .int) ∧ (f = 1 ∨ f = 3 → rt' = .int) := by
        rcases isBuiltin_cases hb with rfl | rfl | rfl | rfl <;>
          (simp [builtinSigs, builtinNames, builtinRet, List.range, List.range.loop] at hsig; obtain ⟨rfl, rfl, rfl⟩ := hsig; simp)
      obtain ⟨rfl, hr1, hr2⟩ := hp
      have iha := ih.args rt sc _ args args' env log hf hlen' hargs (by intro t ht; simp only [List.map_cons, List.map_nil, List.mem_cons, List.not_mem_nil, or_false, or_self] at ht; subst ht; rfl) hrt henv
      res_cases iha of evalArgs _ _ _ _ _
      rename_i vs l
      obtain ⟨x, y, rfl⟩ := argsFit_two iha
      simp only [hb, if_true, intPair]
      rcases isBuiltin_cases hb with rfl | rfl | rfl | rfl
      · rw [hr1 (Or.inl rfl)]; simp [builtinOp, builtinInstr, ROk, checked_fits]
      · rw [hr2 (Or.inl rfl)]; simp [builtinOp, builtinInstr, ROk, Val.fitsType]
      · rw [hr1 (Or.inr rfl)]; simp [builtinOp, builtinInstr, ROk, checked_fits]
      · rw [hr2 (Or.inr rfl)]; simp [builtinOp, builtinInstr, ROk, Val.fitsType]
    · simp only [Bool.not_eq_true] at hb
      obtain ⟨fd, hfd, rfl, rfl, hok⟩ := hC.hcall f g params rt' hb hsig
      have iha := ih.args rt sc _ args args' env log hf hlen' hargs
        (by intro t ht; obtain ⟨q, hq, rfl⟩ := List.mem_map.mp ht; exact hok.2.1 q hq) hrt henv
      res_cases iha of evalArgs _ _ _ _ _
      rename_i vs l
      simp only [hb, Bool.false_eq_true, if_false]
      exact (ih.call f fd vs l hfd hok iha).mono (fun _ h => h) (fun _ h => h.elim)
  | ffi _ _ _ _ | struct _ _ _ | dot _ _ | cast _ _ | substruct _ _ | mtch _ _ => simp [fragE] at hf

theorem snd_args {cx : LCtx} {p : Program} {n : Nat} (ih : Snd cx p n) :
    ∀ rt sc pts es es' env log, fragArgs es = true → pts.length = es.length →
    lowerArgs (cx.withRet rt) sc pts es = some es' → (∀ t ∈ pts, t.neverFree = true) → rt.neverFree = true →
    EnvOk sc env → ROk (fun vs => ArgsFit vs pts) (FitV rt) (evalArgs p (n + 1) env log es') := by
  intro rt sc pts es es' env log hf hlen hl hnf hrt henv
  match es, pts, hlen, hl, hf, hnf with
  | [], [], _, hl, _, _ =>
    simp only [lowerArgs, Option.some.injEq] at hl; subst hl
    simp [evalArgs, ROk, ArgsFit]
  | e :: es, pt :: pts, hlen, hl, hf, hnf =>
    simp only [lowerArgs] at hl
    repeat' (split at hl)
    all_goals (try (cases hl; done))
    simp only [Option.map_eq_some_iff] at hl
    obtain ⟨r, hr, rfl⟩ := hl
    rename_i e1 t1 he hfit
    simp only [fragArgs, Bool.and_eq_true] at hf
    simp only [List.length_cons, Nat.add_right_cancel_iff] at hlen
    have ihe := ih.e rt sc e e1 t1 env log hf.1 he hrt henv
    simp only [evalArgs]
    res_cases ihe of evalExpr _ _ _ _ _
    rename_i v l
    have ihr := ih.args rt sc pts es r env l hf.2 hlen hr (fun t ht => hnf t (List.mem_cons_of_mem _ ht)) hrt henv
    res_cases ihr of evalArgs _ _ _ _ _
    simp only [ArgsFit]
    exact ⟨fitsType_of_fits hfit (hnf pt (List.mem_cons_self ..)) ihe, ihr⟩

theorem snd_ss {cx : LCtx} {p : Program} {n : Nat} (ih : Snd cx p n) :
    ∀ rt sc ss ss' sc' env log, fragSs ss = true → lowerStmts (cx.withRet rt) sc ss = some (ss', sc') → rt.neverFree = true →
    EnvOk sc env → ROk (fun env' => EnvOk sc' env') (FitV rt) (evalStmts p (n + 1) env log ss') := by
  intro rt sc ss ss' sc' env log hf hl hrt henv
  cases ss with
  | nil =>
    simp only [lowerStmts, Option.some.injEq, Prod.mk.injEq] at hl
    obtain ⟨rfl, rfl⟩ := hl
    simpa [evalStmts, ROk] using henv
  | cons s ss =>
    simp only [lowerStmts] at hl
    split at hl
    · cases hl
    · rename_i s1 sc1 hs
      simp only [Option.map_eq_some_iff, Prod.mk.injEq] at hl
      obtain ⟨⟨o, r⟩, hr, rfl, rfl⟩ := hl
      simp only [fragSs, Bool.and_eq_true] at hf
      have ihs := ih.s rt sc s s1 sc1 env log hf.1 hs hrt henv
      simp only [evalStmts]
      res_cases ihs of evalStmt _ _ _ _ _
      rename_i env1 l
      exact ih.ss rt sc1 ss o r env1 l hf.2 hr hrt ihs

theorem snd_s {cx : LCtx} {p : Program} {n : Nat} (hC : Ctx cx p) (ih : Snd cx p n) :
    ∀ rt sc s s' sc' env log, fragS s = true → lowerStmt (cx.withRet rt) sc s = some (s', sc') → rt.neverFree = true →
    EnvOk sc env → ROk (fun env' => EnvOk sc' env') (FitV rt) (evalStmt p (n + 1) env log s') := by
  intro rt sc s s' sc' env log hf hl hrt henv
  cases s with
  | let_ x e =>
    inv_low hl
    simp only [Option.map_eq_some_iff, Prod.mk.injEq] at hl
    obtain ⟨sc1, ha, rfl, rfl⟩ := hl
    rename_i e1 t1 he
    simp only [fragS] at hf
    have ihe := ih.e rt sc e e1 t1 env log hf he hrt henv
    simp only [evalStmt]
    res_cases ihe of evalExpr _ _ _ _ _
    rename_i v l
    obtain ⟨env1, hb, henv1⟩ := scopeAdd_bindVar (p := p) (cx := cx.withRet rt) hC.hg hC.hpg henv ha ihe
    simp only [hb]; exact henv1
  | check c els =>
    inv_low hl
    simp only [Option.some.injEq, Prod.mk.injEq] at hl
    obtain ⟨rfl, rfl⟩ := hl
    rename_i c1 ct e1 et hc he hcond
    simp only [Bool.and_eq_true, beq_iff_eq] at hcond
    obtain ⟨hfit, rfl⟩ := hcond
    simp only [fragS, Bool.and_eq_true] at hf
    have ihc := ih.e rt sc c c1 ct env log hf.1 hc hrt henv
    simp only [evalStmt]
    res_cases ihc of evalExpr _ _ _ _ _
    rename_i v l
    obtain ⟨b0, rfl⟩ := fits_bool (fitsType_of_fits hfit rfl ihc)
    cases b0
    · simp only []
      have ihe := ih.e rt sc els e1 .never env l hf.2 he hrt henv
      res_cases ihe of evalExpr _ _ _ _ _
      rw [fitsType_never] at ihe; cases ihe
    · simp only []; exact henv
  | ret e =>
    inv_low hl
    simp only [Option.some.injEq, Prod.mk.injEq] at hl
    obtain ⟨rfl, rfl⟩ := hl
    rename_i e1 t1 he hfit
    simp only [fragS] at hf
    have ihe := ih.e rt sc e e1 t1 env log hf he hrt henv
    simp only [evalStmt]
    res_cases ihe of evalExpr _ _ _ _ _
    exact fitsType_of_fits hfit hrt ihe
  | dassert e =>
    inv_low hl
    simp only [Option.map_eq_some_iff, Prod.mk.injEq] at hl
    obtain ⟨u, hu, rfl, rfl⟩ := hl
    rename_i e1 t1 he
    simp only [fragS] at hf
    have ihe := ih.e rt sc e e1 t1 env log hf he hrt henv
    simp only [evalStmt]
    res_cases ihe of evalExpr _ _ _ _ _
    rename_i v l
    obtain ⟨b0, rfl⟩ := fits_bool (fitsType_checkType hu rfl ihe).1
    cases b0 <;> simp only []
    exact henv
  | ifS brs hasElse els =>
    simp only [fragS, Bool.and_eq_true] at hf
    simp only [lowerStmt] at hl
    split at hl
    · cases hl
    · rename_i bs' hb
      cases hasElse with
      | true =>
        simp only [if_true, Option.map_eq_some_iff, Prod.mk.injEq] at hl
        obtain ⟨⟨els', scE⟩, hE, rfl, rfl⟩ := hl
        simp only [evalStmt]
        exact ih.br rt sc brs bs' true els els' env log hf.1 hf.2 hb (fun _ => ⟨scE, hE⟩) hrt henv
      | false =>
        simp only [Bool.false_eq_true, if_false, Option.some.injEq, Prod.mk.injEq] at hl
        obtain ⟨rfl, rfl⟩ := hl
        simp only [evalStmt]
        exact ih.br rt sc brs bs' false els [] env log hf.1 hf.2 hb (fun h => by cases h) hrt henv
  | mtch _ _ => simp [fragS] at hf

theorem snd_scp {cx : LCtx} {p : Program} {n : Nat} (ih : Snd cx p n) :
    ∀ rt sc ss ss' sc' env log, fragSs ss = true → lowerStmts (cx.withRet rt) ([] :: sc) ss = some (ss', sc') → rt.neverFree = true →
    EnvOk sc env → ROk (fun env' => EnvOk sc env') (FitV rt) (evalScoped p (n + 1) env log ss') := by
  intro rt sc ss ss' sc' env log hf hl hrt henv
  obtain ⟨b', rfl⟩ := lowerStmts_tail ss hl
  have ihs := ih.ss rt ([] :: sc) ss ss' _ ([] :: env) log hf hl hrt (by simp only [EnvOk, BlockOk]; exact ⟨trivial, henv⟩)
  simp only [evalScoped]
  res_cases ihs of evalStmts _ _ _ _ _
  rename_i env1 l
  cases env1 with
  | nil => simp [EnvOk] at ihs
  | cons eb rest => simp only [EnvOk] at ihs; exact ihs.2

theorem snd_br {cx : LCtx} {p : Program} {n : Nat} (ih : Snd cx p n) :
    ∀ rt sc brs brs' (hasElse : Bool) els els' env log, fragBrs brs = true → fragSs els = true →
    lowerBranches (cx.withRet rt) sc brs = some brs' →
    (hasElse = true → ∃ scE, lowerStmts (cx.withRet rt) ([] :: sc) els = some (els', scE)) → rt.neverFree = true →
    EnvOk sc env → ROk (fun env' => EnvOk sc env') (FitV rt) (evalBranches p (n + 1) env log brs' hasElse els') := by
  intro rt sc brs brs' hasElse els els' env log hfb hfe hl hE hrt henv
  cases brs with
  | nil =>
    simp only [lowerBranches, Option.some.injEq] at hl; subst hl
    simp only [evalBranches]
    cases hasElse with
    | true =>
      obtain ⟨scE, hE'⟩ := hE rfl
      simp only [if_true]
      exact ih.scp rt sc els els' scE env log hfe hE' hrt henv
    | false => simpa [ROk] using henv
  | cons br rest =>
    obtain ⟨c, ss⟩ := br
    simp only [lowerBranches] at hl
    repeat' (split at hl)
    all_goals (try (cases hl; done))
    simp only [Option.map_eq_some_iff] at hl
    obtain ⟨r, hr, rfl⟩ := hl
    rename_i c1 ct hc hfit _ ss1 scS hs
    simp only [fragBrs, Bool.and_eq_true] at hfb
    have ihc := ih.e rt sc c c1 ct env log hfb.1.1 hc hrt henv
    simp only [evalBranches]
    res_cases ihc of evalExpr _ _ _ _ _
    rename_i v l
    obtain ⟨b0, rfl⟩ := fits_bool (fitsType_of_fits hfit rfl ihc)
    cases b0
    · simp only []
      exact ih.br rt sc rest r hasElse els els' env l hfb.2 hfe hr hE hrt henv
    · simp only []
      exact ih.scp rt sc ss ss1 scS env l hfb.1.2 hs hrt henv

theorem snd_call {cx : LCtx} {p : Program} {n : Nat} (hC : Ctx cx p) (ih : Snd cx p n) :
    ∀ f fd vs log, p.funDef f = some fd → FunOk cx fd → ArgsFit vs (fd.params.map (·.2)) →
    ROk (FitV fd.ret) (fun _ => False) (evalCall p (n + 1) f vs log) := by
  intro f fd vs log hfd hok hfit
  obtain ⟨hnr, hnp, sc0, body0, sc1, hsc0, hbody, hfrag⟩ := hok
  have hlen := argsFit_length hfit
  simp only [List.length_map] at hlen
  have hrev : ((fd.params.map (·.1)).zip vs).reverse = ((fd.params.reverse).map (·.1)).zip vs.reverse := by
    rw [List.zip_eq_zipWith, List.reverse_zipWith (by simp [hlen]), List.map_reverse, ← List.zip_eq_zipWith]
  obtain ⟨env0, hbp, henv0⟩ := bind_params (p := p) hC.hg hC.hpg fd.params.reverse vs.reverse [[]] [[]] sc0
    (by simp [EnvOk, BlockOk]) hsc0 (by rw [List.map_reverse]; exact argsFit_reverse hfit)
  simp only [evalCall, hfd, ne_eq, hlen.symm, not_true_eq_false, if_false, hrev, hbp]
  have ihs := ih.ss fd.ret sc0 body0 fd.body sc1 env0 log hfrag hbody hnr henv0
  res_cases ihs of evalStmts _ _ _ _ _

theorem snd_succ {cx : LCtx} {p : Program} {n : Nat} (hC : Ctx cx p) (ih : Snd cx p n) : Snd cx p (n + 1) :=
  ⟨snd_e hC ih, snd_args ih, snd_ss ih, snd_s hC ih, snd_scp ih, snd_br ih, snd_call hC ih⟩

theorem snd_all {cx : LCtx} {p : Program} (hC : Ctx cx p) : ∀ n, Snd cx p n
  | 0 => snd_zero cx p
  | n + 1 => snd_succ hC (snd_all hC n)

end AranyaV.Lang
