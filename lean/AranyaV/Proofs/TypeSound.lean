import AranyaV.Proofs.TypeFrag
import AranyaV.Proofs.TypeExh
import AranyaV.Proofs.TypeCount
import AranyaV.Proofs.FoldBind
namespace AranyaV.Lang
open AranyaV.Gen.Lang

macro "inv_low" h:ident : tactic => `(tactic| (
  simp only [lowerExpr, lowerStmt] at $h:ident
  repeat' (split at $h:ident)
  all_goals (try (cases $h:ident; done))))

macro "res_cases" h:ident "of" t:term : tactic => `(tactic| (
  revert $h:ident
  generalize $t = r
  intro $h:ident
  cases r <;> (try simp only [ROk, FitV] at $h:ident ⊢) <;> (try exact $h:ident) <;> (try trivial) <;> (try exact False.elim $h:ident)))

theorem ROk.mono {α : Type} {P P' : α → Prop} {Q Q' : Val → Prop} {r : Res α}
    (h : ROk P Q r) (hp : ∀ a, P a → P' a) (hq : ∀ v, Q v → Q' v) : ROk P' Q' r := by
  cases r <;> simp only [ROk] at h ⊢
  all_goals first | exact hp _ h | exact hq _ h | exact h

theorem fits_bool_ty {b : Bool} {t : Ty} (h : (Val.bool b).fitsType t = true) : t = .bool := by
  cases t <;> simp [Val.fitsType] at h; rfl

theorem checked_fit {p : Program} (r : Int) : Fit p (checked r) (.optional .int) := by
  unfold checked; split
  · exact fit_some_mk fit_int_mk
  · exact fit_none_mk

theorem isBuiltin_cases {f : Nat} (h : isBuiltin f = true) : f = 0 ∨ f = 1 ∨ f = 2 ∨ f = 3 := by
  match f, h with
  | 0, _ => simp
  | 1, _ => simp
  | 2, _ => simp
  | 3, _ => simp
  | n + 4, h => simp [isBuiltin, builtinInstr] at h

theorem argsFit_two {p : Program} {vs : List Val} (h : ArgsFit p vs [.int, .int]) : ∃ a b, vs = [.int a, .int b] := by
  match vs, h with
  | [v, w], h =>
    simp only [ArgsFit] at h
    obtain ⟨a, rfl⟩ := fit_int h.1
    obtain ⟨b, rfl⟩ := fit_int h.2.1
    exact ⟨a, b, rfl⟩
  | [], h => simp [ArgsFit] at h
  | [_], h => simp [ArgsFit] at h
  | _ :: _ :: _ :: _, h => simp [ArgsFit] at h

theorem argsFit_length : ∀ {vs : List Val} {ts : List Ty}, ArgsFit p vs ts → vs.length = ts.length
  | [], [], _ => rfl
  | [], _ :: _, h => by simp [ArgsFit] at h
  | _ :: _, [], h => by simp [ArgsFit] at h
  | _ :: vs, _ :: ts, h => by simp only [ArgsFit] at h; simp [argsFit_length h.2]

theorem argsFit_snoc : ∀ {vs : List Val} {ts : List Ty} {v : Val} {t : Ty}, ArgsFit p vs ts → Fit p v t →
    ArgsFit p (vs ++ [v]) (ts ++ [t])
  | [], [], _, _, _, hv => by simp [ArgsFit, hv]
  | [], _ :: _, _, _, h, _ => by simp [ArgsFit] at h
  | _ :: _, [], _, _, h, _ => by simp [ArgsFit] at h
  | _ :: vs, _ :: ts, _, _, h, hv => by
    simp only [ArgsFit] at h
    simp only [List.cons_append, ArgsFit]
    exact ⟨h.1, argsFit_snoc h.2 hv⟩

theorem argsFit_reverse : ∀ {vs : List Val} {ts : List Ty}, ArgsFit p vs ts → ArgsFit p vs.reverse ts.reverse
  | [], [], _ => by simp [ArgsFit]
  | [], _ :: _, h => by simp [ArgsFit] at h
  | _ :: _, [], h => by simp [ArgsFit] at h
  | _ :: vs, _ :: ts, h => by
    simp only [ArgsFit] at h
    simp only [List.reverse_cons]
    exact argsFit_snoc (argsFit_reverse h.2) h.1

theorem bind_params {cx : LCtx} {p : Program} (hG : GOk cx p) :
    ∀ (qs : List (Nat × Ty)) (ws : List Val) (sc : Scopes) (env : Env) (sc0 : Scopes), EnvOk p sc env →
    qs.foldl (fun acc (q : Nat × Ty) => acc.bind (fun s => scopeAdd cx s q.1 q.2)) (some sc) = some sc0 →
    ArgsFit p ws (qs.map (·.2)) → ∃ env0, bindParams p env ((qs.map (·.1)).zip ws) = some env0 ∧ EnvOk p sc0 env0
  | [], [], sc, env, sc0, henv, hf, _ => by
    simp only [List.foldl_nil, Option.some.injEq] at hf; subst hf
    exact ⟨env, by simp [bindParams], henv⟩
  | [], _ :: _, _, _, _, _, _, h => by simp [ArgsFit] at h
  | _ :: _, [], _, _, _, _, _, h => by simp [ArgsFit] at h
  | (x, t) :: qs, w :: ws, sc, env, sc0, henv, hf, h => by
    simp only [List.map_cons, ArgsFit] at h
    simp only [List.foldl_cons, Option.bind_some] at hf
    cases ha : scopeAdd cx sc x t with
    | none => rw [ha, foldl_bind_none] at hf; cases hf
    | some sc1 =>
      rw [ha] at hf
      obtain ⟨env1, hb, henv1⟩ := scopeAdd_bindVar (p := p) hG henv ha h.1
      obtain ⟨env0, hbp, henv0⟩ := bind_params hG qs ws sc1 env1 sc0 henv1 hf h.2
      exact ⟨env0, by simp [bindParams, hb, hbp], henv0⟩

theorem lowerStmt_tail {cx : LCtx} {b : List (Nat × Ty)} {sc : Scopes} {s s' : Stmt} {sc' : Scopes}
    (h : lowerStmt cx (b :: sc) s = some (s', sc')) : ∃ b', sc' = b' :: sc := by
  cases s <;> inv_low h
  all_goals (try simp only [Option.map_eq_some_iff, Option.some.injEq, Prod.mk.injEq] at h)
  · obtain ⟨sc1, ha, _, rfl⟩ := h
    unfold scopeAdd at ha
    split at ha
    · cases ha
    split at ha
    · cases ha
    simp only [Option.some.injEq] at ha; subst ha; exact ⟨_, rfl⟩
  all_goals first
    | (obtain ⟨_, rfl⟩ := h; exact ⟨_, rfl⟩)
    | (obtain ⟨_, _, _, rfl⟩ := h; exact ⟨_, rfl⟩)
    | (obtain ⟨_, _, _⟩ := h; subst_vars; exact ⟨_, rfl⟩)

theorem lowerStmts_tail {cx : LCtx} : ∀ (ss : List Stmt) {b : List (Nat × Ty)} {sc : Scopes} {ss' : List Stmt} {sc' : Scopes},
    lowerStmts cx (b :: sc) ss = some (ss', sc') → ∃ b', sc' = b' :: sc
  | [], b, sc, ss', sc', h => by
    simp only [lowerStmts, Option.some.injEq, Prod.mk.injEq] at h
    exact ⟨b, h.2.symm⟩
  | s :: ss, b, sc, ss', sc', h => by
    simp only [lowerStmts] at h
    split at h
    · cases h
    · rename_i s1 sc1 hs
      obtain ⟨b1, rfl⟩ := lowerStmt_tail hs
      simp only [Option.map_eq_some_iff, Prod.mk.injEq] at h
      obtain ⟨⟨o, r⟩, hr, _, rfl⟩ := h
      exact lowerStmts_tail ss hr

theorem fit_struct {p : Program} {v : Val} {sn : Nat} (h : Fit p v (.struct sn)) :
    ∃ fs, v = .struct sn fs ∧ (∃ d, p.structDef sn = some d ∧ ∀ q ∈ d, ∃ w, getField fs q.1 = some w ∧ w.fitsType q.2 = true) ∧
      wfFields p fs := by
  obtain ⟨h1, h2⟩ := h
  cases v <;> simp [Val.fitsType] at h1
  subst h1
  simp only [Val.wf] at h2
  exact ⟨_, rfl, h2.1, h2.2⟩

theorem findTy_of_nodup : ∀ {d : List (Nat × Ty)} {q : Nat × Ty}, (d.map (·.1)).Nodup → q ∈ d → d.find? (·.1 == q.1) = some q
  | [], _, _, h => by cases h
  | x :: d, q, hn, h => by
    simp only [List.map_cons, List.nodup_cons] at hn
    rcases List.mem_cons.mp h with rfl | h'
    · simp
    · have hne : (x.1 == q.1) = false := by
        cases hx : (x.1 == q.1)
        · rfl
        · exfalso; apply hn.1; rw [beq_iff_eq.mp hx]; exact List.mem_map.mpr ⟨q, h', rfl⟩
      simp only [List.find?_cons, hne]
      exact findTy_of_nodup hn.2 h'

theorem lowerFields_keys {cx : LCtx} {sc : Scopes} {d : List (Nat × Ty)} : ∀ {fs fs' : List (Nat × Expr)},
    lowerFields cx sc d fs = some fs' → fs'.map (·.1) = fs.map (·.1)
  | [], fs', h => by simp only [lowerFields, Option.some.injEq] at h; subst h; rfl
  | (k, e) :: rest, fs', h => by
    simp only [lowerFields] at h
    repeat' (split at h)
    all_goals (try (cases h; done))
    simp only [Option.map_eq_some_iff] at h
    obtain ⟨r, hr, rfl⟩ := h
    simp [lowerFields_keys hr]


/-! ## match patterns -/

theorem lit_not_var {cx : LCtx} {sc : Scopes} {e e' : Expr} {t : Ty} (hlit : isLiteral e = true)
    (h : lowerExpr cx sc e = some (e', t)) : ∀ x, e' ≠ .var x := by
  intro x hx; subst hx
  cases e <;> simp [isLiteral] at hlit
  all_goals (inv_low h; all_goals (simp [Option.map_eq_some_iff] at h))

theorem lit_src_binding {v : Expr} (h : isLiteral v = true) : bindingOf v = none := by
  cases v <;> first | rfl | (rename_i e; cases e <;> first | rfl | simp [isLiteral] at h)

theorem lit_binding {cx : LCtx} {sc : Scopes} {v v' : Expr} {t : Ty} (hlit : isLiteral v = true)
    (h : lowerExpr cx sc v = some (v', t)) : bindingOf v' = none := by
  cases v <;> simp [isLiteral] at hlit
  case some e | ok e | err e =>
    inv_low h
    simp only [Option.some.injEq, Prod.mk.injEq] at h
    obtain ⟨rfl, rfl⟩ := h
    rename_i e1 t1 he
    have := lit_not_var hlit he
    cases e1 <;> first | rfl | (exact absurd rfl (this _))
  all_goals (inv_low h; all_goals (try simp only [Option.map_eq_some_iff, Option.some.injEq, Prod.mk.injEq] at h))
  all_goals first
    | (obtain ⟨rfl, _⟩ := h; rfl)
    | (obtain ⟨_, _, rfl, _⟩ := h; rfl)

theorem fit_result_ok {p : Program} {w : Val} {a b : Ty} (h : Fit p (.ok w) (.result a b)) : Fit p w a :=
  ⟨by simpa [Val.fitsType] using h.1, by simpa [Val.wf] using h.2⟩
theorem fit_result_err {p : Program} {w : Val} {a b : Ty} (h : Fit p (.err w) (.result a b)) : Fit p w b :=
  ⟨by simpa [Val.fitsType] using h.1, by simpa [Val.wf] using h.2⟩
theorem fit_optional_some {p : Program} {w : Val} {a : Ty} (h : Fit p (.some w) (.optional a)) : Fit p w a :=
  ⟨by simpa [Val.fitsType] using h.1, by simpa [Val.wf] using h.2⟩

/-- an arm all of whose patterns are literals: no bindings, the scrutinee type is only refined -/
theorem patVals_lits {cx : LCtx} {p : Program} {sc : Scopes} : ∀ (vs : List Expr) (st stF : Ty) (vs' : List Expr) (bs : List (Nat × Ty)),
    vs.all (fun v => (bindingOf v).isNone) = true → lowerPatValsE cx sc st vs = some (stF, vs', bs) →
    bs = [] ∧ firstBinding vs' = none ∧ ∀ v, Fit p v st → Fit p v stF
  | [], st, stF, vs', bs, _, h => by
    simp only [lowerPatValsE, Option.some.injEq, Prod.mk.injEq] at h
    obtain ⟨rfl, rfl, rfl⟩ := h
    exact ⟨rfl, rfl, fun _ h => h⟩
  | v :: vs, st, stF, vs', bs, hall, h => by
    simp only [List.all_cons, Bool.and_eq_true] at hall
    simp only [lowerPatValsE] at h
    split at h
    · rename_i hlit
      split at h
      · cases h
      · rename_i v' vt hv
        split at h
        · cases h
        · rename_i st' hu
          simp only [Option.map_eq_some_iff] at h
          obtain ⟨⟨s1, o1, b1⟩, hr, hq⟩ := h
          simp only [Prod.mk.injEq] at hq
          obtain ⟨rfl, rfl, rfl⟩ := hq
          obtain ⟨hb, hfb, hmono⟩ := patVals_lits (p := p) vs st' s1 o1 b1 hall.2 hr
          refine ⟨hb, ?_, fun x hx => hmono x ((fit_unify hu).1 hx)⟩
          simp only [firstBinding, lit_binding hlit hv]; exact hfb
    · split at h
      all_goals first
        | (cases h; done)
        | (simp [bindingOf] at hall)


/-- what a lowered arm pattern (of the fragment) looks like: either no binding at all, or exactly
one binding pattern whose payload type is known -/
theorem patVals_shape {cx : LCtx} {p : Program} {sc : Scopes} {vs : List Expr} {st stF : Ty} {vs' : List Expr}
    {bs : List (Nat × Ty)} (hfrag : (decide (vs.length ≤ 1) || vs.all (fun v => (bindingOf v).isNone)) = true)
    (h : lowerPatValsE cx sc st vs = some (stF, vs', bs)) :
    (bs = [] ∧ firstBinding vs' = none ∧ ∀ v, Fit p v st → Fit p v stF) ∨
    (∃ pe w x T, vs' = [pe] ∧ bindingOf pe = some (w, x) ∧ bs = [(x, T)] ∧ stF = st ∧
      ∀ v, Fit p v st → isWrap w v = true → ∃ inner, unwrap w v = some inner ∧ Fit p inner T) := by
  by_cases hall : vs.all (fun v => (bindingOf v).isNone) = true
  · exact Or.inl (patVals_lits vs st stF vs' bs hall h)
  · simp only [hall, Bool.or_false, decide_eq_true_eq] at hfrag
    match vs, hfrag, hall, h with
    | [], _, hall, _ => simp at hall
    | [v], _, hall, h =>
      simp only [lowerPatValsE] at h
      split at h
      · rename_i hlit
        -- a literal has no binding: contradiction with `hall`
        exfalso; apply hall
        simp only [List.all_cons, List.all_nil, Bool.and_true, lit_src_binding hlit, Option.isNone_none]
      · split at h
        all_goals (try (cases h; done))
        all_goals (
          simp only [lowerPatValsE, Option.map_some, Option.some.injEq, Prod.mk.injEq] at h
          obtain ⟨rfl, rfl, rfl⟩ := h
          refine Or.inr ⟨_, _, _, _, rfl, rfl, rfl, rfl, ?_⟩
          intro v hv hw
          cases v <;> simp [isWrap] at hw
          first
            | exact ⟨_, rfl, fit_result_ok hv⟩
            | exact ⟨_, rfl, fit_result_err hv⟩
            | exact ⟨_, rfl, fit_optional_some hv⟩)
    | _ :: _ :: _, hlen, _, _ => simp at hlen

theorem snd_mv {cx : LCtx} {p : Program} {n : Nat} (ih : Snd cx p n) :
    ∀ rt sc st vs stF vs' bs env log v, fragArgs vs = true → lowerPatValsE (cx.withRet rt) sc st vs = some (stF, vs', bs) →
    rt.neverFree = true → EnvOk p sc env → ROk (fun (_ : Bool) => True) (FitV p rt) (matchVals p (n + 1) env log v vs') := by
  intro rt sc st vs stF vs' bs env log v hf hl hrt henv
  cases vs with
  | nil =>
    simp only [lowerPatValsE, Option.some.injEq, Prod.mk.injEq] at hl
    obtain ⟨_, rfl, _⟩ := hl
    simp [matchVals, ROk]
  | cons pe rest =>
    simp only [fragArgs, Bool.and_eq_true] at hf
    simp only [lowerPatValsE] at hl
    split at hl
    · split at hl
      · cases hl
      · rename_i pe' vt hpe
        split at hl
        · cases hl
        · rename_i st' hu
          simp only [Option.map_eq_some_iff] at hl
          obtain ⟨⟨s1, o1, b1⟩, hr, hq⟩ := hl
          simp only [Prod.mk.injEq] at hq
          obtain ⟨rfl, rfl, rfl⟩ := hq
          simp only [matchVals]
          cases hb : bindingOf pe' with
          | some wx =>
            obtain ⟨w, x⟩ := wx
            simp only
            by_cases hw : isWrap w v = true
            · simp only [hw, if_true, ROk]
            · simp only [hw, Bool.false_eq_true, if_false]
              exact ih.mv rt sc st' rest s1 o1 b1 env log v hf.2 hr hrt henv
          | none =>
            simp only
            have ihe := ih.e rt sc pe pe' vt env log hf.1 hpe hrt henv
            res_cases ihe of evalExpr _ _ _ _ _
            rename_i lit l
            by_cases hbq : v.beq lit = true
            · simp only [hbq, if_true]
            · simp only [hbq, Bool.false_eq_true, if_false]
              exact ih.mv rt sc st' rest s1 o1 b1 env l v hf.2 hr hrt henv
    · split at hl
      all_goals (try (cases hl; done))
      all_goals (
        simp only [Option.map_eq_some_iff] at hl
        obtain ⟨⟨s1, o1, b1⟩, hr, hq⟩ := hl
        simp only [Prod.mk.injEq] at hq
        obtain ⟨rfl, rfl, rfl⟩ := hq
        simp only [matchVals, bindingOf]
        generalize isWrap _ v = bw
        cases bw
        · simp only [Bool.false_eq_true, if_false]
          exact ih.mv rt sc _ rest s1 o1 b1 env log v hf.2 hr hrt henv
        · simp only [if_true, ROk])

theorem litVal_binding : ∀ {pe : Expr} {lit : Val}, litVal pe = some lit → bindingOf pe = none := by
  intro pe lit h
  cases pe <;> first | rfl | (simp [litVal] at h; done) | skip
  all_goals (rename_i e; cases e <;> first | rfl | (simp [litVal] at h))

/-- a literal pattern without struct parts evaluates to its value (or runs out of fuel) -/
theorem litVal_eval {p : Program} : ∀ (n : Nat) (pe : Expr) (lit : Val) (env : Env) (log : Log), litVal pe = some lit →
    evalExpr p n env log pe = .oof ∨ evalExpr p n env log pe = .val lit log
  | 0, _, _, _, _, _ => by simp [evalExpr]
  | n + 1, pe, lit, env, log, h => by
    cases pe <;> simp only [litVal, Option.some.injEq, Option.map_eq_some_iff] at h
    all_goals (try (cases h; done))
    all_goals (try (subst h; right; simp [evalExpr]; done))
    all_goals (
      obtain ⟨w, hw, rfl⟩ := h
      simp only [evalExpr]
      rcases litVal_eval n _ w env log hw with h1 | h1 <;> rw [h1] <;> simp)

/-- a certainly-hitting arm never answers "no match" -/
theorem mv_hit {p : Program} {v : Val} : ∀ (vs : List Expr) (n : Nat) (env : Env) (log : Log), ArmHits v (.values vs) →
    ∀ l, matchVals p n env log v vs ≠ .val false l
  | [], _, _, _, h, _ => by
    simp only [ArmHits] at h
    rcases h with ⟨pe, _, _, hm, _⟩ | ⟨pe, _, hm, _⟩ <;> cases hm
  | pe :: rest, 0, _, _, _, _ => by simp [matchVals]
  | pe :: rest, n + 1, env, log, h, l => by
    have hrest : (∀ w x, bindingOf pe = some (w, x) → isWrap w v = false) →
        (∀ lit, litVal pe = some lit → v.beq lit = false) → ArmHits v (.values rest) := by
      intro h1 h2
      simp only [ArmHits] at h ⊢
      rcases h with ⟨pe', w, x, hm, hb, hw⟩ | ⟨pe', lit, hm, hl, hq⟩
      · rcases List.mem_cons.mp hm with rfl | hm'
        · rw [h1 w x hb] at hw; cases hw
        · exact Or.inl ⟨pe', w, x, hm', hb, hw⟩
      · rcases List.mem_cons.mp hm with rfl | hm'
        · rw [h2 lit hl] at hq; cases hq
        · exact Or.inr ⟨pe', lit, hm', hl, hq⟩
    simp only [matchVals]
    cases hb : bindingOf pe with
    | some wx =>
      obtain ⟨w, x⟩ := wx
      simp only
      cases hw : isWrap w v
      · simp only [Bool.false_eq_true, if_false]
        apply mv_hit rest n env log (hrest ?_ ?_)
        · intro w' x' hb'; rw [hb] at hb'; cases hb'; exact hw
        · intro lit hl; rw [litVal_binding hl] at hb; cases hb
      · simp
    | none =>
      simp only
      cases hr : evalExpr p n env log pe with
      | val lit l1 =>
        simp only
        cases hq : v.beq lit
        · simp only [Bool.false_eq_true, if_false]
          apply mv_hit rest n env l1 (hrest ?_ ?_)
          · intro w' x' hb'; rw [hb] at hb'; cases hb'
          · intro lit' hl
            rcases litVal_eval (p := p) n pe lit' env log hl with h1 | h1
            · rw [h1] at hr; cases hr
            · rw [h1] at hr; cases hr; exact hq
        · simp
      | ret _ _ => simp
      | exit _ _ => simp
      | ffiErr _ => simp
      | stuck => simp
      | oof => simp

theorem snd_sel {cx : LCtx} {p : Program} {n : Nat} (ih : Snd cx p n) :
    ∀ rt sc st stF pats pats' env log v k, PatsLow (cx.withRet rt) sc st pats pats' stF → Total v pats' →
    rt.neverFree = true → EnvOk p sc env →
    ROk (fun j => ∃ i pat, j = k + i ∧ pats'[i]? = some pat ∧ BindOk v pat) (FitV p rt) (selectArm p (n + 1) env log v pats' k) := by
  intro rt sc st stF pats pats' env log v k hlow htot hrt henv
  cases hlow with
  | nil => obtain ⟨pat, hm, _⟩ := htot; cases hm
  | @cons _ st' _ pat pat' bs rest rest' hpat hfp hrest =>
    cases pat with
    | default =>
      simp only [lowerPat, Option.some.injEq, Prod.mk.injEq] at hpat
      obtain ⟨_, rfl, _⟩ := hpat
      simp only [selectArm, ROk]
      exact ⟨0, .default, rfl, rfl, trivial⟩
    | values vs =>
      simp only [lowerPat, Option.map_eq_some_iff] at hpat
      obtain ⟨⟨s1, vs', b1⟩, hpv, hq⟩ := hpat
      simp only [Prod.mk.injEq] at hq
      obtain ⟨rfl, rfl, rfl⟩ := hq
      simp only [fragPat, Bool.and_eq_true] at hfp
      have htot' : ¬ ArmHits v (.values vs') → Total v rest' := by
        intro hno
        obtain ⟨pat, hm, hh⟩ := htot
        rcases List.mem_cons.mp hm with rfl | hm'
        · exact absurd hh hno
        · exact ⟨pat, hm', hh⟩
      have hshift : ∀ r : Res Nat,
          ROk (fun j => ∃ i pat, j = (k + 1) + i ∧ rest'[i]? = some pat ∧ BindOk v pat) (FitV p rt) r →
          ROk (fun j => ∃ i pat, j = k + i ∧ (Pat.values vs' :: rest')[i]? = some pat ∧ BindOk v pat) (FitV p rt) r := by
        intro r hr
        refine hr.mono ?_ (fun _ h => h)
        rintro j ⟨i, pat, rfl, hi, hb⟩
        exact ⟨i + 1, pat, by omega, by simpa using hi, hb⟩
      simp only [selectArm]
      rcases patVals_shape (p := p) hfp.2 hpv with ⟨_, hfb, _⟩ | ⟨pe, w, x, T, rfl, hbo, _, _, _⟩
      · have ihm := ih.mv rt sc st vs s1 vs' b1 env log v hfp.1 hpv hrt henv
        generalize hmv : matchVals p n env log v vs' = r at ihm
        cases r <;> (try simp only [ROk, FitV] at ihm ⊢) <;> (try exact ihm) <;> (try trivial)
        rename_i b l
        cases b
        · simp only []
          exact hshift _ (ih.sel rt sc s1 stF rest rest' env l v (k + 1) hrest
            (htot' (fun hh => mv_hit vs' n env log hh l hmv)) hrt henv)
        · exact ⟨0, .values vs', rfl, rfl, by intro w x hwx; rw [hfb] at hwx; cases hwx⟩
      · cases n with
        | zero => simp [matchVals, ROk]
        | succ m =>
          simp only [matchVals, hbo]
          by_cases hw : isWrap w v = true
          · simp only [hw, if_true, ROk]
            refine ⟨0, .values [pe], rfl, rfl, ?_⟩
            intro w' x' hwx
            simp only [firstBinding, hbo, Option.some.injEq, Prod.mk.injEq] at hwx
            obtain ⟨rfl, rfl⟩ := hwx; exact hw
          · simp only [hw, Bool.false_eq_true, if_false]
            have hno : ¬ ArmHits v (.values [pe]) := by
              simp only [ArmHits, List.mem_singleton]
              rintro (⟨pe', w', x', rfl, hb', hw'⟩ | ⟨pe', lit, rfl, hl, _⟩)
              · rw [hbo] at hb'; cases hb'; exact hw hw'
              · rw [litVal_binding hl] at hbo; cases hbo
            cases m with
            | zero => simp [matchVals, ROk]
            | succ m' =>
              simp only [matchVals]
              exact hshift _ (ih.sel rt sc s1 stF rest rest' env log v (k + 1) hrest (htot' hno) hrt henv)

/-! ## match arms -/

theorem endsDefaultE_P : ∀ (arms : List (Pat × Expr)), endsDefaultE arms = true → endsDefaultP (arms.map (·.1)) = true
  | [], h => by simp [endsDefaultE] at h
  | [(.default, _)], _ => rfl
  | [(.values _, _)], h => by simp [endsDefaultE] at h
  | (.default, _) :: b :: rest, h => by
    simp only [endsDefaultE] at h; simp only [List.map_cons, endsDefaultP]; exact endsDefaultE_P (b :: rest) h
  | (.values _, _) :: b :: rest, h => by
    simp only [endsDefaultE] at h; simp only [List.map_cons, endsDefaultP]; exact endsDefaultE_P (b :: rest) h

theorem endsDefaultS_P : ∀ (arms : List (Pat × List Stmt)), endsDefaultS arms = true → endsDefaultP (arms.map (·.1)) = true
  | [], h => by simp [endsDefaultS] at h
  | [(.default, _)], _ => rfl
  | [(.values _, _)], h => by simp [endsDefaultS] at h
  | (.default, _) :: b :: rest, h => by
    simp only [endsDefaultS] at h; simp only [List.map_cons, endsDefaultP]; exact endsDefaultS_P (b :: rest) h
  | (.values _, _) :: b :: rest, h => by
    simp only [endsDefaultS] at h; simp only [List.map_cons, endsDefaultP]; exact endsDefaultS_P (b :: rest) h

theorem lowerPat_mono {cx : LCtx} {p : Program} {sc : Scopes} {st st' : Ty} {pat pat' : Pat} {bs : List (Nat × Ty)}
    (h : lowerPat cx sc st pat = some (st', pat', bs)) (hf : fragPat pat = true) : ∀ v, Fit p v st → Fit p v st' := by
  cases pat with
  | default =>
    simp only [lowerPat, Option.some.injEq, Prod.mk.injEq] at h
    obtain ⟨rfl, _, _⟩ := h; exact fun _ h => h
  | values vs =>
    simp only [lowerPat, Option.map_eq_some_iff] at h
    obtain ⟨⟨s1, vs', b1⟩, hpv, hq⟩ := h
    simp only [Prod.mk.injEq] at hq
    obtain ⟨rfl, rfl, rfl⟩ := hq
    simp only [fragPat, Bool.and_eq_true] at hf
    rcases patVals_shape (p := p) hf.2 hpv with ⟨_, _, hm⟩ | ⟨_, _, _, _, _, _, _, rfl, _⟩
    · exact hm
    · exact fun _ h => h

/-- bind the selected arm's pattern: the run-time scope matches the scope the body was lowered in -/
theorem bindArm_ok {cx : LCtx} {p : Program} (hG : GOk cx p) {sc sc' : Scopes} {env : Env} {st st' : Ty} {pat pat' : Pat}
    {bs : List (Nat × Ty)} {v : Val}
    (h : lowerPat cx sc st pat = some (st', pat', bs)) (hf : fragPat pat = true)
    (hsc : bs.foldl (fun acc (b : Nat × Ty) => acc.bind (fun s => scopeAdd cx s b.1 b.2)) (some ([] :: sc)) = some sc')
    (hv : Fit p v st) (hb : BindOk v pat') (henv : EnvOk p sc env) :
    ∃ env', bindArm p ([] :: env) v pat' = some env' ∧ EnvOk p sc' env' := by
  have henv0 : EnvOk p ([] :: sc) ([] :: env) := by simp only [EnvOk, BlockOk]; exact ⟨trivial, henv⟩
  cases pat with
  | default =>
    simp only [lowerPat, Option.some.injEq, Prod.mk.injEq] at h
    obtain ⟨_, rfl, rfl⟩ := h
    simp only [List.foldl_nil, Option.some.injEq] at hsc; subst hsc
    exact ⟨_, rfl, henv0⟩
  | values vs =>
    simp only [lowerPat, Option.map_eq_some_iff] at h
    obtain ⟨⟨s1, vs', b1⟩, hpv, hq⟩ := h
    simp only [Prod.mk.injEq] at hq
    obtain ⟨rfl, rfl, rfl⟩ := hq
    simp only [fragPat, Bool.and_eq_true] at hf
    rcases patVals_shape (p := p) hf.2 hpv with ⟨rfl, hfb, _⟩ | ⟨pe, w, x, T, rfl, hbo, rfl, rfl, hun⟩
    · simp only [List.foldl_nil, Option.some.injEq] at hsc; subst hsc
      exact ⟨_, by simp [bindArm, hfb], henv0⟩
    · simp only [List.foldl_cons, List.foldl_nil, Option.bind_some] at hsc
      have hfb : firstBinding [pe] = some (w, x) := by simp [firstBinding, hbo]
      obtain ⟨inner, hu, hfit⟩ := hun v hv (hb w x hfb)
      obtain ⟨env', hbv, henv'⟩ := scopeAdd_bindVar (p := p) hG henv0 hsc hfit
      exact ⟨env', by simp [bindArm, hfb, hu, hbv], henv'⟩

theorem armsE_patsLow {cx : LCtx} {sc : Scopes} : ∀ (arms : List (Pat × Expr)) (st : Ty) (ty : Option Ty) (stF : Ty)
    (tyF : Option Ty) (arms' : List (Pat × Expr)), lowerArmsE cx sc st ty arms = some (stF, tyF, arms') →
    fragArmsE arms = true → PatsLow cx sc st (arms.map (·.1)) (arms'.map (·.1)) stF
  | [], st, ty, stF, tyF, arms', h, _ => by
    simp only [lowerArmsE, Option.some.injEq, Prod.mk.injEq] at h
    obtain ⟨rfl, _, rfl⟩ := h; exact .nil _
  | (pat, body) :: rest, st, ty, stF, tyF, arms', h, hf => by
    simp only [lowerArmsE] at h
    repeat' (split at h)
    all_goals (try (cases h; done))
    all_goals (
      simp only [Option.map_eq_some_iff] at h
      obtain ⟨⟨s1, r1, o1⟩, hr, hq⟩ := h
      simp only [Prod.mk.injEq] at hq
      obtain ⟨rfl, _, rfl⟩ := hq
      simp only [fragArmsE, Bool.and_eq_true] at hf
      exact .cons ‹lowerPat cx sc st pat = some _› hf.1.1 (armsE_patsLow rest _ _ _ _ _ hr hf.2))

theorem armsS_patsLow {cx : LCtx} {sc : Scopes} : ∀ (arms : List (Pat × List Stmt)) (st stF : Ty)
    (arms' : List (Pat × List Stmt)), lowerArmsS cx sc st arms = some (stF, arms') →
    fragArmsS arms = true → PatsLow cx sc st (arms.map (·.1)) (arms'.map (·.1)) stF
  | [], st, stF, arms', h, _ => by
    simp only [lowerArmsS, Option.some.injEq, Prod.mk.injEq] at h
    obtain ⟨rfl, rfl⟩ := h; exact .nil _
  | (pat, body) :: rest, st, stF, arms', h, hf => by
    simp only [lowerArmsS] at h
    repeat' (split at h)
    all_goals (try (cases h; done))
    all_goals (
      simp only [Option.map_eq_some_iff] at h
      obtain ⟨⟨s1, o1⟩, hr, hq⟩ := h
      simp only [Prod.mk.injEq] at hq
      obtain ⟨rfl, rfl⟩ := hq
      simp only [fragArmsS, Bool.and_eq_true] at hf
      exact .cons ‹lowerPat cx sc st pat = some _› hf.1.1 (armsS_patsLow rest _ _ _ hr hf.2))

theorem armsE_ty_mono {cx : LCtx} {p : Program} {sc : Scopes} : ∀ (arms : List (Pat × Expr)) (st : Ty) (t : Ty) (stF : Ty)
    (tyF : Option Ty) (arms' : List (Pat × Expr)), lowerArmsE cx sc st (some t) arms = some (stF, tyF, arms') →
    ∃ tF, tyF = some tF ∧ ∀ v, Fit p v t → Fit p v tF
  | [], st, t, stF, tyF, arms', h => by
    simp only [lowerArmsE, Option.some.injEq, Prod.mk.injEq] at h
    obtain ⟨_, rfl, _⟩ := h; exact ⟨t, rfl, fun _ h => h⟩
  | (pat, body) :: rest, st, t, stF, tyF, arms', h => by
    simp only [lowerArmsE] at h
    split at h
    · cases h
    split at h
    · cases h
    split at h
    · cases h
    split at h
    · cases h
    rename_i t2 hu
    simp only [Option.map_eq_some_iff] at h
    obtain ⟨⟨s1, r1, o1⟩, hr, hq⟩ := h
    simp only [Prod.mk.injEq] at hq
    obtain ⟨_, rfl, _⟩ := hq
    obtain ⟨tF, htF, hm⟩ := armsE_ty_mono (p := p) rest _ t2 _ _ _ hr
    exact ⟨tF, htF, fun v hv => hm v ((fit_unify hu).1 hv)⟩

/-- what lowering established about arm `i` of a match expression -/
theorem armsE_get {cx : LCtx} {p : Program} {sc : Scopes} : ∀ (arms : List (Pat × Expr)) (st : Ty) (ty : Option Ty) (stF : Ty)
    (tyF : Option Ty) (arms' : List (Pat × Expr)) (i : Nat) (pat' : Pat) (body' : Expr),
    lowerArmsE cx sc st ty arms = some (stF, tyF, arms') → fragArmsE arms = true → arms'[i]? = some (pat', body') →
    ∃ pat body sti sti' bs sc' bt, lowerPat cx sc sti pat = some (sti', pat', bs) ∧ fragPat pat = true ∧ fragE body = true ∧
      (∀ v, Fit p v st → Fit p v sti) ∧
      bs.foldl (fun acc (b : Nat × Ty) => acc.bind (fun s => scopeAdd cx s b.1 b.2)) (some ([] :: sc)) = some sc' ∧
      lowerExpr cx sc' body = some (body', bt) ∧ ∃ tF, tyF = some tF ∧ ∀ v, Fit p v bt → Fit p v tF
  | [], st, ty, stF, tyF, arms', i, pat', body', h, _, hi => by
    simp only [lowerArmsE, Option.some.injEq, Prod.mk.injEq] at h
    obtain ⟨_, _, rfl⟩ := h; simp at hi
  | (pat, body) :: rest, st, ty, stF, tyF, arms', i, pat', body', h, hf, hi => by
    simp only [lowerArmsE] at h
    split at h
    · cases h
    rename_i st1 pat1 bs hpat
    split at h
    · cases h
    rename_i sc' hsc
    split at h
    · cases h
    rename_i body1 bt hbody
    split at h
    · cases h
    rename_i t2 ht2
    simp only [Option.map_eq_some_iff] at h
    obtain ⟨⟨s1, r1, o1⟩, hr, hq⟩ := h
    simp only [Prod.mk.injEq] at hq
    obtain ⟨rfl, rfl, rfl⟩ := hq
    simp only [fragArmsE, Bool.and_eq_true] at hf
    cases i with
    | zero =>
      simp only [List.getElem?_cons_zero, Option.some.injEq, Prod.mk.injEq] at hi
      obtain ⟨rfl, rfl⟩ := hi
      obtain ⟨tF, htF, hm⟩ := armsE_ty_mono (p := p) rest _ t2 _ _ _ hr
      refine ⟨pat, body, st, st1, bs, sc', bt, hpat, hf.1.1, hf.1.2, fun _ h => h, hsc, hbody, tF, htF, ?_⟩
      intro v hv
      apply hm
      cases ty with
      | none => simp only [Option.some.injEq] at ht2; subst ht2; exact hv
      | some t0 => exact (fit_unify ht2).2 hv
    | succ i =>
      simp only [List.getElem?_cons_succ] at hi
      obtain ⟨pat0, body0, sti, sti', bs0, sc0, bt0, h1, h2, h3, h4, h5, h6, h7⟩ :=
        armsE_get (p := p) rest st1 (some t2) _ _ _ i pat' body' hr hf.2 hi
      exact ⟨pat0, body0, sti, sti', bs0, sc0, bt0, h1, h2, h3,
        fun v hv => h4 v (lowerPat_mono hpat hf.1.1 v hv), h5, h6, h7⟩


theorem scopeAdd_tail {cx : LCtx} {b : List (Nat × Ty)} {sc sc' : Scopes} {x : Nat} {t : Ty}
    (h : scopeAdd cx (b :: sc) x t = some sc') : ∃ b', sc' = b' :: sc := by
  unfold scopeAdd at h
  split at h
  · cases h
  split at h
  · cases h
  simp only [Option.some.injEq] at h; subst h; exact ⟨_, rfl⟩

theorem scopeAdd_fold_tail {cx : LCtx} : ∀ (bs : List (Nat × Ty)) {b : List (Nat × Ty)} {sc sc' : Scopes},
    bs.foldl (fun acc (q : Nat × Ty) => acc.bind (fun s => scopeAdd cx s q.1 q.2)) (some (b :: sc)) = some sc' →
    ∃ b', sc' = b' :: sc
  | [], b, sc, sc', h => by simp only [List.foldl_nil, Option.some.injEq] at h; exact ⟨b, h.symm⟩
  | q :: bs, b, sc, sc', h => by
    simp only [List.foldl_cons, Option.bind_some] at h
    cases ha : scopeAdd cx (b :: sc) q.1 q.2 with
    | none => rw [ha, foldl_bind_none] at h; cases h
    | some sc1 =>
      rw [ha] at h
      obtain ⟨b1, rfl⟩ := scopeAdd_tail ha
      exact scopeAdd_fold_tail bs h

/-- what lowering established about arm `i` of a match statement -/
theorem armsS_get {cx : LCtx} {p : Program} {sc : Scopes} : ∀ (arms : List (Pat × List Stmt)) (st stF : Ty)
    (arms' : List (Pat × List Stmt)) (i : Nat) (pat' : Pat) (body' : List Stmt),
    lowerArmsS cx sc st arms = some (stF, arms') → fragArmsS arms = true → arms'[i]? = some (pat', body') →
    ∃ pat body sti sti' bs sc' scB, lowerPat cx sc sti pat = some (sti', pat', bs) ∧ fragPat pat = true ∧ fragSs body = true ∧
      (∀ v, Fit p v st → Fit p v sti) ∧
      bs.foldl (fun acc (b : Nat × Ty) => acc.bind (fun s => scopeAdd cx s b.1 b.2)) (some ([] :: sc)) = some sc' ∧
      lowerStmts cx sc' body = some (body', scB)
  | [], st, stF, arms', i, pat', body', h, _, hi => by
    simp only [lowerArmsS, Option.some.injEq, Prod.mk.injEq] at h
    obtain ⟨_, rfl⟩ := h; simp at hi
  | (pat, body) :: rest, st, stF, arms', i, pat', body', h, hf, hi => by
    simp only [lowerArmsS] at h
    split at h
    · cases h
    rename_i st1 pat1 bs hpat
    split at h
    · cases h
    rename_i sc' hsc
    split at h
    · cases h
    rename_i body1 scB hbody
    simp only [Option.map_eq_some_iff] at h
    obtain ⟨⟨s1, o1⟩, hr, hq⟩ := h
    simp only [Prod.mk.injEq] at hq
    obtain ⟨rfl, rfl⟩ := hq
    simp only [fragArmsS, Bool.and_eq_true] at hf
    cases i with
    | zero =>
      simp only [List.getElem?_cons_zero, Option.some.injEq, Prod.mk.injEq] at hi
      obtain ⟨rfl, rfl⟩ := hi
      exact ⟨pat, body, st, st1, bs, sc', scB, hpat, hf.1.1, hf.1.2, fun _ h => h, hsc, hbody⟩
    | succ i =>
      simp only [List.getElem?_cons_succ] at hi
      obtain ⟨pat0, body0, sti, sti', bs0, sc0, scB0, h1, h2, h3, h4, h5, h6⟩ :=
        armsS_get (p := p) rest st1 _ _ i pat' body' hr hf.2 hi
      exact ⟨pat0, body0, sti, sti', bs0, sc0, scB0, h1, h2, h3,
        fun v hv => h4 v (lowerPat_mono hpat hf.1.1 v hv), h5, h6⟩


/-! ## totality of the arm selection from the syntactic guarantee `patsTotal` -/

theorem endsDefaultP_mem : ∀ (pats : List Pat), endsDefaultP pats = true → Pat.default ∈ pats
  | [], h => by simp [endsDefaultP] at h
  | [.default], _ => by simp
  | [.values _], h => by simp [endsDefaultP] at h
  | .default :: b :: rest, h => by simp
  | .values _ :: b :: rest, h => by
    simp only [endsDefaultP] at h
    exact List.mem_cons_of_mem _ (endsDefaultP_mem (b :: rest) h)

theorem patsLow_default {cx : LCtx} {sc : Scopes} : ∀ {st stF : Ty} {pats pats' : List Pat}, PatsLow cx sc st pats pats' stF →
    Pat.default ∈ pats → Pat.default ∈ pats'
  | _, _, _, _, .nil _, h => by cases h
  | _, _, _, _, .cons (pat := pat) hpat _ hrest, h => by
    rcases List.mem_cons.mp h with heq | h'
    · subst heq
      simp only [lowerPat, Option.some.injEq, Prod.mk.injEq] at hpat
      obtain ⟨_, rfl, _⟩ := hpat
      exact List.mem_cons_self ..
    · exact List.mem_cons_of_mem _ (patsLow_default hrest h')

theorem patsLow_mem {cx : LCtx} {p : Program} {sc : Scopes} {vs : List Expr} : ∀ {st stF : Ty} {pats pats' : List Pat},
    PatsLow cx sc st pats pats' stF → Pat.values vs ∈ pats →
    ∃ sti sti' vs' bs, Pat.values vs' ∈ pats' ∧ lowerPatValsE cx sc sti vs = some (sti', vs', bs) ∧
      fragPat (.values vs) = true ∧ ∀ v, Fit p v st → Fit p v sti
  | _, _, _, _, .nil _, h => by cases h
  | st, _, _, _, .cons (pat := pat) hpat hfp hrest, h => by
    rcases List.mem_cons.mp h with heq | h'
    · subst heq
      simp only [lowerPat, Option.map_eq_some_iff] at hpat
      obtain ⟨⟨s1, vs', b1⟩, hpv, hq⟩ := hpat
      simp only [Prod.mk.injEq] at hq
      obtain ⟨rfl, rfl, rfl⟩ := hq
      exact ⟨st, s1, vs', b1, List.mem_cons_self .., hpv, hfp, fun _ h => h⟩
    · obtain ⟨sti, sti', vs', bs, hm, hl, hf, hmono⟩ := patsLow_mem (p := p) hrest h'
      exact ⟨sti, sti', vs', bs, List.mem_cons_of_mem _ hm, hl, hf,
        fun v hv => hmono v (lowerPat_mono hpat hfp v hv)⟩

theorem patVals_none_mem {cx : LCtx} {sc : Scopes} : ∀ (vs : List Expr) (st stF : Ty) (vs' : List Expr) (bs : List (Nat × Ty)),
    lowerPatValsE cx sc st vs = some (stF, vs', bs) → Expr.none ∈ vs → Expr.none ∈ vs'
  | [], _, _, _, _, _, h => by cases h
  | v :: vs, st, stF, vs', bs, hl, h => by
    simp only [lowerPatValsE] at hl
    split at hl
    · split at hl
      · cases hl
      · rename_i v' vt hv
        split at hl
        · cases hl
        · simp only [Option.map_eq_some_iff] at hl
          obtain ⟨⟨s1, o1, b1⟩, hr, hq⟩ := hl
          simp only [Prod.mk.injEq] at hq
          obtain ⟨rfl, rfl, rfl⟩ := hq
          rcases List.mem_cons.mp h with heq | h'
          · subst heq
            simp only [lowerExpr, Option.some.injEq, Prod.mk.injEq] at hv
            rw [← hv.1]; exact List.mem_cons_self ..
          · exact List.mem_cons_of_mem _ (patVals_none_mem vs _ _ _ _ hr h')
    · rename_i hnl
      rcases List.mem_cons.mp h with heq | h'
      · subst heq; simp [isLiteral] at hnl
      · split at hl
        all_goals (try (cases hl; done))
        all_goals (
          simp only [Option.map_eq_some_iff] at hl
          obtain ⟨⟨s1, o1, b1⟩, hr, hq⟩ := hl
          simp only [Prod.mk.injEq] at hq
          obtain ⟨rfl, rfl, rfl⟩ := hq
          exact List.mem_cons_of_mem _ (patVals_none_mem vs _ _ _ _ hr h'))

/-- an arm that contains a binding pattern (in the fragment: only that pattern) -/
theorem bind_arm_inv {cx : LCtx} {sc : Scopes} {vs : List Expr} {sti sti' : Ty} {vs' : List Expr} {bs : List (Nat × Ty)}
    {w : WrapType} (hl : lowerPatValsE cx sc sti vs = some (sti', vs', bs)) (hf : fragPat (.values vs) = true)
    (hb : hasBindPat w (.values vs) = true) :
    ∃ pe x, vs' = [pe] ∧ bindingOf pe = some (w, x) ∧
      (w = .Some → ∃ it, sti = .optional it) ∧ (w ≠ .Some → ∃ a b, sti = .result a b) := by
  simp only [hasBindPat, List.any_eq_true] at hb
  obtain ⟨pe, hm, hpe⟩ := hb
  cases hbo : bindingOf pe with
  | none => rw [hbo] at hpe; cases hpe
  | some wx =>
    obtain ⟨w', x⟩ := wx
    rw [hbo] at hpe
    simp only [beq_iff_eq] at hpe; subst hpe
    simp only [fragPat, Bool.and_eq_true, Bool.or_eq_true, decide_eq_true_eq] at hf
    have hlen : vs.length ≤ 1 := by
      rcases hf.2 with h | h
      · exact h
      · have := List.all_eq_true.mp h pe hm
        rw [hbo] at this; cases this
    match vs, hm, hlen, hl with
    | [pe0], hm, _, hl =>
      simp only [List.mem_singleton] at hm; subst hm
      have hnl : isLiteral pe = false := by
        cases hlit : isLiteral pe
        · rfl
        · rw [lit_src_binding hlit] at hbo; cases hbo
      simp only [lowerPatValsE, hnl, Bool.false_eq_true, if_false] at hl
      split at hl
      all_goals (try (cases hl; done))
      all_goals (
        simp only [Option.map_some, Option.some.injEq, Prod.mk.injEq] at hl
        obtain ⟨rfl, rfl, rfl⟩ := hl
        simp only [bindingOf, Option.some.injEq, Prod.mk.injEq] at hbo
        obtain ⟨rfl, rfl⟩ := hbo
        exact ⟨_, _, rfl, rfl, by first | exact fun _ => ⟨_, rfl⟩ | (intro h; cases h),
          by first | exact fun _ => ⟨_, _, rfl⟩ | (intro h; exact absurd rfl h)⟩)
    | _ :: _ :: _, _, hlen, _ => simp at hlen

theorem fit_result_cases {p : Program} {v : Val} {a b : Ty} (h : Fit p v (.result a b)) :
    (∃ w, v = .ok w) ∨ (∃ w, v = .err w) := by
  have := h.1
  cases v <;> simp [Val.fitsType] at this
  · exact Or.inl ⟨_, rfl⟩
  · exact Or.inr ⟨_, rfl⟩

theorem total_of_patsTotal {cx : LCtx} {p : Program} {sc : Scopes} {st stF : Ty} {pats pats' : List Pat}
    (hlow : PatsLow cx sc st pats pats' stF) (htot : patsTotal pats = true) {v : Val} (hv : Fit p v st) : Total v pats' := by
  simp only [patsTotal, Bool.or_eq_true, Bool.and_eq_true, List.any_eq_true] at htot
  rcases htot with (hd | ⟨⟨p1, hm1, hn⟩, ⟨p2, hm2, hs⟩⟩) | ⟨⟨p1, hm1, hok⟩, ⟨p2, hm2, herr⟩⟩
  · exact ⟨.default, patsLow_default hlow (endsDefaultP_mem pats hd), trivial⟩
  · cases p1 with
    | default => simp [hasNonePat] at hn
    | values vs1 =>
    cases p2 with
    | default => simp [hasBindPat] at hs
    | values vs2 =>
    obtain ⟨sti1, _, vs1', _, hmem1, hl1, _, _⟩ := patsLow_mem (p := p) hlow hm1
    obtain ⟨sti2, _, vs2', _, hmem2, hl2, hf2, hmono2⟩ := patsLow_mem (p := p) hlow hm2
    obtain ⟨pe, x, rfl, hbo, hopt, _⟩ := bind_arm_inv hl2 hf2 hs
    obtain ⟨it, rfl⟩ := hopt rfl
    have hnone : Expr.none ∈ vs1 := by
      simp only [hasNonePat, List.any_eq_true] at hn
      obtain ⟨e, he, hq⟩ := hn
      cases e <;> simp at hq
      exact he
    rcases fit_optional (hmono2 v hv) with rfl | ⟨w, rfl, _⟩
    · exact ⟨_, hmem1, Or.inr ⟨.none, .none, patVals_none_mem _ _ _ _ _ hl1 hnone, rfl, rfl⟩⟩
    · exact ⟨_, hmem2, Or.inl ⟨pe, .Some, x, List.mem_singleton.mpr rfl, hbo, rfl⟩⟩
  · cases p1 with
    | default => simp [hasBindPat] at hok
    | values vs1 =>
    cases p2 with
    | default => simp [hasBindPat] at herr
    | values vs2 =>
    obtain ⟨sti1, _, vs1', _, hmem1, hl1, hf1, hmono1⟩ := patsLow_mem (p := p) hlow hm1
    obtain ⟨sti2, _, vs2', _, hmem2, hl2, hf2, _⟩ := patsLow_mem (p := p) hlow hm2
    obtain ⟨pe1, x1, rfl, hbo1, _, hres1⟩ := bind_arm_inv hl1 hf1 hok
    obtain ⟨pe2, x2, rfl, hbo2, _, _⟩ := bind_arm_inv hl2 hf2 herr
    obtain ⟨a, b, rfl⟩ := hres1 (by intro h; cases h)
    rcases fit_result_cases (hmono1 v hv) with ⟨w, rfl⟩ | ⟨w, rfl⟩
    · exact ⟨_, hmem1, Or.inl ⟨pe1, .Ok, x1, List.mem_singleton.mpr rfl, hbo1, rfl⟩⟩
    · exact ⟨_, hmem2, Or.inl ⟨pe2, .Err, x2, List.mem_singleton.mpr rfl, hbo2, rfl⟩⟩

theorem patsLow_mono {cx : LCtx} {p : Program} {sc : Scopes} : ∀ {st stF : Ty} {pats pats' : List Pat},
    PatsLow cx sc st pats pats' stF → ∀ v, Fit p v st → Fit p v stF
  | _, _, _, _, .nil _, _, h => h
  | _, _, _, _, .cons hpat hfp hrest, v, h => patsLow_mono hrest v (lowerPat_mono hpat hfp v h)

theorem any_default_flat : ∀ (pats : List Pat), pats.all flatPat = true →
    (pats.any fun | .default => true | _ => false) = false
  | [], _ => rfl
  | .default :: _, h => by simp [flatPat] at h
  | .values _ :: r, h => by
    simp only [List.all_cons, Bool.and_eq_true] at h
    simp [any_default_flat r h.2]

/-- **the compiler's exhaustiveness check is sound** for a match without default arm over `bool`
or an enum: pairwise distinct patterns (`scanPats`), at least as many as the scrutinee type has
values (`missingDefault`), hence every well-formed scrutinee value is hit by some arm -/
theorem total_flat {cx : LCtx} {p : Program} {sc : Scopes} {st stF : Ty} {pats pats' : List Pat}
    (hE : cx.enums = p.enums) (hEnd : ∀ q ∈ p.enums, q.2.Nodup)
    (hlow : PatsLow cx sc st pats pats' stF) (hflat : patsFlat pats = true) {scan : Scan}
    (hscan : scanPats {} pats = some scan)
    (hmiss : missingDefault cx stF scan.all (pats.any fun | .default => true | _ => false) = false)
    {v : Val} (hv : Fit p v stF) : Total v pats' := by
  simp only [patsFlat, Bool.and_eq_true, Bool.not_eq_true', List.isEmpty_eq_false_iff] at hflat
  obtain ⟨hf, hne⟩ := hflat
  obtain ⟨hall, hd⟩ := scanPats_flat pats {} scan hf hscan
  simp only [List.nil_append] at hall
  have hdist : Distinct scan.all := hd (by simp [Distinct])
  rw [any_default_flat pats hf, hall] at hmiss
  rw [hall] at hdist
  rcases patsLow_flat hlow hf with ⟨h0, _, _⟩ | ⟨_, hok, _⟩
  · exact absurd h0 hne
  · -- the type of the scrutinee, from the first pattern
    obtain ⟨x0, hx0⟩ := List.exists_mem_of_ne_nil _ hne
    obtain ⟨x0', hl0⟩ := allLitOK_src hok hx0
    have hit : ∀ x x' : Expr, x ∈ flattenPats pats → LitOK cx stF x x' → ∀ lit, litVal x' = some lit → v.beq lit = true →
        Total v pats' := by
      intro x x' hx hl lit hlv hbq
      obtain ⟨x'', hx'', hl''⟩ := allLitOK_mem hok hx
      have hxx : x'' = x' := by
        rcases hl with ⟨_, b, rfl, rfl⟩ | ⟨e, q, var, y, i, hT, hq, hi, rfl, rfl⟩
        · rcases hl'' with ⟨_, b', hb, rfl⟩ | ⟨_, _, _, _, _, _, _, _, hb, _⟩
          · cases hb; rfl
          · cases hb
        · rcases hl'' with ⟨_, b', hb, _⟩ | ⟨e2, q2, var2, y2, i2, hT2, hq2, hi2, hb, rfl⟩
          · cases hb
          · cases hb; rw [hT] at hT2; cases hT2; rw [hq] at hq2; cases hq2; rw [hi] at hi2; cases hi2; rfl
      subst hxx
      obtain ⟨vs', hvs', hxm⟩ := flatten_mem hx''
      exact ⟨_, hvs', Or.inr ⟨x'', lit, hxm, hlv, hbq⟩⟩
    rcases hl0 with ⟨hT, _⟩ | ⟨e, q, var0, y0, i0, hT, hq, _⟩
    · -- bool
      subst hT
      obtain ⟨b, rfl⟩ := fit_bool hv
      have hlen : 2 ≤ (flattenPats pats).length := by
        simp [missingDefault, cardinality] at hmiss; omega
      have hsh : ∀ x ∈ flattenPats pats, ∃ b, x = Expr.bool b := by
        intro x hx
        obtain ⟨x', hl⟩ := allLitOK_src hok hx
        rcases hl with ⟨_, b, rfl, _⟩ | ⟨_, _, _, _, _, hT, _⟩
        · exact ⟨b, rfl⟩
        · cases hT
      have hmem := bool_cover hsh hdist hlen b
      exact hit (.bool b) (.bool b) hmem (Or.inl ⟨rfl, b, rfl, rfl⟩) (.bool b) rfl (by simp [Val.beq])
    · -- enum `e`
      subst hT
      have hlen : q.2.length ≤ (flattenPats pats).length := by
        simp [missingDefault, cardinality, hq] at hmiss; omega
      have hsh : ∀ x ∈ flattenPats pats, ∃ var y, x = Expr.enumRef e var y ∧ var ∈ q.2 := by
        intro x hx
        obtain ⟨x', hl⟩ := allLitOK_src hok hx
        rcases hl with ⟨hT, _⟩ | ⟨e2, q2, var, y, i, hT, hq2, hi, rfl, _⟩
        · cases hT
        · cases hT; rw [hq] at hq2; cases hq2
          exact ⟨var, y, rfl, List.mem_of_getElem? (indexOf_spec hi)⟩
      -- the scrutinee value
      obtain ⟨hv1, hv2⟩ := hv
      obtain ⟨iv, rfl⟩ : ∃ iv, v = .enum e iv := by
        cases v <;> simp [Val.fitsType] at hv1
        subst hv1; exact ⟨_, rfl⟩
      simp only [Val.wf] at hv2
      obtain ⟨q', hq', h0, h1⟩ := hv2
      rw [← hE, hq] at hq'; cases hq'
      have hqm : q ∈ p.enums := by rw [← hE]; exact List.mem_of_find?_eq_some hq
      have hnd := hEnd q hqm
      have hlt : iv.toNat < q.2.length := by omega
      obtain ⟨y, hmem⟩ := enum_cover hsh hdist hlen (q.2[iv.toNat]) (List.getElem_mem hlt)
      obtain ⟨x', hx', hl⟩ := allLitOK_mem hok hmem
      rcases hl with ⟨hT, _⟩ | ⟨e2, q2, var, y2, i, hT, hq2, hi, hb, rfl⟩
      · cases hT
      · cases hT; rw [hq] at hq2; cases hq2; cases hb
        have hidx : i = iv.toNat := by
          have h1 := indexOf_spec hi
          have h2 : q.2[iv.toNat]? = some q.2[iv.toNat] := List.getElem?_eq_getElem hlt
          exact ((List.getElem?_inj hlt hnd).mp (h2.trans h1.symm)).symm
        refine hit _ _ hmem (Or.inr ⟨e, q, _, y, i, rfl, hq, hi, rfl, rfl⟩) (.enum e (Int.ofNat i)) rfl ?_
        subst hidx
        simp only [Val.beq, beq_self_eq_true, Bool.true_and, beq_iff_eq]
        first | exact (Int.toNat_of_nonneg h0).symm | exact Int.toNat_of_nonneg h0

theorem sh_not_var : ∀ {e : Expr}, shLit e = true → isVar e = false := by
  intro e h; cases e <;> simp [shLit] at h <;> rfl

theorem sh_filters : ∀ (all : List Expr), all.all shLit = true →
    (all.any fun | .some i => isVar i | _ => false) = false ∧
    (all.any fun | .ok i => isVar i | _ => false) = false ∧
    (all.any fun | .err i => isVar i | _ => false) = false ∧
    (all.filter fun | .some i => !isVar i | _ => false).length = (all.filterMap unSome).length ∧
    (all.filter fun | .ok i => !isVar i | _ => false).length = (all.filterMap unOk).length ∧
    (all.filter fun | .err i => !isVar i | _ => false).length = (all.filterMap unErr).length ∧
    ((all.any fun | .none => true | _ => false) = true → Expr.none ∈ all)
  | [], _ => by simp
  | x :: rest, h => by
    simp only [List.all_cons, Bool.and_eq_true] at h
    obtain ⟨h1, h2, h3, h4, h5, h6, h7⟩ := sh_filters rest h.2
    cases x <;> simp [shLit] at h
    all_goals (
      simp only [List.any_cons, List.filter_cons, List.filterMap_cons, unSome, unOk, unErr, h1, h2, h3,
        Bool.false_or, Bool.or_false, Bool.false_eq_true, if_false, List.mem_cons, reduceCtorEq, false_or]
      first
        | exact ⟨trivial, trivial, trivial, h4, h5, h6, h7⟩
        | (simp only [sh_not_var h.1, Bool.not_false, if_true, List.length_cons, h4, h5, h6]
           exact ⟨trivial, trivial, trivial, trivial, trivial, trivial, by simpa using h7⟩)
        | (simp [sh_not_var h.1, h4, h5, h6]; simpa using h7)
        | (simp [h4, h5, h6]))

theorem flatten_all_sh : ∀ (pats : List Pat), pats.all shPat = true → (flattenPats pats).all shLit = true
  | [], _ => rfl
  | .default :: _, h => by simp [shPat] at h
  | .values vs :: r, h => by
    simp only [List.all_cons, Bool.and_eq_true, shPat] at h
    simp only [flattenPats, List.all_append, Bool.and_eq_true]
    exact ⟨h.1, flatten_all_sh r h.2⟩

theorem any_default_sh : ∀ (pats : List Pat), pats.all shPat = true →
    (pats.any fun | .default => true | _ => false) = false
  | [], _ => rfl
  | .default :: _, h => by simp [shPat] at h
  | .values _ :: r, h => by
    simp only [List.all_cons, Bool.and_eq_true] at h
    simp [any_default_sh r h.2]

/-- **the compiler's exhaustiveness check is sound** for a match without default arm whose patterns
are nested literal shapes (`true`/`false`, enum variants, `None`, `Some(l)`, `Ok(l)`, `Err(l)`):
all three ways `missingDefault` accepts it (`Ok`/`Err` literal counts, `None` + `Some` literal
count, total count against the cardinality of the scrutinee type) imply that some arm is hit -/
theorem total_sh {cx : LCtx} {p : Program} {sc : Scopes} {st stF : Ty} {pats pats' : List Pat}
    (hE : cx.enums = p.enums) (hEnd : ∀ q ∈ p.enums, q.2.Nodup)
    (hS : ∀ n d, cx.structDef n = some d → p.structDef n = some d)
    (hlow : PatsLow cx sc st pats pats' stF) (hsh : patsSh pats = true) {scan : Scan}
    (hscan : scanPats {} pats = some scan)
    (hmiss : missingDefault cx stF scan.all (pats.any fun | .default => true | _ => false) = false)
    {v : Val} (hv : Fit p v stF) : Total v pats' := by
  simp only [patsSh] at hsh
  obtain ⟨hall, hd⟩ := scanPats_all pats {} scan hscan
  simp only [List.nil_append] at hall
  have hdist : Distinct (flattenPats pats) := by rw [← hall]; exact hd (by simp [Distinct])
  rw [any_default_sh pats hsh, hall] at hmiss
  obtain ⟨_, hty⟩ := patsLow_sh hlow hsh
  have hallsh := flatten_all_sh pats hsh
  obtain ⟨f1, f2, f3, f4, f5, f6, f7⟩ := sh_filters _ hallsh
  have htyall : ∀ l ∈ flattenPats pats, ∃ l', LitTy cx stF l l' := fun l hl =>
    let ⟨l', _, h⟩ := allLitTy_mem hty hl; ⟨l', h⟩
  -- a hit among the collected literals is a hit of an arm
  have ofHit : Hit cx stF (flattenPats pats) v → Total v pats' := by
    rintro ⟨l, hl, l', lit, hlt, hlv, hbq⟩
    obtain ⟨l'', hl'', hlt''⟩ := allLitTy_mem hty hl
    have := litTy_unique l hlt hlt''
    subst this
    obtain ⟨vs', hvs', hxm⟩ := flatten_mem hl''
    exact ⟨_, hvs', Or.inr ⟨l', lit, hxm, hlv, hbq⟩⟩
  apply ofHit
  have cardRoute : ∀ c, cardinality cx 64 stF = some c → c ≤ (flattenPats pats).length → Hit cx stF (flattenPats pats) v :=
    fun c hc hle => (count_sound hE hEnd hS 64 stF c _ hc hdist htyall).2 hle v hv
  cases hT : stF with
  | optional it =>
    subst hT
    simp only [missingDefault, Bool.not_false, Bool.true_and, Bool.and_eq_false_iff, Bool.not_eq_false', Bool.and_eq_true,
      Bool.or_eq_true, beq_iff_eq] at hmiss
    rcases hmiss with ⟨hnone, hb | hcard⟩ | hmiss
    · cases hb.symm.trans f1
    · have hcard' := hcard.trans (congrArg some f4)
      rcases fit_optional hv with rfl | ⟨w, rfl, hw⟩
      · exact ⟨.none, f7 hnone, .none, .none, by simp [LitTy], rfl, by simp [Val.beq]⟩
      · have htyi : ∀ m ∈ (flattenPats pats).filterMap unSome, ∃ m', LitTy cx it m m' := by
          intro m hm
          obtain ⟨x', h⟩ := htyall _ (mem_unSome.mp hm)
          simp only [LitTy] at h
          obtain ⟨m', _, hm'⟩ := h
          exact ⟨m', hm'⟩
        obtain ⟨m, hm, m', lit, hmt, hlv, hbq⟩ :=
          (count_sound hE hEnd hS 64 it _ _ hcard' (distinct_unSome hdist) htyi).2 (Nat.le_refl _) w hw
        exact ⟨.some m, mem_unSome.mp hm, .some m', .some lit, by simp only [LitTy]; exact ⟨m', rfl, hmt⟩,
          by simp [litVal, hlv], by simpa [Val.beq] using hbq⟩
    · split at hmiss
      · cases hmiss
      · rename_i c hc
        exact cardRoute c hc (by simpa using hmiss)
  | result a b =>
    subst hT
    simp only [missingDefault, Bool.not_false, Bool.true_and, Bool.and_eq_false_iff, Bool.not_eq_false', Bool.and_eq_true,
      Bool.or_eq_true, beq_iff_eq] at hmiss
    rcases hmiss with (⟨hb | hca, hb2 | hcb⟩ | hf) | hmiss
    · cases hb.symm.trans f2
    · cases hb.symm.trans f2
    · cases hb2.symm.trans f3
    · have hca' := hca.trans (congrArg some f5)
      have hcb' := hcb.trans (congrArg some f6)
      have htyo : ∀ m ∈ (flattenPats pats).filterMap unOk, ∃ m', LitTy cx a m m' := by
        intro m hm
        obtain ⟨x', h⟩ := htyall _ (mem_unOk.mp hm)
        simp only [LitTy] at h
        obtain ⟨m', _, hm'⟩ := h
        exact ⟨m', hm'⟩
      have htye : ∀ m ∈ (flattenPats pats).filterMap unErr, ∃ m', LitTy cx b m m' := by
        intro m hm
        obtain ⟨x', h⟩ := htyall _ (mem_unErr.mp hm)
        simp only [LitTy] at h
        obtain ⟨m', _, hm'⟩ := h
        exact ⟨m', hm'⟩
      rcases fit_result_cases' hv with ⟨w, rfl, hw⟩ | ⟨w, rfl, hw⟩
      · obtain ⟨m, hm, m', lit, hmt, hlv, hbq⟩ :=
          (count_sound hE hEnd hS 64 a _ _ hca' (distinct_unOk hdist) htyo).2 (Nat.le_refl _) w hw
        exact ⟨.ok m, mem_unOk.mp hm, .ok m', .ok lit, by simp only [LitTy]; exact ⟨m', rfl, hmt⟩,
          by simp [litVal, hlv], by simpa [Val.beq] using hbq⟩
      · obtain ⟨m, hm, m', lit, hmt, hlv, hbq⟩ :=
          (count_sound hE hEnd hS 64 b _ _ hcb' (distinct_unErr hdist) htye).2 (Nat.le_refl _) w hw
        exact ⟨.err m, mem_unErr.mp hm, .err m', .err lit, by simp only [LitTy]; exact ⟨m', rfl, hmt⟩,
          by simp [litVal, hlv], by simpa [Val.beq] using hbq⟩
    · cases hf
    · split at hmiss
      · cases hmiss
      · rename_i c hc
        exact cardRoute c hc (by simpa using hmiss)
  | _ =>
    subst hT
    simp only [missingDefault, Bool.not_false, Bool.true_and, Bool.and_eq_false_iff, Bool.not_eq_false', Bool.and_eq_true,
      Bool.or_eq_true, beq_iff_eq] at hmiss
    split at hmiss
    · cases hmiss
    · rename_i c hc
      exact cardRoute c hc (by simpa using hmiss)

theorem total_of_frag {cx : LCtx} {p : Program} {sc : Scopes} {st stF : Ty} {pats pats' : List Pat}
    (hE : cx.enums = p.enums) (hEnd : ∀ q ∈ p.enums, q.2.Nodup)
    (hS : ∀ n d, cx.structDef n = some d → p.structDef n = some d)
    (hlow : PatsLow cx sc st pats pats' stF) (htot : (patsTotal pats || patsFlat pats || patsSh pats) = true) {scan : Scan}
    (hscan : scanPats {} pats = some scan)
    (hmiss : ¬ missingDefault cx stF scan.all (pats.any fun | .default => true | _ => false) = true)
    {v : Val} (hv : Fit p v st) : Total v pats' := by
  simp only [Bool.or_eq_true] at htot
  rcases htot with (h | h) | h
  · exact total_of_patsTotal hlow h hv
  · exact total_flat hE hEnd hlow h hscan (by simpa using hmiss) (patsLow_mono hlow v hv)
  · exact total_sh hE hEnd hS hlow h hscan (by simpa using hmiss) (patsLow_mono hlow v hv)

theorem patsOfE_map (arms : List (Pat × Expr)) : patsOfE arms = arms.map (·.1) := by
  induction arms with
  | nil => rfl
  | cons a rest ih => obtain ⟨pt, e⟩ := a; simp [patsOfE, ih]
theorem patsOfS_map (arms : List (Pat × List Stmt)) : patsOfS arms = arms.map (·.1) := by
  induction arms with
  | nil => rfl
  | cons a rest ih => obtain ⟨pt, e⟩ := a; simp [patsOfS, ih]


/-! ## struct literals with `...source` -/

theorem fits_refl : ∀ (t : Ty), t.fits t = true := by
  intro t
  induction t with
  | optional a ih => simpa [Ty.fits] using ih
  | result a b iha ihb => simp [Ty.fits, iha, ihb]
  | _ => simp [Ty.fits]

theorem lowerFields_append {cx : LCtx} {sc : Scopes} {d : List (Nat × Ty)} : ∀ {a a' b b' : List (Nat × Expr)},
    lowerFields cx sc d a = some a' → lowerFields cx sc d b = some b' → lowerFields cx sc d (a ++ b) = some (a' ++ b')
  | [], a', b, b', ha, hb => by
    simp only [lowerFields, Option.some.injEq] at ha; subst ha; simpa using hb
  | (k, e) :: a, a', b, b', ha, hb => by
    simp only [lowerFields] at ha
    simp only [List.cons_append, lowerFields]
    repeat' (split at ha)
    all_goals (try (cases ha; done))
    simp only [Option.map_eq_some_iff] at ha
    obtain ⟨r, hr, rfl⟩ := ha
    rename_i k' ft hfind _ e1 t1 he hfit
    simp only [hfind, he, hfit, if_true, lowerFields_append hr hb, Option.map_some, List.cons_append]

theorem fragFields_append : ∀ (a b : List (Nat × Expr)), fragFields (a ++ b) = (fragFields a && fragFields b)
  | [], b => by simp [fragFields]
  | (k, e) :: a, b => by simp [fragFields, fragFields_append a b, Bool.and_assoc]

/-- the fields appended for the `...source`s are themselves well-typed field initialisers -/
theorem expandSources_lower {cx : LCtx} {sc : Scopes} {d : List (Nat × Ty)} {given : List Nat}
    (hnd : ∀ n sd, cx.structDef n = some sd → (sd.map (·.1)).Nodup) :
    ∀ (srcs seen : List Nat) (extra : List (Nat × Expr × Ty)), expandSources cx sc d given srcs seen = some extra →
      lowerFields cx sc d (extra.map (fun x => (x.1, x.2.1))) = some (extra.map (fun x => (x.1, x.2.1))) ∧
      fragFields (extra.map (fun x => (x.1, x.2.1))) = true
  | [], seen, extra, h => by
    simp only [expandSources, Option.some.injEq] at h; subst h; simp [lowerFields, fragFields]
  | src :: rest, seen, extra, h => by
    simp only [expandSources] at h
    split at h
    rotate_left
    · cases h
    rename_i sn hget
    split at h
    · cases h
    rename_i sdef hsdef
    split at h
    · cases h
    split at h
    · cases h
    rename_i hall
    split at h
    rotate_left
    · cases h
    rename_i more hmore
    simp only [Option.some.injEq] at h; subst h
    obtain ⟨ih1, ih2⟩ := expandSources_lower hnd rest _ more hmore
    simp only [Bool.not_eq_true', Bool.not_eq_false] at hall
    have hsnd := hnd sn sdef hsdef
    -- the fields taken from this source
    have key : ∀ (todo : List (Nat × Ty)), (∀ f ∈ todo, f ∈ sdef) →
        (todo.all fun f => match d.find? (·.1 == f.1) with
            | Option.some (_, bt) => bt.matchesT f.2
            | Option.none => false) = true →
        lowerFields cx sc d (todo.map fun f => (f.1, Expr.dot (.var src) f.1)) = some (todo.map fun f => (f.1, Expr.dot (.var src) f.1)) ∧
        fragFields (todo.map fun f => (f.1, Expr.dot (.var src) f.1)) = true := by
      intro todo
      induction todo with
      | nil => intro _ _; simp [lowerFields, fragFields]
      | cons f todo iht =>
        intro hsub hok
        simp only [List.all_cons, Bool.and_eq_true] at hok
        obtain ⟨h1, h2⟩ := iht (fun g hg => hsub g (List.mem_cons_of_mem _ hg)) hok.2
        have hf := hsub f (List.mem_cons_self ..)
        have hfind : sdef.find? (·.1 == f.1) = some f := findTy_of_nodup hsnd hf
        cases hdf : d.find? (·.1 == f.1) with
        | none => rw [hdf] at hok; simp at hok
        | some q =>
          obtain ⟨k', bt⟩ := q
          rw [hdf] at hok
          have hbt : bt = f.2 := matchesT_eq hok.1
          subst hbt
          simp only [List.map_cons, lowerFields, hdf, lowerExpr, hget, Option.map_some, hsdef, hfind, fits_refl, if_true, h1,
            fragFields, fragE, h2, Bool.and_self, and_self]
    have hk := key (sdef.filter fun f => !given.contains f.1) (fun f hf => (List.mem_filter.mp hf).1) hall
    simp only [List.map_append, List.map_map, Function.comp_def]
    exact ⟨lowerFields_append hk.1 ih1, by rw [fragFields_append, hk.2, ih2]; rfl⟩


/-! ## `substruct` and `as` -/

theorem pickFields_ok {fs : List (Nat × Val)} : ∀ (d : List (Nat × Ty)),
    (∀ f ∈ d, ∃ w, getField fs f.1 = some w ∧ w.fitsType f.2 = true) →
    ∃ kvs, pickFields fs d = some kvs ∧ kvs.map (·.1) = d.map (·.1) ∧
      ∀ kv ∈ kvs, ∃ t, (kv.1, t) ∈ d ∧ getField fs kv.1 = some kv.2 ∧ kv.2.fitsType t = true
  | [], _ => ⟨[], rfl, rfl, by simp⟩
  | (k, t) :: rest, h => by
    obtain ⟨w, hw, hfit⟩ := h (k, t) (List.mem_cons_self ..)
    obtain ⟨kvs, hk, hmap, hall⟩ := pickFields_ok rest (fun f hf => h f (List.mem_cons_of_mem _ hf))
    refine ⟨(k, w) :: kvs, by simp [pickFields, hw, hk, hfit], by simp [hmap], ?_⟩
    intro kv hkv
    rcases List.mem_cons.mp hkv with rfl | hkv'
    · exact ⟨t, List.mem_cons_self .., hw, hfit⟩
    · obtain ⟨t', hm, h1, h2⟩ := hall kv hkv'
      exact ⟨t', List.mem_cons_of_mem _ hm, h1, h2⟩

theorem fldInv_set {p : Program} {d : List (Nat × Ty)} {afs : List (Nat × Val)} {k : Nat} {v : Val}
    (hinv : FldInv p d afs) (hwf : v.wf p) (hty : ∀ q, d.find? (·.1 == k) = some q → v.fitsType q.2 = true) :
    FldInv p d (setField afs k v) := by
  refine ⟨wfFields_set hinv.1 hwf, ?_⟩
  intro k2 w hw q hq
  by_cases hk : k2 = k
  · subst hk
    rw [getField_setField_same] at hw
    simp only [Option.some.injEq] at hw; subst hw
    exact hty q hq
  · rw [getField_setField_other _ _ _ _ hk] at hw
    exact hinv.2 k2 w hw q hq

theorem foldl_setField {p : Program} {d : List (Nat × Ty)} : ∀ (kvs : List (Nat × Val)) (acc : List (Nat × Val)),
    FldInv p d acc → (∀ kv ∈ kvs, kv.2.wf p ∧ ∀ q, d.find? (·.1 == kv.1) = some q → kv.2.fitsType q.2 = true) →
    FldInv p d (kvs.foldl (fun acc kv => setField acc kv.1 kv.2) acc) ∧
      ∀ k, ((getField acc k).isSome = true ∨ k ∈ kvs.map (·.1)) →
        (getField (kvs.foldl (fun acc kv => setField acc kv.1 kv.2) acc) k).isSome = true
  | [], acc, hinv, _ => ⟨hinv, by intro k hk; simpa using hk⟩
  | kv :: kvs, acc, hinv, h => by
    obtain ⟨hw, ht⟩ := h kv (List.mem_cons_self ..)
    obtain ⟨h1, h2⟩ := foldl_setField kvs (setField acc kv.1 kv.2) (fldInv_set hinv hw ht)
      (fun x hx => h x (List.mem_cons_of_mem _ hx))
    refine ⟨h1, ?_⟩
    intro k hk
    apply h2
    by_cases hkk : k = kv.1
    · subst hkk; left; rw [getField_setField_same]; rfl
    · rcases hk with hk | hk
      · left; rw [getField_setField_other _ _ _ _ hkk]; exact hk
      · right
        simp only [List.map_cons, List.mem_cons] at hk
        rcases hk with hk | hk
        · exact absurd hk hkk
        · exact hk


theorem snd_e {cx : LCtx} {p : Program} {n : Nat} (hC : Ctx cx p) (ih : Snd cx p n) :
    ∀ rt sc e e' t env log, fragE e = true → lowerExpr (cx.withRet rt) sc e = some (e', t) → rt.neverFree = true →
    EnvOk p sc env → ROk (FitV p t) (FitV p rt) (evalExpr p (n + 1) env log e') := by
  intro rt sc e e' t env log hf hl hrt henv
  cases e with
  | unit | int _ | str _ | bool _ | none | todo =>
    inv_low hl
    simp only [Option.some.injEq, Prod.mk.injEq] at hl
    obtain ⟨rfl, rfl⟩ := hl
    simp [evalExpr, ROk, FitV, Fit, Val.fitsType, Val.wf]
  | enumRef name variant val =>
    inv_low hl
    simp only [Option.map_eq_some_iff, Prod.mk.injEq] at hl
    obtain ⟨i, hi, rfl, rfl⟩ := hl
    rename_i k vs hfind
    simp only [evalExpr, ROk, FitV]
    have hlt : i < vs.length := by
      have := indexOf_spec hi
      exact (List.getElem?_eq_some_iff.mp this).1
    exact fit_enum_mk (q := (k, vs)) (by rw [← hC.hE]; exact hfind) (Int.natCast_nonneg i) (Int.ofNat_lt.mpr hlt)
  | var x =>
    simp only [lowerExpr, Option.map_eq_some_iff, Prod.mk.injEq] at hl
    obtain ⟨t', hg, rfl, rfl⟩ := hl
    unfold scopeGet at hg
    split at hg
    · rename_i t'' hfs
      simp only [Option.some.injEq] at hg; subst hg
      obtain ⟨v, hv, hfit⟩ := envOk_get henv hfs
      simp [evalExpr, lookupVar, hv, ROk, FitV, hfit]
    · rename_i hnone
      have hl := envOk_none henv hnone
      obtain ⟨v, hv, hfit⟩ := gOk_get (hC.hG.withRet rt) hg
      simp [evalExpr, lookupVar, hl, hv, ROk, FitV, hfit]
  | some a | ok a | err a =>
    inv_low hl
    simp only [Option.some.injEq, Prod.mk.injEq] at hl
    obtain ⟨rfl, rfl⟩ := hl
    rename_i a' ta ha
    simp only [fragE] at hf
    have iha := ih.e rt sc a a' ta env log hf ha hrt henv
    simp only [evalExpr]
    res_cases iha of evalExpr _ _ _ _ _
    all_goals first | exact fit_some_mk iha | exact fit_ok_mk iha | exact fit_err_mk iha
  | and a b =>
    inv_low hl
    simp only [Option.map_eq_some_iff, Prod.mk.injEq] at hl
    obtain ⟨u, hu, rfl, rfl⟩ := hl
    rename_i a' ta b' tb ha hb
    simp only [fragE, Bool.and_eq_true] at hf
    have hfa := fit_unifyAs (p := p) hu rfl
    have iha := ih.e rt sc a a' ta env log hf.1 ha hrt henv
    simp only [evalExpr]
    res_cases iha of evalExpr _ _ _ _ _
    rename_i v l
    obtain ⟨b0, rfl⟩ := fit_bool (hfa.1 _ iha)
    cases b0
    · exact fit_bool_mk
    · simp only []
      have ihb := ih.e rt sc b b' tb env l hf.2 hb hrt henv
      res_cases ihb of evalExpr _ _ _ _ _
      rename_i w l'
      obtain ⟨b1, rfl⟩ := fit_bool (hfa.2 _ ihb)
      exact fit_bool_mk
  | or a b =>
    inv_low hl
    simp only [Option.map_eq_some_iff, Prod.mk.injEq] at hl
    obtain ⟨u, hu, rfl, rfl⟩ := hl
    rename_i a' ta b' tb ha hb
    simp only [fragE, Bool.and_eq_true] at hf
    have hfa := fit_unifyAs (p := p) hu rfl
    have iha := ih.e rt sc a a' ta env log hf.1 ha hrt henv
    simp only [evalExpr]
    res_cases iha of evalExpr _ _ _ _ _
    rename_i v l
    obtain ⟨b0, rfl⟩ := fit_bool (hfa.1 _ iha)
    cases b0
    · simp only []
      have ihb := ih.e rt sc b b' tb env l hf.2 hb hrt henv
      res_cases ihb of evalExpr _ _ _ _ _
      rename_i w l'
      obtain ⟨b1, rfl⟩ := fit_bool (hfa.2 _ ihb)
      exact fit_bool_mk
    · exact fit_bool_mk
  | not a =>
    inv_low hl
    simp only [Option.map_eq_some_iff, Prod.mk.injEq] at hl
    obtain ⟨u, hu, rfl, rfl⟩ := hl
    rename_i a' ta ha
    simp only [fragE] at hf
    have iha := ih.e rt sc a a' ta env log hf ha hrt henv
    simp only [evalExpr]
    res_cases iha of evalExpr _ _ _ _ _
    rename_i v l
    obtain ⟨hb, rfl⟩ := fit_checkType hu rfl iha
    obtain ⟨b0, rfl⟩ := fit_bool hb
    simp only []
    have hu' : u = .bool := fits_bool_ty iha.1
    subst hu'; exact fit_bool_mk
  | ite c a b =>
    inv_low hl
    simp only [Option.map_eq_some_iff, Prod.mk.injEq] at hl
    obtain ⟨u, hu, rfl, rfl⟩ := hl
    rename_i c' ct a' ta b' tb hc ha hb hfit
    simp only [fragE, Bool.and_eq_true] at hf
    have ihc := ih.e rt sc c c' ct env log hf.1.1 hc hrt henv
    simp only [evalExpr]
    res_cases ihc of evalExpr _ _ _ _ _
    rename_i v l
    obtain ⟨b0, rfl⟩ := fit_bool (fit_of_fits hfit rfl ihc)
    cases b0
    · simp only []
      exact (ih.e rt sc b b' tb env l hf.2 hb hrt henv).mono (fun v => (fit_unify hu).2) (fun _ h => h)
    · simp only []
      exact (ih.e rt sc a a' ta env l hf.1.2 ha hrt henv).mono (fun v => (fit_unify hu).1) (fun _ h => h)
  | coalesce a b =>
    inv_low hl
    simp only [Option.map_eq_some_iff, Prod.mk.injEq] at hl
    obtain ⟨u, hu, rfl, rfl⟩ := hl
    rename_i a' it ha _ b' tb hb
    simp only [fragE, Bool.and_eq_true] at hf
    have iha := ih.e rt sc a a' _ env log hf.1 ha hrt henv
    simp only [evalExpr]
    res_cases iha of evalExpr _ _ _ _ _
    rename_i v l
    rcases fit_optional iha with rfl | ⟨w, rfl, hw⟩
    · simp only []
      exact (ih.e rt sc b b' tb env l hf.2 hb hrt henv).mono (fun v => (fit_unify hu).2) (fun _ h => h)
    · simp only []
      exact (fit_unify hu).1 hw
  | is a s =>
    inv_low hl
    simp only [Option.some.injEq, Prod.mk.injEq] at hl
    obtain ⟨rfl, rfl⟩ := hl
    rename_i a' it ha
    simp only [fragE] at hf
    have iha := ih.e rt sc a a' _ env log hf ha hrt henv
    simp only [evalExpr]
    res_cases iha of evalExpr _ _ _ _ _
    rename_i v l
    rcases fit_optional iha with rfl | ⟨w, rfl, hw⟩ <;> exact fit_bool_mk
  | eq a b | ne a b =>
    inv_low hl
    simp only [Option.map_eq_some_iff, Prod.mk.injEq] at hl
    obtain ⟨u, hu, rfl, rfl⟩ := hl
    rename_i a' ta b' tb ha hb
    simp only [fragE, Bool.and_eq_true] at hf
    have iha := ih.e rt sc a a' ta env log hf.1 ha hrt henv
    simp only [evalExpr]
    res_cases iha of evalExpr _ _ _ _ _
    rename_i v l
    have ihb := ih.e rt sc b b' tb env l hf.2 hb hrt henv
    res_cases ihb of evalExpr _ _ _ _ _
  | gt a b | lt a b | ge a b | le a b =>
    inv_low hl
    simp only [Option.map_eq_some_iff, Prod.mk.injEq] at hl
    obtain ⟨u, hu, rfl, rfl⟩ := hl
    rename_i a' ta b' tb ha hb
    simp only [fragE, Bool.and_eq_true] at hf
    have hfa := fit_unifyAs (p := p) hu rfl
    have iha := ih.e rt sc a a' ta env log hf.1 ha hrt henv
    simp only [evalExpr]
    res_cases iha of evalExpr _ _ _ _ _
    rename_i v l
    have ihb := ih.e rt sc b b' tb env l hf.2 hb hrt henv
    res_cases ihb of evalExpr _ _ _ _ _
    rename_i w l'
    obtain ⟨i, rfl⟩ := fit_int (hfa.1 _ iha)
    obtain ⟨j, rfl⟩ := fit_int (hfa.2 _ ihb)
    simp only [cmpInts]; exact fit_bool_mk
  | ret a =>
    inv_low hl
    simp only [Option.some.injEq, Prod.mk.injEq] at hl
    obtain ⟨rfl, rfl⟩ := hl
    rename_i a' ta ha hfit
    simp only [fragE] at hf
    have iha := ih.e rt sc a a' ta env log hf ha hrt henv
    simp only [evalExpr]
    res_cases iha of evalExpr _ _ _ _ _
    exact fit_of_fits hfit hrt iha
  | block ss a =>
    inv_low hl
    simp only [Option.some.injEq, Prod.mk.injEq] at hl
    obtain ⟨rfl, rfl⟩ := hl
    rename_i ss' sc' hs _ a' ta ha
    simp only [fragE, Bool.and_eq_true] at hf
    have ihs := ih.ss rt ([] :: sc) ss ss' sc' ([] :: env) log hf.1 hs hrt (by simp only [EnvOk, BlockOk]; exact ⟨trivial, henv⟩)
    simp only [evalExpr]
    res_cases ihs of evalStmts _ _ _ _ _
    rename_i env' l
    exact ih.e rt sc' a a' ta env' l hf.2 ha hrt ihs
  | call f args =>
    inv_low hl
    simp only [Option.some.injEq, Prod.mk.injEq] at hl
    obtain ⟨rfl, rfl⟩ := hl
    rename_i g params rt' hsig hlen _ args' hargs
    simp only [fragE] at hf
    have hlen' : (params.map (·.2)).length = args.length := by
      simp only [bne_iff_ne, ne_eq, Decidable.not_not] at hlen; simpa using hlen
    simp only [LCtx.withRet] at hsig
    simp only [evalExpr]
    by_cases hb : isBuiltin f = true
    · rw [hC.hbuiltin f hb] at hsig
      have hp : params = [(0, Ty.int), (0, Ty.int)] ∧ (f = 0 ∨ f = 2 → rt' = .optional .int) ∧ (f = 1 ∨ f = 3 → rt' = .int) := by
        rcases isBuiltin_cases hb with rfl | rfl | rfl | rfl <;>
          (simp [builtinSigs, builtinNames, builtinRet, List.range, List.range.loop] at hsig; obtain ⟨rfl, rfl, rfl⟩ := hsig; simp)
      obtain ⟨rfl, hr1, hr2⟩ := hp
      have iha := ih.args rt sc _ args args' env log hf hlen' hargs (by intro t ht; simp only [List.map_cons, List.map_nil, List.mem_cons, List.not_mem_nil, or_false, or_self] at ht; subst ht; rfl) hrt henv
      res_cases iha of evalArgs _ _ _ _ _
      rename_i vs l
      obtain ⟨x, y, rfl⟩ := argsFit_two iha
      simp only [hb, if_true, intPair]
      rcases isBuiltin_cases hb with rfl | rfl | rfl | rfl
      · rw [hr1 (Or.inl rfl)]; simp only [builtinOp, builtinInstr]; exact checked_fit _
      · rw [hr2 (Or.inl rfl)]; simp only [builtinOp, builtinInstr]; exact fit_int_mk
      · rw [hr1 (Or.inr rfl)]; simp only [builtinOp, builtinInstr]; exact checked_fit _
      · rw [hr2 (Or.inr rfl)]; simp only [builtinOp, builtinInstr]; exact fit_int_mk
    · simp only [Bool.not_eq_true] at hb
      obtain ⟨fd, hfd, rfl, rfl, hok⟩ := hC.hcall f g params rt' hb hsig
      have iha := ih.args rt sc _ args args' env log hf hlen' hargs
        (by intro t ht; obtain ⟨q, hq, rfl⟩ := List.mem_map.mp ht; exact hok.2.1 q hq) hrt henv
      res_cases iha of evalArgs _ _ _ _ _
      rename_i vs l
      simp only [hb, Bool.false_eq_true, if_false]
      exact (ih.call f fd vs l hfd hok iha).mono (fun _ h => h) (fun _ h => h.elim)
  | ffi mname fname ids args =>
    inv_low hl
    simp only [Option.some.injEq, Prod.mk.injEq] at hl
    obtain ⟨rfl, rfl⟩ := hl
    rename_i _ _ mi _ _ m fns hmod _ pi _ _ sig hsig hlen _ args' hargs
    simp only [fragE] at hf
    have hlen' : sig.args.length = args.length := by
      simp only [bne_iff_ne, ne_eq, Decidable.not_not] at hlen; exact hlen
    obtain ⟨hnf, hcontract⟩ := hC.hffi mi pi m fns sig hmod hsig
    have iha := ih.args rt sc _ args args' env log hf hlen' hargs hnf hrt henv
    simp only [evalExpr]
    res_cases iha of evalArgs _ _ _ _ _
    rename_i vs l
    have hc := hcontract vs iha
    revert hc
    cases p.ffi mi pi vs <;> simp [ROk, FitV]
  | dot a f =>
    inv_low hl
    simp only [Option.map_eq_some_iff, Prod.mk.injEq] at hl
    obtain ⟨ft, hft, rfl, rfl⟩ := hl
    rename_i a' sn ha _ d hd
    simp only [fragE] at hf
    have iha := ih.e rt sc a a' _ env log hf ha hrt henv
    simp only [evalExpr]
    res_cases iha of evalExpr _ _ _ _ _
    rename_i v l
    obtain ⟨fs, rfl, ⟨d', hd', hall⟩, hwf⟩ := fit_struct iha
    have hpd := hC.hS sn d hd
    rw [hpd] at hd'; cases hd'
    have hmem := List.mem_of_find?_eq_some hft
    have hk : ft.1 = f := by have := List.find?_some hft; simpa using this
    obtain ⟨w, hw, hwfit⟩ := hall ft hmem
    rw [hk] at hw
    simp only [hw]
    exact ⟨hwfit, wfFields_get hwf hw⟩
  | struct name fields sources =>
    simp only [fragE] at hf
    -- common tail: a lowered field list `low` that covers the definition
    have tail : ∀ (d : List (Nat × Ty)) (srcF low : List (Nat × Expr)), (cx.withRet rt).structDef name = some d →
        fragFields srcF = true → lowerFields (cx.withRet rt) sc d srcF = some low →
        (∀ q ∈ d, q.1 ∈ low.map (·.1)) →
        ROk (FitV p (.struct name)) (FitV p rt) (evalExpr p (n + 1) env log (.struct name low sources)) := by
      intro d srcF low hd hff hlf hcov
      have hpd := hC.hS name d hd
      have hnd := hC.hSnd name d hpd
      have ihf := ih.flds rt sc d srcF low env log name [] hff hlf (hC.hSnf name d hpd) hrt henv
        ⟨by simp [wfFields], by intro k v h; simp [getField] at h⟩
      simp only [evalExpr, hpd]
      res_cases ihf of evalFields _ _ _ _ _ _ _
      obtain ⟨fsF, rfl, hinv, hpres⟩ := ihf
      refine ⟨by simp [Val.fitsType], ?_⟩
      simp only [Val.wf]
      refine ⟨⟨d, hpd, ?_⟩, hinv.1⟩
      intro q hq
      have hsome := hpres q.1 (Or.inr (hcov q hq))
      obtain ⟨w, hw⟩ := Option.isSome_iff_exists.mp hsome
      exact ⟨w, hw, hinv.2 q.1 w hw q (findTy_of_nodup hnd hq)⟩
    inv_low hl
    · -- no sources
      simp only [Option.some.injEq, Prod.mk.injEq] at hl
      obtain ⟨rfl, rfl⟩ := hl
      rename_i d hd _ hchk _ fs' hlf
      simp only [Bool.or_eq_true, not_or, Bool.not_eq_true, Bool.not_eq_eq_eq_not, Bool.not_true, Bool.not_false] at hchk
      refine tail d fields fs' hd hf hlf ?_
      intro q hq
      rw [lowerFields_keys hlf]
      have hall : (d.all fun f => fields.any fun x => x.fst == f.fst) = true := by
        cases hx : (d.all fun f => fields.any fun x => x.fst == f.fst)
        · exact absurd hx hchk.2
        · rfl
      have := List.all_eq_true.mp hall q hq
      obtain ⟨x, hx, hxq⟩ := List.any_eq_true.mp this
      exact List.mem_map.mpr ⟨x, hx, beq_iff_eq.mp hxq⟩
    · -- with `...source`s
      simp only [Option.some.injEq, Prod.mk.injEq] at hl
      obtain ⟨rfl, rfl⟩ := hl
      rename_i d hd _ _ _ extra hexp hchk _ fs' hlf
      simp only [Bool.or_eq_true, not_or, Bool.not_eq_true, Bool.not_eq_eq_eq_not, Bool.not_true, Bool.not_false] at hchk
      obtain ⟨hlx, hfx⟩ := expandSources_lower (cx := cx.withRet rt)
        (fun n sd h => hC.hSnd n sd (hC.hS n sd h)) sources [] extra hexp
      refine tail d (fields ++ extra.map (fun x => (x.1, x.2.1))) _ hd (by rw [fragFields_append, hf, hfx]; rfl)
        (lowerFields_append hlf hlx) ?_
      intro q hq
      have hall : (d.all fun f => (fields.any fun x => x.fst == f.fst) || extra.any fun x => x.fst == f.fst) = true := by
        cases hx : (d.all fun f => (fields.any fun x => x.fst == f.fst) || extra.any fun x => x.fst == f.fst)
        · exact absurd hx hchk.2
        · rfl
      have := List.all_eq_true.mp hall q hq
      simp only [Bool.or_eq_true, List.any_eq_true] at this
      simp only [List.map_append, List.mem_append, lowerFields_keys hlf, List.map_map]
      rcases this with ⟨x, hx, hxq⟩ | ⟨x, hx, hxq⟩
      · exact Or.inl (List.mem_map.mpr ⟨x, hx, beq_iff_eq.mp hxq⟩)
      · exact Or.inr (List.mem_map.mpr ⟨x, hx, beq_iff_eq.mp hxq⟩)
  | mtch scrut arms =>
    inv_low hl
    simp only [Option.some.injEq, Prod.mk.injEq] at hl
    obtain ⟨rfl, rfl⟩ := hl
    rename_i _ scan hscan _ _ scrut' st0 hscrut _ _ stF ty arms' harms hmiss
    simp only [fragE, Bool.and_eq_true] at hf
    obtain ⟨⟨hfs, hfa⟩, hend⟩ := hf
    rw [patsOfE_map] at hscan hmiss hend
    have ihs := ih.e rt sc scrut scrut' st0 env log hfs hscrut hrt henv
    simp only [evalExpr]
    res_cases ihs of evalExpr _ _ _ _ _
    rename_i v l
    have hpl := armsE_patsLow arms st0 none stF (some ty) arms' harms hfa
    have ihsel := ih.sel rt sc st0 _ _ _ env l v 0 hpl (total_of_frag (cx := cx.withRet rt) hC.hE hC.hEnd hC.hS hpl hend hscan hmiss ihs) hrt henv
    res_cases ihsel of selectArm _ _ _ _ _ _ _
    rename_i j l'
    obtain ⟨i, pat', rfl, hi, hbind⟩ := ihsel
    simp only [Nat.zero_add]
    rw [List.getElem?_map] at hi
    cases harm : arms'[i]? with
    | none => rw [harm] at hi; cases hi
    | some arm =>
      obtain ⟨pat1, body'⟩ := arm
      rw [harm] at hi
      simp only [Option.map_some, Option.some.injEq] at hi; subst hi
      obtain ⟨pat, body, sti, sti', bs, sc', bt, hpat, hfp, hfb, hmono, hsc, hbody, tF, htF, hres⟩ :=
        armsE_get (p := p) arms st0 none stF (some ty) arms' i pat1 body' harms hfa harm
      simp only [Option.some.injEq] at htF; subst htF
      obtain ⟨env', hba, henv'⟩ := bindArm_ok (p := p) (hC.hG.withRet rt) hpat hfp hsc (hmono v ihs) hbind henv
      simp only [hba]
      exact (ih.e rt sc' body body' bt env' l' hfb hbody hrt henv').mono (fun v hv => hres v hv) (fun _ h => h)
  | substruct a sub =>
    inv_low hl
    simp only [Option.some.injEq, Prod.mk.injEq] at hl
    obtain ⟨rfl, rfl⟩ := hl
    rename_i sd hsd _ a' ln ha _ ld hld hchk
    simp only [fragE] at hf
    have iha := ih.e rt sc a a' _ env log hf ha hrt henv
    have hpsd := hC.hS sub sd hsd
    simp only [evalExpr, hpsd]
    res_cases iha of evalExpr _ _ _ _ _
    rename_i v l
    obtain ⟨fs, rfl, ⟨d', hd', hall⟩, hwf⟩ := fit_struct iha
    rw [hC.hS ln ld hld] at hd'; cases hd'
    have hsrc : ∀ f ∈ sd, ∃ w, getField fs f.1 = some w ∧ w.fitsType f.2 = true := by
      intro f hf'
      have := List.all_eq_true.mp hchk f hf'
      obtain ⟨g, hg, hgf⟩ := List.any_eq_true.mp this
      simp only [Bool.and_eq_true, beq_iff_eq] at hgf
      obtain ⟨w, hw, hwfit⟩ := hall g hg
      rw [hgf.1] at hw
      rw [matchesT_eq hgf.2] at hwfit
      exact ⟨w, hw, hwfit⟩
    obtain ⟨kvs, hpick, hmap, hkv⟩ := pickFields_ok sd hsrc
    simp only [hpick]
    have hnd := hC.hSnd sub sd hpsd
    obtain ⟨hinv, hpres⟩ := foldl_setField (p := p) (d := sd) kvs []
      ⟨by simp [wfFields], by intro k v h; simp [getField] at h⟩
      (by
        intro kv hm
        obtain ⟨t, hmem, hget, hfit⟩ := hkv kv hm
        refine ⟨wfFields_get hwf hget, ?_⟩
        intro q hq
        have := findTy_of_nodup hnd hmem
        simp only at this
        rw [this] at hq; cases hq; exact hfit)
    refine ⟨by simp [structOfPairs, Val.fitsType], ?_⟩
    simp only [structOfPairs, Val.wf]
    refine ⟨⟨sd, hpsd, ?_⟩, hinv.1⟩
    intro q hq
    have hsome := hpres q.1 (Or.inr (by rw [hmap]; exact List.mem_map.mpr ⟨q, hq, rfl⟩))
    obtain ⟨w, hw⟩ := Option.isSome_iff_exists.mp hsome
    exact ⟨w, hw, hinv.2 q.1 w hw q (findTy_of_nodup hnd hq)⟩
  | cast a to =>
    inv_low hl
    simp only [Option.some.injEq, Prod.mk.injEq] at hl
    obtain ⟨rfl, rfl⟩ := hl
    rename_i rd hrd _ a' ln ha _ ld hld hchk
    simp only [fragE] at hf
    simp only [Bool.and_eq_true, beq_iff_eq] at hchk
    obtain ⟨hlen, hchk⟩ := hchk
    have iha := ih.e rt sc a a' _ env log hf ha hrt henv
    have hprd := hC.hS to rd hrd
    have hpld := hC.hS ln ld hld
    simp only [evalExpr]
    res_cases iha of evalExpr _ _ _ _ _
    rename_i v l
    obtain ⟨fs, rfl, ⟨d', hd', hall⟩, hwf⟩ := fit_struct iha
    rw [hpld] at hd'; cases hd'
    have hndl := hC.hSnd ln ld hpld
    have hndr := hC.hSnd to rd hprd
    -- every field of the target definition is a field of the source definition, same type
    have hcov : ∀ g ∈ rd, ∃ w, getField fs g.1 = some w ∧ w.fitsType g.2 = true := by
      intro g hg
      have hsub : ∀ x ∈ ld.map (·.1), x ∈ rd.map (·.1) := by
        intro x hx
        obtain ⟨f, hf', rfl⟩ := List.mem_map.mp hx
        have := List.all_eq_true.mp hchk f hf'
        obtain ⟨g', hg', hgf⟩ := List.any_eq_true.mp this
        simp only [Bool.and_eq_true, beq_iff_eq] at hgf
        exact List.mem_map.mpr ⟨g', hg', hgf.1⟩
      have hin := subset_of_nodup_length hndl hsub (by simp [hlen]) g.1 (List.mem_map.mpr ⟨g, hg, rfl⟩)
      obtain ⟨f, hf', hfg⟩ := List.mem_map.mp hin
      have := List.all_eq_true.mp hchk f hf'
      obtain ⟨g', hg', hgf⟩ := List.any_eq_true.mp this
      simp only [Bool.and_eq_true, beq_iff_eq] at hgf
      have hgg : g' = g := by
        have h1 := findTy_of_nodup hndr hg'
        have h2 := findTy_of_nodup hndr hg
        rw [hgf.1, hfg] at h1
        rw [h1] at h2; cases h2; rfl
      subst hgg
      obtain ⟨w, hw, hwfit⟩ := hall f hf'
      rw [hfg] at hw
      exact ⟨w, hw, by rw [← matchesT_eq hgf.2]; exact hwfit⟩
    have hcast : castOk fs rd = true := by
      simp only [castOk, List.all_eq_true]
      intro g hg
      obtain ⟨w, hw, hwfit⟩ := hcov g hg
      simp only [hw]; exact hwfit
    simp only [hprd, hcast, if_true]
    refine ⟨by simp [Val.fitsType], ?_⟩
    simp only [Val.wf]
    exact ⟨⟨rd, hprd, hcov⟩, hwf⟩

theorem snd_args {cx : LCtx} {p : Program} {n : Nat} (ih : Snd cx p n) :
    ∀ rt sc pts es es' env log, fragArgs es = true → pts.length = es.length →
    lowerArgs (cx.withRet rt) sc pts es = some es' → (∀ t ∈ pts, t.neverFree = true) → rt.neverFree = true →
    EnvOk p sc env → ROk (fun vs => ArgsFit p vs pts) (FitV p rt) (evalArgs p (n + 1) env log es') := by
  intro rt sc pts es es' env log hf hlen hl hnf hrt henv
  match es, pts, hlen, hl, hf, hnf with
  | [], [], _, hl, _, _ =>
    simp only [lowerArgs, Option.some.injEq] at hl; subst hl
    simp [evalArgs, ROk, ArgsFit]
  | e :: es, pt :: pts, hlen, hl, hf, hnf =>
    simp only [lowerArgs] at hl
    repeat' (split at hl)
    all_goals (try (cases hl; done))
    simp only [Option.map_eq_some_iff] at hl
    obtain ⟨r, hr, rfl⟩ := hl
    rename_i e1 t1 he hfit
    simp only [fragArgs, Bool.and_eq_true] at hf
    simp only [List.length_cons, Nat.add_right_cancel_iff] at hlen
    have ihe := ih.e rt sc e e1 t1 env log hf.1 he hrt henv
    simp only [evalArgs]
    res_cases ihe of evalExpr _ _ _ _ _
    rename_i v l
    have ihr := ih.args rt sc pts es r env l hf.2 hlen hr (fun t ht => hnf t (List.mem_cons_of_mem _ ht)) hrt henv
    res_cases ihr of evalArgs _ _ _ _ _
    simp only [ArgsFit]
    exact ⟨fit_of_fits hfit (hnf pt (List.mem_cons_self ..)) ihe, ihr⟩

theorem snd_ss {cx : LCtx} {p : Program} {n : Nat} (ih : Snd cx p n) :
    ∀ rt sc ss ss' sc' env log, fragSs ss = true → lowerStmts (cx.withRet rt) sc ss = some (ss', sc') → rt.neverFree = true →
    EnvOk p sc env → ROk (fun env' => EnvOk p sc' env') (FitV p rt) (evalStmts p (n + 1) env log ss') := by
  intro rt sc ss ss' sc' env log hf hl hrt henv
  cases ss with
  | nil =>
    simp only [lowerStmts, Option.some.injEq, Prod.mk.injEq] at hl
    obtain ⟨rfl, rfl⟩ := hl
    simpa [evalStmts, ROk] using henv
  | cons s ss =>
    simp only [lowerStmts] at hl
    split at hl
    · cases hl
    · rename_i s1 sc1 hs
      simp only [Option.map_eq_some_iff, Prod.mk.injEq] at hl
      obtain ⟨⟨o, r⟩, hr, rfl, rfl⟩ := hl
      simp only [fragSs, Bool.and_eq_true] at hf
      have ihs := ih.s rt sc s s1 sc1 env log hf.1 hs hrt henv
      simp only [evalStmts]
      res_cases ihs of evalStmt _ _ _ _ _
      rename_i env1 l
      exact ih.ss rt sc1 ss o r env1 l hf.2 hr hrt ihs

theorem snd_s {cx : LCtx} {p : Program} {n : Nat} (hC : Ctx cx p) (ih : Snd cx p n) :
    ∀ rt sc s s' sc' env log, fragS s = true → lowerStmt (cx.withRet rt) sc s = some (s', sc') → rt.neverFree = true →
    EnvOk p sc env → ROk (fun env' => EnvOk p sc' env') (FitV p rt) (evalStmt p (n + 1) env log s') := by
  intro rt sc s s' sc' env log hf hl hrt henv
  cases s with
  | let_ x e =>
    inv_low hl
    simp only [Option.map_eq_some_iff, Prod.mk.injEq] at hl
    obtain ⟨sc1, ha, rfl, rfl⟩ := hl
    rename_i e1 t1 he
    simp only [fragS] at hf
    have ihe := ih.e rt sc e e1 t1 env log hf he hrt henv
    simp only [evalStmt]
    res_cases ihe of evalExpr _ _ _ _ _
    rename_i v l
    obtain ⟨env1, hb, henv1⟩ := scopeAdd_bindVar (p := p) (cx := cx.withRet rt) (hC.hG.withRet rt) henv ha ihe
    simp only [hb]; exact henv1
  | check c els =>
    inv_low hl
    simp only [Option.some.injEq, Prod.mk.injEq] at hl
    obtain ⟨rfl, rfl⟩ := hl
    rename_i c1 ct e1 et hc he hcond
    simp only [Bool.and_eq_true, beq_iff_eq] at hcond
    obtain ⟨hfit, rfl⟩ := hcond
    simp only [fragS, Bool.and_eq_true] at hf
    have ihc := ih.e rt sc c c1 ct env log hf.1 hc hrt henv
    simp only [evalStmt]
    res_cases ihc of evalExpr _ _ _ _ _
    rename_i v l
    obtain ⟨b0, rfl⟩ := fit_bool (fit_of_fits hfit rfl ihc)
    cases b0
    · simp only []
      have ihe := ih.e rt sc els e1 .never env l hf.2 he hrt henv
      res_cases ihe of evalExpr _ _ _ _ _
      exact (fit_never ihe).elim
    · simp only []; exact henv
  | ret e =>
    inv_low hl
    simp only [Option.some.injEq, Prod.mk.injEq] at hl
    obtain ⟨rfl, rfl⟩ := hl
    rename_i e1 t1 he hfit
    simp only [fragS] at hf
    have ihe := ih.e rt sc e e1 t1 env log hf he hrt henv
    simp only [evalStmt]
    res_cases ihe of evalExpr _ _ _ _ _
    exact fit_of_fits hfit hrt ihe
  | dassert e =>
    inv_low hl
    simp only [Option.map_eq_some_iff, Prod.mk.injEq] at hl
    obtain ⟨u, hu, rfl, rfl⟩ := hl
    rename_i e1 t1 he
    simp only [fragS] at hf
    have ihe := ih.e rt sc e e1 t1 env log hf he hrt henv
    simp only [evalStmt]
    res_cases ihe of evalExpr _ _ _ _ _
    rename_i v l
    obtain ⟨b0, rfl⟩ := fit_bool (fit_checkType hu rfl ihe).1
    cases b0 <;> simp only []
    exact henv
  | ifS brs hasElse els =>
    simp only [fragS, Bool.and_eq_true] at hf
    simp only [lowerStmt] at hl
    split at hl
    · cases hl
    · rename_i bs' hb
      cases hasElse with
      | true =>
        simp only [if_true, Option.map_eq_some_iff, Prod.mk.injEq] at hl
        obtain ⟨⟨els', scE⟩, hE, rfl, rfl⟩ := hl
        simp only [evalStmt]
        exact ih.br rt sc brs bs' true els els' env log hf.1 hf.2 hb (fun _ => ⟨scE, hE⟩) hrt henv
      | false =>
        simp only [Bool.false_eq_true, if_false, Option.some.injEq, Prod.mk.injEq] at hl
        obtain ⟨rfl, rfl⟩ := hl
        simp only [evalStmt]
        exact ih.br rt sc brs bs' false els [] env log hf.1 hf.2 hb (fun h => by cases h) hrt henv
  | mtch scrut arms =>
    inv_low hl
    simp only [Option.some.injEq, Prod.mk.injEq] at hl
    obtain ⟨rfl, rfl⟩ := hl
    rename_i _ scan hscan _ _ scrut' st0 hscrut _ _ stF arms' harms hmiss
    simp only [fragS, Bool.and_eq_true] at hf
    obtain ⟨⟨hfs, hfa⟩, hend⟩ := hf
    rw [patsOfS_map] at hscan hmiss hend
    have ihs := ih.e rt sc scrut scrut' st0 env log hfs hscrut hrt henv
    simp only [evalStmt]
    res_cases ihs of evalExpr _ _ _ _ _
    rename_i v l
    have hpl := armsS_patsLow arms st0 stF arms' harms hfa
    have ihsel := ih.sel rt sc st0 _ _ _ env l v 0 hpl (total_of_frag (cx := cx.withRet rt) hC.hE hC.hEnd hC.hS hpl hend hscan hmiss ihs) hrt henv
    res_cases ihsel of selectArm _ _ _ _ _ _ _
    rename_i j l'
    obtain ⟨i, pat', rfl, hi, hbind⟩ := ihsel
    simp only [Nat.zero_add]
    rw [List.getElem?_map] at hi
    cases harm : arms'[i]? with
    | none => rw [harm] at hi; cases hi
    | some arm =>
      obtain ⟨pat1, body'⟩ := arm
      rw [harm] at hi
      simp only [Option.map_some, Option.some.injEq] at hi; subst hi
      obtain ⟨pat, body, sti, sti', bs, sc', scB, hpat, hfp, hfb, hmono, hsc, hbody⟩ :=
        armsS_get (p := p) arms st0 stF arms' i pat1 body' harms hfa harm
      obtain ⟨env', hba, henv'⟩ := bindArm_ok (p := p) (hC.hG.withRet rt) hpat hfp hsc (hmono v ihs) hbind henv
      simp only [hba]
      obtain ⟨b1, rfl⟩ := scopeAdd_fold_tail bs hsc
      obtain ⟨b2, rfl⟩ := lowerStmts_tail body hbody
      have ihb := ih.ss rt _ body body' _ env' l' hfb hbody hrt henv'
      res_cases ihb of evalStmts _ _ _ _ _
      rename_i env2 l2
      cases env2 with
      | nil => simp [EnvOk] at ihb
      | cons eb rest => simp only [EnvOk] at ihb; exact ihb.2

theorem snd_scp {cx : LCtx} {p : Program} {n : Nat} (ih : Snd cx p n) :
    ∀ rt sc ss ss' sc' env log, fragSs ss = true → lowerStmts (cx.withRet rt) ([] :: sc) ss = some (ss', sc') → rt.neverFree = true →
    EnvOk p sc env → ROk (fun env' => EnvOk p sc env') (FitV p rt) (evalScoped p (n + 1) env log ss') := by
  intro rt sc ss ss' sc' env log hf hl hrt henv
  obtain ⟨b', rfl⟩ := lowerStmts_tail ss hl
  have ihs := ih.ss rt ([] :: sc) ss ss' _ ([] :: env) log hf hl hrt (by simp only [EnvOk, BlockOk]; exact ⟨trivial, henv⟩)
  simp only [evalScoped]
  res_cases ihs of evalStmts _ _ _ _ _
  rename_i env1 l
  cases env1 with
  | nil => simp [EnvOk] at ihs
  | cons eb rest => simp only [EnvOk] at ihs; exact ihs.2

theorem snd_br {cx : LCtx} {p : Program} {n : Nat} (ih : Snd cx p n) :
    ∀ rt sc brs brs' (hasElse : Bool) els els' env log, fragBrs brs = true → fragSs els = true →
    lowerBranches (cx.withRet rt) sc brs = some brs' →
    (hasElse = true → ∃ scE, lowerStmts (cx.withRet rt) ([] :: sc) els = some (els', scE)) → rt.neverFree = true →
    EnvOk p sc env → ROk (fun env' => EnvOk p sc env') (FitV p rt) (evalBranches p (n + 1) env log brs' hasElse els') := by
  intro rt sc brs brs' hasElse els els' env log hfb hfe hl hE hrt henv
  cases brs with
  | nil =>
    simp only [lowerBranches, Option.some.injEq] at hl; subst hl
    simp only [evalBranches]
    cases hasElse with
    | true =>
      obtain ⟨scE, hE'⟩ := hE rfl
      simp only [if_true]
      exact ih.scp rt sc els els' scE env log hfe hE' hrt henv
    | false => simpa [ROk] using henv
  | cons br rest =>
    obtain ⟨c, ss⟩ := br
    simp only [lowerBranches] at hl
    repeat' (split at hl)
    all_goals (try (cases hl; done))
    simp only [Option.map_eq_some_iff] at hl
    obtain ⟨r, hr, rfl⟩ := hl
    rename_i c1 ct hc hfit _ ss1 scS hs
    simp only [fragBrs, Bool.and_eq_true] at hfb
    have ihc := ih.e rt sc c c1 ct env log hfb.1.1 hc hrt henv
    simp only [evalBranches]
    res_cases ihc of evalExpr _ _ _ _ _
    rename_i v l
    obtain ⟨b0, rfl⟩ := fit_bool (fit_of_fits hfit rfl ihc)
    cases b0
    · simp only []
      exact ih.br rt sc rest r hasElse els els' env l hfb.2 hfe hr hE hrt henv
    · simp only []
      exact ih.scp rt sc ss ss1 scS env l hfb.1.2 hs hrt henv

theorem snd_call {cx : LCtx} {p : Program} {n : Nat} (hC : Ctx cx p) (ih : Snd cx p n) :
    ∀ f fd vs log, p.funDef f = some fd → FunOk cx fd → ArgsFit p vs (fd.params.map (·.2)) →
    ROk (FitV p fd.ret) (fun _ => False) (evalCall p (n + 1) f vs log) := by
  intro f fd vs log hfd hok hfit
  obtain ⟨hnr, hnp, sc0, body0, sc1, hsc0, hbody, hfrag⟩ := hok
  have hlen := argsFit_length hfit
  simp only [List.length_map] at hlen
  have hrev : ((fd.params.map (·.1)).zip vs).reverse = ((fd.params.reverse).map (·.1)).zip vs.reverse := by
    rw [List.zip_eq_zipWith, List.reverse_zipWith (by simp [hlen]), List.map_reverse, ← List.zip_eq_zipWith]
  obtain ⟨env0, hbp, henv0⟩ := bind_params (p := p) hC.hG fd.params.reverse vs.reverse [[]] [[]] sc0
    (by simp [EnvOk, BlockOk]) hsc0 (by rw [List.map_reverse]; exact argsFit_reverse hfit)
  simp only [evalCall, hfd, ne_eq, hlen.symm, not_true_eq_false, if_false, hrev, hbp]
  have ihs := ih.ss fd.ret sc0 body0 fd.body sc1 env0 log hfrag hbody hnr henv0
  res_cases ihs of evalStmts _ _ _ _ _

theorem snd_flds {cx : LCtx} {p : Program} {n : Nat} (ih : Snd cx p n) :
    ∀ rt sc d fs fs' env log name afs, fragFields fs = true → lowerFields (cx.withRet rt) sc d fs = some fs' →
    (∀ q ∈ d, q.2.neverFree = true) → rt.neverFree = true → EnvOk p sc env → FldInv p d afs →
    ROk (fun v => ∃ fsF, v = .struct name fsF ∧ FldInv p d fsF ∧
        ∀ k, ((getField afs k).isSome = true ∨ k ∈ fs'.map (·.1)) → (getField fsF k).isSome = true) (FitV p rt)
      (evalFields p (n + 1) env log d fs' (.struct name afs)) := by
  intro rt sc d fs fs' env log name afs hf hl hnf hrt henv hinv
  cases fs with
  | nil =>
    simp only [lowerFields, Option.some.injEq] at hl; subst hl
    simp only [evalFields, ROk]
    exact ⟨afs, rfl, hinv, by intro k hk; simpa using hk⟩
  | cons fe rest =>
    obtain ⟨k, e⟩ := fe
    simp only [lowerFields] at hl
    repeat' (split at hl)
    all_goals (try (cases hl; done))
    simp only [Option.map_eq_some_iff] at hl
    obtain ⟨r, hr, rfl⟩ := hl
    rename_i k' ft hfind _ e1 t1 he hfit
    simp only [fragFields, Bool.and_eq_true] at hf
    have ihe := ih.e rt sc e e1 t1 env log hf.1 he hrt henv
    simp only [evalFields]
    res_cases ihe of evalExpr _ _ _ _ _
    rename_i v l
    have hany : d.any (·.1 == k) = true := by
      rw [List.any_eq_true]; exact ⟨_, List.mem_of_find?_eq_some hfind, by have := List.find?_some hfind; simpa using this⟩
    simp only [hany, if_true]
    have hvfit : v.fitsType ft = true :=
      fitsType_of_fits hfit (hnf _ (List.mem_of_find?_eq_some hfind)) ihe.1
    have hinv' : FldInv p d (setField afs k v) := by
      refine ⟨wfFields_set hinv.1 ihe.2, ?_⟩
      intro k2 w hw q hq
      by_cases hk : k2 = k
      · subst hk
        rw [getField_setField_same] at hw
        simp only [Option.some.injEq] at hw; subst hw
        rw [hfind] at hq; cases hq; exact hvfit
      · rw [getField_setField_other _ _ _ _ hk] at hw
        exact hinv.2 k2 w hw q hq
    have ihr := ih.flds rt sc d rest r env l name (setField afs k v) hf.2 hr hnf hrt henv hinv'
    refine ihr.mono ?_ (fun _ h => h)
    rintro x ⟨fsF, rfl, hF, hpres⟩
    refine ⟨fsF, rfl, hF, ?_⟩
    intro k2 hk2
    apply hpres
    by_cases hk : k2 = k
    · subst hk; left; rw [getField_setField_same]; rfl
    · rcases hk2 with h | h
      · left; rw [getField_setField_other _ _ _ _ hk]; exact h
      · right
        simp only [List.map_cons, List.mem_cons] at h
        rcases h with h | h
        · exact absurd h hk
        · exact h

theorem snd_succ {cx : LCtx} {p : Program} {n : Nat} (hC : Ctx cx p) (ih : Snd cx p n) : Snd cx p (n + 1) :=
  ⟨snd_e hC ih, snd_args ih, snd_ss ih, snd_s hC ih, snd_scp ih, snd_br ih, snd_flds ih, snd_mv ih, snd_sel ih, snd_call hC ih⟩

theorem snd_all {cx : LCtx} {p : Program} (hC : Ctx cx p) : ∀ n, Snd cx p n
  | 0 => snd_zero cx p
  | n + 1 => snd_succ hC (snd_all hC n)

end AranyaV.Lang
