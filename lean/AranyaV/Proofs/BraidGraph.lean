import AranyaV.Spec.Braid
/-!
# Proofs.BraidGraph — well-formed graphs and the ancestry relation

`WF g` (ids distinct, parents strictly earlier in the listing, at most two distinct parents),
the parent relation `Par`, its reflexive-transitive closure `Reach`, and the lemmas that connect
the executable definitions of `Spec.Graph` (`Graph.find?`, `children`, `ancSelfAll`, `anc`) with
these relations.  Everything downstream (`Proofs.BraidInv`, `Props.C02/C03/C05`) uses only the
relational interface proved here.
-/
namespace AranyaV.Spec
open AranyaV.Gen

def ids (g : Graph) : List Nat := g.map (·.id)

/-- well-formed graph, built by appending one command at a time (parents-first listing) -/
inductive WF : Graph → Prop
  | nil : WF []
  | snoc {g : Graph} {c : Cmd} : WF g → c.id ∉ ids g → (∀ p ∈ c.parents, p ∈ ids g) →
      c.parents.length ≤ 2 → c.parents.Nodup → WF (g ++ [c])

/-- executable well-formedness check (used for the non-vacuity examples) -/
def wfFrom (seen : List Nat) : Graph → Bool
  | [] => true
  | c :: rest =>
    !seen.contains c.id && c.parents.all (seen.contains ·) && decide (c.parents.length ≤ 2)
      && decide c.parents.Nodup && wfFrom (seen ++ [c.id]) rest

theorem wfFrom_sound (pre post : Graph) (h : WF pre) (hb : wfFrom (ids pre) post = true) :
    WF (pre ++ post) := by
  induction post generalizing pre with
  | nil => simpa using h
  | cons c rest ih =>
    simp only [wfFrom, Bool.and_eq_true, Bool.not_eq_true', decide_eq_true_eq, List.all_eq_true] at hb
    obtain ⟨⟨⟨⟨h1, h2⟩, h3⟩, h4⟩, h5⟩ := hb
    have hw : WF (pre ++ [c]) := by
      refine WF.snoc h ?_ ?_ h3 h4
      · intro hm; simp_all
      · intro p hp
        have := h2 p hp
        simpa using this
    have := ih (pre ++ [c]) hw (by simpa [ids] using h5)
    simpa using this

def wfB (g : Graph) : Bool := wfFrom [] g

theorem wfB_sound {g : Graph} (h : wfB g = true) : WF g := by
  have := wfFrom_sound [] g WF.nil (by simpa [wfB, ids] using h)
  simpa using this

/-- `p` is a parent of `c` in `g` -/
def Par (g : Graph) (p c : Nat) : Prop := ∃ d ∈ g, d.id = c ∧ p ∈ d.parents

/-- ancestor-or-self: reflexive-transitive closure of `Par` -/
inductive Reach (g : Graph) : Nat → Nat → Prop
  | refl (a : Nat) : Reach g a a
  | tail {a m b : Nat} : Reach g a m → Par g m b → Reach g a b

theorem Reach.trans {g : Graph} {a b c : Nat} (h1 : Reach g a b) (h2 : Reach g b c) : Reach g a c := by
  induction h2 with
  | refl => exact h1
  | tail _ hp ih => exact Reach.tail ih hp

theorem Reach.single {g : Graph} {a b : Nat} (h : Par g a b) : Reach g a b :=
  Reach.tail (Reach.refl a) h

theorem Reach.head {g : Graph} {a m b : Nat} (h : Par g a m) (h2 : Reach g m b) : Reach g a b :=
  (Reach.single h).trans h2

/-- head-form case analysis -/
theorem Reach.cases_head {g : Graph} {a b : Nat} (h : Reach g a b) :
    a = b ∨ ∃ m, Par g a m ∧ Reach g m b := by
  induction h with
  | refl => exact Or.inl rfl
  | tail h1 hp ih =>
    rcases ih with rfl | ⟨m, hm, hr⟩
    · exact Or.inr ⟨_, hp, Reach.refl _⟩
    · exact Or.inr ⟨m, hm, Reach.tail hr hp⟩

theorem Par.mono {g : Graph} {c : Cmd} {a b : Nat} (h : Par g a b) : Par (g ++ [c]) a b := by
  obtain ⟨d, hd, h1, h2⟩ := h
  exact ⟨d, by simp [hd], h1, h2⟩

theorem Reach.mono {g : Graph} {c : Cmd} {a b : Nat} (h : Reach g a b) : Reach (g ++ [c]) a b := by
  induction h with
  | refl => exact Reach.refl _
  | tail _ hp ih => exact Reach.tail ih hp.mono

theorem mem_ids {g : Graph} {i : Nat} : i ∈ ids g ↔ ∃ c ∈ g, c.id = i := by
  simp [ids]

/-! ## consequences of `WF` -/

theorem WF.nodup {g : Graph} (h : WF g) : (ids g).Nodup := by
  induction h with
  | nil => simp [ids]
  | snoc _ h1 _ _ _ ih =>
    simp only [ids, List.map_append, List.map_cons, List.map_nil] at *
    rw [List.nodup_append]
    refine ⟨ih, by simp, ?_⟩
    intro a ha b hb
    simp at hb
    subst hb
    intro hab; subst hab; exact h1 ha

theorem WF.parents_mem {g : Graph} (h : WF g) {c : Cmd} (hc : c ∈ g) {p : Nat} (hp : p ∈ c.parents) :
    p ∈ ids g := by
  induction h with
  | nil => simp at hc
  | snoc _ _ h2 _ _ ih =>
    simp only [List.mem_append, List.mem_singleton] at hc
    simp only [ids, List.map_append, List.mem_append]
    rcases hc with hc | rfl
    · exact Or.inl (ih hc)
    · exact Or.inl (h2 p hp)

theorem WF.arity {g : Graph} (h : WF g) {c : Cmd} (hc : c ∈ g) : c.parents.length ≤ 2 := by
  induction h with
  | nil => simp at hc
  | snoc _ _ _ h3 _ ih =>
    simp only [List.mem_append, List.mem_singleton] at hc
    rcases hc with hc | rfl
    · exact ih hc
    · exact h3

theorem WF.parents_nodup {g : Graph} (h : WF g) {c : Cmd} (hc : c ∈ g) : c.parents.Nodup := by
  induction h with
  | nil => simp at hc
  | snoc _ _ _ _ h4 ih =>
    simp only [List.mem_append, List.mem_singleton] at hc
    rcases hc with hc | rfl
    · exact ih hc
    · exact h4

/-- commands are determined by their id -/
theorem WF.id_inj {g : Graph} (h : WF g) {c d : Cmd} (hc : c ∈ g) (hd : d ∈ g) (e : c.id = d.id) :
    c = d := by
  induction h with
  | nil => simp at hc
  | snoc _ h1 _ _ _ ih =>
    simp only [List.mem_append, List.mem_singleton] at hc hd
    rcases hc with hc | rfl <;> rcases hd with hd | rfl
    · exact ih hc hd
    · exact absurd (mem_ids.mpr ⟨c, hc, e⟩) h1
    · exact absurd (mem_ids.mpr ⟨d, hd, e.symm⟩) h1
    · rfl

theorem find?_eq_some {g : Graph} (h : WF g) {i : Nat} {c : Cmd} :
    g.find? i = some c ↔ c ∈ g ∧ c.id = i := by
  constructor
  · intro hf
    have h1 := List.mem_of_find?_eq_some hf
    have h2 := List.find?_some hf
    exact ⟨h1, by simpa using h2⟩
  · rintro ⟨hc, rfl⟩
    cases hf : g.find? c.id with
    | none =>
      have := List.find?_eq_none.mp hf c hc
      simp at this
    | some d =>
      have h1 := List.mem_of_find?_eq_some hf
      have h2 : d.id = c.id := by simpa using List.find?_some hf
      rw [h.id_inj h1 hc h2]

theorem find?_isSome {g : Graph} {i : Nat} (hi : i ∈ ids g) : ∃ c, g.find? i = some c := by
  obtain ⟨c, hc, rfl⟩ := mem_ids.mp hi
  cases hf : g.find? c.id with
  | none =>
    have := List.find?_eq_none.mp hf c hc
    simp at this
  | some d => exact ⟨d, rfl⟩

theorem find?_mem_ids {g : Graph} {i : Nat} {c : Cmd} (h : g.find? i = some c) : i ∈ ids g ∧ c.id = i := by
  have h1 := List.mem_of_find?_eq_some h
  have h2 : c.id = i := by simpa using List.find?_some h
  exact ⟨mem_ids.mpr ⟨c, h1, h2⟩, h2⟩

theorem mem_children {g : Graph} {i y : Nat} : y ∈ children g i ↔ Par g i y := by
  simp only [children, List.mem_map, List.mem_filter, Par]
  constructor
  · rintro ⟨d, ⟨hd, hp⟩, rfl⟩
    exact ⟨d, hd, rfl, by simpa using hp⟩
  · rintro ⟨d, hd, rfl, hp⟩
    exact ⟨d, ⟨hd, by simpa using hp⟩, rfl⟩

theorem Par.mem_ids {g : Graph} (h : WF g) {a b : Nat} (hp : Par g a b) : a ∈ ids g ∧ b ∈ ids g := by
  obtain ⟨d, hd, rfl, h2⟩ := hp
  exact ⟨h.parents_mem hd h2, Spec.mem_ids.mpr ⟨d, hd, rfl⟩⟩

theorem WF.snoc_inv {g : Graph} {c : Cmd} (h : WF (g ++ [c])) :
    WF g ∧ c.id ∉ ids g ∧ (∀ p ∈ c.parents, p ∈ ids g) := by
  generalize hg : g ++ [c] = g' at h
  cases h with
  | nil => simp at hg
  | @snoc g'' c' hw h1 h2 _ _ =>
    have := List.append_inj' hg (by simp)
    obtain ⟨rfl, hcc⟩ := this
    simp at hcc; subst hcc
    exact ⟨hw, h1, h2⟩

/-- in `g ++ [c]` nothing has `c` as a parent -/
theorem WF.last_no_child {g : Graph} {c : Cmd} (h : WF (g ++ [c])) (x : Nat) : ¬ Par (g ++ [c]) c.id x := by
  rintro ⟨d, hd, rfl, hp⟩
  obtain ⟨hw, h1, h2⟩ := h.snoc_inv
  simp only [List.mem_append, List.mem_singleton] at hd
  rcases hd with hd | rfl
  · exact h1 (hw.parents_mem hd hp)
  · exact h1 (h2 _ hp)

theorem Par.snoc_cases {g : Graph} {c : Cmd} (h : WF (g ++ [c])) {a b : Nat} (hp : Par (g ++ [c]) a b) :
    (b ≠ c.id ∧ Par g a b) ∨ (b = c.id ∧ a ∈ c.parents) := by
  obtain ⟨hw, h1, _⟩ := h.snoc_inv
  obtain ⟨d, hd, rfl, hp⟩ := hp
  simp only [List.mem_append, List.mem_singleton] at hd
  rcases hd with hd | rfl
  · left
    refine ⟨?_, d, hd, rfl, hp⟩
    intro e; exact h1 (Spec.mem_ids.mpr ⟨d, hd, e⟩)
  · right; exact ⟨rfl, hp⟩

theorem Reach.snoc_ne {g : Graph} {c : Cmd} (h : WF (g ++ [c])) {x b : Nat}
    (hr : Reach (g ++ [c]) x b) (hb : b ≠ c.id) : Reach g x b := by
  obtain ⟨_, h1, h2⟩ := h.snoc_inv
  induction hr with
  | refl => exact Reach.refl _
  | @tail m b hr hp ih =>
    rcases hp.snoc_cases h with ⟨_, hp'⟩ | ⟨e, _⟩
    · have hm : m ≠ c.id := by
        intro e
        obtain ⟨d, hd, _, hpp⟩ := hp'
        have := (h.snoc_inv.1).parents_mem hd hpp
        rw [e] at this; exact h1 this
      exact Reach.tail (ih hm) hp'
    · exact absurd e hb

theorem Reach.snoc_eq {g : Graph} {c : Cmd} (h : WF (g ++ [c])) {x : Nat}
    (hr : Reach (g ++ [c]) x c.id) : x = c.id ∨ ∃ p ∈ c.parents, Reach g x p := by
  obtain ⟨_, h1, h2⟩ := h.snoc_inv
  cases hr with
  | refl => exact Or.inl rfl
  | tail hr hp =>
    right
    rcases hp.snoc_cases h with ⟨e, _⟩ | ⟨_, hm⟩
    · exact absurd rfl e
    · refine ⟨_, hm, hr.snoc_ne h ?_⟩
      intro e; rw [e] at hm; exact h1 (h2 _ hm)

/-! ## `ancSelfAll` is the `Reach`-closure -/

theorem ancSelfAll_snoc (g : Graph) (c : Cmd) (hs : List Nat) :
    ancSelfAll (g ++ [c]) hs =
      ancSelfAll g (if hs.contains c.id then hs ++ c.parents.filter (!hs.contains ·) else hs) := by
  simp [ancSelfAll, List.reverse_append]

theorem mem_ancSelfAll {g : Graph} (h : WF g) (hs : List Nat) (x : Nat) :
    x ∈ ancSelfAll g hs ↔ ∃ b ∈ hs, Reach g x b := by
  induction h generalizing hs with
  | nil =>
    simp only [ancSelfAll, List.reverse_nil, List.foldl_nil]
    constructor
    · intro hx; exact ⟨x, hx, Reach.refl _⟩
    · rintro ⟨b, hb, hr⟩
      cases hr with
      | refl => exact hb
      | tail _ hp => obtain ⟨d, hd, _⟩ := hp; simp at hd
  | @snoc g c hw h1 h2 h3 h4 ih =>
    have hwf : WF (g ++ [c]) := WF.snoc hw h1 h2 h3 h4
    rw [ancSelfAll_snoc, ih]
    by_cases hc : hs.contains c.id = true
    · have hc' : c.id ∈ hs := by simpa using hc
      simp only [hc, if_true]
      constructor
      · rintro ⟨b, hb, hr⟩
        simp only [List.mem_append, List.mem_filter] at hb
        rcases hb with hb | ⟨hb, _⟩
        · exact ⟨b, hb, hr.mono⟩
        · exact ⟨c.id, hc', Reach.tail hr.mono ⟨c, by simp, rfl, hb⟩⟩
      · rintro ⟨b, hb, hr⟩
        by_cases e : b = c.id
        · subst e
          rcases hr.snoc_eq hwf with rfl | ⟨p, hp, hr'⟩
          · exact ⟨c.id, by simp [hc'], Reach.refl _⟩
          · by_cases hps : p ∈ hs
            · exact ⟨p, by simp [hps], hr'⟩
            · exact ⟨p, by simp [hp, hps], hr'⟩
        · exact ⟨b, by simp [hb], hr.snoc_ne hwf e⟩
    · have hc' : c.id ∉ hs := by simpa using hc
      simp only [hc]
      constructor
      · rintro ⟨b, hb, hr⟩; exact ⟨b, hb, hr.mono⟩
      · rintro ⟨b, hb, hr⟩
        refine ⟨b, hb, hr.snoc_ne hwf ?_⟩
        intro e; subst e; exact hc' hb

theorem anc_iff {g : Graph} (h : WF g) (a b : Nat) : anc g a b = true ↔ a ≠ b ∧ Reach g a b := by
  simp only [anc, Bool.and_eq_true, bne_iff_ne, ne_eq, List.contains_eq_mem, decide_eq_true_eq]
  rw [mem_ancSelfAll h]
  simp

/-! ## acyclicity: position in the listing -/

theorem Reach.mem_ids {g : Graph} (h : WF g) {a b : Nat} (hr : Reach g a b) (hb : b ∈ ids g) : a ∈ ids g := by
  induction hr with
  | refl => exact hb
  | tail _ hp ih => exact ih (hp.mem_ids h).1

/-- a command is not its own proper ancestor, and ancestry is antisymmetric -/
theorem Reach.antisymm {g : Graph} (h : WF g) {a b : Nat} (h1 : Reach g a b) (h2 : Reach g b a) : a = b := by
  induction h generalizing a b with
  | nil =>
    cases h1 with
    | refl => rfl
    | tail _ hp => obtain ⟨d, hd, _⟩ := hp; simp at hd
  | @snoc g c hw hh1 hh2 hh3 hh4 ih =>
    have hwf : WF (g ++ [c]) := WF.snoc hw hh1 hh2 hh3 hh4
    by_cases ea : a = c.id
    · subst ea
      -- c.id reaches b only if b = c.id
      rcases h1.cases_head with e | ⟨m, hm, _⟩
      · exact e
      · exact absurd hm (hwf.last_no_child m)
    · by_cases eb : b = c.id
      · subst eb
        rcases h2.cases_head with e | ⟨m, hm, _⟩
        · exact e.symm
        · exact absurd hm (hwf.last_no_child m)
      · exact ih (h1.snoc_ne hwf eb) (h2.snoc_ne hwf ea)

theorem Par.irrefl {g : Graph} (h : WF g) {a : Nat} : ¬ Par g a a := by
  induction h with
  | nil => rintro ⟨d, hd, _⟩; simp at hd
  | @snoc g c hw hh1 hh2 hh3 hh4 ih =>
    have hwf : WF (g ++ [c]) := WF.snoc hw hh1 hh2 hh3 hh4
    intro hp
    rcases hp.snoc_cases hwf with ⟨_, hp'⟩ | ⟨e, hm⟩
    · exact ih hp'
    · subst e; exact hh1 (hh2 _ hm)

theorem Par.ne {g : Graph} (h : WF g) {a b : Nat} (hp : Par g a b) : a ≠ b := by
  intro e; subst e; exact Par.irrefl h hp

/-- no cycle through a parent edge -/
theorem Par.not_reach_back {g : Graph} (h : WF g) {a b : Nat} (hp : Par g a b) : ¬ Reach g b a := by
  intro hr
  exact hp.ne h (Reach.antisymm h (Reach.single hp) hr)

end AranyaV.Spec
