import AranyaV.Proofs.Base58
/-! C46: the chunked algorithms of `spideroak-base58` equal the digit-wise definitions. -/
namespace AranyaV.Base58
open AranyaV.Gen.Base58

/-! ## `String32::encode`, mechanism = specification -/

theorem emitN_spec (n r i : Nat) (data : List UInt8) (hn : n ≤ i) (hi : i ≤ data.length) :
    emitN n r i data =
      some (i - n, data.take (i - n) ++ (toDigits 58 n r).map digitChar ++ data.drop i) := by
  induction n generalizing r i data with
  | zero => simp [emitN, toDigits]
  | succ n ih =>
    have hi0 : i ≠ 0 := by omega
    simp only [emitN, hi0, if_false]
    rw [ih _ _ _ (by omega) (by simp; omega)]
    have e1 : (data.set (i - 1) (digitChar (r % 58))).take (i - 1 - n) = data.take (i - (n + 1)) := by
      rw [List.take_set_of_le (by omega)]; congr 1; omega
    have e2 : (data.set (i - 1) (digitChar (r % 58))).drop (i - 1)
        = digitChar (r % 58) :: data.drop i := by
      rw [drop_set_self _ _ _ (by omega)]; congr 2; omega
    rw [e1, e2]
    simp only [toDigits, List.map_append, List.map_cons, List.map_nil, List.append_assoc,
      List.cons_append, List.nil_append]
    congr 2; omega

theorem emitWhile_spec (r i : Nat) (data : List UInt8) (hr : r < 58 ^ i) (hi : i ≤ data.length)
    (hones : data.take i = List.replicate i (digitChar 0)) :
    (emitWhile r i data).map (·.2) = some ((toDigits 58 i r).map digitChar ++ data.drop i) := by
  induction r using Nat.strongRecOn generalizing i data with
  | ind r ih =>
    rw [emitWhile]
    by_cases h0 : r = 0
    · subst h0
      simp only [dif_pos, Option.map_some, toDigits_zero, List.map_replicate]
      rw [← hones, List.take_append_drop]
    · simp only [h0, dif_neg, not_false_eq_true]
      have hi0 : i ≠ 0 := by
        intro h; subst h; simp at hr; exact h0 hr
      simp only [hi0, if_false]
      obtain ⟨j, rfl⟩ : ∃ j, i = j + 1 := ⟨i - 1, by omega⟩
      simp only [Nat.add_sub_cancel]
      rw [ih (r / 58) (Nat.div_lt_self (Nat.pos_of_ne_zero h0) (by decide)) j _ ?_ ?_ ?_]
      · rw [drop_set_self _ _ _ (by omega)]
        simp [toDigits]
      · rw [Nat.pow_succ] at hr
        exact Nat.div_lt_of_lt_mul (by rw [Nat.mul_comm]; exact hr)
      · simp; omega
      · rw [List.take_set_of_le (Nat.le_refl _)]
        have := congrArg (List.take j) hones
        rw [List.take_take, Nat.min_eq_left (Nat.le_succ j)] at this
        rw [this, List.take_replicate, Nat.min_eq_left (Nat.le_succ j)]

theorem encLoop_spec (x i : Nat) (data : List UInt8) (hx : x < 58 ^ i) (hi : i ≤ data.length)
    (hones : data.take i = List.replicate i (digitChar 0)) :
    encLoop x i data = some ((toDigits 58 i x).map digitChar ++ data.drop i) := by
  have ⟨hradix, _⟩ := consts
  induction x using Nat.strongRecOn generalizing i data with
  | ind x ih =>
    rw [encLoop]
    by_cases h0 : x = 0
    · subst h0
      simp only [dif_pos, toDigits_zero, List.map_replicate]
      rw [← hones, List.take_append_drop]
    · simp only [h0, dif_neg, not_false_eq_true]
      by_cases hq : x / radix = 0
      · simp only [hq, if_true]
        have hlt : x < radix := by
          rcases Nat.div_eq_zero_iff.mp hq with h | h
          · rw [hradix] at h; exact absurd h (by decide +kernel)
          · exact h
        rw [Nat.mod_eq_of_lt hlt]
        exact emitWhile_spec x i data hx hi hones
      · simp only [hq, if_false]
        have hge : radix ≤ x := by
          apply Nat.le_of_not_lt; intro hlt; exact hq (Nat.div_eq_of_lt hlt)
        have hgi : group < i := by
          apply Nat.lt_of_not_le; intro hle
          have : 58 ^ i ≤ 58 ^ group := Nat.pow_le_pow_right (by decide) hle
          rw [← hradix] at this; omega
        rw [emitN_spec group (x % radix) i data (Nat.le_of_lt hgi) hi]
        simp only
        have hpos : 0 < radix := by decide +kernel
        have hlen : (data.take (i - group)).length = i - group := by
          rw [List.length_take]; omega
        rw [ih (x / radix) (Nat.div_lt_self (Nat.pos_of_ne_zero h0) (by rw [hradix]; decide +kernel))
          (i - group) _ ?_ ?_ ?_]
        · rw [List.append_assoc, drop_app_len _ _ _ hlen]
          have : toDigits 58 group (x % radix) = toDigits 58 group x := by
            rw [hradix]; exact toDigits_mod 58 (by decide) group x
          have e : i - group + group = i := by omega
          rw [this, ← List.append_assoc, ← List.map_append, hradix, ← toDigits_add, e]
        · have : x < 58 ^ (i - group) * radix := by
            rw [hradix, ← Nat.pow_add]
            have : i - group + group = i := by omega
            rw [this]; exact hx
          exact Nat.div_lt_of_lt_mul (by rw [Nat.mul_comm]; exact this)
        · simp only [List.length_append, hlen]; omega
        · rw [List.append_assoc, take_app_len _ _ _ hlen]
          have := congrArg (List.take (i - group)) hones
          rw [List.take_take, Nat.min_eq_left (Nat.sub_le _ _)] at this
          rw [this, List.take_replicate, Nat.min_eq_left (Nat.sub_le _ _)]

/-- **chunked encoding = digit-wise definition** (and the `expect`s never fire) -/
theorem encodeM_eq (b : List UInt8) (hb : b.length = idLen) : encodeM b = some (encode b) := by
  have ⟨_, _, _, _, _, _, h256, h2⟩ := consts
  unfold encodeM encode
  rw [encLoop_spec _ _ _ ?_ (by simp) (by simp)]
  · simp
  · have := beNat_lt b
    rw [hb, ← h2] at this
    omega

/-! ## `String32::decode`, mechanism = specification -/

theorem allValid_cons (c : UInt8) (cs : List UInt8) :
    allValid (c :: cs) = (digitVal c != 255 && allValid cs) := by simp [allValid]

theorem allValid_append (a b : List UInt8) : allValid (a ++ b) = (allValid a && allValid b) := by
  simp [allValid]

theorem value_cons (c : UInt8) (cs : List UInt8) :
    value (c :: cs) = digitVal c * 58 ^ cs.length + value cs := by
  simp [value, ofDigits_cons]

theorem value_append (a b : List UInt8) : value (a ++ b) = value a * 58 ^ b.length + value b := by
  simp [value, ofDigits_append]

theorem value_lt (s : List UInt8) (h : allValid s = true) : value s < 58 ^ s.length := by
  have := ofDigits_lt 58 (s.map digitVal) (by
    intro d hd
    simp only [List.mem_map] at hd
    obtain ⟨c, hc, rfl⟩ := hd
    have : digitVal c ≠ 255 := by
      have := List.all_eq_true.mp h c hc
      simpa using this
    exact (digitChar_digitVal c this).1)
  simpa [value] using this

/-- the `u64` fold over one chunk never wraps (so never reports a `Bug`) and computes the
chunk's value -/
theorem chunkFold_spec (acc k : Nat) (cs : List UInt8) (hacc : acc < 58 ^ k)
    (hk : k + cs.length ≤ 10) :
    chunkFold acc cs =
      if allValid cs then .ok (acc * 58 ^ cs.length + value cs) else .error .badInput := by
  induction cs generalizing acc k with
  | nil => simp [chunkFold, allValid, value]
  | cons c cs ih =>
    simp only [chunkFold, allValid_cons]
    by_cases hv : digitVal c = 255
    · simp [hv]
    · have hlt := (digitChar_digitVal c hv).1
      simp only [hv, if_false]
      simp only [List.length_cons] at hk
      have h1 : acc * 58 + digitVal c < 58 ^ (k + 1) := by
        rw [Nat.pow_succ]
        calc acc * 58 + digitVal c < acc * 58 + 58 := by omega
          _ = (acc + 1) * 58 := by rw [Nat.add_mul, Nat.one_mul]
          _ ≤ 58 ^ k * 58 := Nat.mul_le_mul_right 58 hacc
      have h2 : 58 ^ (k + 1) ≤ 58 ^ 10 := Nat.pow_le_pow_right (by decide) (by omega)
      have h3 : (58 : Nat) ^ 10 ≤ u64Max := consts.2.2.2.2.2.1
      have n1 : ¬ (acc * 58 > u64Max) := by omega
      have n2 : ¬ (acc * 58 + digitVal c > u64Max) := by omega
      simp only [n1, n2, if_false]
      rw [ih (acc * 58 + digitVal c) (k + 1) h1 (by omega)]
      have hb : (digitVal c != 255) = true := by simpa using hv
      simp only [hb, Bool.true_and]
      split
      · congr 1
        rw [value_cons, List.length_cons, Nat.pow_succ, Nat.add_mul, Nat.mul_assoc,
          Nat.mul_comm 58, Nat.add_assoc]
      · rfl

theorem chunks_nil {α} (n : Nat) : chunks n ([] : List α) = [] := by
  rw [chunks]; simp

theorem chunks_cons {α} (n : Nat) (l : List α) (hl : l ≠ []) (hn : n ≠ 0) :
    chunks n l = l.take n :: chunks n (l.drop n) := by
  rw [chunks]; simp [hl, hn]

theorem decLoop_spec (s : List UInt8) (x : Nat) (hx : x < two256) :
    decLoop x (chunks chunk s) =
      if allValid s && decide (x * 58 ^ s.length + value s < two256)
      then .ok (x * 58 ^ s.length + value s) else .error .badInput := by
  have hchunk : chunk = 10 := consts.2.2.1
  generalize hn : s.length = n
  induction n using Nat.strongRecOn generalizing s x with
  | ind n ih =>
    by_cases hs : s = []
    · subst hs
      have h0 : n = 0 := by simpa using hn.symm
      subst h0
      simp [chunks_nil, decLoop, allValid, value, hx]
    · rw [chunks_cons _ _ hs (by rw [hchunk]; decide)]
      have hpos : 0 < s.length := List.length_pos_iff.mpr hs
      have hsplit : s = s.take chunk ++ s.drop chunk := (List.take_append_drop _ _).symm
      have hlc : (s.take chunk).length = min chunk s.length := List.length_take
      have hc1 : 1 ≤ (s.take chunk).length := by rw [hlc, hchunk]; omega
      have hc10 : (s.take chunk).length ≤ 10 := by rw [hlc, hchunk]; omega
      simp only [decLoop]
      rw [chunkFold_spec 0 0 (s.take chunk) (by decide) (by omega)]
      have hval : value s = value (s.take chunk) * 58 ^ (s.drop chunk).length + value (s.drop chunk) := by
        conv => lhs; rw [hsplit]
        exact value_append _ _
      have hall : allValid s = (allValid (s.take chunk) && allValid (s.drop chunk)) := by
        conv => lhs; rw [hsplit]
        exact allValid_append _ _
      have hlen : s.length = (s.take chunk).length + (s.drop chunk).length := by
        conv => lhs; rw [hsplit]
        exact List.length_append
      by_cases hv : allValid (s.take chunk) = true
      · simp only [hv, if_true, Nat.zero_mul, Nat.zero_add]
        rw [radii_spec _ (by omega) hc1]
        -- x' * 58^|rest| + value rest = x * 58^|s| + value s
        have hkey : (x * 58 ^ (s.take chunk).length + value (s.take chunk)) * 58 ^ (s.drop chunk).length
            + value (s.drop chunk) = x * 58 ^ s.length + value s := by
          rw [hval, hlen, Nat.pow_add, Nat.add_mul, Nat.mul_assoc, Nat.add_assoc]
        by_cases hov : x * 58 ^ (s.take chunk).length + value (s.take chunk) ≥ two256
        · simp only [hov, if_true]
          have hp : 0 < 58 ^ (s.drop chunk).length := Nat.pow_pos (by decide)
          have : two256 ≤ x * 58 ^ s.length + value s := by
            rw [← hkey]
            calc two256 ≤ (x * 58 ^ (s.take chunk).length + value (s.take chunk)) * 1 := by omega
              _ ≤ (x * 58 ^ (s.take chunk).length + value (s.take chunk)) * 58 ^ (s.drop chunk).length :=
                  Nat.mul_le_mul_left _ hp
              _ ≤ _ := Nat.le_add_right _ _
          have hno : ¬ (x * 58 ^ n + value s < two256) := by rw [← hn]; omega
          simp [hno]
        · simp only [hov, if_false]
          have hdl : (s.drop chunk).length < n := by
            rw [← hn, List.length_drop, hchunk]; omega
          rw [ih _ hdl (s.drop chunk) _ (by omega) rfl, hkey, hall, hv, Bool.true_and, hn]
      · have hv' : allValid (s.take chunk) = false := by simpa using hv
        simp [hv', hall]

/-- **chunked decoding = digit-wise definition** -/
theorem decodeM_eq (s : List UInt8) : decodeM s = decodeSpec s := by
  unfold decodeM decodeSpec
  rw [decLoop_spec s 0 (by decide +kernel)]
  simp only [Nat.zero_mul, Nat.zero_add]
  by_cases h : (allValid s && decide (value s < two256)) = true
  · simp only [h, if_true]
  · simp only [h, if_false]; rfl

/-! ## word-level `Uint::fma` -/

theorem fmaWords_length (ws : List Nat) (y c : Nat) : (fmaWords ws y c).1.length = ws.length := by
  induction ws generalizing c with
  | nil => rfl
  | cons w ws ih => simp [fmaWords, mulAddWW, ih]

theorem fmaWords_lt (ws : List Nat) (y c : Nat) : ∀ w ∈ (fmaWords ws y c).1, w < 2 ^ 64 := by
  induction ws generalizing c with
  | nil => simp [fmaWords]
  | cons w ws ih =>
    intro x hx
    simp only [fmaWords, mulAddWW, List.mem_cons] at hx
    rcases hx with rfl | hx
    · exact Nat.mod_lt _ (by decide)
    · exact ih _ x hx

theorem alg (W P A c' Bv y hi lo w c : Nat) (h : A + P * c' = Bv * y + hi)
    (hm : lo + W * hi = w * y + c) :
    lo + W * A + P * W * c' = (w + W * Bv) * y + c := by
  have h' : W * (A + P * c') = W * (Bv * y + hi) := by rw [h]
  grind

/-- word-level `Uint::fma`: the new words and the final carry are exactly `X*y + c` -/
theorem fmaWords_val (ws : List Nat) (y c : Nat) :
    wordsVal (fmaWords ws y c).1 + (2 ^ 64) ^ ws.length * (fmaWords ws y c).2
      = wordsVal ws * y + c := by
  induction ws generalizing c with
  | nil => simp [fmaWords, wordsVal]
  | cons w ws ih =>
    have h := ih ((w * y + c) / 2 ^ 64)
    have hm := Nat.mod_add_div (w * y + c) (2 ^ 64)
    have := alg (2 ^ 64) ((2 ^ 64) ^ ws.length) _ _ _ y _ _ w c h hm
    rw [List.length_cons, Nat.pow_succ]
    exact this

theorem wordsVal_lt (ws : List Nat) (h : ∀ w ∈ ws, w < 2 ^ 64) : wordsVal ws < (2 ^ 64) ^ ws.length := by
  induction ws with
  | nil => simp [wordsVal]
  | cons w ws ih =>
    have h1 := ih (fun x hx => h x (by simp [hx]))
    have h2 : w < 2 ^ 64 := h w (by simp)
    simp only [wordsVal, List.length_cons, Nat.pow_succ]
    calc w + 2 ^ 64 * wordsVal ws < 2 ^ 64 + 2 ^ 64 * wordsVal ws := by omega
      _ = 2 ^ 64 * (wordsVal ws + 1) := by rw [Nat.mul_add, Nat.mul_one, Nat.add_comm]
      _ ≤ 2 ^ 64 * (2 ^ 64) ^ ws.length := Nat.mul_le_mul_left _ h1
      _ = (2 ^ 64) ^ ws.length * 2 ^ 64 := Nat.mul_comm _ _

/-- `Uint::fma` on words = the `Nat` model used by `decLoop`: it reports success (`c == 0`) iff
`X*y + r` fits in the words, and then the words hold exactly that number. -/
theorem fmaWords_eq_nat (ws : List Nat) (y c : Nat) :
    ((fmaWords ws y c).2 = 0 ↔ wordsVal ws * y + c < (2 ^ 64) ^ ws.length) ∧
    ((fmaWords ws y c).2 = 0 → wordsVal (fmaWords ws y c).1 = wordsVal ws * y + c) := by
  have hv := fmaWords_val ws y c
  have hl := wordsVal_lt (fmaWords ws y c).1 (fmaWords_lt ws y c)
  rw [fmaWords_length] at hl
  have hp : 0 < (2 ^ 64) ^ ws.length := Nat.pow_pos (by decide)
  generalize (2 ^ 64) ^ ws.length = P at *
  generalize (fmaWords ws y c).2 = c' at *
  refine ⟨⟨fun h0 => ?_, fun hlt => ?_⟩, fun h0 => ?_⟩
  · subst h0; omega
  · cases c' with
    | zero => rfl
    | succ k =>
      exfalso
      have : P ≤ P * (k + 1) := Nat.le_mul_of_pos_right P (by omega)
      omega
  · subst h0; omega

end AranyaV.Base58
